"""Translator tie for component Future (C10): the hand-copied overload families.

include/nstd/Future.hpp carries 22 hand-written copies of `start` (Future<void> and Future<A>, each for a
free function of 0..5 arguments and a member function of 0..4 arguments) plus the two `proc` templates;
include/nstd/Call.hpp carries the 22 matching call records (Call<A>::Func<N> / Args<N>, 0..5 arguments, and
Call<A>::Member<C>::Func<N> / Args<N>, 0..4 arguments).  coq/Future/FutureModel.v models ONE start:

    startProc(&proc<Record>, new Record(function [, object], arguments in order, this))     CStart .. CStartSet: JCall f n arg work
    proc:  [result =] record->call();  future->set();  delete record;                         WCall, WStore, WRdAbort/WSwap/WSigSet
    call:  function(arguments in order)   resp.  (object->*function)(arguments in order)      c_fn cfg arg

This module re-reads both headers on every run, writes the one template out for every arity and compares it token
by token with what the header says.  Only the places that must depend on the arity may differ (template parameter
lists, parameter lists, argument lists, member initialisers).  Anything else - an argument passed twice or out of
order, `this` dropped, a call record of another arity, a missing `call()`, a 23rd overload - is reported with the
overload it is in; checks/C10.py then raises TieBroken naming it (the stream `variants` runs every overload with an
argument echo and finds the failing input)."""
import os, re, sys
sys.path.insert(0, os.path.join(os.path.dirname(os.path.abspath(__file__)), '..', 'lib'))
from vf import TieBroken, REPO

FUT = 'include/nstd/Future.hpp'
CALL = 'include/nstd/Call.hpp'
TY = 'DEFGH'      # parameter types of the started function
AT = 'PQRST'      # types of the stored arguments
TOKEN = re.compile(r'[A-Za-z_]\w*|\d+|->\*|->|::|==|!=|<=|>=|\+\+|--|&&|\|\||\S')


def strip_comments(src):
    src = re.sub(r'/\*.*?\*/', ' ', src, flags=re.S)
    return re.sub(r'//[^\n]*', ' ', src)


def toks(text):
    return TOKEN.findall(text)


def _types(n):
    return ', '.join(TY[:n])


def _tparams(n, member):
    ps = (['class C'] if member else []) + ['typename %s' % c for c in TY[:n]] + ['typename %s' % c for c in AT[:n]]
    return 'template <%s> ' % ', '.join(ps) if ps else ''


def _record(ret, n, member):
    """the call record type named by start: Call<ret>[::Member<C>]::Args<n>[<D.., P..>]"""
    dep = (ret != 'void') or member or n > 0          # a dependent name needs `typename`
    s = 'typename ' if dep else ''
    s += 'Call<%s>::' % ret
    if member:
        s += 'template Member<C>::'
    if n == 0:
        s += 'Args0'
    else:
        s += 'template Args%d<%s, %s>' % (n, _types(n), ', '.join(AT[:n]))
    return s


def expected_start(ret, n, member):
    """ret = 'void' (class Future<void>) or 'A' (class Future<A>)"""
    call = 'startProc' if ret == 'void' else 'future.startProc'
    rec = _record(ret, n, member)
    fparam = '%s (C::*func)(%s)' % (ret, _types(n)) if member else '%s (*func)(%s)' % (ret, _types(n))
    params = (['C &c'] if member else []) + [fparam] + ['const %s &%s' % (AT[i], AT[i].lower()) for i in range(n)]
    args = (['c'] if member else []) + ['func'] + [AT[i].lower() for i in range(n)] + ['this']
    close = ' >' if (n > 0) else '>'
    return '%svoid start(%s) { %s((void (*)(void *)) & proc<%s%s, new %s(%s)); }' % (
        _tparams(n, member), ', '.join(params), call, rec, close, rec, ', '.join(args))


PROC_VOID = 'template <class A> void Future<void>::proc(A *a) { a->call(); ((Future<void> *)a->z)->set(); delete a; }'
PROC_A = ('template <typename A> template <class B> void Future<A>::proc(B *b) { ((Future<A> *)b->z)->result = b->call(); '
          '((Future<A> *)b->z)->future.set(); delete b; }')


def expected_func(n, member):
    tp = 'template <%s> ' % ', '.join('typename %s' % c for c in TY[:n]) if n else ''
    low = [c.lower() for c in TY[:n]]
    cparams = ', '.join('%s %s' % (TY[i], low[i]) for i in range(n))
    if member:
        s = ('%sstruct Func%d { C* c; A (C::*a)(%s); A call(%s) {return (c->*a)(%s);} Func%d(C& c, A (C::*a)(%s)) : c(&c), a(a) {} '
             % (tp, n, _types(n), cparams, ', '.join(low), n, _types(n)))
        if n == 0:
            s += 'Func0() {} '
        return s + '};'
    return ('%sstruct Func%d { A (*a)(%s); A call(%s) {return a(%s);} Func%d(A (*a)(%s)) : a(a) {} };'
            % (tp, n, _types(n), cparams, ', '.join(low), n, _types(n)))


def expected_args(n, member):
    tp = ('template <%s> ' % ', '.join(['typename %s' % c for c in TY[:n]] + ['typename %s' % c for c in AT[:n]])) if n else ''
    base = 'Func%d<%s>' % (n, _types(n)) if n else 'Func0'
    low = [c.lower() for c in AT[:n]]
    fields = ' '.join('%s %s;' % (AT[i], low[i]) for i in range(n))
    cargs = ''.join(', const %s& %s' % (AT[i], low[i]) for i in range(n))
    inits = ''.join(', %s(%s)' % (x, x) for x in low)
    if member:
        return ('%sstruct Args%d : public %s { %s void* z; A call() {return (%s::c->*%s::a)(%s);} '
                'Args%d(C& c, A (C::*a)(%s)%s, void* z) : %s(c, a)%s, z(z) {} };'
                % (tp, n, base, fields, base, base, ', '.join(low), n, _types(n), cargs, base, inits))
    return ('%sstruct Args%d : public %s { %s void* z; A call() {return %s::a(%s);} '
            'Args%d(A (*a)(%s)%s, void* z) : %s(a)%s, z(z) {} };'
            % (tp, n, base, fields, base, ', '.join(low), n, _types(n), cargs, base, inits))


def _find(hay, needle, start=0, stop=None):
    """positions of the token list needle in hay[start:stop]"""
    out = []
    stop = len(hay) if stop is None else stop
    if not needle:
        return out
    first = needle[0]
    for k in range(start, stop - len(needle) + 1):
        if hay[k] == first and hay[k:k + len(needle)] == needle:
            out.append(k)
    return out


def _near(hay, needle, start, stop):
    """best partial match: the place in hay[start:stop] that agrees with the longest prefix of needle"""
    best, where = -1, start
    for k in range(start, stop):
        if hay[k] != needle[0]:
            continue
        m = 0
        while m < len(needle) and k + m < stop and hay[k + m] == needle[m]:
            m += 1
        if m > best:
            best, where = m, k
    if best < 0:
        return 'nothing similar found'
    return ('agrees up to token %d; expected `%s`, the header says `%s`'
            % (best, ' '.join(needle[max(0, best - 4):best + 4]), ' '.join(hay[where + max(0, best - 4):where + best + 4])))


def _read(rel):
    try:
        return toks(strip_comments(open(os.path.join(REPO, rel), encoding='latin-1').read()))
    except OSError as e:
        raise TieBroken('cannot read %s: %s' % (rel, e))


def _class_span(t, header):
    """token span of the class body that starts with the token list header followed (later) by `{`"""
    pos = _find(t, header)
    for p in pos:
        k = p + len(header)
        while k < len(t) and t[k] not in ('{', ';'):
            k += 1
        if k < len(t) and t[k] == '{':
            depth, e = 0, k
            while e < len(t):
                if t[e] == '{':
                    depth += 1
                elif t[e] == '}':
                    depth -= 1
                    if depth == 0:
                        return k, e
                e += 1
    return None


def compare_templates():
    """-> (differences, summary); differences = [(name of the overload, message)]"""
    diffs = []
    # ---- Future.hpp ----
    t = _read(FUT)
    spans = {'void': _class_span(t, toks('template <> class Future<void>')), 'A': _class_span(t, toks('template <typename A> class Future'))}
    for ret, sp in spans.items():
        cls = 'Future<%s>' % ret
        if not sp:
            diffs.append((cls, 'class %s not found in %s' % (cls, FUT)))
            continue
        a, b = sp
        nstart = len(_find(t, ['void', 'start', '('], a, b))
        if nstart != 11:
            diffs.append((cls + '::start', '%s declares %d overloads of start, the model knows 11 (free 0-5, member 0-4)' % (cls, nstart)))
        for member in (False, True):
            for n in range(5 if member else 6):
                name = '%s::start(%s function, %d argument%s)' % (cls, 'member' if member else 'free', n, '' if n == 1 else 's')
                exp = toks(expected_start(ret, n, member))
                if n == 0 and not member:
                    # no template header: make sure the match is not the tail of a template overload
                    hits = [k for k in _find(t, exp, a, b) if t[k - 1] != '>']
                else:
                    hits = _find(t, exp, a, b)
                if len(hits) != 1:
                    diffs.append((name, '%s is not the start template written out (%d matches): %s' % (name, len(hits), _near(t, exp, a, b))))
    for name, text in (('Future<void>::proc', PROC_VOID), ('Future<A>::proc', PROC_A)):
        exp = toks(text)
        if len(_find(t, exp)) != 1:
            diffs.append((name, '%s is not `call; set; delete`: %s' % (name, _near(t, exp, 0, len(t)))))
    # ---- Call.hpp ----
    c = _read(CALL)
    msp = _class_span(c, toks('template <class C> struct Member'))
    csp = _class_span(c, toks('template <typename A> struct Call'))
    if not msp or not csp:
        diffs.append(('Call', 'struct Call / struct Member not found in %s' % CALL))
    else:
        nstruct = len(_find(c, ['struct'], csp[0], csp[1]))
        if nstruct != 1 + 10 + 12:
            diffs.append(('Call', 'Call<A> declares %d structs, the model knows 23 (Member, 5+5 member records, 6+6 free records)' % nstruct))
        for member in (True, False):
            for n in range(5 if member else 6):
                for kind, fn in (('Func', expected_func), ('Args', expected_args)):
                    name = 'Call<A>::%s%s%d' % ('Member<C>::' if member else '', kind, n)
                    exp = toks(fn(n, member))
                    if member:
                        hits = _find(c, exp, msp[0], msp[1])
                        lo, hi = msp
                    else:
                        hits = [k for k in _find(c, exp, csp[0], csp[1]) if not (msp[0] <= k <= msp[1])]
                        if n == 0:
                            hits = [k for k in hits if c[k - 1] != '>']
                        lo, hi = msp[1], csp[1]
                    if len(hits) != 1:
                        diffs.append((name, '%s is not the record template written out (%d matches): %s' % (name, len(hits), _near(c, exp, lo, hi))))
    summary = ('Future.hpp: 22 start overloads + 2 proc templates, Call.hpp: 22 Func<N> + 22... records compared token by token with the '
               'single template each (free functions of 0-5 arguments, member functions of 0-4 arguments)')
    summary = ('Future.hpp: 22 start overloads and 2 proc templates, Call.hpp: 11 Func<N> and 11 Args<N> pairs, each compared token by '
               'token with the one template written out for its arity')
    return diffs, summary


if __name__ == '__main__':
    d, s = compare_templates()
    print(s)
    for x in d:
        print(x)
