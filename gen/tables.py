"""Table translator (engine E7): regenerates coq/<Comp>/Gen_*.v from the repository's source
text on every run.  Small on purpose; it is part of the trusted base.

It is STRICT: whatever it cannot read unambiguously raises TieBroken - an old file is never
silently reused and nothing is ever guessed:
  * comments are removed by a small lexer that knows string and character literals;
  * a function is located by name AND parameter types, exactly one definition may match, its body is
    found by brace matching, no preprocessor directive may occur inside the body and the definition
    must not sit inside an #if/#ifdef region;
  * a table must be the only initialiser of that (word-anchored) name in the region searched, the
    name may otherwise only be indexed, a declared size [N] must equal the number of entries
    (C zero-fill is not modelled), the element type must resolve (through the typedefs of the file and
    of nstd/Base.hpp) to a builtin integer type and every entry must fit it; the width is written to
    the Gen file next to the values;
  * single constants (HMAC pads, hex digit string) must be the only assignment to their variable and
    the pattern is anchored at the terminating `;`;
  * Sha256::reset must consist of nothing but the known plain assignments (no control flow).
tools/test_tables.py feeds it adversarial variants of the sources."""
import os, re, sys
sys.path.insert(0, os.path.join(os.path.dirname(os.path.abspath(__file__)), '..', 'lib'))
from vf import TieBroken, REPO, COQ


# ---- lexing ------------------------------------------------------------------------------------

def lex(src):
    """-> (clean, masked), both exactly as long as src.  clean: comments blanked (newlines kept),
    literals kept.  masked: additionally the inside of string/character literals replaced by '_'
    (for brace matching and occurrence counting)."""
    clean, masked = [], []
    i, n = 0, len(src)

    def put(c, m=None):
        clean.append(c)
        masked.append(c if m is None else m)

    while i < n:
        c = src[i]
        two = src[i:i + 2]
        if two == '//':
            while i < n and src[i] != '\n':
                if src[i] == '\\' and src[i + 1:i + 2] == '\n':     # continued line comment
                    put(' ')
                    put('\n')
                    i += 2
                    continue
                put(' ')
                i += 1
        elif two == '/*':
            j = src.find('*/', i + 2)
            if j < 0:
                raise TieBroken('unterminated /* comment')
            for ch in src[i:j + 2]:
                put('\n' if ch == '\n' else ' ')
            i = j + 2
        elif c == '"' or c == "'":
            if c == '"' and i > 0 and src[i - 1] == 'R' and not (i > 1 and (src[i - 2].isalnum() or src[i - 2] == '_')):
                raise TieBroken('raw string literal: not supported by the translator')
            put(c)
            i += 1
            while True:
                if i >= n or src[i] == '\n':
                    raise TieBroken('unterminated %s literal' % ('string' if c == '"' else 'character'))
                if src[i] == '\\' and i + 1 < n and src[i + 1] != '\n':
                    put(src[i], '_')
                    put(src[i + 1], '_')
                    i += 2
                    continue
                if src[i] == c:
                    put(c)
                    i += 1
                    break
                put(src[i], '_')
                i += 1
        else:
            put(c)
            i += 1
    return ''.join(clean), ''.join(masked)


def strip_comments(src):
    return lex(src)[0]


def read(rel, root=None):
    p = os.path.join(root or REPO, rel)
    try:
        return open(p, encoding='latin-1').read()
    except OSError as e:
        raise TieBroken('cannot read %s: %s' % (rel, e))


class Source:
    def __init__(self, rel, root=None, text=None):
        self.rel = rel
        self.text = read(rel, root) if text is None else text
        try:
            self.clean, self.masked = lex(self.text)
        except TieBroken as e:
            raise TieBroken('%s: %s' % (rel, e))

    def line(self, pos):
        return self.text.count('\n', 0, pos) + 1


DIRECTIVE = re.compile(r'^[ \t]*#[ \t]*(\w+)', flags=re.M)


def cond_depth(src, pos):
    """nesting depth of #if/#ifdef/#ifndef regions at pos (an #else/#elif branch counts as inside)."""
    d = 0
    for m in DIRECTIVE.finditer(src.masked, 0, pos):
        if m.group(1) in ('if', 'ifdef', 'ifndef'):
            d += 1
        elif m.group(1) == 'endif':
            d -= 1
    return d


def no_directives(src, a, b, what):
    m = DIRECTIVE.search(src.masked, a, b)
    if m:
        raise TieBroken('%s (%s:%d): preprocessor directive #%s inside the region the translator reads' %
                        (what, src.rel, src.line(m.start()), m.group(1)))


def match_close(src, i, open_c, close_c):
    """index of the bracket closing the one at i (on the masked text)."""
    d = 0
    for k in range(i, len(src.masked)):
        ch = src.masked[k]
        if ch == open_c:
            d += 1
        elif ch == close_c:
            d -= 1
            if d == 0:
                return k
    raise TieBroken('%s:%d: unbalanced %s' % (src.rel, src.line(i), open_c))


def param_types(text):
    out = []
    for p in text.split(','):
        p = ' '.join(p.split())
        p = re.sub(r'\s*([*&\[\]()])\s*', r'\1', p)
        p = re.sub(r'\(([*&])\w+\)', r'(\1)', p)                                         # byte (&result)[N] -> byte(&)[N]
        q = re.sub(r'(?<![\w])(\w+)$', '', p) if re.search(r'[\s*&]\w+$', p) else p      # drop the parameter name
        out.append(q.strip())
    return [] if out == [''] else out


def find_function(src, head_regex, want_params, what):
    """The body (a, b) = positions of { and } of the ONE definition whose head matches head_regex and whose
    parameter types are want_params.  Other overloads are ignored; two matching definitions, a
    definition inside a conditional region or a directive inside the body raise."""
    found = []
    for m in re.finditer(head_regex + r'\s*\(', src.masked):
        po = m.end() - 1
        pc = match_close(src, po, '(', ')')
        k = re.compile(r'\s*(?:const\s*)?\{').match(src.masked, pc + 1)
        if not k:
            continue                                           # a declaration or a call
        if param_types(src.clean[po + 1:pc]) != want_params:
            continue
        a = k.end() - 1
        found.append((m.start(), a, match_close(src, a, '{', '}')))
    if len(found) != 1:
        raise TieBroken('%s: %d definitions with parameters (%s) in %s, need exactly one' %
                        (what, len(found), ', '.join(want_params), src.rel))
    start, a, b = found[0]
    if cond_depth(src, start) != 0:
        raise TieBroken('%s (%s:%d) is defined inside an #if region' % (what, src.rel, src.line(start)))
    no_directives(src, start, b, what)
    return a, b


# ---- literals and types ----------------------------------------------------------------------------

ESC = {'n': 10, 'r': 13, 't': 9, '0': 0, '\\': 92, "'": 39, '"': 34, 'a': 7, 'b': 8, 'f': 12, 'v': 11, '?': 63}


def c_int(tok):
    tok = tok.strip()
    if tok.startswith("'"):
        m = re.fullmatch(r"'(?:\\(.)|([^\\']))'", tok, flags=re.S)
        if not m:
            raise ValueError('character literal %s not understood' % tok)
        if m.group(1) is not None:
            if m.group(1) not in ESC:
                raise ValueError('unknown escape in %s' % tok)
            return ESC[m.group(1)]
        return ord(m.group(2))
    m = re.fullmatch(r'(-?)\s*(0[xX][0-9a-fA-F]+|\d+)([uU]?[lL]{0,2}|[lL]{1,2}[uU])', tok)
    if not m:
        raise ValueError('integer literal %r not understood' % tok)
    d = m.group(2)
    v = int(d, 16) if d[:2].lower() == '0x' else (int(d, 8) if len(d) > 1 and d[0] == '0' else int(d))
    return -v if m.group(1) else v


BUILTIN = {}
for _names, _bits, _signed in (
        (('unsigned char',), 8, False), (('char', 'signed char'), 8, True),
        (('unsigned short', 'unsigned short int', 'short unsigned int'), 16, False), (('short', 'short int', 'signed short'), 16, True),
        (('unsigned', 'unsigned int'), 32, False), (('int', 'signed', 'signed int'), 32, True),
        (('unsigned long long', 'unsigned long long int', 'long long unsigned int', 'unsigned long', 'unsigned long int', 'long unsigned int'), 64, False),
        (('long long', 'long long int', 'long', 'long int'), 64, True)):
    for _n in _names:
        BUILTIN[_n] = (_bits, _signed)


def resolve_type(name, sources, what, depth=0):
    """declared element type -> (bits, signed) on x86-64 LP64, through typedefs of the given sources."""
    name = ' '.join(w for w in name.split() if w not in ('static', 'const', 'constexpr', 'volatile', 'register'))
    if name in BUILTIN:
        return BUILTIN[name]
    if depth > 4 or not re.fullmatch(r'\w+', name):
        raise TieBroken('%s: element type `%s` not understood' % (what, name))
    res = set()
    for s in sources:
        for m in re.finditer(r'\btypedef\s+([\w\s]+?)\s+%s\s*;' % re.escape(name), s.masked):
            res.add(resolve_type(m.group(1), sources, what, depth + 1))
        if re.search(r'^[ \t]*#[ \t]*define\s+%s\b' % re.escape(name), s.masked, flags=re.M):
            raise TieBroken('%s: element type `%s` is a macro' % (what, name))
    if len(res) != 1:
        raise TieBroken('%s: element type `%s` resolves to %d different builtin types' % (what, name, len(res)))
    return res.pop()


def fits(v, ty):
    bits, signed = ty
    return (-(1 << (bits - 1)) <= v < (1 << (bits - 1))) if signed else (0 <= v < (1 << bits))


def int_array(src, a, b, name, typedef_sources, what):
    """the one `<type> <name>[N?] = { a, b, ... };` between positions a and b -> (values, (bits, signed))"""
    nm = r'(?<![\w:])' + re.escape(name) + r'\b'
    occ = list(re.finditer(nm, src.masked[a:b]))
    inits = [m for m in occ if re.match(r'\s*(?:\[[^\]]*\])?\s*=?\s*\{', src.masked[a + m.end():b])]
    if len(inits) != 1:
        raise TieBroken('%s: %d initialisers of `%s` in %s, need exactly one' % (what, len(inits), name, src.rel))
    at = a + inits[0].start()
    m = re.compile(nm + r'\s*\[([^\]]*)\]\s*=\s*\{([^{}]*)\}\s*;').match(src.clean, at)
    if not m or m.end() > b:
        raise TieBroken('%s (%s:%d): initialiser of `%s` is not of the form  name[..] = { .. };' % (what, src.rel, src.line(at), name))
    for o in occ:
        if o is not inits[0] and not re.match(r'\s*\[', src.masked[a + o.end():b]):
            raise TieBroken('%s (%s:%d): `%s` is used other than by indexing' % (what, src.rel, src.line(a + o.start()), name))
    if cond_depth(src, at) != 0:
        raise TieBroken('%s (%s:%d): `%s` is initialised inside an #if region' % (what, src.rel, src.line(at), name))
    no_directives(src, at, m.end(), what)
    # declared type = the text between the previous ; { } and the name
    k = max(src.masked.rfind(ch, 0, at) for ch in ';{}')
    ty = resolve_type(src.clean[k + 1:at], typedef_sources, what)
    toks = m.group(2).split(',')
    if toks and not toks[-1].strip():
        toks.pop()                                             # one trailing comma is C
    try:
        vals = [c_int(t) for t in toks]
    except ValueError as e:
        raise TieBroken('%s (%s:%d): cannot evaluate an entry of `%s`: %s' % (what, src.rel, src.line(at), name, e))
    if m.group(1).strip():
        try:
            decl = c_int(m.group(1))
        except ValueError as e:
            raise TieBroken('%s: declared size of `%s`: %s' % (what, name, e))
        if decl != len(vals):
            raise TieBroken('%s (%s:%d): `%s` declares %d elements, the initialiser has %d (zero-fill / excess is not modelled)' %
                            (what, src.rel, src.line(at), name, decl, len(vals)))
    for v in vals:
        if not fits(v, ty):
            raise TieBroken('%s (%s:%d): entry %d of `%s` does not fit its element type (%d bit %s)' %
                            (what, src.rel, src.line(at), v, name, ty[0], 'signed' if ty[1] else 'unsigned'))
    return vals, ty


def sole_assignment(src, a, b, var, strict_regex, what):
    """`var` must be assigned exactly once between a and b, by a statement matching strict_regex (anchored at `;`)."""
    loose = list(re.finditer(r'(?<![\w.>])%s\s*(?:\[[^\]]*\]\s*)?(?:<<|>>|[-+*/%%^|&])?=(?!=)' % re.escape(var), src.masked[a:b]))
    incs = re.findall(r'(?:\+\+|--)\s*%s\b|(?<![\w.>])%s\s*(?:\[[^\]]*\]\s*)?(?:\+\+|--)' % (re.escape(var), re.escape(var)), src.masked[a:b])
    if len(loose) != 1 or incs:
        raise TieBroken('%s: `%s` is assigned %d times in %s, need exactly one plain assignment' % (what, var, len(loose) + len(incs), src.rel))
    at = a + loose[0].start()
    m = re.compile(strict_regex).match(src.clean, at)
    if not m or m.end() > b:
        raise TieBroken('%s (%s:%d): assignment to `%s` is not of the expected form' % (what, src.rel, src.line(at), var))
    return m


# ---- output ------------------------------------------------------------------------------------------

def write_v(comp, fname, header, defs):
    """defs: list of (name, coq type, coq term text)"""
    p = os.path.join(COQ, comp, fname)
    txt = '(* GENERATED by gen/tables.py from %s on every run - do not edit *)\n' % header
    txt += 'From Coq Require Import ZArith List String.\nImport ListNotations.\nLocal Open Scope Z_scope.\n\n'
    for name, ty, term in defs:
        txt += 'Definition %s : %s :=\n  %s.\n\n' % (name, ty, term)
    old = None
    try:
        old = open(p).read()
    except OSError:
        pass
    if old != txt:
        open(p, 'w').write(txt)
    return os.path.relpath(p, os.path.join(COQ, '..'))


def zlist(xs, per=8):
    rows = []
    for i in range(0, len(xs), per):
        rows.append('; '.join(str(x) if x >= 0 else '(%d)' % x for x in xs[i:i + per]))
    return '[' + ';\n   '.join(rows) + ']'


def unsigned_bits(ty, what):
    if ty[1]:
        raise TieBroken('%s: signed element type (the models hold these tables as unsigned words)' % what)
    return str(ty[0])


# ---- SHA-256 --------------------------------------------------------------------------------

LIT = r'(0[xX][0-9a-fA-F]+[uUlL]*|\d+[uUlL]*)'


def read_sha(root=None):
    cpp = Source('src/Crypto/Sha256.cpp', root)
    hpp = Source('include/nstd/Crypto/Sha256.hpp', root)
    base = Source('include/nstd/Base.hpp', root)
    tds = [cpp, hpp, base]
    K, kty = int_array(cpp, 0, len(cpp.clean), 'Sha256::Private::K', tds, 'SHA-256 round constants')
    # reset(): nothing but  CSha256 *p = this;  p->state[i] = <literal>;  p->count = 0;
    a, b = find_function(cpp, r'\bvoid\s+Sha256::reset', [], 'Sha256::reset')
    st = {}
    for stmt in cpp.clean[a + 1:b].split(';'):
        s = ' '.join(stmt.split())
        if not s or re.fullmatch(r'CSha256 ?\* ?p = this', s) or re.fullmatch(r'p ?-> ?count = 0', s):
            continue
        m = re.fullmatch(r'p ?-> ?state ?\[ ?(\d+) ?\] = ' + LIT, s)
        if not m:
            raise TieBroken('Sha256::reset: statement `%s` is not one of the plain assignments the translator knows' % s[:60])
        if int(m.group(1)) in st:
            raise TieBroken('Sha256::reset: state[%s] is assigned twice' % m.group(1))
        st[int(m.group(1))] = c_int(m.group(2))
    if sorted(st) != list(range(8)):
        raise TieBroken('Sha256::reset: could not read the 8 initial state words (got indices %s)' % sorted(st))
    H0 = [st[i] for i in range(8)]
    ms = re.findall(r'(?<![\w])([\w ]+?)\s+state\s*\[\s*8\s*\]\s*;', hpp.masked)
    if len(ms) != 1:
        raise TieBroken('Sha256.hpp: %d declarations `<type> state[8];`, need exactly one' % len(ms))
    hty = resolve_type(ms[0], tds, 'Sha256::state')
    for v in H0:
        if not fits(v, hty):
            raise TieBroken('Sha256::reset: %d does not fit the type of state[]' % v)
    # hmac(): the two pad constants
    a, b = find_function(hpp, r'\bstatic\s+void\s+hmac', ['const byte*', 'usize', 'const byte*', 'usize', 'byte(&)[digestSize]'], 'Sha256::hmac')
    pads = {}
    for var in ('oKeyPad', 'iKeyPad'):
        m = sole_assignment(hpp, a, b, var, var + r'\s*\[\s*i\s*\]\s*=\s*hashKey\s*\[\s*i\s*\]\s*\^\s*' + LIT + r'\s*;', 'Sha256::hmac')
        pads[var] = c_int(m.group(1))
        if not 0 <= pads[var] <= 255:
            raise TieBroken('Sha256::hmac: pad constant %d is not a byte' % pads[var])
    # No state shared between hasher objects: the model gives every Sha256 object a state of its own (eight words, counter,
    # buffer) and Transform/WriteByteBlock/update/finalize/hash/hmac only locals.  Storage of static duration other than
    # the constant table K would be shared by all objects (and by all threads): every `static` in the two files must be
    # one of the known declarations.
    allowed = {cpp.rel: [r'const\s+UInt32\s+K\s*\[\s*64\s*\]\s*;', r'void\s+Transform\s*\(', r'void\s+WriteByteBlock\s*\('],
               hpp.rel: [r'const\s+usize\s+blockSize\s*=', r'const\s+usize\s+digestSize\s*=', r'void\s+hash\s*\(', r'void\s+hmac\s*\(']}
    for src in (cpp, hpp):
        for m in re.finditer(r'(?<![\w])(static|thread_local|extern)(?![\w])', src.masked):
            rest = src.masked[m.end():m.end() + 200]
            if m.group(1) != 'static' or not any(re.match(r'\s+' + rx, rest) for rx in allowed[src.rel]):
                raise TieBroken('%s:%d: `%s %s` - storage shared between Sha256 objects (the model has none besides the table K)'
                                % (src.rel, src.line(m.start()), m.group(1), ' '.join(rest.split())[:40]))
    return {'K': K, 'K_type': kty, 'H0': H0, 'H0_type': hty, 'opad': pads['oKeyPad'], 'ipad': pads['iKeyPad'],
            'header': cpp.rel + ' and ' + hpp.rel}


def gen_sha():
    t = read_sha()
    return write_v('Sha', 'Gen_Sha.v', t['header'], [
        ('gen_K', 'list Z', zlist(t['K'])),
        ('gen_K_bits', 'Z', unsigned_bits(t['K_type'], 'K')),
        ('gen_H0', 'list Z', zlist(t['H0'])),
        ('gen_H0_bits', 'Z', unsigned_bits(t['H0_type'], 'state')),
        ('gen_opad', 'Z', str(t['opad'])),
        ('gen_ipad', 'Z', str(t['ipad'])),
    ])


# ---- Codec (C18): base64 decode table, hex digit string, UTF-8 offsets ------------------------

def read_codec(root=None):
    cpp = Source('src/String.cpp', root)
    uni = Source('include/nstd/Unicode.hpp', root)
    base = Source('include/nstd/Base.hpp', root)
    a, b = find_function(cpp, r'\bString\s+String::fromBase64', ['const String&'], 'String::fromBase64')
    b64, bty = int_array(cpp, a, b, 'base64de', [cpp, base], 'String::fromBase64')
    a, b = find_function(cpp, r'\bString\s+String::fromHex', ['const byte*', 'usize'], 'String::fromHex')
    m = sole_assignment(cpp, a, b, 'hex', r'hex\s*=\s*"([^"\\]*)"\s*;', 'String::fromHex')
    if not re.search(r'\bconst\s+char\s*\*\s*$', cpp.clean[a:m.start()]):
        raise TieBroken('String::fromHex: `hex` is not declared as  const char* hex = "..";')
    for o in re.finditer(r'\bhex\b', cpp.masked[a:b]):
        if a + o.start() != m.start() and not re.match(r'\s*\[', cpp.masked[a + o.end():b]):
            raise TieBroken('String::fromHex: `hex` is used other than by indexing')
    hexd = [ord(c) for c in m.group(1)]
    a, b = find_function(uni, r'\bstatic\s+uint32\s+fromString', ['const char*', 'usize'], 'Unicode::fromString')
    offs, oty = int_array(uni, a, b, 'utf8Offsets', [uni, base], 'Unicode::fromString')
    return {'base64de': b64, 'base64de_type': bty, 'hexdigits': hexd, 'utf8Offsets': offs, 'utf8Offsets_type': oty,
            'header': cpp.rel + ' and ' + uni.rel}


def gen_codec():
    t = read_codec()
    return write_v('Codec', 'Gen_Codec.v', t['header'], [
        ('gen_base64de', 'list Z', zlist(t['base64de'], 16)),
        ('gen_base64de_bits', 'Z', unsigned_bits(t['base64de_type'], 'base64de')),
        ('gen_hexdigits', 'list Z', zlist(t['hexdigits'], 16)),
        ('gen_utf8Offsets', 'list Z', zlist(t['utf8Offsets'])),
        ('gen_utf8Offsets_bits', 'Z', unsigned_bits(t['utf8Offsets_type'], 'utf8Offsets')),
    ])


# ---- Str (C06): the two case-mapping tables of String.cpp --------------------------------------

def read_str(root=None):
    src = Source('src/String.cpp', root)
    out = {'header': src.rel}
    for cname in ('lowerCaseMap', 'upperCaseMap'):
        ms = list(re.finditer(r'(?<![\w])String::' + cname + r'\s*\[', src.masked))
        if len(ms) != 1:
            raise TieBroken('String::%s: %d definitions in %s, need exactly one' % (cname, len(ms), src.rel))
        at = ms[0].start()
        m = re.compile(r'String::' + cname + r'\s*\[\s*0x101\s*\]\s*=\s*"((?:\\x[0-9a-fA-F]{2})*)"\s*;').match(src.clean, at)
        if not m or not re.search(r'(?<![\w])char\s+$', src.clean[:at]):
            raise TieBroken('char String::%s[0x101] = "\\x.."; not found in %s' % (cname, src.rel))
        if cond_depth(src, at) != 0:
            raise TieBroken('String::%s is defined inside an #if region' % cname)
        vals = [int(h, 16) for h in re.findall(r'\\x([0-9a-fA-F]{2})', m.group(1))]
        if len(vals) != 256:
            raise TieBroken('String::%s has %d entries, expected 256' % (cname, len(vals)))
        out[cname] = vals
    return out


def gen_str():
    t = read_str()
    return write_v('Str', 'Gen_Str.v', t['header'],
                   [('gen_' + c, 'list Z', zlist(t[c], 16)) for c in ('lowerCaseMap', 'upperCaseMap')])


# ---- Hash (C02): the default capacity of the three hash containers, the multiplier of hash(const String&) ----

def read_hash(root=None):
    """The bucket count a default- or copy-constructed HashMap/HashSet/PoolMap starts with: the literal in the
    mem-initialiser `capacity(<n>)` of `X()` and `X(const X& other)`.  The model has ONE default_capacity, so the
    five constructors must agree.  Also the multiplier used (three times) by hash(const String&)."""
    caps = {}
    rels = []
    for cls in ('HashMap', 'HashSet', 'PoolMap'):
        src = Source('include/nstd/%s.hpp' % cls, root)
        rels.append(src.rel)
        ctors = [('default', r'(?<![\w~])%s\s*\(\s*\)\s*:' % cls)]
        if cls != 'PoolMap':
            ctors.append(('copy', r'(?<![\w~])%s\s*\(\s*const\s+%s\s*&\s*\w+\s*\)\s*:' % (cls, cls)))
        for what, rx in ctors:
            ms = list(re.finditer(rx, src.masked))
            if len(ms) != 1:
                raise TieBroken('%s: %d %s constructors with a mem-initialiser list in %s, need exactly one' % (cls, len(ms), what, src.rel))
            a = ms[0].end()
            b = src.masked.find('{', a)
            if b < 0:
                raise TieBroken('%s %s constructor: no body' % (cls, what))
            no_directives(src, ms[0].start(), b, '%s %s constructor' % (cls, what))
            inits = re.findall(r'(?<![\w])capacity\s*\(([^()]*)\)', src.clean[a:b])
            if len(inits) != 1 or not re.fullmatch(r'\s*\d+[uUlL]*\s*', inits[0]):
                raise TieBroken('%s %s constructor (%s:%d): expected exactly one mem-initialiser capacity(<integer literal>), found %r'
                                % (cls, what, src.rel, src.line(a), inits))
            caps['%s %s' % (cls, what)] = c_int(inits[0])
    vals = sorted(set(caps.values()))
    if len(vals) != 1:
        raise TieBroken('default capacities differ between constructors (the model has one default_capacity): %r' % caps)
    s = Source('include/nstd/String.hpp', root)
    a, b = find_function(s, r'\binline\s+usize\s+hash', ['const String&'], 'hash(const String&)')
    muls = re.findall(r'\bhashCode\s*\*=\s*(\d+)\s*;', s.clean[a:b])
    if len(muls) != 3 or len(set(muls)) != 1:
        raise TieBroken('hash(const String&): expected three statements hashCode *= <one literal>; found %r' % muls)
    rels.append(s.rel)
    # hash(const void* v) {return (usize)v >> (sizeof(void*) / A + B);}   with 8-byte pointers (the harness is built for x86-64)
    base = Source('include/nstd/Base.hpp', root)
    a, b = find_function(base, r'\binline\s+usize\s+hash', ['const void*'], 'hash(const void*)')
    m = re.fullmatch(r'\{\s*return\s*\(\s*usize\s*\)\s*v\s*>>\s*\(\s*sizeof\s*\(\s*void\s*\*\s*\)\s*/\s*(\d+)\s*\+\s*(\d+)\s*\)\s*;\s*\}', base.clean[a:b + 1])
    if not m or int(m.group(1)) == 0:
        raise TieBroken('hash(const void*): body is not  return (usize)v >> (sizeof(void*) / <n> + <m>);  but %r' % base.clean[a:b + 1])
    rels.append(base.rel)
    ints = {}
    for ty in ('int8', 'uint8', 'int16', 'uint16', 'int32', 'uint32', 'int64', 'uint64'):
        a, b = find_function(base, r'\binline\s+usize\s+hash', [ty], 'hash(%s)' % ty)
        if not re.fullmatch(r'\{\s*return\s*\(\s*usize\s*\)\s*v\s*;\s*\}', base.clean[a:b + 1]):
            raise TieBroken('hash(%s): body is not  return (usize)v;  but %r (the model uses v mod 2^64)' % (ty, base.clean[a:b + 1]))
    return {'default_capacity': vals[0], 'str_hash_mult': int(muls[0]), 'ptr_hash_shift': 8 // int(m.group(1)) + int(m.group(2)),
            'header': ', '.join(rels)}


def gen_hash():
    t = read_hash()
    return write_v('Hash', 'Gen_Hash.v', t['header'], [
        ('gen_default_capacity', 'Z', str(t['default_capacity'])),
        ('gen_str_hash_mult', 'Z', str(t['str_hash_mult'])),
        ('gen_ptr_hash_shift', 'Z', str(t['ptr_hash_shift'])),
    ])


# ---- Hash (C02), integer key types: width/signedness of int8..uint64 as Base.hpp declares them, hash(T) = (usize)v ----

def read_hash_keys(root=None):
    """For each integer key type T the harness instantiates the containers with: the builtin type its typedef in
    nstd/Base.hpp resolves to (bits, signed; every conditional branch of the header must agree) and the body of the
    overload `inline usize hash(T v)`, which must be exactly `return (usize)v;` - the model computes that conversion as
    "the value of v modulo 2^64" (hash_cast), usize being the 64-bit type of the x86-64 build (asserted by the harness)."""
    base = Source('include/nstd/Base.hpp', root)
    types = {}
    for ty in ('int8', 'uint8', 'int16', 'uint16', 'int32', 'uint32', 'int64', 'uint64'):
        a, b = find_function(base, r'\binline\s+usize\s+hash', [ty], 'hash(%s)' % ty)
        if not re.fullmatch(r'\{\s*return\s*\(\s*usize\s*\)\s*v\s*;\s*\}', base.clean[a:b + 1]):
            raise TieBroken('hash(%s): body is not  return (usize)v;  but %r (the model converts the value to 64 bits unsigned)' % (ty, base.clean[a:b + 1]))
        bits, signed = resolve_type(ty, [base], 'key type %s' % ty)
        if bits > 64:
            raise TieBroken('key type %s is wider than usize' % ty)
        types[ty] = (bits, signed)
    return {'header': base.rel, 'types': types}


def gen_hash_keys():
    t = read_hash_keys()
    defs = []
    for ty, (bits, signed) in t['types'].items():
        defs.append(('gen_%s_bits' % ty, 'Z', str(bits)))
        defs.append(('gen_%s_signed' % ty, 'bool', 'true' if signed else 'false'))
    return write_v('Hash', 'Gen_HashKeys.v', t['header'], defs)


if __name__ == '__main__':
    print(globals()['gen_' + sys.argv[1]]())
