"""Translator tie for component Callback (C12).

include/nstd/Callback.hpp carries NINE hand-written copies (0..8 signal arguments) of each of
  * Emitter::emit            - the emission loop (the only copy-pasted piece with behaviour in it),
  * Callback::connect / Callback::disconnect - the typed front ends of the two untyped functions of Callback.cpp,
  * MemberFuncPtr<N>         - the typed view of the stored slot pointer used by emit.
coq/Callback/CallbackModel.v models ONE emission loop (emit_begin / emit_next / invalidated / emit_end):

    SignalActivation activation(this, signal);                       emit_begin   (+ emit_end when the scope is left)
    for(i = activation.begin; i != activation.end; ++i) {            emit_next: advance over entries that are not called
      if(i->state == Slot::connected)                                first_conn / is_conn
        (object->*slot)(arguments in order);                         the scripted slot, exec at depth + 1
      if(activation.invalidated) return; }                           invalidated

This module re-reads the header on every run, builds for every arity n the text that this one template gives
when written out for n arguments (template header, parameter list, MemberFuncPtr<n> instance and argument list
are the only places allowed to depend on n) and compares it token by token with what the header says.  Any other
difference - a changed filter, a dropped `invalidated` test, `receiver` instead of `object`, an argument passed
twice or out of order, a tenth overload, a missing one - is reported with the arity it is in; checks/C12.py then
raises TieBroken naming the overloads and searches for a failing input with signals of exactly those arities."""
import os, re, sys
sys.path.insert(0, os.path.join(os.path.dirname(os.path.abspath(__file__)), '..', 'lib'))
from vf import TieBroken, REPO

REL = 'include/nstd/Callback.hpp'
LETTERS = 'ABCDEFGH'
TOKEN = re.compile(r'[A-Za-z_]\w*|\d+|->\*|->|::|==|!=|<=|>=|\+\+|--|&&|\|\||\S')


def strip_comments(src):
    src = re.sub(r'/\*.*?\*/', ' ', src, flags=re.S)
    return re.sub(r'//[^\n]*', ' ', src)


def toks(text):
    return TOKEN.findall(text)


def _tl(n, lead):
    """`, A, B, C` (lead) or `A, B, C`"""
    s = ', '.join(LETTERS[:n])
    return (', ' + s if n and lead else s)


def expected_emit(n):
    tparams = 'class X' + ''.join(', typename %s' % c for c in LETTERS[:n])
    params = ''.join(', %s arg%d' % (c, i) for i, c in enumerate(LETTERS[:n]))
    args = ', '.join('arg%d' % i for i in range(n))
    return ('template<%s> void emit(void (X::*signal)(%s)%s) {SignalActivation activation(this, signal); '
            'for(List<Slot>::Iterator i = activation.begin; i != activation.end; ++i) {if(i->state == Slot::connected) '
            '(((X*)i->object)->*((MemberFuncPtr%d<X%s>*)&i->slot)->ptr)(%s); if(activation.invalidated) return;}}'
            % (tparams, _tl(n, False), params, n, _tl(n, True), args))


def expected_connect(n):
    tparams = 'class X, class Y, class V, class W' + ''.join(', typename %s' % c for c in LETTERS[:n])
    return ('template<%s> static void connect(V* src, void (X::*signal)(%s), W* dest, void (Y::*slot)(%s)) '
            '{X* x = src; Y* y = dest; connect(x, signal, y, y, slot);}' % (tparams, _tl(n, False), _tl(n, False)))


def expected_disconnect(n):
    tparams = 'class X, class Y, class V, class W' + ''.join(', typename %s' % c for c in LETTERS[:n])
    return ('template<%s> static void disconnect(V* src, void (X::*signal)(%s), W* dest, void (Y::*slot)(%s)) '
            '{disconnect(src, MemberFuncPtr(signal), dest, MemberFuncPtr(slot));}' % (tparams, _tl(n, False), _tl(n, False)))


def expected_mfp(n):
    tparams = 'class X' + ''.join(', typename %s' % c for c in LETTERS[:n])
    return 'template <%s> struct MemberFuncPtr%d {void (X::*ptr)(%s);};' % (tparams, n, _tl(n, False))


EXPECTED_UNTYPED = ('struct MemberFuncPtr { void (MemberFuncPtr::*ptr)(); '
                    'template <typename M> MemberFuncPtr(M member) {Memory::copy(&ptr, &member, sizeof(ptr));} '
                    'bool operator==(const MemberFuncPtr& other) const {return ptr == other.ptr;} '
                    'bool operator>(const MemberFuncPtr& other) const {return Memory::compare(&ptr, &other.ptr, sizeof(ptr)) > 0;} '
                    'bool operator<(const MemberFuncPtr& other) const {return Memory::compare(&ptr, &other.ptr, sizeof(ptr)) < 0;} '
                    'MemberFuncPtr() {} };')


def untyped_mfp(src):
    """the text of `struct MemberFuncPtr { ... };` (the untyped key under which signals and slots are stored: the model's
    signal / slot ids are equal exactly when all sizeof(ptr) bytes - function address AND this-adjustment - are), or None"""
    ms = list(re.finditer(r'\bstruct\s+MemberFuncPtr\s*\{', src))
    if len(ms) != 1:
        return None
    depth = 0
    for k in range(ms[0].end() - 1, len(src)):
        if src[k] == '{':
            depth += 1
        elif src[k] == '}':
            depth -= 1
            if depth == 0:
                m = re.match(r'\s*;', src[k + 1:])
                return src[ms[0].start():k + 1 + (m.end() if m else 0)]
    return None


def _pieces(src):
    """every `template<...> ...` item of the header, cut at the next `template`, access label or end of class"""
    out = []
    for m in re.finditer(r'\btemplate\s*<', src):
        rest = src[m.start():]
        stop = re.search(r'\btemplate\s*<|\b(?:public|private|protected)\s*:|\bstruct\s+MemberFuncPtr\b|\bclass\s+\w+\s*\{', rest[8:])
        out.append(rest[:8 + stop.start()] if stop else rest)
    return out


def _arity(piece):
    """number of `typename` parameters of the template header"""
    depth = 0
    for k, ch in enumerate(piece):
        if ch == '<':
            depth += 1
        elif ch == '>':
            depth -= 1
            if depth == 0:
                return len(re.findall(r'\btypename\b', piece[:k]))
    return -1


def _first_diff(exp, got):
    for k in range(max(len(exp), len(got))):
        e = exp[k] if k < len(exp) else '<end>'
        g = got[k] if k < len(got) else '<end>'
        if e != g:
            return 'expected `%s` but the header says `%s`' % (' '.join(exp[max(0, k - 4):k + 5]), ' '.join(got[max(0, k - 4):k + 5]))
    return None


def compare_templates():
    """-> (differences, summary); differences = [(family, arity, message)], arity None when it cannot be attributed"""
    p = os.path.join(REPO, REL)
    try:
        src = strip_comments(open(p, encoding='latin-1').read())
    except OSError as e:
        raise TieBroken('cannot read %s: %s' % (REL, e))
    fam = {'emit': [], 'connect': [], 'disconnect': [], 'MemberFuncPtr': []}
    for piece in _pieces(src):
        head = piece[:piece.find('{')] if '{' in piece else piece
        if re.search(r'\bvoid\s+emit\s*\(', head):
            fam['emit'].append(piece)
        elif re.search(r'\bstatic\s+void\s+connect\s*\(', head):
            fam['connect'].append(piece)
        elif re.search(r'\bstatic\s+void\s+disconnect\s*\(', head):
            fam['disconnect'].append(piece)
        elif re.search(r'\bstruct\s+MemberFuncPtr\d', head):
            fam['MemberFuncPtr'].append(piece)
        # the converting constructor `template <typename M> MemberFuncPtr(M member)` is not one of the families
    expected = {'emit': expected_emit, 'connect': expected_connect, 'disconnect': expected_disconnect, 'MemberFuncPtr': expected_mfp}
    diffs = []
    for name, pieces in fam.items():
        by_arity = {}
        for pc in pieces:
            by_arity.setdefault(_arity(pc), []).append(pc)
        for n in range(9):
            got = by_arity.pop(n, [])
            if len(got) != 1:
                diffs.append((name, n, '%s for %d arguments: %d definitions found in %s, expected exactly one' % (name, n, len(got), REL)))
                continue
            d = _first_diff(toks(expected[name](n)), toks(got[0]))
            if d:
                diffs.append((name, n, 'the %d-argument %s of %s is not the template written out for %d arguments: %s' % (n, name, REL, n, d)))
        for n, extra in by_arity.items():
            diffs.append((name, n if 0 <= n <= 8 else None, '%s: unexpected definition with %d typename parameters in %s' % (name, n, REL)))
    got = untyped_mfp(src)
    if got is None:
        diffs.append(('MemberFuncPtr', None, 'struct MemberFuncPtr: not found exactly once in %s' % REL))
    else:
        d = _first_diff(toks(EXPECTED_UNTYPED), toks(got))
        if d:
            diffs.append(('MemberFuncPtr', None, 'struct MemberFuncPtr of %s (the untyped key of signals and slots: copy and comparison of all sizeof(ptr) bytes) differs: %s' % (REL, d)))
    summary = 'Callback.hpp: 9 emit + 9 connect + 9 disconnect + 9 MemberFuncPtr<N> definitions compared with the single template each, struct MemberFuncPtr with its expected text'
    return diffs, summary


if __name__ == '__main__':
    d, s = compare_templates()
    print(s)
    for x in d:
        print(x)
