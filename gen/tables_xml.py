"""Table translator for component Xml (C16): escapeChars / escapeStrings of src/Document/Xml.cpp
-> coq/Xml/Gen_Xml.v, regenerated on every run.  Raises TieBroken when a table cannot be located."""
import os, re, sys
sys.path.insert(0, os.path.dirname(os.path.abspath(__file__)))
from tables import read, strip_comments, write_v, TieBroken

_ESC = {'n': 10, 'r': 13, 't': 9, '0': 0, '\\': 92, "'": 39, '"': 34, 'a': 7, 'b': 8, 'f': 12, 'v': 11}


def c_string(lit, what):
    """body of a C string literal (without the quotes) -> list of byte values"""
    out = []
    i = 0
    while i < len(lit):
        c = lit[i]
        if c == '\\':
            i += 1
            if i >= len(lit):
                raise TieBroken('%s: dangling backslash' % what)
            e = lit[i]
            if e == 'x':
                m = re.match(r'[0-9a-fA-F]{1,2}', lit[i + 1:])
                if not m:
                    raise TieBroken('%s: bad \\x escape' % what)
                out.append(int(m.group(0), 16))
                i += len(m.group(0))
            elif e in _ESC:
                out.append(_ESC[e])
            else:
                raise TieBroken('%s: unknown escape \\%s' % (what, e))
        else:
            out.append(ord(c) & 0xff)
        i += 1
    return out


STR = r'"((?:[^"\\]|\\.)*)"'


def zl(xs):
    return '[' + '; '.join(str(x) for x in xs) + ']'


def gen_xml():
    rel = 'src/Document/Xml.cpp'
    src = read(rel)
    # comments are removed by hand here: the generic stripper would also cut "//" inside literals
    body = re.sub(r'/\*.*?\*/', ' ', src, flags=re.S)
    m = re.search(r'Xml::Private::escapeChars\s*=\s*' + STR + r'\s*;', body)
    if not m:
        raise TieBroken('Xml::Private::escapeChars not found in ' + rel)
    chars = c_string(m.group(1), 'escapeChars')
    m = re.search(r'Xml::Private::escapeStrings\s*\[\s*(\d*)\s*\]\s*=\s*\{(.*?)\}\s*;', body, flags=re.S)
    if not m:
        raise TieBroken('Xml::Private::escapeStrings not found in ' + rel)
    items = re.findall(r'String\s*\(\s*' + STR + r'\s*\)', m.group(2))
    n_decl = m.group(1)
    rest = re.sub(r'String\s*\(\s*' + STR + r'\s*\)', '', m.group(2))
    if rest.replace(',', '').strip():
        raise TieBroken('escapeStrings initialiser has an entry of unknown form: %r' % rest.strip()[:60])
    strs = [c_string(s, 'escapeStrings') for s in items]
    if n_decl and int(n_decl) != len(strs):
        raise TieBroken('escapeStrings declares %s entries, initialiser has %d' % (n_decl, len(strs)))
    if len(strs) != len(chars):
        raise TieBroken('escapeChars has %d characters, escapeStrings %d entries' % (len(chars), len(strs)))
    m = re.search(r'String\s+result\s*\(\s*' + STR + r'\s*\)\s*;\s*result\s*\+=\s*element\.toString', body)
    if not m:
        raise TieBroken('Xml::toString header literal not found in ' + rel)
    header = c_string(m.group(1), 'toString header')
    return write_v('Xml', 'Gen_Xml.v', rel, [
        ('gen_escapeChars', 'list Z', zl(chars)),
        ('gen_escapeStrings', 'list (list Z)', '[' + ';\n   '.join(zl(s) for s in strs) + ']'),
        ('gen_header', 'list Z', zl(header)),
    ])


if __name__ == '__main__':
    print(gen_xml())
