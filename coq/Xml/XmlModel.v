(* Executable model of src/Document/Xml.cpp (parser, entity codec, serialiser) after the repairs
   proposed in fixes/C16.  The text is the byte list [s ++ [0]] with the terminator written out;
   a cursor is a suffix of it, so "reading beyond the terminator" is reading from [] and is
   reported as [Oob].  NO proofs in this file. *)
From Coq Require Import ZArith List Bool Arith.
From Common Require Import ListAux.
From Xml Require Import Gen_Xml XmlSpec.
Import ListNotations.
Local Open Scope Z_scope.
Local Open Scope bool_scope.

Inductive emsg : Type :=
| EEof | ENewline | EExpName | EExpLt | EExpTagName | EExpEq | EExpString | EExpEndTag (nm : bytes) | EExpGt
| EOs (text : bytes).               (* Parser::load: errorString = Error::getErrorString() of the failed File call *)

Inductive res (A : Type) : Type :=
| Ok (a : A)
| Syn (line col : Z) (m : emsg)     (* parse returned false; errorLine / errorColumn / errorString *)
| Oob                               (* a read beyond the terminator *)
| Fuel.                             (* the model ran out of fuel: stands for "does not terminate" *)
Arguments Ok {A} a.
Arguments Syn {A} line col m.
Arguments Oob {A}.
Arguments Fuel {A}.

Definition bind {A B} (r : res A) (f : A -> res B) : res B :=
  match r with Ok a => f a | Syn l c m => Syn l c m | Oob => Oob | Fuel => Fuel end.
Notation "'do' x <- r ; k" := (bind r (fun x => k)) (at level 200, x pattern, r at level 100, k at level 200).

(* class Position: pos (as remaining text + offset), line, lineStart *)
Record pos : Type := mkPos { rest : list Z; off : Z; line : Z; ls : Z }.

Definition synAt {A} (p : pos) (m : emsg) : res A := Syn (line p) (off p - ls p + 1) m.

(* ---- skipSpace (Xml.cpp:142-203); [com] = inside the comment scanner ----------------------- *)
Fixpoint skipSp (com : bool) (r : list Z) (o l s : Z) {struct r} : res pos :=
  match r with
  | [] => Oob
  | c :: r1 =>
    if c =? 13 then
      match r1 with
      | [] => Oob
      | c1 :: r2 => if c1 =? 10 then skipSp com r2 (o + 2) (l + 1) (o + 2)
                    else skipSp com r1 (o + 1) (l + 1) (o + 1)
      end
    else if c =? 10 then skipSp com r1 (o + 1) (l + 1) (o + 1)
    else if com then
      if c =? 0 then Ok (mkPos r o l s)                       (* findOneOf: nothing found, pos := end *)
      else if c =? 45 then
        match r1 with
        | [] => Oob
        | c1 :: r2 =>
          if c1 =? 45 then
            match r2 with
            | [] => Oob
            | c2 :: r3 => if c2 =? 62 then skipSp false r3 (o + 3) l s else skipSp true r1 (o + 1) l s
            end
          else skipSp true r1 (o + 1) l s
        end
      else skipSp true r1 (o + 1) l s
    else if c =? 60 then
      match r1 with
      | [] => Oob
      | c1 :: r2 =>
        if c1 =? 33 then
          match r2 with
          | [] => Oob
          | c2 :: r3 =>
            if c2 =? 45 then
              match r3 with
              | [] => Oob
              | c3 :: r4 => if c3 =? 45 then skipSp true r4 (o + 4) l s else Ok (mkPos r o l s)
              end
            else Ok (mkPos r o l s)
          end
        else Ok (mkPos r o l s)
      end
    else if is_space c then skipSp false r1 (o + 1) l s
    else Ok (mkPos r o l s)
  end.

Definition skipSpace (p : pos) : res pos := skipSp false (rest p) (off p) (line p) (ls p).

(* ---- strpbrk-like scanning: the bytes in front of the first stop byte or the terminator ---- *)
Fixpoint scan (stop : Z -> bool) (r : list Z) : option (list Z * list Z) :=
  match r with
  | [] => None
  | c :: r1 => if (c =? 0) || stop c then Some ([], r)
               else match scan stop r1 with Some (a, b) => Some (c :: a, b) | None => None end
  end.

Definition zlen (l : list Z) : Z := Z.of_nat (length l).

(* ---- entity codec (Xml.cpp:212-300) -------------------------------------------------------- *)

(* Unicode::toString (non-_UNICODE branch of Unicode::append) *)
Definition utf8 (u : Z) : list Z :=
  if u <? 128 then [u]
  else if u <? 2048 then [Z.lor (Z.shiftr u 6) 192; Z.lor (Z.land u 63) 128]
  else if u <? 65536 then [Z.lor (Z.shiftr u 12) 224; Z.lor (Z.land (Z.shiftr u 6) 63) 128; Z.lor (Z.land u 63) 128]
  else if u <? 1114112 then [Z.lor (Z.shiftr u 18) 240; Z.lor (Z.land (Z.shiftr u 12) 63) 128;
                             Z.lor (Z.land (Z.shiftr u 6) 63) 128; Z.lor (Z.land u 63) 128]
  else [].

Definition is_digit (c : Z) : bool := (48 <=? c) && (c <=? 57).
Fixpoint drop_spaces (l : list Z) : list Z :=
  match l with c :: r => if is_space c then drop_spaces r else l | [] => [] end.
Fixpoint digits_val (acc : Z) (l : list Z) : Z :=
  match l with c :: r => if is_digit c then digits_val (acc * 10 + (c - 48)) r else acc | [] => acc end.

(* str.scanf("#%u", &v) == 1 ?  (glibc: white space, optional sign, decimal digits; conversion
   through strtoul then truncation to 32 bits, ULONG_MAX on overflow of 64 bits) *)
Definition scan_u (sq : list Z) : option Z :=
  match sq with
  | h :: t =>
    if h =? 35 then
      let t1 := drop_spaces t in
      let '(neg, t2) := match t1 with
                        | c :: r => if c =? 45 then (true, r) else if c =? 43 then (false, r) else (false, t1)
                        | [] => (false, t1) end in
      match t2 with
      | d :: _ => if is_digit d then
                    let v := digits_val 0 t2 in
                    Some (if 18446744073709551616 <=? v then 4294967295
                          else (if neg then - v else v) mod 4294967296)
                  else None
      | [] => None
      end
    else None
  | [] => None
  end.

Fixpoint list_eqb (a b : list Z) : bool :=
  match a, b with
  | [], [] => true
  | x :: a', y :: b' => (x =? y) && list_eqb a' b'
  | _, _ => false
  end.

(* the loop over escapeStrings: first entry equal to the sequence -> the character at its index *)
Fixpoint lookup_entity (sq : list Z) (strs : list (list Z)) (chars : list Z) : option Z :=
  match strs, chars with
  | s :: strs', c :: chars' => if list_eqb sq s then Some c else lookup_entity sq strs' chars'
  | _, _ => None
  end.

(* String::find(src, ';') on the (terminated) copy: bytes in front of ';', bytes behind it *)
Fixpoint find_semi (l : list Z) : option (list Z * list Z) :=
  match l with
  | [] => None
  | c :: r => if c =? 0 then None
              else if c =? 59 then Some ([], r)
              else match find_semi r with Some (a, b) => Some (c :: a, b) | None => None end
  end.

Fixpoint unesc (f : nat) (l : list Z) : list Z :=
  match f with
  | O => []
  | S f' =>
    match l with
    | [] => []
    | c :: l1 =>
      if negb (c =? 38) then c :: unesc f' l1
      else match find_semi l1 with
           | None => 38 :: unesc f' l1
           | Some (sq, after) =>
             if hd 0 l1 =? 35
             then match scan_u sq with
                  | Some u => utf8 u ++ unesc f' after
                  | None => 38 :: unesc f' l1
                  end
             else match lookup_entity sq gen_escapeStrings gen_escapeChars with
                  | Some ch => ch :: unesc f' after
                  | None => 38 :: unesc f' l1
                  end
           end
    end
  end.
Definition unescape (l : list Z) : list Z := unesc (length l) l.

Fixpoint index_of (c : Z) (l : list Z) : option nat :=
  match l with
  | [] => None
  | x :: r => if x =? c then Some O else match index_of c r with Some n => Some (S n) | None => None end
  end.

(* bytes copied without looking at the table (Xml.cpp:276, after fixes/C16/02) *)
Definition esc_raw (c : Z) : bool :=
  negb (Z.land c 192 =? 0) || ((Z.land c 224 =? 0) && negb (c =? 10) && negb (c =? 13)).

Definition esc_byte (c : Z) : list Z :=
  if esc_raw c then [c]
  else match index_of c gen_escapeChars with
       | Some j => 38 :: nth j gen_escapeStrings [] ++ [59]
       | None => [c]
       end.
Definition escape (l : list Z) : list Z := flat_map esc_byte l.

(* ---- readToken (Xml.cpp:76-140) ------------------------------------------------------------ *)

Inductive ttype : Type := TStart | TTagEnd | TEndBegin | TEmptyEnd | TEq | TStr | TName.
Record token : Type := mkTok { tty : ttype; tval : list Z; tpos : pos }.

Definition adv (p : pos) (n : Z) (r : list Z) : pos := mkPos r (off p + n) (line p) (ls p).

Definition name_stop (c : Z) : bool := (c =? 47) || (c =? 62) || (c =? 61) || is_space c.

Definition readName (q : pos) : res (token * pos) :=
  match scan name_stop (rest q) with
  | None => Oob
  | Some (nm, r2) =>
    match nm with
    | [] => synAt q EExpName
    | _ => Ok (mkTok TName nm q, adv q (zlen nm) r2)
    end
  end.

Definition readToken (p : pos) : res (token * pos) :=
  do q <- skipSpace p;
  match rest q with
  | [] => Oob
  | c :: r1 =>
    if c =? 60 then
      match r1 with
      | [] => Oob
      | c1 :: r2 => if c1 =? 47 then Ok (mkTok TEndBegin [] q, adv q 2 r2)
                    else Ok (mkTok TStart [] q, adv q 1 r1)
      end
    else if c =? 62 then Ok (mkTok TTagEnd [] q, adv q 1 r1)
    else if c =? 0 then synAt q EEof
    else if c =? 61 then Ok (mkTok TEq [] q, adv q 1 r1)
    else if (c =? 34) || (c =? 39) then
      match scan (fun x => (x =? c) || (x =? 13) || (x =? 10)) r1 with
      | None => Oob
      | Some (body, r2) =>
        match r2 with
        | [] => Oob
        | e :: r3 => if e =? 0 then synAt q EEof
                     else if negb (e =? c) then synAt q ENewline
                     else Ok (mkTok TStr (unescape body) q, adv q (zlen body + 2) r3)
        end
      end
    else if c =? 47 then
      match r1 with
      | [] => Oob
      | c1 :: r2 => if c1 =? 62 then Ok (mkTok TEmptyEnd [] q, adv q 2 r2) else readName q
      end
    else readName q
  end.

(* ---- parseText (Xml.cpp:401-435, after fixes/C16/01) --------------------------------------- *)

Definition cons_text (c : Z) (r : res (list Z * pos)) : res (list Z * pos) :=
  do x <- r; Ok (c :: fst x, snd x).

Fixpoint scanText (r : list Z) (o l s : Z) {struct r} : res (list Z * pos) :=
  match r with
  | [] => Oob
  | c :: r1 =>
    if c =? 0 then Syn l (o - s + 1) EEof
    else if c =? 60 then Ok ([], mkPos r o l s)
    else if c =? 13 then
      match r1 with
      | [] => Oob
      | c1 :: r2 => if c1 =? 10 then cons_text 13 (cons_text 10 (scanText r2 (o + 2) (l + 1) (o + 2)))
                    else cons_text 13 (scanText r1 (o + 1) (l + 1) (o + 1))
      end
    else if c =? 10 then cons_text 10 (scanText r1 (o + 1) (l + 1) (o + 1))
    else cons_text c (scanText r1 (o + 1) l s)
  end.

Definition parseText (p : pos) : res (list Z * pos) :=
  do p0 <- (match rest p with
            | [] => Oob
            | c :: _ => if c =? 60 then skipSpace p else Ok p
            end);
  do x <- scanText (rest p0) (off p0) (line p0) (ls p0);
  Ok (unescape (fst x), snd x).

(* ---- parseElement (Xml.cpp:334-399, after fixes/C16/01) ------------------------------------ *)

Definition attr_append (k v : bytes) (l : list (bytes * bytes)) : list (bytes * bytes) := attr_put k v l.

Inductive attrs_end : Type := AEmpty | AOpen.

(* the first for(;;) of parseElement *)
Fixpoint parseAttrs (f : nat) (acc : list (bytes * bytes)) (p : pos) : res (attrs_end * list (bytes * bytes) * pos) :=
  match f with
  | O => Fuel
  | S f' =>
    do x <- readToken p;
    let '(tk, q) := x in
    match tty tk with
    | TEmptyEnd => Ok (AEmpty, acc, q)
    | TTagEnd => Ok (AOpen, acc, q)
    | TName =>
      do x1 <- readToken q;
      let '(tk1, q1) := x1 in
      match tty tk1 with
      | TEq =>
        do x2 <- readToken q1;
        let '(tk2, q2) := x2 in
        match tty tk2 with
        | TStr => parseAttrs f' (attr_append (tval tk) (tval tk2) acc) q2
        | _ => synAt (tpos tk2) EExpString
        end
      | _ => synAt (tpos tk1) EExpEq
      end
    | _ => parseAttrs f' acc q
    end
  end.

Definition closeTag (nm : bytes) (p : pos) : res pos :=
  do x <- readToken p;
  let '(tk, q) := x in
  match tty tk with
  | TName =>
    if negb (list_eqb (tval tk) nm) then synAt (tpos tk) (EExpEndTag nm)
    else
      do x1 <- readToken q;
      let '(tk1, q1) := x1 in
      match tty tk1 with
      | TTagEnd => Ok q1
      | _ => synAt (tpos tk1) EExpGt
      end
  | _ => synAt (tpos tk) EExpTagName
  end.

Fixpoint parseElement (f : nat) (tp : pos) (p : pos) {struct f} : res (node * pos) :=
  match f with
  | O => Fuel
  | S f' =>
    do x <- readToken p;
    let '(tk, q) := x in
    match tty tk with
    | TName =>
      do y <- parseAttrs (length (rest q)) [] q;
      let '(ae, at_, q1) := y in
      match ae with
      | AEmpty => Ok (N (line tp) (off tp - ls tp + 1) (tval tk) at_ [], q1)
      | AOpen =>
        do z <- parseContent f' [] q1;
        let '(ct, q2) := z in
        do q3 <- closeTag (tval tk) q2;
        Ok (N (line tp) (off tp - ls tp + 1) (tval tk) at_ ct, q3)
      end
    | _ => synAt (tpos tk) EExpTagName
    end
  end
(* the second for(;;): look-ahead token, rewind, text *)
with parseContent (f : nat) (acc : list node) (p : pos) {struct f} : res (list node * pos) :=
  match f with
  | O => Fuel
  | S f' =>
    let text := fun _ : unit => (do x <- parseText p; parseContent f' (T (fst x) :: acc) (snd x)) in
    match readToken p with
    | Ok (tk, q) =>
      match tty tk with
      | TEndBegin => Ok (rev acc, q)
      | TStart => do y <- parseElement f' (tpos tk) q; parseContent f' (fst y :: acc) (snd y)
      | _ => text tt
      end
    | Syn _ _ _ => text tt
    | Oob => Oob
    | Fuel => Fuel
    end
  end.

(* ---- Xml::Private::parse (Xml.cpp:302-338, after fixes/C16/03 and 08) ----------------------------- *)

Definition pi_stop (c : Z) : bool := (c =? 13) || (c =? 10) || (c =? 63).

(* the inner for(;;) that looks for "?>" *)
Fixpoint piBody (f : nat) (start : pos) (p : pos) : res pos :=
  match f with
  | O => Fuel
  | S f' =>
    match scan pi_stop (rest p) with
    | None => Oob
    | Some (pre, r2) =>
      match r2 with
      | [] => Oob
      | e :: r3 =>
        if e =? 0 then synAt start EEof
        else if e =? 63 then
          match r3 with
          | [] => Oob
          | e1 :: r4 => if e1 =? 62 then Ok (adv p (zlen pre + 2) r4)
                        else piBody f' start (adv p (zlen pre + 1) r3)
          end
        else
          (* a line break inside the instruction is counted here (repair 08: skipSpace would also step over
             a comment opener in the body, up to the next comment end) *)
          let o1 := off p + zlen pre in
          if e =? 13 then
            match r3 with
            | [] => Oob
            | e1 :: r4 => if e1 =? 10 then piBody f' start (mkPos r4 (o1 + 2) (line p + 1) (o1 + 2))
                          else piBody f' start (mkPos r3 (o1 + 1) (line p + 1) (o1 + 1))
            end
          else piBody f' start (mkPos r3 (o1 + 1) (line p + 1) (o1 + 1))
      end
    end
  end.

Fixpoint prolog (f : nat) (p : pos) : res pos :=
  match f with
  | O => Fuel
  | S f' =>
    match rest p with
    | [] => Oob
    | c :: r1 =>
      if c =? 60 then
        match r1 with
        | [] => Oob
        | c1 :: r2 =>
          if c1 =? 63 then
            do q <- piBody (length r2) p (adv p 2 r2);
            do q1 <- skipSpace q;
            prolog f' q1
          else Ok p
        end
      else Ok p
    end
  end.

Definition parseFrom (f : nat) (text : list Z) : res node :=
  do p0 <- skipSpace (mkPos text 0 1 0);
  do p1 <- prolog (length text) p0;
  do x <- readToken p1;
  let '(tk, q) := x in
  match tty tk with
  | TStart => do y <- parseElement f (tpos tk) q; Ok (fst y)
  | _ => synAt (tpos tk) EExpLt
  end.

Definition fuel_for (s : list Z) : nat := 2 * length s + 4.
Definition parse (s : list Z) : res node := parseFrom (fuel_for s) (s ++ [0]).

(* ---- the Parser object and the target Element across calls ---------------------------------
   Xml::Parser keeps a Private object alive between calls: `pos` and the three error fields survive a
   call; `pos.line`, `pos.pos`, `pos.lineStart` are assigned at the start of parse, `token` before it
   is read.  The target of parse is an Element the caller owns: parseElement assigns line, column and
   type, but *adds* to element.attributes (HashMap::append) and element.content (List::append);
   nested targets are always fresh Elements (a fresh Variant's toElement()). *)
(* pos.line; errorLine, errorColumn, errorString.  [o_err = None]: the three error fields are NOT MODELLED at
   this point - a parse that succeeds may have written them: the content loop of parseElement first tries
   readToken, whose failure calls syntaxError, and only then rewinds and reads text (e.g. <c> LF SP /y</c>
   succeeds and leaves "Expected name" at line 2 column 2 in the getters).  Found in round 3 by op fmiss. *)
Record parser : Type := mkParser { o_line : Z; o_err : option (Z * Z * option emsg) }.
Definition new_parser (garbage : Z) : parser := mkParser garbage (Some (0, 0, None)).   (* Private() : errorLine(0), errorColumn(0) *)

Definition attrs_of (n : node) : list (bytes * bytes) := match n with N _ _ _ at_ _ => at_ | _ => [] end.
Definition content_of (n : node) : list node := match n with N _ _ _ _ ct => ct | _ => [] end.

(* parseElement(element) on a target whose attribute map and content list hold [at0] and [ct0] *)
Definition parseElementInto (at0 : list (bytes * bytes)) (ct0 : list node) (f : nat) (tp : pos) (p : pos) : res (node * pos) :=
  match f with
  | O => Fuel
  | S f' =>
    do x <- readToken p;
    let '(tk, q) := x in
    match tty tk with
    | TName =>
      do y <- parseAttrs (length (rest q)) at0 q;
      let '(ae, at_, q1) := y in
      match ae with
      | AEmpty => Ok (N (line tp) (off tp - ls tp + 1) (tval tk) at_ ct0, q1)
      | AOpen =>
        do z <- parseContent f' (rev ct0) q1;
        let '(ct, q2) := z in
        do q3 <- closeTag (tval tk) q2;
        Ok (N (line tp) (off tp - ls tp + 1) (tval tk) at_ ct, q3)
      end
    | _ => synAt (tpos tk) EExpTagName
    end
  end.

(* Xml::Private::parse(data, element) from line [l0] *)
Definition parseFromInto (l0 : Z) (at0 : list (bytes * bytes)) (ct0 : list node) (f : nat) (text : list Z) : res node :=
  do p0 <- skipSpace (mkPos text 0 l0 0);
  do p1 <- prolog (length text) p0;
  do x <- readToken p1;
  let '(tk, q) := x in
  match tty tk with
  | TStart => do y <- parseElementInto at0 ct0 f (tpos tk) q; Ok (fst y)
  | _ => synAt (tpos tk) EExpLt
  end.

(* one call on an object with history [o] and a target holding [tgt];
   [clear] = the statement `element.clear();` of repair 07 is present.
   After the call `pos` is dead (assigned before it is read in the next call): the model keeps 0. *)
Definition parse_obj (clear : bool) (o : parser) (tgt : node) (s : list Z) : parser * res node :=
  let o1 := mkParser 1 (o_err o) in                          (* pos.line = 1; pos.pos = pos.lineStart = data; *)
  let tgt1 := if clear then Nul else tgt in                  (* element.clear();   (repair 07) *)
  let r := parseFromInto (o_line o1) (attrs_of tgt1) (content_of tgt1) (fuel_for s) (s ++ [0]) in
  match r with
  | Syn l c m => (mkParser 0 (Some (l, c, Some m)), r)
  | _ => (mkParser 0 None, r)                                (* old content, or a failed look-ahead token: not modelled *)
  end.

Definition parse_with (o : parser) (tgt : node) (s : list Z) : parser * res node := parse_obj true o tgt s.

(* the static wrappers Xml::parse(data, element): a fresh Private per call *)
Definition static_parse (garbage : Z) (tgt : node) (s : list Z) : res node :=
  snd (parse_with (new_parser garbage) tgt s).

(* ---- the file based entry points (Xml.cpp:448-457 Parser::load, 473-482 Xml::load, 484-490 Xml::save):
        thin wrappers over File.  The file system is an input: what File::open / readAll answer. ------ *)
Inductive file : Type :=
| FMissing (oserr : bytes)          (* File::open (or readAll) fails; Error::getErrorString() = oserr *)
| FData (content : bytes).          (* the String handed to parse holds all bytes of the file *)

Inductive lres : Type :=
| LNotRead                          (* false before parse was called: the target Element is not touched *)
| LParsed (r : res node).           (* the answer of parse on the content (read as a C string, like every text) *)

(* Xml::Parser::load(filePath, element): on a File failure only errorString is assigned - getErrorLine() and
   getErrorColumn() keep what they held *)
Definition load_with (o : parser) (tgt : node) (f : file) : parser * lres :=
  match f with
  | FMissing e => (mkParser (o_line o) (match o_err o with
                                        | Some (l, c, _) => Some (l, c, Some (EOs e))
                                        | None => None
                                        end), LNotRead)
  | FData d => (fst (parse_with o tgt d), LParsed (snd (parse_with o tgt d)))
  end.

(* the target Element after the call, where the model knows it *)
Definition load_target (tgt : node) (r : lres) : option node :=
  match r with
  | LNotRead => Some tgt
  | LParsed (Ok n) => Some n
  | LParsed _ => None
  end.

(* static Xml::load(filePath, element) *)
Definition static_load (garbage : Z) (tgt : node) (f : file) : lres :=
  match f with
  | FMissing _ => LNotRead
  | FData d => LParsed (static_parse garbage tgt d)
  end.

(* ---- toString (Xml.cpp:490-534) ------------------------------------------------------------ *)

Definition attr_str (kv : bytes * bytes) : list Z := [32] ++ fst kv ++ [61; 34] ++ escape (snd kv) ++ [34].

Fixpoint toStr (n : node) : list Z :=
  match n with
  | Nul => []
  | T t => escape t
  | N _ _ nm at_ ct =>
    [60] ++ nm ++ flat_map attr_str at_ ++
    match ct with
    | [] => [47; 62]
    | _ => [62] ++ flat_map toStr ct ++ [60; 47] ++ nm ++ [62]
    end
  end.

Definition toString (e : node) : list Z := gen_header ++ toStr e.

(* static Xml::save(element, filePath): File::open(path, writeFlag) creates / truncates the file, then all
   bytes of toString(element) are written.  [writable] = File::open succeeds.  Result: the returned flag
   and the new content of the file (None = no file written). *)
Definition save_file (e : node) (writable : bool) : bool * option bytes :=
  if writable then (true, Some (toString e)) else (false, None).

(* ---- the operations the harness drives ----------------------------------------------------- *)

(* serialise then parse *)
Definition roundtrip (e : node) : res node := parse (toString e).

(* ---- Xml::Variant / Xml::Element values (Xml.hpp:13-184): blocks with reference counts ------ *)
(* handle = Variant::data: None = &nullData (ref 0, never counted), Some b = heap block b.
   A block holds its reference count and a String or an Element; the Element's content list holds
   handles again (the Variants stored in List<Variant>).
   Conventions (validated by the correspondence run, which compares every value and every
   reference count after every operation):
   - block ids are never reused; a block whose count reaches 0 stays as a tombstone (rc = 0);
   - writing an exclusively owned block in place (ref == 1) is modelled as: retire the old id, move
     the children (no count changes, exactly like the in-place write), allocate the modified
     payload under a fresh id, and redirect EVERY slot that referred to the old id to the new one
     (an in-place write is seen by every Variant object that points to the block);
   - so a block's children always have smaller ids than the block. *)

Definition handle := option nat.

Inductive payload : Type :=
| PText (t : bytes)
| PElem (l c : Z) (nm : bytes) (at_ : list (bytes * bytes)) (hs : list handle).

Record block : Type := mkBlock { rc : nat; pl : payload }.
Definition heap := list block.
(* a slot of the harness: None = no Variant object, Some h = a Variant whose data pointer is h *)
Record vstate : Type := mkV { hp : heap; slots : list (option handle) }.

Definition children (p : payload) : list handle :=
  match p with PElem _ _ _ _ hs => hs | PText _ => [] end.

Definition rcof (H : heap) (b : nat) : nat :=
  match nth_error H b with Some k => rc k | None => O end.

Definition set_rc (b n : nat) (H : heap) : heap :=
  match nth_error H b with Some k => upd b (mkBlock n (pl k)) H | None => H end.

(* Variant(const Variant&): `if(other.data->ref) Atomic::increment(data->ref)` *)
Definition share (H : heap) (h : handle) : heap :=
  match h with Some b => set_rc b (S (rcof H b)) H | None => H end.

(* Variant::clear(): decrement; at 0 destroy the payload (an Element clears every Variant of its
   content list) and free the block *)
Fixpoint release (f : nat) (H : heap) (h : handle) : heap :=
  match h with
  | None => H
  | Some b =>
    match f with
    | O => H
    | S f' =>
      match nth_error H b with
      | None => H
      | Some k =>
        match rc k with
        | O => H
        | S O => fold_left (release f') (children (pl k)) (set_rc b 0 H)
        | S n => set_rc b n H
        end
      end
    end
  end.
Definition release_top (H : heap) (h : handle) : heap := release (S (length H)) H h.

(* new char[sizeof(Data) + sizeof(T)]; ref = 1 *)
Definition alloc (H : heap) (p : payload) : heap * handle := (H ++ [mkBlock 1 p], Some (length H)).

Definition lookup (H : heap) (h : handle) : option block :=
  match h with Some b => nth_error H b | None => None end.

Definition elem_parts : Type := Z * Z * bytes * list (bytes * bytes) * list handle.
Definition empty_parts : elem_parts := (0, 0, [], [], []).

(* non-const Variant::toElement() on an owned handle (Xml.hpp:120-144): other type -> clear(), a
   fresh Element; ref > 1 -> copy of the Element (its content Variants are copy-constructed),
   clear(); else the Element itself.  Returns the heap, the Element's fields (content handles
   owned by the caller) and, when the write is in place, the id of the block written. *)
Definition open_elem (H : heap) (h : handle) : heap * elem_parts * option nat :=
  match h with
  | None => (H, empty_parts, None)
  | Some b =>
    match nth_error H b with
    | None => (H, empty_parts, None)
    | Some k =>
      match pl k with
      | PText _ => (release_top H h, empty_parts, None)
      | PElem l c nm at_ hs =>
        if (1 <? rc k)%nat
        then (set_rc b (pred (rc k)) (fold_left share hs H), (l, c, nm, at_, hs), None)
        else (set_rc b 0 H, (l, c, nm, at_, hs), Some b)
      end
    end
  end.

(* generic slot access (same conventions as sget / sset of the spec) *)
Fixpoint gget {A} (s : list (option A)) (i : nat) : option A :=
  match s, i with
  | [], _ => None
  | x :: _, O => x
  | _ :: r, S i' => gget r i'
  end.
Fixpoint gset {A} (s : list (option A)) (i : nat) (v : option A) : list (option A) :=
  match s, i with
  | [], O => [v]
  | [], S i' => None :: gset [] i' v
  | _ :: r, O => v :: r
  | x :: r, S i' => x :: gset r i' v
  end.

Definition redirect (b : nat) (h2 : handle) (S : list (option handle)) : list (option handle) :=
  map (fun x => match x with
                | Some (Some b') => if (b' =? b)%nat then Some h2 else x
                | _ => x
                end) S.

(* store the new handle in slot i; an in-place write of block ip is seen by every slot pointing to it *)
Definition place (i : nat) (h2 : handle) (ip : option nat) (S : list (option handle)) : list (option handle) :=
  gset (match ip with Some b => redirect b h2 S | None => S end) i (Some h2).

Definition drop_slot (s : vstate) (i : nat) : heap :=
  match gget (slots s) i with Some h => release_top (hp s) h | None => hp s end.

Definition mstep (s : vstate) (o : vop) : vstate :=
  let H := hp s in
  let S := slots s in
  match o with
  | VNull i => mkV (drop_slot s i) (gset S i (Some None))
  | VText i t => let '(H1, h1) := alloc (drop_slot s i) (PText t) in mkV H1 (gset S i (Some h1))
  | VElem i nm => let '(H1, h1) := alloc (drop_slot s i) (PElem 0 0 nm [] []) in mkV H1 (gset S i (Some h1))
  | VCopy i j =>
    match gget S j with
    | Some hj =>
      let H1 := share H hj in
      let H2 := match gget S i with Some hi => release_top H1 hi | None => H1 end in
      mkV H2 (gset S i (Some hj))
    | None => s
    end
  | VAssign i j =>
    match gget S i, gget S j with
    | Some hi, Some hj => mkV (release_top (share H hj) hi) (gset S i (Some hj))
    | _, _ => s
    end
  | VSetText i t =>
    match gget S i with
    | Some hi =>
      let inplace := match lookup H hi with
                     | Some k => match pl k with PText _ => negb (1 <? rc k)%nat | _ => false end
                     | None => false
                     end in
      if inplace
      then match hi with
           | Some b => let '(H1, h1) := alloc (set_rc b 0 H) (PText t) in mkV H1 (place i h1 (Some b) S)
           | None => s
           end
      else let '(H1, h1) := alloc (release_top H hi) (PText t) in mkV H1 (gset S i (Some h1))
    | None => s
    end
  | VName i nm =>
    match gget S i with
    | Some hi =>
      let '(H1, (l, c, _, at_, hs), ip) := open_elem H hi in
      let '(H2, h2) := alloc H1 (PElem l c nm at_ hs) in
      mkV H2 (place i h2 ip S)
    | None => s
    end
  | VAttr i k v =>
    match gget S i with
    | Some hi =>
      let '(H1, (l, c, nm, at_, hs), ip) := open_elem H hi in
      let '(H2, h2) := alloc H1 (PElem l c nm (attr_put k v at_) hs) in
      mkV H2 (place i h2 ip S)
    | None => s
    end
  | VChild i j =>
    match gget S i, gget S j with
    | Some hi, Some hj =>
      let H0 := share H hj in                                   (* Variant child(slot j) *)
      let '(H1, (l, c, nm, at_, hs), ip) := open_elem H0 hi in   (* slot[i]->toElement() *)
      let '(H2, h2) := alloc H1 (PElem l c nm at_ (hs ++ [hj])) in
      mkV H2 (place i h2 ip S)
    | _, _ => s
    end
  | VSub i j k =>
    match gget S j with
    | Some hj =>
      match lookup H hj with
      | Some kb =>
        match pl kb with
        | PElem _ _ _ _ hs =>
          match nth_error hs k with
          | Some hc =>
            let H1 := share H hc in
            let H2 := match gget S i with Some hi => release_top H1 hi | None => H1 end in
            mkV H2 (gset S i (Some hc))
          | None => s
          end
        | PText _ => s
        end
      | None => s
      end
    | None => s
    end
  | VSubMut i k nm =>
    match gget S i with
    | Some hi =>
      match lookup H hi with
      | Some kb =>
        match pl kb with
        | PElem _ _ _ _ hs0 =>
          if (k <? length hs0)%nat then
            let '(H1, (l, c, nm0, at_, hs), ip) := open_elem H hi in
            let hk := nth k hs None in
            let '(H2, (l', c', _, at', hs'), ipc) := open_elem H1 hk in
            let '(H3, hc) := alloc H2 (PElem l' c' nm at' hs') in
            let '(H4, h4) := alloc H3 (PElem l c nm0 at_ (upd k hc hs)) in
            mkV H4 (place i h4 ip (match ipc with Some bc => redirect bc hc S | None => S end))
          else s
        | PText _ => s
        end
      | None => s
      end
    | None => s
    end
  | VElCopy i j =>
    match gget S j with
    | Some hj =>
      match lookup H hj with
      | Some kb =>
        match pl kb with
        | PElem l c nm at_ hs =>
          let '(H1, h1) := alloc (fold_left share hs H) (PElem l c nm at_ hs) in
          let H2 := match gget S i with Some hi => release_top H1 hi | None => H1 end in
          mkV H2 (gset S i (Some h1))
        | PText _ => s
        end
      | None => s
      end
    | None => s
    end
  | VDel i => mkV (drop_slot s i) (gset S i None)
  | VSubAssign i k j =>
    (* Element& e = slot[i]->toElement();  k-th item of e.content = *slot[j];   operator=: take the reference on the
       source, release the old item, store (Xml.hpp:84-92) *)
    if (i =? j)%nat then s else
    match gget S i, gget S j with
    | Some hi, Some hj =>
      match lookup H hi with
      | Some kb =>
        match pl kb with
        | PElem _ _ _ _ hs0 =>
          if (k <? length hs0)%nat then
            let '(H1, (l, c, nm0, at_, hs), ip) := open_elem H hi in
            let hk := nth k hs None in
            let H2 := release_top (share H1 hj) hk in
            let '(H3, h3) := alloc H2 (PElem l c nm0 at_ (upd k hj hs)) in
            mkV H3 (place i h3 ip S)
          else s
        | PText _ => s
        end
      | None => s
      end
    | _, _ => s
    end
  end.

Definition vinit : vstate := mkV [] [].

(* the value a handle denotes: blocks only refer to older blocks, so one pass over the heap *)
Definition hval (vs : list node) (h : handle) : node :=
  match h with None => Nul | Some b => nth b vs Nul end.
Definition val_of (vs : list node) (p : payload) : node :=
  match p with
  | PText t => T t
  | PElem l c nm at_ hs => N l c nm at_ (map (hval vs) hs)
  end.
Fixpoint vals_acc (acc : list node) (H : list payload) : list node :=
  match H with
  | [] => acc
  | p :: H' => vals_acc (acc ++ [val_of acc p]) H'
  end.
Definition vals (H : heap) : list node := vals_acc [] (map pl H).

Definition vabs (s : vstate) : store := map (option_map (hval (vals (hp s)))) (slots s).

(* ---- a reference handed out by toElement() and kept by the caller (audit C16, finding 3) ------------
   `Element& e = slot[i].toElement();  ...other operations...;  e.type = nm;`
   The reference designates the payload block, not the Variant: a write through it is a plain in-place
   write whatever the reference count says at that time.
   Protocol of the harness (and of this model): the caller drops the reference as soon as an operation
   targets the slot it came from; while the slot is untouched it keeps a counted reference to the block,
   so the block is neither freed nor rewritten and the C++ reference stays valid. *)
Inductive hop : Type :=
| HOp (o : vop)                           (* an operation of the old alphabet *)
| HHold (i : nat)                         (* Element& e = slot i .toElement();   (no write) *)
| HWriteHeld (nm : bytes).                (* e.type = nm;   through the reference kept since HHold *)

Record hstate : Type := mkHS { hvs : vstate; held : option (nat * nat) }.   (* the slot it came from, the block *)

Definition block_of_slot (s : vstate) (i : nat) : option nat :=
  match gget (slots s) i with Some (Some b) => Some b | _ => None end.

(* the name of the element slot i holds ([] when it holds no element: toElement() then makes an empty one) *)
Definition cur_name (s : vstate) (i : nat) : bytes :=
  match gget (slots s) i with
  | Some hi => match lookup (hp s) hi with
               | Some k => match pl k with PElem _ _ nm _ _ => nm | PText _ => [] end
               | None => []
               end
  | None => []
  end.

(* nobody but slot i sees block b *)
Definition exclusive (s : vstate) (i b : nat) : bool :=
  match block_of_slot s i with
  | Some b' => (b' =? b)%nat && (rcof (hp s) b =? 1)%nat
  | None => false
  end.

(* the in-place write of a block other Variants share: every handle that points to it sees the new name *)
Definition write_shared (s : vstate) (b : nat) (nm : bytes) : vstate :=
  match nth_error (hp s) b with
  | Some k => match pl k with
              | PElem l c _ at_ hs => mkV (upd b (mkBlock (rc k) (PElem l c nm at_ hs)) (hp s)) (slots s)
              | PText _ => s
              end
  | None => s
  end.

Definition hstep (st : hstate) (o : hop) : hstate :=
  let s := hvs st in
  match o with
  | HOp o' =>
    mkHS (mstep s o')
         (match held st with
          | Some (i, b) => if (i =? target o')%nat then None else Some (i, b)
          | None => None
          end)
  | HHold i =>
    match gget (slots s) i with
    | Some _ =>
      (* toElement(): another type -> a fresh empty element, shared -> a private copy, else the block itself;
         on the heap this is the step "rename the element to the name it has" *)
      let s1 := mstep s (VName i (cur_name s i)) in
      mkHS s1 (match block_of_slot s1 i with Some b => Some (i, b) | None => None end)
    | None => mkHS s None
    end
  | HWriteHeld nm =>
    match held st with
    | Some (i, b) =>
      if exclusive s i b
      then (* the block is seen by slot i alone: the in-place write of `slot i .toElement().type = nm`
              (conventions of mstep: old id retired, payload under a fresh id, slot redirected) *)
           let s1 := mstep s (VName i nm) in
           mkHS s1 (match block_of_slot s1 i with Some b1 => Some (i, b1) | None => None end)
      else mkHS (write_shared s b nm) (held st)
    | None => st
    end
  end.

Definition hinit : hstate := mkHS vinit None.
