(* C16: totality, bounds and error positions of the whole parser.
   For every byte list s, [parse s] (the model run on s ++ [0] with fuel 2*|s|+4)
   - is never [Fuel]  (terminates),
   - is never [Oob]   (no read from the empty list, i.e. nothing beyond the terminator),
   - and when it is [Syn l c _], (l, c) is the line/column of an offset 0..|s| of s. *)
From Coq Require Import ZArith List Bool Lia.
From Xml Require Import Gen_Xml XmlSpec XmlModel XmlProofsScan.
Import ListNotations.
Local Open Scope Z_scope.
Local Open Scope bool_scope.

Definition adv_good {A} (text r0 : list Z) (x : res (A * pos)) : Prop :=
  match x with
  | Ok (_, q) => Inv text q /\ suffix (rest q) r0 /\ (length (rest q) < length r0)%nat
  | Syn l c _ => ErrAt text l c
  | Oob => False
  | Fuel => False
  end.

Lemma adv_good_mono : forall A text r1 r0 (x : res (A * pos)),
  adv_good text r1 x -> suffix r1 r0 -> adv_good text r0 x.
Proof.
  intros A text r1 r0 [[a q]| | |] G S; cbn [adv_good] in *; try tauto.
  destruct G as (I & Sq & L). split; [exact I|]. split; [exact (suffix_trans _ _ _ Sq S)|].
  apply suffix_len in S. lia.
Qed.

Lemma tok_adv : forall text r0 tk q, tok_good text r0 (Ok (tk, q)) ->
  Inv text (tpos tk) /\ Inv text q /\ suffix (rest q) r0 /\ (length (rest q) < length r0)%nat.
Proof. intros. exact H. Qed.

Ltac rt_case text p HI tk q Gt :=
  let G := fresh "G" in
  pose proof (readToken_ok text p HI) as G;
  destruct (readToken p) as [[tk q]| | |]; cbn [bind tok_good] in G |- *;
  [destruct G as Gt| exact G | exact G | exact G].

(* ---- attributes --------------------------------------------------------------------------- *)

Lemma parseAttrs_ok : forall text f acc p, Inv text p -> (length (rest p) <= f)%nat ->
  adv_good text (rest p) (parseAttrs f acc p).
Proof.
  intros text. induction f as [|f IH]; intros acc p HI Hf.
  { pose proof (inv_in0 _ _ HI) as H0. destruct (rest p); [exfalso; exact H0|cbn [length] in Hf; lia]. }
  cbn [parseAttrs].
  pose proof (readToken_ok text p HI) as G.
  destruct (readToken p) as [[tk q]| | |]; cbn [bind tok_good adv_good] in G |- *; try exact G.
  destruct G as (Itk & Iq & Sq & Lq).
  assert (Hloop : forall acc', adv_good text (rest p) (parseAttrs f acc' q)).
  { intros acc'. apply (adv_good_mono _ _ (rest q)); [|exact Sq]. apply IH; [exact Iq|lia]. }
  assert (Hdone : forall (ae : attrs_end), adv_good text (rest p) (Ok (ae, acc, q))).
  { intros ae. cbn [adv_good]. tauto. }
  destruct (tty tk); try apply Hloop; try apply Hdone.
  (* a name: '=' and a string must follow *)
  pose proof (readToken_ok text q Iq) as G1.
  destruct (readToken q) as [[tk1 q1]| | |]; cbn [bind tok_good adv_good] in G1 |- *; try exact G1.
  destruct G1 as (Itk1 & Iq1 & Sq1 & Lq1).
  assert (E1 : adv_good text (rest p) (@synAt (attrs_end * list (bytes * bytes) * pos) (tpos tk1) EExpEq)).
  { unfold synAt. cbn [adv_good]. apply errat_of. exact Itk1. }
  destruct (tty tk1); try exact E1.
  pose proof (readToken_ok text q1 Iq1) as G2.
  destruct (readToken q1) as [[tk2 q2]| | |]; cbn [bind tok_good adv_good] in G2 |- *; try exact G2.
  destruct G2 as (Itk2 & Iq2 & Sq2 & Lq2).
  assert (E2 : adv_good text (rest p) (@synAt (attrs_end * list (bytes * bytes) * pos) (tpos tk2) EExpString)).
  { unfold synAt. cbn [adv_good]. apply errat_of. exact Itk2. }
  destruct (tty tk2); try exact E2.
  apply (adv_good_mono _ _ (rest q2)).
  - apply IH; [exact Iq2|lia].
  - exact (suffix_trans _ _ _ Sq2 (suffix_trans _ _ _ Sq1 Sq)).
Qed.

(* ---- end tag ------------------------------------------------------------------------------ *)

Definition pos_good (text r0 : list Z) (x : res pos) : Prop :=
  match x with
  | Ok q => Inv text q /\ suffix (rest q) r0 /\ (length (rest q) < length r0)%nat
  | Syn l c _ => ErrAt text l c
  | Oob => False
  | Fuel => False
  end.

Lemma closeTag_ok : forall text nm p, Inv text p -> pos_good text (rest p) (closeTag nm p).
Proof.
  intros text nm p HI. unfold closeTag.
  pose proof (readToken_ok text p HI) as G.
  destruct (readToken p) as [[tk q]| | |]; cbn [bind tok_good pos_good] in G |- *; try exact G.
  destruct G as (Itk & Iq & Sq & Lq).
  assert (E0 : forall m, pos_good text (rest p) (@synAt pos (tpos tk) m)).
  { intros m. unfold synAt. cbn [pos_good]. apply errat_of. exact Itk. }
  destruct (tty tk); try apply E0.
  destruct (negb (list_eqb (tval tk) nm)); [apply E0|].
  pose proof (readToken_ok text q Iq) as G1.
  destruct (readToken q) as [[tk1 q1]| | |]; cbn [bind tok_good pos_good] in G1 |- *; try exact G1.
  destruct G1 as (Itk1 & Iq1 & Sq1 & Lq1).
  assert (E1 : pos_good text (rest p) (@synAt pos (tpos tk1) EExpGt)).
  { unfold synAt. cbn [pos_good]. apply errat_of. exact Itk1. }
  destruct (tty tk1); try exact E1.
  cbn [pos_good]. split; [exact Iq1|]. split; [exact (suffix_trans _ _ _ Sq1 Sq)|lia].
Qed.

(* ---- elements and content ----------------------------------------------------------------- *)

Lemma parse_rec_ok : forall text f,
  (forall tp p, Inv text p -> (2 * length (rest p) + 1 <= f)%nat -> adv_good text (rest p) (parseElement f tp p)) /\
  (forall acc p, Inv text p -> (2 * length (rest p) + 2 <= f)%nat -> adv_good text (rest p) (parseContent f acc p)).
Proof.
  intros text. induction f as [|f [IHe IHc]].
  { split; intros; lia. }
  split.
  - intros tp p HI Hf. cbn [parseElement].
    pose proof (readToken_ok text p HI) as G.
    destruct (readToken p) as [[tk q]| | |]; cbn [bind tok_good adv_good] in G |- *; try exact G.
    destruct G as (Itk & Iq & Sq & Lq).
    assert (E0 : adv_good text (rest p) (@synAt (node * pos) (tpos tk) EExpTagName)).
    { unfold synAt. cbn [adv_good]. apply errat_of. exact Itk. }
    destruct (tty tk); try exact E0.
    pose proof (parseAttrs_ok text (length (rest q)) [] q Iq (le_n _)) as GA.
    destruct (parseAttrs (length (rest q)) [] q) as [[[ae at_] q1]| | |]; cbn [bind adv_good] in GA |- *; try exact GA.
    destruct GA as (Iq1 & Sq1 & Lq1).
    destruct ae.
    + cbn [adv_good]. split; [exact Iq1|]. split; [exact (suffix_trans _ _ _ Sq1 Sq)|lia].
    + pose proof (IHc [] q1 Iq1) as GC.
      assert (Hb : (2 * length (rest q1) + 2 <= f)%nat) by lia.
      specialize (GC Hb).
      destruct (parseContent f [] q1) as [[ct q2]| | |]; cbn [bind adv_good] in GC |- *; try exact GC.
      destruct GC as (Iq2 & Sq2 & Lq2).
      pose proof (closeTag_ok text (tval tk) q2 Iq2) as GT.
      destruct (closeTag (tval tk) q2) as [q3| | |]; cbn [bind pos_good adv_good] in GT |- *; try exact GT.
      destruct GT as (Iq3 & Sq3 & Lq3).
      split; [exact Iq3|]. split.
      * exact (suffix_trans _ _ _ Sq3 (suffix_trans _ _ _ Sq2 (suffix_trans _ _ _ Sq1 Sq))).
      * lia.
  - intros acc p HI Hf. cbn [parseContent].
    (* the text branch *)
    assert (Htext : (match readToken p with Ok (tk, _) => tty tk <> TStart /\ tty tk <> TEndBegin | _ => True end) ->
              adv_good text (rest p) (do x <- parseText p; parseContent f (T (fst x) :: acc) (snd x))).
    { intros Hla. pose proof (parseText_ok text p HI Hla) as GT.
      destruct (parseText p) as [[t q]| | |]; cbn [bind adv_good fst snd] in GT |- *; try exact GT.
      destruct GT as (Iq & Sq & Lq).
      apply (adv_good_mono _ _ (rest q)); [|exact Sq]. apply IHc; [exact Iq|lia]. }
    pose proof (readToken_ok text p HI) as G.
    destruct (readToken p) as [[tk q]| | |] eqn:ERT; cbn [tok_good] in G; try exact G.
    + destruct G as (Itk & Iq & Sq & Lq).
      destruct (tty tk) eqn:Ety; try (apply Htext; split; congruence).
      * (* child element *)
        pose proof (IHe (tpos tk) q Iq) as GE.
        assert (Hb : (2 * length (rest q) + 1 <= f)%nat) by lia.
        specialize (GE Hb).
        destruct (parseElement f (tpos tk) q) as [[e q1]| | |]; cbn [bind adv_good fst snd] in GE |- *; try exact GE.
        destruct GE as (Iq1 & Sq1 & Lq1).
        apply (adv_good_mono _ _ (rest q1)); [|exact (suffix_trans _ _ _ Sq1 Sq)].
        apply IHc; [exact Iq1|lia].
      * (* "</" *)
        cbn [adv_good]. tauto.
    + apply Htext. exact I.
Qed.

(* ---- prolog ------------------------------------------------------------------------------- *)

Lemma pi_stop_cases : forall e, pi_stop e = true -> e = 13 \/ e = 10 \/ e = 63.
Proof.
  intros e H. unfold pi_stop in H. apply orb_prop in H. destruct H as [H|H].
  - apply orb_prop in H. destruct H as [H|H]; zb; auto.
  - zb. auto.
Qed.

Lemma pi_stop_plain : forall a, Forall (fun x => x <> 0 /\ pi_stop x = false) a -> Forall plain a.
Proof.
  intros a F. eapply Forall_impl; [|exact F]. intros x [H0 Hs]. unfold plain. split; [exact H0|].
  unfold pi_stop in Hs. apply orb_false_elim in Hs. destruct Hs as [Hs _]. apply orb_false_elim in Hs.
  destruct Hs as [H13 H10]. zb. tauto.
Qed.

Lemma piBody_ok : forall text f start p, Inv text start -> Inv text p -> (length (rest p) <= f)%nat ->
  pos_good text (rest p) (piBody f start p).
Proof.
  intros text. induction f as [|f IH]; intros start p Is HI Hf.
  { pose proof (inv_in0 _ _ HI) as H0. destruct (rest p); [exfalso; exact H0|cbn [length] in Hf; lia]. }
  cbn [piBody].
  destruct (scan_ok pi_stop (rest p) (inv_in0 _ _ HI)) as (a & e & b & S & R & F & C & I0).
  rewrite S.
  pose proof (pi_stop_plain _ F) as Fp.
  destruct (e =? 0) eqn:E0.
  { unfold synAt. cbn [pos_good]. apply errat_of. exact Is. }
  zb. destruct C as [C|C]; [contradiction|].
  assert (H0b : In 0 b) by (apply (in0_tail _ _ I0); assumption).
  (* continue from a cursor q0 strictly inside rest p *)
  assert (Hcont : forall q0, Inv text q0 -> suffix (rest q0) (rest p) ->
            (length (rest q0) < length (rest p))%nat ->
            pos_good text (rest p) (piBody f start q0)).
  { intros q0 I0' S0 Lq.
    pose proof (IH start q0 Is I0') as G. assert (Hb : (length (rest q0) <= f)%nat) by lia. specialize (G Hb).
    destruct (piBody f start q0) as [q'| | |]; cbn [pos_good] in G |- *; try exact G.
    destruct G as (A & B & L). split; [exact A|]. split; [exact (suffix_trans _ _ _ B S0)|lia]. }
  destruct (e =? 63) eqn:E63.
  - zb. subst e. destruct b as [|e1 r4]; [exfalso; exact H0b|].
    destruct (e1 =? 62) eqn:E62.
    + zb. subst e1. cbn [pos_good]. split.
      * replace (zlen a + 2) with (zlen (a ++ [63; 62])) by (rewrite zlen_app; reflexivity).
        apply (adv_inv_many text p (a ++ [63; 62]) r4); [exact HI| |].
        -- rewrite R. rewrite <- app_assoc. reflexivity.
        -- apply Forall_app. split; [exact Fp|]. repeat constructor; discriminate.
      * cbn [adv rest]. rewrite R. split.
        -- exists (a ++ [63; 62]). rewrite <- app_assoc. reflexivity.
        -- rewrite app_length. cbn [length]. lia.
    + apply Hcont.
      * replace (zlen a + 1) with (zlen (a ++ [63])) by (rewrite zlen_app; reflexivity).
        apply (adv_inv_many text p (a ++ [63]) (e1 :: r4)); [exact HI| |].
        -- rewrite R. rewrite <- app_assoc. reflexivity.
        -- apply Forall_app. split; [exact Fp|]. repeat constructor; discriminate.
      * cbn [adv rest]. rewrite R. exists (a ++ [63]). rewrite <- app_assoc. reflexivity.
      * cbn [adv rest]. rewrite R. rewrite app_length. cbn [length]. lia.
  - (* a line break: counted by the loop itself *)
    zb. cbv zeta.
    pose proof (adv_inv_many text p a (e :: b) HI R Fp) as I1. unfold Inv, adv in I1. cbn [rest off line ls] in I1.
    assert (Sb : forall m r', e :: b = m ++ r' -> suffix r' (rest p)).
    { intros m r' Em. rewrite R, Em, app_assoc. apply suffix_app. }
    assert (Lb : forall r' : list Z, (length r' < length (e :: b))%nat -> (length r' < length (rest p))%nat).
    { intros r' Hl. rewrite R, app_length. lia. }
    destruct (pi_stop_cases _ C) as [X|[X|X]]; [| |contradiction]; subst e; cbn [Z.eqb Pos.eqb].
    + destruct b as [|e1 r4]; [exfalso; exact H0b|].
      destruct (e1 =? 10) eqn:E10.
      * zb. subst e1. apply Hcont.
        -- apply inv_mk. exact (inv_adv_crlf _ _ _ _ _ I1).
        -- cbn [rest]. apply (Sb [13; 10]). reflexivity.
        -- cbn [rest]. apply Lb. cbn [length]. lia.
      * zb. apply Hcont.
        -- apply inv_mk. exact (inv_adv_cr _ _ _ _ _ _ I1 E10).
        -- cbn [rest]. apply (Sb [13]). reflexivity.
        -- cbn [rest]. apply Lb. cbn [length]. lia.
    + apply Hcont.
      * apply inv_mk. exact (inv_adv_lf _ _ _ _ _ I1).
      * cbn [rest]. apply (Sb [10]). reflexivity.
      * cbn [rest]. apply Lb. cbn [length]. lia.
Qed.

Definition pos_ok (text r0 : list Z) (x : res pos) : Prop :=
  match x with
  | Ok q => Inv text q /\ suffix (rest q) r0
  | Syn l c _ => ErrAt text l c
  | Oob => False
  | Fuel => False
  end.

Lemma prolog_ok : forall text f p, Inv text p -> (length (rest p) <= f)%nat -> pos_ok text (rest p) (prolog f p).
Proof.
  intros text. induction f as [|f IH]; intros p HI Hf.
  { pose proof (inv_in0 _ _ HI) as H0. destruct (rest p); [exfalso; exact H0|cbn [length] in Hf; lia]. }
  cbn [prolog].
  pose proof (inv_in0 _ _ HI) as H0.
  destruct (rest p) as [|c r1] eqn:Rp; [exfalso; exact H0|].
  assert (Hstay : pos_ok text (c :: r1) (Ok p)).
  { cbn [pos_ok]. split; [exact HI|]. rewrite Rp. apply suffix_refl. }
  destruct (c =? 60) eqn:E60; [|exact Hstay]. zb. subst c.
  assert (H0' : In 0 r1) by (apply (in0_tail _ _ H0); discriminate).
  destruct r1 as [|c1 r2]; [exfalso; exact H0'|].
  destruct (c1 =? 63) eqn:E63; [|exact Hstay]. zb. subst c1.
  assert (Ia : Inv text (adv p 2 r2)).
  { apply (adv_inv_many text p [60; 63] r2); [exact HI|exact Rp|]. repeat constructor; discriminate. }
  pose proof (piBody_ok text (length r2) p (adv p 2 r2) HI Ia (le_n _)) as G.
  cbn [adv rest] in G.
  destruct (piBody (length r2) p (adv p 2 r2)) as [q| | |]; cbn [bind pos_good pos_ok] in G |- *; try exact G.
  destruct G as (Iq & Sq & Lq).
  destruct (skipSpace_ok text q Iq) as (q1 & Eq1 & Iq1 & Sq1). rewrite Eq1. cbn [bind].
  pose proof (IH q1 Iq1) as G1.
  assert (Hb : (length (rest q1) <= f)%nat).
  { apply suffix_len in Sq1. cbn [length] in Hf. lia. }
  specialize (G1 Hb).
  destruct (prolog f q1) as [q2| | |]; cbn [pos_ok] in G1 |- *; try exact G1.
  destruct G1 as (Iq2 & Sq2). split; [exact Iq2|].
  apply (suffix_trans _ _ _ Sq2). apply (suffix_trans _ _ _ Sq1). apply (suffix_trans _ _ _ Sq).
  exists [60; 63]. reflexivity.
Qed.

(* ---- the whole parser --------------------------------------------------------------------- *)

Definition res_good {A} (text : list Z) (x : res A) : Prop :=
  match x with Ok _ => True | Syn l c _ => ErrAt text l c | Oob => False | Fuel => False end.

Lemma inv_start : forall s, Inv (s ++ [0]) (mkPos (s ++ [0]) 0 1 0).
Proof.
  intros s. exists [], false. cbn [rest off line ls]. repeat split; try reflexivity; [discriminate|].
  apply in_or_app. right. left. reflexivity.
Qed.

Lemma parseFrom_ok : forall s f, (2 * length s + 1 <= f)%nat -> res_good (s ++ [0]) (parseFrom f (s ++ [0])).
Proof.
  intros s f Hf. unfold parseFrom. set (text := s ++ [0]).
  pose proof (inv_start s) as I0. fold text in I0.
  destruct (skipSpace_ok text _ I0) as (p0 & E0 & Ip0 & Sp0). rewrite E0. cbn [bind].
  cbn [rest] in Sp0.
  pose proof (prolog_ok text (length text) p0 Ip0 (suffix_len _ _ Sp0)) as G.
  destruct (prolog (length text) p0) as [p1| | |]; cbn [bind pos_ok res_good] in G |- *; try exact G.
  destruct G as (Ip1 & Sp1).
  pose proof (readToken_ok text p1 Ip1) as GT.
  destruct (readToken p1) as [[tk q]| | |]; cbn [bind tok_good res_good] in GT |- *; try exact GT.
  destruct GT as (Itk & Iq & Sq & Lq).
  assert (E1 : res_good text (@synAt node (tpos tk) EExpLt)).
  { unfold synAt. cbn [res_good]. apply errat_of. exact Itk. }
  destruct (tty tk); try exact E1.
  destruct (parse_rec_ok text f) as [He _].
  pose proof (He (tpos tk) q Iq) as GE.
  assert (Hb : (2 * length (rest q) + 1 <= f)%nat).
  { apply suffix_len in Sp1. apply suffix_len in Sp0. unfold text in Sp0. rewrite app_length in Sp0. cbn [length] in Sp0. lia. }
  specialize (GE Hb).
  destruct (parseElement f (tpos tk) q) as [[e q1]| | |]; cbn [bind adv_good res_good] in GE |- *; try exact GE.
  exact I.
Qed.

(* (line, column) of a cursor that satisfies the invariant is the position of an offset of s *)
Lemma errat_inside : forall s l c, ErrAt (s ++ [0]) l c -> inside_text s l c.
Proof.
  intros s l c (p & (pre & cr & Ht & Ho & Hlc & _ & H0) & Hl & Hc).
  assert (Hne : rest p <> []) by (apply in0_nonnil; exact H0).
  destruct (exists_last Hne) as (r' & y & Hr).
  rewrite Hr in Ht. rewrite app_assoc in Ht. apply app_inj_tail in Ht. destruct Ht as [Hs _].
  exists (length pre). split.
  - rewrite Hs. rewrite app_length. lia.
  - rewrite Hs. rewrite firstn_app, Nat.sub_diag, firstn_all. cbn [firstn]. rewrite app_nil_r.
    unfold linecol. rewrite Hlc. subst l c. reflexivity.
Qed.

Lemma parse_total_safe : forall s,
  match parse s with
  | Ok _ => True
  | Syn l c _ => inside_text s l c
  | Oob => False
  | Fuel => False
  end.
Proof.
  intros s. unfold parse.
  pose proof (parseFrom_ok s (fuel_for s)) as G.
  assert (Hf : (2 * length s + 1 <= fuel_for s)%nat) by (unfold fuel_for; lia).
  specialize (G Hf).
  destruct (parseFrom (fuel_for s) (s ++ [0])); cbn [res_good] in G; try exact G.
  apply errat_inside. exact G.
Qed.

Lemma parse_terminates : forall s, parse s <> Fuel.
Proof. intros s H. pose proof (parse_total_safe s) as G. rewrite H in G. exact G. Qed.

Lemma parse_in_bounds : forall s, parse s <> Oob.
Proof. intros s H. pose proof (parse_total_safe s) as G. rewrite H in G. exact G. Qed.

Lemma parse_error_inside : forall s l c m, parse s = Syn l c m -> inside_text s l c.
Proof. intros s l c m H. pose proof (parse_total_safe s) as G. rewrite H in G. exact G. Qed.
