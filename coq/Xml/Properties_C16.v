(* Property C16 *)
From Coq Require Import ZArith List.
