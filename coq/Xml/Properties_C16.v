(* Property C16 - XML parsing is total and safe; serialising then parsing is identity; copies of
   element values are independent of their source.

   Clause of the property statement                         -> theorem below
   -------------------------------------------------------------------------------------------
   "terminates for every NUL-terminated byte string"        -> xml_parse_terminates
        (no hypothesis on the nesting depth is needed in the model: the fuel 2*|s|+4 given to the
         recursive descent is never used up; the C++ call stack itself is validated by the
         depth-1000 cases of the correspondence run only)
   "reads nothing beyond the terminator"                    -> xml_parse_in_bounds
        (every read of the model is a checked read of the list s ++ [0]; Oob = read from [])
   "either yields an element or reports failure with a line
    and column that lie inside the text"                    -> xml_error_position_inside_text,
                                                               xml_parse_total_and_safe (all three)
   "accepts comments wherever white space is allowed"       -> xml_comment_skipped_like_white_space,
                                                               xml_tokenizer_depends_on_text_only,
                                                               xml_comment_in_front_of_any_token,
                                                               xml_gap_in_front_of_any_token (any mix of
                                                               white space and comments)
        (white space is allowed exactly in front of tokens: every token is read through readToken,
         which starts with the white-space scanner; a comment glued to the END of a name is part of
         the name, as any other byte that is not / > = or white space)
        next to text (parseText's own skipSpace call, Xml.cpp:402) and for whole documents:
                                                            -> xml_parser_depends_on_text_only (the whole
                                                               descent, up to recorded positions),
                                                               xml_comment_before_text (parseText),
                                                               xml_comment_gap_in_content (the content loop at
                                                               any depth: a gap that begins with a comment in
                                                               front of text, a child or the end tag),
                                                               xml_gap_before_document (parse (g ++ d) ~ parse d)
        (white space BEHIND a comment in front of text is swallowed with the comment, white space IN FRONT
         of it becomes a text node of its own: hence "gap that begins with a comment" and text_start)
   "(and processing instructions before the root element)"  -> xml_pi_before_root_skipped, xml_pi_before_document
                                                               (bodies without ? CR LF NUL),
                                                               xml_any_processing_instruction_before_document
                                                               (EVERY body: any byte but NUL, the instruction ends
                                                               at its first "?>"; the code after repair 08),
                                                               xml_prolog_before_document (any mix of white space,
                                                               comments and instructions in front of the root),
                                                               xml_prolog_changes_no_data (... leaves names,
                                                               attributes, nesting and character data as they are:
                                                               XmlSpec.squash, the relation the check's parseg
                                                               judge evaluates on the implementation),
                                                               xml_same_tree_same_data
   "for every element tree with well-formed names, arbitrary
    attribute values and non-blank, non-adjacent text nodes,
    parsing the output of toString yields the same names,
    attribute order and values, text and nesting"           -> xml_roundtrip   (full, layer 3)
        layer 1: escape_unescape_inverse, escape_output_is_safe (against the regenerated tables)
        "entity and numeric character references": xml_predefined_entities, xml_numeric_reference
        layer 2: xml_attribute_value_roundtrip, xml_text_node_roundtrip
   "copies of element values are independent of their
    source"                                                 -> xml_copies_independent (histories of complete
        operations: mutable access and write in one step), from
        xml_handle_counts_exact (every reference count = number of Variant objects pointing to the
        block, for every history; so the in-place write path, taken when ref == 1, is seen by the
        written handle alone) and xml_handles_refine_values (the heap model with copy-on-write
        refines the value store of the spec), xml_assign_from_own_content_item (the source of an assignment may
        be a content item of the assigned Variant itself: node = node.toElement().content[k]); the alphabet of operations
        includes VSubAssign i k j (a content item assigned in place from another Variant - a copy, an ancestor, a
        descendant; j = i is outside the alphabet: the code builds a cycle there, see checks/C16.py level_note)
        xml_text_assigned_to_content_item (a String assigned to a content item through its element, run as VText tmp;
        VSubAssign i k tmp; VDel tmp: only slot i changes - no copy of the element or of the old text item does)

        A reference obtained from the non-const toElement() and KEPT by the caller
        (`Element& e = v.toElement(); Variant w(v); e.type = ...;`):
                                                            -> xml_copies_independent_refuted_with_held_reference
        (the write is seen by the copy w: the statement is false of the faithful model for such histories),
        xml_copies_independent_without_reference_kept_across_copy (the statement under the visible hypothesis
        "no reference obtained from toElement() is used after a later copy": at the write no other Variant
        shares the block), xml_held_write_is_complete_operation, xml_reference_exclusive_when_obtained,
        xml_shared_reference_means_another_variant, xml_handle_counts_exact_with_held_references (counts stay
        exact in EVERY history, with or without the hypothesis), xml_hold_is_touch
   The file based entry points Xml::load, Xml::Parser::load, Xml::save (wrappers over File; the file
   system is an input: the content read / whether the path can be opened)
                                                            -> xml_load_is_parse_of_file_content,
        xml_static_load_is_parse_of_file_content, xml_load_total_and_safe (clauses 1-3 of the property for the
        content of the file), xml_load_missing_file_fails_and_keeps_target, xml_save_writes_toString,
        xml_save_then_load_roundtrip

   One Parser object for several texts, a target Element that already holds something, the static
   wrappers (the property speaks of Xml::parse as a function of the text)
                                                            -> xml_parser_reuse_is_fresh_parse,
        xml_parser_history_is_fresh_parses, xml_second_parse_error_inside_second_text,
        xml_parser_error_fields, xml_static_parse_is_parse; xml_parse_without_clear_keeps_target_content
        records what the code did before repair 07 (`element.clear()`)

   Only statements closed by `exact`, each followed by Print Assumptions, plus non-vacuity
   Examples. *)
From Coq Require Import ZArith List Bool.
From Xml Require Import Gen_Xml XmlSpec XmlModel XmlProofsCodec XmlProofsScan XmlProofsTotal XmlProofsRound XmlProofsComment XmlProofsContext XmlProofsHandles XmlProofsReuse XmlProofsFile XmlProofsHeld XmlProofsAccept.
Import ListNotations.
Local Open Scope Z_scope.

(* ---- totality, bounds, error positions ---------------------------------------------------- *)

Theorem xml_parse_terminates : forall s : list Z, parse s <> Fuel.
Proof. exact parse_terminates. Qed.
Print Assumptions xml_parse_terminates.

Theorem xml_parse_in_bounds : forall s : list Z, parse s <> Oob.
Proof. exact parse_in_bounds. Qed.
Print Assumptions xml_parse_in_bounds.

Theorem xml_error_position_inside_text : forall s l c m, parse s = Syn l c m -> inside_text s l c.
Proof. exact parse_error_inside. Qed.
Print Assumptions xml_error_position_inside_text.

Theorem xml_parse_total_and_safe : forall s : list Z,
  match parse s with
  | Ok _ => True
  | Syn l c _ => inside_text s l c
  | Oob => False
  | Fuel => False
  end.
Proof. exact parse_total_safe. Qed.
Print Assumptions xml_parse_total_and_safe.

(* the input that used to loop forever, <a>x<!--c-->y</a>, is covered (and terminates) *)
Example ex_comment_before_text :
  parse [60;97;62;120;60;33;45;45;99;45;45;62;121;60;47;97;62] = Ok (N 1 1 [97] [] [T [120]; T [121]]).
Proof. vm_compute. reflexivity. Qed.

(* "<a>" LF "<b" : the error is reported at line 2, column 3 = the position of offset 6 = |s| *)
Example ex_error_position : parse [60;97;62;10;60;98] = Syn 2 3 EEof /\ inside_text [60;97;62;10;60;98] 2 3.
Proof. split; [vm_compute; reflexivity|]. exists 6%nat. split; [apply le_n|vm_compute; reflexivity]. Qed.

Example ex_error_newline_in_string : parse [60;97;32;107;61;34;118;62;10] = Syn 1 6 ENewline.
Proof. vm_compute. reflexivity. Qed.

(* ---- one Parser object, several texts; a target that holds something; the static wrappers --- *)

Theorem xml_parser_reuse_is_fresh_parse : forall (o : parser) (target : node) (s : list Z), snd (parse_with o target s) = parse s.
Proof. exact parse_with_result. Qed.
Print Assumptions xml_parser_reuse_is_fresh_parse.

Theorem xml_parser_history_is_fresh_parses :
  forall (calls : list (node * list Z)) (o : parser), run_parses o calls = map (fun c => parse (snd c)) calls.
Proof. exact run_parses_fresh. Qed.
Print Assumptions xml_parser_history_is_fresh_parses.

Theorem xml_second_parse_error_inside_second_text : forall o tgt1 s1 tgt2 s2 l c m,
  snd (parse_with (fst (parse_with o tgt1 s1)) tgt2 s2) = Syn l c m -> inside_text s2 l c.
Proof. exact second_parse_error_inside_second_text. Qed.
Print Assumptions xml_second_parse_error_inside_second_text.

Theorem xml_parser_error_fields : forall o tgt s,
  match parse s with
  | Syn l c m => o_err (fst (parse_with o tgt s)) = Some (l, c, Some m)
  | _ => o_err (fst (parse_with o tgt s)) = None
  end.
Proof. exact parse_with_error_fields. Qed.
Print Assumptions xml_parser_error_fields.

Theorem xml_static_parse_is_parse : forall garbage target s, static_parse garbage target s = parse s.
Proof. exact static_parse_result. Qed.
Print Assumptions xml_static_parse_is_parse.

Theorem xml_parse_without_clear_keeps_target_content :
  snd (parse_obj false (new_parser 0) (N 0 0 [122] [([107], [118])] [T [116]]) [60;97;32;108;61;34;119;34;62;117;60;47;97;62])
    = Ok (N 1 1 [97] [([107], [118]); ([108], [119])] [T [116]; T [117]]) /\
  parse [60;97;32;108;61;34;119;34;62;117;60;47;97;62] = Ok (N 1 1 [97] [([108], [119])] [T [117]]).
Proof. exact parse_without_clear_keeps_target_content. Qed.
Print Assumptions xml_parse_without_clear_keeps_target_content.

(* one Parser object: LF LF <a  fails on line 3; then x fails on line 1 of its own text; then <b/> into a target that holds content *)
Example ex_parse_twice :
  run_parses (new_parser 77) [(Nul, [10;10;60;97]); (Nul, [120]); (N 0 0 [122] [([107], [118])] [T [116]], [60;98;47;62])]
  = [Syn 3 3 EEof; Syn 1 1 EExpLt; Ok (N 1 1 [98] [] [])].
Proof. vm_compute. reflexivity. Qed.

(* ---- comments and processing instructions ------------------------------------------------- *)

Theorem xml_comment_skipped_like_white_space : forall b r o l s, comment_body b = true ->
  exists o' l' s', skipSp false (comment b ++ r) o l s = skipSp false r o' l' s'.
Proof. exact skipSp_comment. Qed.
Print Assumptions xml_comment_skipped_like_white_space.

Theorem xml_tokenizer_depends_on_text_only : forall p p', rest p = rest p' -> tok_rel (readToken p) (readToken p').
Proof. exact readToken_rest_indep. Qed.
Print Assumptions xml_tokenizer_depends_on_text_only.

Theorem xml_comment_in_front_of_any_token : forall b p p', comment_body b = true ->
  rest p = comment b ++ rest p' -> tok_rel (readToken p) (readToken p').
Proof. exact readToken_comment. Qed.
Print Assumptions xml_comment_in_front_of_any_token.

Theorem xml_gap_in_front_of_any_token : forall g p p', gap g -> rest p = g ++ rest p' -> tok_rel (readToken p) (readToken p').
Proof. exact readToken_gap. Qed.
Print Assumptions xml_gap_in_front_of_any_token.

(* SP LF <!--c LF--> TAB is a gap *)
Example ex_gap : gap (32 :: 10 :: (comment [99; 10] ++ [9])).
Proof. exact (gap_space 32 _ eq_refl (gap_space 10 _ eq_refl (gap_comment [99; 10] [9] eq_refl (gap_space 9 [] eq_refl gap_nil)))). Qed.

Theorem xml_pi_before_root_skipped : forall f p a r, pi_body a = true -> rest p = [60; 63] ++ a ++ [63; 62] ++ r ->
  prolog (S f) p = bind (skipSpace (mkPos r (off p + 2 + (zlen a + 2)) (line p) (ls p))) (fun q1 => prolog f q1).
Proof. exact prolog_pi. Qed.
Print Assumptions xml_pi_before_root_skipped.

Example ex_comment_body : comment_body [99;45;45;10;60] = true /\ pi_body [120;109;108;32;61;34] = true.
Proof. split; vm_compute; reflexivity. Qed.

(* <?x?><!--c---><a <!--LF-->/>  : a processing instruction, a comment before the root, a comment inside the tag *)
Example ex_comments_and_pi :
  parse ([60;63;120;63;62] ++ comment [99;45] ++ [60;97;32] ++ comment [10] ++ [47;62]) = Ok (N 1 15 [97] [] []).
Proof. vm_compute. reflexivity. Qed.

(* ---- comments next to text, comments and processing instructions in front of the document ---- *)

(* rrel R x y: the two results are of the same kind, Ok values are related by R, failures carry the same
   message (line and column differ: they label the cursor).  Rnode / Rlist / Rdoc: equal after erasing
   the recorded positions, same remaining text. *)
Theorem xml_parser_depends_on_text_only : forall f,
  (forall tp tp' p p', rest p = rest p' -> rrel Rnode (parseElement f tp p) (parseElement f tp' p')) /\
  (forall acc acc' p p', map erase acc = map erase acc' -> rest p = rest p' ->
     rrel Rlist (parseContent f acc p) (parseContent f acc' p')).
Proof. exact parse_rec_ri. Qed.
Print Assumptions xml_parser_depends_on_text_only.

Theorem xml_comment_before_text : forall b g' p p', comment_body b = true -> gap g' ->
  rest p = comment b ++ g' ++ rest p' -> text_start (rest p') ->
  rrel Rtext (parseText p) (parseText p').
Proof. exact parseText_gap. Qed.
Print Assumptions xml_comment_before_text.

Theorem xml_comment_gap_in_content : forall f acc b g' p p', comment_body b = true -> gap g' ->
  rest p = comment b ++ g' ++ rest p' -> text_start (rest p') ->
  rrel Rlist (parseContent f acc p) (parseContent f acc p').
Proof. exact parseContent_gap. Qed.
Print Assumptions xml_comment_gap_in_content.

Theorem xml_gap_before_document : forall g d, gap g -> rrel Rdoc (parse (g ++ d)) (parse d).
Proof. exact parse_gap_before_document. Qed.
Print Assumptions xml_gap_before_document.

Theorem xml_pi_before_document : forall a d, pi_body a = true ->
  rrel Rdoc (parse ([60; 63] ++ a ++ [63; 62] ++ d)) (parse d).
Proof. exact parse_pi_before_document. Qed.
Print Assumptions xml_pi_before_document.

(* ---- processing instructions with any body; the whole prolog; what must not change ------------- *)

(* a processing instruction ends at its first "?>": ANY body (every byte but NUL - also '?', line breaks, a
   comment opener) is stepped over (the code after repair 08) *)
Theorem xml_any_processing_instruction_before_document : forall a d, pi_text a = true ->
  rrel Rdoc (parse (proc_instr a ++ d)) (parse d).
Proof. exact parse_any_pi_before_document. Qed.
Print Assumptions xml_any_processing_instruction_before_document.

(* white space, comments and processing instructions in front of the root element, in any number and mix *)
Theorem xml_prolog_before_document : forall j d, prolog_text j -> rrel Rdoc (parse (j ++ d)) (parse d).
Proof. exact parse_prolog_before_document. Qed.
Print Assumptions xml_prolog_before_document.

(* ... and the relation the check judges on the implementation (op parseg): both accepted with the same names,
   attributes, nesting and character data, or both rejected with the same message *)
Theorem xml_prolog_changes_no_data : forall j d, prolog_text j -> rrel same_up_to_gaps (parse (j ++ d)) (parse d).
Proof. exact parse_prolog_same_data. Qed.
Print Assumptions xml_prolog_changes_no_data.

Theorem xml_same_tree_same_data : forall a b, erase a = erase b -> same_up_to_gaps a b.
Proof. exact same_tree_same_data. Qed.
Print Assumptions xml_same_tree_same_data.

(* <?A ?<!--?><a/> (the witness of repair 08) and <?x LF <!-- ?> CR LF <!--c--><?y??><a/> are accepted;
   the instruction ends at the FIRST "?>":  <?x ?<!-- ?>--><a/>  is not a document *)
Example ex_pi_any_body :
  parse [60;63;65;32;63;60;33;45;45;63;62;60;97;47;62] = Ok (N 1 12 [97] [] []) /\
  pi_text [65;32;63;60;33;45;45] = true /\
  parse ([60;63;120;10;60;33;45;45;32;63;62;13;10] ++ comment [99] ++ [60;63;121;63;63;62;60;97;47;62]) = Ok (N 3 15 [97] [] []) /\
  parse [60;63;120;32;63;60;33;45;45;32;63;62;45;45;62;60;97;47;62] = Syn 1 13 EExpLt.
Proof. repeat split; vm_compute; reflexivity. Qed.

(* the relation is wider than "same tree up to positions" exactly where the text is silent: white space next to
   a comment.   <a> <!--c--> x</a>  gives the text nodes " " and "x",  <a>  x</a>  gives "  x" *)
Example ex_same_up_to_gaps :
  match parse ([60;97;62;32] ++ comment [99] ++ [32;120;60;47;97;62]), parse [60;97;62;32;32;120;60;47;97;62] with
  | Ok a, Ok b => same_up_to_gaps a b /\ erase a <> erase b
  | _, _ => False
  end.
Proof. vm_compute. split; [reflexivity|discriminate]. Qed.

Theorem xml_more_fuel_same_answer : forall f,
  (forall tp p, parseElement f tp p <> Fuel -> parseElement (S f) tp p = parseElement f tp p) /\
  (forall acc p, parseContent f acc p <> Fuel -> parseContent (S f) acc p = parseContent f acc p).
Proof. exact parse_rec_fuel. Qed.
Print Assumptions xml_more_fuel_same_answer.

(* <a><!--c--> SP <!--d-->x<b/><!--e--></a>  against  <a>x<b/></a> : same tree up to positions *)
Example ex_comments_in_content :
  option_map erase (match parse ([60;97;62] ++ comment [99] ++ [32] ++ comment [100] ++ [120;60;98;47;62] ++ comment [101] ++ [60;47;97;62])
                    with Ok n => Some n | _ => None end)
  = option_map erase (match parse [60;97;62;120;60;98;47;62;60;47;97;62] with Ok n => Some n | _ => None end)
  /\ parse [60;97;62;120;60;98;47;62;60;47;97;62] = Ok (N 1 1 [97] [] [T [120]; N 1 5 [98] [] []]).
Proof. split; vm_compute; reflexivity. Qed.

(* the two restrictions are real: white space in front of the comment is a text node of its own,
   white space behind it is swallowed:   <a> <!--c--> x</a>   gives   " " and "x" *)
Example ex_space_around_comment :
  parse ([60;97;62;32] ++ comment [99] ++ [32;120;60;47;97;62]) = Ok (N 1 1 [97] [] [T [32]; T [120]]).
Proof. vm_compute. reflexivity. Qed.

(* a processing instruction whose body holds a line break (outside xml_pi_before_document): the
   line is counted, the root is on line 2 *)
Example ex_pi_line_break : parse [60;63;120;10;121;63;62;60;97;47;62] = Ok (N 2 4 [97] [] []).
Proof. vm_compute. reflexivity. Qed.

(* ---- round trip --------------------------------------------------------------------------- *)

(* layer 1 *)
Theorem escape_unescape_inverse : forall v, wf_value v = true -> unescape (escape v) = v.
Proof. exact unescape_escape. Qed.
Print Assumptions escape_unescape_inverse.

Theorem escape_output_is_safe : forall v, wf_value v = true -> forallb safe_out (escape v) = true.
Proof. exact escape_safe. Qed.
Print Assumptions escape_output_is_safe.

(* references decode as XML says: the five predefined entities, decimal character references *)
Theorem xml_predefined_entities : forall nm c, In (nm, c) std_entities -> unescape (38 :: nm ++ [59]) = [c].
Proof. exact predefined_entities. Qed.
Print Assumptions xml_predefined_entities.

Theorem xml_numeric_reference : forall d ds rest, forallb is_digit (d :: ds) = true -> digits_val 0 (d :: ds) < 4294967296 ->
  unescape (38 :: 35 :: (d :: ds) ++ 59 :: rest) = utf8 (digits_val 0 (d :: ds)) ++ unescape rest.
Proof. exact numeric_reference. Qed.
Print Assumptions xml_numeric_reference.

Example ex_references : unescape [38;103;116;59;38;35;54;53;59;38;35;50;51;51;59] = [62;65;195;169].
Proof. vm_compute. reflexivity. Qed.

(* layer 2 *)
Theorem xml_attribute_value_roundtrip : forall p v z, rest p = 34 :: escape v ++ 34 :: z -> wf_value v = true ->
  exists tk q, readToken p = Ok (tk, q) /\ tty tk = TStr /\ tval tk = v /\ rest q = z.
Proof. exact readToken_string. Qed.
Print Assumptions xml_attribute_value_roundtrip.

Theorem xml_text_node_roundtrip : forall f acc p t z, wf_text t = true -> rest p = escape t ++ 60 :: z -> In 0 z ->
  exists q, parseContent (S f) acc p = parseContent f (T t :: acc) q /\ rest q = 60 :: z.
Proof. exact text_rt. Qed.
Print Assumptions xml_text_node_roundtrip.

(* layer 3: the whole statement *)
Theorem xml_roundtrip : forall e, wf_tree e = true -> exists e', parse (toString e) = Ok e' /\ erase e' = erase e.
Proof. exact roundtrip_ok. Qed.
Print Assumptions xml_roundtrip.

Example ex_codec : unescape (escape [34;38;10;13;60;62;39;1;255;38;35;54;53;59]) = [34;38;10;13;60;62;39;1;255;38;35;54;53;59]
                   /\ wf_value [34;38;10;13;60;62;39;1;255;38;35;54;53;59] = true.
Proof. split; vm_compute; reflexivity. Qed.

(* <a k="&quot;&amp;&#10;&#13;&lt;&apos;" l=""> x&amp;<b/>&#10;y</a> *)
Example ex_roundtrip :
  let e := N 0 0 [97] [([107], [34;38;10;13;60;39]); ([108], [])] [T [32;120;38]; N 0 0 [98] [] []; T [10;121]] in
  wf_tree e = true /\
  roundtrip e = Ok (N 2 1 [97] [([107], [34;38;10;13;60;39]); ([108], [])] [T [32;120;38]; N 2 52 [98] [] []; T [10;121]]).
Proof. split; vm_compute; reflexivity. Qed.

(* ---- copies of element values are independent --------------------------------------------- *)

(* for every history of handle operations: every block's reference count is the number of Variant
   objects pointing to it (slots + content lists of live blocks), so nothing points to a freed
   block (count 0); and a block's children are older than the block *)
Theorem xml_handle_counts_exact : forall ops b,
  rcof (hp (vrun ops)) b = (cnt b (srefs (slots (vrun ops))) + cnt b (lrefs (hp (vrun ops))))%nat.
Proof. exact run_counts_exact. Qed.
Print Assumptions xml_handle_counts_exact.

Theorem xml_handle_invariant : forall ops, Inv (vrun ops).
Proof. exact run_inv. Qed.
Print Assumptions xml_handle_invariant.

Theorem xml_handles_refine_values : forall ops, vabs (vrun ops) = fold_left vstep ops [].
Proof. exact run_refines. Qed.
Print Assumptions xml_handles_refine_values.

Theorem xml_copies_independent : forall ops o j, j <> target o ->
  sget (vabs (mstep (vrun ops) o)) j = sget (vabs (vrun ops)) j.
Proof. exact copies_independent. Qed.
Print Assumptions xml_copies_independent.

(* a copy shares the block (count 2); nested sharing, clone on mutable access through the copy *)
Example ex_handles_shared : map rc (hp (vrun [VElem 0 [97]; VCopy 1 0])) = [2%nat]
  /\ vabs (vrun [VElem 0 [97]; VCopy 1 0]) = [Some (N 0 0 [97] [] []); Some (N 0 0 [97] [] [])].
Proof. split; vm_compute; reflexivity. Qed.

Example ex_handles_cow :
  vabs (vrun [VElem 0 [97]; VCopy 1 0; VChild 0 1; VCopy 2 0; VSubMut 2 0 [99]; VName 1 [98]]) =
  [Some (N 0 0 [97] [] [N 0 0 [97] [] []]); Some (N 0 0 [98] [] []); Some (N 0 0 [97] [] [N 0 0 [99] [] []])].
Proof. vm_compute. reflexivity. Qed.

(* a Variant assigned from a content item - also from its OWN content item (node = node.toElement().content[k]:
   the right-hand side lives inside the value the assignment releases): the slot then holds the value the item
   had, the counts stay exact (so the item's block was not freed under the assignment) *)
Theorem xml_assign_from_own_content_item : forall ops i j k l c nm at_ ct y,
  sget (vabs (vrun ops)) j = Some (N l c nm at_ ct) -> nth_error ct k = Some y ->
  vabs (mstep (vrun ops) (VSub i j k)) = sset (vabs (vrun ops)) i (Some y) /\ Inv (mstep (vrun ops) (VSub i j k)).
Proof. exact assign_from_content_item. Qed.
Print Assumptions xml_assign_from_own_content_item.

(* a(b(c)) held by slot 0 alone; slot 0 := its own content item, twice: b(c), then c; no block is left with a count *)
Example ex_hoist_own_child :
  let h := [VElem 0 [97]; VElem 1 [98]; VElem 2 [99]; VChild 1 2; VChild 0 1; VDel 1; VDel 2] in
  vabs (vrun (h ++ [VSub 0 0 0])) = [Some (N 0 0 [98] [] [N 0 0 [99] [] []]); None; None] /\
  vabs (vrun (h ++ [VSub 0 0 0; VSub 0 0 0])) = [Some (N 0 0 [99] [] []); None; None] /\
  filter (fun n => negb (Nat.eqb n 0)) (map rc (hp (vrun (h ++ [VSub 0 0 0; VSub 0 0 0; VDel 0])))) = [].
Proof. repeat split; vm_compute; reflexivity. Qed.

(* a content item assigned IN PLACE from another Variant (op VSubAssign, covered by every theorem above that ranges over
   operations): slot 1 holds a copy of slot 0 = a(b); the item b of slot 0 := slot 1 gives a(a(b)), slot 1 keeps a(b);
   then the item of the descendant copied out to slot 2 := its ancestor slot 0 *)
Example ex_item_assigned_from_ancestor :
  let h := [VElem 0 [97]; VElem 1 [98]; VChild 0 1; VCopy 1 0; VSubAssign 0 0 1] in
  vabs (vrun h) = [Some (N 0 0 [97] [] [N 0 0 [97] [] [N 0 0 [98] [] []]]); Some (N 0 0 [97] [] [N 0 0 [98] [] []])] /\
  vabs (vrun (h ++ [VSub 2 0 0; VSubAssign 2 0 0; VDel 0; VDel 1])) =
    [None; None; Some (N 0 0 [97] [] [N 0 0 [97] [] [N 0 0 [97] [] [N 0 0 [98] [] []]]])] /\
  vabs (vrun (h ++ [VSubAssign 0 0 0])) = vabs (vrun h).
Proof. repeat split; vm_compute; reflexivity. Qed.

(* a String assigned to a content item through its element (`Xml::Element c = e; c.content.front() = "new";`, harness op
   vsubsettext i k t = VText tmp t; VSubAssign i k tmp; VDel tmp with a temporary slot): slot i holds its element with the
   k-th item replaced by the text, every other slot - every copy of the element, every copy of the old item - holds what
   it held, the counts stay exact (round 6: Variant::operator=(const String&) on a text block shared with copies) *)
Theorem xml_text_assigned_to_content_item : forall ops i k t tmp l c nm at_ ct,
  tmp <> i -> sget (vabs (vrun ops)) i = Some (N l c nm at_ ct) -> (k < length ct)%nat ->
  let s3 := vrun (ops ++ [VText tmp t; VSubAssign i k tmp; VDel tmp]) in
  sget (vabs s3) i = Some (N l c nm at_ (upd_nth k (fun _ => T t) ct)) /\
  sget (vabs s3) tmp = None /\
  (forall j, j <> i -> j <> tmp -> sget (vabs s3) j = sget (vabs (vrun ops)) j) /\
  Inv s3.
Proof. exact text_assigned_to_content_item. Qed.
Print Assumptions xml_text_assigned_to_content_item.

(* a(t) in slot 0, copied as a Variant (slot 2: the element block is shared) and as an Element (slot 4: the items share
   their blocks); the text of the copy in slot 2 := u, then the text of the source := w: each write is seen by its slot alone;
   a text Variant and its copy: the copy := b, the source keeps a *)
Example ex_text_of_copy_assigned :
  let h := [VElem 0 [97]; VText 1 [116]; VChild 0 1; VDel 1; VCopy 2 0; VElCopy 4 0] in
  vabs (vrun (h ++ [VText 6 [117]; VSubAssign 2 0 6; VDel 6])) =
    [Some (N 0 0 [97] [] [T [116]]); None; Some (N 0 0 [97] [] [T [117]]); None; Some (N 0 0 [97] [] [T [116]]); None; None] /\
  vabs (vrun (h ++ [VText 6 [117]; VSubAssign 2 0 6; VDel 6; VText 6 [119]; VSubAssign 0 0 6; VDel 6])) =
    [Some (N 0 0 [97] [] [T [119]]); None; Some (N 0 0 [97] [] [T [117]]); None; Some (N 0 0 [97] [] [T [116]]); None; None] /\
  vabs (vrun [VText 0 [97]; VCopy 1 0; VSetText 1 [98]]) = [Some (T [97]); Some (T [98])].
Proof. repeat split; vm_compute; reflexivity. Qed.

(* ---- a reference obtained from toElement() and kept by the caller -------------------------- *)

(* FALSE of the faithful model when the reference is used after the Variant was copied: element a in slot 0,
   reference kept, slot 1 := copy of slot 0, write b through the reference - slot 1 changes as well *)
Theorem xml_copies_independent_refuted_with_held_reference :
  exists ops nm j,
    Inv (hvs (hrun ops)) /\ j <> htarget (hrun ops) (HWriteHeld nm) /\
    sget (vabs (hvs (hstep (hrun ops) (HWriteHeld nm)))) j <> sget (vabs (hvs (hrun ops))) j.
Proof. exact copies_independent_refuted. Qed.
Print Assumptions xml_copies_independent_refuted_with_held_reference.

(* the statement under the visible hypothesis [ok_hist]: every write through a kept reference happens while no
   other Variant shares the block (held_not_shared) - "no reference obtained from toElement() is used after a
   later copy" *)
Theorem xml_copies_independent_without_reference_kept_across_copy :
  forall ops o j, ok_hist (ops ++ [o]) -> j <> htarget (hrun ops) o ->
    sget (vabs (hvs (hrun (ops ++ [o])))) j = sget (vabs (hvs (hrun ops))) j.
Proof. exact held_copies_independent. Qed.
Print Assumptions xml_copies_independent_without_reference_kept_across_copy.

Theorem xml_held_write_is_complete_operation :
  forall st o, Inv (hvs st) -> held_not_shared st o ->
    Inv (hvs (hstep st o)) /\
    vabs (hvs (hstep st o)) = match hop_vop st o with Some v => vstep (vabs (hvs st)) v | None => vabs (hvs st) end.
Proof. exact hstep_ok. Qed.
Print Assumptions xml_held_write_is_complete_operation.

Theorem xml_reference_exclusive_when_obtained :
  forall st i, gget (slots (hvs st)) i <> None ->
    exists b, held (hstep st (HHold i)) = Some (i, b) /\ exclusive (hvs (hstep st (HHold i))) i b = true.
Proof. exact hold_exclusive. Qed.
Print Assumptions xml_reference_exclusive_when_obtained.

Theorem xml_shared_reference_means_another_variant :
  forall s i b, Inv s -> block_of_slot s i = Some b -> exclusive s i b = false ->
    (2 <= cnt b (srefs (slots s)) + cnt b (lrefs (hp s)))%nat.
Proof. exact shared_means_another_variant. Qed.
Print Assumptions xml_shared_reference_means_another_variant.

Theorem xml_handle_counts_exact_with_held_references : forall ops : list hop, Inv (hvs (hrun ops)).
Proof. exact hrun_inv. Qed.
Print Assumptions xml_handle_counts_exact_with_held_references.

Theorem xml_hold_is_touch : forall s i, Inv s -> VName i (cur_name s i) = touch_op (vabs s) i.
Proof. exact cur_name_spec. Qed.
Print Assumptions xml_hold_is_touch.

(* the witness in full: both slots read b afterwards; with the write before the copy, and a fresh reference
   for the next write, the copy keeps b while the source becomes c *)
Example ex_held_reference :
  vabs (hvs (hrun [HOp (VElem 0 [97]); HHold 0; HOp (VCopy 1 0); HWriteHeld [98]])) = [Some (N 0 0 [98] [] []); Some (N 0 0 [98] [] [])] /\
  vabs (hvs (hrun [HOp (VElem 0 [97]); HHold 0; HWriteHeld [98]; HOp (VCopy 1 0); HHold 0; HWriteHeld [99]]))
    = [Some (N 0 0 [99] [] []); Some (N 0 0 [98] [] [])].
Proof. split; vm_compute; reflexivity. Qed.
Example ex_ok_hist : ok_hist [HOp (VElem 0 [97]); HHold 0; HWriteHeld [98]].
Proof.
  apply (ok_snoc [HOp (VElem 0 [97]); HHold 0]); [|vm_compute; reflexivity].
  apply (ok_snoc [HOp (VElem 0 [97])]); [|exact I].
  apply (ok_snoc []); [apply ok_nil|exact I].
Qed.

(* ---- the file based entry points ----------------------------------------------------------- *)

Theorem xml_load_is_parse_of_file_content :
  forall o tgt d, snd (load_with o tgt (FData d)) = LParsed (parse d).
Proof. exact load_is_parse. Qed.
Print Assumptions xml_load_is_parse_of_file_content.

Theorem xml_static_load_is_parse_of_file_content :
  forall g tgt d, static_load g tgt (FData d) = LParsed (parse d).
Proof. exact static_load_is_parse. Qed.
Print Assumptions xml_static_load_is_parse_of_file_content.

Theorem xml_load_total_and_safe : forall o tgt d,
  match snd (load_with o tgt (FData d)) with
  | LParsed (Ok _) => True
  | LParsed (Syn l c _) => inside_text d l c
  | LParsed Oob => False
  | LParsed Fuel => False
  | LNotRead => False
  end.
Proof. exact load_total_safe. Qed.
Print Assumptions xml_load_total_and_safe.

Theorem xml_load_missing_file_fails_and_keeps_target : forall o tgt e,
  snd (load_with o tgt (FMissing e)) = LNotRead /\
  load_target tgt (snd (load_with o tgt (FMissing e))) = Some tgt /\
  (forall l c m, o_err o = Some (l, c, m) -> o_err (fst (load_with o tgt (FMissing e))) = Some (l, c, Some (EOs e))) /\
  static_load 0 tgt (FMissing e) = LNotRead.
Proof. exact load_missing. Qed.
Print Assumptions xml_load_missing_file_fails_and_keeps_target.

Theorem xml_save_writes_toString :
  forall e, save_file e true = (true, Some (toString e)) /\ save_file e false = (false, None).
Proof. exact save_writes_toString. Qed.
Print Assumptions xml_save_writes_toString.

Theorem xml_save_then_load_roundtrip : forall e o tgt, wf_tree e = true ->
  exists content e', save_file e true = (true, Some content) /\
                     snd (load_with o tgt (FData content)) = LParsed (Ok e') /\ erase e' = erase e /\
                     load_target tgt (snd (load_with o tgt (FData content))) = Some e'.
Proof. exact save_load_roundtrip. Qed.
Print Assumptions xml_save_then_load_roundtrip.

(* a file holding <a k="v">t</a>; a missing file on a Parser whose last parse failed at line 2 column 3 *)
Example ex_load :
  snd (load_with (new_parser 7) (N 0 0 [122] [] []) (FData [60;97;32;107;61;34;118;34;62;116;60;47;97;62]))
    = LParsed (Ok (N 1 1 [97] [([107], [118])] [T [116]])) /\
  load_with (mkParser 0 (Some (2, 3, Some EEof))) (N 0 0 [122] [] []) (FMissing [78; 111])
    = (mkParser 0 (Some (2, 3, Some (EOs [78; 111]))), LNotRead).
Proof. split; vm_compute; reflexivity. Qed.
