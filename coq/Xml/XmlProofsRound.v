(* C16, layers 2 and 3 of the round trip: tokens and attributes of the serialiser's output are read
   back exactly (layer 2), and parse (toString e) returns e up to the recorded positions for every
   tree of the class of the property (layer 3). *)
From Coq Require Import ZArith List Bool Lia ZifyBool.
From Xml Require Import Gen_Xml XmlSpec XmlModel XmlProofsCodec XmlProofsScan.
Import ListNotations.
Local Open Scope Z_scope.
Local Open Scope bool_scope.

Ltac neqb H := rewrite (proj2 (Z.eqb_neq _ _) H).

(* ---- bytes -------------------------------------------------------------------------------- *)

Lemma name_char_facts : forall c, name_char c = true ->
  c <> 0 /\ name_stop c = false /\ c <> 60 /\ c <> 62 /\ c <> 61 /\ c <> 34 /\ c <> 39 /\ c <> 47 /\ c <> 33 /\ c <> 63
  /\ is_space c = false /\ c <> 13 /\ c <> 10 /\ c <> 32.
Proof. intros c H. unfold name_char in H. unfold name_stop, is_space. lia. Qed.

Lemma bytes_eqb_eq : forall a b, bytes_eqb a b = true <-> a = b.
Proof.
  unfold bytes_eqb. induction a as [|x a IH]; intros [|y b]; cbn [length combine forallb fst snd Nat.eqb]; split; intros H;
    try reflexivity; try discriminate.
  - apply andb_prop in H. destruct H as [H1 H2]. apply andb_prop in H2. destruct H2 as [H2 H3].
    apply Z.eqb_eq in H2. subst y. f_equal. apply IH. rewrite H1, H3. reflexivity.
  - inversion H; subst. rewrite Z.eqb_refl. cbn [andb].
    assert (X : b = b) by reflexivity. apply IH in X. apply andb_prop in X. destruct X as [X1 X2].
    rewrite X1, X2. reflexivity.
Qed.

(* ---- the white-space scanner on the serialiser's output ----------------------------------- *)

Lemma skipSp_stay : forall c r o l s, c <> 13 -> c <> 10 -> c <> 60 -> is_space c = false ->
  skipSp false (c :: r) o l s = Ok (mkPos (c :: r) o l s).
Proof. intros c r o l s H13 H10 H60 Hs. cbn [skipSp]. neqb H13. neqb H10. neqb H60. rewrite Hs. reflexivity. Qed.

Lemma skipSp_lt_stay : forall c1 r o l s, c1 <> 33 ->
  skipSp false (60 :: c1 :: r) o l s = Ok (mkPos (60 :: c1 :: r) o l s).
Proof. intros c1 r o l s H. cbn [skipSp]. cbn [Z.eqb Pos.eqb]. neqb H. reflexivity. Qed.

Lemma skipSp_space : forall c r o l s, is_space c = true -> c <> 13 -> c <> 10 ->
  skipSp false (c :: r) o l s = skipSp false r (o + 1) l s.
Proof.
  intros c r o l s Hs H13 H10. cbn [skipSp]. neqb H13. neqb H10.
  assert (H60 : c <> 60) by (intro; subst; discriminate). neqb H60. rewrite Hs. reflexivity.
Qed.

(* ---- scan on a prefix without stop bytes -------------------------------------------------- *)

Lemma scan_app : forall stop a c b, Forall (fun x => x <> 0 /\ stop x = false) a -> (c = 0 \/ stop c = true) ->
  scan stop (a ++ c :: b) = Some (a, c :: b).
Proof.
  intros stop. induction a as [|x a IH]; intros c b F C.
  - cbn [app scan]. destruct C as [C|C]; [subst; reflexivity|rewrite C, orb_true_r; reflexivity].
  - inversion F as [|? ? [H0 Hs] F']; subst. cbn [app scan]. neqb H0. rewrite Hs. cbn [orb].
    rewrite (IH c b F' C). reflexivity.
Qed.

Lemma wf_name_forall : forall nm, forallb name_char nm = true -> Forall (fun x => x <> 0 /\ name_stop x = false) nm.
Proof.
  intros nm H. rewrite forallb_forall in H. apply Forall_forall. intros x Hx.
  destruct (name_char_facts x (H x Hx)) as (A & B & _). split; assumption.
Qed.

Lemma wf_name_split : forall nm, wf_name nm = true -> exists x nm', nm = x :: nm' /\ name_char x = true /\ forallb name_char nm = true.
Proof.
  intros [|x nm'] H; unfold wf_name in H; [discriminate|]. cbn [negb andb] in H.
  exists x, nm'. split; [reflexivity|]. split; [|exact H]. cbn [forallb] in H. apply andb_prop in H. tauto.
Qed.

(* ---- tokens ------------------------------------------------------------------------------- *)

(* a name followed by one of the bytes that end it *)
Lemma readToken_name : forall p nm c z, rest p = nm ++ c :: z -> wf_name nm = true -> name_stop c = true ->
  exists tk q, readToken p = Ok (tk, q) /\ tty tk = TName /\ tval tk = nm /\ rest q = c :: z.
Proof.
  intros [r o l s] nm c z R W C. cbn [rest] in R. subst r.
  destruct (wf_name_split nm W) as (x & nm' & -> & Hx & Hall).
  destruct (name_char_facts x Hx) as (X0 & Xs & X60 & X62 & X61 & X34 & X39 & X47 & X33 & X63 & Xsp & X13 & X10 & X32).
  unfold readToken, skipSpace. cbn [rest off line ls app]. rewrite skipSp_stay by assumption. cbn [bind rest].
  neqb X60. neqb X62. neqb X0. neqb X61. neqb X34. neqb X39. cbn [orb]. neqb X47.
  unfold readName. cbn [rest].
  change (x :: nm' ++ c :: z) with ((x :: nm') ++ c :: z).
  rewrite (scan_app name_stop (x :: nm') c z (wf_name_forall _ Hall) (or_intror C)).
  eexists. eexists. split; [reflexivity|]. cbn [tty tval adv rest]. auto.
Qed.

Lemma readToken_eq : forall p z, rest p = 61 :: z ->
  exists tk q, readToken p = Ok (tk, q) /\ tty tk = TEq /\ rest q = z.
Proof.
  intros [r o l s] z R. cbn [rest] in R. subst r.
  unfold readToken, skipSpace. cbn [rest off line ls]. rewrite skipSp_stay by (try discriminate; reflexivity).
  cbn [bind rest]. cbn [Z.eqb Pos.eqb].
  eexists. eexists. split; [reflexivity|]. cbn [tty adv rest]. auto.
Qed.

Lemma readToken_gt : forall p z, rest p = 62 :: z ->
  exists tk q, readToken p = Ok (tk, q) /\ tty tk = TTagEnd /\ rest q = z.
Proof.
  intros [r o l s] z R. cbn [rest] in R. subst r.
  unfold readToken, skipSpace. cbn [rest off line ls]. rewrite skipSp_stay by (try discriminate; reflexivity).
  cbn [bind rest]. cbn [Z.eqb Pos.eqb].
  eexists. eexists. split; [reflexivity|]. cbn [tty adv rest]. auto.
Qed.

Lemma readToken_empty_end : forall p z, rest p = 47 :: 62 :: z ->
  exists tk q, readToken p = Ok (tk, q) /\ tty tk = TEmptyEnd /\ rest q = z.
Proof.
  intros [r o l s] z R. cbn [rest] in R. subst r.
  unfold readToken, skipSpace. cbn [rest off line ls]. rewrite skipSp_stay by (try discriminate; reflexivity).
  cbn [bind rest]. cbn [Z.eqb Pos.eqb orb].
  eexists. eexists. split; [reflexivity|]. cbn [tty adv rest]. auto.
Qed.

Lemma readToken_end_begin : forall p z, rest p = 60 :: 47 :: z ->
  exists tk q, readToken p = Ok (tk, q) /\ tty tk = TEndBegin /\ rest q = z.
Proof.
  intros [r o l s] z R. cbn [rest] in R. subst r.
  unfold readToken, skipSpace. cbn [rest off line ls]. rewrite skipSp_lt_stay by discriminate.
  cbn [bind rest]. cbn [Z.eqb Pos.eqb].
  eexists. eexists. split; [reflexivity|]. cbn [tty adv rest]. auto.
Qed.

Lemma readToken_start : forall p c1 z, rest p = 60 :: c1 :: z -> name_char c1 = true ->
  exists tk q, readToken p = Ok (tk, q) /\ tty tk = TStart /\ rest q = c1 :: z.
Proof.
  intros [r o l s] c1 z R Hc. cbn [rest] in R. subst r.
  destruct (name_char_facts c1 Hc) as (X0 & Xs & X60 & X62 & X61 & X34 & X39 & X47 & X33 & X63 & Xsp & X13 & X10 & X32).
  unfold readToken, skipSpace. cbn [rest off line ls]. rewrite skipSp_lt_stay by assumption.
  cbn [bind rest]. cbn [Z.eqb Pos.eqb]. neqb X47.
  eexists. eexists. split; [reflexivity|]. cbn [tty adv rest]. auto.
Qed.

Lemma safe_out_forall : forall ev, forallb safe_out ev = true ->
  Forall (fun x => x <> 0 /\ ((x =? 34) || (x =? 13) || (x =? 10)) = false) ev.
Proof.
  intros ev H. rewrite forallb_forall in H. apply Forall_forall. intros x Hx. specialize (H x Hx).
  unfold safe_out in H. lia.
Qed.

(* layer 2: an attribute value between double quotes is read back exactly *)
Lemma readToken_string : forall p v z, rest p = 34 :: escape v ++ 34 :: z -> wf_value v = true ->
  exists tk q, readToken p = Ok (tk, q) /\ tty tk = TStr /\ tval tk = v /\ rest q = z.
Proof.
  intros [r o l s] v z R W. cbn [rest] in R. subst r.
  unfold readToken, skipSpace. cbn [rest off line ls]. rewrite skipSp_stay by (try discriminate; reflexivity).
  cbn [bind rest]. cbn [Z.eqb Pos.eqb orb].
  rewrite (scan_app (fun x => (x =? 34) || (x =? 13) || (x =? 10)) (escape v) 34 z
             (safe_out_forall _ (escape_safe v W)) (or_intror eq_refl)).
  cbn [Z.eqb Pos.eqb negb]. rewrite (unescape_escape v W).
  eexists. eexists. split; [reflexivity|]. cbn [tty tval adv rest]. auto.
Qed.

(* the space the serialiser puts in front of an attribute name is skipped *)
Lemma readToken_sp_name : forall p nm c z, rest p = 32 :: nm ++ c :: z -> wf_name nm = true -> name_stop c = true ->
  exists tk q, readToken p = Ok (tk, q) /\ tty tk = TName /\ tval tk = nm /\ rest q = c :: z.
Proof.
  intros [r o l s] nm c z R W C. cbn [rest] in R. subst r.
  destruct (wf_name_split nm W) as (x & nm' & -> & Hx & Hall).
  destruct (name_char_facts x Hx) as (X0 & Xs & X60 & X62 & X61 & X34 & X39 & X47 & X33 & X63 & Xsp & X13 & X10 & X32).
  unfold readToken, skipSpace. cbn [rest off line ls app].
  rewrite skipSp_space by (try discriminate; reflexivity).
  rewrite skipSp_stay by assumption. cbn [bind rest].
  neqb X60. neqb X62. neqb X0. neqb X61. neqb X34. neqb X39. cbn [orb]. neqb X47.
  unfold readName. cbn [rest].
  change (x :: nm' ++ c :: z) with ((x :: nm') ++ c :: z).
  rewrite (scan_app name_stop (x :: nm') c z (wf_name_forall _ Hall) (or_intror C)).
  eexists. eexists. split; [reflexivity|]. cbn [tty tval adv rest]. auto.
Qed.

(* ---- attributes --------------------------------------------------------------------------- *)

Lemma attr_str_app : forall k v w, attr_str (k, v) ++ w = 32 :: k ++ 61 :: 34 :: escape v ++ 34 :: w.
Proof. intros k v w. unfold attr_str. cbn [fst snd]. cbn [app]. rewrite <- !app_assoc. cbn [app]. rewrite <- !app_assoc. reflexivity. Qed.

Definition wf_attr (kv : bytes * bytes) : bool := wf_name (fst kv) && wf_value (snd kv).

Lemma attrs_rt : forall at_ acc f p ae z z',
  forallb wf_attr at_ = true ->
  rest p = flat_map attr_str at_ ++ z ->
  (ae = AEmpty /\ z = 47 :: 62 :: z' \/ ae = AOpen /\ z = 62 :: z') ->
  (length (rest p) <= f)%nat ->
  exists q, parseAttrs f acc p = Ok (ae, fold_left (fun a kv => attr_append (fst kv) (snd kv) a) at_ acc, q) /\ rest q = z'.
Proof.
  induction at_ as [|[k v] at_ IH]; intros acc f p ae z z' W R Hz Hf.
  - cbn [flat_map app] in R. cbn [fold_left].
    destruct f as [|f]; [destruct Hz as [[_ ->]|[_ ->]]; rewrite R in Hf; cbn [length] in Hf; lia|].
    cbn [parseAttrs]. destruct Hz as [[-> ->]|[-> ->]].
    + destruct (readToken_empty_end p z' R) as (tk & q & E & Ty & Rq). rewrite E. cbn [bind]. rewrite Ty.
      exists q. split; [reflexivity|exact Rq].
    + destruct (readToken_gt p z' R) as (tk & q & E & Ty & Rq). rewrite E. cbn [bind]. rewrite Ty.
      exists q. split; [reflexivity|exact Rq].
  - cbn [flat_map] in R. rewrite <- app_assoc in R. rewrite attr_str_app in R.
    cbn [forallb] in W. apply andb_prop in W. destruct W as [Wkv W]. unfold wf_attr in Wkv. cbn [fst snd] in Wkv.
    apply andb_prop in Wkv. destruct Wkv as [Wk Wv].
    destruct f as [|f]; [rewrite R in Hf; cbn [length] in Hf; lia|].
    cbn [parseAttrs].
    destruct (readToken_sp_name p k 61 _ R Wk eq_refl) as (tk & q & E & Ty & Tv & Rq). rewrite E. cbn [bind]. rewrite Ty.
    destruct (readToken_eq q _ Rq) as (tk1 & q1 & E1 & Ty1 & Rq1). rewrite E1. cbn [bind]. rewrite Ty1.
    destruct (readToken_string q1 v _ Rq1 Wv) as (tk2 & q2 & E2 & Ty2 & Tv2 & Rq2). rewrite E2. cbn [bind]. rewrite Ty2.
    rewrite Tv, Tv2. cbn [fold_left fst snd].
    apply (IH _ f q2 ae z z' W Rq2 Hz).
    rewrite R in Hf. rewrite Rq2. cbn [length] in Hf. rewrite !app_length in Hf. cbn [length] in Hf.
    rewrite !app_length in Hf. cbn [length] in Hf. lia.
Qed.

Lemma attr_put_fresh : forall k v l, (forall kv, In kv l -> k <> fst kv) -> attr_put k v l = l ++ [(k, v)].
Proof.
  induction l as [|[k' v'] l IH]; intros H; [reflexivity|].
  cbn [attr_put]. destruct (bytes_eqb k k') eqn:E.
  - apply bytes_eqb_eq in E. exfalso. apply (H (k', v')); [left; reflexivity|exact E].
  - cbn [app]. f_equal. apply IH. intros kv Hin. apply H. right. exact Hin.
Qed.

Lemma distinct_keys_cons : forall k v r, distinct_keys ((k, v) :: r) = true ->
  (forall kv, In kv r -> k <> fst kv) /\ distinct_keys r = true.
Proof.
  intros k v r H. cbn [distinct_keys] in H. apply andb_prop in H. destruct H as [H1 H2]. split; [|exact H2].
  intros kv Hin Heq. apply negb_true_iff in H1.
  assert (X : existsb (fun kv0 => bytes_eqb k (fst kv0)) r = true).
  { apply existsb_exists. exists kv. split; [exact Hin|]. apply bytes_eqb_eq. exact Heq. }
  congruence.
Qed.

Lemma attrs_fold : forall at_ acc, distinct_keys at_ = true ->
  (forall kv kv', In kv at_ -> In kv' acc -> fst kv <> fst kv') ->
  fold_left (fun a kv => attr_append (fst kv) (snd kv) a) at_ acc = acc ++ at_.
Proof.
  induction at_ as [|[k v] at_ IH]; intros acc D H; [cbn [fold_left]; rewrite app_nil_r; reflexivity|].
  destruct (distinct_keys_cons _ _ _ D) as [Hk D'].
  cbn [fold_left fst snd]. unfold attr_append. rewrite attr_put_fresh.
  - rewrite IH; [rewrite <- app_assoc; reflexivity|exact D'|].
    intros kv kv' Hin Hin'. apply in_app_or in Hin'. destruct Hin' as [Hin'|[<-|[]]].
    + apply H; [right; exact Hin|exact Hin'].
    + cbn [fst]. intro Heq. apply (Hk kv Hin). symmetry. exact Heq.
  - intros kv Hin. apply (H (k, v) kv); [left; reflexivity|exact Hin].
Qed.

(* ---- text --------------------------------------------------------------------------------- *)

Definition not_tag (x : res (token * pos)) : Prop :=
  match x with
  | Ok (tk, _) => tty tk <> TStart /\ tty tk <> TEndBegin
  | Syn _ _ _ => True
  | Oob => False
  | Fuel => False
  end.

Definition plain_space (x : Z) : Prop := is_space x = true /\ x <> 13 /\ x <> 10.

Lemma skipSp_spaces : forall sp c r o l s, Forall plain_space sp ->
  is_space c = false -> c <> 60 ->
  exists o', skipSp false (sp ++ c :: r) o l s = Ok (mkPos (c :: r) o' l s).
Proof.
  induction sp as [|x sp IH]; intros c r o l s F Hc H60.
  - exists o. cbn [app]. apply skipSp_stay; try assumption; intro; subst; discriminate.
  - inversion F as [|? ? [Hs [H13 H10]] F']; subst. cbn [app]. rewrite skipSp_space by assumption.
    apply IH; assumption.
Qed.

Lemma readName_class : forall q, In 0 (rest q) -> not_tag (readName q).
Proof.
  intros q H0. unfold readName.
  destruct (scan_ok name_stop (rest q) H0) as (a & c & b & S & _). rewrite S.
  destruct a; cbn [not_tag tty]; [unfold synAt; exact I|split; discriminate].
Qed.

(* the look-ahead token in front of a text node: whatever it is, it is neither "<" nor "</" *)
Lemma lookahead_text : forall p sp c r, rest p = sp ++ c :: r -> Forall plain_space sp ->
  is_space c = false -> c <> 60 -> c <> 0 -> In 0 r -> not_tag (readToken p).
Proof.
  intros [r0 o l s] sp c r R F Hc H60 H0 I0. cbn [rest] in R. subst r0.
  unfold readToken, skipSpace. cbn [rest off line ls].
  destruct (skipSp_spaces sp c r o l s F Hc H60) as (o' & E). rewrite E. cbn [bind rest].
  neqb H60.
  destruct (c =? 62) eqn:E62; [cbn [not_tag tty]; split; discriminate|].
  neqb H0.
  destruct (c =? 61) eqn:E61; [cbn [not_tag tty]; split; discriminate|].
  assert (I0' : In 0 (c :: r)) by (right; exact I0).
  destruct ((c =? 34) || (c =? 39)) eqn:Eq.
  { destruct (scan_ok (fun x => (x =? c) || (x =? 13) || (x =? 10)) r I0) as (a & e & b & S & _). rewrite S.
    destruct (e =? 0); [unfold synAt; exact I|].
    destruct (negb (e =? c)); [unfold synAt; exact I|]. cbn [not_tag tty]. split; discriminate. }
  destruct (c =? 47) eqn:E47.
  { destruct r as [|c1 r2]; [exfalso; exact I0|].
    destruct (c1 =? 62); [cbn [not_tag tty]; split; discriminate|].
    apply readName_class. exact I0'. }
  apply readName_class. exact I0'.
Qed.

Lemma parseContent_text : forall f acc p, not_tag (readToken p) ->
  parseContent (S f) acc p = (do x <- parseText p; parseContent f (T (fst x) :: acc) (snd x)).
Proof.
  intros f acc p H. cbn [parseContent].
  destruct (readToken p) as [[tk q]| | |]; cbn [not_tag] in H; try contradiction; [|reflexivity].
  destruct H as [H1 H2]. destruct (tty tk); try reflexivity; congruence.
Qed.

Lemma scanText_plain : forall et z o l s, forallb safe_out et = true ->
  exists o', scanText (et ++ 60 :: z) o l s = Ok (et, mkPos (60 :: z) o' l s).
Proof.
  induction et as [|x et IH]; intros z o l s H.
  - exists o. reflexivity.
  - cbn [forallb] in H. apply andb_prop in H. destruct H as [Hx H].
    assert (X0 : x <> 0) by (unfold safe_out in Hx; lia).
    assert (X60 : x <> 60) by (unfold safe_out in Hx; lia).
    assert (X13 : x <> 13) by (unfold safe_out in Hx; lia).
    assert (X10 : x <> 10) by (unfold safe_out in Hx; lia).
    cbn [app scanText]. neqb X0. neqb X60. neqb X13. neqb X10.
    destruct (IH z (o + 1) l s H) as (o' & E). rewrite E. exists o'. reflexivity.
Qed.

Lemma escape_cons : forall c v, escape (c :: v) = esc_byte c ++ escape v.
Proof. reflexivity. Qed.

(* the escaped form of a non-blank text: plain spaces, then a byte that is not white space *)
Lemma escape_nonblank : forall t, wf_value t = true -> blank t = false ->
  exists sp c r, escape t = sp ++ c :: r /\ Forall plain_space sp /\ is_space c = false /\ c <> 60 /\ c <> 0.
Proof.
  induction t as [|x t IH]; intros W B; [discriminate|].
  unfold wf_value in W. cbn [forallb] in W. apply andb_prop in W. destruct W as [Wx W].
  unfold blank in B. cbn [forallb] in B.
  pose proof (esc_space_all x Wx) as Es. unfold esc_space_ok in Es.
  destruct (codec_ok_all x Wx) as [_ Eo]. unfold esc_out_ok in Eo.
  rewrite escape_cons.
  destruct (is_space x) eqn:Sx.
  - cbn [andb] in B. destruct ((x =? 10) || (x =? 13)) eqn:Enl.
    + (* a line break: escaped, starts with '&' *)
      destruct (esc_byte x) as [|y yr] eqn:Eb.
      * exfalso. destruct (codec_ok_all x Wx) as [Ck _]. unfold codec_ok in Ck. rewrite Eb in Ck. discriminate.
      * destruct (codec_ok_all x Wx) as [Ck _]. unfold codec_ok in Ck. rewrite Eb in Ck.
        destruct yr as [|y2 yr'].
        -- exfalso. apply andb_prop in Ck. destruct Ck as [C1 _]. apply Z.eqb_eq in C1. subst y.
           cbn [forallb] in Eo. lia.
        -- apply andb_prop in Ck. destruct Ck as [C1 _]. apply Z.eqb_eq in C1. subst y.
           exists [], 38, ((y2 :: yr') ++ escape t). cbn [app]. repeat split; try constructor; discriminate.
    + apply list_eqb_eq in Es. rewrite Es.
      destruct (IH W B) as (sp & c & r & E & F & Hc & H60 & H0).
      exists (x :: sp), c, r. cbn [app]. rewrite E. repeat split; try assumption.
      constructor; [|exact F]. apply orb_false_elim in Enl. destruct Enl as [E10 E13].
      unfold plain_space. apply Z.eqb_neq in E10. apply Z.eqb_neq in E13. tauto.
  - destruct (esc_byte x) as [|y yr] eqn:Eb; [discriminate|].
    exists [], y, (yr ++ escape t). cbn [app]. cbn [forallb] in Eo. repeat split; try constructor.
    + apply negb_true_iff. exact Es.
    + lia.
    + lia.
Qed.

Lemma escape_text_len : forall t, wf_text t = true -> (0 < length (escape t))%nat.
Proof.
  intros t W. unfold wf_text in W. apply andb_prop in W. destruct W as [Wv Wb]. apply negb_true_iff in Wb.
  destruct (escape_nonblank t Wv Wb) as (sp & c & r & E & _). rewrite E. rewrite app_length. cbn [length]. lia.
Qed.

(* layer 2 for text: a non-blank text in front of '<' is read back exactly *)
Lemma text_rt : forall f acc p t z, wf_text t = true -> rest p = escape t ++ 60 :: z -> In 0 z ->
  exists q, parseContent (S f) acc p = parseContent f (T t :: acc) q /\ rest q = 60 :: z.
Proof.
  intros f acc [r0 o l s] t z W R I0. cbn [rest] in R. subst r0.
  unfold wf_text in W. apply andb_prop in W. destruct W as [Wv Wb]. apply negb_true_iff in Wb.
  destruct (escape_nonblank t Wv Wb) as (sp & c & r & E & F & Hc & H60 & H0).
  rewrite parseContent_text.
  2:{ apply (lookahead_text _ sp c (r ++ 60 :: z)); try assumption.
      - cbn [rest]. rewrite E. rewrite <- app_assoc. reflexivity.
      - apply in_or_app. right. right. exact I0. }
  unfold parseText. cbn [rest off line ls].
  assert (Hhd : exists y yr, escape t ++ 60 :: z = y :: yr /\ y <> 60).
  { rewrite E. destruct sp as [|x sp'].
    - exists c, (r ++ 60 :: z). split; [reflexivity|exact H60].
    - exists x, ((sp' ++ c :: r) ++ 60 :: z). split; [reflexivity|].
      inversion F as [|? ? [Hs _] _]; subst. intro; subst; discriminate. }
  destruct Hhd as (y & yr & Ey & Hy). rewrite Ey. neqb Hy. cbn [bind rest off line ls]. rewrite <- Ey.
  destruct (scanText_plain (escape t) z o l s (escape_safe t Wv)) as (o' & Es). rewrite Es. cbn [bind fst snd].
  rewrite (unescape_escape t Wv).
  eexists. split; [reflexivity|reflexivity].
Qed.

(* ---- layer 3: elements and content -------------------------------------------------------- *)

Section NodeInd.
  Variable P : node -> Prop.
  Hypothesis HNul : P Nul.
  Hypothesis HT : forall t, P (T t).
  Hypothesis HN : forall l c nm at_ ct, Forall P ct -> P (N l c nm at_ ct).
  Fixpoint node_ind' (n : node) : P n :=
    match n with
    | Nul => HNul
    | T t => HT t
    | N l c nm at_ ct =>
      HN l c nm at_ ct ((fix go (ct : list node) : Forall P ct :=
                           match ct with
                           | [] => Forall_nil P
                           | x :: r => Forall_cons x (node_ind' x) (go r)
                           end) ct)
    end.
End NodeInd.

(* the serialised element without its leading '<' *)
Definition body_str (nm : bytes) (at_ : list (bytes * bytes)) (ct : list node) : list Z :=
  nm ++ flat_map attr_str at_ ++
  match ct with
  | [] => [47; 62]
  | _ => [62] ++ flat_map toStr ct ++ [60; 47] ++ nm ++ [62]
  end.

Lemma toStr_N : forall l c nm at_ ct, toStr (N l c nm at_ ct) = 60 :: body_str nm at_ ct.
Proof. intros. unfold body_str. cbn [toStr app]. reflexivity. Qed.

Definition elem_rt_prop (e : node) : Prop :=
  match e with
  | N _ _ nm at_ ct =>
    wf_node e = true ->
    forall tail f tp p,
      rest p = body_str nm at_ ct ++ tail -> In 0 tail -> (2 * length (rest p) + 1 <= f)%nat ->
      exists e' q, parseElement f tp p = Ok (e', q) /\ rest q = tail /\ erase e' = erase e
  | _ => True
  end.

Lemma wf_node_N : forall l c nm at_ ct, wf_node (N l c nm at_ ct) = true ->
  wf_name nm = true /\ forallb wf_attr at_ = true /\ distinct_keys at_ = true /\
  no_adjacent_text ct = true /\ forallb wf_node ct = true.
Proof.
  intros l c nm at_ ct H. cbn [wf_node] in H.
  apply andb_prop in H. destruct H as [H H5]. apply andb_prop in H. destruct H as [H H4].
  apply andb_prop in H. destruct H as [H H3]. apply andb_prop in H. destruct H as [H1 H2].
  repeat split; assumption.
Qed.

(* what follows a text node starts with '<' *)
Lemma after_text_lt : forall t ct z, no_adjacent_text (T t :: ct) = true -> forallb wf_node ct = true ->
  exists w, flat_map toStr ct ++ 60 :: 47 :: z = 60 :: w.
Proof.
  intros t [|x ct] z NA W.
  - exists (47 :: z). reflexivity.
  - cbn [no_adjacent_text is_text andb] in NA. apply andb_prop in NA. destruct NA as [NA _].
    cbn [forallb] in W. apply andb_prop in W. destruct W as [Wx _].
    destruct x as [|t'|l c nm at_ ct']; [discriminate|discriminate|].
    cbn [flat_map]. rewrite toStr_N. eexists. cbn [app]. reflexivity.
Qed.

Lemma no_adjacent_tail : forall x ct, no_adjacent_text (x :: ct) = true -> no_adjacent_text ct = true.
Proof.
  intros x [|y ct] H; [reflexivity|]. cbn [no_adjacent_text] in H. apply andb_prop in H. tauto.
Qed.

Lemma content_rt : forall ct, Forall elem_rt_prop ct -> forallb wf_node ct = true -> no_adjacent_text ct = true ->
  forall acc f p z, rest p = flat_map toStr ct ++ 60 :: 47 :: z -> In 0 z -> (2 * length (rest p) + 2 <= f)%nat ->
  exists ct' q, parseContent f acc p = Ok (rev acc ++ ct', q) /\ rest q = z /\ map erase ct' = map erase ct.
Proof.
  induction ct as [|x ct IH]; intros FA W NA acc f p z R I0 Hf.
  - cbn [flat_map app] in R. destruct f as [|f]; [lia|]. cbn [parseContent].
    destruct (readToken_end_begin p z R) as (tk & q & E & Ty & Rq). rewrite E, Ty.
    exists [], q. rewrite app_nil_r. auto.
  - inversion FA as [|? ? Px FA']; subst.
    cbn [forallb] in W. apply andb_prop in W. destruct W as [Wx W].
    pose proof (no_adjacent_tail _ _ NA) as NA'.
    cbn [flat_map] in R. rewrite <- app_assoc in R.
    destruct f as [|f]; [lia|].
    destruct x as [|t|l c nm at_ ct0]; [discriminate| |].
    + (* text *)
      cbn [toStr wf_node] in R, Wx.
      destruct (after_text_lt t ct z NA W) as (w & Ew). rewrite Ew in R.
      assert (I0w : In 0 w).
      { assert (X : In 0 (60 :: w)). { rewrite <- Ew. apply in_or_app. right. right. right. exact I0. }
        destruct X as [X|X]; [discriminate|exact X]. }
      destruct (text_rt f acc p t w Wx R I0w) as (q & E & Rq). rewrite E.
      rewrite <- Ew in Rq.
      destruct (IH FA' W NA' (T t :: acc) f q z Rq I0) as (ct' & q' & E' & Rq' & Er).
      { rewrite Rq. rewrite R in Hf. rewrite Ew. rewrite app_length in Hf. pose proof (escape_text_len t Wx). lia. }
      exists (T t :: ct'), q'. rewrite E'. cbn [rev]. rewrite <- app_assoc. cbn [app map erase].
      split; [reflexivity|]. split; [exact Rq'|]. f_equal. exact Er.
    + (* child element *)
      rewrite toStr_N in R. cbn [app] in R.
      destruct (wf_node_N _ _ _ _ _ Wx) as (Wnm & _).
      destruct (wf_name_split nm Wnm) as (x0 & nm' & Enm & Hx0 & _).
      assert (Rb : exists w, body_str nm at_ ct0 ++ flat_map toStr ct ++ 60 :: 47 :: z = x0 :: w).
      { unfold body_str. rewrite Enm. cbn [app]. eexists. reflexivity. }
      destruct Rb as (w & Ew).
      cbn [parseContent].
      assert (R' : rest p = 60 :: x0 :: w) by (rewrite R, Ew; reflexivity).
      destruct (readToken_start p x0 w R' Hx0) as (tk & q & E & Ty & Rq). rewrite E, Ty.
      rewrite <- Ew in Rq.
      cbn [elem_rt_prop] in Px.
      destruct (Px Wx (flat_map toStr ct ++ 60 :: 47 :: z) f (tpos tk) q Rq) as (e' & q1 & E1 & Rq1 & Er1).
      { apply in_or_app. right. right. right. exact I0. }
      { rewrite Rq. rewrite R in Hf. cbn [length] in Hf. lia. }
      rewrite E1. cbn [bind fst snd].
      destruct (IH FA' W NA' (e' :: acc) f q1 z Rq1 I0) as (ct' & q' & E' & Rq' & Er).
      { rewrite Rq1. rewrite R in Hf. cbn [length] in Hf. rewrite app_length in Hf. lia. }
      exists (e' :: ct'), q'. rewrite E'. cbn [rev]. rewrite <- app_assoc. cbn [app map].
      split; [reflexivity|]. split; [exact Rq'|]. f_equal; assumption.
Qed.

Lemma closeTag_rt : forall nm p z, wf_name nm = true -> rest p = nm ++ 62 :: z ->
  exists q, closeTag nm p = Ok q /\ rest q = z.
Proof.
  intros nm p z W R. unfold closeTag.
  destruct (readToken_name p nm 62 z R W eq_refl) as (tk & q & E & Ty & Tv & Rq). rewrite E. cbn [bind]. rewrite Ty, Tv.
  rewrite list_eqb_refl. cbn [negb].
  destruct (readToken_gt q z Rq) as (tk1 & q1 & E1 & Ty1 & Rq1). rewrite E1. cbn [bind]. rewrite Ty1.
  exists q1. auto.
Qed.

Lemma elem_rt : forall e, elem_rt_prop e.
Proof.
  apply node_ind'; [exact I|intros; exact I|].
  intros l c nm at_ ct FA. cbn [elem_rt_prop]. intros Wf tail f tp p R I0 Hf.
  destruct (wf_node_N _ _ _ _ _ Wf) as (Wnm & Wat & Dk & NA & Wct).
  destruct f as [|f]; [lia|]. cbn [parseElement].
  (* the name, and the byte that ends it *)
  assert (Hstop : exists c0 w, flat_map attr_str at_ ++
            (match ct with [] => [47; 62] | _ => [62] ++ flat_map toStr ct ++ [60; 47] ++ nm ++ [62] end) ++ tail = c0 :: w
            /\ name_stop c0 = true).
  { destruct at_ as [|[k v] at'].
    - destruct ct; cbn [flat_map app]; eexists; eexists; split; reflexivity.
    - cbn [flat_map]. rewrite <- app_assoc. rewrite attr_str_app. eexists. eexists. split; reflexivity. }
  destruct Hstop as (c0 & w & Ew & Hc0).
  assert (R1 : rest p = nm ++ c0 :: w).
  { rewrite R. unfold body_str. rewrite <- !app_assoc. rewrite <- Ew. reflexivity. }
  destruct (readToken_name p nm c0 w R1 Wnm Hc0) as (tk & q & E & Ty & Tv & Rq). rewrite E. cbn [bind]. rewrite Ty.
  rewrite <- Ew in Rq.
  assert (Hat : fold_left (fun a kv => attr_append (fst kv) (snd kv) a) at_ [] = at_).
  { rewrite attrs_fold; [reflexivity|exact Dk|]. intros kv kv' _ []. }
  assert (Lq : (length (rest q) < length (rest p))%nat).
  { rewrite R1, Rq, Ew. rewrite app_length. destruct (wf_name_split nm Wnm) as (x0 & nm' & -> & _). cbn [length]. lia. }
  destruct ct as [|x ct].
  - destruct (attrs_rt at_ [] (length (rest q)) q AEmpty ([47; 62] ++ tail) tail Wat Rq) as (q1 & E1 & Rq1).
    { left. split; reflexivity. }
    { lia. }
    rewrite E1. cbn [bind]. rewrite Hat. rewrite Tv.
    eexists. exists q1. split; [reflexivity|]. split; [exact Rq1|reflexivity].
  - remember (x :: ct) as ct1.
    set (z1 := flat_map toStr ct1 ++ 60 :: 47 :: (nm ++ 62 :: tail)).
    assert (Rq' : rest q = flat_map attr_str at_ ++ 62 :: z1).
    { rewrite Rq. unfold z1. repeat (rewrite <- app_assoc || (progress cbn [app])). reflexivity. }
    destruct (attrs_rt at_ [] (length (rest q)) q AOpen (62 :: z1) z1 Wat Rq') as (q1 & E1 & Rq1).
    { right. split; reflexivity. }
    { lia. }
    rewrite E1. cbn [bind]. rewrite Hat. rewrite Tv.
    assert (I0' : In 0 (nm ++ 62 :: tail)) by (apply in_or_app; right; right; exact I0).
    destruct (content_rt ct1 FA Wct NA [] f q1 (nm ++ 62 :: tail) Rq1 I0') as (ct' & q2 & E2 & Rq2 & Er).
    { rewrite Rq1. rewrite Rq' in Lq. rewrite app_length in Lq. cbn [length] in Lq. lia. }
    rewrite E2. cbn [bind rev app].
    destruct (closeTag_rt nm q2 tail Wnm Rq2) as (q3 & E3 & Rq3). rewrite E3. cbn [bind].
    eexists. exists q3. split; [reflexivity|]. split; [exact Rq3|]. cbn [erase]. f_equal. exact Er.
Qed.

(* ---- the header the serialiser writes, and the whole round trip --------------------------- *)

Definition hdr_body : list Z := firstn (length gen_header - 5) (skipn 2 gen_header).

(* the regenerated header literal is "<?" body "?>" LF with no '?', CR, LF or NUL in the body *)
Lemma header_split : gen_header = [60; 63] ++ hdr_body ++ [63; 62; 10].
Proof. vm_compute. reflexivity. Qed.

Lemma hdr_body_ok : forallb (fun x => negb (x =? 0) && negb (pi_stop x)) hdr_body = true.
Proof. vm_compute. reflexivity. Qed.

Lemma hdr_body_forall : Forall (fun x => x <> 0 /\ pi_stop x = false) hdr_body.
Proof.
  pose proof hdr_body_ok as H. rewrite forallb_forall in H. apply Forall_forall. intros x Hx.
  specialize (H x Hx). apply andb_prop in H. destruct H as [H1 H2].
  apply negb_true_iff in H1. apply negb_true_iff in H2. apply Z.eqb_neq in H1. tauto.
Qed.

Lemma skipSp_lf : forall r o l s, skipSp false (10 :: r) o l s = skipSp false r (o + 1) (l + 1) (o + 1).
Proof. reflexivity. Qed.

Lemma piBody_close : forall f start p a z, (0 < f)%nat -> rest p = a ++ 63 :: 62 :: z ->
  Forall (fun x => x <> 0 /\ pi_stop x = false) a -> piBody f start p = Ok (adv p (zlen a + 2) z).
Proof.
  intros [|f] start p a z Hf R F; [lia|]. cbn [piBody]. rewrite R.
  rewrite (scan_app pi_stop a 63 (62 :: z) F (or_intror eq_refl)). cbn [Z.eqb Pos.eqb]. reflexivity.
Qed.

Lemma text_shape : forall l c nm at_ ct,
  (gen_header ++ toStr (N l c nm at_ ct)) ++ [0] =
  60 :: 63 :: hdr_body ++ 63 :: 62 :: 10 :: 60 :: (body_str nm at_ ct ++ [0]).
Proof.
  intros. rewrite header_split, toStr_N. repeat (rewrite <- app_assoc || (progress cbn [app])). reflexivity.
Qed.

Lemma roundtrip_ok : forall e, wf_tree e = true -> exists e', parse (toString e) = Ok e' /\ erase e' = erase e.
Proof.
  intros [|t|l c nm at_ ct] W; try discriminate. cbn [wf_tree] in W.
  destruct (wf_node_N _ _ _ _ _ W) as (Wnm & _).
  destruct (wf_name_split nm Wnm) as (x0 & nm' & Enm & Hx0 & _).
  destruct (name_char_facts x0 Hx0) as (X0 & Xs & X60 & X62 & X61 & X34 & X39 & X47 & X33 & X63 & Xsp & X13 & X10 & X32).
  assert (Eb : exists w, body_str nm at_ ct ++ [0] = x0 :: w).
  { unfold body_str. rewrite Enm. cbn [app]. eexists. reflexivity. }
  destruct Eb as (w & Ew).
  unfold parse. set (F := fuel_for (toString (N l c nm at_ ct))).
  assert (HF : (2 * length (body_str nm at_ ct ++ [0%Z]) + 1 <= F)%nat).
  { unfold F, fuel_for, toString. rewrite toStr_N. rewrite !app_length. cbn [length]. lia. }
  unfold toString. rewrite text_shape. rewrite Ew in *.
  unfold parseFrom.
  (* skipSpace at "<?" *)
  unfold skipSpace at 1. cbn [rest off line ls]. rewrite skipSp_lt_stay by discriminate. cbn [bind].
  (* the processing instruction *)
  cbn [length]. cbn [prolog rest]. cbn [Z.eqb Pos.eqb].
  rewrite (piBody_close _ _ _ hdr_body (10 :: 60 :: x0 :: w)); [|rewrite app_length; cbn [length]; lia|reflexivity|exact hdr_body_forall].
  cbn [bind]. unfold skipSpace at 1. cbn [adv rest off line ls].
  rewrite skipSp_lf. rewrite skipSp_lt_stay by assumption. cbn [bind].
  (* no second processing instruction *)
  rewrite app_length. cbn [length]. rewrite Nat.add_succ_r. cbn [prolog rest]. cbn [Z.eqb Pos.eqb]. neqb X63. cbn [bind].
  (* the root element *)
  match goal with |- context [readToken ?p] =>
    destruct (readToken_start p x0 w eq_refl Hx0) as (tk & q & E & Ty & Rq) end.
  rewrite E. cbn [bind]. rewrite Ty.
  pose proof (elem_rt (N l c nm at_ ct)) as P. cbn [elem_rt_prop] in P.
  rewrite <- Ew in Rq.
  destruct (P W [0] F (tpos tk) q Rq) as (e' & q1 & E1 & _ & Er).
  { left. reflexivity. }
  { rewrite Rq, Ew. exact HF. }
  rewrite E1. cbn [bind fst]. exists e'. split; [reflexivity|exact Er].
Qed.
