(* C16: comments are accepted wherever white space is allowed, processing instructions before the
   root element.
   The parser reads every token through [readToken], which starts with [skipSpace]; white space is
   allowed exactly in front of tokens.  So the clause is carried by:
   - [skipSp_comment]: the white-space scanner steps over any comment ("<!--" body "-->", the body
     any NUL-free bytes that do not contain "-->" early) and continues behind it,
   - [skipSp_rest_indep] / [readToken_rest_indep]: what the scanner and the tokenizer return
     depends on the remaining text only (the cursor's offset/line/line start only label it),
   - [readToken_comment]: hence a comment in front of ANY token is skipped: same token kind, same
     value, same remaining text as without the comment,
   - [prolog_pi]: a processing instruction "<?" body "?>" in front of the root is skipped. *)
From Coq Require Import ZArith List Bool Lia ZifyBool.
From Xml Require Import Gen_Xml XmlSpec XmlModel XmlProofsScan XmlProofsRound.
Import ListNotations.
Local Open Scope Z_scope.
Local Open Scope bool_scope.

(* one unfolding of the scanner *)
Lemma skipSp_eq : forall com r o l s,
  skipSp com r o l s =
  match r with
  | [] => Oob
  | c :: r1 =>
    if c =? 13 then
      match r1 with
      | [] => Oob
      | c1 :: r2 => if c1 =? 10 then skipSp com r2 (o + 2) (l + 1) (o + 2)
                    else skipSp com r1 (o + 1) (l + 1) (o + 1)
      end
    else if c =? 10 then skipSp com r1 (o + 1) (l + 1) (o + 1)
    else if com then
      if c =? 0 then Ok (mkPos r o l s)
      else if c =? 45 then
        match r1 with
        | [] => Oob
        | c1 :: r2 =>
          if c1 =? 45 then
            match r2 with
            | [] => Oob
            | c2 :: r3 => if c2 =? 62 then skipSp false r3 (o + 3) l s else skipSp true r1 (o + 1) l s
            end
          else skipSp true r1 (o + 1) l s
        end
      else skipSp true r1 (o + 1) l s
    else if c =? 60 then
      match r1 with
      | [] => Oob
      | c1 :: r2 =>
        if c1 =? 33 then
          match r2 with
          | [] => Oob
          | c2 :: r3 =>
            if c2 =? 45 then
              match r3 with
              | [] => Oob
              | c3 :: r4 => if c3 =? 45 then skipSp true r4 (o + 4) l s else Ok (mkPos r o l s)
              end
            else Ok (mkPos r o l s)
          end
        else Ok (mkPos r o l s)
      end
    else if is_space c then skipSp false r1 (o + 1) l s
    else Ok (mkPos r o l s)
  end.
Proof. intros com [|c r1] o l s; reflexivity. Qed.

(* ---- the comment scanner ------------------------------------------------------------------ *)

Lemma has_close_cons : forall c r, has_close (c :: r) = false ->
  (match r with c1 :: c2 :: _ => (c =? 45) && (c1 =? 45) && (c2 =? 62) | _ => false end) = false /\ has_close r = false.
Proof. intros c r H. cbn [has_close] in H. apply orb_false_elim in H. exact H. Qed.

Lemma first2 : forall (b : list Z) r, exists x y z z', b ++ [45; 45] = x :: y :: z /\ b ++ 45 :: 45 :: 62 :: r = x :: y :: z'.
Proof.
  intros [|x [|y b]] r.
  - exists 45, 45, [], (62 :: r). split; reflexivity.
  - exists x, 45, [45], (45 :: 62 :: r). split; reflexivity.
  - exists x, y, (b ++ [45; 45]), (b ++ 45 :: 45 :: 62 :: r). split; reflexivity.
Qed.

Lemma com_scan : forall n b r o l s, (length b <= n)%nat ->
  forallb value_byte b = true -> has_close (b ++ [45; 45]) = false ->
  exists o' l' s', skipSp true (b ++ 45 :: 45 :: 62 :: r) o l s = skipSp false r o' l' s'.
Proof.
  induction n as [|n IH]; intros b r o l s Hn V HC.
  { destruct b; [|cbn [length] in Hn; lia]. cbn [app]. rewrite skipSp_eq. cbn [Z.eqb Pos.eqb].
    eexists. eexists. eexists. reflexivity. }
  destruct b as [|c b'].
  { cbn [app]. rewrite skipSp_eq. cbn [Z.eqb Pos.eqb]. eexists. eexists. eexists. reflexivity. }
  cbn [length] in Hn. cbn [forallb] in V. apply andb_prop in V. destruct V as [Vc V].
  cbn [app] in HC. destruct (has_close_cons _ _ HC) as [HT HC'].
  assert (Hc0 : c <> 0) by (unfold value_byte in Vc; lia).
  cbn [app]. rewrite skipSp_eq.
  destruct (c =? 13) eqn:E13.
  { destruct b' as [|c1 b''].
    - cbn [app]. cbn [Z.eqb Pos.eqb]. apply (IH [] r); [cbn [length]; lia|reflexivity|reflexivity].
    - cbn [app]. destruct (c1 =? 10) eqn:E10.
      + cbn [forallb] in V. apply andb_prop in V. destruct V as [_ V'].
        cbn [app] in HC'. destruct (has_close_cons _ _ HC') as [_ HC''].
        apply (IH b'' r); [cbn [length] in Hn; lia|exact V'|exact HC''].
      + apply (IH (c1 :: b'') r); [lia|exact V|exact HC']. }
  destruct (c =? 10) eqn:E10; [apply (IH b' r); [lia|exact V|exact HC']|].
  neqb Hc0.
  destruct (c =? 45) eqn:E45; [|apply (IH b' r); [lia|exact V|exact HC']].
  destruct (first2 b' r) as (x & y & z & z' & F1 & F2). rewrite F1 in HT. rewrite F2.
  cbn iota in HT. cbn [andb] in HT.
  destruct (x =? 45) eqn:Ex.
  - cbn [andb] in HT. rewrite HT. rewrite <- F2. apply (IH b' r); [lia|exact V|exact HC'].
  - rewrite <- F2. apply (IH b' r); [lia|exact V|exact HC'].
Qed.

(* the white-space scanner steps over a comment and continues behind it *)
Lemma skipSp_comment : forall b r o l s, comment_body b = true ->
  exists o' l' s', skipSp false (comment b ++ r) o l s = skipSp false r o' l' s'.
Proof.
  intros b r o l s H. unfold comment_body in H. apply andb_prop in H. destruct H as [V HC].
  apply negb_true_iff in HC.
  unfold comment. rewrite <- !app_assoc. cbn [app]. rewrite skipSp_eq. cbn [Z.eqb Pos.eqb].
  apply (com_scan (length b)); [lia|exact V|exact HC].
Qed.

(* ---- results depend on the remaining text only -------------------------------------------- *)

Definition pos_rel (x y : res pos) : Prop :=
  match x, y with
  | Ok q, Ok q' => rest q = rest q'
  | Oob, Oob => True
  | _, _ => False
  end.

Lemma skipSp_rest_indep : forall n com r o l s o' l' s', (length r <= n)%nat ->
  pos_rel (skipSp com r o l s) (skipSp com r o' l' s').
Proof.
  induction n as [|n IH]; intros com r o l s o' l' s' Hn.
  { destruct r; [exact I|cbn [length] in Hn; lia]. }
  destruct r as [|c r1]; [exact I|]. cbn [length] in Hn.
  rewrite (skipSp_eq com (c :: r1) o l s), (skipSp_eq com (c :: r1) o' l' s').
  destruct (c =? 13).
  { destruct r1 as [|c1 r2]; [exact I|]. cbn [length] in Hn. destruct (c1 =? 10); apply IH; cbn [length]; lia. }
  destruct (c =? 10); [apply IH; lia|].
  destruct com.
  - destruct (c =? 0); [reflexivity|].
    destruct (c =? 45); [|apply IH; lia].
    destruct r1 as [|c1 r2]; [exact I|]. cbn [length] in Hn.
    destruct (c1 =? 45); [|apply IH; cbn [length]; lia].
    destruct r2 as [|c2 r3]; [exact I|]. cbn [length] in Hn.
    destruct (c2 =? 62); apply IH; cbn [length]; lia.
  - destruct (c =? 60).
    + destruct r1 as [|c1 r2]; [exact I|]. cbn [length] in Hn.
      destruct (c1 =? 33); [|reflexivity].
      destruct r2 as [|c2 r3]; [exact I|]. cbn [length] in Hn.
      destruct (c2 =? 45); [|reflexivity].
      destruct r3 as [|c3 r4]; [exact I|]. cbn [length] in Hn.
      destruct (c3 =? 45); [|reflexivity]. apply IH; lia.
    + destruct (is_space c); [apply IH; lia|reflexivity].
Qed.

Definition tok_rel (x y : res (token * pos)) : Prop :=
  match x, y with
  | Ok (tk, q), Ok (tk', q') => tty tk = tty tk' /\ tval tk = tval tk' /\ rest q = rest q'
  | Syn _ _ m, Syn _ _ m' => m = m'
  | Oob, Oob => True
  | _, _ => False
  end.

Lemma readName_rest_indep : forall q q', rest q = rest q' -> tok_rel (readName q) (readName q').
Proof.
  intros q q' R. unfold readName. rewrite <- R.
  destruct (scan name_stop (rest q)) as [[nm r2]|]; [|exact I].
  destruct nm; [reflexivity|]. cbn [tok_rel tty tval adv rest]. auto.
Qed.

Lemma readToken_rest_indep : forall p p', rest p = rest p' -> tok_rel (readToken p) (readToken p').
Proof.
  intros p p' R. unfold readToken, skipSpace. rewrite <- R.
  pose proof (skipSp_rest_indep (length (rest p)) false (rest p) (off p) (line p) (ls p) (off p') (line p') (ls p') (le_n _)) as G.
  destruct (skipSp false (rest p) (off p) (line p) (ls p)) as [q|sl sc sm| |];
    destruct (skipSp false (rest p) (off p') (line p') (ls p')) as [q'|sl' sc' sm'| |]; cbn [pos_rel] in G; try contradiction; [|exact I].
  cbn [bind].
  assert (HN : tok_rel (readName q) (readName q')) by (apply readName_rest_indep; exact G).
  rewrite <- G.
  destruct (rest q) as [|c r1]; [exact I|].
  destruct (c =? 60).
  { destruct r1 as [|c1 r2]; [exact I|]. destruct (c1 =? 47); cbn [tok_rel tty tval adv rest]; auto. }
  destruct (c =? 62); [cbn [tok_rel tty tval adv rest]; auto|].
  destruct (c =? 0); [reflexivity|].
  destruct (c =? 61); [cbn [tok_rel tty tval adv rest]; auto|].
  destruct ((c =? 34) || (c =? 39)).
  { destruct (scan (fun x => (x =? c) || (x =? 13) || (x =? 10)) r1) as [[body r2]|]; [|exact I].
    destruct r2 as [|e r3]; [exact I|].
    destruct (e =? 0); [reflexivity|]. destruct (negb (e =? c)); [reflexivity|].
    cbn [tok_rel tty tval adv rest]. auto. }
  destruct (c =? 47); [|exact HN].
  destruct r1 as [|c1 r2]; [exact I|].
  destruct (c1 =? 62); [cbn [tok_rel tty tval adv rest]; auto|exact HN].
Qed.

(* a comment in front of any token is skipped: the tokenizer returns the same token *)
Lemma readToken_comment : forall b p p', comment_body b = true -> rest p = comment b ++ rest p' ->
  tok_rel (readToken p) (readToken p').
Proof.
  intros b p p' Hb R.
  destruct (skipSp_comment b (rest p') (off p) (line p) (ls p) Hb) as (o' & l' & s' & E).
  assert (E1 : readToken p = readToken (mkPos (rest p') o' l' s')).
  { unfold readToken, skipSpace. cbn [rest off line ls]. rewrite R, E. reflexivity. }
  rewrite E1. apply readToken_rest_indep. reflexivity.
Qed.

(* ---- processing instructions before the root ---------------------------------------------- *)

Definition pi_body (a : list Z) : bool := forallb (fun x => negb (x =? 0) && negb (pi_stop x)) a.

(* "<?" body "?>" in front of the root element (body without '?', CR, LF, NUL) is skipped: the
   prolog loop continues with the white-space scanner behind it *)
Lemma prolog_pi : forall f p a r, pi_body a = true -> rest p = [60; 63] ++ a ++ [63; 62] ++ r ->
  prolog (S f) p = (do q1 <- skipSpace (mkPos r (off p + 2 + (zlen a + 2)) (line p) (ls p)); prolog f q1).
Proof.
  intros f p a r Ha R. cbn [prolog]. rewrite R. cbn [app]. cbn [Z.eqb Pos.eqb].
  assert (F : Forall (fun x => x <> 0 /\ pi_stop x = false) a).
  { unfold pi_body in Ha. rewrite forallb_forall in Ha. apply Forall_forall. intros x Hx.
    specialize (Ha x Hx). apply andb_prop in Ha. destruct Ha as [H1 H2].
    apply negb_true_iff in H1. apply negb_true_iff in H2. apply Z.eqb_neq in H1. tauto. }
  rewrite (piBody_close _ p (adv p 2 (a ++ 63 :: 62 :: r)) a r); [reflexivity| |reflexivity|exact F].
  rewrite app_length. cbn [length]. lia.
Qed.

(* ---- any mix of white space and comments in front of a token ------------------------------- *)

Inductive gap : list Z -> Prop :=
| gap_nil : gap []
| gap_space : forall c g, is_space c = true -> gap g -> gap (c :: g)
| gap_comment : forall b g, comment_body b = true -> gap g -> gap (comment b ++ g).

Lemma pos_rel_trans : forall x y z, pos_rel x y -> pos_rel y z -> pos_rel x z.
Proof.
  intros [q|l1 c1 m1| |] [q'|l2 c2 m2| |] [q''|l3 c3 m3| |]; cbn [pos_rel]; try tauto; congruence.
Qed.

Lemma pos_rel_refl_skip : forall com r o l s o' l' s', pos_rel (skipSp com r o l s) (skipSp com r o' l' s').
Proof. intros. apply (skipSp_rest_indep (length r)). apply le_n. Qed.

Lemma skipSp_ws : forall c r o l s o' l' s', is_space c = true ->
  pos_rel (skipSp false (c :: r) o l s) (skipSp false r o' l' s').
Proof.
  intros c r o l s o' l' s' Hs. rewrite skipSp_eq.
  destruct (c =? 13) eqn:E13.
  { destruct r as [|c1 r2]; [exact I|]. destruct (c1 =? 10) eqn:E10.
    - apply Z.eqb_eq in E10. subst c1. rewrite (skipSp_eq false (10 :: r2)). cbn [Z.eqb Pos.eqb].
      apply pos_rel_refl_skip.
    - apply pos_rel_refl_skip. }
  destruct (c =? 10); [apply pos_rel_refl_skip|].
  destruct (c =? 60) eqn:E60; [apply Z.eqb_eq in E60; subst c; discriminate|].
  rewrite Hs. apply pos_rel_refl_skip.
Qed.

Lemma skipSp_gap : forall g, gap g -> forall r o l s o' l' s',
  pos_rel (skipSp false (g ++ r) o l s) (skipSp false r o' l' s').
Proof.
  induction 1 as [|c g Hs Hg IH|b g Hb Hg IH]; intros r o l s o' l' s'.
  - apply pos_rel_refl_skip.
  - cbn [app]. eapply pos_rel_trans; [apply (skipSp_ws c (g ++ r) o l s 0 0 0 Hs)|apply IH].
  - rewrite <- app_assoc. destruct (skipSp_comment b (g ++ r) o l s Hb) as (o1 & l1 & s1 & E). rewrite E. apply IH.
Qed.

(* white space and comments, in any mix, in front of any token: the tokenizer returns the same token *)
Lemma readToken_gap : forall g p p', gap g -> rest p = g ++ rest p' -> tok_rel (readToken p) (readToken p').
Proof.
  intros g p p' Hg R.
  pose proof (skipSp_gap g Hg (rest p') (off p) (line p) (ls p) (off p') (line p') (ls p')) as G.
  unfold readToken, skipSpace. rewrite R.
  destruct (skipSp false (g ++ rest p') (off p) (line p) (ls p)) as [q|sl sc sm| |];
    destruct (skipSp false (rest p') (off p') (line p') (ls p')) as [q'|sl' sc' sm'| |]; cbn [pos_rel] in G; try contradiction; [|exact I].
  cbn [bind].
  (* both continue from cursors with the same remaining text *)
  pose proof (readToken_rest_indep (mkPos (rest q) 0 0 0) (mkPos (rest q') 0 0 0) G) as T.
  assert (HN : tok_rel (readName q) (readName q')) by (apply readName_rest_indep; exact G).
  rewrite <- G.
  destruct (rest q) as [|c r1]; [exact I|].
  destruct (c =? 60).
  { destruct r1 as [|c1 r2]; [exact I|]. destruct (c1 =? 47); cbn [tok_rel tty tval adv rest]; auto. }
  destruct (c =? 62); [cbn [tok_rel tty tval adv rest]; auto|].
  destruct (c =? 0); [reflexivity|].
  destruct (c =? 61); [cbn [tok_rel tty tval adv rest]; auto|].
  destruct ((c =? 34) || (c =? 39)).
  { destruct (scan (fun x => (x =? c) || (x =? 13) || (x =? 10)) r1) as [[body r2]|]; [|exact I].
    destruct r2 as [|e r3]; [exact I|].
    destruct (e =? 0); [reflexivity|]. destruct (negb (e =? c)); [reflexivity|].
    cbn [tok_rel tty tval adv rest]. auto. }
  destruct (c =? 47); [|exact HN].
  destruct r1 as [|c1 r2]; [exact I|].
  destruct (c1 =? 62); [cbn [tok_rel tty tval adv rest]; auto|exact HN].
Qed.
