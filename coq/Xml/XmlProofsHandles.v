(* C16, last clause: copies of element values are independent of their source.
   Model: heap blocks with reference counts (XmlModel.v, mstep).  Proved here, for every history:
   - [Inv]: every block's reference count equals the number of Variant objects that point to it
     (slots of the harness + content lists of live blocks), nothing points to a freed block, and a
     block's children are older than the block;
   - the heap model refines the value store of the spec (XmlSpec.vstep): vabs (mstep s o) = vstep (vabs s) o;
   - hence an operation changes the value of its target slot only.
   The in-place write path of the code (ref == 1) redirects every slot that points to the written
   block; that this is the target slot alone follows from the exactness of the counts. *)
From Coq Require Import ZArith List Bool Arith Lia.
From Common Require Import ListAux.
From Xml Require Import Gen_Xml XmlSpec XmlModel.
Import ListNotations.

(* ---- counting references ------------------------------------------------------------------ *)

Definition cnt (b : nat) (l : list nat) : nat := count_occ Nat.eq_dec l b.

Lemma cnt_app : forall b l1 l2, cnt b (l1 ++ l2) = cnt b l1 + cnt b l2.
Proof. intros. unfold cnt. apply count_occ_app. Qed.

Lemma cnt_nil : forall b, cnt b [] = 0.
Proof. reflexivity. Qed.

Lemma cnt_cons : forall b x l, cnt b (x :: l) = (if Nat.eq_dec x b then 1 else 0) + cnt b l.
Proof. intros. unfold cnt. cbn [count_occ]. destruct (Nat.eq_dec x b); reflexivity. Qed.

Lemma cnt_one : forall b x, cnt b [x] = if Nat.eq_dec x b then 1 else 0.
Proof. intros. rewrite cnt_cons, cnt_nil. destruct (Nat.eq_dec x b); reflexivity. Qed.

Lemma cnt_in : forall b l, In b l -> 1 <= cnt b l.
Proof. intros b l H. unfold cnt. apply (count_occ_In Nat.eq_dec) in H. lia. Qed.

Lemma cnt_pos_in : forall b l, 1 <= cnt b l -> In b l.
Proof. intros b l H. unfold cnt in H. apply (count_occ_In Nat.eq_dec). lia. Qed.

Definition href (h : handle) : list nat := match h with Some b => [b] | None => [] end.
Definition hrefs (hs : list handle) : list nat := flat_map href hs.
Definition sref (x : option handle) : list nat := match x with Some h => href h | None => [] end.
Definition srefs (SL : list (option handle)) : list nat := flat_map sref SL.
Definition bref (k : block) : list nat := match rc k with O => [] | _ => hrefs (children (pl k)) end.
Definition lrefs (H : heap) : list nat := flat_map bref H.

Lemma hrefs_app : forall a b, hrefs (a ++ b) = hrefs a ++ hrefs b.
Proof. intros. unfold hrefs. apply flat_map_app. Qed.

Lemma lrefs_app : forall a b, lrefs (a ++ b) = lrefs a ++ lrefs b.
Proof. intros. unfold lrefs. apply flat_map_app. Qed.

Lemma hrefs_in : forall c hs, In c (hrefs hs) <-> In (Some c) hs.
Proof.
  intros c hs. unfold hrefs. rewrite in_flat_map. split.
  - intros (h & Hin & Hc). destruct h as [b|]; cbn [href] in Hc; [|contradiction].
    destruct Hc as [->|[]]. exact Hin.
  - intros Hin. exists (Some c). split; [exact Hin|left; reflexivity].
Qed.

(* ---- the invariant ------------------------------------------------------------------------ *)

Definition ordered (H : heap) : Prop :=
  forall b k, nth_error H b = Some k -> forall c, In c (hrefs (children (pl k))) -> c < b.

(* E = references held by the operation in progress (local Variant objects) *)
Definition GInv (H : heap) (SL : list (option handle)) (E : list nat) : Prop :=
  (forall b, rcof H b = cnt b (srefs SL) + cnt b (lrefs H) + cnt b E) /\ ordered H.

Definition Inv (s : vstate) : Prop := GInv (hp s) (slots s) [].

Lemma GInv_perm : forall H SL E E', (forall b, cnt b E = cnt b E') -> GInv H SL E -> GInv H SL E'.
Proof. intros H SL E E' P [G O]. split; [|exact O]. intros b. rewrite (G b), (P b). reflexivity. Qed.

Lemma rcof_range : forall H b, 1 <= rcof H b -> b < length H.
Proof.
  intros H b R. unfold rcof in R. destruct (nth_error H b) eqn:E; [|lia].
  apply nth_error_Some. congruence.
Qed.

Lemma rcof_some : forall H b, 1 <= rcof H b -> exists k, nth_error H b = Some k /\ rc k = rcof H b.
Proof.
  intros H b R. unfold rcof in *. destruct (nth_error H b) eqn:E; [|lia]. exists b0. auto.
Qed.

Lemma ginv_pending_live : forall H SL E b, GInv H SL E -> In b E -> 1 <= rcof H b.
Proof. intros H SL E b [G _] Hin. rewrite (G b). apply cnt_in in Hin. lia. Qed.

Lemma ginv_slot_live : forall H SL E b, GInv H SL E -> In b (srefs SL) -> 1 <= rcof H b.
Proof. intros H SL E b [G _] Hin. rewrite (G b). apply cnt_in in Hin. lia. Qed.

Lemma ginv_child_live : forall H SL E b, GInv H SL E -> In b (lrefs H) -> 1 <= rcof H b.
Proof. intros H SL E b [G _] Hin. rewrite (G b). apply cnt_in in Hin. lia. Qed.

(* ---- heap surgery ------------------------------------------------------------------------- *)

Lemma nth_error_split' : forall (H : heap) b k, nth_error H b = Some k ->
  exists H1 H2, H = H1 ++ k :: H2 /\ length H1 = b.
Proof. intros H b k E. destruct (nth_error_split H b E) as (H1 & H2 & A & B). exists H1, H2. auto. Qed.

Lemma set_rc_split : forall H b n k, nth_error H b = Some k ->
  exists H1 H2, H = H1 ++ k :: H2 /\ length H1 = b /\ set_rc b n H = H1 ++ mkBlock n (pl k) :: H2.
Proof.
  intros H b n k E. destruct (nth_error_split' H b k E) as (H1 & H2 & A & B).
  exists H1, H2. split; [exact A|]. split; [exact B|].
  unfold set_rc. rewrite E. subst H b. apply upd_app_at.
Qed.

Lemma set_rc_none : forall H b n, nth_error H b = None -> set_rc b n H = H.
Proof. intros H b n E. unfold set_rc. rewrite E. reflexivity. Qed.

Lemma rcof_mid : forall H1 (x : block) H2 b', rcof (H1 ++ x :: H2) b' =
  if Nat.eq_dec b' (length H1) then rc x else
  match nth_error (H1 ++ H2) (if b' <? length H1 then b' else pred b') with Some k => rc k | None => 0 end.
Proof.
  intros H1 x H2 b'. unfold rcof. destruct (Nat.eq_dec b' (length H1)) as [->|Ne].
  - rewrite nth_error_app2 by lia. rewrite Nat.sub_diag. reflexivity.
  - destruct (b' <? length H1) eqn:L.
    + apply Nat.ltb_lt in L. rewrite !nth_error_app1 by lia. reflexivity.
    + apply Nat.ltb_ge in L. rewrite !nth_error_app2 by lia.
      replace (b' - length H1) with (S (pred b' - length H1)) by lia. reflexivity.
Qed.

Lemma rcof_set_rc_same : forall H b n, b < length H -> rcof (set_rc b n H) b = n.
Proof.
  intros H b n L. destruct (nth_error H b) eqn:E; [|apply nth_error_None in E; lia].
  destruct (set_rc_split H b n _ E) as (H1 & H2 & A & B & C). rewrite C. rewrite rcof_mid.
  destruct (Nat.eq_dec b (length H1)); [reflexivity|lia].
Qed.

Lemma rcof_set_rc_other : forall H b n b', b' <> b -> rcof (set_rc b n H) b' = rcof H b'.
Proof.
  intros H b n b' Ne. destruct (nth_error H b) eqn:E; [|rewrite set_rc_none by exact E; reflexivity].
  destruct (set_rc_split H b n _ E) as (H1 & H2 & A & B & C). rewrite C. rewrite A. rewrite !rcof_mid.
  destruct (Nat.eq_dec b' (length H1)); [lia|reflexivity].
Qed.

Lemma pls_set_rc : forall H b n, map pl (set_rc b n H) = map pl H.
Proof.
  intros H b n. destruct (nth_error H b) eqn:E; [|rewrite set_rc_none by exact E; reflexivity].
  destruct (set_rc_split H b n _ E) as (H1 & H2 & A & B & C). rewrite C. rewrite A.
  rewrite !map_app. cbn [map pl]. reflexivity.
Qed.

Lemma length_set_rc : forall H b n, length (set_rc b n H) = length H.
Proof. intros. rewrite <- (map_length pl), pls_set_rc, map_length. reflexivity. Qed.

Lemma nth_error_pl : forall (H H' : heap) b k, map pl H' = map pl H -> nth_error H b = Some k ->
  exists k', nth_error H' b = Some k' /\ pl k' = pl k.
Proof.
  intros H H' b k P E.
  assert (X : nth_error (map pl H') b = Some (pl k)) by (rewrite P; apply map_nth_error; exact E).
  rewrite nth_error_map in X. destruct (nth_error H' b) as [k'|]; [|discriminate].
  exists k'. cbn [option_map] in X. split; [reflexivity|congruence].
Qed.

Lemma ordered_pl : forall H H', map pl H' = map pl H -> ordered H -> ordered H'.
Proof.
  intros H H' P O b k' E c Hc.
  destruct (nth_error_pl H' H b k' (eq_sym P) E) as (k & Ek & Pk). rewrite <- Pk in Hc.
  exact (O b k Ek c Hc).
Qed.

(* liveness unchanged: the references held by live blocks are the same *)
Lemma lrefs_set_rc_live : forall H b n k, nth_error H b = Some k -> 1 <= rc k -> 1 <= n ->
  lrefs (set_rc b n H) = lrefs H.
Proof.
  intros H b n k E R N.
  destruct (set_rc_split H b n _ E) as (H1 & H2 & A & B & C). rewrite C. rewrite A.
  rewrite !lrefs_app. f_equal. unfold lrefs. cbn [flat_map]. f_equal.
  unfold bref. cbn [rc pl]. destruct n; [lia|]. destruct (rc k); [lia|]. reflexivity.
Qed.

(* the block dies: its children are no longer held by a live block *)
Lemma lrefs_set_rc_dead : forall H b k c, nth_error H b = Some k -> 1 <= rc k ->
  cnt c (lrefs H) = cnt c (lrefs (set_rc b 0 H)) + cnt c (hrefs (children (pl k))).
Proof.
  intros H b k c E R.
  destruct (set_rc_split H b 0 _ E) as (H1 & H2 & A & B & C). rewrite C. rewrite A.
  rewrite !lrefs_app. unfold lrefs at 2 4. cbn [flat_map]. rewrite !cnt_app.
  unfold bref at 1 3. cbn [rc pl]. destruct (rc k); [lia|]. cbn [app]. rewrite cnt_nil. lia.
Qed.

(* ---- share -------------------------------------------------------------------------------- *)

Lemma share_inv : forall H SL E b, GInv H SL E -> 1 <= rcof H b -> GInv (share H (Some b)) SL (b :: E).
Proof.
  intros H SL E b [G O] R. destruct (rcof_some H b R) as (k & Ek & Rk).
  unfold share. split.
  - intros b'. rewrite cnt_cons. rewrite (lrefs_set_rc_live H b _ k Ek) by lia.
    destruct (Nat.eq_dec b b') as [<-|Ne].
    + rewrite rcof_set_rc_same by (apply rcof_range; exact R). rewrite (G b). lia.
    + rewrite rcof_set_rc_other by congruence. rewrite (G b'). lia.
  - apply (ordered_pl H); [apply pls_set_rc|exact O].
Qed.

Lemma pls_share : forall H h, map pl (share H h) = map pl H.
Proof. intros H [b|]; [apply pls_set_rc|reflexivity]. Qed.

Lemma pls_fold_share : forall hs H, map pl (fold_left share hs H) = map pl H.
Proof.
  induction hs as [|h hs IH]; intros H; [reflexivity|]. cbn [fold_left]. rewrite IH. apply pls_share.
Qed.

Lemma rcof_share_mono : forall H h b, rcof H b <= rcof (share H h) b.
Proof.
  intros H [c|] b; [|cbn [share]; lia]. cbn [share].
  destruct (Nat.eq_dec b c) as [->|Ne].
  - destruct (nth_error H c) eqn:E.
    + rewrite rcof_set_rc_same by (apply nth_error_Some; congruence). lia.
    + rewrite set_rc_none by exact E. lia.
  - rewrite rcof_set_rc_other by exact Ne. lia.
Qed.

Lemma share_fold_inv : forall hs H SL E, GInv H SL E -> (forall c, In c (hrefs hs) -> 1 <= rcof H c) ->
  GInv (fold_left share hs H) SL (hrefs hs ++ E).
Proof.
  induction hs as [|h hs IH]; intros H SL E G L; [exact G|].
  cbn [fold_left]. destruct h as [b|].
  - assert (Lb : 1 <= rcof H b) by (apply L; cbn [hrefs flat_map href app]; left; reflexivity).
    pose proof (share_inv H SL E b G Lb) as G1.
    assert (L1 : forall c, In c (hrefs hs) -> 1 <= rcof (share H (Some b)) c).
    { intros c Hc. pose proof (rcof_share_mono H (Some b) c). assert (1 <= rcof H c); [|lia].
      apply L. cbn [hrefs flat_map]. apply in_or_app. right. exact Hc. }
    pose proof (IH _ SL (b :: E) G1 L1) as G2.
    eapply GInv_perm; [|exact G2]. intros c. cbn [hrefs flat_map href]. rewrite !cnt_app, !cnt_cons, cnt_nil.
    fold (hrefs hs). lia.
  - cbn [share]. apply IH; [exact G|]. intros c Hc. apply L. exact Hc.
Qed.

(* ---- release ------------------------------------------------------------------------------ *)

Lemma pls_release : forall f H h, map pl (release f H h) = map pl H.
Proof.
  induction f as [|f IH]; intros H [b|]; cbn [release]; try reflexivity.
  destruct (nth_error H b) as [k|]; [|reflexivity].
  destruct (rc k) as [|[|n]]; [reflexivity| |apply pls_set_rc].
  assert (X : forall hs H0, map pl (fold_left (release f) hs H0) = map pl H0).
  { induction hs as [|h hs IHh]; intros H0; [reflexivity|]. cbn [fold_left]. rewrite IHh. apply IH. }
  rewrite X. apply pls_set_rc.
Qed.

Lemma release_inv : forall f H SL E b, b < f -> GInv H SL (b :: E) -> GInv (release f H (Some b)) SL E.
Proof.
  induction f as [|f IH]; intros H SL E b Lf G; [lia|].
  assert (R : 1 <= rcof H b) by (apply (ginv_pending_live H SL (b :: E)); [exact G|left; reflexivity]).
  destruct (rcof_some H b R) as (k & Ek & Rk).
  pose proof (rcof_range H b R) as Lb.
  cbn [release]. rewrite Ek. destruct G as [G O].
  destruct (rc k) as [|[|n]] eqn:Erc; [lia| |].
  - (* last reference: the block dies, its children are released *)
    assert (G1 : GInv (set_rc b 0 H) SL (hrefs (children (pl k)) ++ E)).
    { split; [|apply (ordered_pl H); [apply pls_set_rc|exact O]].
      intros b'. rewrite cnt_app.
      pose proof (lrefs_set_rc_dead H b k b' Ek ltac:(lia)) as D.
      pose proof (G b') as Gb. rewrite cnt_cons in Gb.
      destruct (Nat.eq_dec b b') as [<-|Ne].
      - rewrite rcof_set_rc_same by exact Lb. lia.
      - rewrite rcof_set_rc_other by congruence. lia. }
    assert (Hch : forall c, In c (hrefs (children (pl k))) -> c < f).
    { intros c Hc. pose proof (O b k Ek c Hc). lia. }
    clear Erc Rk G R. revert Hch G1. generalize (set_rc b 0 H). generalize (children (pl k)).
    induction l as [|h hs IHh]; intros H0 Hch G1; [exact G1|].
    cbn [fold_left]. destruct h as [c|].
    + apply IHh.
      * intros c' Hc'. apply Hch. cbn [hrefs flat_map]. apply in_or_app. right. exact Hc'.
      * apply IH; [apply Hch; left; reflexivity|exact G1].
    + cbn [release]. destruct f; apply IHh; try exact G1; intros c' Hc'; apply Hch; exact Hc'.
  - (* other references remain *)
    split; [|apply (ordered_pl H); [apply pls_set_rc|exact O]].
    intros b'. rewrite (lrefs_set_rc_live H b (S n) k Ek) by lia.
    pose proof (G b') as Gb. rewrite cnt_cons in Gb.
    destruct (Nat.eq_dec b b') as [<-|Ne].
    + rewrite rcof_set_rc_same by exact Lb. lia.
    + rewrite rcof_set_rc_other by congruence. lia.
Qed.

Lemma release_top_inv : forall H SL E h, GInv H SL (href h ++ E) -> GInv (release_top H h) SL E.
Proof.
  intros H SL E [b|] G; [|exact G]. cbn [href app] in G. unfold release_top.
  apply release_inv; [|exact G].
  assert (R : 1 <= rcof H b) by (apply (ginv_pending_live H SL (b :: E)); [exact G|left; reflexivity]).
  apply rcof_range in R. lia.
Qed.

(* ---- alloc -------------------------------------------------------------------------------- *)

Lemma rcof_snoc : forall H (x : block) b, rcof (H ++ [x]) b = if Nat.eq_dec b (length H) then rc x else rcof H b.
Proof.
  intros H x b. unfold rcof. destruct (Nat.eq_dec b (length H)) as [->|Ne].
  - rewrite nth_error_app2 by lia. rewrite Nat.sub_diag. reflexivity.
  - destruct (lt_dec b (length H)).
    + rewrite nth_error_app1 by lia. reflexivity.
    + assert (E1 : nth_error (H ++ [x]) b = None) by (apply nth_error_None; rewrite app_length; cbn [length]; lia).
      assert (E2 : nth_error H b = None) by (apply nth_error_None; lia).
      rewrite E1, E2. reflexivity.
Qed.

Lemma alloc_inv : forall H SL E p, GInv H SL (hrefs (children p) ++ E) ->
  GInv (H ++ [mkBlock 1 p]) SL (length H :: E).
Proof.
  intros H SL E p [G O].
  assert (G0 : cnt (length H) (srefs SL) + cnt (length H) (lrefs H) + cnt (length H) (hrefs (children p) ++ E) = 0).
  { rewrite <- (G (length H)). unfold rcof. assert (X : nth_error H (length H) = None) by (apply nth_error_None; lia).
    rewrite X. reflexivity. }
  split.
  - intros b. rewrite rcof_snoc. rewrite lrefs_app. unfold lrefs at 2. cbn [flat_map bref rc pl]. rewrite app_nil_r.
    rewrite cnt_app, cnt_cons. pose proof (G b) as Gb. rewrite cnt_app in Gb. rewrite cnt_app in G0.
    destruct (Nat.eq_dec b (length H)) as [->|Ne].
    + cbn [rc]. destruct (Nat.eq_dec (length H) (length H)); lia.
    + destruct (Nat.eq_dec (length H) b); [lia|]. lia.
  - intros b k E' c Hc. destruct (lt_dec b (length H)) as [L|L].
    + rewrite nth_error_app1 in E' by exact L. exact (O b k E' c Hc).
    + assert (b = length H).
      { assert (b < length (H ++ [mkBlock 1 p])) by (apply nth_error_Some; congruence).
        rewrite app_length in H0. cbn [length] in H0. lia. }
      subst b. rewrite nth_error_app2 in E' by lia. rewrite Nat.sub_diag in E'. cbn [nth_error] in E'.
      inversion E'; subst k. cbn [pl] in Hc.
      assert (R : 1 <= rcof H c).
      { rewrite (G c). apply cnt_in in Hc. rewrite cnt_app. lia. }
      apply rcof_range. exact R.
Qed.

(* ---- slots -------------------------------------------------------------------------------- *)

Lemma srefs_gset : forall SL i x b,
  cnt b (srefs (gset SL i x)) + cnt b (sref (gget SL i)) = cnt b (srefs SL) + cnt b (sref x).
Proof.
  induction SL as [|y SL IH]; intros i x b.
  - assert (X : forall i, cnt b (srefs (gset [] i x)) = cnt b (sref x) /\ gget (@nil (option handle)) i = None).
    { induction i0 as [|i0 IHi]; cbn [gset gget srefs flat_map]; [rewrite app_nil_r; auto|].
      destruct IHi as [A _]. split; [|reflexivity]. cbn [sref app]. exact A. }
    destruct (X i) as [A B]. rewrite A, B. cbn [sref srefs flat_map]. rewrite cnt_nil. lia.
  - destruct i as [|i]; cbn [gset gget srefs flat_map]; rewrite !cnt_app.
    + fold (srefs SL). lia.
    + fold (srefs SL) (srefs (gset SL i x)). pose proof (IH i x b). lia.
Qed.

Lemma slot_inv : forall H SL E i x, GInv H SL (sref x ++ E) -> GInv H (gset SL i x) (sref (gget SL i) ++ E).
Proof.
  intros H SL E i x [G O]. split; [|exact O]. intros b. pose proof (G b) as Gb. rewrite cnt_app in Gb |- *.
  pose proof (srefs_gset SL i x b). lia.
Qed.

Lemma gset_gset : forall A (SL : list (option A)) i x y, gset (gset SL i x) i y = gset SL i y.
Proof.
  intros A. induction SL as [|z SL IH]; intros i x y.
  - induction i as [|i IHi]; cbn [gset]; [reflexivity|]. f_equal. exact IHi.
  - destruct i; cbn [gset]; [reflexivity|]. f_equal. apply IH.
Qed.

Lemma gget_gset_same : forall A (SL : list (option A)) i x, gget (gset SL i x) i = x.
Proof.
  intros A. induction SL as [|z SL IH]; intros i x.
  - induction i as [|i IHi]; cbn [gset gget]; [reflexivity|exact IHi].
  - destruct i; cbn [gset gget]; [reflexivity|apply IH].
Qed.

Lemma gget_nil : forall A j, gget (@nil (option A)) j = None.
Proof. intros A [|j]; reflexivity. Qed.

Lemma gget_gset_nil_other : forall A i j (x : option A), i <> j -> gget (gset [] i x) j = None.
Proof.
  intros A. induction i as [|i IHi]; intros j x Ne; destruct j; cbn [gset gget]; try reflexivity; try lia.
  apply IHi. lia.
Qed.

Lemma gget_gset_other : forall A (SL : list (option A)) i j x, i <> j -> gget (gset SL i x) j = gget SL j.
Proof.
  intros A. induction SL as [|z SL IH]; intros i j x Ne.
  - rewrite gget_gset_nil_other by exact Ne. rewrite gget_nil. reflexivity.
  - destruct i, j; cbn [gset gget]; try reflexivity; try lia. apply IH. lia.
Qed.

(* take the old handle out of slot i (it becomes a reference held by the operation) *)
Lemma take_out : forall H SL i, GInv H SL [] -> GInv H (gset SL i None) (sref (gget SL i)).
Proof.
  intros H SL i G. pose proof (slot_inv H SL [] i None) as X. cbn [sref app] in X. rewrite app_nil_r in X. apply X. exact G.
Qed.

(* store a handle held by the operation into slot i, which was emptied before *)
Lemma put_in : forall H SL i x, GInv H (gset SL i None) (sref x) -> GInv H (gset SL i x) [].
Proof.
  intros H SL i x G. pose proof (slot_inv H (gset SL i None) [] i x) as X. rewrite app_nil_r in X. specialize (X G).
  rewrite gset_gset, gget_gset_same in X. exact X.
Qed.

Lemma gget_srefs : forall SL i b, gget SL i = Some (Some b) -> In b (srefs SL).
Proof.
  induction SL as [|y SL IH]; intros i b E; [destruct i; discriminate|].
  destruct i; cbn [gget] in E; cbn [srefs flat_map]; apply in_or_app.
  - left. subst y. left. reflexivity.
  - right. exact (IH i b E).
Qed.

(* ---- values ------------------------------------------------------------------------------- *)

Lemma vals_acc_snoc : forall P acc p, vals_acc acc (P ++ [p]) = vals_acc acc P ++ [val_of (vals_acc acc P) p].
Proof. induction P as [|q P IH]; intros acc p; cbn [app vals_acc]; [reflexivity|apply IH]. Qed.

Lemma vals_acc_length : forall P acc, length (vals_acc acc P) = length acc + length P.
Proof.
  induction P as [|q P IH]; intros acc; cbn [vals_acc length]; [lia|].
  rewrite IH, app_length. cbn [length]. lia.
Qed.

Lemma vals_acc_prefix : forall P acc, exists ext, vals_acc acc P = acc ++ ext.
Proof.
  induction P as [|q P IH]; intros acc; cbn [vals_acc]; [exists []; rewrite app_nil_r; reflexivity|].
  destruct (IH (acc ++ [val_of acc q])) as (ext & E). rewrite E. rewrite <- app_assoc. eexists. reflexivity.
Qed.

Lemma vals_snoc : forall H k, vals (H ++ [k]) = vals H ++ [val_of (vals H) (pl k)].
Proof. intros. unfold vals. rewrite map_app. cbn [map]. apply vals_acc_snoc. Qed.

Lemma vals_length : forall H, length (vals H) = length H.
Proof. intros. unfold vals. rewrite vals_acc_length, map_length. reflexivity. Qed.

Lemma vals_pl : forall H H', map pl H' = map pl H -> vals H' = vals H.
Proof. intros H H' P. unfold vals. rewrite P. reflexivity. Qed.

Definition hv (H : heap) (h : handle) : node := hval (vals H) h.

Lemma hval_ext : forall vs ext h, (forall b, h = Some b -> b < length vs) -> hval (vs ++ ext) h = hval vs h.
Proof.
  intros vs ext [b|] L; [|reflexivity]. cbn [hval]. apply app_nth1. apply L. reflexivity.
Qed.

Lemma val_of_ext : forall vs ext p, (forall c, In c (hrefs (children p)) -> c < length vs) ->
  val_of (vs ++ ext) p = val_of vs p.
Proof.
  intros vs ext [t|l c nm at_ hs] L; [reflexivity|]. cbn [val_of]. f_equal.
  apply map_ext_in. intros h Hin. apply hval_ext. intros b ->. apply L. cbn [children]. apply hrefs_in. exact Hin.
Qed.

Lemma vals_nth : forall H b k, ordered H -> nth_error H b = Some k -> nth b (vals H) Nul = val_of (vals H) (pl k).
Proof.
  intros H b k O E. destruct (nth_error_split' H b k E) as (H1 & H2 & A & B).
  assert (V : exists ext, vals H = (vals H1 ++ [val_of (vals H1) (pl k)]) ++ ext).
  { subst H. unfold vals. rewrite map_app. cbn [map].
    change (map pl H1 ++ pl k :: map pl H2) with (map pl H1 ++ [pl k] ++ map pl H2). rewrite app_assoc.
    assert (X : forall P Q acc, vals_acc acc (P ++ Q) = vals_acc (vals_acc acc P) Q).
    { induction P as [|q P IH]; intros Q acc; cbn [app vals_acc]; [reflexivity|apply IH]. }
    rewrite X. rewrite vals_acc_snoc. apply vals_acc_prefix. }
  destruct V as (ext & V).
  assert (L1 : length (vals H1) = b) by (rewrite vals_length; exact B).
  rewrite V at 1. rewrite app_nth1 by (rewrite app_length; cbn [length]; lia).
  rewrite app_nth2 by lia. rewrite L1, Nat.sub_diag. cbn [nth].
  rewrite V. rewrite <- app_assoc. symmetry. apply val_of_ext.
  intros c Hc. pose proof (O b k E c Hc). lia.
Qed.

(* the value of an in-range handle in terms of its block *)
Lemma hv_block : forall H b k, ordered H -> nth_error H b = Some k -> hv H (Some b) = val_of (vals H) (pl k).
Proof. intros. unfold hv. cbn [hval]. apply vals_nth; assumption. Qed.

Lemma hv_out : forall H b, nth_error H b = None -> hv H (Some b) = Nul.
Proof. intros H b E. unfold hv. cbn [hval]. apply nth_overflow. rewrite vals_length. apply nth_error_None. exact E. Qed.

(* ---- non-const toElement() ---------------------------------------------------------------- *)

Lemma in_lrefs : forall H b k c, nth_error H b = Some k -> 1 <= rc k -> In c (hrefs (children (pl k))) -> In c (lrefs H).
Proof.
  intros H b k c E R Hc. destruct (nth_error_split' H b k E) as (H1 & H2 & A & _). subst H.
  rewrite lrefs_app. apply in_or_app. right. unfold lrefs. cbn [flat_map]. apply in_or_app. left.
  unfold bref. destruct (rc k); [lia|exact Hc].
Qed.

Lemma release_top_text : forall H b k t, nth_error H b = Some k -> pl k = PText t -> rc k = 1 ->
  release_top H (Some b) = set_rc b 0 H.
Proof. intros H b k t E P R. unfold release_top. cbn [release]. rewrite E, R, P. reflexivity. Qed.

Lemma open_elem_ok : forall H SL E h H1 l c nm at_ hs ip,
  GInv H SL (href h ++ E) -> open_elem H h = (H1, (l, c, nm, at_, hs), ip) ->
  GInv H1 SL (hrefs hs ++ E) /\ map pl H1 = map pl H /\
  as_elem (hv H h) = N l c nm at_ (map (hv H) hs) /\
  (forall b, ip = Some b -> h = Some b /\ rcof H b <= 1).
Proof.
  intros H SL E h H1 l c nm at_ hs ip G Op.
  destruct h as [b|]; cbn [open_elem] in Op.
  2:{ inversion Op; subst. cbn [href hrefs flat_map app] in *.
      split; [exact G|split; [reflexivity|split; [reflexivity|intros b' X; discriminate]]]. }
  cbn [href app] in G.
  assert (R : 1 <= rcof H b) by (apply (ginv_pending_live H SL (b :: E)); [exact G|left; reflexivity]).
  destruct (rcof_some H b R) as (k & Ek & Rk). rewrite Ek in Op.
  pose proof (proj2 G) as O.
  destruct (pl k) as [t|l0 c0 nm0 at0 hs0] eqn:Pk.
  - inversion Op; subst. cbn [hrefs flat_map app].
    split; [apply release_top_inv; exact G|]. split; [apply pls_release|].
    split; [rewrite (hv_block H b k O Ek), Pk; reflexivity|intros b' X; discriminate].
  - destruct (1 <? rc k) eqn:L1; inversion Op; subst; clear Op.
    + (* shared: clone *)
      apply Nat.ltb_lt in L1.
      assert (Lc : forall c, In c (hrefs hs) -> 1 <= rcof H c).
      { intros c0 Hc. apply (ginv_child_live H SL (b :: E)); [exact G|].
        apply (in_lrefs H b k); [exact Ek|lia|rewrite Pk; exact Hc]. }
      pose proof (share_fold_inv hs H SL (b :: E) G Lc) as G1.
      set (H0 := fold_left share hs H) in *.
      assert (P0 : map pl H0 = map pl H) by apply pls_fold_share.
      destruct (nth_error_pl H H0 b k P0 Ek) as (k0 & Ek0 & Pk0).
      assert (Rk0 : rc k0 = rc k).
      { assert (X : forall hs0 H', ~ In b (hrefs hs0) -> rcof (fold_left share hs0 H') b = rcof H' b).
        { induction hs0 as [|h0 hs0 IH]; intros H' Nin; cbn [fold_left]; [reflexivity|].
          cbn [hrefs flat_map] in Nin. fold (hrefs hs0) in Nin.
          rewrite IH by (intro X0; apply Nin; apply in_or_app; right; exact X0).
          destruct h0 as [c0|]; [|reflexivity]. cbn [share]. apply rcof_set_rc_other.
          intro; subst c0. apply Nin. apply in_or_app. left. left. reflexivity. }
        assert (Nin : ~ In b (hrefs hs)).
        { intro Hin. pose proof (O b k Ek b) as Y. rewrite Pk in Y. cbn [children] in Y. specialize (Y Hin). lia. }
        pose proof (X hs H Nin) as Y. fold H0 in Y. unfold rcof in Y. rewrite Ek, Ek0 in Y. exact Y. }
      split; [|split; [rewrite pls_set_rc; exact P0|split; [rewrite (hv_block H b k O Ek), Pk; reflexivity|intros b' X; discriminate]]].
      destruct G1 as [G1 O1]. split; [|apply (ordered_pl H0); [apply pls_set_rc|exact O1]].
      intros b'. rewrite (lrefs_set_rc_live H0 b _ k0 Ek0) by lia.
      pose proof (G1 b') as Gb. rewrite !cnt_app in Gb |- *. rewrite cnt_cons in Gb.
      destruct (Nat.eq_dec b b') as [<-|Ne].
      * rewrite rcof_set_rc_same by (apply nth_error_Some; congruence).
        unfold rcof in Gb. rewrite Ek0 in Gb. lia.
      * rewrite rcof_set_rc_other by congruence. lia.
    + (* exclusive: in place *)
      apply Nat.ltb_ge in L1.
      split; [|split; [apply pls_set_rc|split; [rewrite (hv_block H b k O Ek), Pk; reflexivity|]]].
      * destruct G as [G O']. split; [|apply (ordered_pl H); [apply pls_set_rc|exact O']].
        intros b'. rewrite cnt_app.
        pose proof (lrefs_set_rc_dead H b k b' Ek ltac:(lia)) as D. rewrite Pk in D. cbn [children] in D.
        pose proof (G b') as Gb. rewrite cnt_cons in Gb.
        destruct (Nat.eq_dec b b') as [<-|Ne].
        -- rewrite rcof_set_rc_same by (apply rcof_range; exact R). lia.
        -- rewrite rcof_set_rc_other by congruence. lia.
      * intros b' Eb. inversion Eb; subst. split; [reflexivity|lia].
Qed.

(* ---- redirect ----------------------------------------------------------------------------- *)

Lemma redirect_none : forall b h2 SL, cnt b (srefs SL) = 0 -> redirect b h2 SL = SL.
Proof.
  induction SL as [|y SL IH]; intros C; [reflexivity|].
  cbn [srefs flat_map] in C. rewrite cnt_app in C. fold (srefs SL) in C.
  cbn [redirect map]. fold (redirect b h2 SL). rewrite IH by lia. f_equal.
  destruct y as [[b'|]|]; try reflexivity.
  destruct (Nat.eqb_spec b' b) as [->|Ne]; [|reflexivity].
  cbn [sref href] in C. rewrite cnt_one in C. destruct (Nat.eq_dec b b); [lia|contradiction].
Qed.

Lemma gset_redirect : forall b h2 SL i x, cnt b (srefs (gset SL i None)) = 0 ->
  gset (redirect b h2 SL) i x = gset SL i x.
Proof.
  induction SL as [|y SL IH]; intros i x C; [reflexivity|].
  destruct i as [|i]; cbn [gset redirect map]; fold (redirect b h2 SL).
  - cbn [gset srefs flat_map sref app] in C. fold (srefs SL) in C. rewrite redirect_none by exact C. reflexivity.
  - cbn [gset srefs flat_map] in C. rewrite cnt_app in C. fold (srefs (gset SL i None)) in C.
    rewrite IH by lia. f_equal.
    destruct y as [[b'|]|]; try reflexivity.
    destruct (Nat.eqb_spec b' b) as [->|Ne]; [|reflexivity].
    cbn [sref href] in C. rewrite cnt_one in C. destruct (Nat.eq_dec b b); [lia|contradiction].
Qed.

(* an in-place write of a block with an exact count of 1 is seen by the written slot only *)
Lemma place_eq : forall H SL E i b h2, GInv H SL E -> gget SL i = Some (Some b) -> rcof H b <= 1 ->
  place i h2 (Some b) SL = gset SL i (Some h2).
Proof.
  intros H SL E i b h2 [G _] Eg R. unfold place. apply gset_redirect.
  pose proof (srefs_gset SL i None b) as X. rewrite Eg in X. cbn [sref href] in X. rewrite cnt_one, cnt_nil in X.
  destruct (Nat.eq_dec b b); [|contradiction]. pose proof (G b). lia.
Qed.

(* ---- the abstraction and slot updates ----------------------------------------------------- *)

Lemma sget_vabs : forall H SL j, sget (vabs (mkV H SL)) j = option_map (hv H) (gget SL j).
Proof.
  intros H SL. unfold vabs. cbn [hp slots]. induction SL as [|y SL IH]; intros j.
  - destruct j; reflexivity.
  - destruct j; cbn [map sget gget]; [reflexivity|apply IH].
Qed.

Lemma sset_nil_map : forall (f : handle -> node) i x,
  map (option_map f) (gset [] i x) = sset [] i (option_map f x).
Proof. intros f. induction i as [|i IH]; intros x; cbn [gset sset map option_map]; [reflexivity|]. f_equal. apply IH. Qed.

Lemma map_hval_ext : forall H ext SL, (forall b, In b (srefs SL) -> b < length H) ->
  map (option_map (hval (vals H ++ ext))) SL = map (option_map (hval (vals H))) SL.
Proof.
  intros H ext. induction SL as [|y SL IH]; intros R; [reflexivity|]. cbn [map]. f_equal.
  - destruct y as [h|]; [|reflexivity]. cbn [option_map]. f_equal. apply hval_ext.
    intros b ->. rewrite vals_length. apply R. cbn [srefs flat_map sref href]. left. reflexivity.
  - apply IH. intros b Hb. apply R. cbn [srefs flat_map]. apply in_or_app. right. exact Hb.
Qed.

Lemma vabs_gset : forall H H' SL i x ext, vals H' = vals H ++ ext ->
  (forall b, In b (srefs SL) -> b < length H) ->
  vabs (mkV H' (gset SL i x)) = sset (vabs (mkV H SL)) i (option_map (hv H') x).
Proof.
  intros H H' SL i x ext V. unfold vabs, hv. cbn [hp slots]. revert i.
  induction SL as [|y SL IH]; intros i R.
  - apply sset_nil_map.
  - assert (R' : forall b, In b (srefs SL) -> b < length H).
    { intros b Hb. apply R. cbn [srefs flat_map]. apply in_or_app. right. exact Hb. }
    destruct i as [|i]; cbn [gset map sset].
    + f_equal. rewrite V. apply map_hval_ext. exact R'.
    + f_equal; [|apply IH; exact R'].
      destruct y as [h|]; [|reflexivity]. cbn [option_map]. f_equal. rewrite V. apply hval_ext.
      intros b ->. rewrite vals_length. apply R. cbn [srefs flat_map sref href]. left. reflexivity.
Qed.

Lemma inv_slots_range : forall H SL E b, GInv H SL E -> In b (srefs SL) -> b < length H.
Proof. intros H SL E b G Hin. apply rcof_range. exact (ginv_slot_live H SL E b G Hin). Qed.

(* finish an operation: the new handle x (held by the operation) goes into the emptied slot i *)
Lemma commit : forall H SL H' i x ext, GInv H SL [] -> vals H' = vals H ++ ext ->
  GInv H' (gset SL i None) (sref x) ->
  Inv (mkV H' (gset SL i x)) /\ vabs (mkV H' (gset SL i x)) = sset (vabs (mkV H SL)) i (option_map (hv H') x).
Proof.
  intros H SL H' i x ext G V G'. split.
  - unfold Inv. cbn [hp slots]. apply put_in. exact G'.
  - apply (vabs_gset H H' SL i x ext V). intros b Hb. exact (inv_slots_range H SL [] b G Hb).
Qed.

Lemma drop_inv : forall H SL i, GInv H SL [] ->
  GInv (drop_slot (mkV H SL) i) (gset SL i None) [] /\ map pl (drop_slot (mkV H SL) i) = map pl H.
Proof.
  intros H SL i G. pose proof (take_out H SL i G) as T. unfold drop_slot. cbn [hp slots].
  destruct (gget SL i) as [hi|]; [|split; [exact T|reflexivity]].
  cbn [sref] in T. split; [|apply pls_release].
  apply release_top_inv. rewrite app_nil_r. exact T.
Qed.

Lemma hv_new : forall H1 k, hv (H1 ++ [k]) (Some (length H1)) = val_of (vals H1) (pl k).
Proof.
  intros. unfold hv. cbn [hval]. rewrite vals_snoc. rewrite app_nth2 by (rewrite vals_length; lia).
  rewrite vals_length, Nat.sub_diag. reflexivity.
Qed.

Lemma vals_app_nil : forall H H', map pl H' = map pl H -> vals H' = vals H ++ [].
Proof. intros. rewrite app_nil_r. apply vals_pl. assumption. Qed.

(* a new block replaces the content of slot i (after the old content was released) *)
Lemma fresh_ok : forall H SL i p, GInv H SL [] -> children p = [] ->
  let '(H1, h1) := alloc (drop_slot (mkV H SL) i) p in
  Inv (mkV H1 (gset SL i (Some h1))) /\
  vabs (mkV H1 (gset SL i (Some h1))) = sset (vabs (mkV H SL)) i (Some (val_of (vals H) p)).
Proof.
  intros H SL i p G Cp. destruct (drop_inv H SL i G) as [D P]. set (H0 := drop_slot (mkV H SL) i) in *.
  unfold alloc. cbv beta iota.
  assert (A : GInv (H0 ++ [mkBlock 1 p]) (gset SL i None) [length H0]).
  { apply alloc_inv. rewrite Cp. exact D. }
  destruct (commit H SL (H0 ++ [mkBlock 1 p]) i (Some (Some (length H0))) [val_of (vals H0) p] G) as [I V].
  - rewrite vals_snoc. rewrite (vals_pl H H0 P). reflexivity.
  - exact A.
  - split; [exact I|]. etransitivity; [exact V|]. cbn [option_map]. rewrite hv_new. cbn [pl]. rewrite (vals_pl H H0 P). reflexivity.
Qed.

(* a handle that is live in the heap is copied into slot i (the old content is released afterwards) *)
Lemma copy_in_ok : forall H SL i h, GInv H SL [] -> (forall b, h = Some b -> 1 <= rcof H b) ->
  let H1 := share H h in
  let H2 := match gget SL i with Some hi => release_top H1 hi | None => H1 end in
  Inv (mkV H2 (gset SL i (Some h))) /\
  vabs (mkV H2 (gset SL i (Some h))) = sset (vabs (mkV H SL)) i (Some (hv H h)).
Proof.
  intros H SL i h G L. cbn zeta.
  assert (G1 : GInv (share H h) SL (href h)).
  { destruct h as [b|]; [|exact G]. cbn [href]. apply share_inv; [exact G|apply L; reflexivity]. }
  pose proof (slot_inv (share H h) SL (href h) i None G1) as G2. cbn [sref app] in G2.
  set (H2 := match gget SL i with Some hi => release_top (share H h) hi | None => share H h end).
  assert (G3 : GInv H2 (gset SL i None) (href h) /\ map pl H2 = map pl H).
  { unfold H2. destruct (gget SL i) as [hi|]; cbn [sref] in G2.
    - split; [apply release_top_inv; exact G2|]. unfold release_top. rewrite pls_release. apply pls_share.
    - split; [exact G2|apply pls_share]. }
  destruct G3 as [G3 P].
  destruct (commit H SL H2 i (Some h) [] G (vals_app_nil H H2 P) G3) as [I V].
  split; [exact I|]. etransitivity; [exact V|]. cbn [option_map]. unfold hv. rewrite (vals_pl H H2 P). reflexivity.
Qed.

(* toElement() on slot i, a modified Element stored back *)
Lemma open_alloc_ok : forall H SL i hi H0 E0 H1 l c nm at_ hs ip p',
  GInv H SL [] -> gget SL i = Some hi ->
  GInv H0 SL E0 -> map pl H0 = map pl H ->
  open_elem H0 hi = (H1, (l, c, nm, at_, hs), ip) ->
  (forall b, cnt b (hrefs (children p')) = cnt b (hrefs hs ++ E0)) ->
  let '(H2, h2) := alloc H1 p' in
  Inv (mkV H2 (place i h2 ip SL)) /\
  vabs (mkV H2 (place i h2 ip SL)) = sset (vabs (mkV H SL)) i (Some (val_of (vals H) p')) /\
  as_elem (hv H hi) = N l c nm at_ (map (hv H) hs).
Proof.
  intros H SL i hi H0 E0 H1 l c nm at_ hs ip p' G Eg G0 P0 Op Pc.
  pose proof (slot_inv H0 SL E0 i None G0) as G1. rewrite Eg in G1. cbn [sref] in G1.
  destruct (open_elem_ok H0 (gset SL i None) E0 hi H1 l c nm at_ hs ip G1 Op) as (G2 & P1 & Va & Ip).
  unfold alloc. cbv beta iota.
  assert (G3 : GInv (H1 ++ [mkBlock 1 p']) (gset SL i None) [length H1]).
  { apply alloc_inv. rewrite app_nil_r. eapply GInv_perm; [|exact G2]. intros b. symmetry. apply Pc. }
  assert (PH : map pl H1 = map pl H) by (rewrite P1; exact P0).
  destruct (commit H SL (H1 ++ [mkBlock 1 p']) i (Some (Some (length H1))) [val_of (vals H1) p'] G) as [I V].
  { rewrite vals_snoc. rewrite (vals_pl H H1 PH). reflexivity. }
  { exact G3. }
  assert (Pl : place i (Some (length H1)) ip SL = gset SL i (Some (Some (length H1)))).
  { destruct ip as [b|]; [|reflexivity]. destruct (Ip b eq_refl) as [-> Rb].
    apply (place_eq H0 SL E0); assumption. }
  rewrite Pl. split; [exact I|]. split.
  - etransitivity; [exact V|]. cbn [option_map]. rewrite hv_new. cbn [pl]. rewrite (vals_pl H H1 PH). reflexivity.
  - unfold hv in *. rewrite (vals_pl H H0 P0) in Va. exact Va.
Qed.

(* ---- one operation ------------------------------------------------------------------------ *)

Lemma slot_live : forall H SL j b, GInv H SL [] -> gget SL j = Some (Some b) -> 1 <= rcof H b.
Proof. intros H SL j b G E. apply (ginv_slot_live H SL [] b G). exact (gget_srefs SL j b E). Qed.

Lemma slot_block : forall H SL j b, GInv H SL [] -> gget SL j = Some (Some b) ->
  exists k, nth_error H b = Some k /\ 1 <= rc k.
Proof.
  intros H SL j b G E. pose proof (slot_live H SL j b G E) as R.
  destruct (rcof_some H b R) as (k & Ek & Rk). exists k. split; [exact Ek|lia].
Qed.

Lemma hrefs_upd : forall hs k x b, k < length hs ->
  cnt b (hrefs (upd k x hs)) + cnt b (href (nth k hs None)) = cnt b (hrefs hs) + cnt b (href x).
Proof.
  induction hs as [|h hs IH]; intros k x b L; [cbn [length] in L; lia|].
  destruct k as [|k]; cbn [upd nth hrefs flat_map]; rewrite !cnt_app; fold (hrefs hs).
  - lia.
  - fold (hrefs (upd k x hs)). cbn [length] in L. pose proof (IH k x b ltac:(lia)). lia.
Qed.

Lemma map_upd_nth : forall (f f' : handle -> node) (g : node -> node) hs k hc,
  k < length hs -> (forall h, In h hs -> f' h = f h) -> f' hc = g (f (nth k hs None)) ->
  map f' (upd k hc hs) = upd_nth k g (map f hs).
Proof.
  induction hs as [|h hs IH]; intros k hc L Ext Ec; [cbn [length] in L; lia|].
  destruct k as [|k]; cbn [upd map upd_nth nth] in *.
  - rewrite Ec. f_equal. apply map_ext_in. intros a Ha. apply Ext. right. exact Ha.
  - rewrite (Ext h (or_introl eq_refl)). f_equal. apply IH; [cbn [length] in L; lia| |exact Ec].
    intros a Ha. apply Ext. right. exact Ha.
Qed.

Lemma open_elem_block : forall H b k l c nm at_ hs, nth_error H b = Some k -> pl k = PElem l c nm at_ hs ->
  exists H1 ip, open_elem H (Some b) = (H1, (l, c, nm, at_, hs), ip).
Proof.
  intros H b k l c nm at_ hs E P. cbn [open_elem]. rewrite E, P.
  destruct (1 <? rc k); eexists; eexists; reflexivity.
Qed.

Lemma step_ok : forall s o, Inv s -> Inv (mstep s o) /\ vabs (mstep s o) = vstep (vabs s) o.
Proof.
  intros [H SL] o G. unfold Inv in G. cbn [hp slots] in G.
  destruct o as [i|i t|i nm|i j|i j|i t|i nm|i k v|i j|i j k|i k nm|i j|i|i k j]; cbn [mstep hp slots vstep].
  - (* VNull *)
    destruct (drop_inv H SL i G) as [D P].
    destruct (commit H SL (drop_slot (mkV H SL) i) i (Some None) [] G (vals_app_nil _ _ P) D) as [I V].
    split; [exact I|exact V].
  - (* VText *)
    pose proof (fresh_ok H SL i (PText t) G eq_refl) as F. destruct (alloc (drop_slot (mkV H SL) i) (PText t)) as [H1 h1].
    exact F.
  - (* VElem *)
    pose proof (fresh_ok H SL i (PElem 0 0 nm [] []) G eq_refl) as F.
    destruct (alloc (drop_slot (mkV H SL) i) (PElem 0 0 nm [] [])) as [H1 h1]. exact F.
  - (* VCopy *)
    rewrite sget_vabs. destruct (gget SL j) as [hj|] eqn:Ej; cbn [option_map]; [|split; [exact G|reflexivity]].
    apply copy_in_ok; [exact G|]. intros b ->. exact (slot_live H SL j b G Ej).
  - (* VAssign *)
    rewrite !sget_vabs. destruct (gget SL i) as [hi|] eqn:Ei; cbn [option_map]; [|split; [exact G|reflexivity]].
    destruct (gget SL j) as [hj|] eqn:Ej; cbn [option_map]; [|split; [exact G|reflexivity]].
    pose proof (copy_in_ok H SL i hj G) as C. cbn zeta in C. rewrite Ei in C. apply C.
    intros b ->. exact (slot_live H SL j b G Ej).
  - (* VSetText *)
    rewrite sget_vabs. destruct (gget SL i) as [hi|] eqn:Ei; cbn [option_map]; [|split; [exact G|reflexivity]].
    assert (Dr : drop_slot (mkV H SL) i = release_top H hi) by (unfold drop_slot; cbn [hp slots]; rewrite Ei; reflexivity).
    pose proof (fresh_ok H SL i (PText t) G eq_refl) as F. rewrite Dr in F.
    destruct (match lookup H hi with
              | Some k => match pl k with PText _ => negb (1 <? rc k) | PElem _ _ _ _ _ => false end
              | None => false end) eqn:Inp.
    + destruct hi as [b|]; [|discriminate]. cbn [lookup] in Inp.
      destruct (slot_block H SL i b G Ei) as (k & Ek & Rk). rewrite Ek in Inp.
      destruct (pl k) as [t0|] eqn:Pk; [|discriminate].
      apply negb_true_iff in Inp. apply Nat.ltb_ge in Inp.
      assert (R1 : rc k = 1) by lia.
      rewrite <- (release_top_text H b k t0 Ek Pk R1).
      destruct (alloc (release_top H (Some b)) (PText t)) as [H1 h1].
      rewrite (place_eq H SL [] i b h1 G Ei) by (unfold rcof; rewrite Ek; lia).
      exact F.
    + destruct (alloc (release_top H hi) (PText t)) as [H1 h1]. exact F.
  - (* VName *)
    rewrite sget_vabs. destruct (gget SL i) as [hi|] eqn:Ei; cbn [option_map]; [|split; [exact G|reflexivity]].
    destruct (open_elem H hi) as [[H1 [[[[l c] nm0] at_] hs]] ip] eqn:Op.
    pose proof (open_alloc_ok H SL i hi H [] H1 l c nm0 at_ hs ip (PElem l c nm at_ hs) G Ei G eq_refl Op) as A.
    destruct (alloc H1 (PElem l c nm at_ hs)) as [H2 h2].
    destruct A as (I & V & Va); [intros b; cbn [children]; rewrite app_nil_r; reflexivity|].
    split; [exact I|]. rewrite V. unfold set_name. rewrite Va. reflexivity.
  - (* VAttr *)
    rewrite sget_vabs. destruct (gget SL i) as [hi|] eqn:Ei; cbn [option_map]; [|split; [exact G|reflexivity]].
    destruct (open_elem H hi) as [[H1 [[[[l c] nm0] at_] hs]] ip] eqn:Op.
    pose proof (open_alloc_ok H SL i hi H [] H1 l c nm0 at_ hs ip (PElem l c nm0 (attr_put k v at_) hs) G Ei G eq_refl Op) as A.
    destruct (alloc H1 (PElem l c nm0 (attr_put k v at_) hs)) as [H2 h2].
    destruct A as (I & V & Va); [intros b; cbn [children]; rewrite app_nil_r; reflexivity|].
    split; [exact I|]. rewrite V. rewrite Va. reflexivity.
  - (* VChild *)
    rewrite !sget_vabs. destruct (gget SL i) as [hi|] eqn:Ei; cbn [option_map]; [|split; [exact G|reflexivity]].
    destruct (gget SL j) as [hj|] eqn:Ej; cbn [option_map]; [|split; [exact G|reflexivity]].
    assert (G0 : GInv (share H hj) SL (href hj)).
    { destruct hj as [b|]; [|exact G]. cbn [href]. apply share_inv; [exact G|exact (slot_live H SL j b G Ej)]. }
    destruct (open_elem (share H hj) hi) as [[H1 [[[[l c] nm0] at_] hs]] ip] eqn:Op.
    pose proof (open_alloc_ok H SL i hi (share H hj) (href hj) H1 l c nm0 at_ hs ip (PElem l c nm0 at_ (hs ++ [hj]))
                  G Ei G0 (pls_share H hj) Op) as A.
    destruct (alloc H1 (PElem l c nm0 at_ (hs ++ [hj]))) as [H2 h2].
    destruct A as (I & V & Va).
    { intros b. cbn [children]. rewrite hrefs_app. cbn [hrefs flat_map]. rewrite app_nil_r. reflexivity. }
    split; [exact I|]. rewrite V. rewrite Va. cbn [val_of]. rewrite map_app. reflexivity.
  - (* VSub *)
    rewrite sget_vabs. destruct (gget SL j) as [hj|] eqn:Ej; cbn [option_map]; [|split; [exact G|reflexivity]].
    destruct hj as [bj|]; cbn [lookup]; [|split; [exact G|reflexivity]].
    destruct (slot_block H SL j bj G Ej) as (kb & Ek & Rk). rewrite Ek.
    rewrite (hv_block H bj kb (proj2 G) Ek).
    destruct (pl kb) as [t0|l0 c0 nm0 at0 hs] eqn:Pk; cbn [val_of]; [split; [exact G|reflexivity]|].
    rewrite nth_error_map. destruct (nth_error hs k) as [hc|] eqn:En; cbn [option_map]; [|split; [exact G|reflexivity]].
    apply copy_in_ok; [exact G|]. intros c ->.
    apply (ginv_child_live H SL [] c G). apply (in_lrefs H bj kb c Ek Rk). rewrite Pk. cbn [children].
    apply hrefs_in. exact (nth_error_In _ _ En).
  - (* VSubMut *)
    rewrite sget_vabs. destruct (gget SL i) as [hi|] eqn:Ei; cbn [option_map]; [|split; [exact G|reflexivity]].
    destruct hi as [bi|]; cbn [lookup]; [|split; [exact G|reflexivity]].
    destruct (slot_block H SL i bi G Ei) as (kb & Ek & Rk). rewrite Ek.
    pose proof (proj2 G) as O.
    rewrite (hv_block H bi kb O Ek).
    destruct (pl kb) as [t0|l c nm0 at_ hs] eqn:Pk; cbn [val_of]; [split; [exact G|reflexivity]|].
    rewrite map_length. destruct (k <? length hs) eqn:Lk; [|split; [exact G|reflexivity]].
    apply Nat.ltb_lt in Lk.
    destruct (open_elem_block H bi kb l c nm0 at_ hs Ek Pk) as (H1 & ip & Op). rewrite Op.
    set (hk := nth k hs None).
    destruct (open_elem H1 hk) as [[H2 [[[[l' c'] nm'] at'] hs']] ipc] eqn:Opc.
    unfold alloc. cbv beta iota.
    set (S' := gset SL i None).
    (* invariant chain *)
    pose proof (slot_inv H SL [] i None G) as G1. rewrite Ei in G1. cbn [sref href app] in G1. fold S' in G1.
    destruct (open_elem_ok H S' [] (Some bi) H1 l c nm0 at_ hs ip G1 Op) as (G2 & P1 & Va1 & Ip1).
    set (Er := hrefs (upd k None hs)).
    assert (G2' : GInv H1 S' (href hk ++ Er)).
    { eapply GInv_perm; [|exact G2]. intros b. rewrite app_nil_r, cnt_app.
      pose proof (hrefs_upd hs k None b Lk) as X. fold hk in X. unfold Er.
      change (href None) with (@nil nat) in X. rewrite cnt_nil in X. unfold handle in *. lia. }
    destruct (open_elem_ok H1 S' Er hk H2 l' c' nm' at' hs' ipc G2' Opc) as (G3 & P2 & Va2 & Ip2).
    assert (G4 : GInv (H2 ++ [mkBlock 1 (PElem l' c' nm at' hs')]) S' (length H2 :: Er)).
    { apply alloc_inv. exact G3. }
    set (H3 := H2 ++ [mkBlock 1 (PElem l' c' nm at' hs')]) in *.
    set (hc := Some (length H2)).
    assert (G5 : GInv (H3 ++ [mkBlock 1 (PElem l c nm0 at_ (upd k hc hs))]) S' [length H3]).
    { apply alloc_inv. rewrite app_nil_r. eapply GInv_perm; [|exact G4]. intros b. cbn [children].
      pose proof (hrefs_upd hs k hc b Lk) as X1. pose proof (hrefs_upd hs k None b Lk) as X2. unfold Er.
      change (href None) with (@nil nat) in X2. change (href hc) with [length H2] in X1.
      rewrite cnt_nil in X2. rewrite cnt_cons. rewrite cnt_one in X1. unfold handle in *.
      destruct (Nat.eq_dec (length H2) b); lia. }
    set (H4 := H3 ++ [mkBlock 1 (PElem l c nm0 at_ (upd k hc hs))]) in *.
    assert (PH1 : map pl H1 = map pl H) by exact P1.
    assert (PH2 : map pl H2 = map pl H) by (rewrite P2; exact P1).
    assert (V3 : vals H3 = vals H ++ [N l' c' nm at' (map (hv H) hs')]).
    { unfold H3. rewrite vals_snoc. cbn [pl val_of]. rewrite (vals_pl H H2 PH2). reflexivity. }
    assert (V4 : vals H4 = vals H ++ [N l' c' nm at' (map (hv H) hs'); val_of (vals H3) (PElem l c nm0 at_ (upd k hc hs))]).
    { unfold H4. rewrite vals_snoc. cbn [pl]. rewrite V3 at 1. rewrite <- app_assoc. reflexivity. }
    destruct (commit H SL H4 i (Some (Some (length H3))) _ G V4 G5) as [I V].
    (* the slots: both redirections change nothing but slot i *)
    assert (Hk_in : forall bc, hk = Some bc -> bc < bi).
    { intros bc E. apply (O bi kb Ek). rewrite Pk. cbn [children]. apply hrefs_in. rewrite <- E. apply nth_In. exact Lk. }
    assert (Red : (match ipc with Some bc => redirect bc hc SL | None => SL end) = SL).
    { destruct ipc as [bc|]; [|reflexivity]. destruct (Ip2 bc eq_refl) as [Ehk Rbc].
      apply redirect_none.
      destruct G2' as [G2' _]. pose proof (G2' bc) as X. rewrite Ehk in X. cbn [href app] in X. rewrite cnt_cons in X.
      destruct (Nat.eq_dec bc bc); [|contradiction].
      pose proof (srefs_gset SL i None bc) as Y. fold S' in Y. rewrite Ei in Y. cbn [sref href] in Y. rewrite cnt_one, cnt_nil in Y.
      pose proof (Hk_in bc Ehk). destruct (Nat.eq_dec bi bc); lia. }
    rewrite Red.
    assert (Pl : place i (Some (length H3)) ip SL = gset SL i (Some (Some (length H3)))).
    { destruct ip as [b|]; [|reflexivity]. destruct (Ip1 b eq_refl) as [Eb Rb]. inversion Eb; subst b.
      apply (place_eq H SL []); assumption. }
    rewrite Pl. split; [exact I|]. etransitivity; [exact V|]. f_equal. cbn [option_map]. f_equal.
    unfold H4. rewrite hv_new. cbn [pl val_of]. f_equal.
    apply map_upd_nth; [exact Lk| |].
    + intros h Hin. unfold hv. rewrite V3. apply hval_ext. intros b ->. rewrite vals_length.
      assert (b < bi). { apply (O bi kb Ek). rewrite Pk. cbn [children]. apply hrefs_in. exact Hin. }
      assert (bi < length H) by (apply nth_error_Some; congruence). lia.
    + unfold hc. cbn [hval]. rewrite V3. rewrite app_nth2 by (rewrite vals_length, <- (map_length pl H2), PH2, map_length; lia).
      rewrite vals_length. rewrite <- (map_length pl H2), PH2, map_length, Nat.sub_diag. cbn [nth].
      fold hk. unfold set_name. unfold hv in Va2. rewrite (vals_pl H H1 PH1) in Va2.
      unfold hv. unfold handle in *. rewrite Va2. reflexivity.
  - (* VElCopy *)
    rewrite sget_vabs. destruct (gget SL j) as [hj|] eqn:Ej; cbn [option_map]; [|split; [exact G|reflexivity]].
    destruct hj as [bj|]; cbn [lookup]; [|split; [exact G|reflexivity]].
    destruct (slot_block H SL j bj G Ej) as (kb & Ek & Rk). rewrite Ek.
    rewrite (hv_block H bj kb (proj2 G) Ek).
    destruct (pl kb) as [t0|l c nm at_ hs] eqn:Pk; cbn [val_of]; [split; [exact G|reflexivity]|].
    unfold alloc. cbv beta iota.
    set (H0 := fold_left share hs H).
    assert (G0 : GInv H0 SL (hrefs hs ++ [])).
    { apply share_fold_inv; [exact G|]. intros c0 Hc. apply (ginv_child_live H SL [] c0 G).
      apply (in_lrefs H bj kb c0 Ek Rk). rewrite Pk. exact Hc. }
    assert (P0 : map pl H0 = map pl H) by apply pls_fold_share.
    pose proof (alloc_inv H0 SL [] (PElem l c nm at_ hs) G0) as G1.
    set (H1 := H0 ++ [mkBlock 1 (PElem l c nm at_ hs)]) in *.
    pose proof (slot_inv H1 SL [length H0] i None G1) as G2. cbn [sref app] in G2.
    set (H2 := match gget SL i with Some hi => release_top H1 hi | None => H1 end).
    assert (G3 : GInv H2 (gset SL i None) [length H0] /\ map pl H2 = map pl H1).
    { unfold H2. destruct (gget SL i) as [hi|]; cbn [sref] in G2.
      - split; [apply release_top_inv; exact G2|apply pls_release].
      - split; [exact G2|reflexivity]. }
    destruct G3 as [G3 P2].
    assert (V1 : vals H1 = vals H ++ [N l c nm at_ (map (hv H) hs)]).
    { unfold H1. rewrite vals_snoc. cbn [pl val_of]. rewrite (vals_pl H H0 P0). reflexivity. }
    assert (V2 : vals H2 = vals H ++ [N l c nm at_ (map (hv H) hs)]) by (rewrite (vals_pl H1 H2 P2); exact V1).
    destruct (commit H SL H2 i (Some (Some (length H0))) _ G V2 G3) as [I V].
    split; [exact I|]. etransitivity; [exact V|]. cbn [option_map]. f_equal. f_equal.
    unfold hv. cbn [hval]. rewrite V2. rewrite app_nth2 by (rewrite vals_length, <- (map_length pl H0), P0, map_length; lia).
    rewrite vals_length, <- (map_length pl H0), P0, map_length, Nat.sub_diag. reflexivity.
  - (* VDel *)
    destruct (drop_inv H SL i G) as [D P]. split.
    + unfold Inv. cbn [hp slots]. exact D.
    + apply (vabs_gset H _ SL i None [] (vals_app_nil _ _ P)). intros b Hb. exact (inv_slots_range H SL [] b G Hb).
  - (* VSubAssign *)
    destruct (i =? j)%nat eqn:Eij; [split; [exact G|reflexivity]|]. apply Nat.eqb_neq in Eij.
    rewrite !sget_vabs. destruct (gget SL i) as [hi|] eqn:Ei; cbn [option_map]; [|split; [exact G|reflexivity]].
    destruct (gget SL j) as [hj|] eqn:Ej; cbn [option_map]; [|destruct (hv H hi); split; try exact G; reflexivity].
    destruct hi as [bi|]; cbn [lookup]; [|split; [exact G|reflexivity]].
    destruct (slot_block H SL i bi G Ei) as (kb & Ek & Rk). rewrite Ek.
    pose proof (proj2 G) as O.
    rewrite (hv_block H bi kb O Ek).
    destruct (pl kb) as [t0|l c nm0 at_ hs] eqn:Pk; cbn [val_of]; [split; [exact G|reflexivity]|].
    rewrite map_length. destruct (k <? length hs) eqn:Lk; [|split; [exact G|reflexivity]].
    apply Nat.ltb_lt in Lk.
    destruct (open_elem_block H bi kb l c nm0 at_ hs Ek Pk) as (H1 & ip & Op). rewrite Op.
    set (hk := nth k hs None).
    unfold alloc. cbv beta iota.
    set (S' := gset SL i None).
    pose proof (slot_inv H SL [] i None G) as G1. rewrite Ei in G1. cbn [sref href app] in G1. fold S' in G1.
    destruct (open_elem_ok H S' [] (Some bi) H1 l c nm0 at_ hs ip G1 Op) as (G2 & P1 & Va1 & Ip1).
    set (Er := hrefs (upd k None hs)).
    assert (G2' : GInv H1 S' (href hk ++ Er)).
    { eapply GInv_perm; [|exact G2]. intros b. rewrite app_nil_r, cnt_app.
      pose proof (hrefs_upd hs k None b Lk) as X. fold hk in X. unfold Er.
      change (href None) with (@nil nat) in X. rewrite cnt_nil in X. unfold handle in *. lia. }
    (* take the reference on the source: slot j is another slot, still there *)
    assert (G3 : GInv (share H1 hj) S' (href hj ++ href hk ++ Er)).
    { destruct hj as [bj|]; [|exact G2']. cbn [href app]. apply share_inv; [exact G2'|].
      apply (ginv_slot_live H1 S' _ bj G2'). apply (gget_srefs S' j bj). unfold S'.
      rewrite gget_gset_other by exact Eij. exact Ej. }
    (* release the old item *)
    set (H2 := release_top (share H1 hj) hk).
    assert (G4 : GInv H2 S' (href hj ++ Er)).
    { apply release_top_inv. eapply GInv_perm; [|exact G3]. intros b. rewrite !cnt_app. lia. }
    assert (G5 : GInv (H2 ++ [mkBlock 1 (PElem l c nm0 at_ (upd k hj hs))]) S' [length H2]).
    { apply alloc_inv. rewrite app_nil_r. eapply GInv_perm; [|exact G4]. intros b. cbn [children].
      pose proof (hrefs_upd hs k hj b Lk) as X1. pose proof (hrefs_upd hs k None b Lk) as X2. unfold Er.
      change (href None) with (@nil nat) in X2. rewrite cnt_nil in X2. fold hk in X1, X2.
      rewrite cnt_app. unfold handle in *. lia. }
    set (H3 := H2 ++ [mkBlock 1 (PElem l c nm0 at_ (upd k hj hs))]) in *.
    assert (PH2 : map pl H2 = map pl H).
    { unfold H2, release_top. rewrite pls_release, pls_share. exact P1. }
    assert (V3 : vals H3 = vals H ++ [val_of (vals H) (PElem l c nm0 at_ (upd k hj hs))]).
    { unfold H3. rewrite vals_snoc. cbn [pl]. rewrite (vals_pl H H2 PH2). reflexivity. }
    destruct (commit H SL H3 i (Some (Some (length H2))) _ G V3 G5) as [I V].
    assert (Pl : place i (Some (length H2)) ip SL = gset SL i (Some (Some (length H2)))).
    { destruct ip as [b|]; [|reflexivity]. destruct (Ip1 b eq_refl) as [Eb Rb]. inversion Eb; subst b.
      apply (place_eq H SL []); assumption. }
    rewrite Pl. split; [exact I|]. etransitivity; [exact V|]. f_equal. cbn [option_map]. f_equal.
    unfold H3. rewrite hv_new. cbn [pl val_of]. f_equal. rewrite (vals_pl H H2 PH2).
    apply (map_upd_nth (hv H) (hval (vals H)) (fun _ => hv H hj)); [exact Lk|reflexivity|reflexivity].
Qed.

(* ---- every history ------------------------------------------------------------------------ *)

Definition vrun (ops : list vop) : vstate := fold_left mstep ops vinit.

Lemma inv_init : Inv vinit.
Proof.
  unfold Inv, vinit. cbn [hp slots]. split.
  - intros b. unfold rcof. destruct b; reflexivity.
  - intros b k E. destruct b; discriminate.
Qed.

Lemma run_from_ok : forall ops s, Inv s ->
  Inv (fold_left mstep ops s) /\ vabs (fold_left mstep ops s) = fold_left vstep ops (vabs s).
Proof.
  induction ops as [|o ops IH]; intros s I; [split; [exact I|reflexivity]|].
  cbn [fold_left]. destruct (step_ok s o I) as [I1 V1]. destruct (IH _ I1) as [I2 V2].
  split; [exact I2|]. rewrite V2, V1. reflexivity.
Qed.

(* reference counts are exact, nothing points to a freed block, children are older *)
Lemma run_inv : forall ops, Inv (vrun ops).
Proof. intros ops. exact (proj1 (run_from_ok ops vinit inv_init)). Qed.

Lemma run_counts_exact : forall ops b,
  rcof (hp (vrun ops)) b = cnt b (srefs (slots (vrun ops))) + cnt b (lrefs (hp (vrun ops))).
Proof. intros ops b. destruct (run_inv ops) as [G _]. rewrite (G b). rewrite cnt_nil. lia. Qed.

(* the heap model refines the value store of the spec *)
Lemma run_refines : forall ops, vabs (vrun ops) = fold_left vstep ops [].
Proof. intros ops. exact (proj2 (run_from_ok ops vinit inv_init)). Qed.

Lemma sget_nil : forall j, sget [] j = None.
Proof. intros [|j]; reflexivity. Qed.

Lemma sget_sset_nil_other : forall i j v, i <> j -> sget (sset [] i v) j = None.
Proof.
  induction i as [|i IHi]; intros j v Ne; destruct j; cbn [sset sget]; try reflexivity; try lia.
  apply IHi. lia.
Qed.

Lemma sget_sset_other : forall s i j v, i <> j -> sget (sset s i v) j = sget s j.
Proof.
  induction s as [|y s IH]; intros i j v Ne.
  - rewrite sget_sset_nil_other by exact Ne. rewrite sget_nil. reflexivity.
  - destruct i, j; cbn [sset sget]; try reflexivity; try lia. apply IH. lia.
Qed.

Lemma vstep_other : forall st o j, j <> target o -> sget (vstep st o) j = sget st j.
Proof.
  intros st o j Ne.
  destruct o; cbn [vstep target] in *;
    repeat match goal with
           | |- context [match ?x with _ => _ end] => destruct x
           end; try reflexivity; apply sget_sset_other; congruence.
Qed.

(* copies are independent: an operation changes the value of its target slot only *)
Lemma copies_independent : forall ops o j, j <> target o ->
  sget (vabs (mstep (vrun ops) o)) j = sget (vabs (vrun ops)) j.
Proof.
  intros ops o j Ne. destruct (step_ok (vrun ops) o (run_inv ops)) as [_ V]. rewrite V. apply vstep_other. exact Ne.
Qed.

(* ---- a String assigned to a content item through its element ------------------------------------
   `Xml::Element& e = v.toElement(); <k-th item of e.content> = "text";` (harness op vsubsettext i k t) is run by the
   driver as three operations of the alphabet with a temporary slot: a fresh text Variant, the item assigned from it in
   place, the temporary destroyed.  After them slot i holds its element with the k-th item replaced by the text, the
   temporary is gone, every other slot - in particular every copy of the element or of the old item - holds what it
   held, and the counts are exact. *)
Lemma sget_sset_same : forall s i v, sget (sset s i v) i = v.
Proof.
  induction s as [|y s IH]; intros i v.
  - induction i as [|i IHi]; cbn [sset sget]; [reflexivity|exact IHi].
  - destruct i; cbn [sset sget]; [reflexivity|apply IH].
Qed.

Lemma vstep_subassign_text : forall s1 i k tmp l c nm at_ ct y,
  tmp <> i -> sget s1 i = Some (N l c nm at_ ct) -> sget s1 tmp = Some y -> (k < length ct)%nat ->
  vstep s1 (VSubAssign i k tmp) = sset s1 i (Some (N l c nm at_ (upd_nth k (fun _ => y) ct))).
Proof.
  intros s1 i k tmp l c nm at_ ct y Ne Gi Gt Lk. cbn [vstep].
  destruct (Nat.eqb_spec i tmp) as [E|_]; [congruence|].
  rewrite Gi, Gt. destruct (Nat.ltb_spec k (length ct)) as [_|B]; [reflexivity|lia].
Qed.

Lemma text_assigned_to_content_item : forall ops i k t tmp l c nm at_ ct,
  tmp <> i -> sget (vabs (vrun ops)) i = Some (N l c nm at_ ct) -> (k < length ct)%nat ->
  let s3 := vrun (ops ++ [VText tmp t; VSubAssign i k tmp; VDel tmp]) in
  sget (vabs s3) i = Some (N l c nm at_ (upd_nth k (fun _ => T t) ct)) /\
  sget (vabs s3) tmp = None /\
  (forall j, j <> i -> j <> tmp -> sget (vabs s3) j = sget (vabs (vrun ops)) j) /\
  Inv s3.
Proof.
  intros ops i k t tmp l c nm at_ ct Ne Gi Lk s3.
  assert (V : vabs s3 = vstep (vstep (vstep (vabs (vrun ops)) (VText tmp t)) (VSubAssign i k tmp)) (VDel tmp)).
  { unfold s3. rewrite !run_refines. rewrite fold_left_app. reflexivity. }
  remember (vabs (vrun ops)) as s0 eqn:E0.
  remember (vstep s0 (VText tmp t)) as s1 eqn:E1.
  assert (G1i : sget s1 i = Some (N l c nm at_ ct)).
  { rewrite E1. cbn [vstep]. rewrite sget_sset_other by exact Ne. exact Gi. }
  assert (G1t : sget s1 tmp = Some (T t)).
  { rewrite E1. cbn [vstep]. apply sget_sset_same. }
  rewrite (vstep_subassign_text s1 i k tmp l c nm at_ ct (T t) Ne G1i G1t Lk) in V.
  split; [|split; [|split]].
  - rewrite V. cbn [vstep]. rewrite sget_sset_other by exact Ne. apply sget_sset_same.
  - rewrite V. cbn [vstep]. apply sget_sset_same.
  - intros j Nji Njt. rewrite V. cbn [vstep].
    rewrite sget_sset_other by congruence. rewrite sget_sset_other by congruence.
    rewrite E1. cbn [vstep]. apply sget_sset_other. congruence.
  - apply run_inv.
Qed.
