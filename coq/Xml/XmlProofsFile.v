(* The file based entry points Xml::load, Xml::Parser::load, Xml::save (Xml.cpp:448-457, 473-490) are
   parse after File::readAll / File::write after toString: everything proved about parse and toString
   carries over with the content of the file as the text. *)
From Coq Require Import ZArith List Bool Lia.
From Xml Require Import Gen_Xml XmlSpec XmlModel XmlProofsScan XmlProofsTotal XmlProofsRound XmlProofsReuse.
Import ListNotations.
Local Open Scope Z_scope.

Lemma load_is_parse o tgt d : snd (load_with o tgt (FData d)) = LParsed (parse d).
Proof. cbn [load_with snd]. rewrite parse_with_result. reflexivity. Qed.

Lemma static_load_is_parse g tgt d : static_load g tgt (FData d) = LParsed (parse d).
Proof. cbn [static_load]. rewrite static_parse_result. reflexivity. Qed.

(* total, inside the buffer, error position inside the content of the file - for every content *)
Lemma load_total_safe o tgt d :
  match snd (load_with o tgt (FData d)) with
  | LParsed (Ok _) => True
  | LParsed (Syn l c _) => inside_text d l c
  | LParsed Oob => False
  | LParsed Fuel => False
  | LNotRead => False
  end.
Proof. rewrite load_is_parse. exact (parse_total_safe d). Qed.

(* a file that cannot be opened: false, the target keeps what it held, the Parser reports the text of the
   operating system and the line / column it held before *)
Lemma load_missing o tgt e :
  snd (load_with o tgt (FMissing e)) = LNotRead /\
  load_target tgt (snd (load_with o tgt (FMissing e))) = Some tgt /\
  (forall l c m, o_err o = Some (l, c, m) -> o_err (fst (load_with o tgt (FMissing e))) = Some (l, c, Some (EOs e))) /\
  static_load 0 tgt (FMissing e) = LNotRead.
Proof.
  split; [reflexivity|]. split; [reflexivity|]. split; [|reflexivity].
  intros l c m E. cbn [load_with fst o_err]. rewrite E. reflexivity.
Qed.

(* the Parser object after a load that read the file is the Parser object after that parse *)
Lemma load_parser_state o tgt d : fst (load_with o tgt (FData d)) = fst (parse_with o tgt d).
Proof. reflexivity. Qed.

(* save writes exactly toString; an unwritable path writes nothing *)
Lemma save_writes_toString e : save_file e true = (true, Some (toString e)) /\ save_file e false = (false, None).
Proof. split; reflexivity. Qed.

(* save, then load: the tree comes back (names, attribute order and values, text, nesting) *)
Lemma save_load_roundtrip e o tgt : wf_tree e = true ->
  exists content e', save_file e true = (true, Some content) /\
                     snd (load_with o tgt (FData content)) = LParsed (Ok e') /\ erase e' = erase e /\
                     load_target tgt (snd (load_with o tgt (FData content))) = Some e'.
Proof.
  intros W. destruct (roundtrip_ok e W) as (e' & P & E).
  exists (toString e), e'. split; [reflexivity|]. rewrite load_is_parse, P. repeat split. exact E.
Qed.
