(* C16: the cursor invariant and the scanners (skipSpace with the comment scanner, readToken,
   parseText).  For a cursor that satisfies [Inv text] (it is a suffix of the text, a NUL lies at or
   behind it, and its line / line start are the line and column of its offset), every scanner
   - never reads from the empty list (no [Oob]: nothing beyond the terminator is read),
   - returns a cursor that satisfies [Inv] again and is a suffix of the one it started from,
   - reports errors at a cursor that satisfies [Inv]. *)
From Coq Require Import ZArith List Bool Lia.
From Xml Require Import Gen_Xml XmlSpec XmlModel.
Import ListNotations.
Local Open Scope Z_scope.
Local Open Scope bool_scope.

(* ---- suffixes ----------------------------------------------------------------------------- *)

Definition suffix (a b : list Z) : Prop := exists mid, b = mid ++ a.

Lemma suffix_refl : forall a, suffix a a.
Proof. intros a. exists []. reflexivity. Qed.

Lemma suffix_trans : forall a b c, suffix a b -> suffix b c -> suffix a c.
Proof. intros a b c [m1 H1] [m2 H2]. exists (m2 ++ m1). subst. rewrite app_assoc. reflexivity. Qed.

Lemma suffix_cons : forall a x b, suffix a b -> suffix a (x :: b).
Proof. intros a x b [m H]. exists (x :: m). subst. reflexivity. Qed.

Lemma suffix_app : forall a m, suffix a (m ++ a).
Proof. intros a m. exists m. reflexivity. Qed.

Lemma suffix_len : forall a b, suffix a b -> (length a <= length b)%nat.
Proof. intros a b [m H]. subst. rewrite app_length. lia. Qed.

Lemma suffix_len_eq : forall a b, suffix a b -> length a = length b -> a = b.
Proof.
  intros a b [m H] L. subst. rewrite app_length in L. destruct m; [reflexivity|cbn [length] in L; lia].
Qed.

Lemma suffix_tail_lt : forall a x b, suffix a b -> (length a < length (x :: b))%nat.
Proof. intros a x b H. apply suffix_len in H. cbn [length]. lia. Qed.

(* ---- the invariant ------------------------------------------------------------------------ *)

Definition InvR (text r : list Z) (o l s : Z) : Prop :=
  exists pre cr, text = pre ++ r /\ o = zlen pre /\ lc_of pre = (l, o - s + 1, cr) /\
                 (cr = true -> hd 0 r <> 10) /\ In 0 r.

Definition Inv (text : list Z) (p : pos) : Prop := InvR text (rest p) (off p) (line p) (ls p).

Definition col (p : pos) : Z := off p - ls p + 1.

(* an error reported at a cursor that satisfies the invariant *)
Definition ErrAt (text : list Z) (l c : Z) : Prop := exists p, Inv text p /\ l = line p /\ c = col p.

Lemma lc_of_snoc : forall pre c, lc_of (pre ++ [c]) = lc_step (lc_of pre) c.
Proof. intros pre c. unfold lc_of. rewrite fold_left_app. reflexivity. Qed.

Lemma zlen_snoc : forall pre (c : Z), zlen (pre ++ [c]) = zlen pre + 1.
Proof. intros pre c. unfold zlen. rewrite app_length. cbn [length]. lia. Qed.

Lemma zlen_app : forall (a b : list Z), zlen (a ++ b) = zlen a + zlen b.
Proof. intros a b. unfold zlen. rewrite app_length. lia. Qed.

Lemma in0_tail : forall c r, In 0 (c :: r) -> c <> 0 -> In 0 r.
Proof. intros c r [H|H] Hc; [congruence|exact H]. Qed.

Lemma in0_nonnil : forall r, In 0 r -> r <> [].
Proof. intros r H E. subst. exact H. Qed.

Lemma inv_adv_plain : forall text c r1 o l s,
  InvR text (c :: r1) o l s -> c <> 13 -> c <> 10 -> c <> 0 -> InvR text r1 (o + 1) l s.
Proof.
  intros text c r1 o l s (pre & cr & Ht & Ho & Hlc & Hcr & H0) H13 H10 Hc0.
  exists (pre ++ [c]), false. repeat split.
  - rewrite <- app_assoc. exact Ht.
  - rewrite zlen_snoc. lia.
  - rewrite lc_of_snoc, Hlc. unfold lc_step.
    destruct (c =? 13) eqn:E1; [apply Z.eqb_eq in E1; contradiction|].
    destruct (c =? 10) eqn:E2; [apply Z.eqb_eq in E2; contradiction|].
    f_equal. f_equal. lia.
  - discriminate.
  - exact (in0_tail _ _ H0 Hc0).
Qed.

Lemma inv_adv_lf : forall text r1 o l s,
  InvR text (10 :: r1) o l s -> InvR text r1 (o + 1) (l + 1) (o + 1).
Proof.
  intros text r1 o l s (pre & cr & Ht & Ho & Hlc & Hcr & H0).
  exists (pre ++ [10]), false. repeat split.
  - rewrite <- app_assoc. exact Ht.
  - rewrite zlen_snoc. lia.
  - rewrite lc_of_snoc, Hlc. unfold lc_step. cbn [Z.eqb Pos.eqb].
    destruct cr; [exfalso; apply (Hcr eq_refl); reflexivity|].
    f_equal. f_equal. lia.
  - discriminate.
  - apply (in0_tail _ _ H0). discriminate.
Qed.

Lemma inv_adv_cr : forall text c1 r2 o l s,
  InvR text (13 :: c1 :: r2) o l s -> c1 <> 10 -> InvR text (c1 :: r2) (o + 1) (l + 1) (o + 1).
Proof.
  intros text c1 r2 o l s (pre & cr & Ht & Ho & Hlc & Hcr & H0) Hc1.
  exists (pre ++ [13]), true. repeat split.
  - rewrite <- app_assoc. exact Ht.
  - rewrite zlen_snoc. lia.
  - rewrite lc_of_snoc, Hlc. unfold lc_step. cbn [Z.eqb Pos.eqb].
    f_equal. f_equal. lia.
  - intros _. exact Hc1.
  - apply (in0_tail _ _ H0). discriminate.
Qed.

Lemma inv_adv_crlf : forall text r2 o l s,
  InvR text (13 :: 10 :: r2) o l s -> InvR text r2 (o + 2) (l + 1) (o + 2).
Proof.
  intros text r2 o l s (pre & cr & Ht & Ho & Hlc & Hcr & H0).
  exists ((pre ++ [13]) ++ [10]), false. repeat split.
  - rewrite <- !app_assoc. exact Ht.
  - rewrite !zlen_snoc. lia.
  - rewrite !lc_of_snoc, Hlc. unfold lc_step. cbn [Z.eqb Pos.eqb].
    f_equal. f_equal. lia.
  - discriminate.
  - apply (in0_tail 10); [|discriminate]. apply (in0_tail _ _ H0). discriminate.
Qed.

Definition plain (x : Z) : Prop := x <> 0 /\ x <> 10 /\ x <> 13.

Lemma inv_adv_many : forall a text b o l s,
  InvR text (a ++ b) o l s -> Forall plain a -> InvR text b (o + zlen a) l s.
Proof.
  induction a as [|x a IH]; intros text b o l s H F.
  - cbn [app] in H. replace (o + zlen []) with o by (unfold zlen; cbn [length]; lia). exact H.
  - inversion F as [|? ? [P0 [P10 P13]] F']; subst.
    cbn [app] in H. apply inv_adv_plain in H; try assumption.
    apply IH in H; [|exact F'].
    replace (o + zlen (x :: a)) with (o + 1 + zlen a) by (unfold zlen; cbn [length]; lia). exact H.
Qed.

(* the invariant does not look at what was consumed: same cursor, seen as a [pos] *)
Lemma inv_mk : forall text r o l s, InvR text r o l s -> Inv text (mkPos r o l s).
Proof. intros. exact H. Qed.

Lemma inv_in0 : forall text p, Inv text p -> In 0 (rest p).
Proof. intros text p (pre & cr & _ & _ & _ & _ & H). exact H. Qed.

Lemma invr_in0 : forall text r o l s, InvR text r o l s -> In 0 r.
Proof. intros text r o l s (pre & cr & _ & _ & _ & _ & H). exact H. Qed.

(* ---- skipSpace ---------------------------------------------------------------------------- *)

Ltac zb :=
  repeat match goal with
  | H : (_ =? _) = true |- _ => apply Z.eqb_eq in H
  | H : (_ =? _) = false |- _ => apply Z.eqb_neq in H
  end.

Lemma skipSp_ok : forall text n com r o l s,
  (length r <= n)%nat -> InvR text r o l s ->
  exists q, skipSp com r o l s = Ok q /\ Inv text q /\ suffix (rest q) r.
Proof.
  intros text. induction n as [|n IH]; intros com r o l s Hn HI.
  { destruct r; [exfalso; exact (invr_in0 _ _ _ _ _ HI)|cbn [length] in Hn; lia]. }
  pose proof (invr_in0 _ _ _ _ _ HI) as H0.
  destruct r as [|c r1]; [exfalso; exact H0|].
  cbn [length] in Hn.
  assert (Hstay : exists q, Ok (mkPos (c :: r1) o l s) = Ok q /\ Inv text q /\ suffix (rest q) (c :: r1)).
  { eexists. split; [reflexivity|]. split; [exact HI|apply suffix_refl]. }
  (* helper: a recursive call on a suffix *)
  assert (Hrec : forall com' r' o' l' s', (length r' <= n)%nat -> suffix r' (c :: r1) -> InvR text r' o' l' s' ->
            exists q, skipSp com' r' o' l' s' = Ok q /\ Inv text q /\ suffix (rest q) (c :: r1)).
  { intros com' r' o' l' s' L S I. destruct (IH com' r' o' l' s' L I) as (q & E & Iq & Sq).
    exists q. split; [exact E|]. split; [exact Iq|]. exact (suffix_trans _ _ _ Sq S). }
  cbn [skipSp].
  destruct (c =? 13) eqn:E13.
  { zb. subst c. assert (H0' : In 0 r1) by (apply (in0_tail _ _ H0); discriminate).
    destruct r1 as [|c1 r2]; [exfalso; exact H0'|].
    destruct (c1 =? 10) eqn:E10; zb.
    - subst c1. apply Hrec.
      + cbn [length] in Hn. lia.
      + exists [13; 10]. reflexivity.
      + apply (inv_adv_crlf _ _ _ l s). exact HI.
    - apply Hrec.
      + lia.
      + exists [13]. reflexivity.
      + apply (inv_adv_cr _ _ _ _ l s); assumption. }
  destruct (c =? 10) eqn:E10.
  { zb. subst c. apply Hrec; [lia|exists [10]; reflexivity|apply (inv_adv_lf _ _ _ l s); exact HI]. }
  zb.
  destruct com.
  - (* inside a comment *)
    destruct (c =? 0) eqn:Ec0; [exact Hstay|]. zb.
    assert (H0' : In 0 r1) by (apply (in0_tail _ _ H0); assumption).
    assert (Hnext : exists q, skipSp true r1 (o + 1) l s = Ok q /\ Inv text q /\ suffix (rest q) (c :: r1)).
    { apply Hrec; [lia|exists [c]; reflexivity|apply (inv_adv_plain _ c); assumption]. }
    destruct (c =? 45) eqn:E45; [|exact Hnext]. zb. subst c.
    destruct r1 as [|c1 r2]; [exfalso; exact H0'|].
    destruct (c1 =? 45) eqn:E45'; [|exact Hnext]. zb. subst c1.
    assert (H0'' : In 0 r2) by (apply (in0_tail _ _ H0'); discriminate).
    destruct r2 as [|c2 r3]; [exfalso; exact H0''|].
    destruct (c2 =? 62) eqn:E62; [|exact Hnext]. zb. subst c2.
    apply Hrec.
    + cbn [length] in Hn |- *. lia.
    + exists [45; 45; 62]. reflexivity.
    + replace (o + 3) with (o + zlen [45; 45; 62]) by reflexivity.
      apply inv_adv_many; [exact HI|].
      repeat constructor; discriminate.
  - (* outside *)
    destruct (c =? 60) eqn:E60.
    + zb. subst c. assert (H0' : In 0 r1) by (apply (in0_tail _ _ H0); discriminate).
      destruct r1 as [|c1 r2]; [exfalso; exact H0'|].
      destruct (c1 =? 33) eqn:E33; [|exact Hstay]. zb. subst c1.
      assert (H0'' : In 0 r2) by (apply (in0_tail _ _ H0'); discriminate).
      destruct r2 as [|c2 r3]; [exfalso; exact H0''|].
      destruct (c2 =? 45) eqn:E45; [|exact Hstay]. zb. subst c2.
      assert (H0''' : In 0 r3) by (apply (in0_tail _ _ H0''); discriminate).
      destruct r3 as [|c3 r4]; [exfalso; exact H0'''|].
      destruct (c3 =? 45) eqn:E45'; [|exact Hstay]. zb. subst c3.
      apply Hrec.
      * cbn [length] in Hn |- *. lia.
      * exists [60; 33; 45; 45]. reflexivity.
      * replace (o + 4) with (o + zlen [60; 33; 45; 45]) by reflexivity.
        apply inv_adv_many; [exact HI|].
        repeat constructor; discriminate.
    + destruct (is_space c) eqn:Esp; [|exact Hstay]. zb.
      assert (c <> 0). { intro; subst c. discriminate. }
      apply Hrec; [lia|exists [c]; reflexivity|apply (inv_adv_plain _ c); assumption].
Qed.

Lemma skipSpace_ok : forall text p, Inv text p ->
  exists q, skipSpace p = Ok q /\ Inv text q /\ suffix (rest q) (rest p).
Proof. intros text p H. unfold skipSpace. apply (skipSp_ok text (length (rest p))); [lia|exact H]. Qed.

(* where the white-space scanner stops outside a comment: at a byte that is not white space *)
Lemma skipSp_stop : forall n r o l s q,
  (length r <= n)%nat -> skipSp false r o l s = Ok q ->
  match rest q with c :: _ => is_space c = false | [] => True end.
Proof.
  assert (G : forall n com r o l s q, (length r <= n)%nat -> skipSp com r o l s = Ok q ->
              match rest q with c :: _ => is_space c = false | [] => True end).
  { induction n as [|n IH]; intros com r o l s q Hn E.
    { destruct r; [discriminate|cbn [length] in Hn; lia]. }
    destruct r as [|c r1]; [discriminate|]. cbn [length] in Hn. cbn [skipSp] in E.
    destruct (c =? 13) eqn:E13.
    { destruct r1 as [|c1 r2]; [discriminate|]. cbn [length] in Hn.
      destruct (c1 =? 10); eapply IH; try exact E; cbn [length]; lia. }
    destruct (c =? 10) eqn:E10; [eapply IH; try exact E; lia|].
    destruct com.
    - destruct (c =? 0) eqn:E0.
      { inversion E; subst. cbn [rest]. zb. subst. reflexivity. }
      destruct (c =? 45).
      + destruct r1 as [|c1 r2]; [discriminate|]. cbn [length] in Hn.
        destruct (c1 =? 45).
        * destruct r2 as [|c2 r3]; [discriminate|]. cbn [length] in Hn.
          destruct (c2 =? 62); eapply IH; try exact E; cbn [length]; lia.
        * eapply IH; try exact E; cbn [length]; lia.
      + eapply IH; try exact E; lia.
    - destruct (c =? 60) eqn:E60.
      + assert (Hs : is_space c = false) by (zb; subst; reflexivity).
        destruct r1 as [|c1 r2]; [discriminate|]. cbn [length] in Hn.
        destruct (c1 =? 33); [|inversion E; subst; exact Hs].
        destruct r2 as [|c2 r3]; [discriminate|]. cbn [length] in Hn.
        destruct (c2 =? 45); [|inversion E; subst; exact Hs].
        destruct r3 as [|c3 r4]; [discriminate|]. cbn [length] in Hn.
        destruct (c3 =? 45); [|inversion E; subst; exact Hs].
        eapply IH; try exact E; cbn [length]; lia.
      + destruct (is_space c) eqn:Es.
        * eapply IH; try exact E; lia.
        * inversion E; subst. exact Es. }
  intros n r o l s q. apply G.
Qed.

(* ---- scan --------------------------------------------------------------------------------- *)

Lemma scan_ok : forall stop r, In 0 r ->
  exists a c b, scan stop r = Some (a, c :: b) /\ r = a ++ c :: b /\
                Forall (fun x => x <> 0 /\ stop x = false) a /\ (c = 0 \/ stop c = true) /\ In 0 (c :: b).
Proof.
  intros stop. induction r as [|x r IH]; intros H0; [exfalso; exact H0|].
  cbn [scan]. destruct ((x =? 0) || stop x) eqn:E.
  - exists [], x, r. repeat split; try reflexivity; [constructor| |exact H0].
    apply orb_prop in E. destruct E as [E|E]; [left; zb; exact E|right; exact E].
  - apply orb_false_elim in E. destruct E as [E1 E2]. zb.
    destruct (IH (in0_tail _ _ H0 E1)) as (a & c & b & S & R & F & C & I).
    rewrite S. exists (x :: a), c, b. repeat split; try assumption.
    + cbn [app]. f_equal. exact R.
    + constructor; [split; assumption|exact F].
Qed.

(* ---- readToken ---------------------------------------------------------------------------- *)

Definition tok_good (text : list Z) (r0 : list Z) (x : res (token * pos)) : Prop :=
  match x with
  | Ok (tk, q) => Inv text (tpos tk) /\ Inv text q /\ suffix (rest q) r0 /\ (length (rest q) < length r0)%nat
  | Syn l c _ => ErrAt text l c
  | Oob => False
  | Fuel => False
  end.

Lemma errat_of : forall text p, Inv text p -> ErrAt text (line p) (off p - ls p + 1).
Proof. intros text p H. exists p. split; [exact H|split; reflexivity]. Qed.

Lemma adv_inv_many : forall text q a b,
  Inv text q -> rest q = a ++ b -> Forall plain a -> Inv text (adv q (zlen a) b).
Proof.
  intros text q a b H R F. unfold Inv, adv. cbn [rest off line ls].
  apply inv_adv_many; [|exact F]. rewrite <- R. exact H.
Qed.

Lemma name_stop_plain : forall a, Forall (fun x => x <> 0 /\ name_stop x = false) a -> Forall plain a.
Proof.
  intros a F. eapply Forall_impl; [|exact F]. intros x [H0 Hs]. unfold plain. split; [exact H0|].
  unfold name_stop in Hs. apply orb_false_elim in Hs. destruct Hs as [_ Hs].
  split; intro; subst x; discriminate.
Qed.

Lemma readName_ok : forall text q, Inv text q ->
  (match rest q with c :: _ => c <> 0 /\ name_stop c = false \/ c = 47 | [] => False end) ->
  tok_good text (rest q) (readName q).
Proof.
  intros text q HI Hc. unfold readName.
  destruct (scan_ok name_stop (rest q) (inv_in0 _ _ HI)) as (a & c & b & S & R & F & C & I0).
  rewrite S. destruct a as [|x a].
  - unfold synAt. cbn [tok_good]. apply errat_of. exact HI.
  - cbn [tok_good tpos]. split; [exact HI|]. split.
    + apply (adv_inv_many text q (x :: a) (c :: b)); [exact HI|exact R|apply name_stop_plain; exact F].
    + cbn [adv rest]. rewrite R. split; [apply suffix_app|]. rewrite app_length. cbn [length]. lia.
Qed.

Lemma readToken_ok : forall text p, Inv text p -> tok_good text (rest p) (readToken p).
Proof.
  intros text p HI. unfold readToken.
  destruct (skipSpace_ok text p HI) as (q & Eq & Iq & Sq). rewrite Eq. cbn [bind].
  assert (Hmono : forall x, tok_good text (rest q) x -> tok_good text (rest p) x).
  { intros [[tk q']| | |]; cbn [tok_good]; try tauto.
    intros (A & B & C & D). split; [exact A|]. split; [exact B|]. split; [exact (suffix_trans _ _ _ C Sq)|].
    apply suffix_len in Sq. lia. }
  apply Hmono. clear Hmono.
  pose proof (inv_in0 _ _ Iq) as H0.
  destruct (rest q) as [|c r1] eqn:Rq; [exfalso; exact H0|].
  (* single byte tokens *)
  assert (Hone : forall ty, c <> 0 -> c <> 10 -> c <> 13 ->
            tok_good text (c :: r1) (Ok (mkTok ty [] q, adv q 1 r1))).
  { intros ty A B C. cbn [tok_good tpos]. split; [exact Iq|]. split.
    - apply (adv_inv_many text q [c] r1); [exact Iq|exact Rq|]. repeat constructor; assumption.
    - cbn [adv rest]. split; [exists [c]; reflexivity|cbn [length]; lia]. }
  assert (Htwo : forall ty c1 r2, r1 = c1 :: r2 -> c <> 0 -> c <> 10 -> c <> 13 -> c1 <> 0 -> c1 <> 10 -> c1 <> 13 ->
            tok_good text (c :: r1) (Ok (mkTok ty [] q, adv q 2 r2))).
  { intros ty c1 r2 -> A B C A1 B1 C1. cbn [tok_good tpos]. split; [exact Iq|]. split.
    - apply (adv_inv_many text q [c; c1] r2); [exact Iq|exact Rq|]. repeat constructor; assumption.
    - cbn [adv rest]. split; [exists [c; c1]; reflexivity|cbn [length]; lia]. }
  assert (Hname : (c <> 0 /\ name_stop c = false \/ c = 47) -> tok_good text (c :: r1) (readName q)).
  { intros Hc. rewrite <- Rq. apply readName_ok; [exact Iq|]. rewrite Rq. exact Hc. }
  destruct (c =? 60) eqn:E60.
  { zb. subst c. assert (H0' : In 0 r1) by (apply (in0_tail _ _ H0); discriminate).
    destruct r1 as [|c1 r2]; [exfalso; exact H0'|].
    destruct (c1 =? 47) eqn:E47; zb.
    - subst c1. apply (Htwo TEndBegin 47 r2); try reflexivity; discriminate.
    - apply Hone; discriminate. }
  destruct (c =? 62) eqn:E62; [zb; subst c; apply Hone; discriminate|].
  destruct (c =? 0) eqn:E0.
  { unfold synAt. cbn [tok_good]. apply errat_of. exact Iq. }
  destruct (c =? 61) eqn:E61; [zb; subst c; apply Hone; discriminate|].
  zb.
  destruct ((c =? 34) || (c =? 39)) eqn:Eq'.
  { assert (H0' : In 0 r1) by (apply (in0_tail _ _ H0); assumption).
    destruct (scan_ok (fun x => (x =? c) || (x =? 13) || (x =? 10)) r1 H0') as (a & e & b & S & R & F & C & I0).
    rewrite S.
    destruct (e =? 0) eqn:Ee0; [unfold synAt; cbn [tok_good]; apply errat_of; exact Iq|].
    destruct (negb (e =? c)) eqn:Eec; [unfold synAt; cbn [tok_good]; apply errat_of; exact Iq|].
    apply negb_false_iff in Eec. zb. subst e.
    cbn [tok_good tpos]. split; [exact Iq|]. split.
    - replace (zlen a + 2) with (zlen ((c :: a) ++ [c])) by (rewrite zlen_app; unfold zlen; cbn [length]; lia).
      apply (adv_inv_many text q ((c :: a) ++ [c]) b); [exact Iq| |].
      + rewrite Rq, R. cbn [app]. rewrite <- app_assoc. reflexivity.
      + assert (Pc : plain c).
        { apply orb_prop in Eq'. unfold plain. destruct Eq' as [X|X]; zb; subst c; repeat split; discriminate. }
        apply Forall_app. split; [|constructor; [exact Pc|constructor]].
        constructor; [exact Pc|].
        eapply Forall_impl; [|exact F]. intros x [X0 Xs]. unfold plain.
        apply orb_false_elim in Xs. destruct Xs as [Xs X10]. apply orb_false_elim in Xs. destruct Xs as [_ X13].
        zb. repeat split; assumption.
    - cbn [adv rest]. rewrite R. split.
      + exists (c :: a ++ [c]). cbn [app]. rewrite <- app_assoc. reflexivity.
      + cbn [length]. rewrite app_length. cbn [length]. lia. }
  apply orb_false_elim in Eq'. destruct Eq' as [E34 E39]. zb.
  destruct (c =? 47) eqn:E47.
  { zb. subst c. assert (H0' : In 0 r1) by (apply (in0_tail _ _ H0); discriminate).
    destruct r1 as [|c1 r2]; [exfalso; exact H0'|].
    destruct (c1 =? 62) eqn:E62'; zb.
    - subst c1. apply (Htwo TEmptyEnd 62 r2); try reflexivity; discriminate.
    - apply Hname. right. reflexivity. }
  zb. apply Hname.
  destruct (name_stop c) eqn:Ens; [|left; split; [assumption|reflexivity]].
  (* c is a name stop byte other than '/', '>', '=': white space - but skipSpace stopped here *)
  exfalso. unfold name_stop in Ens.
  assert (Hsp : is_space c = true).
  { destruct (c =? 47) eqn:X1; [zb; contradiction|]. destruct (c =? 62) eqn:X2; [zb; contradiction|].
    destruct (c =? 61) eqn:X3; [zb; contradiction|]. exact Ens. }
  unfold skipSpace in Eq. pose proof (skipSp_stop _ _ _ _ _ _ (le_n _) Eq) as St. rewrite Rq in St. congruence.
Qed.

(* ---- parseText ---------------------------------------------------------------------------- *)

Definition text_good (text : list Z) (r0 : list Z) (x : res (list Z * pos)) : Prop :=
  match x with
  | Ok (t, q) => Inv text q /\ suffix (rest q) r0 /\
                 (match r0 with c :: _ => c <> 60 -> (length (rest q) < length r0)%nat | [] => True end)
  | Syn l c _ => ErrAt text l c
  | Oob => False
  | Fuel => False
  end.

Lemma cons_text_good : forall text r0 r0' c x,
  text_good text r0 x -> suffix r0 r0' -> (length r0 < length r0')%nat -> text_good text r0' (cons_text c x).
Proof.
  intros text r0 r0' c [[t q]| | |] G S L; cbn [cons_text bind text_good fst snd] in *; try tauto.
  destruct G as (A & B & _). split; [exact A|]. split; [exact (suffix_trans _ _ _ B S)|].
  destruct r0'; [exact I|]. intros _. apply suffix_len in B. lia.
Qed.

Lemma scanText_ok : forall text n r o l s,
  (length r <= n)%nat -> InvR text r o l s -> text_good text r (scanText r o l s).
Proof.
  intros text. induction n as [|n IH]; intros r o l s Hn HI.
  { destruct r; [exfalso; exact (invr_in0 _ _ _ _ _ HI)|cbn [length] in Hn; lia]. }
  pose proof (invr_in0 _ _ _ _ _ HI) as H0.
  destruct r as [|c r1]; [exfalso; exact H0|]. cbn [length] in Hn. cbn [scanText].
  destruct (c =? 0) eqn:E0.
  { cbn [text_good]. exists (mkPos (c :: r1) o l s). split; [exact HI|split; reflexivity]. }
  destruct (c =? 60) eqn:E60.
  { cbn [text_good]. split; [exact HI|]. split; [apply suffix_refl|]. zb. intros X. contradiction. }
  zb. assert (H0' : In 0 r1) by (apply (in0_tail _ _ H0); assumption).
  destruct (c =? 13) eqn:E13.
  { zb. subst c. destruct r1 as [|c1 r2]; [exfalso; exact H0'|]. cbn [length] in Hn.
    destruct (c1 =? 10) eqn:E10; zb.
    - subst c1. apply (cons_text_good text (10 :: r2)); [|exists [13]; reflexivity|cbn [length]; lia].
      apply (cons_text_good text r2); [|exists [10]; reflexivity|cbn [length]; lia].
      apply IH; [lia|]. apply (inv_adv_crlf _ _ _ l s). exact HI.
    - apply (cons_text_good text (c1 :: r2)); [|exists [13]; reflexivity|cbn [length]; lia].
      apply IH; [cbn [length]; lia|]. apply (inv_adv_cr _ _ _ _ l s); assumption. }
  destruct (c =? 10) eqn:E10.
  { zb. subst c. apply (cons_text_good text r1); [|exists [10]; reflexivity|cbn [length]; lia].
    apply IH; [lia|]. apply (inv_adv_lf _ _ _ l s). exact HI. }
  zb. apply (cons_text_good text r1); [|exists [c]; reflexivity|cbn [length]; lia].
  apply IH; [lia|]. apply (inv_adv_plain _ c); assumption.
Qed.

(* parseText from a cursor where the look-ahead did not find "<" or "</": it makes progress *)
Lemma parseText_ok : forall text p, Inv text p ->
  (match readToken p with Ok (tk, _) => tty tk <> TStart /\ tty tk <> TEndBegin | _ => True end) ->
  match parseText p with
  | Ok (t, q) => Inv text q /\ suffix (rest q) (rest p) /\ (length (rest q) < length (rest p))%nat
  | Syn l c _ => ErrAt text l c
  | Oob => False
  | Fuel => False
  end.
Proof.
  intros text p HI Hla. unfold parseText.
  pose proof (inv_in0 _ _ HI) as H0.
  destruct (rest p) as [|c r1] eqn:Rp; [exfalso; exact H0|].
  destruct (c =? 60) eqn:E60.
  - zb. subst c.
    destruct (skipSpace_ok text p HI) as (q & Eq & Iq & Sq). rewrite Eq. cbn [bind].
    pose proof (scanText_ok text (length (rest q)) (rest q) (off q) (line q) (ls q) (le_n _) Iq) as G.
    destruct (scanText (rest q) (off q) (line q) (ls q)) as [[t q']| | |]; cbn [text_good bind fst snd] in *; try tauto.
    destruct G as (A & B & C). split; [exact A|]. rewrite Rp in Sq.
    split; [exact (suffix_trans _ _ _ B Sq)|].
    (* progress: either skipSpace moved, or the look-ahead would have seen "<" / "</" *)
    destruct (Nat.eq_dec (length (rest q)) (length (60 :: r1))) as [Le|Lne].
    + exfalso. pose proof (suffix_len_eq _ _ Sq Le) as Req.
      unfold readToken in Hla. rewrite Eq in Hla. cbn [bind] in Hla. rewrite Req in Hla.
      cbn [Z.eqb Pos.eqb] in Hla.
      assert (H0' : In 0 r1) by (apply (in0_tail _ _ H0); discriminate).
      destruct r1 as [|c1 r2]; [exact H0'|].
      destruct (c1 =? 47); cbn [tty] in Hla; destruct Hla as [X Y]; congruence.
    + apply suffix_len in Sq. apply suffix_len in B. lia.
  - cbn [bind]. zb.
    pose proof (scanText_ok text (length (rest p)) (rest p) (off p) (line p) (ls p) (le_n _) HI) as G.
    destruct (scanText (rest p) (off p) (line p) (ls p)) as [[t q']| | |]; cbn [text_good bind fst snd] in *; try tauto.
    rewrite Rp in G. destruct G as (A & B & C). split; [exact A|]. split; [exact B|]. apply C. exact E60.
Qed.
