(* One Parser object used for several texts, a target Element that already holds attributes / content,
   the static wrappers: the answer of parse is a function of the text alone (after repair 07). *)
From Coq Require Import ZArith List Bool Lia.
From Xml Require Import Gen_Xml XmlSpec XmlModel XmlProofsScan XmlProofsTotal.
Import ListNotations.
Local Open Scope Z_scope.

Lemma parseElementInto_empty f tp p : parseElementInto [] [] f tp p = parseElement f tp p.
Proof. destruct f; reflexivity. Qed.

Lemma parseFromInto_empty f text : parseFromInto 1 [] [] f text = parseFrom f text.
Proof.
  unfold parseFromInto, parseFrom.
  destruct (skipSpace (mkPos text 0 1 0)) as [p0| | |]; cbn [bind]; [|reflexivity..].
  destruct (prolog (length text) p0) as [p1| | |]; cbn [bind]; [|reflexivity..].
  destruct (readToken p1) as [[tk q]| | |]; cbn [bind]; [|reflexivity..].
  destruct (tty tk); try reflexivity. rewrite parseElementInto_empty. reflexivity.
Qed.

Lemma parse_with_result o tgt s : snd (parse_with o tgt s) = parse s.
Proof.
  unfold parse_with, parse_obj, parse. cbn [o_line attrs_of content_of]. rewrite parseFromInto_empty.
  destruct (parseFrom (fuel_for s) (s ++ [0])); reflexivity.
Qed.

(* the error fields after the call: this call's error; after a success the model does not say (a failed
   look-ahead token may have overwritten them) *)
Lemma parse_with_error_fields o tgt s :
  match parse s with
  | Syn l c m => o_err (fst (parse_with o tgt s)) = Some (l, c, Some m)
  | _ => o_err (fst (parse_with o tgt s)) = None
  end.
Proof.
  unfold parse_with, parse_obj, parse. cbn [o_line attrs_of content_of]. rewrite parseFromInto_empty.
  destruct (parseFrom (fuel_for s) (s ++ [0])); reflexivity.
Qed.

(* a whole history of calls on one object, each into a target with arbitrary content *)
Fixpoint run_parses (o : parser) (calls : list (node * list Z)) : list (res node) :=
  match calls with
  | [] => []
  | (tgt, s) :: more => snd (parse_with o tgt s) :: run_parses (fst (parse_with o tgt s)) more
  end.

Lemma run_parses_fresh calls : forall o, run_parses o calls = map (fun c => parse (snd c)) calls.
Proof.
  induction calls as [|[tgt s] more IH]; intros o; [reflexivity|].
  cbn [run_parses map snd]. rewrite parse_with_result, IH. reflexivity.
Qed.

Lemma second_parse_error_inside_second_text o tgt1 s1 tgt2 s2 l c m :
  snd (parse_with (fst (parse_with o tgt1 s1)) tgt2 s2) = Syn l c m -> inside_text s2 l c.
Proof. rewrite parse_with_result. apply parse_error_inside. Qed.

Lemma static_parse_result g tgt s : static_parse g tgt s = parse s.
Proof. apply parse_with_result. Qed.

(* without `element.clear()` the attributes and the content of the target stay in front of what is parsed:
   target <z k="v">t</z>, text <a l="w">u</a> *)
Lemma parse_without_clear_keeps_target_content :
  snd (parse_obj false (new_parser 0) (N 0 0 [122] [([107], [118])] [T [116]]) [60;97;32;108;61;34;119;34;62;117;60;47;97;62])
    = Ok (N 1 1 [97] [([107], [118]); ([108], [119])] [T [116]; T [117]]) /\
  parse [60;97;32;108;61;34;119;34;62;117;60;47;97;62] = Ok (N 1 1 [97] [([108], [119])] [T [117]]).
Proof. split; vm_compute; reflexivity. Qed.
