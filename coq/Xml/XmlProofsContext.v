(* C16: the whole parser depends on the remaining text only (positions label it), and what follows
   from that for comments next to text, comments in front of the document and processing
   instructions in front of the document. *)
From Coq Require Import ZArith List Bool Lia ZifyBool.
From Xml Require Import Gen_Xml XmlSpec XmlModel XmlProofsScan XmlProofsTotal XmlProofsRound XmlProofsComment.
Import ListNotations.
Local Open Scope Z_scope.
Local Open Scope bool_scope.

(* two results agree up to positions: same kind of outcome, related values, same message *)
Definition rrel {A} (R : A -> A -> Prop) (x y : res A) : Prop :=
  match x, y with
  | Ok a, Ok b => R a b
  | Syn _ _ m, Syn _ _ m' => m = m'
  | Oob, Oob => True
  | Fuel, Fuel => True
  | _, _ => False
  end.

Definition Rpos (q q' : pos) : Prop := rest q = rest q'.
Definition Rtext (x y : list Z * pos) : Prop := fst x = fst y /\ rest (snd x) = rest (snd y).
Definition Rattrs (x y : attrs_end * list (bytes * bytes) * pos) : Prop :=
  fst (fst x) = fst (fst y) /\ snd (fst x) = snd (fst y) /\ rest (snd x) = rest (snd y).
Definition Rnode (x y : node * pos) : Prop := erase (fst x) = erase (fst y) /\ rest (snd x) = rest (snd y).
Definition Rlist (x y : list node * pos) : Prop := map erase (fst x) = map erase (fst y) /\ rest (snd x) = rest (snd y).

Lemma rrel_bind {A B} (R : A -> A -> Prop) (Q : B -> B -> Prop) (x y : res A) (k k' : A -> res B) :
  rrel R x y -> (forall a b, R a b -> rrel Q (k a) (k' b)) -> rrel Q (bind x k) (bind y k').
Proof.
  intros H K. destruct x as [a|l c m| |], y as [b|l' c' m'| |]; cbn [rrel bind] in *; try contradiction; auto.
Qed.

Lemma rrel_weaken {A} (R Q : A -> A -> Prop) (x y : res A) :
  rrel R x y -> (forall a b, R a b -> Q a b) -> rrel Q x y.
Proof. intros H K. destruct x, y; cbn [rrel] in *; auto. Qed.

Lemma rrel_syn {A} (R : A -> A -> Prop) p p' m : rrel R (@synAt A p m) (@synAt A p' m).
Proof. reflexivity. Qed.

Lemma pos_rel_rrel x y : pos_rel x y -> rrel Rpos x y.
Proof. destruct x, y; cbn [pos_rel rrel]; unfold Rpos; tauto. Qed.

Lemma skipSpace_ri p p' : rest p = rest p' -> rrel Rpos (skipSpace p) (skipSpace p').
Proof.
  intros R. apply pos_rel_rrel. unfold skipSpace. rewrite <- R. apply pos_rel_refl_skip.
Qed.

(* the tokenizer, as a relation in this vocabulary *)
Definition Rtok (x y : token * pos) : Prop :=
  tty (fst x) = tty (fst y) /\ tval (fst x) = tval (fst y) /\ rest (snd x) = rest (snd y).

Lemma tok_rel_rrel x y : tok_rel x y -> rrel Rtok x y.
Proof.
  destruct x as [[tk q]|l c m| |], y as [[tk' q']|l' c' m'| |]; cbn [tok_rel rrel]; unfold Rtok; cbn [fst snd]; tauto.
Qed.

Lemma readToken_ri p p' : rest p = rest p' -> rrel Rtok (readToken p) (readToken p').
Proof. intros R. apply tok_rel_rrel, readToken_rest_indep, R. Qed.

(* ---- text ---------------------------------------------------------------------------------- *)

Lemma cons_text_rel c x y : rrel Rtext x y -> rrel Rtext (cons_text c x) (cons_text c y).
Proof.
  intros H. unfold cons_text. apply (rrel_bind Rtext); [exact H|].
  intros a b [E1 E2]. cbn [rrel]. split; cbn [fst snd]; [congruence|exact E2].
Qed.

Lemma scanText_ri : forall n r o l s o' l' s', (length r <= n)%nat ->
  rrel Rtext (scanText r o l s) (scanText r o' l' s').
Proof.
  induction n as [|n IH]; intros r o l s o' l' s' Hn.
  { destruct r; [exact I|cbn [length] in Hn; lia]. }
  destruct r as [|c r1]; [exact I|]. cbn [length] in Hn. cbn [scanText].
  destruct (c =? 0); [reflexivity|].
  destruct (c =? 60); [cbn [rrel]; split; reflexivity|].
  destruct (c =? 13).
  { destruct r1 as [|c1 r2]; [exact I|]. cbn [length] in Hn.
    destruct (c1 =? 10).
    - apply cons_text_rel, cons_text_rel, IH. lia.
    - apply cons_text_rel, IH. cbn [length]. lia. }
  destruct (c =? 10); apply cons_text_rel, IH; lia.
Qed.

Lemma parseText_ri p p' : rest p = rest p' -> rrel Rtext (parseText p) (parseText p').
Proof.
  intros R. unfold parseText. rewrite <- R.
  apply (rrel_bind Rpos).
  - destruct (rest p) as [|c r1] eqn:E; [exact I|]. destruct (c =? 60); [apply skipSpace_ri; congruence|cbn [rrel]; unfold Rpos; congruence].
  - intros q q' Rq. unfold Rpos in Rq. rewrite <- Rq.
    apply (rrel_bind Rtext); [apply (scanText_ri (length (rest q))); lia|].
    intros a b [E1 E2]. cbn [rrel]. split; cbn [fst snd]; [congruence|exact E2].
Qed.

(* ---- attributes, end tag ------------------------------------------------------------------- *)

Lemma parseAttrs_ri : forall f acc p p', rest p = rest p' ->
  rrel Rattrs (parseAttrs f acc p) (parseAttrs f acc p').
Proof.
  induction f as [|f IH]; intros acc p p' R; [exact I|]. cbn [parseAttrs].
  apply (rrel_bind Rtok); [apply readToken_ri, R|].
  intros [tk q] [tk' q'] (E1 & E2 & E3). cbn [fst snd] in *. rewrite <- E1.
  destruct (tty tk); try (apply IH; exact E3); try (cbn [rrel]; repeat split; cbn [fst snd]; auto).
  apply (rrel_bind Rtok); [apply readToken_ri, E3|].
  intros [tk1 q1] [tk1' q1'] (F1 & F2 & F3). cbn [fst snd] in *. rewrite <- F1.
  destruct (tty tk1); try apply rrel_syn.
  apply (rrel_bind Rtok); [apply readToken_ri, F3|].
  intros [tk2 q2] [tk2' q2'] (G1 & G2 & G3). cbn [fst snd] in *. rewrite <- G1.
  destruct (tty tk2); try apply rrel_syn.
  rewrite <- E2, <- G2. apply IH. exact G3.
Qed.

Lemma closeTag_ri nm p p' : rest p = rest p' -> rrel Rpos (closeTag nm p) (closeTag nm p').
Proof.
  intros R. unfold closeTag.
  apply (rrel_bind Rtok); [apply readToken_ri, R|].
  intros [tk q] [tk' q'] (E1 & E2 & E3). cbn [fst snd] in *. rewrite <- E1, <- E2.
  destruct (tty tk); try apply rrel_syn.
  destruct (negb (list_eqb (tval tk) nm)); [apply rrel_syn|].
  apply (rrel_bind Rtok); [apply readToken_ri, E3|].
  intros [tk1 q1] [tk1' q1'] (F1 & F2 & F3). cbn [fst snd] in *. rewrite <- F1.
  destruct (tty tk1); try apply rrel_syn. exact F3.
Qed.

(* ---- elements and content ------------------------------------------------------------------ *)

Lemma parse_rec_ri : forall f,
  (forall tp tp' p p', rest p = rest p' -> rrel Rnode (parseElement f tp p) (parseElement f tp' p')) /\
  (forall acc acc' p p', map erase acc = map erase acc' -> rest p = rest p' ->
     rrel Rlist (parseContent f acc p) (parseContent f acc' p')).
Proof.
  induction f as [|f [IHe IHc]]; [split; intros; exact I|]. split.
  - intros tp tp' p p' R. cbn [parseElement].
    apply (rrel_bind Rtok); [apply readToken_ri, R|].
    intros [tk q] [tk' q'] (E1 & E2 & E3). cbn [fst snd] in *. rewrite <- E1, <- E2, <- E3.
    destruct (tty tk); try apply rrel_syn.
    apply (rrel_bind Rattrs); [apply parseAttrs_ri, E3|].
    intros [[ae at_] q1] [[ae' at'] q1'] (F1 & F2 & F3). cbn [fst snd] in *. subst ae' at'.
    destruct ae.
    + cbn [rrel]. split; cbn [fst snd erase map]; [reflexivity|exact F3].
    + apply (rrel_bind Rlist); [apply IHc; [reflexivity|exact F3]|].
      intros [ct q2] [ct' q2'] [G1 G2]. cbn [fst snd] in *.
      apply (rrel_bind Rpos); [apply closeTag_ri, G2|].
      intros q3 q3' G3. cbn [rrel]. split; cbn [fst snd erase]; [rewrite G1; reflexivity|exact G3].
  - intros acc acc' p p' A R. cbn [parseContent].
    assert (TX : rrel Rlist (do x <- parseText p; parseContent f (T (fst x) :: acc) (snd x))
                            (do x <- parseText p'; parseContent f (T (fst x) :: acc') (snd x))).
    { apply (rrel_bind Rtext); [apply parseText_ri, R|].
      intros [t q] [t' q'] [E1 E2]. cbn [fst snd] in *. subst t'.
      apply IHc; [cbn [map erase]; rewrite A; reflexivity|exact E2]. }
    pose proof (readToken_ri p p' R) as G.
    destruct (readToken p) as [[tk q]|l c m| |], (readToken p') as [[tk' q']|l' c' m'| |]; cbn [rrel] in G; try contradiction;
      try exact TX; try exact I.
    destruct G as (E1 & E2 & E3). cbn [fst snd] in *. rewrite <- E1.
    destruct (tty tk); try exact TX.
    + apply (rrel_bind Rnode); [apply IHe, E3|].
      intros [e q1] [e' q1'] [F1 F2]. cbn [fst snd] in *.
      apply IHc; [cbn [map]; rewrite A, F1; reflexivity|exact F2].
    + cbn [rrel]. split; cbn [fst snd]; [rewrite !map_rev, A; reflexivity|exact E3].
Qed.

Lemma parseElement_ri f tp tp' p p' : rest p = rest p' -> rrel Rnode (parseElement f tp p) (parseElement f tp' p').
Proof. apply parse_rec_ri. Qed.

Lemma parseContent_ri f acc acc' p p' : map erase acc = map erase acc' -> rest p = rest p' ->
  rrel Rlist (parseContent f acc p) (parseContent f acc' p').
Proof. apply parse_rec_ri. Qed.

(* ---- prolog -------------------------------------------------------------------------------- *)

Lemma adv_rest p n r : rest (adv p n r) = r.
Proof. reflexivity. Qed.

Lemma piBody_ri : forall f start start' p p', rest p = rest p' ->
  rrel Rpos (piBody f start p) (piBody f start' p').
Proof.
  induction f as [|f IH]; intros start start' p p' R; [exact I|]. cbn [piBody]. rewrite <- R.
  destruct (scan pi_stop (rest p)) as [[pre r2]|]; [|exact I].
  destruct r2 as [|e r3]; [exact I|].
  destruct (e =? 0); [reflexivity|].
  destruct (e =? 63).
  - destruct r3 as [|e1 r4]; [exact I|]. destruct (e1 =? 62); [reflexivity|].
    apply IH. reflexivity.
  - cbv zeta. destruct (e =? 13).
    + destruct r3 as [|e1 r4]; [exact I|]. destruct (e1 =? 10); apply IH; reflexivity.
    + apply IH. reflexivity.
Qed.

Lemma prolog_ri : forall f p p', rest p = rest p' -> rrel Rpos (prolog f p) (prolog f p').
Proof.
  induction f as [|f IH]; intros p p' R; [exact I|]. cbn [prolog]. rewrite <- R.
  destruct (rest p) as [|c r1] eqn:E; [exact I|].
  destruct (c =? 60); [|cbn [rrel]; unfold Rpos; congruence].
  destruct r1 as [|c1 r2]; [exact I|].
  destruct (c1 =? 63); [|cbn [rrel]; unfold Rpos; congruence].
  apply (rrel_bind Rpos); [apply piBody_ri; reflexivity|]. intros q q' Rq.
  apply (rrel_bind Rpos); [apply skipSpace_ri, Rq|]. intros q1 q1' Rq1. apply IH, Rq1.
Qed.

(* Xml::Private::parse behind the first skipSpace: fp = fuel of the prolog loop, f = fuel of the descent *)
Definition parseAt (fp f : nat) (p0 : pos) : res node :=
  do p1 <- prolog fp p0;
  do x <- readToken p1;
  let '(tk, q) := x in
  match tty tk with
  | TStart => do y <- parseElement f (tpos tk) q; Ok (fst y)
  | _ => synAt (tpos tk) EExpLt
  end.

Lemma parseFrom_parseAt f text : parseFrom f text = (do p0 <- skipSpace (mkPos text 0 1 0); parseAt (length text) f p0).
Proof. reflexivity. Qed.

Definition Rdoc (n n' : node) : Prop := erase n = erase n'.

Lemma parseAt_ri fp f p p' : rest p = rest p' -> rrel Rdoc (parseAt fp f p) (parseAt fp f p').
Proof.
  intros R. unfold parseAt.
  apply (rrel_bind Rpos); [apply prolog_ri, R|]. intros p1 p1' R1.
  apply (rrel_bind Rtok); [apply readToken_ri, R1|].
  intros [tk q] [tk' q'] (E1 & E2 & E3). cbn [fst snd] in *. rewrite <- E1.
  destruct (tty tk); try apply rrel_syn.
  apply (rrel_bind Rnode); [apply parseElement_ri, E3|].
  intros [e q1] [e' q1'] [F1 F2]. exact F1.
Qed.

(* ---- more fuel never changes an answer ------------------------------------------------------ *)

Lemma bind_not_fuel {A B} (x : res A) (k : A -> res B) : bind x k <> Fuel -> x <> Fuel.
Proof. destruct x; cbn [bind]; congruence. Qed.

Lemma parse_rec_fuel : forall f,
  (forall tp p, parseElement f tp p <> Fuel -> parseElement (S f) tp p = parseElement f tp p) /\
  (forall acc p, parseContent f acc p <> Fuel -> parseContent (S f) acc p = parseContent f acc p).
Proof.
  induction f as [|f [IHe IHc]]; [split; intros; cbn in *; congruence|]. split.
  - intros tp p H.
    change (parseElement (S (S f)) tp p) with
      (do x <- readToken p;
       let '(tk, q) := x in
       match tty tk with
       | TName =>
         do y <- parseAttrs (length (rest q)) [] q;
         let '(ae, at_, q1) := y in
         match ae with
         | AEmpty => Ok (N (line tp) (off tp - ls tp + 1) (tval tk) at_ [], q1)
         | AOpen =>
           do z <- parseContent (S f) [] q1;
           let '(ct, q2) := z in
           do q3 <- closeTag (tval tk) q2;
           Ok (N (line tp) (off tp - ls tp + 1) (tval tk) at_ ct, q3)
         end
       | _ => synAt (tpos tk) EExpTagName
       end).
    cbn [parseElement] in H |- *.
    destruct (readToken p) as [[tk q]| | |]; cbn [bind] in H |- *; try reflexivity.
    destruct (tty tk); try reflexivity.
    destruct (parseAttrs (length (rest q)) [] q) as [[[ae at_] q1]| | |]; cbn [bind] in H |- *; try reflexivity.
    destruct ae; [reflexivity|].
    rewrite IHc by (apply (bind_not_fuel _ _ H)). reflexivity.
  - intros acc p H.
    change (parseContent (S (S f)) acc p) with
      (let text := fun _ : unit => (do x <- parseText p; parseContent (S f) (T (fst x) :: acc) (snd x)) in
       match readToken p with
       | Ok (tk, q) =>
         match tty tk with
         | TEndBegin => Ok (rev acc, q)
         | TStart => do y <- parseElement (S f) (tpos tk) q; parseContent (S f) (fst y :: acc) (snd y)
         | _ => text tt
         end
       | Syn _ _ _ => text tt
       | Oob => Oob
       | Fuel => Fuel
       end).
    cbn [parseContent] in H |- *. cbn zeta in H |- *.
    assert (TX : (do x <- parseText p; parseContent f (T (fst x) :: acc) (snd x)) <> Fuel ->
                 (do x <- parseText p; parseContent (S f) (T (fst x) :: acc) (snd x)) =
                 (do x <- parseText p; parseContent f (T (fst x) :: acc) (snd x))).
    { intros H'. destruct (parseText p) as [[t q]| | |]; cbn [bind fst snd] in H' |- *; try reflexivity.
      apply IHc. exact H'. }
    destruct (readToken p) as [[tk q]| | |]; try (apply TX; exact H); try reflexivity.
    destruct (tty tk); try (apply TX; exact H); try reflexivity.
    rewrite IHe by (apply (bind_not_fuel _ _ H)).
    destruct (parseElement f (tpos tk) q) as [[e q1]| | |]; cbn [bind fst snd] in H |- *; try reflexivity.
    apply IHc. exact H.
Qed.

Lemma parseElement_fuel_le : forall k f tp p, parseElement f tp p <> Fuel -> parseElement (k + f) tp p = parseElement f tp p.
Proof.
  induction k as [|k IH]; intros f tp p H; [reflexivity|].
  cbn [Nat.add]. rewrite (proj1 (parse_rec_fuel (k + f))); rewrite IH by exact H; [reflexivity|exact H].
Qed.

Lemma prolog_fuel : forall f p, prolog f p <> Fuel -> prolog (S f) p = prolog f p.
Proof.
  induction f as [|f IH]; intros p H; [cbn in H; congruence|].
  change (prolog (S (S f)) p) with
    (match rest p with
     | [] => Oob
     | c :: r1 =>
       if c =? 60 then
         match r1 with
         | [] => Oob
         | c1 :: r2 =>
           if c1 =? 63 then
             do q <- piBody (length r2) p (adv p 2 r2);
             do q1 <- skipSpace q;
             prolog (S f) q1
           else Ok p
         end
       else Ok p
     end).
  cbn [prolog] in H |- *.
  destruct (rest p) as [|c r1]; [reflexivity|]. destruct (c =? 60); [|reflexivity].
  destruct r1 as [|c1 r2]; [reflexivity|]. destruct (c1 =? 63); [|reflexivity].
  destruct (piBody (length r2) p (adv p 2 r2)) as [q| | |]; cbn [bind] in H |- *; try reflexivity.
  destruct (skipSpace q) as [q1| | |]; cbn [bind] in H |- *; try reflexivity.
  apply IH. exact H.
Qed.

Lemma prolog_fuel_le : forall k f p, prolog f p <> Fuel -> prolog (k + f) p = prolog f p.
Proof.
  induction k as [|k IH]; intros f p H; [reflexivity|].
  cbn [Nat.add]. rewrite prolog_fuel; rewrite IH by exact H; [reflexivity|exact H].
Qed.

Lemma parseAt_fuel kp k fp f p : parseAt fp f p <> Fuel -> parseAt (kp + fp) (k + f) p = parseAt fp f p.
Proof.
  unfold parseAt. intros H.
  rewrite prolog_fuel_le by (apply (bind_not_fuel _ _ H)).
  destruct (prolog fp p) as [p1| | |]; cbn [bind] in H |- *; try reflexivity.
  destruct (readToken p1) as [[tk q]| | |]; cbn [bind] in H |- *; try reflexivity.
  destruct (tty tk); try reflexivity.
  rewrite parseElement_fuel_le by (apply (bind_not_fuel _ _ H)). reflexivity.
Qed.

(* ---- comments next to text ------------------------------------------------------------------ *)

(* the scanner stops at a byte that is neither white space nor '<' *)
Lemma skipSp_stop_here c r1 o l s : is_space c = false -> c <> 60 ->
  skipSp false (c :: r1) o l s = Ok (mkPos (c :: r1) o l s).
Proof.
  intros Hs H60. rewrite skipSp_eq.
  assert (c <> 13 /\ c <> 10) as [H13 H10] by (unfold is_space in Hs; lia).
  neqb H13. neqb H10. neqb H60. rewrite Hs. reflexivity.
Qed.

(* what follows the gap does not start with white space (white space behind a comment in front of text is
   swallowed together with the comment: parseText calls skipSpace when it starts at a '<') *)
Definition text_start (r : list Z) : Prop := match r with c :: _ => is_space c = false | [] => True end.

(* parseText: a gap that begins with a comment, in front of text *)
Lemma parseText_gap b g' p p' : comment_body b = true -> gap g' ->
  rest p = comment b ++ g' ++ rest p' -> text_start (rest p') ->
  rrel Rtext (parseText p) (parseText p').
Proof.
  intros Hb Hg R TS.
  assert (G : gap (comment b ++ g')) by (apply gap_comment; assumption).
  assert (R' : rest p = (comment b ++ g') ++ rest p') by (rewrite <- app_assoc; exact R).
  assert (SK : forall o' l' s', rrel Rpos (skipSpace p) (skipSp false (rest p') o' l' s')).
  { intros. apply pos_rel_rrel. unfold skipSpace. rewrite R'. apply skipSp_gap. exact G. }
  assert (HP : exists t, rest p = 60 :: t) by (rewrite R; unfold comment; cbn [app]; eexists; reflexivity).
  destruct HP as [t HP].
  unfold parseText. rewrite HP. cbn [Z.eqb Pos.eqb].
  destruct (rest p') as [|c r1] eqn:E.
  { specialize (SK 0 0 0). destruct (skipSpace p); cbn [rrel skipSp] in SK; try contradiction. exact I. }
  cbn [text_start] in TS.
  destruct (c =? 60) eqn:E60.
  - apply (rrel_bind Rpos).
    + unfold skipSpace at 2. rewrite E. apply SK.
    + intros q q' Rq. unfold Rpos in Rq. rewrite <- Rq.
      apply (rrel_bind Rtext); [apply (scanText_ri (length (rest q))); lia|].
      intros x y [E1 E2]. cbn [rrel]. split; cbn [fst snd]; [congruence|exact E2].
  - assert (H60 : c <> 60) by lia.
    specialize (SK (off p') (line p') (ls p')). rewrite (skipSp_stop_here c r1 _ _ _ TS H60) in SK.
    assert (SK' : rrel Rpos (skipSpace p) (Ok p')).
    { destruct (skipSpace p); cbn [rrel] in SK |- *; try contradiction; try exact SK.
      unfold Rpos in *. cbn [rest] in SK. congruence. }
    apply (rrel_bind Rpos); [exact SK'|].
    intros q q' Rq. unfold Rpos in Rq. rewrite <- Rq.
    apply (rrel_bind Rtext); [apply (scanText_ri (length (rest q))); lia|].
    intros x y [E1 E2]. cbn [rrel]. split; cbn [fst snd]; [congruence|exact E2].
Qed.

(* the content loop: a gap that begins with a comment in front of anything that does not begin with
   white space - text, a child element, the end tag *)
Lemma parseContent_gap f acc b g' p p' : comment_body b = true -> gap g' ->
  rest p = comment b ++ g' ++ rest p' -> text_start (rest p') ->
  rrel Rlist (parseContent f acc p) (parseContent f acc p').
Proof.
  intros Hb Hg R TS. destruct f as [|f]; [exact I|]. cbn [parseContent].
  assert (G : gap (comment b ++ g')) by (apply gap_comment; assumption).
  assert (R' : rest p = (comment b ++ g') ++ rest p') by (rewrite <- app_assoc; exact R).
  assert (TX : rrel Rlist (do x <- parseText p; parseContent f (T (fst x) :: acc) (snd x))
                          (do x <- parseText p'; parseContent f (T (fst x) :: acc) (snd x))).
  { apply (rrel_bind Rtext); [apply (parseText_gap b g'); assumption|].
    intros [t q] [t' q'] [E1 E2]. cbn [fst snd] in *. subst t'.
    apply parseContent_ri; [reflexivity|exact E2]. }
  pose proof (tok_rel_rrel _ _ (readToken_gap _ p p' G R')) as T.
  destruct (readToken p) as [[tk q]|l c m| |], (readToken p') as [[tk' q']|l' c' m'| |]; cbn [rrel] in T; try contradiction;
    try exact TX; try exact I.
  destruct T as (E1 & E2 & E3). cbn [fst snd] in *. rewrite <- E1.
  destruct (tty tk); try exact TX.
  - apply (rrel_bind Rnode); [apply parseElement_ri, E3|].
    intros [e q1] [e' q1'] [F1 F2]. cbn [fst snd] in *.
    apply parseContent_ri; [cbn [map]; rewrite F1; reflexivity|exact F2].
  - cbn [rrel]. split; cbn [fst snd]; [reflexivity|exact E3].
Qed.

(* ---- in front of the document --------------------------------------------------------------- *)

Lemma bind_assoc {A B C} (x : res A) (k : A -> res B) (h : B -> res C) :
  bind (bind x k) h = bind x (fun a => bind (k a) h).
Proof. destruct x; reflexivity. Qed.

Lemma parse_as_parseAt d :
  parse d = (do p0 <- skipSpace (mkPos (d ++ [0]) 0 1 0); parseAt (length (d ++ [0])) (fuel_for d) p0).
Proof. reflexivity. Qed.

(* the answer for d, reached with more fuel from any cursor with the same remaining text *)
Lemma parseAt_tail d kp k q q' : skipSpace (mkPos (d ++ [0]) 0 1 0) = Ok q' -> rest q = rest q' ->
  rrel Rdoc (parseAt (kp + length (d ++ [0])) (k + fuel_for d) q) (parseAt (length (d ++ [0])) (fuel_for d) q').
Proof.
  intros S R.
  assert (NF : parseAt (length (d ++ [0])) (fuel_for d) q' <> Fuel).
  { pose proof (parse_terminates d) as H. rewrite parse_as_parseAt, S in H. exact H. }
  rewrite <- (parseAt_fuel kp k _ _ q' NF). apply parseAt_ri, R.
Qed.

(* white space and comments in front of the document *)
Lemma parse_gap_before_document g d : gap g -> rrel Rdoc (parse (g ++ d)) (parse d).
Proof.
  intros G. rewrite (parse_as_parseAt (g ++ d)), (parse_as_parseAt d).
  pose proof (skipSp_gap g G (d ++ [0]) 0 1 0 0 1 0) as SK.
  unfold skipSpace. cbn [rest off line ls]. rewrite <- app_assoc.
  destruct (skipSp false (g ++ d ++ [0]) 0 1 0) as [q|l c m| |] eqn:E1,
           (skipSp false (d ++ [0]) 0 1 0) as [q'|l' c' m'| |] eqn:E2; cbn [pos_rel] in SK; try contradiction; [|exact I].
  cbn [bind].
  replace (length (g ++ d ++ [0])) with (Nat.add (length g) (length (d ++ [0]))) by (rewrite (app_length g (d ++ [0])); reflexivity).
  replace (fuel_for (g ++ d)) with (Nat.add (2 * length g)%nat (fuel_for d)) by (unfold fuel_for; rewrite (app_length g d); lia).
  apply parseAt_tail; [exact E2|exact SK].
Qed.

(* a processing instruction in front of the document *)
Lemma parse_pi_before_document a d : pi_body a = true ->
  rrel Rdoc (parse ([60; 63] ++ a ++ [63; 62] ++ d)) (parse d).
Proof.
  intros Ha. rewrite (parse_as_parseAt ([60; 63] ++ a ++ [63; 62] ++ d)), (parse_as_parseAt d).
  remember (([60; 63] ++ a ++ [63; 62] ++ d) ++ [0]) as text eqn:Ht.
  assert (TE : text = [60; 63] ++ a ++ [63; 62] ++ (d ++ [0])).
  { rewrite Ht. rewrite <- !app_assoc. reflexivity. }
  clear Ht.
  assert (S0 : skipSpace (mkPos text 0 1 0) = Ok (mkPos text 0 1 0)).
  { unfold skipSpace. cbn [rest off line ls]. rewrite TE. reflexivity. }
  rewrite S0. cbn [bind].
  assert (LE : length text = S (length a + 3 + length (d ++ [0]))).
  { rewrite TE. cbn [app length]. rewrite !app_length. cbn [length]. rewrite ?app_length. cbn [length]. lia. }
  rewrite LE. unfold parseAt at 1.
  rewrite (prolog_pi _ (mkPos text 0 1 0) a (d ++ [0]) Ha TE).
  rewrite bind_assoc.
  cbn [off line ls].
  pose proof (skipSpace_ri (mkPos (d ++ [0]) (0 + 2 + (zlen a + 2)) 1 0) (mkPos (d ++ [0]) 0 1 0) eq_refl) as SK.
  destruct (skipSpace (mkPos (d ++ [0]) (0 + 2 + (zlen a + 2)) 1 0)) as [q|l c m| |] eqn:E1,
           (skipSpace (mkPos (d ++ [0]) 0 1 0)) as [q'|l' c' m'| |] eqn:E2; cbn [rrel] in SK; try contradiction; try exact I.
  - cbn [bind].
    change (do p1 <- prolog (length a + 3 + length (d ++ [0])) q; do x <- readToken p1;
            let '(tk, q0) := x in match tty tk with
                                  | TStart => do y <- parseElement (fuel_for ([60; 63] ++ a ++ [63; 62] ++ d)) (tpos tk) q0; Ok (fst y)
                                  | _ => synAt (tpos tk) EExpLt end)
      with (parseAt (length a + 3 + length (d ++ [0])) (fuel_for ([60; 63] ++ a ++ [63; 62] ++ d)) q).
    replace (fuel_for ([60; 63] ++ a ++ [63; 62] ++ d)) with (Nat.add (2 * (length a + 4))%nat (fuel_for d))
      by (unfold fuel_for; cbn [app length]; rewrite !app_length; cbn [length]; lia).
    apply parseAt_tail; [exact E2|exact SK].
  - cbn [bind]. exact SK.
Qed.
