From Coq Require Extraction ExtrOcamlBasic.
From Common Require Import Words.
From Xml Require Import Gen_Xml XmlSpec XmlModel.
Extraction Language OCaml.
Extraction "model.ml" anchor parse parse_with parse_obj static_parse new_parser toString roundtrip escape unescape wf_tree erase inside_textb vstep sget target mstep vinit vabs std_entity std_entities load_with load_target static_load save_file hstep hinit touch_op squash cur_name.
