(* C16: "accepts comments wherever white space is allowed (and processing instructions before the root element)",
   read on whole documents:
   - a processing instruction with ANY body (every byte but NUL, also '?', CR, LF, comment openers; it ends at its
     first "?>") in front of the document is stepped over (after repair 08),
   - gaps and processing instructions in front of the document leave names, attributes, nesting and character data
     as they are ([squash], the relation the check's `parseg` judge computes on the implementation). *)
From Coq Require Import ZArith List Bool Lia.
From Xml Require Import Gen_Xml XmlSpec XmlModel XmlProofsScan XmlProofsTotal XmlProofsRound XmlProofsComment XmlProofsContext XmlProofsHandles.
Import ListNotations.
Local Open Scope Z_scope.
Local Open Scope bool_scope.

(* ---- the body of a processing instruction --------------------------------------------------- *)

Lemma has_pi_end_suffix : forall x y, has_pi_end (x ++ y) = false -> has_pi_end y = false.
Proof.
  induction x as [|c x IH]; intros y H; [exact H|].
  cbn [app has_pi_end] in H. apply orb_false_elim in H. destruct H as [_ H]. apply IH, H.
Qed.

Lemma stop_split : forall a : list Z,
  Forall (fun x => pi_stop x = false) a \/
  exists a1 e a2, a = a1 ++ e :: a2 /\ Forall (fun x => pi_stop x = false) a1 /\ pi_stop e = true.
Proof.
  induction a as [|c a IH]; [left; constructor|].
  destruct (pi_stop c) eqn:E.
  - right. exists [], c, a. repeat split; [constructor|exact E].
  - destruct IH as [F|(a1 & e & a2 & Ea & F1 & Ce)].
    + left. constructor; assumption.
    + right. exists (c :: a1), e, a2. subst a. repeat split; [constructor; assumption|exact Ce].
Qed.

Lemma forall_and : forall (a : list Z) (P Q : Z -> Prop), Forall P a -> Forall Q a -> Forall (fun x => P x /\ Q x) a.
Proof. intros a P Q F G. rewrite Forall_forall in *. intros x Hx. split; [apply F|apply G]; exact Hx. Qed.

Lemma piBody_close_any : forall f a start p z, (length a < f)%nat -> rest p = a ++ 63 :: 62 :: z ->
  Forall (fun x => x <> 0) a -> has_pi_end (a ++ [63]) = false ->
  exists o l s, piBody f start p = Ok (mkPos z o l s).
Proof.
  induction f as [|f IH]; intros a start p z Hf R N0 NE; [lia|].
  destruct (stop_split a) as [F|(a1 & e & a2 & Ea & F1 & Ce)].
  { rewrite (piBody_close (S f) start p a z); [|lia|exact R|apply forall_and; assumption].
    unfold adv. eexists _, _, _. reflexivity. }
  subst a.
  apply Forall_app in N0. destruct N0 as [N1 N2]. inversion N2 as [|? ? Ne N2']; subst.
  assert (R' : rest p = a1 ++ e :: (a2 ++ 63 :: 62 :: z)) by (rewrite R, <- app_assoc; reflexivity).
  rewrite <- app_assoc in NE. apply has_pi_end_suffix in NE. cbn [app] in NE.
  assert (L2 : (length a2 < f)%nat) by (rewrite app_length in Hf; cbn [length] in Hf; lia).
  assert (NE2 : has_pi_end (a2 ++ [63]) = false).
  { cbn [has_pi_end] in NE. apply orb_false_elim in NE. exact (proj2 NE). }
  cbn [piBody]. rewrite R'.
  rewrite (scan_app pi_stop a1 e (a2 ++ 63 :: 62 :: z) (forall_and _ _ _ N1 F1) (or_intror Ce)).
  neqb Ne.
  destruct (e =? 63) eqn:E63.
  - apply Z.eqb_eq in E63. subst e.
    destruct a2 as [|e1 a2'].
    + cbn [app]. cbn [Z.eqb Pos.eqb].
      apply (IH [] start _ z); [lia|reflexivity|constructor|reflexivity].
    + cbn [app] in NE |- *. cbn [has_pi_end] in NE. apply orb_false_elim in NE. destruct NE as [NE _].
      cbn [Z.eqb Pos.eqb andb] in NE. rewrite NE.
      apply (IH (e1 :: a2') start _ z); [exact L2|reflexivity|exact N2'|exact NE2].
  - cbv zeta. destruct (e =? 13) eqn:E13.
    + destruct a2 as [|e1 a2'].
      * cbn [app]. cbn [Z.eqb Pos.eqb].
        apply (IH [] start _ z); [lia|reflexivity|constructor|reflexivity].
      * cbn [app]. destruct (e1 =? 10) eqn:E10.
        -- inversion N2' as [|? ? _ N2'']; subst.
           apply (IH a2' start _ z); [cbn [length] in L2; lia|reflexivity|exact N2''|].
           change ((e1 :: a2') ++ [63]) with ([e1] ++ (a2' ++ [63])) in NE2. exact (has_pi_end_suffix _ _ NE2).
        -- apply (IH (e1 :: a2') start _ z); [exact L2|reflexivity|exact N2'|exact NE2].
    + apply (IH a2 start _ z); [exact L2|reflexivity|exact N2'|exact NE2].
Qed.

Lemma pi_text_parts : forall a, pi_text a = true -> Forall (fun x => x <> 0) a /\ has_pi_end (a ++ [63]) = false.
Proof.
  intros a H. unfold pi_text in H. apply andb_prop in H. destruct H as [H1 H2]. split.
  - rewrite forallb_forall in H1. apply Forall_forall. intros x Hx. specialize (H1 x Hx). unfold value_byte in H1. lia.
  - apply negb_true_iff in H2. exact H2.
Qed.

(* "<?" body "?>" in front of the root element is skipped whatever the body holds: the prolog loop continues
   with the white-space scanner at the byte behind the "?>" *)
Lemma prolog_pi_any : forall f p a r, pi_text a = true -> rest p = proc_instr a ++ r ->
  exists o l s, prolog (S f) p = (do q1 <- skipSpace (mkPos r o l s); prolog f q1).
Proof.
  intros f p a r Ha R. destruct (pi_text_parts a Ha) as [N0 NE].
  unfold proc_instr in R. cbn [prolog]. rewrite R. cbn [app]. cbn [Z.eqb Pos.eqb].
  destruct (piBody_close_any (length (a ++ 63 :: 62 :: r)) a p (adv p 2 (a ++ 63 :: 62 :: r)) r) as (o & l & s & E);
    [rewrite app_length; cbn [length]; lia|reflexivity|exact N0|exact NE|].
  rewrite <- app_assoc. cbn [app]. rewrite E. cbn [bind]. eexists _, _, _. reflexivity.
Qed.

(* a processing instruction in front of the document: same tree up to positions / same message *)
Lemma parse_any_pi_before_document a d : pi_text a = true ->
  rrel Rdoc (parse (proc_instr a ++ d)) (parse d).
Proof.
  intros Ha. rewrite (parse_as_parseAt (proc_instr a ++ d)), (parse_as_parseAt d).
  remember ((proc_instr a ++ d) ++ [0]) as text eqn:Ht.
  assert (TE : text = proc_instr a ++ (d ++ [0])).
  { rewrite Ht. rewrite <- !app_assoc. reflexivity. }
  clear Ht.
  assert (S0 : skipSpace (mkPos text 0 1 0) = Ok (mkPos text 0 1 0)).
  { unfold skipSpace. cbn [rest off line ls]. rewrite TE. reflexivity. }
  rewrite S0. cbn [bind].
  assert (LE : length text = S (length a + 3 + length (d ++ [0]))).
  { rewrite TE. unfold proc_instr. cbn [app length]. rewrite !app_length. cbn [length]. rewrite ?app_length. cbn [length]. lia. }
  rewrite LE. unfold parseAt at 1.
  destruct (prolog_pi_any (length a + 3 + length (d ++ [0])) (mkPos text 0 1 0) a (d ++ [0]) Ha TE) as (o & l & s & EP).
  rewrite EP. rewrite bind_assoc.
  pose proof (skipSpace_ri (mkPos (d ++ [0]) o l s) (mkPos (d ++ [0]) 0 1 0) eq_refl) as SK.
  destruct (skipSpace (mkPos (d ++ [0]) o l s)) as [q|l1 c1 m1| |] eqn:E1,
           (skipSpace (mkPos (d ++ [0]) 0 1 0)) as [q'|l' c' m'| |] eqn:E2; cbn [rrel] in SK; try contradiction; try exact I.
  - cbn [bind].
    change (do p1 <- prolog (length a + 3 + length (d ++ [0])) q; do x <- readToken p1;
            let '(tk, q0) := x in match tty tk with
                                  | TStart => do y <- parseElement (fuel_for (proc_instr a ++ d)) (tpos tk) q0; Ok (fst y)
                                  | _ => synAt (tpos tk) EExpLt end)
      with (parseAt (length a + 3 + length (d ++ [0])) (fuel_for (proc_instr a ++ d)) q).
    replace (fuel_for (proc_instr a ++ d)) with (Nat.add (2 * (length a + 4))%nat (fuel_for d))
      by (unfold fuel_for, proc_instr; cbn [app length]; rewrite !app_length; cbn [length]; lia).
    apply parseAt_tail; [exact E2|exact SK].
  - cbn [bind rrel]. exact SK.
Qed.

(* ---- what comments and processing instructions must not change ------------------------------ *)

Fixpoint squash_list (l : list node) (acc : bytes) : list node :=
  match l with
  | [] => flush_text acc
  | x :: r =>
    match x with
    | T t => squash_list r (acc ++ strip_ws t)
    | Nul => squash_list r acc
    | N _ _ _ _ _ => flush_text acc ++ squash x :: squash_list r []
    end
  end.

Lemma squash_N : forall l c nm at_ ct, squash (N l c nm at_ ct) = N 0 0 nm at_ (squash_list ct []).
Proof. reflexivity. Qed.

(* recorded positions play no part *)
Lemma squash_erase : forall n, squash (erase n) = squash n.
Proof.
  apply node_ind'; [reflexivity|reflexivity|].
  intros l c nm at_ ct F. cbn [erase]. rewrite !squash_N. f_equal.
  generalize (@nil Z) as acc.
  induction F as [|x r Hx F IH]; intros acc; [reflexivity|].
  cbn [map]. destruct x as [|t|l' c' nm' at' ct'].
  - cbn [erase squash_list]. apply IH.
  - cbn [erase squash_list]. apply IH.
  - change (erase (N l' c' nm' at' ct')) with (N 0 0 nm' at' (map erase ct')) in *.
    cbn [squash_list]. rewrite Hx, IH. reflexivity.
Qed.

Lemma same_tree_same_data : forall a b, erase a = erase b -> same_up_to_gaps a b.
Proof. intros a b E. unfold same_up_to_gaps. rewrite <- (squash_erase a), <- (squash_erase b), E. reflexivity. Qed.

Lemma rrel_trans_doc : forall x y z : res node, rrel Rdoc x y -> rrel Rdoc y z -> rrel Rdoc x z.
Proof.
  intros [a|l c m| |] [b|l' c' m'| |] [d|l2 c2 m2| |]; cbn [rrel]; unfold Rdoc; try tauto; congruence.
Qed.

Lemma rrel_refl_doc : forall x : res node, rrel Rdoc x x.
Proof. intros [a|l c m| |]; cbn [rrel]; unfold Rdoc; auto. Qed.

(* what may stand in front of the root element: white space, comments, processing instructions, in any mix *)
Inductive prolog_text : list Z -> Prop :=
| pt_nil : prolog_text []
| pt_gap : forall g r, gap g -> prolog_text r -> prolog_text (g ++ r)
| pt_pi : forall a r, pi_text a = true -> prolog_text r -> prolog_text (proc_instr a ++ r).

Lemma parse_prolog_before_document : forall j d, prolog_text j -> rrel Rdoc (parse (j ++ d)) (parse d).
Proof.
  intros j d H. induction H as [|g r G H IH|a r A H IH].
  - apply rrel_refl_doc.
  - rewrite <- app_assoc. eapply rrel_trans_doc; [apply parse_gap_before_document; exact G|exact IH].
  - rewrite <- app_assoc. eapply rrel_trans_doc; [apply parse_any_pi_before_document; exact A|exact IH].
Qed.

Lemma parse_prolog_same_data : forall j d, prolog_text j -> rrel same_up_to_gaps (parse (j ++ d)) (parse d).
Proof.
  intros j d H. eapply rrel_weaken; [apply parse_prolog_before_document; exact H|].
  intros a b E. apply same_tree_same_data. exact E.
Qed.

(* ---- a Variant assigned from a content item (also from its OWN content item) ------------------ *)

(* `slot i = <k-th content item of slot j>` - for j = i the right-hand side lives inside the value that the
   assignment releases (node = node.toElement().content[k]): slot i then holds the value the item had, the
   counts stay exact, every other slot keeps its value (copies_independent) *)
Lemma assign_from_content_item : forall ops i j k l c nm at_ ct y,
  sget (vabs (vrun ops)) j = Some (N l c nm at_ ct) -> nth_error ct k = Some y ->
  vabs (mstep (vrun ops) (VSub i j k)) = sset (vabs (vrun ops)) i (Some y) /\ Inv (mstep (vrun ops) (VSub i j k)).
Proof.
  intros ops i j k l c nm at_ ct y Hj Hk.
  destruct (step_ok (vrun ops) (VSub i j k) (run_inv ops)) as [I V]. split; [|exact I].
  rewrite V. cbn [vstep]. rewrite Hj, Hk. reflexivity.
Qed.
