(* A reference handed out by the non-const toElement() and kept by the caller (audit C16, finding 3).
   - while no other Variant shares the block, a write through the kept reference is the write of the
     complete operation `slot i .toElement().type = nm`: reference counts stay exact, the heap refines the
     value store, an operation changes its target slot only;
   - once the Variant has been copied, the write is seen by the copy as well: the independence statement
     is false for such histories (witness below).  This is the documented limitation of lazy copies with
     handed-out references (the same design as ::Variant), not a statement of the property text about
     copies of values. *)
From Coq Require Import ZArith List Bool Lia Arith.
From Common Require Import ListAux.
From Xml Require Import Gen_Xml XmlSpec XmlModel XmlProofsHandles.
Import ListNotations.

Definition hrun (ops : list hop) : hstate := fold_left hstep ops hinit.

(* the slot an operation writes *)
Definition htarget (st : hstate) (o : hop) : nat :=
  match o with
  | HOp o' => target o'
  | HHold i => i
  | HWriteHeld _ => match held st with Some (i, _) => i | None => 0 end
  end.

(* the visible hypothesis: a reference obtained from toElement() is not used after a later copy - at the
   time of the write no other Variant shares the block *)
Definition held_not_shared (st : hstate) (o : hop) : Prop :=
  match o with
  | HWriteHeld _ => match held st with Some (i, b) => exclusive (hvs st) i b = true | None => True end
  | _ => True
  end.

(* what the operation is in the old alphabet *)
Definition hop_vop (st : hstate) (o : hop) : option vop :=
  match o with
  | HOp o' => Some o'
  | HHold i => match gget (slots (hvs st)) i with Some _ => Some (VName i (cur_name (hvs st) i)) | None => None end
  | HWriteHeld nm => match held st with Some (i, _) => Some (VName i nm) | None => None end
  end.

Lemma hstep_ok st o : Inv (hvs st) -> held_not_shared st o ->
  Inv (hvs (hstep st o)) /\
  vabs (hvs (hstep st o)) = match hop_vop st o with Some v => vstep (vabs (hvs st)) v | None => vabs (hvs st) end.
Proof.
  intros I N. destruct o as [o'|i|nm]; unfold hstep, hop_vop.
  - cbn [hvs]. exact (step_ok (hvs st) o' I).
  - destruct (gget (slots (hvs st)) i) as [hi|]; cbn [hvs]; [|split; [exact I|reflexivity]].
    exact (step_ok (hvs st) _ I).
  - cbn [held_not_shared] in N. destruct (held st) as [[i b]|]; [|split; [exact I|reflexivity]].
    rewrite N. cbn [hvs]. exact (step_ok (hvs st) _ I).
Qed.

Lemma hstep_independent st o j : Inv (hvs st) -> held_not_shared st o -> j <> htarget st o ->
  sget (vabs (hvs (hstep st o))) j = sget (vabs (hvs st)) j.
Proof.
  intros I N Ne. destruct (hstep_ok st o I N) as [_ V]. rewrite V.
  destruct o as [o'|i|nm]; cbn [hop_vop htarget] in *.
  - apply vstep_other. exact Ne.
  - destruct (gget (slots (hvs st)) i); [|reflexivity]. apply vstep_other. exact Ne.
  - destruct (held st) as [[i b]|]; [|reflexivity]. apply vstep_other. exact Ne.
Qed.

(* ---- histories in which every write through a kept reference happens before the block is shared ---- *)
Inductive ok_hist : list hop -> Prop :=
| ok_nil : ok_hist []
| ok_snoc : forall ops o, ok_hist ops -> held_not_shared (hrun ops) o -> ok_hist (ops ++ [o]).

Lemma hrun_snoc ops o : hrun (ops ++ [o]) = hstep (hrun ops) o.
Proof. unfold hrun. rewrite fold_left_app. reflexivity. Qed.

Lemma ok_hist_inv ops : ok_hist ops -> Inv (hvs (hrun ops)).
Proof.
  induction 1 as [|ops o _ IH N]; [exact inv_init|].
  rewrite hrun_snoc. exact (proj1 (hstep_ok _ o IH N)).
Qed.

Lemma ok_hist_counts_exact ops b : ok_hist ops ->
  rcof (hp (hvs (hrun ops))) b = cnt b (srefs (slots (hvs (hrun ops)))) + cnt b (lrefs (hp (hvs (hrun ops)))).
Proof. intros O. destruct (ok_hist_inv ops O) as [G _]. rewrite (G b), cnt_nil. lia. Qed.

Lemma held_copies_independent ops o j : ok_hist (ops ++ [o]) -> j <> htarget (hrun ops) o ->
  sget (vabs (hvs (hrun (ops ++ [o])))) j = sget (vabs (hvs (hrun ops))) j.
Proof.
  intros O Ne. rewrite hrun_snoc. inversion O as [E|ops' o' O' N E].
  - destruct ops; discriminate.
  - apply app_inj_tail in E as [-> ->]. apply hstep_independent; [apply ok_hist_inv; exact O'|exact N|exact Ne].
Qed.

(* ---- the hypothesis holds right after the reference was obtained ---- *)
Lemma hold_exclusive st i : gget (slots (hvs st)) i <> None ->
  exists b, held (hstep st (HHold i)) = Some (i, b) /\ exclusive (hvs (hstep st (HHold i))) i b = true.
Proof.
  intros Ne. unfold hstep. destruct (gget (slots (hvs st)) i) as [hi|] eqn:Ei; [|congruence].
  cbn [hvs held]. unfold mstep. rewrite Ei.
  destruct (open_elem (hp (hvs st)) hi) as [[H1 [[[[l c] nm0] at_] hs]] ip].
  unfold alloc. cbv beta iota. unfold exclusive, block_of_slot, place. cbn [slots hp].
  rewrite gget_gset_same. exists (length H1). split; [reflexivity|].
  rewrite Nat.eqb_refl, rcof_snoc. destruct (Nat.eq_dec (length H1) (length H1)); [reflexivity|congruence].
Qed.

(* ... and it fails only when another Variant (a slot or a content item) points to the block *)
Lemma shared_means_another_variant s i b : Inv s -> block_of_slot s i = Some b -> exclusive s i b = false ->
  2 <= cnt b (srefs (slots s)) + cnt b (lrefs (hp s)).
Proof.
  intros GI Sb Ex. pose proof GI as [G O]. unfold exclusive in Ex. rewrite Sb, Nat.eqb_refl in Ex. cbn [andb] in Ex.
  apply Nat.eqb_neq in Ex. pose proof (G b) as Gb. rewrite cnt_nil in Gb.
  assert (L : 1 <= rcof (hp s) b).
  { unfold block_of_slot in Sb. destruct (gget (slots s) i) as [[b'|]|] eqn:Eg; try discriminate.
    injection Sb as ->. exact (slot_live (hp s) (slots s) i b GI Eg). }
  lia.
Qed.


(* ---- a write through a kept reference to a SHARED block: the counts stay exact (nothing is copied or
        freed), only the value changes - for every handle that points to the block ---- *)
Lemma write_shared_inv s b nm : Inv s -> Inv (write_shared s b nm).
Proof.
  intros GI. unfold write_shared. destruct (nth_error (hp s) b) as [k|] eqn:Ek; [|exact GI].
  destruct (pl k) as [t|l c nm0 at_ hs] eqn:Pk; [exact GI|].
  destruct GI as [G O]. destruct s as [H SL]. cbn [hp slots] in *.
  destruct (nth_error_split' H b k Ek) as (H1 & H2 & -> & <-).
  rewrite upd_app_at. unfold Inv, GInv. cbn [hp slots].
  set (k' := mkBlock (rc k) (PElem l c nm at_ hs)).
  assert (Bk : bref k' = bref k) by (unfold bref, k'; cbn [rc pl children]; rewrite Pk; reflexivity).
  split.
  - intros b'.
    assert (L : lrefs (H1 ++ k' :: H2) = lrefs (H1 ++ k :: H2)).
    { unfold lrefs. rewrite !flat_map_app. cbn [flat_map]. rewrite Bk. reflexivity. }
    assert (R : rcof (H1 ++ k' :: H2) b' = rcof (H1 ++ k :: H2) b').
    { rewrite !rcof_mid. destruct (Nat.eq_dec b' (length H1)); reflexivity. }
    rewrite L, R. exact (G b').
  - intros b' kb E c0 Hc. destruct (Nat.eq_dec b' (length H1)) as [->|Ne].
    + rewrite nth_error_app2 in E by lia. rewrite Nat.sub_diag in E. cbn in E. injection E as <-.
      apply (O (length H1) k); [rewrite nth_error_app2 by lia; rewrite Nat.sub_diag; reflexivity|].
      unfold k' in Hc. cbn [pl children] in Hc. rewrite Pk. exact Hc.
    + apply (O b' kb); [|exact Hc].
      destruct (Nat.lt_ge_cases b' (length H1)) as [L|L].
      * rewrite nth_error_app1 in E |- * by lia. exact E.
      * rewrite nth_error_app2 in E |- * by lia.
        destruct (b' - length H1) as [|d] eqn:D; [lia|]. exact E.
Qed.

(* reference counts are exact in EVERY history, also with writes through a reference kept across a copy *)
Lemma hstep_inv st o : Inv (hvs st) -> Inv (hvs (hstep st o)).
Proof.
  intros I. destruct o as [o'|i|nm].
  - exact (proj1 (hstep_ok st (HOp o') I Logic.I)).
  - exact (proj1 (hstep_ok st (HHold i) I Logic.I)).
  - unfold hstep. destruct (held st) as [[i b]|] eqn:Eh; [|exact I].
    destruct (exclusive (hvs st) i b) eqn:Ex.
    + cbn [hvs]. exact (proj1 (step_ok (hvs st) _ I)).
    + cbn [hvs]. apply write_shared_inv, I.
Qed.

Lemma hrun_inv ops : Inv (hvs (hrun ops)).
Proof.
  unfold hrun. assert (G : forall st, Inv (hvs st) -> Inv (hvs (fold_left hstep ops st))).
  { induction ops as [|o ops IH]; intros st I; [exact I|]. cbn [fold_left]. apply IH, hstep_inv, I. }
  apply G. exact inv_init.
Qed.

(* ---- obtaining the reference, said in the value store: toElement() makes the value an element ---- *)
Lemma cur_name_spec s i : Inv s -> VName i (cur_name s i) = touch_op (vabs s) i.
Proof.
  intros [G O]. destruct s as [H SL]. unfold touch_op, cur_name. cbn [hp slots] in *. rewrite sget_vabs.
  destruct (gget SL i) as [hi|] eqn:Ei; cbn [option_map]; [|reflexivity]. f_equal.
  destruct hi as [b|]; cbn [lookup]; [|reflexivity].
  destruct (nth_error H b) as [k|] eqn:Ek.
  - rewrite (hv_block H b k O Ek). destruct (pl k); reflexivity.
  - rewrite (hv_out H b Ek). reflexivity.
Qed.

(* ---- the independence statement is false once the Variant was copied ---- *)
Definition witness : list hop := [HOp (VElem 0 [97%Z]); HHold 0; HOp (VCopy 1 0)].

Lemma copies_independent_refuted :
  exists ops nm j,
    Inv (hvs (hrun ops)) /\ j <> htarget (hrun ops) (HWriteHeld nm) /\
    sget (vabs (hvs (hstep (hrun ops) (HWriteHeld nm)))) j <> sget (vabs (hvs (hrun ops))) j.
Proof.
  exists witness, [98%Z], 1. split; [|split].
  - assert (I0 : Inv (hvs hinit)) by exact inv_init.
    pose proof (proj1 (hstep_ok hinit (HOp (VElem 0 [97%Z])) I0 I)) as I1.
    pose proof (proj1 (hstep_ok _ (HHold 0) I1 I)) as I2.
    exact (proj1 (hstep_ok _ (HOp (VCopy 1 0)) I2 I)).
  - vm_compute. discriminate.
  - vm_compute. discriminate.
Qed.

(* the same history with the write BEFORE the copy: the copy is taken of the renamed element, and a later
   write through a fresh reference does not reach it *)
Lemma witness_values :
  vabs (hvs (hrun (witness ++ [HWriteHeld [98%Z]]))) = [Some (N 0%Z 0%Z [98%Z] [] []); Some (N 0%Z 0%Z [98%Z] [] [])] /\
  vabs (hvs (hrun [HOp (VElem 0 [97%Z]); HHold 0; HWriteHeld [98%Z]; HOp (VCopy 1 0); HHold 0; HWriteHeld [99%Z]]))
    = [Some (N 0%Z 0%Z [99%Z] [] []); Some (N 0%Z 0%Z [98%Z] [] [])].
Proof. split; vm_compute; reflexivity. Qed.
