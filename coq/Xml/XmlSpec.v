(* Reference objects of property C16.  Nothing here looks at the code:
   - element trees and the class of trees the round-trip clause speaks about,
   - what "a line and column that lie inside the text" means,
   - what a comment is,
   - value semantics of element/variant handles (copies are independent). *)
From Coq Require Import ZArith List Bool Lia.
Import ListNotations.
Local Open Scope Z_scope.
Local Open Scope bool_scope.

(* ---- element trees ------------------------------------------------------------------------ *)

Definition bytes := list Z.

Inductive node : Type :=
| Nul                                                   (* a null Variant in a content list *)
| T (t : bytes)                                         (* text *)
| N (line col : Z) (name : bytes) (attrs : list (bytes * bytes)) (content : list node).

(* positions are not part of the value that has to survive a round trip *)
Fixpoint erase (n : node) : node :=
  match n with
  | Nul => Nul
  | T t => T t
  | N _ _ nm at_ ct => N 0 0 nm at_ (map erase ct)
  end.

Definition bytes_eqb (a b : bytes) : bool :=
  (length a =? length b)%nat && forallb (fun p => fst p =? snd p) (combine a b).

Definition is_space (c : Z) : bool := ((9 <=? c) && (c <=? 13)) || (c =? 32).

(* well-formed names: XML name characters (ASCII letters, digits, '_' '-' '.' ':' and every
   byte >= 128), at least one *)
Definition name_char (c : Z) : bool :=
  ((65 <=? c) && (c <=? 90)) || ((97 <=? c) && (c <=? 122)) || ((48 <=? c) && (c <=? 57))
  || (c =? 95) || (c =? 45) || (c =? 46) || (c =? 58) || ((128 <=? c) && (c <=? 255)).
Definition wf_name (n : bytes) : bool := negb (match n with [] => true | _ => false end) && forallb name_char n.

(* arbitrary values: any bytes that can occur inside a NUL-terminated text *)
Definition value_byte (c : Z) : bool := (1 <=? c) && (c <=? 255).
Definition wf_value (v : bytes) : bool := forallb value_byte v.

Definition blank (t : bytes) : bool := forallb is_space t.
Definition wf_text (t : bytes) : bool := wf_value t && negb (blank t).

Fixpoint distinct_keys (l : list (bytes * bytes)) : bool :=
  match l with
  | [] => true
  | (k, _) :: r => negb (existsb (fun kv => bytes_eqb k (fst kv)) r) && distinct_keys r
  end.

Definition is_text (n : node) : bool := match n with T _ => true | _ => false end.
Fixpoint no_adjacent_text (l : list node) : bool :=
  match l with
  | a :: ((b :: _) as r) => negb (is_text a && is_text b) && no_adjacent_text r
  | _ => true
  end.

Fixpoint wf_node (n : node) : bool :=
  match n with
  | Nul => false
  | T t => wf_text t
  | N _ _ nm at_ ct =>
      wf_name nm && forallb (fun kv => wf_name (fst kv) && wf_value (snd kv)) at_ && distinct_keys at_
      && no_adjacent_text ct && forallb wf_node ct
  end.
Definition wf_tree (n : node) : bool := match n with N _ _ _ _ _ => wf_node n | _ => false end.

(* ---- positions ---------------------------------------------------------------------------- *)

(* (line, column) of offset [length pre] in a text that starts with [pre]: a line ends with
   CR LF, a lone CR or a lone LF; lines and columns count from 1.  State of the fold:
   line, column, "the previous byte was CR". *)
Definition lc_step (st : Z * Z * bool) (c : Z) : Z * Z * bool :=
  let '(l, k, cr) := st in
  if c =? 13 then (l + 1, 1, true)
  else if c =? 10 then (if cr then (l, 1, false) else (l + 1, 1, false))
  else (l, k + 1, false).
Definition lc_of (pre : bytes) : Z * Z * bool := fold_left lc_step pre (1, 1, false).
Definition linecol (pre : bytes) : Z * Z := let '(l, k, _) := lc_of pre in (l, k).

(* "line l, column k lies inside the text s": it is the position of some offset 0..|s| *)
Definition inside_text (s : bytes) (l k : Z) : Prop :=
  exists n, (n <= length s)%nat /\ linecol (firstn n s) = (l, k).

Definition inside_textb (s : bytes) (l k : Z) : bool :=
  existsb (fun n => let '(l', k') := linecol (firstn n s) in (l' =? l) && (k' =? k)) (seq 0 (S (length s))).

(* ---- comments ----------------------------------------------------------------------------- *)

(* a comment is "<!--" body "-->" where the first "-->" of body ++ "-->" is the final one *)
Fixpoint has_close (b : bytes) : bool :=
  match b with
  | c :: r => (match r with c1 :: c2 :: _ => (c =? 45) && (c1 =? 45) && (c2 =? 62) | _ => false end) || has_close r
  | [] => false
  end.
Definition comment_body (b : bytes) : bool := forallb value_byte b && negb (has_close (b ++ [45; 45])).
Definition comment (b : bytes) : bytes := [60; 33; 45; 45] ++ b ++ [45; 45; 62].

(* ---- "accepts comments wherever white space is allowed" ----------------------------------- *)

(* What a comment (or a processing instruction in front of the root) must not change: names, attributes,
   nesting, and between two child elements the concatenated character data.  A comment counts as white
   space and the text does not say which white space next to a comment is kept, so character data is
   compared without its white-space bytes.  [squash] is the canonical form: positions erased, the text
   nodes between two child elements joined without white space (an empty join is dropped). *)
Definition strip_ws (t : bytes) : bytes := filter (fun c => negb (is_space c)) t.
Definition flush_text (acc : bytes) : list node := match acc with [] => [] | _ => [T acc] end.

Fixpoint squash (n : node) : node :=
  match n with
  | N _ _ nm at_ ct =>
    N 0 0 nm at_
      ((fix go (l : list node) (acc : bytes) {struct l} : list node :=
          match l with
          | [] => flush_text acc
          | x :: r =>
            match x with
            | T t => go r (acc ++ strip_ws t)
            | Nul => go r acc
            | N _ _ _ _ _ => flush_text acc ++ squash x :: go r []
            end
          end) ct [])
  | x => x
  end.

(* the two parse answers of a document and of the same document with comments / processing instructions
   inserted: both accepted with the same squashed tree, or both rejected *)
Definition same_up_to_gaps (a b : node) : Prop := squash a = squash b.

(* ---- processing instructions ---------------------------------------------------------------- *)

(* a processing instruction is "<?" body "?>" where the first "?>" of body ++ "?>" is the final one *)
Fixpoint has_pi_end (b : bytes) : bool :=
  match b with
  | c :: r => (match r with c1 :: _ => (c =? 63) && (c1 =? 62) | [] => false end) || has_pi_end r
  | [] => false
  end.
Definition pi_text (b : bytes) : bool := forallb value_byte b && negb (has_pi_end (b ++ [63])).
Definition proc_instr (b : bytes) : bytes := [60; 63] ++ b ++ [63; 62].

(* ---- predefined entities (XML 1.0, 4.6): lt gt amp apos quot ------------------------------ *)
Definition std_entities : list (bytes * Z) :=
  [([108; 116], 60); ([103; 116], 62); ([97; 109; 112], 38); ([97; 112; 111; 115], 39); ([113; 117; 111; 116], 34)].

Fixpoint std_entity (nm : bytes) (l : list (bytes * Z)) : option Z :=
  match l with
  | [] => None
  | (n, c) :: r => if bytes_eqb nm n then Some c else std_entity nm r
  end.

(* ---- handles on element values (copies are independent of their source) ------------------- *)

(* The reference object is a store of values: a handle denotes a value and nothing else.
   [vop] are the operations of Xml::Variant / Xml::Element handles that the property's last
   clause ranges over. *)
Inductive vop : Type :=
| VNull (i : nat)                         (* slot i := Variant()                         *)
| VText (i : nat) (t : bytes)             (* slot i := Variant(String t)                 *)
| VElem (i : nat) (nm : bytes)            (* slot i := Variant(Element named nm)         *)
| VCopy (i j : nat)                       (* slot i := Variant(slot j)   copy-construct  *)
| VAssign (i j : nat)                     (* slot i  = slot j            copy-assign     *)
| VSetText (i : nat) (t : bytes)          (* slot i  = String t                          *)
| VName (i : nat) (nm : bytes)            (* slot i .toElement().type = nm               *)
| VAttr (i : nat) (k v : bytes)           (* slot i .toElement().attributes.append(k, v) *)
| VChild (i j : nat)                      (* slot i .toElement().content.append(slot j)  *)
| VSub (i j : nat) (k : nat)              (* slot i := Variant(k-th content item of slot j as element) *)
| VSubMut (i : nat) (k : nat) (nm : bytes)(* k-th content item of slot i .toElement().type = nm *)
| VElCopy (i j : nat)                     (* slot i := Variant(Element copy of slot j's element) via Element copy-construction *)
| VDel (i : nat)                          (* slot i destroyed *)
| VSubAssign (i : nat) (k : nat) (j : nat). (* k-th content item of slot i .toElement() = slot j   (j <> i; see vstep) *)

Definition store := list (option node).

Fixpoint sget (s : store) (i : nat) : option node :=
  match s, i with
  | [], _ => None
  | x :: _, O => x
  | _ :: r, S i' => sget r i'
  end.
Fixpoint sset (s : store) (i : nat) (v : option node) : store :=
  match s, i with
  | [], O => [v]
  | [], S i' => None :: sset [] i' v
  | _ :: r, O => v :: r
  | x :: r, S i' => x :: sset r i' v
  end.

(* mutable element access: anything that is not an element becomes the empty element *)
Definition as_elem (n : node) : node := match n with N l c nm a ct => N l c nm a ct | _ => N 0 0 [] [] [] end.

Fixpoint attr_put (k v : bytes) (l : list (bytes * bytes)) : list (bytes * bytes) :=
  match l with
  | [] => [(k, v)]
  | (k', v') :: r => if bytes_eqb k k' then (k', v) :: r else (k', v') :: attr_put k v r
  end.

Fixpoint upd_nth (k : nat) (f : node -> node) (l : list node) : list node :=
  match l, k with
  | [], _ => []
  | x :: r, O => f x :: r
  | x :: r, S k' => x :: upd_nth k' f r
  end.

Definition set_name (nm : bytes) (n : node) : node :=
  match as_elem n with N l c _ a ct => N l c nm a ct | x => x end.

Definition vstep (s : store) (o : vop) : store :=
  match o with
  | VNull i => sset s i (Some Nul)
  | VText i t => sset s i (Some (T t))
  | VElem i nm => sset s i (Some (N 0 0 nm [] []))
  | VCopy i j => match sget s j with Some v => sset s i (Some v) | None => s end
  | VAssign i j => match sget s i, sget s j with Some _, Some v => sset s i (Some v) | _, _ => s end
  | VSetText i t => match sget s i with Some _ => sset s i (Some (T t)) | None => s end
  | VName i nm => match sget s i with Some v => sset s i (Some (set_name nm v)) | None => s end
  | VAttr i k v => match sget s i with
                   | Some x => match as_elem x with N l c nm a ct => sset s i (Some (N l c nm (attr_put k v a) ct)) | _ => s end
                   | None => s end
  | VChild i j => match sget s i, sget s j with
                  | Some x, Some y => match as_elem x with N l c nm a ct => sset s i (Some (N l c nm a (ct ++ [y]))) | _ => s end
                  | _, _ => s end
  | VSub i j k => match sget s j with
                  | Some (N _ _ _ _ ct) => match nth_error ct k with Some y => sset s i (Some y) | None => s end
                  | _ => s end
  | VSubMut i k nm => match sget s i with
                      | Some (N l c n0 a ct) => if (k <? length ct)%nat then sset s i (Some (N l c n0 a (upd_nth k (set_name nm) ct))) else s
                      | _ => s end
  | VElCopy i j => match sget s j with
                   | Some (N l c nm a ct) => sset s i (Some (N l c nm a ct))
                   | _ => s end
  | VDel i => sset s i None
  | VSubAssign i k j =>
    (* a content item assigned from another Variant - in particular from an ancestor or a copy of one.  j = i is NOT an
       operation of this alphabet (it is the identity here and the harness does not perform it): the value would have
       to contain a copy of itself as it was before, and the code stores a reference to the block inside the block - a
       cycle (proposed open finding, checks/C16.py level_note) *)
    if (i =? j)%nat then s else
    match sget s i, sget s j with
    | Some (N l c n0 a ct), Some y => if (k <? length ct)%nat then sset s i (Some (N l c n0 a (upd_nth k (fun _ => y) ct))) else s
    | _, _ => s
    end
  end.

(* `Element& e = slot[i].toElement();` without a write: the value becomes an element if it was none; said
   with the existing alphabet, this is renaming the element to the name it has *)
Definition elem_name (n : node) : bytes := match as_elem n with N _ _ nm _ _ => nm | _ => [] end.
Definition touch_op (s : store) (i : nat) : vop :=
  VName i (match sget s i with Some v => elem_name v | None => [] end).

(* the slot an operation writes; every other slot must keep its value *)
Definition target (o : vop) : nat :=
  match o with
  | VNull i | VText i _ | VElem i _ | VCopy i _ | VAssign i _ | VSetText i _ | VName i _
  | VAttr i _ _ | VChild i _ | VSub i _ _ | VSubMut i _ _ | VElCopy i _ | VDel i | VSubAssign i _ _ => i
  end.
