(* C16, layer 1 of the round trip: the entity codec.  unescape (escape v) = v for every NUL-free
   byte string, against the tables regenerated from Xml.cpp on every run (the per-byte fact is a
   vm_compute sweep over 1..255 through the generated tables; the lifting to strings is by
   induction). *)
From Coq Require Import ZArith List Bool Lia.
From Xml Require Import Gen_Xml XmlSpec XmlModel.
Import ListNotations.
Local Open Scope Z_scope.
Local Open Scope bool_scope.

(* ---- find_semi ---------------------------------------------------------------------------- *)

Lemma find_semi_len : forall l sq after, find_semi l = Some (sq, after) -> (length after < length l)%nat.
Proof.
  induction l as [|c r IH]; intros sq after H; cbn [find_semi] in H; [discriminate|].
  destruct (c =? 0); [discriminate|].
  destruct (c =? 59).
  - inversion H; subst. cbn [length]. lia.
  - destruct (find_semi r) as [[a b]|] eqn:E; [|discriminate].
    inversion H; subst. specialize (IH _ _ eq_refl). cbn [length]. lia.
Qed.

Lemma find_semi_app : forall a sq r rest, find_semi a = Some (sq, r) -> find_semi (a ++ rest) = Some (sq, r ++ rest).
Proof.
  induction a as [|c a IH]; intros sq r rest H; cbn [find_semi app] in *; [discriminate|].
  destruct (c =? 0); [discriminate|].
  destruct (c =? 59).
  - inversion H; subst. reflexivity.
  - destruct (find_semi a) as [[x y]|] eqn:E; [|discriminate].
    inversion H; subst. rewrite (IH _ _ rest eq_refl). reflexivity.
Qed.

(* ---- unesc does not depend on the fuel once there is enough of it -------------------------- *)

Lemma unesc_fuel : forall f1 f2 l, (length l <= f1)%nat -> (length l <= f2)%nat -> unesc f1 l = unesc f2 l.
Proof.
  induction f1 as [|f1 IH]; intros f2 l H1 H2.
  - destruct l; [|cbn [length] in H1; lia]. destruct f2; reflexivity.
  - destruct f2 as [|f2].
    + destruct l; [reflexivity|cbn [length] in H2; lia].
    + destruct l as [|c l1]; [reflexivity|]. cbn [length] in H1, H2.
      cbn [unesc].
      destruct (negb (c =? 38)).
      * f_equal. apply IH; lia.
      * destruct (find_semi l1) as [[sq after]|] eqn:E.
        -- pose proof (find_semi_len _ _ _ E) as HL.
           assert (HA : unesc f1 after = unesc f2 after) by (apply IH; lia).
           assert (HB : unesc f1 l1 = unesc f2 l1) by (apply IH; lia).
           rewrite HA, HB. reflexivity.
        -- f_equal. apply IH; lia.
Qed.

(* what the code does with the sequence between '&' and ';' *)
Definition decode_sq (sq : list Z) : option (list Z) :=
  if hd 0 sq =? 35 then option_map utf8 (scan_u sq)
  else option_map (fun ch => [ch]) (lookup_entity sq gen_escapeStrings gen_escapeChars).

Lemma hd_semi : forall sq after, (hd 0 (sq ++ 59 :: after) =? 35) = (hd 0 sq =? 35).
Proof. intros [|x sq] after; reflexivity. Qed.

Lemma find_semi_split : forall l sq after, find_semi l = Some (sq, after) -> l = sq ++ 59 :: after.
Proof.
  induction l as [|c r IH]; intros sq after H; cbn [find_semi] in H; [discriminate|].
  destruct (c =? 0); [discriminate|].
  destruct (c =? 59) eqn:E59.
  - inversion H; subst. apply Z.eqb_eq in E59. subst. reflexivity.
  - destruct (find_semi r) as [[a b]|] eqn:E; [|discriminate].
    inversion H; subst. rewrite (IH _ _ eq_refl). reflexivity.
Qed.

(* unfolding equations of [unescape] *)
Lemma unescape_nil : unescape [] = [].
Proof. reflexivity. Qed.

Lemma unescape_plain : forall c l, c <> 38 -> unescape (c :: l) = c :: unescape l.
Proof.
  intros c l Hc. unfold unescape. cbn [length unesc].
  destruct (c =? 38) eqn:E; [apply Z.eqb_eq in E; contradiction|]. reflexivity.
Qed.

Lemma unescape_amp_none : forall l, find_semi l = None -> unescape (38 :: l) = 38 :: unescape l.
Proof.
  intros l H. unfold unescape. cbn [length unesc]. cbn [Z.eqb Pos.eqb negb]. rewrite H. reflexivity.
Qed.

Lemma unescape_amp_some : forall l sq after, find_semi l = Some (sq, after) ->
  unescape (38 :: l) = match decode_sq sq with Some out => out ++ unescape after | None => 38 :: unescape l end.
Proof.
  intros l sq after H. unfold unescape. cbn [length unesc]. cbn [Z.eqb Pos.eqb negb]. rewrite H.
  pose proof (find_semi_len _ _ _ H) as HL.
  rewrite (unesc_fuel (length l) (length after) after) by lia.
  unfold decode_sq. rewrite (find_semi_split _ _ _ H) at 1. rewrite hd_semi.
  destruct (hd 0 sq =? 35).
  - destruct (scan_u sq); reflexivity.
  - destruct (lookup_entity sq gen_escapeStrings gen_escapeChars); reflexivity.
Qed.

(* ---- the per-byte fact, checked against the generated tables ------------------------------- *)

Definition opt_list_eqb (a : option (list Z)) (b : list Z) : bool :=
  match a with Some x => list_eqb x b | None => false end.

Definition codec_ok (c : Z) : bool :=
  match esc_byte c with
  | [x] => (x =? c) && negb (c =? 38)
  | x :: body => (x =? 38) &&
                 match find_semi body with
                 | Some (sq, []) => opt_list_eqb (decode_sq sq) [c]
                 | _ => false
                 end
  | [] => false
  end.

(* bytes that toString may put between quotes / in front of '<' without ending the token early *)
Definition esc_out_ok (c : Z) : bool :=
  forallb (fun x => negb (x =? 0) && negb (x =? 34) && negb (x =? 60) && negb (x =? 10) && negb (x =? 13) && (1 <=? x) && (x <=? 255))
          (esc_byte c).

Fixpoint zrange (lo : Z) (n : nat) : list Z := match n with O => [] | S n' => lo :: zrange (lo + 1) n' end.

Lemma zrange_in : forall n lo c, lo <= c < lo + Z.of_nat n -> In c (zrange lo n).
Proof.
  induction n as [|n IH]; intros lo c H; [lia|].
  cbn [zrange]. destruct (Z.eq_dec lo c) as [->|Hne]; [left; reflexivity|right].
  apply IH. lia.
Qed.

Lemma codec_sweep : forallb (fun c => codec_ok c && esc_out_ok c) (zrange 1 255) = true.
Proof. vm_compute. reflexivity. Qed.

Lemma value_byte_range : forall c, value_byte c = true -> 1 <= c < 1 + Z.of_nat 255.
Proof. intros c H. unfold value_byte in H. apply andb_prop in H. destruct H as [H1 H2]. lia. Qed.

Lemma codec_ok_all : forall c, value_byte c = true -> codec_ok c = true /\ esc_out_ok c = true.
Proof.
  intros c H. pose proof codec_sweep as S. rewrite forallb_forall in S.
  specialize (S c (zrange_in _ _ _ (value_byte_range _ H))). apply andb_prop in S. exact S.
Qed.

Lemma list_eqb_eq : forall a b, list_eqb a b = true -> a = b.
Proof.
  induction a as [|x a IH]; intros [|y b] H; cbn [list_eqb] in H; try discriminate; [reflexivity|].
  apply andb_prop in H. destruct H as [H1 H2]. apply Z.eqb_eq in H1. subst. f_equal. apply IH. exact H2.
Qed.

Lemma list_eqb_refl : forall a, list_eqb a a = true.
Proof. induction a as [|x a IH]; cbn [list_eqb]; [reflexivity|]. rewrite Z.eqb_refl, IH. reflexivity. Qed.

Lemma unescape_esc_byte : forall c rest, value_byte c = true -> unescape (esc_byte c ++ rest) = c :: unescape rest.
Proof.
  intros c rest Hc. destruct (codec_ok_all c Hc) as [Hok _]. unfold codec_ok in Hok.
  destruct (esc_byte c) as [|x body] eqn:E; [discriminate|].
  destruct body as [|y body'].
  - apply andb_prop in Hok. destruct Hok as [H1 H2]. apply Z.eqb_eq in H1. subst x.
    cbn [app]. apply unescape_plain. intro Heq. subst. discriminate.
  - apply andb_prop in Hok. destruct Hok as [H1 H2]. apply Z.eqb_eq in H1. subst x.
    remember (y :: body') as body.
    destruct (find_semi body) as [[sq after]|] eqn:F; [|discriminate].
    destruct after; [|discriminate].
    cbn [app]. rewrite (unescape_amp_some (body ++ rest) sq ([] ++ rest) (find_semi_app _ _ _ rest F)).
    destruct (decode_sq sq) as [out|]; [|discriminate].
    cbn [opt_list_eqb] in H2. apply list_eqb_eq in H2. subst out. reflexivity.
Qed.

Lemma unescape_escape_app : forall v rest, wf_value v = true -> unescape (escape v ++ rest) = v ++ unescape rest.
Proof.
  induction v as [|c v IH]; intros rest H; [reflexivity|].
  unfold wf_value in H. cbn [forallb] in H. apply andb_prop in H. destruct H as [Hc Hv].
  change (escape (c :: v)) with (esc_byte c ++ escape v). rewrite <- app_assoc. rewrite unescape_esc_byte by exact Hc.
  cbn [app]. f_equal. apply IH. exact Hv.
Qed.

(* the codec theorem *)
Lemma unescape_escape : forall v, wf_value v = true -> unescape (escape v) = v.
Proof.
  intros v H. rewrite <- (app_nil_r (escape v)). rewrite unescape_escape_app by exact H.
  rewrite unescape_nil. apply app_nil_r.
Qed.

(* escape never emits a byte that would end an attribute string or a text node early *)
Definition safe_out (x : Z) : bool :=
  negb (x =? 0) && negb (x =? 34) && negb (x =? 60) && negb (x =? 10) && negb (x =? 13) && (1 <=? x) && (x <=? 255).

Lemma escape_safe : forall v, wf_value v = true -> forallb safe_out (escape v) = true.
Proof.
  induction v as [|c v IH]; intros H; [reflexivity|].
  unfold wf_value in H. cbn [forallb] in H. apply andb_prop in H. destruct H as [Hc Hv].
  change (escape (c :: v)) with (esc_byte c ++ escape v). rewrite forallb_app. rewrite (IH Hv).
  destruct (codec_ok_all c Hc) as [_ Hs]. unfold esc_out_ok in Hs. unfold safe_out. rewrite Hs. reflexivity.
Qed.

(* escape maps non-blank strings to strings whose first non-space byte exists: the escaped form of
   a space byte is the byte itself, and a non-space byte never escapes to something starting with a
   space *)
Definition esc_space_ok (c : Z) : bool :=
  if is_space c then (if (c =? 10) || (c =? 13) then true else list_eqb (esc_byte c) [c])
  else match esc_byte c with x :: _ => negb (is_space x) | [] => false end.

Lemma esc_space_sweep : forallb esc_space_ok (zrange 1 255) = true.
Proof. vm_compute. reflexivity. Qed.

Lemma esc_space_all : forall c, value_byte c = true -> esc_space_ok c = true.
Proof.
  intros c H. pose proof esc_space_sweep as S. rewrite forallb_forall in S.
  exact (S c (zrange_in _ _ _ (value_byte_range _ H))).
Qed.

(* ---- references decode as XML says ---------------------------------------------------------- *)

(* the five predefined entities decode to their characters (against the regenerated tables) *)
Lemma predefined_entities : forall nm c, In (nm, c) std_entities -> unescape (38 :: nm ++ [59]) = [c].
Proof.
  intros nm c H. cbn [std_entities In] in H.
  repeat (destruct H as [H|H]; [inversion H; subst; vm_compute; reflexivity|]). contradiction.
Qed.

(* a decimal character reference &#ddd; (value below 2^32) decodes to the UTF-8 form of its value,
   wherever it stands *)
Lemma digits_val_nonneg : forall ds acc, 0 <= acc -> 0 <= digits_val acc ds.
Proof.
  induction ds as [|d ds IH]; intros acc H; cbn [digits_val]; [exact H|].
  destruct (is_digit d) eqn:E; [|exact H]. apply IH. unfold is_digit in E. apply andb_prop in E. lia.
Qed.

Lemma find_semi_digits : forall ds rest, forallb is_digit ds = true -> find_semi (ds ++ 59 :: rest) = Some (ds, rest).
Proof.
  induction ds as [|d ds IH]; intros rest H; [reflexivity|].
  cbn [forallb] in H. apply andb_prop in H. destruct H as [Hd H]. cbn [app find_semi].
  unfold is_digit in Hd. apply andb_prop in Hd.
  destruct (d =? 0) eqn:E0; [apply Z.eqb_eq in E0; lia|].
  destruct (d =? 59) eqn:E59; [apply Z.eqb_eq in E59; lia|].
  rewrite (IH rest H). reflexivity.
Qed.

Lemma numeric_reference : forall d ds rest, forallb is_digit (d :: ds) = true -> digits_val 0 (d :: ds) < 4294967296 ->
  unescape (38 :: 35 :: (d :: ds) ++ 59 :: rest) = utf8 (digits_val 0 (d :: ds)) ++ unescape rest.
Proof.
  intros d ds rest Hd Hv.
  assert (F : find_semi (35 :: (d :: ds) ++ 59 :: rest) = Some (35 :: d :: ds, rest)).
  { change (35 :: (d :: ds) ++ 59 :: rest) with (35 :: ((d :: ds) ++ 59 :: rest)). cbn [find_semi]. cbn [Z.eqb Pos.eqb].
    rewrite (find_semi_digits (d :: ds) rest Hd). reflexivity. }
  rewrite (unescape_amp_some _ _ _ F). unfold decode_sq. cbn [hd]. cbn [Z.eqb Pos.eqb].
  unfold scan_u. cbn [Z.eqb Pos.eqb].
  pose proof Hd as Hd'. cbn [forallb] in Hd'. apply andb_prop in Hd'. destruct Hd' as [Dd _].
  assert (Sp : is_space d = false).
  { unfold is_digit in Dd. apply andb_prop in Dd. unfold is_space.
    destruct ((9 <=? d) && (d <=? 13)) eqn:E1; [apply andb_prop in E1; lia|].
    destruct (d =? 32) eqn:E2; [apply Z.eqb_eq in E2; lia|reflexivity]. }
  cbn [drop_spaces]. rewrite Sp.
  assert (N45 : (d =? 45) = false) by (apply Z.eqb_neq; unfold is_digit in Dd; apply andb_prop in Dd; lia).
  assert (N43 : (d =? 43) = false) by (apply Z.eqb_neq; unfold is_digit in Dd; apply andb_prop in Dd; lia).
  rewrite N45, N43. rewrite Dd.
  pose proof (digits_val_nonneg (d :: ds) 0 (Z.le_refl 0)) as Nn.
  destruct (18446744073709551616 <=? digits_val 0 (d :: ds)) eqn:Big; [apply Z.leb_le in Big; lia|].
  cbn [option_map]. rewrite Z.mod_small by lia. reflexivity.
Qed.
