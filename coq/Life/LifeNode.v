(* Node containers (List, Map, MultiMap, HashMap, HashSet, PoolList, PoolMap): every function
   of the model runs without a lifetime error on a container whose instances are live,
   exchanges exactly the instances / allocations it says, and has the effect on the abstract
   content that the spec states. *)
From Coq Require Import ZArith List Bool Arith Lia Permutation.
From Life Require Import LifeSpec LifeModel LifeBase LifeLoops LifeArray.
Import ListNotations.

Definition tblk (c : nc) : list blk := match ctable c with Some t => [t] | None => [] end.
Definition nids (c : nc) : list id := csent c ++ items_ids (ckind c) (citems c).
Definition nblks (c : nc) : list blk := cblks c ++ tblk c.
Definition nabs (w : world) (c : nc) : acont := map (abs_node (ckind c) w) (citems c).

(* ---- list facts ---- *)
Lemma map_insert_at {A B} (f : A -> B) i x l : map f (insert_at i x l) = insert_at i (f x) (map f l).
Proof. revert i; induction l as [|h t IH]; intros [|i]; cbn [insert_at map]; auto. f_equal. apply IH. Qed.
Lemma map_remove_at {A B} (f : A -> B) i l : map f (remove_at i l) = remove_at i (map f l).
Proof. revert i; induction l as [|h t IH]; intros [|i]; cbn [remove_at map]; auto. f_equal. apply IH. Qed.
Lemma find_idx_lt z l j : find_idx z l = Some j -> j < length l.
Proof.
  revert j; induction l as [|h t IH]; intros j; cbn [find_idx length]; [discriminate|].
  destruct (Z.eqb h z).
  - intros E. inversion E. lia.
  - destruct (find_idx z t) eqn:F; cbn [option_map]; [|discriminate].
    intros E. inversion E. specialize (IH _ eq_refl). lia.
Qed.
Lemma nth_error_lt {A} (l : list A) j : j < length l -> exists x, nth_error l j = Some x.
Proof. intros L. destruct (nth_error l j) eqn:E; eauto. apply nth_error_None in E. lia. Qed.
Lemma cnt_items_remove k l j n x :
  nth_error l j = Some n ->
  cnt (items_ids k (remove_at j l)) x + cnt (node_ids k n) x = cnt (items_ids k l) x.
Proof.
  unfold items_ids. revert j; induction l as [|h t IH]; intros [|j]; cbn [nth_error remove_at flat_map]; try discriminate.
  - intros E. inversion E. subst. autorewrite with cntdb. lia.
  - intros E. autorewrite with cntdb. specialize (IH _ E). lia.
Qed.
Lemma items_ids_in k l n i : In n l -> In i (node_ids k n) -> In i (items_ids k l).
Proof. intros I J. unfold items_ids. apply in_flat_map. eauto. Qed.

(* ---- abstraction is stable outside the footprint ---- *)
Lemma node_ids_key k n : has_key k = true -> In (nk n) (node_ids k n).
Proof. intros H. unfold node_ids. rewrite H. destruct (has_val k), (key_first k); cbn; auto. Qed.
Lemma node_ids_val k n : has_val k = true -> In (nv n) (node_ids k n).
Proof. intros H. unfold node_ids. rewrite H. destruct (has_key k), (key_first k); cbn; auto. Qed.

Lemma abs_node_keep k w w' n :
  (forall i, In i (node_ids k n) -> val w' i = val w i) -> abs_node k w' n = abs_node k w n.
Proof.
  intros H. unfold abs_node.
  destruct (has_key k) eqn:HK, (has_val k) eqn:HV; f_equal; f_equal;
    try (apply H; apply node_ids_key; auto); try (apply H; apply node_ids_val; auto).
Qed.

Lemma nabs_keep k w w' X X' B B' l :
  trans w w' X X' B B' -> holds w (items_ids k l) -> (forall i, In i (items_ids k l) -> ~ In i X) ->
  map (abs_node k w') l = map (abs_node k w) l.
Proof.
  intros T H D. apply map_ext_in. intros n I. apply abs_node_keep. intros i J.
  assert (K : In i (items_ids k l)) by (eapply items_ids_in; eauto).
  eapply trans_val; [exact T | eapply holds_in; eauto | apply D; auto].
Qed.

Lemma sel_vals k w l : has_key k || has_val k = true ->
  map (val w) (sel_ids k l) = asel k (map (abs_node k w) l).
Proof.
  intros H. unfold sel_ids, asel. rewrite !map_map. apply map_ext. intros n. unfold abs_node. cbn [fst snd].
  destruct (has_key k), (has_val k); cbn [oz]; auto. discriminate.
Qed.
Lemma sel_ids_in k l i : has_key k || has_val k = true -> In i (sel_ids k l) -> In i (items_ids k l).
Proof.
  intros H I. unfold sel_ids in I. apply in_map_iff in I. destruct I as (n & E & I). subst i.
  eapply items_ids_in; [exact I|].
  destruct (has_key k) eqn:HK; [apply node_ids_key; auto | apply node_ids_val; destruct (has_val k); auto; discriminate].
Qed.

(* ---- construction of a container ---- *)
Lemma nc_new_ok k w : wfw w ->
  exists c w', nc_new k w = Ok (c, w') /\ trans w w' [] (nids c) [] (nblks c) /\
               ckind c = k /\ citems c = [] /\ nblks c = [].
Proof.
  intros W. unfold nc_new. destruct (def_list_ok (sent_count k) w W) as (l & w' & E & T & L). run E.
  eexists _, _. split; [reflexivity|]. unfold nids, nblks, tblk. cbn [ckind csent citems cblks ctable items_ids flat_map].
  rewrite app_nil_r. auto.
Qed.

Lemma nc_alloc_item_ok c w : wfw w ->
  exists c' w', nc_alloc_item c w = Ok (c', w') /\ trans w w' [] [] (nblks c) (nblks c') /\
                ckind c' = ckind c /\ csent c' = csent c /\ citems c' = citems c.
Proof.
  intros W. unfold nc_alloc_item. destruct (cfree c).
  - destruct (balloc_ok w W) as [E T]. run E. eexists _, _. split; [reflexivity|].
    unfold nblks, tblk. cbn [ckind csent citems cblks ctable]. split; auto.
    eapply trans_perm; [apply (trans_frame _ _ _ _ _ _ [] (cblks c ++ match ctable c with Some t => [t] | None => [] end) T) | | | |]; msolve.
  - eexists _, _. split; [reflexivity|]. unfold nblks, tblk. cbn [ckind csent citems cblks ctable].
    split; auto. apply trans_refl. auto.
Qed.

Lemma nc_ensure_table_ok c w : wfw w ->
  exists c' w', nc_ensure_table c w = Ok (c', w') /\ trans w w' [] [] (nblks c) (nblks c') /\
                ckind c' = ckind c /\ csent c' = csent c /\ citems c' = citems c.
Proof.
  intros W. unfold nc_ensure_table. destruct (has_table (ckind c)).
  - destruct (ctable c) eqn:Tb.
    + exists c, w. split; [reflexivity|]. split; auto. apply trans_refl. auto.
    + destruct (balloc_ok w W) as [E T]. run E. eexists _, _. split; [reflexivity|].
      unfold nblks, tblk. cbn [ckind csent citems cblks ctable]. rewrite Tb. split; auto.
      eapply trans_perm; [apply (trans_frame _ _ _ _ _ _ [] (cblks c) T) | | | |]; msolve.
  - exists c, w. split; [reflexivity|]. split; auto. apply trans_refl. auto.
Qed.

(* ---- construction of an item ---- *)
Definition vsrc_live (w : world) (v : vsrc) : Prop :=
  match v with VRef i => In i (dom (heap w)) | _ => True end.
Definition vsrc_val (w : world) (v : vsrc) : Z :=
  match v with VRef i => val w i | VInt z => z | VDefault => 0%Z end.

Lemma mk_value_ok v w : wfw w -> vsrc_live w v ->
  exists w', mk_value v w = Ok (nxt w, w') /\ trans w w' [] [nxt w] [] [] /\ val w' (nxt w) = vsrc_val w v.
Proof.
  intros W L. destruct v as [i|z|]; cbn [mk_value vsrc_val vsrc_live] in *.
  - destruct (mk_copy_ok w i W L) as (E & T & V). eauto.
  - destruct (mk_val_ok w z W) as (E & T & V). eauto.
  - destruct (mk_def_ok w W) as (E & T & V). eauto.
Qed.

Lemma build_node_ok k kr v w : wfw w ->
  (has_key k = true -> In kr (dom (heap w))) -> (has_val k = true -> vsrc_live w v) ->
  exists n w', build_node k kr v w = Ok (n, w') /\ trans w w' [] (node_ids k n) [] [] /\
               abs_node k w' n = mk_anode k (val w kr) (vsrc_val w v).
Proof.
  intros W LK LV. unfold build_node, node_ids, abs_node, mk_anode.
  destruct (has_key k) eqn:HK, (has_val k) eqn:HV, (key_first k) eqn:KF.
  (* both fields, key first *)
  - destruct (mk_copy_ok w kr W (LK eq_refl)) as (E1 & T1 & V1). run E1.
    set (w1 := w_mk w (val w kr) (ECopy (nxt w) kr)) in *.
    assert (LV1 : vsrc_live w1 v).
    { destruct v; cbn [vsrc_live]; auto. eapply trans_live; [exact T1 | apply (LV eq_refl) | tauto]. }
    destruct (mk_value_ok v w1 ltac:(twf T1) LV1) as (w2 & E2 & T2 & V2). run E2.
    eexists _, _. split; [reflexivity|]. cbn [nk nv]. split.
    + eapply (trans_seq [] [nxt w] [] [] _ _ _ _ _ _ _ _ _ _ _ _ _ _ _ T1 T2); msolve.
    + f_equal; f_equal.
      * rewrite <- V1. eapply trans_val; [exact T2 | apply mk_live | tauto].
      * rewrite V2. destruct v; cbn [vsrc_val]; auto.
        eapply trans_val; [exact T1 | apply (LV eq_refl) | tauto].
  (* both fields, value first (PoolMap) *)
  - destruct (mk_value_ok v w W (LV eq_refl)) as (w1 & E1 & T1 & V1). run E1.
    assert (LK1 : In kr (dom (heap w1))) by (eapply trans_live; [exact T1 | apply (LK eq_refl) | tauto]).
    destruct (mk_copy_ok w1 kr ltac:(twf T1) LK1) as (E2 & T2 & V2). run E2.
    eexists _, _. split; [reflexivity|]. cbn [nk nv]. split.
    + eapply (trans_seq [] [nxt w] [] [] _ _ _ _ _ _ _ _ _ _ _ _ _ _ _ T1 T2); msolve.
    + f_equal; f_equal.
      * rewrite V2. eapply trans_val; [exact T1 | apply (LK eq_refl) | tauto].
      * rewrite <- V1. eapply trans_val; [exact T2 | | tauto].
        eapply in_new; [exact T1 | apply holds_nil | left; auto].
  (* key only *)
  - destruct (mk_copy_ok w kr W (LK eq_refl)) as (E1 & T1 & V1). run E1.
    eexists _, _. split; [reflexivity|]. cbn [nk nv app]. split; [exact T1|]. rewrite V1. reflexivity.
  - destruct (mk_copy_ok w kr W (LK eq_refl)) as (E1 & T1 & V1). run E1.
    eexists _, _. split; [reflexivity|]. cbn [nk nv app]. split; [exact T1|]. rewrite V1. reflexivity.
  (* value only *)
  - destruct (mk_value_ok v w W (LV eq_refl)) as (w1 & E1 & T1 & V1). run E1.
    eexists _, _. split; [reflexivity|]. cbn [nk nv app]. split; [exact T1|]. rewrite V1. reflexivity.
  - destruct (mk_value_ok v w W (LV eq_refl)) as (w1 & E1 & T1 & V1). run E1.
    eexists _, _. split; [reflexivity|]. cbn [nk nv app]. split; [exact T1|]. rewrite V1. reflexivity.
  (* no field: no such kind, but the code is total *)
  - eexists _, _. split; [reflexivity|]. cbn [nk nv app]. split; [apply trans_refl; auto | reflexivity].
  - eexists _, _. split; [reflexivity|]. cbn [nk nv app]. split; [apply trans_refl; auto | reflexivity].
Qed.

Lemma nblks_set_items c l f : nblks (set_items c l f) = nblks c.
Proof. reflexivity. Qed.
Lemma ckind_set_items c l f : ckind (set_items c l f) = ckind c.
Proof. reflexivity. Qed.

Lemma nids_insert c c2 p n x :
  csent c2 = csent c -> citems c2 = citems c -> ckind c2 = ckind c ->
  cnt (nids (set_items c2 (insert_at p n (citems c2)) (cfree c2))) x = cnt (node_ids (ckind c) n) x + cnt (nids c) x.
Proof.
  intros E1 E2 E3. unfold nids, set_items, items_ids. cbn [csent citems ckind]. rewrite E1, E2, E3.
  autorewrite with cntdb. rewrite cnt_flat_map. lia.
Qed.

Lemma vsrc_keep w w' B B' X' v : trans w w' [] X' B B' -> vsrc_live w v -> vsrc_live w' v /\ vsrc_val w' v = vsrc_val w v.
Proof.
  intros T L. destruct v; cbn [vsrc_live vsrc_val] in *; auto.
  split; [eapply trans_live | eapply trans_val]; eauto.
Qed.

Lemma mk_anode_ext k a b a' b' :
  (has_key k = true -> a = a') -> (has_val k = true -> b = b') -> mk_anode k a b = mk_anode k a' b'.
Proof.
  intros H1 H2. unfold mk_anode. destruct (has_key k), (has_val k); f_equal; f_equal; auto.
Qed.

Lemma nc_fresh_ok c p kr v w : wfw w -> holds w (nids c) -> holdsb w (nblks c) ->
  (has_key (ckind c) = true -> In kr (dom (heap w))) -> (has_val (ckind c) = true -> vsrc_live w v) ->
  exists c' w', nc_fresh c p kr v w = Ok (c', w') /\
     trans w w' (nids c) (nids c') (nblks c) (nblks c') /\ ckind c' = ckind c /\
     nabs w' c' = insert_at p (mk_anode (ckind c) (val w kr) (vsrc_val w v)) (nabs w c).
Proof.
  intros W H Hb LK LV. unfold nc_fresh.
  destruct (nc_ensure_table_ok c w W) as (c1 & w1 & E1 & T1 & K1 & S1 & I1). run E1.
  destruct (nc_alloc_item_ok c1 w1 ltac:(twf T1)) as (c2 & w2 & E2 & T2 & K2 & S2 & I2). run E2.
  assert (T12 : trans w w2 [] [] (nblks c) (nblks c2)).
  { eapply (trans_seq [] [] [] [] _ _ _ _ _ _ _ _ _ _ _ _ _ _ _ T1 T2); msolve. }
  destruct (build_node_ok (ckind c) kr v w2 ltac:(twf T2)) as (n & w3 & E3 & T3 & A3).
  { intros Q. eapply trans_live; [exact T12 | auto | tauto]. }
  { intros Q. eapply vsrc_keep; [exact T12 | auto]. }
  run E3. eexists _, _. split; [reflexivity|].
  assert (T13 : trans w w3 [] (node_ids (ckind c) n) (nblks c) (nblks c2)).
  { eapply (trans_seq [] [] [] (nblks c2) _ _ _ _ _ _ _ _ _ _ _ _ _ _ _ T12 T3); msolve. }
  assert (K12 : ckind c2 = ckind c) by congruence.
  assert (S12 : csent c2 = csent c) by congruence.
  assert (I12 : citems c2 = citems c) by congruence.
  split; [|split].
  - eapply trans_perm; [apply (trans_frame _ _ _ _ _ _ (nids c) [] T13) | | | |]; rewrite ?nblks_set_items; try msolve.
    intro x. rewrite (nids_insert c c2 p n x S12 I12 K12). autorewrite with cntdb. lia.
  - cbn [set_items ckind]. exact K12.
  - unfold nabs. cbn [set_items ckind citems]. rewrite K12, I12, map_insert_at. f_equal.
    + rewrite A3. apply mk_anode_ext.
      * intros Q. eapply trans_val; [exact T12 | auto | tauto].
      * intros Q. eapply vsrc_keep; [exact T12 | auto].
    + eapply nabs_keep; [exact T13 | | tauto]. unfold nids in H. eapply holds_app_r; eauto.
Qed.

(* ---- overwriting the mapped value of item j ---- *)
Lemma nodup_app_disj (a b : list nat) i : NoDup (a ++ b) -> In i a -> In i b -> False.
Proof.
  intros ND I J. rewrite nodup_cnt in ND. specialize (ND i). apply in_cnt in I. apply in_cnt in J.
  autorewrite with cntdb in ND. lia.
Qed.

Lemma nodup_app_l (a b : list nat) : NoDup (a ++ b) -> NoDup a.
Proof. intros ND. msolve. Qed.
Lemma nodup_app_r (a b : list nat) : NoDup (a ++ b) -> NoDup b.
Proof. intros ND. msolve. Qed.

Lemma abs_assign k w w' l : forall j n z,
  has_key k = true -> has_val k = true -> NoDup (items_ids k l) -> nth_error l j = Some n ->
  (forall i, i <> nv n -> val w' i = val w i) -> val w' (nv n) = z ->
  map (abs_node k w') l = set_at j (set_aval z (abs_node k w n)) (map (abs_node k w) l).
Proof.
  induction l as [|m t IH]; intros j n z HK HV ND N Vo Vn; [destruct j; discriminate|].
  unfold items_ids in ND. cbn [flat_map] in ND. fold (items_ids k t) in ND.
  destruct j as [|j]; cbn [nth_error] in N; cbn [map set_at].
  - inversion N. subst m. f_equal.
    + unfold abs_node, set_aval. rewrite HK, HV. cbn [fst]. f_equal; [|f_equal; exact Vn].
      f_equal. apply Vo. intro Q.
      apply nodup_app_l in ND. unfold node_ids in ND. rewrite HK, HV in ND.
      destruct (key_first k); cbn [app] in ND; inversion ND as [|? ? NI ?]; apply NI; left; auto.
    + apply map_ext_in. intros m I. apply abs_node_keep. intros i J. apply Vo. intro Q. subst i.
      eapply nodup_app_disj; [exact ND | apply node_ids_val; auto | eapply items_ids_in; eauto].
  - f_equal.
    + apply abs_node_keep. intros i J. apply Vo. intro Q. subst i.
      eapply nodup_app_disj; [exact ND | exact J |].
      eapply items_ids_in; [eapply nth_error_In; eauto | apply node_ids_val; auto].
    + apply IH; auto. eapply nodup_app_r; eauto.
Qed.

Lemma trans_same_widen w w' X Y B C :
  trans w w' X X B B -> (forall i, In i X -> In i Y) -> trans w w' Y Y C C.
Proof.
  intros [W I Bq V N NB] S. constructor; auto; try msolve.
Qed.

Lemma dup_assign_fields k : dup_assign k = true -> has_key k = true /\ has_val k = true /\ unique k = true.
Proof. destruct k; cbn; intros; try discriminate; auto. Qed.

Lemma holds_nids_items w c : holds w (nids c) -> holds w (items_ids (ckind c) (citems c)).
Proof. unfold nids. apply holds_app_r. Qed.

Lemma nc_insert_ok c p kr v w : wfw w -> holds w (nids c) -> holdsb w (nblks c) ->
  (has_key (ckind c) = true -> In kr (dom (heap w))) -> (has_val (ckind c) = true -> vsrc_live w v) ->
  (dup_assign (ckind c) = true -> exists s, v = VRef s) ->
  exists c' w', nc_insert c p kr v w = Ok (c', w') /\
     trans w w' (nids c) (nids c') (nblks c) (nblks c') /\ ckind c' = ckind c /\
     nabs w' c' = spec_ins (ckind c) (nabs w c) p (val w kr) (vsrc_val w v).
Proof.
  intros W H Hb LK LV DV. unfold nc_insert, spec_ins. set (k := ckind c) in *.
  assert (Len : length (nabs w c) = length (citems c)) by (unfold nabs; apply map_length).
  destruct (has_key k) eqn:HK.
  - pose proof (holds_nids_items _ _ H) as Hi. fold k in Hi.
    run (rd_ok w kr (LK eq_refl)).
    assert (Lsel : forall i, In i (sel_ids k (citems c)) -> In i (dom (heap w))).
    { intros i I. eapply holds_in; [exact Hi|]. apply sel_ids_in; auto. rewrite HK. reflexivity. }
    run (rd_list_ok w _ Lsel).
    assert (Ek : map (val w) (sel_ids k (citems c)) = asel k (nabs w c)).
    { unfold nabs. fold k. apply sel_vals. rewrite HK. reflexivity. }
    rewrite Ek.
    destruct (if unique k then find_idx (val w kr) (asel k (nabs w c)) else None) as [j|] eqn:F.
    + destruct (dup_assign k) eqn:DA.
      * destruct (dup_assign_fields k DA) as (_ & HV & UQ). rewrite UQ in F.
        destruct (DV eq_refl) as (s & ->). cbn [vsrc_val vsrc_live] in *.
        destruct (nth_error (citems c) j) as [n|] eqn:N.
        -- unfold nabs at 2. fold k. rewrite (map_nth_error _ _ _ N).
           assert (Id : In (nv n) (dom (heap w))).
           { eapply holds_in; [exact Hi|]. eapply items_ids_in; [eapply nth_error_In; eauto | apply node_ids_val; auto]. }
           destruct (assign_ok w (nv n) s W Id (LV HV)) as (E & T & V). run E.
           eexists _, _. split; [reflexivity|]. split; [|split; [reflexivity|]].
           ++ eapply trans_same_widen; [exact T|]. intros i [<-|[]]. unfold nids. apply in_or_app. right.
              eapply items_ids_in; [eapply nth_error_In; eauto | apply node_ids_val; auto].
           ++ unfold nabs. fold k. eapply abs_assign; eauto.
              ** eapply holds_nodup; eauto.
              ** intros i Q. apply (t_val _ _ _ _ _ _ T); intros [R|[]]; congruence.
        -- unfold nabs at 2. fold k.
           assert (N' : nth_error (map (abs_node k w) (citems c)) j = None).
           { apply nth_error_None. rewrite map_length. apply nth_error_None. auto. }
           rewrite N'. exists c, w. split; [reflexivity|]. split; [apply trans_refl; auto|]. auto.
      * exists c, w. split; [reflexivity|]. split; [apply trans_refl; auto|]. auto.
    + rewrite Len. apply nc_fresh_ok; auto.
  - rewrite Len. apply nc_fresh_ok; auto. fold k. rewrite HK. discriminate.
Qed.

(* ---- removal ---- *)
Lemma holds_node w k l n : holds w (items_ids k l) -> In n l -> holds w (node_ids k n).
Proof.
  intros H I. eapply holds_sub; [exact H|]. intro x.
  destruct (In_nth_error _ _ I) as (j & N). pose proof (cnt_items_remove k l j n x N). lia.
Qed.

Lemma nc_remove_at_ok c j w : wfw w -> holds w (nids c) -> j < length (citems c) ->
  exists c' w', nc_remove_at c j w = Ok (c', w') /\
     trans w w' (nids c) (nids c') (nblks c) (nblks c') /\ ckind c' = ckind c /\
     nabs w' c' = remove_at j (nabs w c) /\ citems c' = remove_at j (citems c).
Proof.
  intros W H L. unfold nc_remove_at. destruct (nth_error_lt _ _ L) as (n & N). rewrite N.
  pose proof (holds_nids_items _ _ H) as Hi.
  assert (Hn : holds w (rev (node_ids (ckind c) n))).
  { eapply holds_sub; [eapply holds_node; [exact Hi | eapply nth_error_In; eauto]|]. msolve. }
  destruct (destroy_list_ok _ w W Hn) as (w' & E & T). run E.
  eexists _, _. split; [reflexivity|]. rewrite nblks_set_items, ckind_set_items.
  assert (Q : meq (nids c) (rev (node_ids (ckind c) n) ++ nids (set_items c (remove_at j (citems c)) (S (cfree c))))).
  { intro x. unfold nids, set_items. cbn [csent citems ckind]. autorewrite with cntdb.
    pose proof (cnt_items_remove (ckind c) _ _ _ x N). lia. }
  split; [|split; [reflexivity|split; [|reflexivity]]].
  - eapply trans_perm; [apply (trans_frame _ _ _ _ _ _ (nids (set_items c (remove_at j (citems c)) (S (cfree c)))) (nblks c) T) | | | |]; msolve.
  - unfold nabs. cbn [set_items ckind citems]. rewrite <- map_remove_at.
    assert (Sub : mle (items_ids (ckind c) (remove_at j (citems c))) (items_ids (ckind c) (citems c))).
    { intro x. pose proof (cnt_items_remove (ckind c) _ _ _ x N). lia. }
    assert (Hrem : holds w (items_ids (ckind c) (remove_at j (citems c)))) by (eapply holds_sub; [exact Hi | exact Sub]).
    eapply nabs_keep; [exact T | exact Hrem |].
    intros i I J. apply in_rev in J.
    pose proof (holds_nodup _ _ W Hi) as ND. rewrite nodup_cnt in ND. specialize (ND i).
    pose proof (cnt_items_remove (ckind c) _ _ _ i N). apply in_cnt in I. apply in_cnt in J. lia.
Qed.

Lemma nc_remove_key_ok c kr w : wfw w -> holds w (nids c) ->
  has_key (ckind c) || has_val (ckind c) = true -> In kr (dom (heap w)) ->
  exists c' w', nc_remove_key c kr w = Ok (c', w') /\
     trans w w' (nids c) (nids c') (nblks c) (nblks c') /\ ckind c' = ckind c /\
     nabs w' c' = spec_remkey (ckind c) (nabs w c) (val w kr).
Proof.
  intros W H KV I. unfold nc_remove_key, spec_remkey.
  pose proof (holds_nids_items _ _ H) as Hi.
  run (rd_ok w kr I).
  assert (Lsel : forall i, In i (sel_ids (ckind c) (citems c)) -> In i (dom (heap w))).
  { intros i J. eapply holds_in; [exact Hi|]. apply sel_ids_in; auto. }
  run (rd_list_ok w _ Lsel).
  assert (Ek : map (val w) (sel_ids (ckind c) (citems c)) = asel (ckind c) (nabs w c)).
  { unfold nabs. apply sel_vals. auto. }
  rewrite Ek. destruct (find_idx (val w kr) (asel (ckind c) (nabs w c))) as [j|] eqn:F.
  - destruct (nc_remove_at_ok c j w W H) as (c' & w' & E & T & K & A & _).
    { apply find_idx_lt in F. unfold asel, nabs in F. rewrite !map_length in F. exact F. }
    exists c', w'. auto.
  - exists c, w. split; [reflexivity|]. split; [apply trans_refl; auto|]. auto.
Qed.

Lemma destroy_nodes_ok k l : forall w, wfw w -> holds w (items_ids k l) ->
  exists w', destroy_nodes k l w = Ok (tt, w') /\ trans w w' (items_ids k l) [] [] [].
Proof.
  induction l as [|n r IH]; intros w W H; cbn [destroy_nodes].
  - exists w. split; [reflexivity|]. apply trans_refl. auto.
  - unfold items_ids in *. cbn [flat_map] in *.
    assert (Hn : holds w (rev (node_ids k n))).
    { eapply holds_sub; [exact H|]. msolve. }
    destruct (destroy_list_ok _ w W Hn) as (w1 & E1 & T1). run E1.
    assert (Hr : holds w1 (flat_map (node_ids k) r)).
    { eapply (holds_keep _ _ _ _ _ _ _ T1). eapply holds_sub; [exact H|]. msolve. }
    destruct (IH w1 ltac:(twf T1) Hr) as (w' & E' & T').
    exists w'. split; [exact E'|].
    eapply (trans_seq (flat_map (node_ids k) r) [] [] [] _ _ _ _ _ _ _ _ _ _ _ _ _ _ _ T1 T'); msolve.
Qed.

Lemma nc_clear_ok c w : wfw w -> holds w (nids c) ->
  exists c' w', nc_clear c w = Ok (c', w') /\
     trans w w' (nids c) (nids c') (nblks c) (nblks c') /\ ckind c' = ckind c /\ citems c' = [].
Proof.
  intros W H. unfold nc_clear.
  destruct (destroy_nodes_ok _ _ w W (holds_nids_items _ _ H)) as (w' & E & T). run E.
  eexists _, _. split; [reflexivity|]. rewrite nblks_set_items, ckind_set_items.
  split; [|split; reflexivity].
  unfold nids at 2. cbn [set_items csent citems ckind items_ids flat_map].
  eapply trans_perm; [apply (trans_frame _ _ _ _ _ _ (csent c) (nblks c) T) | | | |]; unfold nids; msolve.
Qed.

Lemma nc_dtor_ok c w : wfw w -> holds w (nids c) -> holdsb w (nblks c) ->
  exists w', nc_dtor c w = Ok (tt, w') /\ trans w w' (nids c) [] (nblks c) [].
Proof.
  intros W H Hb. unfold nc_dtor.
  assert (S0 : exists w0, (match ctable c with Some t => bfree t | None => ret tt end) w = Ok (tt, w0) /\
                          trans w w0 [] [] (tblk c) []).
  { unfold tblk. destruct (ctable c) as [t|] eqn:Tb.
    - assert (It : In t (blks w)).
      { eapply holdsb_in; [exact Hb|]. unfold nblks, tblk. rewrite Tb. apply in_or_app. right. left. auto. }
      destruct (bfree_ok w t W It) as [E T]. eauto.
    - exists w. split; [reflexivity|]. apply trans_refl. auto. }
  destruct S0 as (w0 & E0 & T0). run E0.
  assert (H0 : holds w0 (nids c)) by (eapply holds_frame0; eauto).
  destruct (destroy_nodes_ok _ _ w0 ltac:(twf T0) (holds_nids_items _ _ H0)) as (w1 & E1 & T1). run E1.
  assert (T01 : trans w w1 (nids c) (csent c) (nblks c) (cblks c)).
  { eapply (trans_seq (nids c) (csent c) (cblks c) (cblks c) _ _ _ _ _ _ _ _ _ _ _ _ _ _ _ T0 T1); unfold nids, nblks; msolve. }
  assert (Hb1 : holdsb w1 (cblks c)) by (eapply trans_holdsb; eauto).
  destruct (bfree_list_ok _ w1 ltac:(twf T1) Hb1) as (w2 & E2 & T2). run E2.
  assert (T02 : trans w w2 (nids c) (csent c) (nblks c) []).
  { eapply (trans_seq [] (csent c) [] [] _ _ _ _ _ _ _ _ _ _ _ _ _ _ _ T01 T2); msolve. }
  assert (Hs : holds w2 (rev (csent c))).
  { eapply holds_sub; [eapply trans_holds; [exact T02 | exact H]|]. msolve. }
  destruct (destroy_list_ok _ w2 ltac:(twf T2) Hs) as (w3 & E3 & T3).
  exists w3. split; [exact E3|].
  eapply (trans_seq [] [] [] [] _ _ _ _ _ _ _ _ _ _ _ _ _ _ _ T02 T3); msolve.
Qed.

(* ---- inserting the items of another container ---- *)
Lemma spec_ins_ext k l p kz vz kz' vz' :
  (has_key k = true -> kz = kz') -> (has_val k = true -> vz = vz') ->
  spec_ins k l p kz vz = spec_ins k l p kz' vz'.
Proof.
  intros HK HV. unfold spec_ins. destruct (has_key k) eqn:K.
  - rewrite <- (HK eq_refl).
    destruct (if unique k then find_idx kz (asel k l) else None).
    + destruct (dup_assign k) eqn:DA; auto.
      destruct (dup_assign_fields k DA) as (_ & V & _). rewrite (HV V). reflexivity.
    + f_equal. apply mk_anode_ext; auto.
  - f_equal. apply mk_anode_ext; auto. intros Q. congruence.
Qed.

Lemma abs_node_oz k w n :
  (has_key k = true -> oz (fst (abs_node k w n)) = val w (nk n)) /\
  (has_val k = true -> oz (snd (abs_node k w n)) = val w (nv n)).
Proof. unfold abs_node. split; intros ->; reflexivity. Qed.

Lemma nc_insert_all_ok src : forall c p w,
  wfw w -> holds w (nids c ++ items_ids (ckind c) src) -> holdsb w (nblks c) ->
  exists c' w', nc_insert_all c p src w = Ok (c', w') /\
     trans w w' (nids c) (nids c') (nblks c) (nblks c') /\ ckind c' = ckind c /\
     nabs w' c' = spec_ins_all (ckind c) (nabs w c) p (map (abs_node (ckind c) w) src).
Proof.
  induction src as [|n r IH]; intros c p w W H Hb; cbn [nc_insert_all map spec_ins_all].
  - exists c, w. split; [reflexivity|]. split; [apply trans_refl; auto|]. auto.
  - set (k := ckind c) in *.
    pose proof (holds_app_l _ _ _ H) as Hc. pose proof (holds_app_r _ _ _ H) as Hs.
    unfold items_ids in Hs. cbn [flat_map] in Hs. fold (items_ids k r) in Hs.
    destruct (nc_insert_ok c p (nk n) (VRef (nv n)) w W Hc Hb) as (c1 & w1 & E1 & T1 & K1 & A1).
    { intros Q. eapply holds_in; [exact Hs|]. apply in_or_app. left. apply node_ids_key. auto. }
    { intros Q. cbn [vsrc_live]. eapply holds_in; [exact Hs|]. apply in_or_app. left. apply node_ids_val. auto. }
    { intros _. eauto. }
    run E1.
    assert (H1 : holds w1 (nids c1 ++ items_ids (ckind c1) r)).
    { rewrite K1. fold k. eapply holds_sub; [apply (trans_holds_frame _ _ _ _ _ _ (node_ids k n ++ items_ids k r) T1 H)|]. msolve. }
    destruct (IH c1 (pos_next p) w1 ltac:(twf T1) H1 (trans_holdsb _ _ _ _ _ _ T1 Hb)) as (c' & w' & E' & T' & K' & A').
    exists c', w'. split; [exact E'|]. split; [|split; [unfold k; congruence|]].
    + eapply trans_trans; eauto.
    + rewrite A', K1, A1. fold k. cbn [vsrc_val].
      destruct (abs_node_oz k w n) as [OK OV].
      rewrite (spec_ins_ext k (nabs w c) p (val w (nk n)) (val w (nv n)) (oz (fst (abs_node k w n))) (oz (snd (abs_node k w n))));
        [|intros Q; symmetry; auto|intros Q; symmetry; auto].
      f_equal. eapply nabs_keep; [exact T1 | eapply holds_sub; [exact Hs | msolve] |].
      intros i I J. eapply (holds_disjoint _ _ _ _ W H); [|exact J].
      unfold items_ids. cbn [flat_map]. apply in_or_app. right. exact I.
Qed.

Lemma nc_copy_new_ok o w : wfw w -> holds w (nids o) ->
  exists c' w', nc_copy_new o w = Ok (c', w') /\
     trans w w' [] (nids c') [] (nblks c') /\ ckind c' = ckind o /\
     nabs w' c' = spec_ins_all (ckind o) [] PBack (nabs w o).
Proof.
  intros W H. unfold nc_copy_new.
  destruct (nc_new_ok (ckind o) w W) as (c0 & w0 & E0 & T0 & K0 & I0 & B0). run E0.
  assert (H0 : holds w0 (nids c0 ++ items_ids (ckind c0) (citems o))).
  { rewrite K0. eapply holds_sub; [apply (trans_holds_frame _ _ _ _ _ _ (nids o) T0 H)|]. unfold nids. msolve. }
  assert (Hb0 : holdsb w0 (nblks c0)) by (rewrite B0; apply holdsb_nil).
  destruct (nc_insert_all_ok (citems o) c0 PBack w0 ltac:(twf T0) H0 Hb0) as (c' & w' & E' & T' & K' & A').
  exists c', w'. split; [exact E'|]. split; [|split; [congruence|]].
  - eapply trans_trans; eauto.
  - rewrite A', K0. unfold nabs at 1. rewrite I0. cbn [map]. f_equal. unfold nabs.
    eapply nabs_keep; [exact T0 | apply (holds_nids_items _ _ H) | tauto].
Qed.

Lemma nc_assign_ok c o w : wfw w -> holds w (nids c ++ nids o) -> holdsb w (nblks c) -> ckind o = ckind c ->
  exists c' w', nc_assign c o w = Ok (c', w') /\
     trans w w' (nids c) (nids c') (nblks c) (nblks c') /\ ckind c' = ckind c /\
     nabs w' c' = spec_ins_all (ckind c) [] PBack (nabs w o).
Proof.
  intros W H Hb KO. unfold nc_assign.
  pose proof (holds_app_l _ _ _ H) as Hc.
  destruct (nc_clear_ok c w W Hc) as (c1 & w1 & E1 & T1 & K1 & I1). run E1.
  assert (H1 : holds w1 (nids c1 ++ items_ids (ckind c1) (citems o))).
  { rewrite K1, <- KO. eapply holds_sub; [apply (trans_holds_frame _ _ _ _ _ _ (nids o) T1 H)|]. unfold nids. msolve. }
  destruct (nc_insert_all_ok (citems o) c1 PBack w1 ltac:(twf T1) H1 (trans_holdsb _ _ _ _ _ _ T1 Hb)) as (c' & w' & E' & T' & K' & A').
  exists c', w'. split; [exact E'|]. split; [|split; [congruence|]].
  - eapply trans_trans; eauto.
  - rewrite A', K1. unfold nabs at 1. rewrite I1. cbn [map]. f_equal. unfold nabs. rewrite KO.
    eapply nabs_keep; [exact T1 | | ].
    + rewrite <- KO. apply holds_nids_items. eapply holds_app_r; eauto.
    + intros i I J. eapply (holds_disjoint _ _ _ _ W H); [|exact J].
      unfold nids. apply in_or_app. right. rewrite KO. exact I.
Qed.

(* ---- the argument is the container itself ---- *)
Lemma find_idx_nodup l : forall j z, NoDup l -> nth_error l j = Some z -> find_idx z l = Some j.
Proof.
  induction l as [|h t IH]; intros [|j] z ND N; cbn [nth_error] in N; try discriminate; cbn [find_idx].
  - inversion N. subst. rewrite Z.eqb_refl. reflexivity.
  - inversion ND as [|? ? NI ND']; subst.
    destruct (Z.eqb_spec h z) as [->|Q].
    + exfalso. apply NI. eapply nth_error_In; eauto.
    + rewrite (IH j z ND' N). reflexivity.
Qed.

Lemma unique_has_key k : unique k = true -> has_key k = true.
Proof. destruct k; cbn; auto. Qed.

Lemma nabs_val_ext w w' c : (forall i, val w' i = val w i) -> nabs w' c = nabs w c.
Proof. intros V. unfold nabs. apply map_ext. intros n. apply abs_node_keep. auto. Qed.

Lemma nc_insert_found c p n j w : wfw w -> holds w (nids c) -> unique (ckind c) = true ->
  NoDup (asel (ckind c) (nabs w c)) -> nth_error (citems c) j = Some n ->
  exists w', nc_insert c p (nk n) (VRef (nv n)) w = Ok (c, w') /\
             trans w w' (nids c) (nids c) (nblks c) (nblks c) /\ (forall i, val w' i = val w i).
Proof.
  intros W H UQ ND N. unfold nc_insert. set (k := ckind c) in *.
  pose proof (unique_has_key k UQ) as HK. rewrite HK, UQ.
  pose proof (holds_nids_items _ _ H) as Hi. fold k in Hi.
  assert (In_n : In n (citems c)) by (eapply nth_error_In; eauto).
  assert (Ik : In (nk n) (dom (heap w))).
  { eapply holds_in; [exact Hi|]. eapply items_ids_in; [exact In_n | apply node_ids_key; auto]. }
  run (rd_ok w (nk n) Ik).
  assert (Lsel : forall i, In i (sel_ids k (citems c)) -> In i (dom (heap w))).
  { intros i I. eapply holds_in; [exact Hi|]. apply sel_ids_in; auto. rewrite HK. reflexivity. }
  run (rd_list_ok w _ Lsel).
  assert (Ek : map (val w) (sel_ids k (citems c)) = asel k (nabs w c)).
  { unfold nabs. fold k. apply sel_vals. rewrite HK. reflexivity. }
  rewrite Ek.
  assert (Nk : nth_error (asel k (nabs w c)) j = Some (val w (nk n))).
  { rewrite <- Ek. unfold sel_ids. rewrite map_map. rewrite (map_nth_error _ _ _ N). rewrite HK. reflexivity. }
  rewrite (find_idx_nodup _ _ _ ND Nk).
  destruct (dup_assign k) eqn:DA.
  - rewrite N. destruct (dup_assign_fields k DA) as (_ & HV & _).
    assert (Iv : In (nv n) (dom (heap w))).
    { eapply holds_in; [exact Hi|]. eapply items_ids_in; [exact In_n | apply node_ids_val; auto]. }
    destruct (assign_ok w (nv n) (nv n) W Iv Iv) as (E & T & V). run E.
    eexists. split; [reflexivity|]. split.
    + eapply trans_same_widen; [exact T|]. intros i [<-|[]]. unfold nids. apply in_or_app. right.
      eapply items_ids_in; [exact In_n | apply node_ids_val; auto].
    + intros i. destruct (Nat.eq_dec i (nv n)) as [->|Q]; [exact V|].
      apply (t_val _ _ _ _ _ _ T); intros [R|[]]; congruence.
  - exists w. split; [reflexivity|]. split; [apply trans_refl; auto | auto].
Qed.

Lemma nc_insert_all_self src : forall c p w, wfw w -> holds w (nids c) -> unique (ckind c) = true ->
  NoDup (asel (ckind c) (nabs w c)) -> (forall n, In n src -> In n (citems c)) ->
  exists w', nc_insert_all c p src w = Ok (c, w') /\
             trans w w' (nids c) (nids c) (nblks c) (nblks c) /\ (forall i, val w' i = val w i).
Proof.
  induction src as [|n r IH]; intros c p w W H UQ ND S; cbn [nc_insert_all].
  - exists w. split; [reflexivity|]. split; [apply trans_refl; auto | auto].
  - destruct (In_nth_error _ _ (S n (or_introl eq_refl))) as (j & N).
    destruct (nc_insert_found c p n j w W H UQ ND N) as (w1 & E1 & T1 & V1). run E1.
    destruct (IH c (pos_next p) w1 ltac:(twf T1) (trans_holds _ _ _ _ _ _ T1 H) UQ) as (w' & E' & T' & V').
    { rewrite (nabs_val_ext w w1 c V1). exact ND. }
    { intros m I. apply S. right. exact I. }
    exists w'. split; [exact E'|]. split; [eapply trans_trans; eauto|].
    intros i. rewrite V', V1. reflexivity.
Qed.

Lemma holdsb_sub w A B : holdsb w B -> mle A B -> holdsb w A.
Proof. unfold holdsb. intros H1 H2. msolve. Qed.

(* List::insert(pos, itself): copy, insert the copy's items, destroy the copy *)
Lemma nc_add_all_self_list c p w : wfw w -> holds w (nids c) -> holdsb w (nblks c) -> ckind c = KList ->
  exists c' w', nc_add_all c p None w = Ok (c', w') /\
     trans w w' (nids c) (nids c') (nblks c) (nblks c') /\ ckind c' = ckind c /\
     nabs w' c' = match nabs w c with
                  | [] => []
                  | _ => spec_ins_all KList (nabs w c) p (spec_ins_all KList [] PBack (nabs w c))
                  end.
Proof.
  intros W H Hb KL. unfold nc_add_all. rewrite KL.
  destruct (citems c) as [|n0 r0] eqn:EI.
  - exists c, w. split; [reflexivity|]. split; [apply trans_refl; auto|]. split; auto.
    unfold nabs. rewrite EI. reflexivity.
  - assert (NE : nabs w c <> []) by (unfold nabs; rewrite EI; discriminate).
    assert (M : forall (Y : acont), match nabs w c with [] => [] | _ :: _ => Y end = Y).
    { intros Y. destruct (nabs w c); [congruence | reflexivity]. }
    destruct (nc_copy_new_ok c w W H) as (t & w1 & E1 & T1 & K1 & A1). run E1.
    assert (H1 : holds w1 (nids c ++ items_ids (ckind c) (citems t))).
    { rewrite <- K1. eapply holds_sub; [apply (trans_holds_frame _ _ _ _ _ _ (nids c) T1 H)|]. unfold nids. msolve. }
    assert (Hb1 : holdsb w1 (nblks c)).
    { eapply holdsb_sub with (B := nblks t ++ nblks c); [apply (trans_holdsb_frame _ _ _ _ _ _ (nblks c) T1 Hb) | msolve]. }
    destruct (nc_insert_all_ok (citems t) c p w1 ltac:(twf T1) H1 Hb1) as (c1 & w2 & E2 & T2 & K2 & A2). run E2.
    assert (Ht2 : holds w2 (nids t)).
    { eapply (holds_keep _ _ _ _ _ _ (nids t) T2). eapply holds_sub; [apply (trans_holds_frame _ _ _ _ _ _ (nids c) T1 H) | msolve]. }
    assert (Hbt2 : holdsb w2 (nblks t)).
    { eapply holdsb_sub with (B := nblks c1 ++ nblks t); [|msolve].
      apply (trans_holdsb_frame _ _ _ _ _ _ (nblks t) T2).
      eapply holdsb_sub; [apply (trans_holdsb_frame _ _ _ _ _ _ (nblks c) T1 Hb) | msolve]. }
    destruct (nc_dtor_ok t w2 ltac:(twf T2) Ht2 Hbt2) as (w3 & E3 & T3). run E3.
    exists c1, w3. split; [reflexivity|].
    assert (T12 : trans w w2 (nids c) (nids c1 ++ nids t) (nblks c) (nblks c1 ++ nblks t)).
    { eapply (trans_seq (nids c) (nids t) (nblks c) (nblks t) _ _ _ _ _ _ _ _ _ _ _ _ _ _ _ T1 T2); msolve. }
    split; [|split; [congruence|]].
    + eapply (trans_seq [] (nids c1) [] (nblks c1) _ _ _ _ _ _ _ _ _ _ _ _ _ _ _ T12 T3); msolve.
    + rewrite M.
      assert (A3 : nabs w3 c1 = nabs w2 c1).
      { unfold nabs. eapply nabs_keep; [exact T3 | | ].
        - apply holds_nids_items. eapply holds_app_l. eapply trans_holds; [exact T12 | exact H].
        - intros i I J.
          pose proof (holds_nodup _ _ ltac:(twf T2) (trans_holds _ _ _ _ _ _ T12 H)) as ND.
          eapply nodup_app_disj; [exact ND | | exact J]. unfold nids. apply in_or_app. right. exact I. }
      rewrite A3, A2, KL. f_equal.
      * unfold nabs. rewrite KL. eapply nabs_keep; [exact T1 | | tauto].
        rewrite <- KL. apply holds_nids_items. exact H.
      * transitivity (nabs w1 t); [unfold nabs; rewrite K1, KL; reflexivity | rewrite A1, KL; reflexivity].
Qed.

(* Map::insert(itself), HashSet::append(itself): every key is found *)
Lemma nc_add_all_self_unique c p w : wfw w -> holds w (nids c) -> unique (ckind c) = true ->
  ckind c <> KList -> NoDup (asel (ckind c) (nabs w c)) ->
  exists w', nc_add_all c p None w = Ok (c, w') /\
     trans w w' (nids c) (nids c) (nblks c) (nblks c) /\ nabs w' c = nabs w c.
Proof.
  intros W H UQ NL ND. unfold nc_add_all.
  assert (E : (match ckind c with
               | KList => match citems c with
                          | [] => ret c
                          | _ => t <- nc_copy_new c ;; c1 <- nc_insert_all c p (citems t) ;; nc_dtor t ;;; ret c1
                          end
               | _ => nc_insert_all c p (citems c)
               end) = nc_insert_all c p (citems c)).
  { destruct (ckind c); congruence. }
  rewrite E.
  destruct (nc_insert_all_self (citems c) c p w W H UQ ND (fun n I => I)) as (w' & E' & T' & V').
  exists w'. split; [exact E'|]. split; [exact T'|]. apply nabs_val_ext. exact V'.
Qed.

Lemma nc_add_all_other c p y w : wfw w -> holds w (nids c ++ nids y) -> holdsb w (nblks c) -> ckind y = ckind c ->
  exists c' w', nc_add_all c p (Some y) w = Ok (c', w') /\
     trans w w' (nids c) (nids c') (nblks c) (nblks c') /\ ckind c' = ckind c /\
     nabs w' c' = spec_ins_all (ckind c) (nabs w c) p (nabs w y).
Proof.
  intros W H Hb KY. unfold nc_add_all.
  assert (H1 : holds w (nids c ++ items_ids (ckind c) (citems y))).
  { rewrite <- KY. eapply holds_sub; [exact H|]. unfold nids. msolve. }
  destruct (nc_insert_all_ok (citems y) c p w W H1 Hb) as (c' & w' & E & T & K & A).
  exists c', w'. split; [exact E|]. split; [exact T|]. split; [exact K|].
  rewrite A. unfold nabs. rewrite KY. reflexivity.
Qed.

(* ---- HashSet::remove(set) ---- *)
Lemma nc_remove_keys_ok src : forall c w,
  wfw w -> holds w (nids c ++ items_ids (ckind c) src) -> has_key (ckind c) = true ->
  exists c' w', nc_remove_keys c src w = Ok (c', w') /\
     trans w w' (nids c) (nids c') (nblks c) (nblks c') /\ ckind c' = ckind c /\
     nabs w' c' = spec_rem_all (ckind c) (nabs w c) (map (abs_node (ckind c) w) src).
Proof.
  induction src as [|n r IH]; intros c w W H HK; cbn [nc_remove_keys map spec_rem_all].
  - exists c, w. split; [reflexivity|]. split; [apply trans_refl; auto|]. auto.
  - set (k := ckind c) in *.
    pose proof (holds_app_l _ _ _ H) as Hc. pose proof (holds_app_r _ _ _ H) as Hs.
    unfold items_ids in Hs. cbn [flat_map] in Hs. fold (items_ids k r) in Hs.
    assert (Ik : In (nk n) (dom (heap w))).
    { eapply holds_in; [exact Hs|]. apply in_or_app. left. apply node_ids_key. auto. }
    destruct (nc_remove_key_ok c (nk n) w W Hc) as (c1 & w1 & E1 & T1 & K1 & A1); auto.
    { fold k. rewrite HK. reflexivity. }
    run E1.
    assert (H1 : holds w1 (nids c1 ++ items_ids (ckind c1) r)).
    { rewrite K1. fold k. eapply holds_sub; [apply (trans_holds_frame _ _ _ _ _ _ (node_ids k n ++ items_ids k r) T1 H)|]. msolve. }
    destruct (IH c1 w1 ltac:(twf T1) H1) as (c' & w' & E' & T' & K' & A').
    { rewrite K1. exact HK. }
    exists c', w'. split; [exact E'|]. split; [|split; [unfold k; congruence|]].
    + eapply trans_trans; eauto.
    + rewrite A', K1, A1. fold k.
      destruct (abs_node_oz k w n) as [OK _]. rewrite (OK HK).
      f_equal. eapply nabs_keep; [exact T1 | eapply holds_sub; [exact Hs | msolve] |].
      intros i I J. eapply (holds_disjoint _ _ _ _ W H); [|exact J].
      unfold items_ids. cbn [flat_map]. apply in_or_app. right. exact I.
Qed.

(* s.remove(s): the walk removes the head item each time *)
Lemma nc_remove_keys_self l : forall c w, citems c = l ->
  wfw w -> holds w (nids c) -> has_key (ckind c) = true ->
  exists c' w', nc_remove_keys c l w = Ok (c', w') /\
     trans w w' (nids c) (nids c') (nblks c) (nblks c') /\ ckind c' = ckind c /\ citems c' = [].
Proof.
  induction l as [|n r IH]; intros c w EI W H HK; cbn [nc_remove_keys].
  - exists c, w. split; [reflexivity|]. split; [apply trans_refl; auto|]. auto.
  - pose proof (holds_nids_items _ _ H) as Hi.
    assert (Ik : In (nk n) (dom (heap w))).
    { eapply holds_in; [exact Hi|]. eapply items_ids_in; [rewrite EI; left; reflexivity | apply node_ids_key; auto]. }
    assert (E0 : nc_remove_key c (nk n) w = nc_remove_at c 0 w).
    { unfold nc_remove_key. run (rd_ok w (nk n) Ik).
      assert (Lsel : forall i, In i (sel_ids (ckind c) (citems c)) -> In i (dom (heap w))).
      { intros i J. eapply holds_in; [exact Hi|]. apply sel_ids_in; auto. rewrite HK. reflexivity. }
      run (rd_list_ok w _ Lsel).
      rewrite EI. unfold sel_ids. cbn [map find_idx]. rewrite HK, Z.eqb_refl. reflexivity. }
    destruct (nc_remove_at_ok c 0 w W H) as (c1 & w1 & E1 & T1 & K1 & A1 & I1).
    { rewrite EI. cbn. lia. }
    rewrite <- E0 in E1. run E1.
    rewrite EI in I1. cbn [remove_at] in I1.
    destruct (IH c1 w1 I1 ltac:(twf T1) (trans_holds _ _ _ _ _ _ T1 H)) as (c' & w' & E' & T' & K' & I').
    { rewrite K1. exact HK. }
    exists c', w'. split; [exact E'|]. split; [eapply trans_trans; eauto|]. split; [congruence | exact I'].
Qed.
