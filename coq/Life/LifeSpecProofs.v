(* Facts about the SPEC alone (pure lists): the key discipline every container kind keeps
   (unique keys / sorted keys), that re-inserting the items of a container into an empty one
   reproduces it (copy construction and assignment are written that way in the code), and what
   operations whose argument is the container itself amount to. *)
From Coq Require Import ZArith List Bool Arith Lia Permutation.
From Life Require Import LifeSpec.
Import ListNotations.
Local Open Scope Z_scope.

(* an abstract item of kind k has exactly the fields the kind has *)
Definition shaped1 (k : kind) (n : anode) : Prop := mk_anode k (oz (fst n)) (oz (snd n)) = n.
Definition shaped (k : kind) (l : acont) : Prop := Forall (shaped1 k) l.

Fixpoint ssorted (l : list Z) : Prop :=
  match l with [] => True | a :: t => (forall b, In b t -> a <= b) /\ ssorted t end.

Definition keys_ok (k : kind) (l : acont) : Prop :=
  (unique k = true -> NoDup (asel k l)) /\ (sorted k = true -> ssorted (asel k l)).

Definition swf (s : sstate) : Prop :=
  Forall (fun v : avar => match v with Some (k, l) => keys_ok k l | None => True end) s.
Definition sshaped (s : sstate) : Prop :=
  Forall (fun v : avar => match v with Some (k, l) => shaped k l | None => True end) s.

(* ---- list facts ---- *)
Lemma insert_at_len {A} (a : list A) x : insert_at (length a) x a = a ++ [x].
Proof. induction a as [|h t IH]; cbn [length insert_at app]; auto. f_equal. exact IH. Qed.

Lemma find_idx_none z l : ~ In z l -> find_idx z l = None.
Proof.
  induction l as [|h t IH]; cbn [find_idx]; auto. intros N.
  destruct (Z.eqb_spec h z) as [->|Q]; [exfalso; apply N; left; auto|].
  rewrite IH; auto. intro I. apply N. right. auto.
Qed.
Lemma find_idx_some z l j : find_idx z l = Some j -> nth_error l j = Some z.
Proof.
  revert j; induction l as [|h t IH]; intros j; cbn [find_idx]; [discriminate|].
  destruct (Z.eqb_spec h z) as [->|Q].
  - intros E. inversion E. reflexivity.
  - destruct (find_idx z t) eqn:F; cbn [option_map]; [|discriminate].
    intros E. inversion E. cbn [nth_error]. apply IH. reflexivity.
Qed.
Lemma find_idx_nodup' l : forall j z, NoDup l -> nth_error l j = Some z -> find_idx z l = Some j.
Proof.
  induction l as [|h t IH]; intros [|j] z ND N; cbn [nth_error] in N; try discriminate; cbn [find_idx].
  - inversion N. subst. rewrite Z.eqb_refl. reflexivity.
  - inversion ND as [|? ? NI ND']; subst.
    destruct (Z.eqb_spec h z) as [->|Q].
    + exfalso. apply NI. eapply nth_error_In; eauto.
    + rewrite (IH j z ND' N). reflexivity.
Qed.

Lemma ins_pos_all_le z l : (forall b, In b l -> b <= z) -> ins_pos z l = length l.
Proof.
  induction l as [|h t IH]; cbn [ins_pos length]; auto. intros H.
  replace (h <=? z) with true by (symmetry; apply Z.leb_le; apply H; left; auto).
  f_equal. apply IH. intros b I. apply H. right. auto.
Qed.

Lemma set_at_same {A} (l : list A) j x : nth_error l j = Some x -> set_at j x l = l.
Proof.
  revert j; induction l as [|h t IH]; intros [|j]; cbn [nth_error set_at]; try discriminate.
  - intros E. inversion E. reflexivity.
  - intros E. f_equal. apply IH. exact E.
Qed.

Lemma ssorted_app a b : ssorted (a ++ b) <-> ssorted a /\ ssorted b /\ (forall x y, In x a -> In y b -> x <= y).
Proof.
  induction a as [|h t IH]; cbn [app ssorted].
  - split; [intros H; repeat split; auto; intros x y []| tauto].
  - rewrite IH. split.
    + intros (H1 & H2 & H3 & H4). repeat split; auto.
      * intros c I. apply H1. apply in_or_app. left. auto.
      * intros x y [<-|I] J; [apply H1; apply in_or_app; right; auto | apply H4; auto].
    + intros ((H1 & H2) & H3 & H4). repeat split; auto.
      * intros c I. apply in_app_or in I. destruct I as [I|I]; [apply H1; auto | apply H4; [left; auto | auto]].
      * intros x y I J. apply H4; [right; auto | auto].
Qed.

(* ---- asel under the list operations ---- *)
Lemma asel_app k a b : asel k (a ++ b) = asel k a ++ asel k b.
Proof. unfold asel. apply map_app. Qed.
Lemma asel_insert_at k i n l : asel k (insert_at i n l) = insert_at i (if has_key k then oz (fst n) else oz (snd n)) (asel k l).
Proof.
  unfold asel. revert i; induction l as [|h t IH]; intros [|i]; cbn [insert_at map]; auto. f_equal. apply IH.
Qed.
Lemma asel_remove_at k i l : asel k (remove_at i l) = remove_at i (asel k l).
Proof.
  unfold asel. revert i; induction l as [|h t IH]; intros [|i]; cbn [remove_at map]; auto. f_equal. apply IH.
Qed.
Lemma asel_set_aval k j vz n l : has_key k = true -> nth_error l j = Some n ->
  asel k (set_at j (set_aval vz n) l) = asel k l.
Proof.
  intros HK. unfold asel. rewrite HK. revert j; induction l as [|h t IH]; intros [|j]; cbn [nth_error set_at map]; try discriminate.
  - intros E. inversion E. reflexivity.
  - intros E. f_equal. apply IH. exact E.
Qed.
Lemma mk_anode_sel k kz vz : has_key k = true -> oz (fst (mk_anode k kz vz)) = kz.
Proof. intros H. unfold mk_anode. rewrite H. reflexivity. Qed.

(* ---- NoDup / ssorted under insertion and removal ---- *)
Lemma in_insert_at {A} (x y : A) i l : In y (insert_at i x l) <-> y = x \/ In y l.
Proof.
  revert i; induction l as [|h t IH]; intros [|i]; cbn [insert_at In].
  - intuition congruence.
  - intuition congruence.
  - intuition congruence.
  - rewrite IH. intuition congruence.
Qed.
Lemma nodup_insert_at {A} (x : A) i l : NoDup l -> ~ In x l -> NoDup (insert_at i x l).
Proof.
  revert i; induction l as [|h t IH]; intros [|i] ND N; cbn [insert_at].
  - constructor; auto.
  - constructor; auto.
  - constructor; auto.
  - inversion ND as [|? ? NI ND']; subst. constructor.
    + rewrite in_insert_at. intros [->|I]; [apply N; left; auto | auto].
    + apply IH; auto. intro I. apply N. right. auto.
Qed.
Lemma in_remove_at {A} (y : A) i l : In y (remove_at i l) -> In y l.
Proof.
  revert i; induction l as [|h t IH]; intros [|i]; cbn [remove_at In]; try tauto.
  intros [->|I]; [left; auto | right; eapply IH; eauto].
Qed.
Lemma nodup_remove_at {A} i (l : list A) : NoDup l -> NoDup (remove_at i l).
Proof.
  revert i; induction l as [|h t IH]; intros [|i] ND; cbn [remove_at]; auto.
  - inversion ND; auto.
  - inversion ND as [|? ? NI ND']; subst. constructor; auto. intro I. apply NI. eapply in_remove_at; eauto.
Qed.
Lemma ssorted_remove_at i l : ssorted l -> ssorted (remove_at i l).
Proof.
  revert i; induction l as [|h t IH]; intros [|i]; cbn [remove_at ssorted]; try tauto.
  intros [H1 H2]. split; auto. intros b I. apply H1. eapply in_remove_at; eauto.
Qed.
Lemma ssorted_ins_pos z l : ssorted l -> ssorted (insert_at (ins_pos z l) z l).
Proof.
  induction l as [|h t IH]; cbn [ins_pos insert_at ssorted].
  - intros _. split; auto. intros b [].
  - intros [H1 H2]. destruct (Z.leb_spec h z) as [L|L]; cbn [insert_at ssorted].
    + split; [|apply IH; auto]. intros b I. apply in_insert_at in I. destruct I as [->|I]; auto.
    + split; [|split; auto]. intros b [<-|I]; [lia|]. specialize (H1 b I). lia.
Qed.

Lemma ssortedb_ok l : ssortedb l = true -> ssorted l.
Proof.
  induction l as [|a t IH]; cbn [ssortedb ssorted]; auto.
  intros E. apply andb_true_iff in E. destruct E as [E1 E2]. split; [|apply IH; exact E2].
  intros b I. rewrite forallb_forall in E1. apply Z.leb_le. apply E1. exact I.
Qed.

(* ---- the key discipline is kept by every operation of the spec ---- *)
Lemma keys_ok_nil k : keys_ok k [].
Proof. split; intros _; cbn; [constructor | auto]. Qed.

Lemma keys_ok_ins k l p kz vz : keys_ok k l -> keys_ok k (spec_ins k l p kz vz).
Proof.
  intros [U S]. unfold spec_ins. destruct (has_key k) eqn:HK.
  - destruct (unique k) eqn:UQ.
    + destruct (find_idx kz (asel k l)) as [j|] eqn:F.
      * destruct (dup_assign k); [|split; auto].
        destruct (nth_error l j) as [n|] eqn:N; [|split; auto].
        split; intros Q; rewrite (asel_set_aval k j vz n l HK N); auto.
      * assert (NI : ~ In kz (asel k l)).
        { intro I. destruct (In_nth_error _ _ I) as (j & N).
          rewrite (find_idx_nodup' _ _ _ (U eq_refl) N) in F. discriminate. }
        split; intros Q; rewrite asel_insert_at, HK, mk_anode_sel by auto.
        -- apply nodup_insert_at; auto.
        -- rewrite Q. apply ssorted_ins_pos. auto.
    + split; [intros Q; congruence|]. intros Q. rewrite Q.
      rewrite asel_insert_at, HK, mk_anode_sel by auto. apply ssorted_ins_pos. auto.
  - split; intros Q; destruct k; cbn in *; congruence.
Qed.

Lemma keys_ok_remove_at k l i : keys_ok k l -> keys_ok k (remove_at i l).
Proof.
  intros [U S]. split; intros Q; rewrite asel_remove_at.
  - apply nodup_remove_at. auto.
  - apply ssorted_remove_at. auto.
Qed.
Lemma keys_ok_remkey k l z : keys_ok k l -> keys_ok k (spec_remkey k l z).
Proof. intros H. unfold spec_remkey. destruct (find_idx z (asel k l)); auto. apply keys_ok_remove_at. auto. Qed.
Lemma keys_ok_ins_all k src : forall l p, keys_ok k l -> keys_ok k (spec_ins_all k l p src).
Proof. induction src as [|n r IH]; intros l p H; cbn [spec_ins_all]; auto. apply IH. apply keys_ok_ins. auto. Qed.
Lemma keys_ok_rem_all k src : forall l, keys_ok k l -> keys_ok k (spec_rem_all k l src).
Proof. induction src as [|n r IH]; intros l H; cbn [spec_rem_all]; auto. apply IH. apply keys_ok_remkey. auto. Qed.
Lemma keys_ok_array l : keys_ok KArray l.
Proof. split; intros Q; discriminate. Qed.

Lemma kind_eqb_eq a b : kind_eqb a b = true -> a = b.
Proof. destruct a, b; cbn; intros; congruence. Qed.
Lemma kind_eqb_refl a : kind_eqb a a = true.
Proof. destruct a; reflexivity. Qed.

Lemma Forall_set_at {A} (P : A -> Prop) l i x : Forall P l -> P x -> Forall P (set_at i x l).
Proof.
  intros H Px. revert i; induction H as [|h t Ph Ht IH]; intros [|i]; cbn [set_at]; auto.
Qed.
Lemma sget_forall (P : avar -> Prop) s x : Forall P s -> P None -> P (sget s x).
Proof.
  intros H PN. unfold sget. destruct (nth_error s x) eqn:E; auto.
  eapply Forall_forall; eauto. eapply nth_error_In; eauto.
Qed.

Lemma spec_step_wf s o : swf s -> swf (snd (spec_step s o)).
Proof.
  intros H. unfold swf in *.
  assert (G : forall x, match sget s x with Some (k, l) => keys_ok k l | None => True end).
  { intros x. apply (sget_forall (fun v => match v with Some (k, l) => keys_ok k l | None => True end)); auto. }
  destruct o; cbn [spec_step].
  - destruct (sdead s x); cbn [snd]; auto. apply Forall_set_at; auto. apply keys_ok_nil.
  - destruct (sget s x); cbn [snd]; auto. apply Forall_set_at; auto.
  - pose proof (G y) as Gy. destruct (sget s y) as [[k l]|]; cbn [snd]; auto.
    destruct (sdead s x && copyable k); cbn [snd]; auto. apply Forall_set_at; auto.
  - pose proof (G y) as Gy. destruct (sget s x) as [[k l]|]; cbn [snd]; auto.
    destruct (sget s y) as [[k' l']|]; cbn [snd]; auto.
    destruct (kind_eqb k k') eqn:E; cbn [andb snd]; auto.
    destruct (copyable k); cbn [snd]; auto. apply kind_eqb_eq in E. subst k'.
    apply Forall_set_at; auto.
  - pose proof (G x) as Gx. pose proof (G y) as Gy.
    destruct (sget s x) as [[k l]|]; cbn [snd]; auto.
    destruct (sget s y) as [[k' l']|]; cbn [snd]; auto.
    destruct (kind_eqb k k') eqn:E; cbn [andb snd]; auto.
    destruct (can_swap k); cbn [snd]; auto. apply kind_eqb_eq in E. subst k'.
    apply Forall_set_at; auto. apply Forall_set_at; auto.
  - destruct (sget s x) as [[k l]|]; cbn [snd]; auto. apply Forall_set_at; auto. apply keys_ok_nil.
  - pose proof (G x) as Gx. destruct (sget s x) as [[k l]|]; cbn [snd]; auto.
    destruct (if need_key k then sarg_key s ka else Some 0); cbn [snd]; auto.
    destruct (if need_val k then sarg_val s va else Some 0); cbn [snd]; auto.
    apply Forall_set_at; auto. apply keys_ok_ins. auto.
  - pose proof (G x) as Gx. destruct (sget s x) as [[k l]|]; cbn [snd]; auto.
    destruct (i <? length l)%nat; cbn [snd]; auto. apply Forall_set_at; auto. apply keys_ok_remove_at. auto.
  - pose proof (G x) as Gx. destruct (sget s x) as [[k l]|]; cbn [snd]; auto.
    destruct (can_remkey k); cbn [snd]; auto.
    destruct (if has_key k then sarg_key s ka else sarg_val s ka); cbn [snd]; auto.
    apply Forall_set_at; auto. apply keys_ok_remkey. auto.
  - pose proof (G x) as Gx. destruct (sget s x) as [[k l]|]; cbn [snd]; auto.
    destruct (sget s y) as [[k' l']|]; cbn [snd]; auto.
    destruct (kind_eqb k k' && can_addall k); cbn [snd]; auto.
    apply Forall_set_at; auto. destruct (is_array k) eqn:A.
    + destruct k; try discriminate. apply keys_ok_array.
    + apply keys_ok_ins_all. auto.
  - pose proof (G x) as Gx. destruct (sget s x) as [[k l]|]; cbn [snd]; auto.
    destruct (sget s y) as [[k' l']|]; cbn [snd]; auto.
    destruct (kind_eqb k k' && can_remall k); cbn [snd]; auto.
    apply Forall_set_at; auto. apply keys_ok_rem_all. auto.
  - destruct (sget s x) as [[[] l]|]; cbn [snd]; auto.
  - destruct (sget s x) as [[[] l]|]; cbn [snd]; auto.
    destruct (sarg_val s va); cbn [snd]; auto. apply Forall_set_at; auto. apply keys_ok_array.
  - destruct (sget s x) as [[k l]|]; cbn [snd]; auto.
    destruct (sget s y) as [[k' l']|]; cbn [snd]; auto.
    destruct (is_array k) eqn:A; cbn [andb snd]; auto.
    destruct (is_array k' && (i + n <=? length l')%nat); cbn [snd]; auto.
    apply Forall_set_at; auto. destruct k; try discriminate. apply keys_ok_array.
  - pose proof (G x) as Gx. destruct (sget s x) as [[k l]|]; cbn [snd]; auto.
    destruct (via_idx v k (length l) i) as [j|]; cbn [snd]; auto.
    destruct (j <? length l)%nat; cbn [snd]; auto. apply Forall_set_at; auto. apply keys_ok_remove_at. auto.
  - destruct (sdead s x && has_capctor k); cbn [snd]; auto. apply Forall_set_at; auto. apply keys_ok_nil.
  - destruct (sget s x) as [[k l]|]; cbn [snd]; auto.
    destruct (can_find k); cbn [snd]; auto.
    destruct (if has_key k then sarg_key s ka else sarg_val s ka); cbn [snd]; auto.
  - destruct (sget s x) as [[k l]|]; cbn [snd]; auto.
    destruct (can_emplace k) eqn:CE; cbn [andb snd]; auto.
    destruct (length args <=? 7)%nat; cbn [snd]; auto.
    destruct (sarg_vals s args); cbn [snd]; auto.
    apply Forall_set_at; auto. destruct k; try discriminate. split; intros Q; discriminate.
  - destruct (sget s x) as [[k l]|]; cbn [snd]; auto.
    destruct (is_array k) eqn:A; cbn [snd]; auto.
    apply Forall_set_at; auto. destruct k; try discriminate. apply keys_ok_array.
  - pose proof (G x) as Gx. destruct (sget s x) as [[k l]|]; cbn [snd]; auto.
    destruct (can_hint k); cbn [snd]; auto.
    destruct (sarg_key s ka); cbn [snd]; auto.
    destruct (sarg_val s va); cbn [snd]; auto.
    destruct (hint_tie k (asel k l) (pos_idx p (length l)) z); cbn [snd]; auto.
    apply Forall_set_at; auto. apply keys_ok_ins. auto.
  - destruct (sget s x) as [[k l]|]; cbn [snd]; auto.
    destruct (can_sort k) eqn:CS; cbn [snd]; auto.
    apply Forall_set_at; auto. destruct k; try discriminate. split; intros Q; discriminate.
  - pose proof (G x) as Gx. destruct (sget s x) as [[k l]|]; cbn [snd]; auto.
    destruct (can_insvia k front); cbn [snd]; auto.
    destruct (if need_key k then sarg_key s ka else Some 0); cbn [snd]; auto.
    destruct (if need_val k then sarg_val s va else Some 0); cbn [snd]; auto.
    apply Forall_set_at; auto. apply keys_ok_ins. auto.
  - pose proof (G x) as Gx. destruct (sget s x) as [[k l]|]; cbn [snd]; auto.
    destruct (can_hint k) eqn:CH; cbn [snd]; auto.
    destruct (sarg_key s ka) as [kz|]; cbn [snd]; auto.
    destruct (sarg_val s va) as [vz|]; cbn [snd]; auto.
    destruct (hint_tie k (asel k l) (pos_idx p (length l)) kz) eqn:TIE; cbn [andb snd]; auto.
    destruct (ssortedb (insert_at (S (pos_idx p (length l)) + j) kz (asel k l))) eqn:SB; cbn [snd]; auto.
    apply Forall_set_at; auto.
    assert (HK : has_key k = true) by (destruct k; cbn in CH; try discriminate; reflexivity).
    split; intros Q.
    + unfold hint_tie in TIE. rewrite Q in TIE. discriminate.
    + rewrite asel_insert_at, HK, mk_anode_sel by auto. apply ssortedb_ok. exact SB.
  - pose proof (G x) as Gx. destruct (sget s x) as [[k l]|]; cbn [snd]; auto.
    destruct (out_idx k (length l) i r) as [[j|]|]; cbn [snd]; auto.
    destruct (j <? length l)%nat; cbn [snd]; auto. apply Forall_set_at; auto. apply keys_ok_remove_at. auto.
Qed.

Lemma swf_init n : swf (sinit n).
Proof. unfold swf, sinit. apply Forall_forall. intros v I. apply repeat_spec in I. subst. auto. Qed.

(* ---- re-inserting the items of a container reproduces it ---- *)
Lemma reinsert_app k src : forall acc, shaped k src -> keys_ok k (acc ++ src) ->
  spec_ins_all k acc PBack src = acc ++ src.
Proof.
  induction src as [|n r IH]; intros acc SH KO; cbn [spec_ins_all].
  - rewrite app_nil_r. reflexivity.
  - inversion SH as [|? ? Sn Sr]; subst. cbn [pos_next].
    assert (E : spec_ins k acc PBack (oz (fst n)) (oz (snd n)) = acc ++ [n]).
    { unfold spec_ins. destruct KO as [U S]. rewrite asel_app in U, S.
      assert (IA : insert_at (pos_idx PBack (length acc)) (mk_anode k (oz (fst n)) (oz (snd n))) acc = acc ++ [n]).
      { cbn [pos_idx]. rewrite insert_at_len. unfold shaped1 in Sn. rewrite Sn. reflexivity. }
      destruct (has_key k) eqn:HK; [|exact IA].
      assert (F : (if unique k then find_idx (oz (fst n)) (asel k acc) else None) = None).
      { destruct (unique k) eqn:UQ; auto. apply find_idx_none. intro I.
        specialize (U eq_refl). unfold asel at 2 in U. cbn [map] in U. rewrite HK in U.
        apply NoDup_remove_2 in U. apply U. apply in_or_app. left. exact I. }
      rewrite F. destruct (sorted k) eqn:SO; [|exact IA].
      rewrite ins_pos_all_le.
      - unfold asel. rewrite map_length, insert_at_len. unfold shaped1 in Sn. rewrite Sn. reflexivity.
      - intros b I. specialize (S eq_refl). apply ssorted_app in S. destruct S as (_ & _ & S).
        apply S; auto. unfold asel. cbn [map]. rewrite HK. left. reflexivity. }
    rewrite E. rewrite IH; auto.
    + rewrite <- app_assoc. reflexivity.
    + rewrite <- app_assoc. exact KO.
Qed.

Theorem reinsert_id k l : shaped k l -> keys_ok k l -> spec_ins_all k [] PBack l = l.
Proof. intros SH KO. apply (reinsert_app k l [] SH KO). Qed.

(* ---- inserting the items of a keyed container into itself changes nothing ---- *)
Lemma dup_assign_has_val k : dup_assign k = true -> has_val k = true.
Proof. destruct k; cbn; auto. Qed.
Lemma unique_has_key' k : unique k = true -> has_key k = true.
Proof. destruct k; cbn; auto. Qed.

Lemma self_insert_unique k l : unique k = true -> shaped k l -> NoDup (asel k l) ->
  forall src p, (forall n, In n src -> In n l) -> spec_ins_all k l p src = l.
Proof.
  intros UQ SH ND. induction src as [|n r IH]; intros p S; cbn [spec_ins_all]; auto.
  assert (E : spec_ins k l p (oz (fst n)) (oz (snd n)) = l).
  { pose proof (unique_has_key' k UQ) as HK.
    destruct (In_nth_error _ _ (S n (or_introl eq_refl))) as (j & N).
    assert (Nk : nth_error (asel k l) j = Some (oz (fst n))).
    { unfold asel. rewrite (map_nth_error _ _ _ N), HK. reflexivity. }
    unfold spec_ins. rewrite HK, UQ, (find_idx_nodup' _ _ _ ND Nk).
    destruct (dup_assign k) eqn:DA; auto. rewrite N.
    apply set_at_same. rewrite N. f_equal.
    assert (Sn : shaped1 k n) by (eapply Forall_forall; eauto; eapply nth_error_In; eauto).
    unfold shaped1, mk_anode in Sn. rewrite (dup_assign_has_val k DA) in Sn.
    unfold set_aval. rewrite <- Sn at 2. cbn [fst snd]. rewrite <- Sn at 1. reflexivity. }
  rewrite E. apply IH. intros m I. apply S. right. exact I.
Qed.

(* ---- removing the keys of a set from itself empties it ---- *)
Lemma self_remove k l : has_key k = true -> spec_rem_all k l l = [].
Proof.
  intros HK. induction l as [|n r IH]; cbn [spec_rem_all]; auto.
  assert (E : spec_remkey k (n :: r) (oz (fst n)) = r).
  { unfold spec_remkey, asel. cbn [map find_idx]. rewrite HK, Z.eqb_refl. reflexivity. }
  rewrite E. exact IH.
Qed.

(* ---- the shape of mk_anode ---- *)
Lemma shaped1_mk k kz vz : shaped1 k (mk_anode k kz vz).
Proof. unfold shaped1, mk_anode. destruct (has_key k), (has_val k); reflexivity. Qed.

(* ---- sorting: zsort yields THE sorted permutation ---- *)
Lemma zinsert_perm z l : Permutation (zinsert z l) (z :: l).
Proof.
  induction l as [|h t IH]; cbn [zinsert]; auto.
  destruct (z <=? h); auto. rewrite IH. apply perm_swap.
Qed.
Lemma zsort_perm l : Permutation (zsort l) l.
Proof.
  induction l as [|h t IH]; cbn [zsort]; auto. rewrite zinsert_perm. constructor. exact IH.
Qed.
Lemma zinsert_sorted z l : ssorted l -> ssorted (zinsert z l).
Proof.
  induction l as [|h t IH]; cbn [zinsert ssorted].
  - intros _. split; auto. intros b [].
  - intros [H1 H2]. destruct (Z.leb_spec z h) as [L|L]; cbn [ssorted].
    + split; [|split; auto]. intros b [<-|I]; [lia|]. specialize (H1 b I). lia.
    + split; [|apply IH; auto]. intros b I.
      apply (Permutation_in _ (zinsert_perm z t)) in I. destruct I as [<-|I]; [lia | auto].
Qed.
Lemma zsort_sorted l : ssorted (zsort l).
Proof. induction l as [|h t IH]; cbn [zsort]; [exact Logic.I | apply zinsert_sorted; exact IH]. Qed.

Lemma ssorted_perm_eq a : forall b, ssorted a -> ssorted b -> Permutation a b -> a = b.
Proof.
  induction a as [|x a IH]; intros b Sa Sb P.
  - apply Permutation_nil in P. auto.
  - destruct b as [|y b]; [apply Permutation_sym, Permutation_nil in P; discriminate|].
    cbn [ssorted] in Sa, Sb. destruct Sa as [Ha Sa]. destruct Sb as [Hb Sb].
    assert (E : x = y).
    { assert (I1 : In x (y :: b)) by (eapply Permutation_in; [exact P | left; auto]).
      assert (I2 : In y (x :: a)) by (eapply Permutation_in; [apply Permutation_sym; exact P | left; auto]).
      destruct I1 as [Q|I1]; [auto|]. destruct I2 as [Q|I2]; [auto|].
      specialize (Ha _ I2). specialize (Hb _ I1). lia. }
    subst y. f_equal. apply IH; auto. eapply Permutation_cons_inv; eauto.
Qed.

(* a sorted permutation of l is zsort l *)
Theorem zsort_unique l r : ssorted r -> Permutation r l -> r = zsort l.
Proof.
  intros S P. apply ssorted_perm_eq; auto; [apply zsort_sorted|].
  rewrite P. symmetry. apply zsort_perm.
Qed.

(* ---- where a key goes in a sorted sequence, said with its neighbours ---- *)
Lemma ins_pos_between z l : forall h, ssorted l ->
  (forall j a, (j < h)%nat -> nth_error l j = Some a -> a <= z) ->
  (forall j a, (h <= j)%nat -> nth_error l j = Some a -> z < a) ->
  (h <= length l)%nat -> ins_pos z l = h.
Proof.
  induction l as [|x t IH]; intros h S Lo Hi Len; cbn [ins_pos].
  - cbn in Len. lia.
  - cbn [ssorted] in S. destruct S as [Hx St].
    destruct h as [|h].
    + assert (Q : z < x) by (apply (Hi 0%nat x); [lia | reflexivity]).
      destruct (Z.leb_spec x z); [lia | reflexivity].
    + assert (Q : x <= z) by (apply (Lo 0%nat x); [lia | reflexivity]).
      destruct (Z.leb_spec x z); [|lia]. f_equal. apply IH; auto.
      * intros j a Lj N. apply (Lo (S j) a); [lia | exact N].
      * intros j a Lj N. apply (Hi (S j) a); [lia | exact N].
      * cbn in Len. lia.
Qed.

Lemma ssorted_nth_le l : ssorted l -> forall i j a b, (i <= j)%nat -> nth_error l i = Some a -> nth_error l j = Some b -> a <= b.
Proof.
  induction l as [|x t IH]; intros S i j a b L Ni Nj; [destruct i; discriminate|].
  cbn [ssorted] in S. destruct S as [Hx St].
  destruct i as [|i], j as [|j]; cbn [nth_error] in Ni, Nj; try lia.
  - inversion Ni. inversion Nj. lia.
  - inversion Ni. subst. apply Hx. eapply nth_error_In; eauto.
  - eapply (IH St i j); eauto. lia.
Qed.

(* prev <= z (or no prev) and z < next (or no next), in a sorted sequence: z goes to index h *)
Lemma ins_pos_hint z l h : ssorted l -> (h <= length l)%nat ->
  (forall pk, (0 < h)%nat -> nth_error l (h - 1) = Some pk -> pk <= z) ->
  (forall nk, nth_error l h = Some nk -> z < nk) ->
  ins_pos z l = h.
Proof.
  intros S Len Lo Hi. apply ins_pos_between; auto.
  - intros j a Lj N.
    destruct (nth_error l (h - 1)) as [pk|] eqn:Np.
    + pose proof (ssorted_nth_le l S j (h - 1) a pk ltac:(lia) N Np). specialize (Lo pk ltac:(lia) eq_refl). lia.
    + apply nth_error_None in Np. lia.
  - intros j a Lj N.
    destruct (nth_error l h) as [nk|] eqn:Nn.
    + pose proof (ssorted_nth_le l S h j nk a Lj Nn N). specialize (Hi nk eq_refl). lia.
    + apply nth_error_None in Nn. assert (j < length l)%nat by (apply nth_error_Some; congruence). lia.
Qed.

(* ... and strictly between its neighbours it is not there yet *)
Lemma notin_hint z l h : ssorted l -> (h <= length l)%nat ->
  (forall pk, (0 < h)%nat -> nth_error l (h - 1) = Some pk -> pk < z) ->
  (forall nk, nth_error l h = Some nk -> z < nk) ->
  ~ In z l.
Proof.
  intros S Len Lo Hi I. destruct (In_nth_error _ _ I) as (j & N).
  destruct (Nat.lt_ge_cases j h) as [Lj|Lj].
  - destruct (nth_error l (h - 1)) as [pk|] eqn:Np.
    + pose proof (ssorted_nth_le l S j (h - 1) z pk ltac:(lia) N Np). specialize (Lo pk ltac:(lia) eq_refl). lia.
    + apply nth_error_None in Np. lia.
  - destruct (nth_error l h) as [nk|] eqn:Nn.
    + pose proof (ssorted_nth_le l S h j nk z Lj Nn N). specialize (Hi nk eq_refl). lia.
    + apply nth_error_None in Nn. assert (j < length l)%nat by (apply nth_error_Some; congruence). lia.
Qed.
