From Coq Require Extraction ExtrOcamlBasic.
From Common Require Import Words.
From Life Require Import LifeSpec LifeModel.
Extraction Language OCaml.
Extraction "model.ml" anchor init step finish abs spec_step sinit slive sbase sstored well_bracketed getv model_found spec_found.
