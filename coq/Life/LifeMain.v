(* Histories: every history runs without a lifetime error and refines the spec; after the
   program's end nothing is alive and the whole event log is well bracketed; operations only
   change the variables they write; aliased arguments behave as if copied first. *)
From Coq Require Import ZArith List Bool Arith Lia Permutation.
From Life Require Import LifeSpec LifeModel LifeBase LifeLoops LifeArray LifeNode LifeSpecProofs LifeHint LifeSort LifeStep.
Import ListNotations.

(* ---- all histories ---- *)
Lemma run_ok ops : forall st, Inv st -> swf (abs st) ->
  exists st', run st ops = Ok st' /\ Inv st' /\ swf (abs st') /\ abs st' = spec_run (abs st) ops.
Proof.
  induction ops as [|o r IH]; intros st IV SW; cbn [run spec_run].
  - exists st. auto.
  - destruct (step_ok st o IV SW) as (b & st1 & E & IV1 & S1). rewrite E.
    assert (A1 : abs st1 = snd (spec_step (abs st) o)) by (rewrite S1; reflexivity).
    assert (SW1 : swf (abs st1)) by (rewrite A1; apply spec_step_wf; exact SW).
    destruct (IH st1 IV1 SW1) as (st' & E' & IV' & SW' & A').
    exists st'. split; [exact E'|]. split; [exact IV'|]. split; [exact SW'|]. rewrite A', A1. reflexivity.
Qed.

Lemma abs_init n : abs (init n) = sinit n.
Proof. unfold abs, init, sinit. cbn [sw svars]. induction n; cbn [repeat map option_map]; auto. f_equal. exact IHn. Qed.

Lemma run_init_ok nv ops :
  exists st, run (init nv) ops = Ok st /\ Inv st /\ swf (abs st) /\ abs st = spec_run (sinit nv) ops.
Proof.
  destruct (run_ok ops (init nv) (inv_init nv)) as (st & E & IV & SW & A).
  - rewrite abs_init. apply swf_init.
  - exists st. rewrite <- abs_init. auto.
Qed.

(* ---- the spec touches only the variables an operation writes ---- *)
Lemma sget_sset_other s x z v : x <> z -> sget (sset s x v) z = sget s z.
Proof. intros NE. unfold sget, sset. rewrite nth_error_set_at_other; auto. Qed.
Lemma sget_sset_same s x v : (x < length s)%nat -> sget (sset s x v) x = v.
Proof. intros L. unfold sget, sset. rewrite nth_error_set_at_same; auto. Qed.
Lemma sget_sset_none s x : sget (sset s x None) x = None.
Proof.
  destruct (Nat.lt_ge_cases x (length s)) as [L|L].
  - apply sget_sset_same. exact L.
  - unfold sget, sset.
    match goal with |- context [nth_error ?l ?i] => destruct (nth_error l i) eqn:Q end; [|reflexivity].
    exfalso. apply (f_equal (fun o => match o with Some _ => true | None => false end)) in Q.
    match type of Q with context [nth_error ?l ?i] => assert (Q2 : nth_error l i <> None) by (intro Q3; rewrite Q3 in Q; discriminate) end.
    apply nth_error_Some in Q2. rewrite set_at_length in Q2. lia.
Qed.
Lemma sset_length s x v : length (sset s x v) = length s.
Proof. apply set_at_length. Qed.

Ltac break_match :=
  repeat match goal with
         | |- context [match ?e with _ => _ end] => destruct e eqn:?
         end.

Lemma spec_step_frame s o z : ~ In z (writes o) -> sget (snd (spec_step s o)) z = sget s z.
Proof.
  intros N. destruct o; cbn [spec_step writes In] in *; break_match; cbn [snd]; auto;
    rewrite ?sget_sset_other by tauto; auto.
Qed.

Lemma spec_step_length s o : length (snd (spec_step s o)) = length s.
Proof.
  destruct o; cbn [spec_step]; break_match; cbn [snd]; rewrite ?sset_length; auto.
Qed.

Lemma spec_run_frame ops : forall s z, (forall o, In o ops -> ~ In z (writes o)) ->
  sget (spec_run s ops) z = sget s z.
Proof.
  induction ops as [|o r IH]; intros s z H; cbn [spec_run]; auto.
  rewrite IH; [apply spec_step_frame; apply H; left; auto | intros o' I; apply H; right; auto].
Qed.

(* ---- the end of the program ---- *)
Definition dead_upto (s : sstate) (k : nat) : Prop := forall x, (x < k)%nat -> sget s x = None.

Lemma spec_del_run m : forall k s, dead_upto s k -> dead_upto (spec_run s (map ODel (seq k m))) (k + m).
Proof.
  induction m as [|m IH]; intros k s D; cbn [seq map spec_run].
  - rewrite Nat.add_0_r. exact D.
  - replace (k + S m)%nat with (S k + m)%nat by lia. apply IH.
    intros x L. destruct (Nat.eq_dec x k) as [->|NE].
    + cbn [spec_step]. destruct (sget s k) eqn:G; cbn [snd]; [apply sget_sset_none | exact G].
    + rewrite spec_step_frame; [apply D; lia | cbn [writes In]; intros [Q|[]]; congruence].
Qed.

Lemma spec_run_length ops : forall s, length (spec_run s ops) = length s.
Proof. induction ops as [|o r IH]; intros s; cbn [spec_run]; auto. rewrite IH. apply spec_step_length. Qed.

Lemma all_dead_ids vs : (forall x, getv vs x = None) -> all_ids vs = [] /\ all_bks vs = [].
Proof.
  induction vs as [|v t IH]; intros H; [split; reflexivity|].
  pose proof (H 0%nat) as H0. unfold getv in H0. cbn [nth_error] in H0. subst v.
  destruct IH as [I1 I2].
  { intros x. specialize (H (S x)). unfold getv in *. cbn [nth_error] in H. exact H. }
  unfold all_ids, all_bks in *. cbn [flat_map vids vbks app]. auto.
Qed.

Lemma meq_nil (l : list nat) : meq l [] -> l = [].
Proof.
  intros H. destruct l as [|a t]; auto. specialize (H a). autorewrite with cntdb in H. rewrite one_same in H. lia.
Qed.

Lemma finish_ok st : Inv st -> swf (abs st) ->
  exists st', finish st = Ok st' /\ heap (sw st') = [] /\ blks (sw st') = [] /\
              well_bracketed (log (sw st')) = true /\ (forall x, getv (svars st') x = None).
Proof.
  intros IV SW. unfold finish, del_all.
  destruct (run_ok (map ODel (seq 0 (length (svars st)))) st IV SW) as (st' & E & IV' & _ & A').
  exists st'. split; [exact E|].
  assert (D : forall x, getv (svars st') x = None).
  { intros x.
    assert (G : sget (abs st') x = None).
    { rewrite A'. destruct (Nat.lt_ge_cases x (length (svars st))) as [L|L].
      - apply (spec_del_run (length (svars st)) 0 (abs st)); [intros y Q; lia | lia].
      - unfold sget.
        match goal with |- context [nth_error ?l ?i] => destruct (nth_error l i) eqn:Q end; [|reflexivity].
        exfalso. apply (f_equal (fun o => match o with Some _ => true | None => false end)) in Q.
        match type of Q with context [nth_error ?l ?i] => assert (Q2 : nth_error l i <> None) by (intro Q3; rewrite Q3 in Q; discriminate) end.
        apply nth_error_Some in Q2. rewrite spec_run_length in Q2. unfold abs in Q2. rewrite map_length in Q2. lia. }
    rewrite sget_abs in G. destruct (getv (svars st') x); [discriminate | reflexivity]. }
  destruct (all_dead_ids _ D) as [I B].
  pose proof (inv_ids _ IV') as Qi. pose proof (inv_bks _ IV') as Qb. rewrite I in Qi. rewrite B in Qb.
  apply meq_nil in Qi. apply meq_nil in Qb.
  assert (H0 : heap (sw st') = []).
  { unfold dom in Qi. destruct (heap (sw st')); [auto | discriminate]. }
  split; [exact H0|]. split; [exact Qb|]. split; [|exact D].
  destruct (wf_led _ (inv_wf _ IV')) as (L & EL & Ll & Lb & _).
  unfold well_bracketed. rewrite EL, Ll, Lb, H0, Qb. reflexivity.
Qed.

(* ---------------------------------------------------------------------------------------- *)
(* theorem statements                                                                         *)
(* ---------------------------------------------------------------------------------------- *)
Lemma lifetimes_exact_once_proof nv ops :
  exists st st', run (init nv) ops = Ok st /\ finish st = Ok st' /\
                 well_bracketed (log (sw st')) = true /\ heap (sw st') = [] /\ blks (sw st') = [].
Proof.
  destruct (run_init_ok nv ops) as (st & E & IV & SW & _).
  destruct (finish_ok st IV SW) as (st' & E' & H & B & WB & _).
  exists st, st'. auto.
Qed.

(* between operations every live instance and allocation is owned by exactly one variable *)
Lemma no_leak_no_sharing_proof nv ops st : run (init nv) ops = Ok st ->
  NoDup (all_ids (svars st)) /\ NoDup (all_bks (svars st)) /\
  (forall i, In i (dom (heap (sw st))) <-> In i (all_ids (svars st))) /\
  (forall b, In b (blks (sw st)) <-> In b (all_bks (svars st))).
Proof.
  intros E. destruct (run_init_ok nv ops) as (st0 & E0 & IV & _). rewrite E in E0. inversion E0. subst st0.
  pose proof (inv_wf _ IV) as W. pose proof (inv_ids _ IV) as Qi. pose proof (inv_bks _ IV) as Qb.
  split; [|split; [|split]].
  - eapply mle_nodup; [|apply (wf_nd _ W)]. intro x. rewrite (Qi x). lia.
  - eapply mle_nodup; [|apply (wf_bnd _ W)]. intro x. rewrite (Qb x). lia.
  - intros i. split; intros I; [eapply meq_in; [exact Qi | exact I] | eapply meq_in; [apply meq_sym; exact Qi | exact I]].
  - intros b. split; intros I; [eapply meq_in; [exact Qb | exact I] | eapply meq_in; [apply meq_sym; exact Qb | exact I]].
Qed.

Lemma run_refines_spec_proof nv ops st : run (init nv) ops = Ok st -> abs st = spec_run (sinit nv) ops.
Proof.
  intros E. destruct (run_init_ok nv ops) as (st0 & E0 & _ & _ & A). rewrite E in E0. inversion E0. subst st0. exact A.
Qed.

Lemma step_refines_spec_proof nv ops st o :
  run (init nv) ops = Ok st ->
  exists b st', step st o = Ok (b, st') /\ spec_step (abs st) o = (b, abs st').
Proof.
  intros E. destruct (run_init_ok nv ops) as (st0 & E0 & IV & SW & _). rewrite E in E0. inversion E0. subst st0.
  destruct (step_ok st o IV SW) as (b & st' & E' & _ & S). eauto.
Qed.

(* copies are deep: the copy has the source's content, and a history that does not write z
   (it may read z, copy from z, refer to elements of z) leaves the content of z alone *)
Lemma copies_are_deep_proof nv ops1 st1 c st2 x y :
  run (init nv) ops1 = Ok st1 -> (c = OCopyNew x y \/ c = OAssign x y) -> step st1 c = Ok (true, st2) ->
  sget (abs st2) x = sget (abs st1) y /\
  (x <> y -> sget (abs st2) y = sget (abs st1) y) /\
  forall ops z st3, (forall o, In o ops -> ~ In z (writes o)) -> run st2 ops = Ok st3 ->
                    sget (abs st3) z = sget (abs st2) z.
Proof.
  intros E1 C E2.
  destruct (run_init_ok nv ops1) as (st0 & E0 & IV1 & SW1 & _). rewrite E1 in E0. inversion E0. subst st0.
  destruct (step_ok st1 c IV1 SW1) as (b & st2' & E2' & IV2 & S2). rewrite E2 in E2'. inversion E2'. subst b st2'.
  assert (SW2 : swf (abs st2)).
  { replace (abs st2) with (snd (spec_step (abs st1) c)) by (rewrite S2; reflexivity). apply spec_step_wf. exact SW1. }
  split; [|split].
  - destruct C as [-> | ->]; cbn [spec_step] in S2.
    + destruct (sget (abs st1) y) as [[k l]|] eqn:Gy; [|inversion S2].
      destruct (sdead (abs st1) x && copyable k) eqn:D; inversion S2.
      apply andb_true_iff in D. destruct D as [D _]. unfold sdead in D.
      destruct (nth_error (abs st1) x) as [[v|]|] eqn:N; try discriminate.
      apply sget_sset_same. apply nth_error_Some. congruence.
    + destruct (sget (abs st1) x) as [[k l]|] eqn:Gx; [|inversion S2].
      destruct (sget (abs st1) y) as [[k' l']|] eqn:Gy; [|inversion S2].
      destruct (kind_eqb k k' && copyable k) eqn:D; inversion S2.
      apply andb_true_iff in D. destruct D as [D _]. apply kind_eqb_eq in D. subst k'.
      apply sget_sset_same. unfold sget in Gx. destruct (nth_error (abs st1) x) eqn:N; [|discriminate].
      apply nth_error_Some. congruence.
  - intros NE. replace (abs st2) with (snd (spec_step (abs st1) c)) by (rewrite S2; reflexivity).
    apply spec_step_frame. destruct C as [-> | ->]; cbn [writes In]; intros [Q|[]]; congruence.
  - intros ops z st3 H E3.
    destruct (run_ok ops st2 IV2 SW2) as (st3' & E3' & _ & _ & A3). rewrite E3 in E3'. inversion E3'. subst st3'.
    rewrite A3. apply spec_run_frame. exact H.
Qed.

Lemma ledger_accepts_every_prefix_proof nv ops st : run (init nv) ops = Ok st ->
  exists L, ledger_of (log (sw st)) = Some L /\ llive L = dom (heap (sw st)) /\ lblive L = blks (sw st).
Proof.
  intros E. destruct (run_init_ok nv ops) as (st0 & E0 & IV & _). rewrite E in E0. inversion E0. subst st0.
  destruct (wf_led _ (inv_wf _ IV)) as (L & EL & Ll & Lb & _). exists L. auto.
Qed.

(* ---------------------------------------------------------------------------------------- *)
(* third round                                                                                *)
(* ---------------------------------------------------------------------------------------- *)
(* what find returns is what the spec says: the first element with that key / value *)
Lemma find_refines_spec_proof nv ops st x ka : run (init nv) ops = Ok st -> model_found st x ka = spec_found (abs st) x ka.
Proof.
  intros E. destruct (run_init_ok nv ops) as (st0 & E0 & IV & _). rewrite E in E0. inversion E0. subst st0.
  unfold model_found, spec_found. rewrite sget_abs.
  pose proof (marg_key_spec st ka IV) as MK. pose proof (marg_val_spec st ka IV) as MV.
  destruct (getv (svars st) x) as [[a|n]|] eqn:G; cbn [option_map abs_cont]; [| |reflexivity].
  - cbn [has_key]. destruct (marg_val (svars st) ka) as [r|]; [destruct MV as [MV _]|]; rewrite MV; [|reflexivity].
    rewrite rarg_val_rval. f_equal. unfold asel. rewrite map_map. cbn [has_key snd oz]. reflexivity.
  - destruct (inv_get st x _ IV G) as (_ & _ & WF). cbn [vwf] in WF.
    assert (KV : has_key (ckind n) || has_val (ckind n) = true) by (destruct (ckind n); cbn in *; congruence).
    assert (Ek : map (val (sw st)) (sel_ids (ckind n) (citems n)) = asel (ckind n) (map (abs_node (ckind n) (sw st)) (citems n))).
    { apply sel_vals. exact KV. }
    destruct (has_key (ckind n)).
    + destruct (marg_key (svars st) ka) as [r|]; [destruct MK as [MK _]|]; rewrite MK; [|reflexivity].
      rewrite rarg_val_rval, Ek. reflexivity.
    + destruct (marg_val (svars st) ka) as [r|]; [destruct MV as [MV _]|]; rewrite MV; [|reflexivity].
      rewrite rarg_val_rval, Ek. reflexivity.
Qed.

(* in every reachable state the position hint of Map / MultiMap::insert(position, key, value) changes
   nothing of what happens to instances: same events, same result as insert(key, value) - outside the
   one MultiMap case the spec leaves open *)
Lemma hinted_insert_is_plain_proof nv ops st x n p kr vr :
  run (init nv) ops = Ok st -> getv (svars st) x = Some (CN n) -> sorted (ckind n) = true ->
  In kr (dom (heap (sw st))) ->
  hint_tie (ckind n) (map (val (sw st)) (sel_ids (ckind n) (citems n))) (pos_idx p (length (citems n))) (val (sw st) kr) = false ->
  nc_insert_hint n p kr vr (sw st) = nc_insert n PBack kr (VRef vr) (sw st).
Proof.
  intros E G SO Ik TIE.
  destruct (run_init_ok nv ops) as (st0 & E0 & IV & SW & _). rewrite E in E0. inversion E0. subst st0.
  destruct (inv_get st x _ IV G) as (H & _ & _). cbn [cids] in H.
  pose proof (swf_get st x (CN n) SW G) as KO. cbn [abs_cont fst snd] in KO.
  destruct (hint_reads n (sw st) H SO) as (Ek & _ & _). rewrite Ek in TIE.
  apply nc_insert_hint_eq; auto.
Qed.

(* List::sort(): the container variables hold the very same instances afterwards, the live
   instances are the same ones (nothing constructed stays, nothing stored is destroyed), and the
   content is the sorted permutation of the old content *)
Lemma sort_moves_payloads_only_proof nv ops st x st' :
  run (init nv) ops = Ok st -> step st (OSort x) = Ok (true, st') ->
  svars st' = svars st /\ Permutation (dom (heap (sw st'))) (dom (heap (sw st))) /\
  exists l, sget (abs st) x = Some (KList, l) /\ sget (abs st') x = Some (KList, spec_sort l).
Proof.
  intros E E1.
  destruct (run_init_ok nv ops) as (st0 & E0 & IV & SW & _). rewrite E in E0. inversion E0. subst st0.
  destruct (step_ok st (OSort x) IV SW) as (b & st2 & E2 & _ & S2). rewrite E1 in E2. inversion E2. subst b st2.
  cbn [step] in E1. unfold skip in E1.
  destruct (getv (svars st) x) as [[a|n]|] eqn:G; try discriminate.
  destruct (can_sort (ckind n)) eqn:CS; [|discriminate].
  pose proof (can_sort_eq _ CS) as K.
  destruct (inv_get st x _ IV G) as (H & _ & _). cbn [cids] in H.
  destruct (nc_sort_ok n (sw st) (inv_wf _ IV) H K) as (w' & En & T & A).
  unfold put in E1. rewrite (lift_ok CN _ _ _ _ En) in E1. inversion E1. subst st'. cbn [svars sw] in *.
  split; [|split].
  - apply set_at_same. apply getv_nth. exact G.
  - apply meq_perm. eapply trans_same_dom. exact T.
  - exists (nabs (sw st) n). cbn [spec_step] in S2. rewrite sget_abs, G in S2 |- *. cbn [option_map abs_cont] in S2 |- *.
    fold (nabs (sw st) n) in S2 |- *. rewrite CS in S2. rewrite K in *. split; [reflexivity|].
    injection S2 as S3. rewrite <- S3. apply sget_sset_same.
    unfold abs. rewrite map_length. apply nth_error_Some. rewrite (getv_nth _ _ _ G). discriminate.
Qed.
