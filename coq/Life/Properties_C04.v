(* Property C04 - statements closed by `exact`, each followed by Print Assumptions, plus
   non-vacuity Examples.

   Clause of the statement                                   theorem
   ---------------------------------------------------------------------------------------------
   "each stored element and key is constructed exactly once and destroyed exactly once - at
    removal, clear, overwrite or container destruction -, is never touched after its
    destruction, and no memory is leaked or freed twice"
                                                             lifetimes_exact_once (whole program:
                                                             no lifetime error, the complete event
                                                             log passes the independent ledger,
                                                             nothing is left), no_leak_no_sharing
                                                             (between operations: live instances /
                                                             allocations = those owned by exactly
                                                             one container variable),
                                                             ledger_accepts_every_prefix,
                                                             live_instances_counted
   "copies made by construction or assignment (including assignment of a container to itself)
    are deep and independent of the source"                  copies_are_deep, no_leak_no_sharing,
                                                             step_refines_spec (x = x is the
                                                             identity of the spec)
   "operations whose argument is the container itself or a reference to one of its own elements
    behave as if that argument had been copied first"        alias_args_as_if_copied, alias_step,
                                                             dealias_is_copy_first (pure: the
                                                             spec's evaluation of aliased
                                                             arguments = explicit copy first)
   The histories quantified over include Array::append(const T*, n) with a pointer into the array's
   own storage (OAppendRange x x i n), Array::remove(const Iterator&), removeFront() and
   removeBack() (ORemVia), and - third round - the (capacity) constructors (ONewCap), find (OFind),
   PoolList::append(a1..an) with 0..7 constructor arguments that may be references to its own
   elements (OEmplace), Array::append(const T*, n) from elements outside every container
   (OAppendVals), Map / MultiMap::insert(position, key, value) (OInsHint: all hints; the branch
   that assigns to the hinted element), Map::insert(const Map&) through the hinted insert
   (OAddAll on a Map, also with itself) and List::sort (OSort: the quicksort of the code as it
   is now, elements exchanged through a temporary).  Every theorem below is about this
   extended language.  Specific to it:
     sort_moves_payloads_only      sort leaves the container holding the very same instances, the
                                   live instances are the same ones, the content is the sorted
                                   permutation
     hinted_insert_is_plain_insert the position hint changes nothing of what happens to instances
     find_refines_spec             find returns the first element with that key / value
   Round 5 - two more operations, covered by every theorem above:
     OInsVia   List::prepend / append(value), HashMap::prepend / append(key, value), HashSet::prepend /
               append(key), PoolMap::append(key): the one-line wrappers, arguments may be own elements
               (wrappers_are_front_back_insert: the same computation as the positional insert)
     OInsTie   the one MultiMap hinted insert that OInsHint leaves out (hint_tie): the offset at which the
               new element lands inside the following run of equal keys is an INPUT (it stands for the
               tree shape, C01); the spec accepts exactly the offsets that keep the keys in order
               (tie_insert_position_only: for every offset the same events / instances / allocations as
               insert(key, value), only the place of the new node differs)
     stored_instances_counted      live instances = one per stored element and key (the number the spec
                                   oracle prints) + what the containers keep for themselves (end items)
   Round 6 - one more operation, covered by every theorem above:
     ORemOut   Array::remove(usize index) with size <= index (any usize; the only removal by index or
               position that the containers accept although it names no element).  The lifecycle clauses
               hold across it like across every accepted call (lifetimes_exact_once, no_leak_no_sharing,
               stored_instances_counted, ledger_accepts_every_prefix quantify over histories that contain
               it); what the array contains afterwards is left open by the spec as far as "at most one
               element is removed" (outcome r, an input like the tie offset); remove_out_of_range: the code
               as it is (r = None) changes nothing at all, an outcome r = Some j is remove(j)
   All theorems are about the Model (LifeModel.v); its tie to the C++ code is the
   correspondence check (checks/C04.py).  Memory below the model's allocations (the allocator
   itself) is observed by ASan/the ledger of the harness only. *)
From Coq Require Import ZArith NArith List Bool Permutation.
From Life Require Import LifeSpec LifeModel LifeBase LifeSpecProofs LifeStep LifeMain LifeAlias LifeCount.
Import ListNotations.

(* Every history, followed by the destruction of all containers: no lifetime error occurs, the
   complete event log is well bracketed (every instance constructed once, copied from / assigned
   only while live, destroyed exactly once; every allocation released exactly once) and no
   instance or allocation is left. *)
Theorem lifetimes_exact_once : forall (nv : nat) (ops : list op),
  exists st st', run (init nv) ops = Ok st /\ finish st = Ok st' /\
                 well_bracketed (log (sw st')) = true /\ heap (sw st') = [] /\ blks (sw st') = [].
Proof. exact lifetimes_exact_once_proof. Qed.
Print Assumptions lifetimes_exact_once.

(* Between operations: the live instances (allocations) are exactly the ones owned by the
   container variables, and none is owned twice - nothing leaks, nothing is shared. *)
Theorem no_leak_no_sharing : forall (nv : nat) (ops : list op) (st : state),
  run (init nv) ops = Ok st ->
  NoDup (all_ids (svars st)) /\ NoDup (all_bks (svars st)) /\
  (forall i, In i (dom (heap (sw st))) <-> In i (all_ids (svars st))) /\
  (forall b, In b (blks (sw st)) <-> In b (all_bks (svars st))).
Proof. exact no_leak_no_sharing_proof. Qed.
Print Assumptions no_leak_no_sharing.

(* Between operations the number of live instances is the spec's function of the contents: one
   instance per field (key, value) of every stored item plus the instances of the embedded end
   items - no temporary, no orphan, no duplicate. *)
Theorem live_instances_counted : forall (nv : nat) (ops : list op) (st : state),
  run (init nv) ops = Ok st -> length (heap (sw st)) = slive (abs st).
Proof. exact live_count_proof. Qed.
Print Assumptions live_instances_counted.

(* ... split into what the property text accounts for - one instance per stored element and per
   stored key, `sstored`, the number the spec oracle prints - and what the containers keep for
   themselves (`sbase`: the instances of the embedded end items, an implementation fact). *)
Theorem stored_instances_counted : forall (nv : nat) (ops : list op) (st : state),
  run (init nv) ops = Ok st -> length (heap (sw st)) = sbase (abs st) + sstored (abs st).
Proof. exact stored_count_proof. Qed.
Print Assumptions stored_instances_counted.

(* Every operation in every reachable state succeeds and does to the contents what the spec
   says (in particular x = x, x.append(x), a.append(a[i]) are the spec's value semantics). *)
Theorem step_refines_spec : forall (nv : nat) (ops : list op) (st : state) (o : op),
  run (init nv) ops = Ok st ->
  exists b st', step st o = Ok (b, st') /\ spec_step (abs st) o = (b, abs st').
Proof. exact step_refines_spec_proof. Qed.
Print Assumptions step_refines_spec.

Theorem run_refines_spec : forall (nv : nat) (ops : list op) (st : state),
  run (init nv) ops = Ok st -> abs st = spec_run (sinit nv) ops.
Proof. exact run_refines_spec_proof. Qed.
Print Assumptions run_refines_spec.

(* After x := copy of y (construction or assignment) x has y's content and y is unchanged (first
   two conjuncts).  The third conjunct is a FRAME fact that holds for every variable, copied or
   not: a further history none of whose operations WRITES z (it may read z, copy from z, pass
   references to z's elements) leaves z's content alone.  Instantiated with z := y it says that
   histories on the copy do not reach the source, with z := x the converse; that the copy shares
   no instance or allocation with its source is no_leak_no_sharing. *)
Theorem copies_are_deep : forall (nv : nat) (ops1 : list op) (st1 : state) (c : op) (st2 : state) (x y : nat),
  run (init nv) ops1 = Ok st1 -> (c = OCopyNew x y \/ c = OAssign x y) -> step st1 c = Ok (true, st2) ->
  sget (abs st2) x = sget (abs st1) y /\
  (x <> y -> sget (abs st2) y = sget (abs st1) y) /\
  forall ops z st3, (forall o, In o ops -> ~ In z (writes o)) -> run st2 ops = Ok st3 ->
                    sget (abs st3) z = sget (abs st2) z.
Proof. exact copies_are_deep_proof. Qed.
Print Assumptions copies_are_deep.

(* The spec's reading of an aliased argument is "copy first": pure statement about the spec. *)
Theorem dealias_is_copy_first : forall (s : sstate) (t : nat) (o : op),
  sdead s t = true -> ~ In t (mentions o) -> spec_run s (dealias s t o) = snd (spec_step s o).
Proof. exact dealias_spec. Qed.
Print Assumptions dealias_is_copy_first.

(* One operation with aliased arguments in a reachable state, against its de-aliased form (the
   element reference replaced by its current value, the container argument by a copy made in
   the unused variable t): same contents afterwards. *)
Theorem alias_step : forall (nv : nat) (ops : list op) (st : state) (o : op) (t : nat),
  run (init nv) ops = Ok st -> isdead (svars st) t = true -> ~ In t (mentions o) ->
  exists b st1 st2, step st o = Ok (b, st1) /\ run st (dealias (abs st) t o) = Ok st2 /\ abs st2 = abs st1.
Proof. exact alias_step_proof. Qed.
Print Assumptions alias_step.

(* Whole histories: obs (run ops) = obs (run (dealias ops)). *)
Theorem alias_args_as_if_copied : forall (nv : nat) (ops : list op) (t : nat),
  (t < nv)%nat -> (forall o, In o ops -> ~ In t (mentions o)) ->
  exists st1 st2, run (init nv) ops = Ok st1 /\ run (init nv) (dealias_run (sinit nv) t ops) = Ok st2 /\
                  abs st2 = abs st1.
Proof. exact alias_args_as_if_copied_proof. Qed.
Print Assumptions alias_args_as_if_copied.

(* At every moment of every history the independent ledger accepts the log so far, and its live
   sets are the world's: nothing was constructed twice, used while dead or destroyed twice. *)
Theorem ledger_accepts_every_prefix : forall (nv : nat) (ops : list op) (st : state),
  run (init nv) ops = Ok st ->
  exists L, ledger_of (log (sw st)) = Some L /\ llive L = dom (heap (sw st)) /\ lblive L = blks (sw st).
Proof. exact ledger_accepts_every_prefix_proof. Qed.
Print Assumptions ledger_accepts_every_prefix.

(* List::sort(): in every reachable state the operation succeeds on a list (step_refines_spec), the
   variables hold the very same instances afterwards, the set of live instances is unchanged - the
   temporaries of the exchanges are gone, no stored element was destroyed or constructed anew - and
   the content is the sorted permutation of the old content. *)
Theorem sort_moves_payloads_only : forall (nv : nat) (ops : list op) (st : state) (x : nat) (st' : state),
  run (init nv) ops = Ok st -> step st (OSort x) = Ok (true, st') ->
  svars st' = svars st /\ Permutation (dom (heap (sw st'))) (dom (heap (sw st))) /\
  exists l, sget (abs st) x = Some (KList, l) /\ sget (abs st') x = Some (KList, spec_sort l).
Proof. exact sort_moves_payloads_only_proof. Qed.
Print Assumptions sort_moves_payloads_only.

(* Map / MultiMap::insert(position, key, value) in a reachable state: whatever the hint, the same
   computation as insert(key, value) - same events in the same order, same result (outside the
   MultiMap case hint_tie that the spec leaves open). *)
Theorem hinted_insert_is_plain_insert : forall (nv : nat) (ops : list op) (st : state) (x : nat) (n : nc) (p : pos) (kr vr : nat),
  run (init nv) ops = Ok st -> getv (svars st) x = Some (CN n) -> sorted (ckind n) = true ->
  In kr (dom (heap (sw st))) ->
  hint_tie (ckind n) (map (val (sw st)) (sel_ids (ckind n) (citems n))) (pos_idx p (length (citems n))) (val (sw st) kr) = false ->
  nc_insert_hint n p kr vr (sw st) = nc_insert n PBack kr (VRef vr) (sw st).
Proof. exact hinted_insert_is_plain_proof. Qed.
Print Assumptions hinted_insert_is_plain_insert.

(* The one MultiMap call excluded above (key of the hinted item <= key, key of the item behind it ==
   key; operation OInsTie, the landing offset j being an input that stands for the tree shape): in
   every reachable state and for EVERY j, it does to the world exactly what insert(key, value) does -
   same events in the same order, same instances and allocations afterwards (the same w1) - and the two
   resulting containers differ only in the place (i1 / i2) of the one new node in the item sequence. *)
Theorem tie_insert_position_only : forall (nv : nat) (ops : list op) (st : state) (x : nat) (n : nc) (p : pos) (kr vr j : nat)
                                          (c1 : nc) (w1 : world),
  run (init nv) ops = Ok st -> getv (svars st) x = Some (CN n) -> sorted (ckind n) = true -> unique (ckind n) = false ->
  In kr (dom (heap (sw st))) ->
  nc_insert_tie n p kr vr j (sw st) = Ok (c1, w1) ->
  exists c0 nd i1 i2,
    c1 = set_items c0 (insert_at i1 nd (citems c0)) (cfree c0) /\
    nc_insert n PBack kr (VRef vr) (sw st) = Ok (set_items c0 (insert_at i2 nd (citems c0)) (cfree c0), w1).
Proof. exact tie_insert_position_only_proof. Qed.
Print Assumptions tie_insert_position_only.

(* prepend / append(key[, value]) of List / HashMap / HashSet and PoolMap::append(key) (OInsVia) are the
   positional insert at the front / the back - the same computation on every state. *)
Theorem wrappers_are_front_back_insert : forall (st : state) (x : nat) (n : nc) (f : bool) (ka va : arg),
  getv (svars st) x = Some (CN n) -> can_insvia (ckind n) f = true ->
  step st (OInsVia x f ka va) = step st (OIns x (via_pos f) ka va) /\
  spec_step (abs st) (OInsVia x f ka va) = spec_step (abs st) (OIns x (via_pos f) ka va).
Proof. exact insvia_is_ins_proof. Qed.
Print Assumptions wrappers_are_front_back_insert.

(* Array::remove(index) with an index that is not in the array (ORemOut): accepted on every state; with
   the outcome of the code as it is (r = None) world, event log and variables are unchanged - nothing is
   destroyed, released or touched - and so is the spec's content; an outcome r = Some j (an array that
   removes an element at such an index) is remove(j) in model and spec. *)
Theorem remove_out_of_range : forall (st : state) (x : nat) (a : arr) (i : N),
  getv (svars st) x = Some (CA a) -> (N.of_nat (length (aelems a)) <= i)%N ->
  step st (ORemOut x i None) = Ok (true, st) /\
  spec_step (abs st) (ORemOut x i None) = (true, abs st) /\
  forall j, step st (ORemOut x i (Some j)) = step st (ORemAt x j) /\
            spec_step (abs st) (ORemOut x i (Some j)) = spec_step (abs st) (ORemAt x j).
Proof. exact remove_out_of_range_proof. Qed.
Print Assumptions remove_out_of_range.

(* find returns what the spec says: the index of the first element with that key / value. *)
Theorem find_refines_spec : forall (nv : nat) (ops : list op) (st : state) (x : nat) (ka : arg),
  run (init nv) ops = Ok st -> model_found st x ka = spec_found (abs st) x ka.
Proof. exact find_refines_spec_proof. Qed.
Print Assumptions find_refines_spec.

(* ---------------------------------------------------------------------------------------- *)
(* non-vacuity                                                                                *)
(* ---------------------------------------------------------------------------------------- *)
Example lifetimes_nonvacuous :
  match run (init 3) example_history with
  | Ok st => match finish st with
             | Ok st' => well_bracketed (log (sw st')) && Nat.ltb 150 (length (log (sw st'))) &&
                         Nat.eqb (length (heap (sw st))) 7
             | Err _ => false
             end
  | Err _ => false
  end = true.
Proof. vm_compute. reflexivity. Qed.

(* the ledger does reject bad logs (newest event first): double destruction, copy from a dead
   instance, a leaked instance, a block freed twice, an id constructed twice *)
Example ledger_rejects :
  (well_bracketed [EDestroy 1; EDestroy 1; EVal 1 5%Z] || well_bracketed [EDestroy 2; ECopy 2 1; EDestroy 1; EVal 1 5%Z]
   || well_bracketed [EVal 1 5%Z] || well_bracketed [EFree 1; EFree 1; EAlloc 1] || well_bracketed [EDestroy 1; EDef 1; EDestroy 1; EDef 1]) = false.
Proof. vm_compute. reflexivity. Qed.

(* the model does see the defect the repair removes: Array::append without the copy reads the
   argument after reserve() destroyed it *)
Example unrepaired_append_is_an_error :
  match run (init 1) [ONew 0 KArray; OIns 0 PBack (AVal 0) (AVal 5); OIns 0 PBack (AVal 0) (AVal 6); OIns 0 PBack (AVal 0) (AVal 7)] with
  | Ok st => match getv (svars st) 0 with
             | Some (CA a) => match arr_append_fit a (hd 0 (aelems a)) (sw st) with
                              | Err (EUseAfterFree _) => true
                              | _ => false
                              end
             | _ => false
             end
  | Err _ => false
  end = true.
Proof. vm_compute. reflexivity. Qed.

(* ... and the same for append(const T*, n): `arr_append_range a (Some a) i n` takes the sources
   from the array as it was before reserve() - what the code did before the pointer was re-based *)
Example unrepaired_append_range_is_an_error :
  match run (init 1) [ONew 0 KArray; OIns 0 PBack (AVal 0) (AVal 5); OIns 0 PBack (AVal 0) (AVal 6); OIns 0 PBack (AVal 0) (AVal 7)] with
  | Ok st => match getv (svars st) 0 with
             | Some (CA a) => match arr_append_range a (Some a) 1 2 (sw st), arr_append_range a None 1 2 (sw st) with
                              | Err (EUseAfterFree _), Ok (a', _) => Nat.eqb (length (aelems a')) 5
                              | _, _ => false
                              end
             | _ => false
             end
  | Err _ => false
  end = true.
Proof. vm_compute. reflexivity. Qed.

Example copies_nonvacuous :
  match run (init 3) [ONew 0 KMultiMap; OIns 0 PBack (AVal 3) (AVal 1); OIns 0 PBack (AVal 3) (AVal 2)] with
  | Ok st1 => match step st1 (OCopyNew 1 0) with
              | Ok (true, st2) => match run st2 [OIns 1 PBack (AVal 1) (AVal 7); ORemAt 1 1; OClear 1] with
                                  | Ok st3 => match sget (abs st3) 0 with
                                              | Some (KMultiMap, [(Some 3, Some 1); (Some 3, Some 2)]%Z) => true
                                              | _ => false
                                              end
                                  | Err _ => false
                                  end
              | _ => false
              end
  | Err _ => false
  end = true.
Proof. vm_compute. reflexivity. Qed.

Example alias_nonvacuous :
  dealias_run (sinit 3) 2 [ONew 0 KList; OIns 0 PBack (AVal 0) (AVal 4); OIns 0 PFront (AVal 0) (AValOf 0 0); OAddAll 0 PBack 0; OAssign 0 0]
  = [ONew 0 KList; OIns 0 PBack (AVal 0) (AVal 4); OIns 0 PFront (AVal 0) (AVal 4);
     OCopyNew 2 0; OAddAll 0 PBack 2; ODel 2; OCopyNew 2 0; OAssign 0 2; ODel 2].
Proof. vm_compute. reflexivity. Qed.

Example alias_range_nonvacuous :
  dealias_run (sinit 3) 2 [ONew 0 KArray; OIns 0 PBack (AVal 0) (AVal 4); OIns 0 PBack (AVal 0) (AVal 5); OAppendRange 0 0 0 2]
  = [ONew 0 KArray; OIns 0 PBack (AVal 0) (AVal 4); OIns 0 PBack (AVal 0) (AVal 5);
     OCopyNew 2 0; OAppendRange 0 2 0 2; ODel 2] /\
  spec_run (sinit 3) [ONew 0 KArray; OIns 0 PBack (AVal 0) (AVal 4); OIns 0 PBack (AVal 0) (AVal 5); OAppendRange 0 0 0 2;
                      ORemVia VIter 0 1; ORemVia VBack 0 0; ORemVia VFront 0 0]
  = [Some (KArray, [(None, Some 4%Z)]); None; None].
Proof. split; vm_compute; reflexivity. Qed.

(* ---- third round ---- *)
Definition example_history3 : list op :=
  [ONew 0 KList; OIns 0 PBack (AVal 0) (AVal 5); OIns 0 PBack (AVal 0) (AVal 3); OIns 0 PBack (AVal 0) (AVal 9);
   OIns 0 PBack (AVal 0) (AVal 1); OIns 0 PBack (AVal 0) (AVal 3); OSort 0; OFind 0 (AValOf 0 1);
   ONewCap 1 KArray 5; OIns 1 PBack (AVal 0) (AVal 1); OAppendVals 1 [4; 5; 6; 7; 8]%Z; ODel 1;
   ONew 1 KPoolList; OEmplace 1 []; OEmplace 1 [AVal 5]; OEmplace 1 [AValOf 1 1; AVal 3];
   OEmplace 1 [AValOf 1 0; AValOf 1 1; AValOf 1 2; AVal 4; AVal 5; AVal 6; AVal 7];
   ONew 2 KMap; OIns 2 PBack (AVal 5) (AVal 50); OIns 2 PBack (AVal 3) (AVal 30); OInsHint 2 PFront (AVal 1) (AVal 10);
   OInsHint 2 (PAt 2) (AVal 5) (AVal 55); OInsHint 2 (PAt 0) (AKey 2 2) (AValOf 2 0); OAddAll 2 PBack 2; ODel 1;
   ONewCap 1 KHashSet 1; OIns 1 PBack (AVal 1) (AVal 0); OIns 1 PBack (AVal 2) (AVal 0); OAddAll 1 PBack 1; ORemAll 1 1].

Example lifetimes_nonvacuous3 :
  match run (init 3) example_history3 with
  | Ok st => match finish st with
             | Ok st' => well_bracketed (log (sw st')) && Nat.ltb 130 (length (log (sw st')))
             | Err _ => false
             end
  | Err _ => false
  end = true /\
  spec_run (sinit 3) example_history3 =
  [Some (KList, [(None, Some 1); (None, Some 3); (None, Some 3); (None, Some 5); (None, Some 9)]);
   Some (KHashSet, []);
   Some (KMap, [(Some 1, Some 10); (Some 3, Some 30); (Some 5, Some 10)])]%Z.
Proof. split; vm_compute; reflexivity. Qed.

(* sort: 18 exchanges through a temporary happen, and the instances are the same before and after *)
Example sort_nonvacuous :
  match run (init 1) [ONew 0 KList; OIns 0 PBack (AVal 0) (AVal 5); OIns 0 PBack (AVal 0) (AVal 3); OIns 0 PBack (AVal 0) (AVal 9);
                      OIns 0 PBack (AVal 0) (AVal 1); OIns 0 PBack (AVal 0) (AVal 3)] with
  | Ok st => match step st (OSort 0) with
             | Ok (true, st') => Nat.eqb (length (log (sw st'))) (length (log (sw st)) + 24) &&
                                 (fix eqb (a b : list nat) := match a, b with
                                                              | [], [] => true
                                                              | x :: a', y :: b' => Nat.eqb x y && eqb a' b'
                                                              | _, _ => false
                                                              end) (dom (heap (sw st'))) (dom (heap (sw st)))
             | _ => false
             end
  | Err _ => false
  end = true.
Proof. vm_compute. reflexivity. Qed.

(* the ledger rejects in-place construction from a dead instance, and a sort whose exchange leaves its
   temporary alive is not well bracketed *)
Example ledger_rejects3 :
  (well_bracketed [EDestroy 2; EMake 2 5%Z [1]; EDestroy 1; EVal 1 5%Z]
   || well_bracketed [EDestroy 1; EAssign 1 2; EAssign 1 1; ECopy 2 1; EVal 1 5%Z]) = false /\
  well_bracketed [EDestroy 1; EDestroy 2; EAssign 1 2; EAssign 1 1; ECopy 2 1; EVal 1 5%Z] = true.
Proof. split; vm_compute; reflexivity. Qed.

(* the position hint: end() behind a smaller key, an item in front of a greater key, the item with
   the key itself (assignment, no construction: EAssign only), a useless hint *)
Example hint_nonvacuous :
  match run (init 1) [ONew 0 KMap; OIns 0 PBack (AVal 5) (AVal 50); OInsHint 0 PBack (AVal 9) (AVal 90); OInsHint 0 (PAt 1) (AVal 7) (AVal 70)] with
  | Ok st => match step st (OInsHint 0 (PAt 1) (AVal 7) (AVal 71)), step st (OInsHint 0 PFront (AVal 8) (AVal 80)) with
             | Ok (true, st1), Ok (true, st2) =>
                 Nat.eqb (length (heap (sw st1))) (length (heap (sw st))) &&
                 Nat.eqb (length (heap (sw st2))) (length (heap (sw st)) + 2) &&
                 match sget (abs st1) 0, sget (abs st2) 0 with
                 | Some (KMap, [(Some 5, Some 50); (Some 7, Some 71); (Some 9, Some 90)]%Z),
                   Some (KMap, [(Some 5, Some 50); (Some 7, Some 70); (Some 8, Some 80); (Some 9, Some 90)]%Z) => true
                 | _, _ => false
                 end
             | _, _ => false
             end
  | Err _ => false
  end = true.
Proof. vm_compute. reflexivity. Qed.

Example alias_nonvacuous3 :
  dealias_run (sinit 3) 2 [ONew 0 KPoolList; OEmplace 0 [AVal 4]; OEmplace 0 [AValOf 0 0; AVal 1; AValOf 0 0];
                           ONew 1 KMap; OIns 1 PBack (AVal 2) (AVal 7); OInsHint 1 PFront (AKey 1 0) (AValOf 1 0); OFind 1 (AKey 1 0)]
  = [ONew 0 KPoolList; OEmplace 0 [AVal 4]; OEmplace 0 [AVal 4; AVal 1; AVal 4];
     ONew 1 KMap; OIns 1 PBack (AVal 2) (AVal 7); OInsHint 1 PFront (AVal 2) (AVal 7); OFind 1 (AVal 2)]%Z.
Proof. vm_compute. reflexivity. Qed.

(* ---- round 5 ---- *)
(* the wrappers with the container's own key / value as arguments, and their de-aliased form *)
Definition example_history5 : list op :=
  [ONew 0 KHashMap; OInsVia 0 true (AVal 1) (AVal 10); OInsVia 0 false (AVal 501) (AVal 20); OInsVia 0 true (AKey 0 1) (AValOf 0 0);
   OInsVia 0 true (AVal 7) (AValOf 0 1);
   ONew 1 KList; OInsVia 1 false (AVal 0) (AVal 4); OInsVia 1 true (AVal 0) (AValOf 1 0); OInsVia 1 false (AVal 0) (AValOf 1 1);
   ONew 2 KPoolMap; OInsVia 2 false (AVal 3) (AVal 0); OInsVia 2 true (AVal 4) (AVal 0); OInsVia 2 false (AKey 2 0) (AVal 0);
   ODel 2; ONew 2 KHashSet; OInsVia 2 true (AVal 2) (AVal 0); OInsVia 2 true (AVal 502) (AVal 0); OInsVia 2 false (AKey 2 1) (AVal 0);
   ODel 1; ONew 1 KMap; OInsVia 1 true (AVal 1) (AVal 1)].

Example wrappers_nonvacuous :
  match run (init 3) example_history5 with
  | Ok st => match finish st with
             | Ok st' => well_bracketed (log (sw st')) && Nat.ltb 60 (length (log (sw st')))
             | Err _ => false
             end
  | Err _ => false
  end = true /\
  spec_run (sinit 3) example_history5 =
  [Some (KHashMap, [(Some 7, Some 10); (Some 1, Some 10); (Some 501, Some 10)]);
   Some (KMap, []);
   Some (KHashSet, [(Some 502, None); (Some 2, None)])]%Z /\
  dealias_run (sinit 3) 2 [ONew 0 KHashMap; OInsVia 0 true (AVal 1) (AVal 10); OInsVia 0 true (AKey 0 0) (AValOf 0 0)]
  = [ONew 0 KHashMap; OInsVia 0 true (AVal 1) (AVal 10); OInsVia 0 true (AVal 1) (AVal 10)]%Z.
Proof. split; [|split]; vm_compute; reflexivity. Qed.

(* the MultiMap tie case: hint = the item with key 3, new key 5, the run 5 5 follows.  Offsets 0, 1, 2 are
   accepted (three different contents, all in key order, each with the 4 events of a plain insertion with
   temporaries: 2 constructions of the temporaries aside, 2 copies), offset 3 (behind the 7) is not; and
   the same call is not an OInsHint. *)
Example tie_nonvacuous :
  match run (init 1) [ONew 0 KMultiMap; OIns 0 PBack (AVal 3) (AVal 1); OIns 0 PBack (AVal 5) (AVal 2); OIns 0 PBack (AVal 5) (AVal 3);
                      OIns 0 PBack (AVal 7) (AVal 4)] with
  | Ok st =>
      match step st (OInsTie 0 (PAt 0) (AVal 5) (AVal 9) 0), step st (OInsTie 0 (PAt 0) (AVal 5) (AVal 9) 1),
            step st (OInsTie 0 (PAt 0) (AVal 5) (AVal 9) 2), step st (OInsTie 0 (PAt 0) (AVal 5) (AVal 9) 3),
            step st (OInsHint 0 (PAt 0) (AVal 5) (AVal 9)), step st (OIns 0 PBack (AVal 5) (AVal 9)) with
      | Ok (true, s0), Ok (true, s1), Ok (true, s2), Ok (false, _), Ok (false, _), Ok (true, sp) =>
          match sget (abs s0) 0, sget (abs s1) 0, sget (abs s2) 0, sget (abs sp) 0 with
          | Some (KMultiMap, [(Some 3, Some 1); (Some 5, Some 9); (Some 5, Some 2); (Some 5, Some 3); (Some 7, Some 4)]%Z),
            Some (KMultiMap, [(Some 3, Some 1); (Some 5, Some 2); (Some 5, Some 9); (Some 5, Some 3); (Some 7, Some 4)]%Z),
            Some (KMultiMap, [(Some 3, Some 1); (Some 5, Some 2); (Some 5, Some 3); (Some 5, Some 9); (Some 7, Some 4)]%Z),
            Some (KMultiMap, [(Some 3, Some 1); (Some 5, Some 2); (Some 5, Some 3); (Some 5, Some 9); (Some 7, Some 4)]%Z) =>
              Nat.eqb (length (log (sw s1))) (length (log (sw sp))) && Nat.eqb (length (heap (sw s0))) (length (heap (sw sp)))
          | _, _, _, _ => false
          end
      | _, _, _, _, _, _ => false
      end
  | Err _ => false
  end = true.
Proof. vm_compute. reflexivity. Qed.

(* ---- round 6 ---- *)
(* remove(index) on the array 5 6 7: index 3 = size, size + 1 and 2^64 - 1 are accepted and change nothing
   (same world, same log); index 2 names an element, so it is not an ORemOut; the open outcome Some 2 is the
   removal of the last element (one destruction more in the log, one live instance less), Some 3 is no
   outcome; remove(0) on an empty array is accepted and changes nothing; a List has no such call.  And a
   history through these calls ends with a well-bracketed log and nothing left. *)
Example remove_out_of_range_nonvacuous :
  match run (init 3) [ONew 0 KArray; OIns 0 PBack (AVal 0) (AVal 5); OIns 0 PBack (AVal 0) (AVal 6); OIns 0 PBack (AVal 0) (AVal 7);
                      ONew 1 KArray; ONew 2 KList; OIns 2 PBack (AVal 0) (AVal 1)] with
  | Ok st =>
      match step st (ORemOut 0 3 None), step st (ORemOut 0 4 None), step st (ORemOut 0 18446744073709551615 None),
            step st (ORemOut 0 2 None), step st (ORemOut 0 3 (Some 2)), step st (ORemOut 0 3 (Some 3)),
            step st (ORemOut 1 0 None), step st (ORemOut 2 1 None) with
      | Ok (true, s3), Ok (true, s4), Ok (true, sh), Ok (false, _), Ok (true, sl), Ok (false, _), Ok (true, se), Ok (false, _) =>
          Nat.eqb (length (log (sw s3))) (length (log (sw st))) && Nat.eqb (length (heap (sw s4))) (length (heap (sw st))) &&
          Nat.eqb (length (log (sw sh))) (length (log (sw st))) && Nat.eqb (length (log (sw se))) (length (log (sw st))) &&
          Nat.eqb (length (log (sw sl))) (S (length (log (sw st)))) && Nat.eqb (S (length (heap (sw sl)))) (length (heap (sw st))) &&
          match sget (abs s3) 0, sget (abs sl) 0 with
          | Some (KArray, [(None, Some 5); (None, Some 6); (None, Some 7)]%Z), Some (KArray, [(None, Some 5); (None, Some 6)]%Z) => true
          | _, _ => false
          end
      | _, _, _, _, _, _, _, _ => false
      end
  | Err _ => false
  end = true /\
  match run (init 2) [ONew 0 KArray; ORemOut 0 0 None; OIns 0 PBack (AVal 0) (AVal 5); OIns 0 PBack (AVal 0) (AValOf 0 0);
                      ORemOut 0 2 None; ORemOut 0 2 (Some 1); ORemOut 0 7 (Some 0); ORemOut 0 0 None; OIns 0 PBack (AVal 0) (AVal 9)] with
  | Ok st => match finish st with
             | Ok st' => well_bracketed (log (sw st')) && Nat.eqb (length (heap (sw st'))) 0 && Nat.ltb 8 (length (log (sw st')))
             | Err _ => false
             end
  | Err _ => false
  end = true.
Proof. split; vm_compute; reflexivity. Qed.
