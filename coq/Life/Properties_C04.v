(* Property C04 - statements closed by `exact`, each followed by Print Assumptions. *)
From Coq Require Import ZArith List.
From Life Require Import LifeSpec LifeModel.
Import ListNotations.
