(* MODEL of the lifetime behaviour of include/nstd/{Array,List,Map,MultiMap,HashMap,HashSet,
   PoolList,PoolMap}.hpp - what the code does to element INSTANCES, in the code's order.

   world    every element instance ever constructed has an id (the serial number of its
            construction); `heap` holds the live ones with their payload; `blks` holds the
            live allocations made by containers (Array storage, item blocks of 4 items,
            hash tables).  Every primitive appends an event to `log`.
   refs     a C++ reference to an element is the id of the instance living there.  Reading
            through it (`rd`, `mk_copy`, `assign`) fails with EUseAfterFree when that instance
            has been destroyed - this is what AddressSanitizer reports for the real code,
            because the harness element type frees its heap cell in its destructor.
   code     each container function is transcribed at the granularity "allocation made /
            element constructed from (value | copy of instance) / assigned / destroyed /
            allocation released", with the arguments read where the code dereferences them.
            Tree shape, bucket chains and link fields are not modelled (C01, C02, C03, C05).

   The model mirrors the code AFTER the repairs in /verif/fixes/C04 (self-assignment guards,
   MultiMap copy operations, Array::append/resize copying the argument before the storage is
   replaced, List::insert(pos, list) copying the list when it is the list itself,
   Array::append(const T*, usize) re-basing a pointer into its own storage after reserve()).

   Third round: the (capacity) constructors, find, PoolList::append(a1..an) (in-place
   construction, event EMake), Array::append(const T*, n) from elements outside every container,
   Map/MultiMap::insert(position, key, value) with its position hint (decision by decision, incl.
   the branch that assigns to the hinted element), Map::insert(const Map&) through that hinted
   insert, and List::sort - the in-place quicksort of the code as it is now, working on the
   sequence of items of a segment: elements are exchanged by `T tmp = a; a = b; b = tmp;`
   (copy-construct, two assignments, destroy), nodes never move.
   No proofs in this file. *)
From Coq Require Import ZArith NArith List Bool Arith.
From Life Require Import LifeSpec.
Import ListNotations.

Notation id := nat (only parsing).
Notation blk := nat (only parsing).

(* ---------------------------------------------------------------------------------------- *)
(* facts about the implementation that the property text does not fix                         *)
(* ---------------------------------------------------------------------------------------- *)
(* PoolMap::Item declares `V value; const T key;` - every other item declares the key first *)
Definition key_first (k : kind) : bool := match k with KPoolMap => false | _ => true end.
(* number of element instances inside the embedded end item (`Item endItem`) *)
Definition sent_count (k : kind) : nat :=
  match k with KArray | KPoolList => 0 | KList | KHashSet => 1 | _ => 2 end.
Definition fields (k : kind) : nat := stored_fields k.
(* element instances alive when no operation is in progress, as a function of the abstract
   state: one per field of every stored item, plus those of the end items *)
Definition slive_var (v : avar) : nat :=
  match v with Some (k, l) => sent_count k + fields k * length l | None => 0 end.
Definition slive (s : sstate) : nat := fold_right (fun v n => slive_var v + n) 0 s.
(* the instances the containers keep for themselves (what an empty container holds) *)
Definition sbase_var (v : avar) : nat := match v with Some (k, _) => sent_count k | None => 0 end.
Definition sbase (s : sstate) : nat := fold_right (fun v n => sbase_var v + n) 0 s.

Inductive event :=
| EDef (i : id)                (* T()            *)
| EVal (i : id) (v : Z)        (* T(int)         *)
| ECopy (i s : id)             (* T(const T& s)  *)
| EMake (i : id) (v : Z) (srcs : list id)
                               (* T(a1, ..., an): reads the instances srcs, payload v *)
| EAssign (d s : id)           (* d = s          *)
| EDestroy (i : id)            (* ~T()           *)
| EAlloc (b : blk)             (* new char[...]  *)
| EFree (b : blk).             (* delete[]       *)

Inductive err :=
| EUseAfterFree (i : id)       (* read / assignment through a reference to a dead instance *)
| EDoubleDestroy (i : id)      (* destructor run on a dead instance *)
| EBadFree (b : blk).          (* delete[] of an allocation that is not live *)

Inductive res (A : Type) := Ok (a : A) | Err (e : err).
Arguments Ok {A} a.
Arguments Err {A} e.

Record world := mkW {
  nxt : id;                    (* next instance id *)
  heap : list (id * Z);        (* live instances and their payload *)
  nblk : blk;                  (* next allocation id *)
  blks : list blk;             (* live allocations *)
  log : list event             (* newest first *)
}.

Definition w0 : world := mkW 1 [] 1 [] [].

Definition M (A : Type) := world -> res (A * world).
Definition ret {A} (a : A) : M A := fun w => Ok (a, w).
Definition bind {A B} (m : M A) (f : A -> M B) : M B :=
  fun w => match m w with Ok (a, w') => f a w' | Err e => Err e end.
Notation "x <- m ;; f" := (bind m (fun x => f)) (at level 61, m at next level, right associativity).
Notation "m ;;; f" := (bind m (fun _ => f)) (at level 61, right associativity).

Fixpoint lookup (i : id) (h : list (id * Z)) : option Z :=
  match h with
  | [] => None
  | (j, v) :: t => if Nat.eqb j i then Some v else lookup i t
  end.
Fixpoint rm1 (i : id) (h : list (id * Z)) : list (id * Z) :=
  match h with
  | [] => []
  | (j, v) :: t => if Nat.eqb j i then t else (j, v) :: rm1 i t
  end.
Fixpoint setv (i : id) (z : Z) (h : list (id * Z)) : list (id * Z) :=
  match h with
  | [] => []
  | (j, v) :: t => if Nat.eqb j i then (j, z) :: t else (j, v) :: setv i z t
  end.
(* membership / removal of the first occurrence in a list of ids or allocation numbers *)
Definition memn (i : nat) (l : list nat) : bool := existsb (Nat.eqb i) l.
Fixpoint rmn (i : nat) (l : list nat) : list nat :=
  match l with [] => [] | c :: t => if Nat.eqb c i then t else c :: rmn i t end.

(* ---- primitives ---- *)
Definition rd (i : id) : M Z :=
  fun w => match lookup i (heap w) with Some v => Ok (v, w) | None => Err (EUseAfterFree i) end.

Definition mk (v : Z) (e : id -> event) : M id :=
  fun w => let i := nxt w in
           Ok (i, mkW (S i) ((i, v) :: heap w) (nblk w) (blks w) (e i :: log w)).
Definition mk_def : M id := mk 0%Z EDef.
Definition mk_val (v : Z) : M id := mk v (fun i => EVal i v).
Definition mk_copy (s : id) : M id := v <- rd s ;; mk v (fun i => ECopy i s).

Definition assign (d s : id) : M unit :=
  fun w => match lookup s (heap w), lookup d (heap w) with
           | Some v, Some _ => Ok (tt, mkW (nxt w) (setv d v (heap w)) (nblk w) (blks w) (EAssign d s :: log w))
           | None, _ => Err (EUseAfterFree s)
           | _, None => Err (EUseAfterFree d)
           end.

Definition destroy (i : id) : M unit :=
  fun w => match lookup i (heap w) with
           | Some _ => Ok (tt, mkW (nxt w) (rm1 i (heap w)) (nblk w) (blks w) (EDestroy i :: log w))
           | None => Err (EDoubleDestroy i)
           end.

Definition balloc : M blk :=
  fun w => let b := nblk w in
           Ok (b, mkW (nxt w) (heap w) (S b) (b :: blks w) (EAlloc b :: log w)).
Definition bfree (b : blk) : M unit :=
  fun w => if memn b (blks w)
           then Ok (tt, mkW (nxt w) (heap w) (nblk w) (rmn b (blks w)) (EFree b :: log w))
           else Err (EBadFree b).

(* ---- loops ---- *)
Fixpoint destroy_list (l : list id) : M unit :=
  match l with [] => ret tt | i :: r => destroy i ;;; destroy_list r end.
Fixpoint copy_list (l : list id) : M (list id) :=
  match l with [] => ret [] | s :: r => i <- mk_copy s ;; r' <- copy_list r ;; ret (i :: r') end.
(* Array::reserve: placement-copy-construct dest from src, then destroy src, per element *)
Fixpoint move_list (l : list id) : M (list id) :=
  match l with
  | [] => ret []
  | s :: r => i <- mk_copy s ;; destroy s ;;; r' <- move_list r ;; ret (i :: r')
  end.
(* Array::remove: dest[0] = dest[1] down the tail *)
Fixpoint shift_down (l : list id) : M unit :=
  match l with
  | d :: r => match r with s :: _ => assign d s ;;; shift_down r | [] => ret tt end
  | [] => ret tt
  end.
Fixpoint fill (n : nat) (s : id) : M (list id) :=
  match n with O => ret [] | S n' => i <- mk_copy s ;; r <- fill n' s ;; ret (i :: r) end.
Fixpoint rd_list (l : list id) : M (list Z) :=
  match l with [] => ret [] | i :: r => v <- rd i ;; vs <- rd_list r ;; ret (v :: vs) end.
Fixpoint def_list (n : nat) : M (list id) :=
  match n with O => ret [] | S n' => i <- mk_def ;; r <- def_list n' ;; ret (i :: r) end.
Fixpoint bfree_list (l : list blk) : M unit :=
  match l with [] => ret tt | b :: r => bfree b ;;; bfree_list r end.
Fixpoint mk_vals (zs : list Z) : M (list id) :=
  match zs with [] => ret [] | z :: r => i <- mk_val z ;; l <- mk_vals r ;; ret (i :: l) end.

(* ---------------------------------------------------------------------------------------- *)
(* Array<T>                                                                                   *)
(* ---------------------------------------------------------------------------------------- *)
Record arr := mkA { acap : nat; astore : option blk; aelems : list id }.

Definition or3 (n : nat) : nat := n + (3 - n mod 4).      (* n | 0x03 *)
Definition set_elems (a : arr) (l : list id) : arr := mkA (acap a) (astore a) l.

Definition arr_new : arr := mkA 0 None [].

(* void reserve(usize size) *)
Definition arr_reserve (a : arr) (n : nat) : M arr :=
  if (acap a <? n) || (match astore a with None => 0 <? n | Some _ => false end) then
    let cap := or3 (Nat.max (acap a) n) in
    b <- balloc ;;
    match astore a with
    | Some ob => l <- move_list (aelems a) ;; bfree ob ;;; ret (mkA cap (Some b) l)
    | None => ret (mkA cap (Some b) [])
    end
  else ret a.

(* T& append(const T& value), the part after the growth test *)
Definition arr_append_fit (a : arr) (r : id) : M arr :=
  a1 <- arr_reserve a (S (length (aelems a))) ;;
  i <- mk_copy r ;;
  ret (set_elems a1 (aelems a1 ++ [i])).
(* repaired: when reserve() is going to replace the storage, value is copied first *)
Definition arr_append (a : arr) (r : id) : M arr :=
  if acap a <? S (length (aelems a)) then
    t <- mk_copy r ;;
    a1 <- arr_reserve a (S (length (aelems a))) ;;
    a2 <- arr_append_fit a1 t ;;
    destroy t ;;;
    ret a2
  else arr_append_fit a r.

Definition arr_resize_fit (a : arr) (n : nat) (r : id) : M arr :=
  a1 <- arr_reserve a n ;;
  l <- fill (n - length (aelems a1)) r ;;
  ret (set_elems a1 (aelems a1 ++ l)).
(* void resize(usize size, const T& value) - repaired like append *)
Definition arr_resize (a : arr) (n : nat) (r : id) : M arr :=
  if n <? length (aelems a) then
    destroy_list (skipn n (aelems a)) ;;;
    ret (set_elems a (firstn n (aelems a)))
  else if acap a <? n then
    t <- mk_copy r ;;
    a1 <- arr_reserve a n ;;
    a2 <- arr_resize_fit a1 n t ;;
    destroy t ;;;
    ret a2
  else arr_resize_fit a n r.

(* void remove(usize index) *)
Definition arr_remove (a : arr) (i : nat) : M arr :=
  if i <? length (aelems a) then
    shift_down (skipn i (aelems a)) ;;;
    destroy (last (aelems a) 0) ;;;
    ret (set_elems a (removelast (aelems a)))
  else ret a.

Definition arr_clear (a : arr) : M arr :=
  match astore a with
  | Some _ => destroy_list (aelems a) ;;; ret (set_elems a [])
  | None => ret a
  end.

Definition arr_dtor (a : arr) : M unit :=
  match astore a with
  | Some b => destroy_list (aelems a) ;;; bfree b
  | None => ret tt
  end.

(* Array(const Array& other) *)
Definition arr_copy_new (o : arr) : M arr :=
  a1 <- arr_reserve arr_new (acap o) ;;
  l <- copy_list (aelems o) ;;
  ret (set_elems a1 l).

(* Array& operator=(const Array& other), other != this (the repaired code returns at once
   when other == this) *)
Definition arr_assign (a o : arr) : M arr :=
  a1 <- arr_clear a ;;
  a2 <- arr_reserve a1 (acap o) ;;
  l <- copy_list (aelems o) ;;
  ret (set_elems a2 l).

(* void append(const Array& values); o = None: values is this array itself - the code reads
   values._begin only after reserve(), so it sees the new storage *)
Definition arr_append_arr (a : arr) (o : option arr) : M arr :=
  let n := length (aelems (match o with Some y => y | None => a end)) in
  a1 <- arr_reserve a (length (aelems a) + n) ;;
  l <- copy_list (firstn n (aelems (match o with Some y => y | None => a1 end))) ;;
  ret (set_elems a1 (aelems a1 ++ l)).

(* void append(const T* values, usize size) with values = &y[i]; o = Some y: another array;
   o = None: values points into this array's own storage - the repaired code notes the offset,
   calls reserve() and re-bases values onto the (possibly new) storage, so the sources are the
   instances that live at the same indices after reserve() *)
Definition arr_append_range (a : arr) (o : option arr) (i n : nat) : M arr :=
  a1 <- arr_reserve a (length (aelems a) + n) ;;
  l <- copy_list (firstn n (skipn i (aelems (match o with Some y => y | None => a1 end)))) ;;
  ret (set_elems a1 (aelems a1 ++ l)).

(* explicit Array(usize capacity) : _capacity(capacity) - no storage yet *)
Definition arr_new_cap (n : nat) : arr := mkA n None [].

(* Iterator find(const T& value) const: compares, changes nothing *)
Definition arr_find (a : arr) (r : id) : M arr :=
  _ <- rd r ;; _ <- rd_list (aelems a) ;; ret a.

(* void append(const T* values, usize size) with values outside this array: the else branch *)
Definition arr_append_ids (a : arr) (srcs : list id) : M arr :=
  a1 <- arr_reserve a (length (aelems a) + length srcs) ;;
  l <- copy_list srcs ;;
  ret (set_elems a1 (aelems a1 ++ l)).
(* the caller's buffer `T buf[n]` lives around the call: constructed in index order, destroyed in
   reverse order *)
Definition arr_append_vals (a : arr) (zs : list Z) : M arr :=
  ts <- mk_vals zs ;; a' <- arr_append_ids a ts ;; destroy_list (rev ts) ;;; ret a'.

(* ---------------------------------------------------------------------------------------- *)
(* node containers: List, Map, MultiMap, HashMap, HashSet, PoolList, PoolMap                  *)
(* ---------------------------------------------------------------------------------------- *)
(* an item; `nk` / `nv` is meaningful when the kind has a key / a value *)
Record node := mkN { nk : id; nv : id }.
Record nc := mkC {
  ckind : kind;
  csent : list id;             (* instances inside the embedded end item, construction order *)
  citems : list node;          (* the items, iteration order *)
  cfree : nat;                 (* length of the free-item list *)
  cblks : list blk;            (* item blocks, newest first (the `blocks` chain) *)
  ctable : option blk          (* hash table `data` *)
}.

(* instances of an item in construction order (= declaration order of Item's members) *)
Definition node_ids (k : kind) (n : node) : list id :=
  let ks := if has_key k then [nk n] else [] in
  let vs := if has_val k then [nv n] else [] in
  if key_first k then ks ++ vs else vs ++ ks.
Definition items_ids (k : kind) (l : list node) : list id := flat_map (node_ids k) l.
(* the instances `find` compares the argument with *)
Definition sel_ids (k : kind) (l : list node) : list id :=
  map (fun n => if has_key k then nk n else nv n) l.

Definition set_items (c : nc) (l : list node) (f : nat) : nc :=
  mkC (ckind c) (csent c) l f (cblks c) (ctable c).

(* default constructor: `Item endItem` default-constructs its key and value *)
Definition nc_new (k : kind) : M nc :=
  s <- def_list (sent_count k) ;; ret (mkC k s [] 0 [] None).

(* take an item from the free list; a new block of 4 items when it is empty *)
Definition nc_alloc_item (c : nc) : M nc :=
  match cfree c with
  | O => b <- balloc ;; ret (mkC (ckind c) (csent c) (citems c) 3 (b :: cblks c) (ctable c))
  | S f => ret (mkC (ckind c) (csent c) (citems c) f (cblks c) (ctable c))
  end.
Definition nc_ensure_table (c : nc) : M nc :=
  if has_table (ckind c) then
    match ctable c with
    | Some _ => ret c
    | None => b <- balloc ;; ret (mkC (ckind c) (csent c) (citems c) (cfree c) (cblks c) (Some b))
    end
  else ret c.

(* where the value of a new item comes from *)
Inductive vsrc := VRef (i : id) | VInt (z : Z) | VDefault.

Definition mk_value (v : vsrc) : M id :=
  match v with VRef i => mk_copy i | VInt z => mk_val z | VDefault => mk_def end.

(* new(item) Item(key, value): members in declaration order *)
Definition build_node (k : kind) (kr : id) (v : vsrc) : M node :=
  if key_first k then
    ki <- (if has_key k then mk_copy kr else ret 0) ;;
    vi <- (if has_val k then mk_value v else ret 0) ;;
    ret (mkN ki vi)
  else
    vi <- (if has_val k then mk_value v else ret 0) ;;
    ki <- (if has_key k then mk_copy kr else ret 0) ;;
    ret (mkN ki vi).

Definition nc_fresh (c : nc) (p : nat) (kr : id) (v : vsrc) : M nc :=
  c1 <- nc_ensure_table c ;;
  c2 <- nc_alloc_item c1 ;;
  n <- build_node (ckind c) kr v ;;
  ret (set_items c2 (insert_at p n (citems c2)) (cfree c2)).

(* insert(position, key, value) and its relatives.  kr / v refer to the arguments. *)
Definition nc_insert (c : nc) (p : pos) (kr : id) (v : vsrc) : M nc :=
  let k := ckind c in
  if has_key k then
    kz <- rd kr ;;
    keys <- rd_list (sel_ids k (citems c)) ;;
    match (if unique k then find_idx kz keys else None) with
    | Some j =>
        if dup_assign k then
          match nth_error (citems c) j, v with
          | Some n, VRef s => assign (nv n) s ;;; ret c
          | _, _ => ret c
          end
        else ret c
    | None => nc_fresh c (if sorted k then ins_pos kz keys else pos_idx p (length (citems c))) kr v
    end
  else nc_fresh c (pos_idx p (length (citems c))) kr v.

(* remove(iterator): item->~Item() destroys the members in reverse declaration order *)
Definition nc_remove_at (c : nc) (j : nat) : M nc :=
  match nth_error (citems c) j with
  | Some n => destroy_list (rev (node_ids (ckind c) n)) ;;;
              ret (set_items c (remove_at j (citems c)) (S (cfree c)))
  | None => ret c
  end.

(* remove(const T& key) / List::remove(const T& value): find, then remove(iterator) *)
Definition nc_remove_key (c : nc) (kr : id) : M nc :=
  kz <- rd kr ;;
  keys <- rd_list (sel_ids (ckind c) (citems c)) ;;
  match find_idx kz keys with
  | Some j => nc_remove_at c j
  | None => ret c
  end.

Fixpoint destroy_nodes (k : kind) (l : list node) : M unit :=
  match l with
  | [] => ret tt
  | n :: r => destroy_list (rev (node_ids k n)) ;;; destroy_nodes k r
  end.

Definition nc_clear (c : nc) : M nc :=
  destroy_nodes (ckind c) (citems c) ;;;
  ret (set_items c [] (cfree c + length (citems c))).

(* destructor: delete[] data; items; blocks; then the embedded end item *)
Definition nc_dtor (c : nc) : M unit :=
  (match ctable c with Some t => bfree t | None => ret tt end) ;;;
  destroy_nodes (ckind c) (citems c) ;;;
  bfree_list (cblks c) ;;;
  destroy_list (rev (csent c)).

(* for(i in other) insert(i->key, i->value) *)
Fixpoint nc_insert_all (c : nc) (p : pos) (src : list node) : M nc :=
  match src with
  | [] => ret c
  | n :: r => c1 <- nc_insert c p (nk n) (VRef (nv n)) ;; nc_insert_all c1 (pos_next p) r
  end.

Definition nc_copy_new (o : nc) : M nc :=
  c0 <- nc_new (ckind o) ;; nc_insert_all c0 PBack (citems o).

(* operator=, other != this *)
Definition nc_assign (c o : nc) : M nc :=
  c1 <- nc_clear c ;; nc_insert_all c1 PBack (citems o).

(* List::insert(pos, list) / Map::insert(map) / HashSet::append(set); o = None: the argument
   is the container itself.  The repaired List copies itself first; Map and HashSet find every
   key present and change nothing structurally. *)
Definition nc_add_all (c : nc) (p : pos) (o : option nc) : M nc :=
  match o with
  | Some y => nc_insert_all c p (citems y)
  | None =>
      match ckind c with
      | KList =>
          match citems c with
          | [] => ret c                           (* if (list.endItem.prev == 0) return position; *)
          | _ => t <- nc_copy_new c ;; c1 <- nc_insert_all c p (citems t) ;; nc_dtor t ;;; ret c1
          end
      | _ => nc_insert_all c p (citems c)
      end
  end.

(* HashSet::remove(set): for(i in other) remove(i->key) *)
Fixpoint nc_remove_keys (c : nc) (src : list node) : M nc :=
  match src with
  | [] => ret c
  | n :: r => c1 <- nc_remove_key c (nk n) ;; nc_remove_keys c1 r
  end.

(* swap exchanges the chains, the free list, the blocks and the table - not the end items *)
Definition nc_swap (a b : nc) : nc * nc :=
  (mkC (ckind a) (csent a) (citems b) (cfree b) (cblks b) (ctable b),
   mkC (ckind b) (csent b) (citems a) (cfree a) (cblks a) (ctable a)).

(* find(const T& key) const / List::find(const T& value) const *)
Definition nc_find (c : nc) (kr : id) : M nc :=
  _ <- rd kr ;; _ <- rd_list (sel_ids (ckind c) (citems c)) ;; ret c.

(* ---- Map / MultiMap: insert(const Iterator& position, const T& key, const V& value) ----
   h is the index of the item `position` points at (h = size: position == end()).  `root` is
   insert(&root, 0, key, value); `local j` is insert(&cell, parent, key, value) started at a child
   cell of the hinted item (or of the last item): the comparisons made before it guarantee - for a
   sorted item chain, and outside the MultiMap case singled out by hint_tie - that the descent
   ends in an empty cell and that the new item is linked at index j. *)
Definition nc_insert_hint (c : nc) (p : pos) (kr vr : id) : M nc :=
  let k := ckind c in
  kz <- rd kr ;;
  keys <- rd_list (sel_ids k (citems c)) ;;
  let h := pos_idx p (length (citems c)) in
  let root := nc_insert c PBack kr (VRef vr) in
  let local (j : nat) := nc_fresh c j kr (VRef vr) in
  match nth_error keys h with
  | None =>                                  (* insertPos == &endItem *)
      match h with
      | O => root                            (* prev == 0 *)
      | S h' => match nth_error keys h' with
                | Some pk => if Z.ltb pk kz then local h else root      (* key > prev->key *)
                | None => root
                end
      end
  | Some hk =>
      if Z.ltb kz hk then                    (* key < insertPos->key *)
        match h with
        | O => local h                       (* !prev *)
        | S h' => match nth_error keys h' with
                  | Some pk => if (if unique k then Z.ltb pk kz else Z.leb pk kz) then local h else root
                  | None => root
                  end
        end
      else if (if unique k then Z.ltb hk kz else true) then   (* Map: key > insertPos->key; MultiMap: else *)
        match nth_error keys (S h) with
        | None => local (S h)                (* next == &endItem *)
        | Some nk => if (if unique k then Z.ltb kz nk else Z.leb kz nk) then local (S h) else root
        end
      else                                   (* Map, equal keys: insertPos->value = value; *)
        match nth_error (citems c) h with
        | Some n => assign (nv n) vr ;;; ret c
        | None => ret c
        end
  end.

(* the MultiMap case the function above does not decide (hint_tie: key of the hinted item <= key, key of
   the item behind it == key): the code calls insert(&insertPos->right, insertPos, key, value); the
   descent compares with the keys of the hinted item's right subtree (a part, given by the tree shape, of
   the run of equal keys that follows) and links the new item j places behind the hinted item's
   successor position - j is an input of the model *)
Definition nc_insert_tie (c : nc) (p : pos) (kr vr : id) (j : nat) : M nc :=
  _ <- rd kr ;;
  _ <- rd_list (sel_ids (ckind c) (citems c)) ;;
  nc_fresh c (S (pos_idx p (length (citems c))) + j) kr (VRef vr).

(* Map::insert(const Map& other): the first item by insert(&root, 0, ...), every further item by
   the hinted insert, the hint being the iterator the previous insertion returned - the item that
   carries the previous key (pk: that key in `other`).  Its index is looked up by value. *)
Fixpoint nc_insert_all_map (c : nc) (prev : option id) (src : list node) : M nc :=
  match src with
  | [] => ret c
  | n :: r =>
      c1 <- (match prev with
             | None => nc_insert c PBack (nk n) (VRef (nv n))
             | Some pk =>
                 pz <- rd pk ;;
                 keys <- rd_list (sel_ids (ckind c) (citems c)) ;;
                 nc_insert_hint c (match find_idx pz keys with Some j => PAt j | None => PBack end) (nk n) (nv n)
             end) ;;
      nc_insert_all_map c1 (Some (nk n)) r
  end.

(* o = None: other is this map itself *)
Definition nc_add_all_map (c : nc) (o : option nc) : M nc :=
  nc_insert_all_map c None (citems (match o with Some y => y | None => c end)).

(* ---- PoolList::append(a1, ..., an) ---- *)
(* what an argument refers to: a temporary the caller constructs from an integer, an existing
   instance, or a by-value parameter that the caller copy-constructs from an existing instance *)
Inductive rarg := RTmp (z : Z) | RRef (i : id) | RCopy (i : id).

(* the constructor T(a1, ..., an) reads its arguments in order: integers are passed as such,
   references are read through *)
Fixpoint rd_args (rs : list rarg) : M (list Z) :=
  match rs with
  | [] => ret []
  | RTmp z :: r => vs <- rd_args r ;; ret (z :: vs)
  | RRef i :: r | RCopy i :: r => v <- rd i ;; vs <- rd_args r ;; ret (v :: vs)
  end.
Definition ref_ids (rs : list rarg) : list id :=
  flat_map (fun r => match r with RTmp _ => [] | RRef i | RCopy i => [i] end) rs.
(* allocateFreeItem(); new (item) T(args...); linkFreeItem() *)
Definition nc_emplace (c : nc) (rs : list rarg) : M nc :=
  c1 <- nc_alloc_item c ;;
  i <- (match rs with
        | [] => mk_def
        | _ => vs <- rd_args rs ;; mk (zsum vs) (fun i => EMake i (zsum vs) (ref_ids rs))
        end) ;;
  ret (set_items c1 (citems c1 ++ [mkN 0 i]) (cfree c1)).

(* ---- List::sort() ----
   QuickSort::swap(a, b): T tmp = a->value; a->value = b->value; b->value = tmp; and tmp dies *)
Definition swap_vals (a b : id) : M unit :=
  t <- mk_copy a ;; assign a b ;;; assign b t ;;; destroy t.

(* the partition loop of QuickSort::sort(left, right).  pv: the pivot `left->value`; S: the items
   left+1 .. ptr1 (values less than the pivot), G: the items ptr1+1 .. ptr2, rest: ptr2+1 .. right *)
Fixpoint qpart (pv : id) (Ls Gs rest : list id) : M (list id * list id) :=
  match rest with
  | [] => ret (Ls, Gs)
  | x :: r =>
      vx <- rd x ;; vp <- rd pv ;;
      if Z.ltb vx vp then                     (* ptr0 = ptr1; ptr1 = ptr1->next; swap(ptr1, ptr2); ++less *)
        match Gs with
        | [] => swap_vals x x ;;; qpart pv (Ls ++ [x]) [] r            (* ptr1 == ptr2 *)
        | g :: G' => swap_vals g x ;;; qpart pv (Ls ++ [g]) (G' ++ [x]) r
        end
      else qpart pv Ls (Gs ++ [x]) r            (* ++other *)
  end.

(* QuickSort::sort(left, right) on the items seg = left .. right (at least two).  After the loop:
   swap(left, ptr1); the items left .. ptr0 hold the values less than the pivot, ptr1 the pivot,
   the items behind it the others.  Parts of fewer than two items are not sorted; the shorter side
   first (by recursion), then the longer one (by the enclosing for(;;)). *)
Fixpoint qsort (fuel : nat) (seg : list id) : M unit :=
  match fuel with
  | O => ret tt
  | S f =>
      match seg with
      | [] => ret tt
      | lft :: rest =>
          sg <- qpart lft [] [] rest ;;
          let (Ls, Gs) := sg in
          swap_vals lft (last Ls lft) ;;;
          let L := match Ls with [] => [] | _ => lft :: removelast Ls end in
          let sortL := if 2 <=? length L then qsort f L else ret tt in
          let sortG := if 2 <=? length Gs then qsort f Gs else ret tt in
          if length Ls <? length Gs then sortL ;;; sortG else sortG ;;; sortL
      end
  end.

Definition nc_sort (c : nc) : M nc :=
  let ids := map nv (citems c) in
  (* if(endItem.prev == 0 || _begin.item == endItem.prev) return; *)
  if 2 <=? length ids then qsort (length ids) ids ;;; ret c else ret c.

(* ---------------------------------------------------------------------------------------- *)
(* the program state: container variables                                                     *)
(* ---------------------------------------------------------------------------------------- *)
Inductive cont := CA (a : arr) | CN (c : nc).
Record state := mkS { sw : world; svars : list (option cont) }.

Definition init (nv : nat) : state := mkS w0 (repeat None nv).

Definition getv (vs : list (option cont)) (x : nat) : option cont :=
  match nth_error vs x with Some v => v | None => None end.
Definition isdead (vs : list (option cont)) (x : nat) : bool :=
  match nth_error vs x with Some None => true | _ => false end.
Definition kind_of (c : cont) : kind := match c with CA _ => KArray | CN n => ckind n end.

Definition marg_key (vs : list (option cont)) (a : arg) : option rarg :=
  match a with
  | AVal z => Some (RTmp z)
  | AKey y i => match getv vs y with
                | Some (CN c) => if has_key (ckind c)
                                 then option_map (fun n => RRef (nk n)) (nth_error (citems c) i)
                                 else None
                | _ => None
                end
  | AValOf _ _ => None
  end.
Definition marg_val (vs : list (option cont)) (a : arg) : option rarg :=
  match a with
  | AVal z => Some (RTmp z)
  | AValOf y i => match getv vs y with
                  | Some (CN c) => if has_val (ckind c)
                                   then option_map (fun n => RRef (nv n)) (nth_error (citems c) i)
                                   else None
                  | Some (CA a) => option_map RRef (nth_error (aelems a) i)
                  | None => None
                  end
  | AKey _ _ => None
  end.

Fixpoint marg_vals (vs : list (option cont)) (args : list arg) : option (list rarg) :=
  match args with
  | [] => Some []
  | a :: r => match marg_val vs a, marg_vals vs r with
              | Some x, Some xs => Some (x :: xs)
              | _, _ => None
              end
  end.

(* the caller's temporary lives around the call: `Tracked t(z); f(t);` *)
Definition with_arg {A} (r : rarg) (body : id -> M A) : M A :=
  match r with
  | RTmp z => t <- mk_val z ;; a <- body t ;; destroy t ;;; ret a
  | RRef i => body i
  | RCopy i => t <- mk_copy i ;; a <- body t ;; destroy t ;;; ret a
  end.

(* the insertion call with its argument temporaries: key first, value second *)
Definition nc_ins_args (n : nc) (p : pos) (rk rv : rarg) : M nc :=
  let k := ckind n in
  match k, rv with
  | KPoolList, RTmp z => nc_insert n PBack 0 (VInt z)     (* list.append<int>(z): T(z) is built in place *)
  | KPoolList, RRef i =>                                  (* list.append(v) deduces `template<typename A> append(A a)` with
                                                             A = T: the parameter is a copy made by the caller, the item
                                                             is built from it, the caller destroys it after the call *)
      with_arg (RCopy i) (fun t => nc_insert n PBack 0 (VRef t))
  | KPoolList, RCopy i => nc_insert n PBack 0 (VRef i)    (* not produced by `step` *)
  | _, _ =>
      with_arg rk (fun kr =>
        if val_default k then nc_insert n (ins_p k p) kr VDefault
        else with_arg rv (fun vr => nc_insert n (ins_p k p) kr (VRef vr)))
  end.

Definition put (st : state) (x : nat) (m : M cont) : res (bool * state) :=
  match m (sw st) with
  | Ok (c, w) => Ok (true, mkS w (set_at x (Some c) (svars st)))
  | Err e => Err e
  end.
Definition skip (st : state) : res (bool * state) := Ok (false, st).
Definition lift {A B} (f : A -> B) (m : M A) : M B := a <- m ;; ret (f a).

(* remove(iterator) / Array::remove(index); Array::remove(const Iterator&), removeFront() and
   removeBack() are this same code (a second copy of the shift loop in Array, `return
   remove(_begin)` / `remove(_end.item->prev)` elsewhere) *)
Definition rem_at (st : state) (x i : nat) : res (bool * state) :=
  match getv (svars st) x with
  | Some (CA a) => if i <? length (aelems a) then put st x (lift CA (arr_remove a i)) else skip st
  | Some (CN n) => if i <? length (citems n) then put st x (lift CN (nc_remove_at n i)) else skip st
  | None => skip st
  end.
Definition clen (c : cont) : nat :=
  match c with CA a => length (aelems a) | CN n => length (citems n) end.

(* the payload an argument denotes (decides whether a hinted MultiMap insert is the case left open) *)
Definition val (w : world) (i : id) : Z := match lookup i (heap w) with Some v => v | None => 0%Z end.
Definition rarg_val (w : world) (r : rarg) : Z :=
  match r with RTmp z => z | RRef i | RCopy i => val w i end.

Definition step (st : state) (o : op) : res (bool * state) :=
  let vs := svars st in
  match o with
  | ONew x k =>
      if isdead vs x then
        if is_array k then put st x (ret (CA arr_new)) else put st x (lift CN (nc_new k))
      else skip st
  | ODel x =>
      match getv vs x with
      | Some c =>
          match (match c with CA a => arr_dtor a | CN n => nc_dtor n end) (sw st) with
          | Ok (_, w) => Ok (true, mkS w (set_at x None vs))
          | Err e => Err e
          end
      | None => skip st
      end
  | OCopyNew x y =>
      match getv vs y with
      | Some c =>
          if isdead vs x && copyable (kind_of c) then
            put st x (match c with CA a => lift CA (arr_copy_new a) | CN n => lift CN (nc_copy_new n) end)
          else skip st
      | None => skip st
      end
  | OAssign x y =>
      match getv vs x, getv vs y with
      | Some cx, Some cy =>
          if kind_eqb (kind_of cx) (kind_of cy) && copyable (kind_of cx) then
            if Nat.eqb x y then Ok (true, st)         (* if(this == &other) return *this; *)
            else match cx, cy with
                 | CA a, CA b => put st x (lift CA (arr_assign a b))
                 | CN a, CN b => put st x (lift CN (nc_assign a b))
                 | _, _ => skip st
                 end
          else skip st
      | _, _ => skip st
      end
  | OSwap x y =>
      match getv vs x, getv vs y with
      | Some cx, Some cy =>
          if kind_eqb (kind_of cx) (kind_of cy) && can_swap (kind_of cx) then
            if Nat.eqb x y then Ok (true, st)
            else match cx, cy with
                 | CA a, CA b => Ok (true, mkS (sw st) (set_at y (Some (CA a)) (set_at x (Some (CA b)) vs)))
                 | CN a, CN b => let (a', b') := nc_swap a b in
                                 Ok (true, mkS (sw st) (set_at y (Some (CN b')) (set_at x (Some (CN a')) vs)))
                 | _, _ => skip st
                 end
          else skip st
      | _, _ => skip st
      end
  | OClear x =>
      match getv vs x with
      | Some (CA a) => put st x (lift CA (arr_clear a))
      | Some (CN n) => put st x (lift CN (nc_clear n))
      | None => skip st
      end
  | OIns x p ka va =>
      match getv vs x with
      | Some (CA a) =>
          match marg_val vs va with
          | Some r => put st x (lift CA (with_arg r (arr_append a)))
          | None => skip st
          end
      | Some (CN n) =>
          let k := ckind n in
          match (if need_key k then marg_key vs ka else Some (RRef 0)),
                (if need_val k then marg_val vs va else Some (RRef 0)) with
          | Some rk, Some rv => put st x (lift CN (nc_ins_args n p rk rv))
          | _, _ => skip st
          end
      | None => skip st
      end
  | ORemAt x i => rem_at st x i
  | ORemKey x ka =>
      match getv vs x with
      | Some (CN n) =>
          if can_remkey (ckind n) then
            match (if has_key (ckind n) then marg_key vs ka else marg_val vs ka) with
            | Some r => put st x (lift CN (with_arg r (nc_remove_key n)))
            | None => skip st
            end
          else skip st
      | _ => skip st
      end
  | OAddAll x p y =>
      match getv vs x, getv vs y with
      | Some cx, Some cy =>
          if kind_eqb (kind_of cx) (kind_of cy) && can_addall (kind_of cx) then
            match cx, cy with
            | CA a, CA b => put st x (lift CA (arr_append_arr a (if Nat.eqb x y then None else Some b)))
            | CN a, CN b =>
                let o := if Nat.eqb x y then None else Some b in
                put st x (lift CN (match ckind a with
                                   | KMap => nc_add_all_map a o
                                   | _ => nc_add_all a (addall_p (ckind a) p) o
                                   end))
            | _, _ => skip st
            end
          else skip st
      | _, _ => skip st
      end
  | ORemAll x y =>
      match getv vs x, getv vs y with
      | Some (CN a), Some (CN b) =>
          if kind_eqb (ckind a) (ckind b) && can_remall (ckind a)
          then put st x (lift CN (nc_remove_keys a (citems b)))
          else skip st
      | _, _ => skip st
      end
  | OReserve x n =>
      match getv vs x with
      | Some (CA a) => put st x (lift CA (arr_reserve a n))
      | _ => skip st
      end
  | OResize x n va =>
      match getv vs x with
      | Some (CA a) =>
          match marg_val vs va with
          | Some r => put st x (lift CA (with_arg r (arr_resize a n)))
          | None => skip st
          end
      | _ => skip st
      end
  | OAppendRange x y i n =>
      match getv vs x, getv vs y with
      | Some (CA a), Some (CA b) =>
          if i + n <=? length (aelems b)
          then put st x (lift CA (arr_append_range a (if Nat.eqb x y then None else Some b) i n))
          else skip st
      | _, _ => skip st
      end
  | ORemVia v x i =>
      match getv vs x with
      | Some c => match via_idx v (kind_of c) (clen c) i with
                  | Some j => rem_at st x j
                  | None => skip st
                  end
      | None => skip st
      end
  | ONewCap x k n =>
      if isdead vs x && has_capctor k then
        (* HashMap / HashSet / PoolMap (capacity): the number of buckets is not part of this model *)
        if is_array k then put st x (ret (CA (arr_new_cap n))) else put st x (lift CN (nc_new k))
      else skip st
  | OFind x ka =>
      match getv vs x with
      | Some (CA a) =>
          match marg_val vs ka with
          | Some r => put st x (lift CA (with_arg r (arr_find a)))
          | None => skip st
          end
      | Some (CN n) =>
          if can_find (ckind n) then
            match (if has_key (ckind n) then marg_key vs ka else marg_val vs ka) with
            | Some r => put st x (lift CN (with_arg r (nc_find n)))
            | None => skip st
            end
          else skip st
      | None => skip st
      end
  | OEmplace x args =>
      match getv vs x with
      | Some (CN n) =>
          if can_emplace (ckind n) && (length args <=? 7) then
            match marg_vals vs args with
            | Some rs => put st x (lift CN (nc_emplace n rs))
            | None => skip st
            end
          else skip st
      | _ => skip st
      end
  | OAppendVals x zs =>
      match getv vs x with
      | Some (CA a) => put st x (lift CA (arr_append_vals a zs))
      | _ => skip st
      end
  | OInsHint x p ka va =>
      match getv vs x with
      | Some (CN n) =>
          if can_hint (ckind n) then
            match marg_key vs ka, marg_val vs va with
            | Some rk, Some rv =>
                if hint_tie (ckind n) (map (val (sw st)) (sel_ids (ckind n) (citems n)))
                            (pos_idx p (length (citems n))) (rarg_val (sw st) rk)
                then skip st
                else put st x (lift CN (with_arg rk (fun kr => with_arg rv (fun vr => nc_insert_hint n p kr vr))))
            | _, _ => skip st
            end
          else skip st
      | _ => skip st
      end
  | OSort x =>
      match getv vs x with
      | Some (CN n) => if can_sort (ckind n) then put st x (lift CN (nc_sort n)) else skip st
      | _ => skip st
      end
  | OInsTie x p ka va j =>
      match getv vs x with
      | Some (CN n) =>
          if can_hint (ckind n) then
            match marg_key vs ka, marg_val vs va with
            | Some rk, Some rv =>
                if hint_tie (ckind n) (map (val (sw st)) (sel_ids (ckind n) (citems n)))
                            (pos_idx p (length (citems n))) (rarg_val (sw st) rk) &&
                   ssortedb (insert_at (S (pos_idx p (length (citems n))) + j) (rarg_val (sw st) rk)
                                       (map (val (sw st)) (sel_ids (ckind n) (citems n))))
                then put st x (lift CN (with_arg rk (fun kr => with_arg rv (fun vr => nc_insert_tie n p kr vr j))))
                else skip st
            | _, _ => skip st
            end
          else skip st
      | _ => skip st
      end
  | ORemOut x i r =>
      (* Array::remove(usize index): `if(index < size) {...}` - with size <= index the body is not entered: nothing is
         read, written, destroyed or released (r = None).  r = Some j: what an array that removes element j at such
         an index would do - the same removal code at index j (stated so that the invariant theorems cover every
         outcome the spec leaves open; the code as it is now is the case r = None, remove_out_of_range_is_noop) *)
      match getv vs x with
      | Some c => match out_idx (kind_of c) (clen c) i r with
                  | Some None => Ok (true, st)
                  | Some (Some j) => rem_at st x j
                  | None => skip st
                  end
      | None => skip st
      end
  | OInsVia x f ka va =>
      (* prepend(..) {return insert(_begin, ..)...;}  append(..) {return insert(_end, ..)...;} *)
      match getv vs x with
      | Some (CN n) =>
          let k := ckind n in
          if can_insvia k f then
            match (if need_key k then marg_key vs ka else Some (RRef 0)),
                  (if need_val k then marg_val vs va else Some (RRef 0)) with
            | Some rk, Some rv => put st x (lift CN (nc_ins_args n (via_pos f) rk rv))
            | _, _ => skip st
            end
          else skip st
      | _ => skip st
      end
  end.

(* what find returns in the state st: the index of the first matching element (for the observation
   line; `step` itself returns no value) *)
Definition model_found (st : state) (x : nat) (ka : arg) : option nat :=
  let vs := svars st in
  match getv vs x with
  | Some (CA a) =>
      match marg_val vs ka with
      | Some r => find_idx (rarg_val (sw st) r) (map (val (sw st)) (aelems a))
      | None => None
      end
  | Some (CN n) =>
      match (if has_key (ckind n) then marg_key vs ka else marg_val vs ka) with
      | Some r => find_idx (rarg_val (sw st) r) (map (val (sw st)) (sel_ids (ckind n) (citems n)))
      | None => None
      end
  | None => None
  end.

(* run a history; the first lifetime error ends it *)
Fixpoint run (st : state) (ops : list op) : res state :=
  match ops with
  | [] => Ok st
  | o :: r => match step st o with Ok (_, st') => run st' r | Err e => Err e end
  end.

(* end of the program: every live variable is destroyed *)
Definition del_all (n : nat) : list op := map ODel (seq 0 n).
Definition finish (st : state) : res state := run st (del_all (length (svars st))).

(* ---------------------------------------------------------------------------------------- *)
(* abstraction: what the containers hold                                                      *)
(* ---------------------------------------------------------------------------------------- *)
Definition abs_node (k : kind) (w : world) (n : node) : anode :=
  (if has_key k then Some (val w (nk n)) else None, if has_val k then Some (val w (nv n)) else None).
Definition abs_cont (w : world) (c : cont) : kind * acont :=
  match c with
  | CA a => (KArray, map (fun i => (None, Some (val w i))) (aelems a))
  | CN n => (ckind n, map (abs_node (ckind n) w) (citems n))
  end.
Definition abs (st : state) : sstate := map (option_map (abs_cont (sw st))) (svars st).

(* ---------------------------------------------------------------------------------------- *)
(* the independent judge of an event log (oldest event first)                                 *)
(* ---------------------------------------------------------------------------------------- *)
Record ledger := mkL {
  lever : list id;      (* every id that was ever constructed *)
  llive : list id;      (* the live ones *)
  lbever : list blk;
  lblive : list blk
}.
Definition l0 : ledger := mkL [] [] [] [].
Definition ledger_step (s : ledger) (e : event) : option ledger :=
  let construct i := if memn i (lever s) then None
                     else Some (mkL (i :: lever s) (i :: llive s) (lbever s) (lblive s)) in
  match e with
  | EDef i => construct i
  | EVal i _ => construct i
  | ECopy i src => if memn src (llive s) then construct i else None
  | EMake i _ srcs => if forallb (fun x => memn x (llive s)) srcs then construct i else None
  | EAssign d src => if memn src (llive s) && memn d (llive s) then Some s else None
  | EDestroy i => if memn i (llive s) then Some (mkL (lever s) (rmn i (llive s)) (lbever s) (lblive s)) else None
  | EAlloc b => if memn b (lbever s) then None
                else Some (mkL (lever s) (llive s) (b :: lbever s) (b :: lblive s))
  | EFree b => if memn b (lblive s) then Some (mkL (lever s) (llive s) (lbever s) (rmn b (lblive s))) else None
  end.

(* `lg` is newest-first, as the world keeps it *)
Fixpoint ledger_of (lg : list event) : option ledger :=
  match lg with
  | [] => Some l0
  | e :: older => match ledger_of older with Some s => ledger_step s e | None => None end
  end.

(* every instance constructed at most once, used only while live, destroyed exactly once;
   every allocation released exactly once; nothing left *)
Definition well_bracketed (lg : list event) : bool :=
  match ledger_of lg with
  | Some s => match llive s, lblive s with [], [] => true | _, _ => false end
  | None => false
  end.
