(* SPEC for property C04: the reference object the property text is translated into.

   A program state is a list of container variables; each live variable has a kind and an
   abstract content: the sequence (in iteration order) of (key payload, value payload) pairs
   of its stored elements.  Element payloads are integers (the harness element type `Tracked`
   owns a heap cell holding that integer).

   The spec does not know about instances, storage, blocks or lifetimes.  Its two decisions
   that ARE the property:
     - a copy (by construction or by assignment, including x = x) gives the target the
       source's content and leaves the source alone;
     - an argument that names the container itself or one of its own elements is evaluated
       to a VALUE before the operation starts ("as if the argument had been copied first").
   Between operations the element instances that exist on behalf of a container's CONTENT are
   one per stored element and one per stored key (`sstored`): no temporary survives an
   operation, a removed / cleared / overwritten element is gone, nothing leaks.  How many
   further instances a container keeps for itself (the embedded end item of the node
   containers holds a default-constructed element) is a fact about the implementation that
   the property text does not fix; it is defined next to the model (`sent_count`, `sbase`,
   LifeModel.v), not here, and the harness measures it on an empty container.  *)
From Coq Require Import ZArith NArith List Bool Arith.
Import ListNotations.

Inductive kind := KArray | KList | KMap | KMultiMap | KHashMap | KHashSet | KPoolList | KPoolMap.

Definition kind_eqb (a b : kind) : bool :=
  match a, b with
  | KArray, KArray | KList, KList | KMap, KMap | KMultiMap, KMultiMap
  | KHashMap, KHashMap | KHashSet, KHashSet | KPoolList, KPoolList | KPoolMap, KPoolMap => true
  | _, _ => false
  end.

(* what an item of the container consists of and how insertion treats it *)
Definition has_key (k : kind) : bool :=
  match k with KMap | KMultiMap | KHashMap | KHashSet | KPoolMap => true | _ => false end.
Definition has_val (k : kind) : bool := match k with KHashSet => false | _ => true end.
(* insert of a present key does not create an item *)
Definition unique (k : kind) : bool :=
  match k with KMap | KHashMap | KHashSet | KPoolMap => true | _ => false end.
(* ... and overwrites the mapped value *)
Definition dup_assign (k : kind) : bool := match k with KMap | KHashMap => true | _ => false end.
Definition sorted (k : kind) : bool := match k with KMap | KMultiMap => true | _ => false end.
Definition has_table (k : kind) : bool :=
  match k with KHashMap | KHashSet | KPoolMap => true | _ => false end.
(* PoolList and PoolMap declare their copy operations private *)
Definition copyable (k : kind) : bool := match k with KPoolList | KPoolMap => false | _ => true end.
(* PoolMap::append(key) default-constructs the value *)
Definition val_default (k : kind) : bool := match k with KPoolMap => true | _ => false end.
Definition is_array (k : kind) : bool := match k with KArray => true | _ => false end.
(* Array::append(Array), List::insert(pos, List), Map::insert(Map), HashSet::append(HashSet) *)
Definition can_addall (k : kind) : bool :=
  match k with KArray | KList | KMap | KHashSet => true | _ => false end.
Definition can_remall (k : kind) : bool := match k with KHashSet => true | _ => false end.
(* remove(const T& key) / List::remove(const T& value) *)
Definition can_remkey (k : kind) : bool :=
  match k with KArray | KPoolList => false | _ => true end.
(* Map and MultiMap have no swap *)
Definition can_swap (k : kind) : bool := match k with KMap | KMultiMap => false | _ => true end.
(* explicit Array(usize capacity), HashMap(usize capacity), HashSet(usize capacity), PoolMap(usize capacity) *)
Definition has_capctor (k : kind) : bool :=
  match k with KArray | KHashMap | KHashSet | KPoolMap => true | _ => false end.
(* find(const T&): every kind but PoolList *)
Definition can_find (k : kind) : bool := match k with KPoolList => false | _ => true end.
(* insert(const Iterator& position, key, value) with a position HINT: Map and MultiMap *)
Definition can_hint (k : kind) : bool := sorted k.
Definition can_sort (k : kind) : bool := match k with KList => true | _ => false end.
(* PoolList::append(args...): the element is constructed in place from 0..7 constructor arguments *)
Definition can_emplace (k : kind) : bool := match k with KPoolList => true | _ => false end.
(* the one-line wrappers around insert(begin() / end(), ...): List::prepend / append(value),
   HashMap::prepend / append(key, value), HashSet::prepend / append(key), PoolMap::append(key) *)
Definition can_insvia (k : kind) (front : bool) : bool :=
  match k with KList | KHashMap | KHashSet => true | KPoolMap => negb front | _ => false end.

(* ---------------------------------------------------------------------------------------- *)
(* operations                                                                                 *)
(* ---------------------------------------------------------------------------------------- *)
(* An argument of element type: a fresh value, or a REFERENCE to the key / the value of
   element i of variable y (usually the container the operation is applied to). *)
Inductive arg := AVal (z : Z) | AKey (y i : nat) | AValOf (y i : nat).
Inductive pos := PFront | PBack | PAt (i : nat).
(* the other entry points that remove one element: Array::remove(const Iterator&),
   removeFront(), removeBack() (all eight containers) *)
Inductive rvia := VIter | VFront | VBack.

Inductive op :=
| ONew (x : nat) (k : kind)        (* default-construct a container in the dead variable x *)
| ODel (x : nat)                   (* run the destructor of variable x *)
| OCopyNew (x y : nat)             (* copy-construct the dead variable x from y *)
| OAssign (x y : nat)              (* x = y   (y may be x) *)
| OSwap (x y : nat)
| OClear (x : nat)
| OIns (x : nat) (p : pos) (ka va : arg)
                                   (* List::insert(pos,v) / Map,MultiMap::insert(k,v) /
                                      HashMap,HashSet,PoolMap::insert(pos,k[,v]) /
                                      PoolList::append(v) / Array::append(v) *)
| ORemAt (x i : nat)               (* remove(iterator) / Array::remove(index) *)
| ORemKey (x : nat) (ka : arg)     (* remove(key) / List::remove(value) *)
| OAddAll (x : nat) (p : pos) (y : nat)
                                   (* Array::append(Array) / List::insert(pos, List) /
                                      Map::insert(Map) / HashSet::append(HashSet); y may be x *)
| ORemAll (x y : nat)              (* HashSet::remove(HashSet); y may be x *)
| OReserve (x n : nat)             (* Array::reserve *)
| OResize (x n : nat) (va : arg)   (* Array::resize(n, value) *)
| OAppendRange (x y i n : nat)     (* Array::append(const T* values, usize n) with values = &y[i],
                                      i + n <= size of y; y may be x: a pointer into the array's own
                                      storage *)
| ORemVia (v : rvia) (x i : nat)   (* VIter: Array::remove(const Iterator&) at index i (for the node
                                      containers ORemAt already is remove(iterator));
                                      VFront / VBack: removeFront() / removeBack(), non-empty x *)
| ONewCap (x : nat) (k : kind) (n : nat)
                                   (* Array(n) / HashMap(n) / HashSet(n) / PoolMap(n) in the dead variable x *)
| OFind (x : nat) (ka : arg)       (* find(key) / Array,List::find(value): changes nothing *)
| OEmplace (x : nat) (args : list arg)
                                   (* PoolList::append(a1, ..., an), n <= 7: the element is constructed in place
                                      from the arguments (values or references to stored elements, possibly
                                      its own); the element type adds its arguments up *)
| OAppendVals (x : nat) (zs : list Z)
                                   (* Array::append(const T* values, usize n) with values pointing at n
                                      elements that live outside every container *)
| OInsHint (x : nat) (p : pos) (ka va : arg)
                                   (* Map,MultiMap::insert(position, key, value): p is the hint *)
| OSort (x : nat)                  (* List::sort() *)
| OInsVia (x : nat) (front : bool) (ka va : arg)
                                   (* front: List::prepend(v) / HashMap::prepend(k,v) / HashSet::prepend(k);
                                      back: List::append(v) / HashMap::append(k,v) / HashSet::append(k) /
                                      PoolMap::append(k) - the arguments may be the container's own elements *)
| OInsTie (x : nat) (p : pos) (ka va : arg) (j : nat)
                                   (* MultiMap::insert(position, key, value) in the case hint_tie (below): the new
                                      element lands behind the hinted one, j places further on.  WHICH j - any place
                                      that keeps the keys in order - is decided by the shape of the search tree
                                      (C01), which this reference object does not know: j is an input, like the
                                      answers of a kernel (the check takes it from the implementation's run) *)
| ORemOut (x : nat) (i : N) (r : option nat).
                                   (* round 6 - Array::remove(usize index) with an index that is NOT in the array
                                      (size <= index, any usize).  The containers accept the call, so the lifecycle
                                      clauses of the property hold across it; what the array CONTAINS afterwards is
                                      not this property's business (C03), and this reference object leaves it open
                                      as far as a removing call can go: r = None - nothing is removed (what the code
                                      does), r = Some j - element j is removed (e.g. an implementation that clamps
                                      the index).  r is an input taken from the implementation's run; whichever it
                                      is, the instances that exist afterwards are exactly one per element and key
                                      the containers then hold (sstored), nothing else was destroyed. *)

(* ---------------------------------------------------------------------------------------- *)
(* pure list helpers (shared with the model)                                                  *)
(* ---------------------------------------------------------------------------------------- *)
Fixpoint insert_at {A} (n : nat) (x : A) (l : list A) : list A :=
  match n, l with
  | O, _ => x :: l
  | S n', [] => [x]
  | S n', h :: t => h :: insert_at n' x t
  end.

Fixpoint remove_at {A} (n : nat) (l : list A) : list A :=
  match l, n with
  | [], _ => []
  | _ :: t, O => t
  | h :: t, S n' => h :: remove_at n' t
  end.

Fixpoint set_at {A} (n : nat) (x : A) (l : list A) : list A :=
  match l, n with
  | [], _ => []
  | _ :: t, O => x :: t
  | h :: t, S n' => h :: set_at n' x t
  end.

Fixpoint find_idx (z : Z) (l : list Z) : option nat :=
  match l with
  | [] => None
  | h :: t => if Z.eqb h z then Some O else option_map S (find_idx z t)
  end.

(* where a key goes in a sorted sequence: behind every key that is not greater *)
Fixpoint ins_pos (z : Z) (l : list Z) : nat :=
  match l with
  | [] => O
  | h :: t => if Z.leb h z then S (ins_pos z t) else O
  end.

Definition pos_idx (p : pos) (len : nat) : nat :=
  match p with PFront => 0 | PBack => len | PAt i => Nat.min i len end.
(* Array::append and PoolList::append have no position; only List::insert(pos, list) has one *)
Definition ins_p (k : kind) (p : pos) : pos := match k with KArray | KPoolList => PBack | _ => p end.
Definition addall_p (k : kind) (p : pos) : pos := match k with KList => p | _ => PBack end.
Definition via_pos (front : bool) : pos := if front then PFront else PBack.
(* List::insert(pos, list) keeps inserting in front of the same iterator *)
Definition pos_next (p : pos) : pos :=
  match p with PFront => PAt 1 | PBack => PBack | PAt i => PAt (S i) end.

(* ---------------------------------------------------------------------------------------- *)
(* abstract contents                                                                          *)
(* ---------------------------------------------------------------------------------------- *)
Definition anode := (option Z * option Z)%type.
Definition acont := list anode.
Definition avar := option (kind * acont).
Definition sstate := list avar.

Definition oz (o : option Z) : Z := match o with Some z => z | None => 0%Z end.
(* the payloads `find` compares with: keys, or values for List::remove(value) *)
Definition asel (k : kind) (l : acont) : list Z :=
  map (fun n : anode => if has_key k then oz (fst n) else oz (snd n)) l.
Definition mk_anode (k : kind) (kz vz : Z) : anode :=
  (if has_key k then Some kz else None, if has_val k then Some vz else None).
Definition set_aval (vz : Z) (n : anode) : anode := (fst n, Some vz).

Definition spec_ins (k : kind) (l : acont) (p : pos) (kz vz : Z) : acont :=
  if has_key k then
    let keys := asel k l in
    match (if unique k then find_idx kz keys else None) with
    | Some j => if dup_assign k
                then match nth_error l j with Some n => set_at j (set_aval vz n) l | None => l end
                else l
    | None => insert_at (if sorted k then ins_pos kz keys else pos_idx p (length l)) (mk_anode k kz vz) l
    end
  else insert_at (pos_idx p (length l)) (mk_anode k kz vz) l.

Definition spec_remkey (k : kind) (l : acont) (z : Z) : acont :=
  match find_idx z (asel k l) with Some j => remove_at j l | None => l end.

Fixpoint spec_ins_all (k : kind) (l : acont) (p : pos) (src : acont) : acont :=
  match src with
  | [] => l
  | n :: r => spec_ins_all k (spec_ins k l p (oz (fst n)) (oz (snd n))) (pos_next p) r
  end.

Fixpoint spec_rem_all (k : kind) (l : acont) (src : acont) : acont :=
  match src with
  | [] => l
  | n :: r => spec_rem_all k (spec_remkey k l (oz (fst n))) r
  end.

Definition sget (s : sstate) (x : nat) : avar :=
  match nth_error s x with Some v => v | None => None end.
Definition sset (s : sstate) (x : nat) (v : avar) : sstate := set_at x v s.
Definition sdead (s : sstate) (x : nat) : bool :=
  match nth_error s x with Some None => true | _ => false end.

(* the element instances the contents account for: one per stored key and one per stored value
   (PoolMap::append(key) stores a default-constructed value next to the key) *)
Definition stored_fields (k : kind) : nat := (if has_key k then 1 else 0) + (if has_val k then 1 else 0).
Definition sstored_var (v : avar) : nat :=
  match v with Some (k, l) => stored_fields k * length l | None => 0 end.
Definition sstored (s : sstate) : nat := fold_right (fun v n => sstored_var v + n) 0 s.

(* the VALUE an argument denotes in the current state *)
Definition sarg_key (s : sstate) (a : arg) : option Z :=
  match a with
  | AVal z => Some z
  | AKey y i => match sget s y with
                | Some (k, l) => match nth_error l i with Some (Some z, _) => Some z | _ => None end
                | None => None
                end
  | AValOf _ _ => None
  end.
Definition sarg_val (s : sstate) (a : arg) : option Z :=
  match a with
  | AVal z => Some z
  | AValOf y i => match sget s y with
                  | Some (k, l) => match nth_error l i with Some (_, Some z) => Some z | _ => None end
                  | None => None
                  end
  | AKey _ _ => None
  end.
(* which arguments an insertion into a container of kind k looks at *)
Definition need_key (k : kind) : bool := has_key k.
Definition need_val (k : kind) : bool := has_val k && negb (val_default k).

(* Array::remove(index) with size <= index: accepted by arrays only; the outcome r is open *)
Definition out_idx (k : kind) (len : nat) (i : N) (r : option nat) : option (option nat) :=
  if is_array k && (N.of_nat len <=? i)%N then Some r else None.

(* the index an element-removing entry point removes, when the kind offers it and the call is
   defined (removeFront / removeBack of an empty container are not) *)
Definition via_idx (v : rvia) (k : kind) (len i : nat) : option nat :=
  match v with
  | VIter => if is_array k then Some i else None
  | VFront => if 0 <? len then Some 0 else None
  | VBack => if 0 <? len then Some (len - 1) else None
  end.

Definition spec_resize (l : acont) (n : nat) (vz : Z) : acont :=
  firstn n l ++ repeat (None, Some vz) (n - length l).

(* the values a list of arguments denotes *)
Fixpoint sarg_vals (s : sstate) (args : list arg) : option (list Z) :=
  match args with
  | [] => Some []
  | a :: r => match sarg_val s a, sarg_vals s r with
              | Some z, Some zs => Some (z :: zs)
              | _, _ => None
              end
  end.
Definition zsum (l : list Z) : Z := fold_right Z.add 0%Z l.

(* sorting by payload *)
Fixpoint zinsert (z : Z) (l : list Z) : list Z :=
  match l with
  | [] => [z]
  | h :: t => if Z.leb z h then z :: l else h :: zinsert z t
  end.
Fixpoint zsort (l : list Z) : list Z :=
  match l with [] => [] | h :: t => zinsert h (zsort t) end.
Definition spec_sort (l : acont) : acont :=
  map (fun z => (None, Some z)) (zsort (map (fun n : anode => oz (snd n)) l)).

(* A position hint never changes WHERE a key goes, with one exception that this reference object
   leaves open: in a MultiMap, when the hinted element's key is not greater than the new key and the
   element after it carries exactly the new key, the new element lands somewhere inside the run of
   equal keys that follows (where exactly depends on the shape of the search tree - C01).  Such a
   call is not an OInsHint; it is the operation OInsTie, which carries the landing offset as an
   input and is accepted for every offset that keeps the keys in ascending order. *)
Definition hint_tie (k : kind) (keys : list Z) (h : nat) (kz : Z) : bool :=
  negb (unique k) &&
  match nth_error keys h, nth_error keys (S h) with
  | Some hk, Some nk => Z.leb hk kz && Z.eqb nk kz
  | _, _ => false
  end.

(* keys in ascending order, as a test *)
Fixpoint ssortedb (l : list Z) : bool :=
  match l with [] => true | a :: t => forallb (Z.leb a) t && ssortedb t end.

(* what find returns: the index of the first element with that key / value *)
Definition spec_found (s : sstate) (x : nat) (ka : arg) : option nat :=
  match sget s x with
  | Some (k, l) => match (if has_key k then sarg_key s ka else sarg_val s ka) with
                   | Some z => find_idx z (asel k l)
                   | None => None
                   end
  | None => None
  end.

(* spec_step s o = (performed?, new state).  An operation whose variables / references do not
   exist, or that the kind does not offer, is not performed (the harness does not call it). *)
Definition spec_step (s : sstate) (o : op) : bool * sstate :=
  match o with
  | ONew x k => if sdead s x then (true, sset s x (Some (k, []))) else (false, s)
  | ODel x => match sget s x with Some _ => (true, sset s x None) | None => (false, s) end
  | OCopyNew x y =>
      match sget s y with
      | Some (k, l) => if sdead s x && copyable k then (true, sset s x (Some (k, l))) else (false, s)
      | None => (false, s)
      end
  | OAssign x y =>
      match sget s x, sget s y with
      | Some (k, _), Some (k', l) =>
          if kind_eqb k k' && copyable k then (true, sset s x (Some (k, l))) else (false, s)
      | _, _ => (false, s)
      end
  | OSwap x y =>
      match sget s x, sget s y with
      | Some (k, l), Some (k', l') =>
          if kind_eqb k k' && can_swap k then (true, sset (sset s x (Some (k, l'))) y (Some (k', l))) else (false, s)
      | _, _ => (false, s)
      end
  | OClear x => match sget s x with Some (k, _) => (true, sset s x (Some (k, []))) | None => (false, s) end
  | OIns x p ka va =>
      match sget s x with
      | Some (k, l) =>
          match (if need_key k then sarg_key s ka else Some 0%Z),
                (if need_val k then sarg_val s va else Some 0%Z) with
          | Some kz, Some vz =>
              (true, sset s x (Some (k, spec_ins k l (ins_p k p) kz vz)))
          | _, _ => (false, s)
          end
      | None => (false, s)
      end
  | ORemAt x i =>
      match sget s x with
      | Some (k, l) => if i <? length l then (true, sset s x (Some (k, remove_at i l))) else (false, s)
      | None => (false, s)
      end
  | ORemKey x ka =>
      match sget s x with
      | Some (k, l) =>
          if can_remkey k then
            match (if has_key k then sarg_key s ka else sarg_val s ka) with
            | Some z => (true, sset s x (Some (k, spec_remkey k l z)))
            | None => (false, s)
            end
          else (false, s)
      | None => (false, s)
      end
  | OAddAll x p y =>
      match sget s x, sget s y with
      | Some (k, l), Some (k', l') =>
          if kind_eqb k k' && can_addall k
          then (true, sset s x (Some (k, if is_array k then l ++ l' else spec_ins_all k l (addall_p k p) l')))
          else (false, s)
      | _, _ => (false, s)
      end
  | ORemAll x y =>
      match sget s x, sget s y with
      | Some (k, l), Some (k', l') =>
          if kind_eqb k k' && can_remall k then (true, sset s x (Some (k, spec_rem_all k l l'))) else (false, s)
      | _, _ => (false, s)
      end
  | OReserve x n =>
      match sget s x with
      | Some (KArray, l) => (true, s)
      | _ => (false, s)
      end
  | OResize x n va =>
      match sget s x with
      | Some (KArray, l) =>
          match sarg_val s va with
          | Some vz => (true, sset s x (Some (KArray, spec_resize l n vz)))
          | None => (false, s)
          end
      | _ => (false, s)
      end
  | OAppendRange x y i n =>
      match sget s x, sget s y with
      | Some (k, l), Some (k', l') =>
          if is_array k && is_array k' && (i + n <=? length l')
          then (true, sset s x (Some (k, l ++ firstn n (skipn i l'))))
          else (false, s)
      | _, _ => (false, s)
      end
  | ORemVia v x i =>
      match sget s x with
      | Some (k, l) =>
          match via_idx v k (length l) i with
          | Some j => if j <? length l then (true, sset s x (Some (k, remove_at j l))) else (false, s)
          | None => (false, s)
          end
      | None => (false, s)
      end
  | ONewCap x k n => if sdead s x && has_capctor k then (true, sset s x (Some (k, []))) else (false, s)
  | OFind x ka =>
      match sget s x with
      | Some (k, l) =>
          if can_find k then
            match (if has_key k then sarg_key s ka else sarg_val s ka) with
            | Some z => (true, s)
            | None => (false, s)
            end
          else (false, s)
      | None => (false, s)
      end
  | OEmplace x args =>
      match sget s x with
      | Some (k, l) =>
          if can_emplace k && (length args <=? 7) then
            match sarg_vals s args with
            | Some zs => (true, sset s x (Some (k, l ++ [mk_anode k 0%Z (zsum zs)])))
            | None => (false, s)
            end
          else (false, s)
      | None => (false, s)
      end
  | OAppendVals x zs =>
      match sget s x with
      | Some (k, l) =>
          if is_array k then (true, sset s x (Some (k, l ++ map (fun z => (None, Some z)) zs))) else (false, s)
      | None => (false, s)
      end
  | OInsHint x p ka va =>
      match sget s x with
      | Some (k, l) =>
          if can_hint k then
            match sarg_key s ka, sarg_val s va with
            | Some kz, Some vz =>
                if hint_tie k (asel k l) (pos_idx p (length l)) kz then (false, s)
                else (true, sset s x (Some (k, spec_ins k l p kz vz)))
            | _, _ => (false, s)
            end
          else (false, s)
      | None => (false, s)
      end
  | OSort x =>
      match sget s x with
      | Some (k, l) => if can_sort k then (true, sset s x (Some (k, spec_sort l))) else (false, s)
      | None => (false, s)
      end
  | OInsTie x p ka va j =>
      match sget s x with
      | Some (k, l) =>
          if can_hint k then
            match sarg_key s ka, sarg_val s va with
            | Some kz, Some vz =>
                (* only in the case OInsHint leaves open, and only to a place that keeps the keys in order *)
                if hint_tie k (asel k l) (pos_idx p (length l)) kz &&
                   ssortedb (insert_at (S (pos_idx p (length l)) + j) kz (asel k l))
                then (true, sset s x (Some (k, insert_at (S (pos_idx p (length l)) + j) (mk_anode k kz vz) l)))
                else (false, s)
            | _, _ => (false, s)
            end
          else (false, s)
      | None => (false, s)
      end
  | ORemOut x i r =>
      match sget s x with
      | Some (k, l) =>
          match out_idx k (length l) i r with
          | Some None => (true, s)
          | Some (Some j) => if j <? length l then (true, sset s x (Some (k, remove_at j l))) else (false, s)
          | None => (false, s)
          end
      | None => (false, s)
      end
  | OInsVia x f ka va =>
      match sget s x with
      | Some (k, l) =>
          if can_insvia k f then
            match (if need_key k then sarg_key s ka else Some 0%Z),
                  (if need_val k then sarg_val s va else Some 0%Z) with
            | Some kz, Some vz =>
                (true, sset s x (Some (k, spec_ins k l (ins_p k (via_pos f)) kz vz)))
            | _, _ => (false, s)
            end
          else (false, s)
      | None => (false, s)
      end
  end.

Fixpoint spec_run (s : sstate) (ops : list op) : sstate :=
  match ops with [] => s | o :: r => spec_run (snd (spec_step s o)) r end.

Definition sinit (nv : nat) : sstate := repeat None nv.

(* ---------------------------------------------------------------------------------------- *)
(* vocabulary of the property theorems                                                        *)
(* ---------------------------------------------------------------------------------------- *)
(* the variables an operation may modify *)
Definition writes (o : op) : list nat :=
  match o with
  | ONew x _ | ODel x | OCopyNew x _ | OAssign x _ | OClear x | OIns x _ _ _ | ORemAt x _
  | ORemKey x _ | OAddAll x _ _ | ORemAll x _ | OReserve x _ | OResize x _ _
  | OAppendRange x _ _ _ | ORemVia _ x _ | ONewCap x _ _ | OFind x _ | OEmplace x _ | OAppendVals x _
  | OInsHint x _ _ _ | OSort x | OInsVia x _ _ _ | OInsTie x _ _ _ _ | ORemOut x _ _ => [x]
  | OSwap x y => [x; y]
  end.

Definition arg_vars (a : arg) : list nat :=
  match a with AVal _ => [] | AKey y _ | AValOf y _ => [y] end.
(* every variable an operation names *)
Definition mentions (o : op) : list nat :=
  match o with
  | ONew x _ | ODel x | OClear x | ORemAt x _ | OReserve x _ | ORemVia _ x _ | ONewCap x _ _
  | OAppendVals x _ | OSort x | ORemOut x _ _ => [x]
  | OCopyNew x y | OAssign x y | OSwap x y | ORemAll x y | OAddAll x _ y | OAppendRange x y _ _ => [x; y]
  | OIns x _ ka va => x :: arg_vars ka ++ arg_vars va
  | ORemKey x ka => x :: arg_vars ka
  | OResize x _ va => x :: arg_vars va
  | OFind x ka => x :: arg_vars ka
  | OEmplace x args => x :: flat_map arg_vars args
  | OInsHint x _ ka va => x :: arg_vars ka ++ arg_vars va
  | OInsVia x _ ka va => x :: arg_vars ka ++ arg_vars va
  | OInsTie x _ ka va _ => x :: arg_vars ka ++ arg_vars va
  end.

(* "as if the argument had been copied first": a reference to an element becomes the value
   it denotes now; a container passed to itself becomes a copy made in the scratch variable t *)
Definition dealias_key (s : sstate) (a : arg) : arg :=
  match a with
  | AKey _ _ => match sarg_key s a with Some z => AVal z | None => a end
  | _ => a
  end.
Definition dealias_val (s : sstate) (a : arg) : arg :=
  match a with
  | AValOf _ _ => match sarg_val s a with Some z => AVal z | None => a end
  | _ => a
  end.

Definition dealias (s : sstate) (t : nat) (o : op) : list op :=
  match o with
  | OIns x p ka va => [OIns x p (dealias_key s ka) (dealias_val s va)]
  | ORemKey x ka =>
      match sget s x with
      | Some (k, _) => [ORemKey x (if has_key k then dealias_key s ka else dealias_val s ka)]
      | None => [o]
      end
  | OResize x n va => [OResize x n (dealias_val s va)]
  | OAssign x y => if Nat.eqb x y then [OCopyNew t y; OAssign x t; ODel t] else [o]
  | OAddAll x p y => if Nat.eqb x y then [OCopyNew t y; OAddAll x p t; ODel t] else [o]
  | ORemAll x y => if Nat.eqb x y then [OCopyNew t y; ORemAll x t; ODel t] else [o]
  | OAppendRange x y i n => if Nat.eqb x y then [OCopyNew t y; OAppendRange x t i n; ODel t] else [o]
  | OFind x ka =>
      match sget s x with
      | Some (k, _) => [OFind x (if has_key k then dealias_key s ka else dealias_val s ka)]
      | None => [o]
      end
  | OEmplace x args => [OEmplace x (map (dealias_val s) args)]
  | OInsHint x p ka va => [OInsHint x p (dealias_key s ka) (dealias_val s va)]
  | OInsVia x f ka va => [OInsVia x f (dealias_key s ka) (dealias_val s va)]
  | OInsTie x p ka va j => [OInsTie x p (dealias_key s ka) (dealias_val s va) j]
  | _ => [o]
  end.

(* the de-aliased history: each operation is rewritten in the state it is applied to *)
Fixpoint dealias_run (s : sstate) (t : nat) (ops : list op) : list op :=
  match ops with
  | [] => []
  | o :: r => dealias s t o ++ dealias_run (snd (spec_step s o)) t r
  end.

(* an example history for the non-vacuity Examples of Properties_C04.v: 
   self-assignment, append(a[0]) at the growth boundary, resize(n, a[1]), append(&a[1], 16) beyond
   the capacity, remove(iterator) / removeFront / removeBack, List::append(self),
   a MultiMap copy, Map::insert(self), HashSet::remove(self) *)
Definition example_history : list op :=
  [ONew 0 KArray; OIns 0 PBack (AVal 0) (AVal 5); OIns 0 PBack (AVal 0) (AVal 6); OIns 0 PBack (AVal 0) (AVal 7);
   OIns 0 PBack (AVal 0) (AValOf 0 0); OResize 0 9 (AValOf 0 1); OAssign 0 0; OAddAll 0 PBack 0; ORemAt 0 2;
   OAppendRange 0 0 1 16; ORemVia VIter 0 3; ORemVia VFront 0 0; ORemVia VBack 0 0;
   OCopyNew 1 0; ODel 0; ODel 1;
   ONew 0 KList; OIns 0 PBack (AVal 0) (AVal 1); OIns 0 PFront (AVal 0) (AValOf 0 0); OAddAll 0 PBack 0;
   OAddAll 0 PFront 0; OAssign 0 0; ODel 0;
   ONew 0 KMultiMap; OIns 0 PBack (AVal 3) (AVal 1); OIns 0 PBack (AVal 3) (AValOf 0 0); OCopyNew 1 0;
   OAssign 1 1; OAssign 0 1; ODel 0; ODel 1;
   ONew 0 KMap; OIns 0 PBack (AVal 2) (AVal 1); OIns 0 PBack (AKey 0 0) (AVal 9); OAddAll 0 PBack 0; OAssign 0 0;
   ONew 1 KHashSet; OIns 1 PBack (AVal 4) (AVal 0); OIns 1 PFront (AVal 5) (AVal 0); ORemAll 1 1; OAssign 1 1;
   ONew 2 KPoolMap; OIns 2 PBack (AVal 1) (AVal 0); ORemKey 2 (AKey 2 0)].

