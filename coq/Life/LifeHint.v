(* Third round, node containers: find, PoolList::append(a1, ..., an), the hinted insert of Map and
   MultiMap - which, on a sorted item chain and outside the one MultiMap case the spec leaves open,
   does to the instances exactly what the plain insert does (nc_insert_hint_eq) - and
   Map::insert(const Map&), which goes through the hinted insert. *)
From Coq Require Import ZArith List Bool Arith Lia Permutation.
From Life Require Import LifeSpec LifeModel LifeBase LifeLoops LifeArray LifeNode LifeSpecProofs.
Import ListNotations.

(* ---- arguments ---- *)
Definition rlive (w : world) (r : rarg) : Prop := match r with RRef i | RCopy i => In i (dom (heap w)) | RTmp _ => True end.
Definition rval (w : world) (r : rarg) : Z := match r with RRef i | RCopy i => val w i | RTmp z => z end.
Lemma rarg_val_rval w r : rarg_val w r = rval w r.
Proof. destruct r; reflexivity. Qed.

(* ---- find ---- *)
Lemma nc_find_ok c kr w : wfw w -> holds w (nids c) ->
  has_key (ckind c) || has_val (ckind c) = true -> In kr (dom (heap w)) ->
  nc_find c kr w = Ok (c, w).
Proof.
  intros W H KV I. unfold nc_find. run (rd_ok w kr I).
  pose proof (holds_nids_items _ _ H) as Hi.
  assert (Lsel : forall i, In i (sel_ids (ckind c) (citems c)) -> In i (dom (heap w))).
  { intros i J. eapply holds_in; [exact Hi|]. apply sel_ids_in; auto. }
  run (rd_list_ok w _ Lsel). reflexivity.
Qed.

(* ---- PoolList::append(a1, ..., an) ---- *)
Lemma rd_args_ok rs w : Forall (rlive w) rs -> rd_args rs w = Ok (map (rval w) rs, w).
Proof.
  induction rs as [|r t IH]; intros F; cbn [rd_args map]; [reflexivity|].
  inversion F as [|? ? Lr Lt]; subst. specialize (IH Lt).
  destruct r as [z|i|i]; cbn [rlive rval] in *.
  - run IH. reflexivity.
  - run (rd_ok w i Lr). run IH. reflexivity.
  - run (rd_ok w i Lr). run IH. reflexivity.
Qed.

Lemma ref_ids_live w rs : Forall (rlive w) rs -> forall i, In i (ref_ids rs) -> In i (dom (heap w)).
Proof.
  intros F i I. unfold ref_ids in I. apply in_flat_map in I. destruct I as (r & Ir & J).
  rewrite Forall_forall in F. specialize (F r Ir).
  destruct r; cbn [rlive In] in *; [destruct J | destruct J as [<-|[]]; exact F | destruct J as [<-|[]]; exact F].
Qed.

Lemma forallb_memn l d : (forall i, In i l -> In i d) -> forallb (fun x => memn x d) l = true.
Proof. intros H. apply forallb_forall. intros x I. apply memn_in. apply H. exact I. Qed.

Lemma items_ids_app k l1 l2 : items_ids k (l1 ++ l2) = items_ids k l1 ++ items_ids k l2.
Proof. unfold items_ids. apply flat_map_app. Qed.

Lemma items_ids_one k n : items_ids k [n] = node_ids k n.
Proof. unfold items_ids. cbn [flat_map]. apply app_nil_r. Qed.

Lemma nc_emplace_ok c rs w : wfw w -> holds w (nids c) -> holdsb w (nblks c) -> ckind c = KPoolList ->
  Forall (rlive w) rs ->
  exists c' w', nc_emplace c rs w = Ok (c', w') /\
     trans w w' (nids c) (nids c') (nblks c) (nblks c') /\ ckind c' = ckind c /\
     nabs w' c' = nabs w c ++ [mk_anode (ckind c) 0%Z (zsum (map (rval w) rs))].
Proof.
  intros W H Hb K F. unfold nc_emplace.
  destruct (nc_alloc_item_ok c w W) as (c1 & w1 & E1 & T1 & K1 & S1 & I1). run E1.
  assert (F1 : Forall (rlive w1) rs).
  { rewrite Forall_forall in *. intros r Ir. specialize (F r Ir).
    destruct r; cbn [rlive] in *; auto; eapply trans_live; [exact T1 | exact F | tauto | exact T1 | exact F | tauto]. }
  assert (R1 : map (rval w1) rs = map (rval w) rs).
  { apply map_ext_in. intros r Ir. rewrite Forall_forall in F. specialize (F r Ir).
    destruct r; cbn [rval rlive] in *; auto; eapply trans_val; [exact T1 | exact F | tauto | exact T1 | exact F | tauto]. }
  assert (MK : exists w2, (match rs with
                           | [] => mk_def
                           | _ => vs <- rd_args rs ;; mk (zsum vs) (fun i => EMake i (zsum vs) (ref_ids rs))
                           end) w1 = Ok (nxt w1, w2) /\ trans w1 w2 [] [nxt w1] [] [] /\
                          val w2 (nxt w1) = zsum (map (rval w) rs)).
  { destruct rs as [|r0 rt] eqn:Ers.
    - destruct (mk_def_ok w1 ltac:(twf T1)) as (E & T & V). eexists. split; [exact E|]. split; [exact T|]. exact V.
    - rewrite <- Ers in *. run (rd_args_ok rs w1 F1). rewrite R1.
      set (v := zsum (map (rval w) rs)).
      destruct (mk_trans w1 v (EMake (nxt w1) v (ref_ids rs)) ltac:(twf T1)) as [T V].
      { intros L EL. cbn [ledger_step]. rewrite EL.
        rewrite (forallb_memn _ _ (ref_ids_live w1 rs F1)). reflexivity. }
      eexists. split; [reflexivity|]. split; [exact T | exact V]. }
  destruct MK as (w2 & E2 & T2 & V2). run E2.
  eexists _, _. split; [reflexivity|].
  assert (T12 : trans w w2 [] [nxt w1] (nblks c) (nblks c1)).
  { eapply (trans_seq [] [] [] (nblks c1) _ _ _ _ _ _ _ _ _ _ _ _ _ _ _ T1 T2); msolve. }
  assert (NI : node_ids (ckind c) (mkN 0 (nxt w1)) = [nxt w1]) by (rewrite K; reflexivity).
  split; [|split].
  - rewrite nblks_set_items.
    eapply trans_perm; [apply (trans_frame _ _ _ _ _ _ (nids c) [] T12) | | | |]; try msolve.
    intro x. unfold nids, set_items. cbn [csent citems ckind]. rewrite S1, I1, K1, items_ids_app, items_ids_one, NI.
    autorewrite with cntdb. lia.
  - cbn [set_items ckind]. exact K1.
  - unfold nabs. cbn [set_items ckind citems]. rewrite K1, I1, map_app. cbn [map]. f_equal.
    + eapply nabs_keep; [exact T12 | apply (holds_nids_items _ _ H) | tauto].
    + f_equal. rewrite K. unfold abs_node, mk_anode. cbn [has_key has_val nv]. rewrite V2. reflexivity.
Qed.

(* ---------------------------------------------------------------------------------------- *)
(* insert(position, key, value)                                                               *)
(* ---------------------------------------------------------------------------------------- *)
Lemma pos_idx_le p len : pos_idx p len <= len.
Proof. destruct p; cbn [pos_idx]; lia. Qed.

Lemma sorted_fields k : sorted k = true -> has_key k = true /\ has_val k = true /\ (k = KMap \/ k = KMultiMap).
Proof. destruct k; cbn; intros; try discriminate; auto. Qed.

Section Hint.
  Variables (c : nc) (kr vr : id) (w : world).
  Let k := ckind c.
  Let keys := asel k (nabs w c).
  Let kz := val w kr.
  Hypothesis H : holds w (nids c).
  Hypothesis SO : sorted k = true.
  Hypothesis Ik : In kr (dom (heap w)).

  Lemma hint_reads : map (val w) (sel_ids k (citems c)) = keys /\
                     (forall i, In i (sel_ids k (citems c)) -> In i (dom (heap w))) /\ length keys = length (citems c).
  Proof.
    destruct (sorted_fields k SO) as (HK & HV & _).
    pose proof (holds_nids_items _ _ H) as Hi. fold k in Hi.
    split; [|split].
    - unfold keys, nabs. fold k. apply sel_vals. rewrite HK. reflexivity.
    - intros i I. eapply holds_in; [exact Hi|]. apply sel_ids_in; auto. rewrite HK. reflexivity.
    - unfold keys, asel, nabs. rewrite !map_length. reflexivity.
  Qed.

  (* the plain insert, when the key is new and goes to index j *)
  Lemma insert_is_fresh j : (unique k = true -> ~ In kz keys) -> ins_pos kz keys = j ->
    nc_insert c PBack kr (VRef vr) w = nc_fresh c j kr (VRef vr) w.
  Proof.
    intros NI IP. destruct (sorted_fields k SO) as (HK & HV & _). destruct hint_reads as (Ek & Lsel & _).
    unfold nc_insert. fold k. rewrite HK. run (rd_ok w kr Ik). run (rd_list_ok w _ Lsel). rewrite Ek. fold kz.
    assert (F : (if unique k then find_idx kz keys else None) = None).
    { destruct (unique k); [apply find_idx_none; apply NI; reflexivity | reflexivity]. }
    rewrite F, SO, IP. reflexivity.
  Qed.

  (* the plain insert, when item h carries the key (Map): its value is assigned *)
  Lemma insert_is_update h n : unique k = true -> NoDup keys -> nth_error keys h = Some kz ->
    nth_error (citems c) h = Some n ->
    nc_insert c PBack kr (VRef vr) w = (assign (nv n) vr ;;; ret c) w.
  Proof.
    intros UQ ND Nk N. destruct (sorted_fields k SO) as (HK & HV & [KM|KM]); [|rewrite KM in UQ; discriminate].
    destruct hint_reads as (Ek & Lsel & _).
    unfold nc_insert. fold k. rewrite HK. run (rd_ok w kr Ik). run (rd_list_ok w _ Lsel). rewrite Ek. fold kz.
    rewrite UQ, (find_idx_nodup' _ _ _ ND Nk), KM. cbn [dup_assign]. rewrite N. reflexivity.
  Qed.

  Hypothesis KO : keys_ok k (nabs w c).

  Theorem nc_insert_hint_eq p :
    hint_tie k keys (pos_idx p (length (citems c))) kz = false ->
    nc_insert_hint c p kr vr w = nc_insert c PBack kr (VRef vr) w.
  Proof.
    intros TIE. destruct (sorted_fields k SO) as (HK & HV & KM). destruct hint_reads as (Ek & Lsel & Len).
    pose proof (proj2 KO SO) as SS. fold keys in SS.
    unfold nc_insert_hint. fold k. run (rd_ok w kr Ik). run (rd_list_ok w _ Lsel). rewrite Ek. fold kz.
    set (h := pos_idx p (length (citems c))) in *.
    assert (Lh : h <= length keys) by (rewrite Len; apply pos_idx_le).
    (* the two ways a local insertion is the plain one *)
    assert (FR : forall j, j <= length keys ->
                  (forall pk, 0 < j -> nth_error keys (j - 1) = Some pk -> if unique k then (pk < kz)%Z else (pk <= kz)%Z) ->
                  (forall nk, nth_error keys j = Some nk -> (kz < nk)%Z) ->
                  nc_fresh c j kr (VRef vr) w = nc_insert c PBack kr (VRef vr) w).
    { intros j Lj Lo Hi. symmetry. apply insert_is_fresh.
      - intros UQ. apply (notin_hint kz keys j SS Lj); auto.
        intros pk P0 Np. specialize (Lo pk P0 Np). rewrite UQ in Lo. exact Lo.
      - apply (ins_pos_hint kz keys j SS Lj); auto.
        intros pk P0 Np. specialize (Lo pk P0 Np). destruct (unique k); lia. }
    destruct (nth_error keys h) as [hk|] eqn:Nh.
    - (* the hint is an item *)
      assert (Lh' : h < length keys) by (apply nth_error_Some; congruence).
      destruct (Z.ltb_spec kz hk) as [C1|C1].
      + (* key < insertPos->key *)
        destruct h as [|h'] eqn:Eh.
        * apply FR; [lia | intros pk P0; lia |]. intros nk Nn. rewrite Nh in Nn. inversion Nn. subst. exact C1.
        * destruct (nth_error keys h') as [pk|] eqn:Np; [|reflexivity].
          destruct (if unique k then (pk <? kz)%Z else (pk <=? kz)%Z) eqn:C2; [|reflexivity].
          apply FR; [lia | |].
          -- intros pk' _ Np'. replace (S h' - 1) with h' in Np' by lia. rewrite Np in Np'. inversion Np'. subst pk'.
             destruct (unique k); [apply Z.ltb_lt | apply Z.leb_le]; exact C2.
          -- intros nk Nn. rewrite Nh in Nn. inversion Nn. subst. exact C1.
      + destruct (if unique k then (hk <? kz)%Z else true) eqn:C2.
        * (* behind the hinted item *)
          assert (Hle : (hk <= kz)%Z) by lia.
          assert (Lo : forall pk, 0 < S h -> nth_error keys (S h - 1) = Some pk -> if unique k then (pk < kz)%Z else (pk <= kz)%Z).
          { intros pk _ Np. replace (S h - 1) with h in Np by lia. rewrite Nh in Np. inversion Np. subst pk.
            destruct (unique k); [apply Z.ltb_lt; exact C2 | exact Hle]. }
          destruct (nth_error keys (S h)) as [nk|] eqn:Nn.
          -- destruct (if unique k then (kz <? nk)%Z else (kz <=? nk)%Z) eqn:C3; [|reflexivity].
             apply FR; [apply Nat.lt_le_incl; apply nth_error_Some; congruence | exact Lo |].
             intros nk' Nn'. rewrite Nn in Nn'. inversion Nn'. subst nk'.
             destruct (unique k) eqn:UQ; [apply Z.ltb_lt; exact C3|].
             apply Z.leb_le in C3.
             unfold hint_tie in TIE. rewrite UQ, Nh, Nn in TIE. cbn [negb andb] in TIE.
             apply andb_false_iff in TIE. destruct TIE as [TIE|TIE]; [apply Z.leb_gt in TIE; lia|].
             apply Z.eqb_neq in TIE. lia.
          -- apply FR; [lia | exact Lo | intros nk Q; rewrite Nn in Q; discriminate].
        * (* Map, the hinted item carries the key *)
          destruct (unique k) eqn:UQ; [|discriminate].
          apply Z.ltb_ge in C2. assert (hk = kz) by lia. subst hk.
          destruct (nth_error (citems c) h) as [n|] eqn:N.
          -- symmetry. apply (insert_is_update h n); auto. apply (proj1 KO UQ).
          -- exfalso. apply nth_error_None in N. lia.
    - (* the hint is end() *)
      destruct h as [|h'] eqn:Eh; [reflexivity|].
      destruct (nth_error keys h') as [pk|] eqn:Np; [|reflexivity].
      destruct (Z.ltb_spec pk kz) as [C1|C1]; [|reflexivity].
      apply FR; [exact Lh | | intros nk Q; rewrite Nh in Q; discriminate].
      intros pk' _ Np'. replace (S h' - 1) with h' in Np' by lia. rewrite Np in Np'. inversion Np'. subst pk'.
      destruct (unique k); lia.
  Qed.
End Hint.

Lemma spec_ins_sorted_pos k l p p' kz vz : sorted k = true -> spec_ins k l p kz vz = spec_ins k l p' kz vz.
Proof.
  intros SO. destruct (sorted_fields k SO) as (HK & _ & _). unfold spec_ins. rewrite HK, SO. reflexivity.
Qed.

Lemma nc_insert_hint_ok c p kr vr w : wfw w -> holds w (nids c) -> holdsb w (nblks c) ->
  sorted (ckind c) = true -> In kr (dom (heap w)) -> In vr (dom (heap w)) -> keys_ok (ckind c) (nabs w c) ->
  hint_tie (ckind c) (asel (ckind c) (nabs w c)) (pos_idx p (length (citems c))) (val w kr) = false ->
  exists c' w', nc_insert_hint c p kr vr w = Ok (c', w') /\
     trans w w' (nids c) (nids c') (nblks c) (nblks c') /\ ckind c' = ckind c /\
     nabs w' c' = spec_ins (ckind c) (nabs w c) p (val w kr) (val w vr).
Proof.
  intros W H Hb SO Ik Iv KO TIE.
  rewrite (nc_insert_hint_eq c kr vr w H SO Ik KO p TIE).
  destruct (nc_insert_ok c PBack kr (VRef vr) w W H Hb) as (c' & w' & E & T & K & A); auto.
  { intros _. eauto. }
  exists c', w'. split; [exact E|]. split; [exact T|]. split; [exact K|].
  rewrite A. cbn [vsrc_val]. apply spec_ins_sorted_pos. exact SO.
Qed.

(* the case nc_insert_hint does not decide: the new item is linked where the input j says *)
Lemma nc_insert_tie_ok c p kr vr j w : wfw w -> holds w (nids c) -> holdsb w (nblks c) ->
  sorted (ckind c) = true -> In kr (dom (heap w)) -> In vr (dom (heap w)) ->
  exists c' w', nc_insert_tie c p kr vr j w = Ok (c', w') /\
     trans w w' (nids c) (nids c') (nblks c) (nblks c') /\ ckind c' = ckind c /\
     nabs w' c' = insert_at (S (pos_idx p (length (citems c))) + j) (mk_anode (ckind c) (val w kr) (val w vr)) (nabs w c).
Proof.
  intros W H Hb SO Ik Iv.
  destruct (hint_reads c w H SO) as (_ & Lsel & _).
  unfold nc_insert_tie. run (rd_ok w kr Ik). run (rd_list_ok w _ Lsel).
  destruct (nc_fresh_ok c (S (pos_idx p (length (citems c))) + j) kr (VRef vr) w W H Hb) as (c' & w' & E & T & K & A); auto.
  exists c', w'. split; [exact E|]. split; [exact T|]. split; [exact K|]. exact A.
Qed.

(* ---------------------------------------------------------------------------------------- *)
(* Map::insert(const Map&): the same instances are touched as by plain insertions             *)
(* ---------------------------------------------------------------------------------------- *)
Lemma hint_tie_unique k keys h kz : unique k = true -> hint_tie k keys h kz = false.
Proof. intros U. unfold hint_tie. rewrite U. reflexivity. Qed.

(* one step: the hint is looked up, then the hinted insert = the plain insert *)
Lemma map_step_eq c pk n w : wfw w -> holds w (nids c) -> ckind c = KMap -> keys_ok KMap (nabs w c) ->
  In pk (dom (heap w)) -> In (nk n) (dom (heap w)) ->
  (pz <- rd pk ;; keys <- rd_list (sel_ids (ckind c) (citems c)) ;;
   nc_insert_hint c (match find_idx pz keys with Some j => PAt j | None => PBack end) (nk n) (nv n)) w
  = nc_insert c PBack (nk n) (VRef (nv n)) w.
Proof.
  intros W H K KO Ip Ik.
  assert (SO : sorted (ckind c) = true) by (rewrite K; reflexivity).
  destruct (hint_reads c w H SO) as (Ek & Lsel & _).
  run (rd_ok w pk Ip). run (rd_list_ok w _ Lsel).
  apply nc_insert_hint_eq; auto.
  - rewrite K. exact KO.
  - apply hint_tie_unique. rewrite K. reflexivity.
Qed.

(* other is another map: its instances (F) are outside this map's footprint *)
Lemma nc_insert_all_map_other src : forall c prev w F,
  wfw w -> holds w (nids c ++ F) -> holdsb w (nblks c) -> ckind c = KMap -> keys_ok KMap (nabs w c) ->
  (forall pk, prev = Some pk -> In pk F) -> (forall n, In n src -> In (nk n) F /\ In (nv n) F) ->
  nc_insert_all_map c prev src w = nc_insert_all c PBack src w.
Proof.
  induction src as [|n r IH]; intros c prev w F W H Hb K KO Pv Sr; cbn [nc_insert_all_map nc_insert_all]; [reflexivity|].
  pose proof (holds_app_l _ _ _ H) as Hc. pose proof (holds_app_r _ _ _ H) as HF.
  destruct (Sr n (or_introl eq_refl)) as [Fk Fv].
  assert (Ik : In (nk n) (dom (heap w))) by (eapply holds_in; eauto).
  assert (Iv : In (nv n) (dom (heap w))) by (eapply holds_in; eauto).
  assert (E0 : (match prev with
                | None => nc_insert c PBack (nk n) (VRef (nv n))
                | Some pk => pz <- rd pk ;; keys <- rd_list (sel_ids (ckind c) (citems c)) ;;
                             nc_insert_hint c (match find_idx pz keys with Some j => PAt j | None => PBack end) (nk n) (nv n)
                end) w = nc_insert c PBack (nk n) (VRef (nv n)) w).
  { destruct prev as [pk|]; [|reflexivity]. apply map_step_eq; auto. eapply holds_in; [exact HF | apply Pv; reflexivity]. }
  destruct (nc_insert_ok c PBack (nk n) (VRef (nv n)) w W Hc Hb) as (c1 & w1 & E1 & T1 & K1 & A1); auto.
  { intros _. eauto. }
  unfold bind at 1. rewrite E0, E1. unfold bind at 1. rewrite E1. cbn [pos_next].
  apply (IH c1 (Some (nk n)) w1 F); auto.
  - twf T1.
  - apply (trans_holds_frame _ _ _ _ _ _ F T1 H).
  - eapply trans_holdsb; eauto.
  - congruence.
  - rewrite A1, K. apply keys_ok_ins. exact KO.
  - intros pk Q. inversion Q. subst. exact Fk.
  - intros m I. apply Sr. right. exact I.
Qed.

(* other is this map: every key is found, nothing changes *)
Lemma nc_insert_all_map_self src : forall c prev w,
  wfw w -> holds w (nids c) -> ckind c = KMap -> keys_ok KMap (nabs w c) ->
  (forall pk, prev = Some pk -> In pk (dom (heap w))) -> (forall n, In n src -> In n (citems c)) ->
  nc_insert_all_map c prev src w = nc_insert_all c PBack src w.
Proof.
  induction src as [|n r IH]; intros c prev w W H K KO Pv Sr; cbn [nc_insert_all_map nc_insert_all]; [reflexivity|].
  assert (UQ : unique (ckind c) = true) by (rewrite K; reflexivity).
  assert (ND : NoDup (asel (ckind c) (nabs w c))) by (rewrite K; apply (proj1 KO); reflexivity).
  destruct (In_nth_error _ _ (Sr n (or_introl eq_refl))) as (j & N).
  destruct (nc_insert_found c PBack n j w W H UQ ND N) as (w1 & E1 & T1 & V1).
  pose proof (holds_nids_items _ _ H) as Hi.
  assert (Ik : In (nk n) (dom (heap w))).
  { eapply holds_in; [exact Hi|]. eapply items_ids_in; [eapply nth_error_In; eauto | apply node_ids_key; rewrite K; reflexivity]. }
  assert (E0 : (match prev with
                | None => nc_insert c PBack (nk n) (VRef (nv n))
                | Some pk => pz <- rd pk ;; keys <- rd_list (sel_ids (ckind c) (citems c)) ;;
                             nc_insert_hint c (match find_idx pz keys with Some j => PAt j | None => PBack end) (nk n) (nv n)
                end) w = nc_insert c PBack (nk n) (VRef (nv n)) w).
  { destruct prev as [pk|]; [|reflexivity]. apply map_step_eq; auto. }
  unfold bind at 1. rewrite E0, E1. unfold bind at 1. rewrite E1. cbn [pos_next].
  apply (IH c (Some (nk n)) w1); auto.
  - twf T1.
  - eapply trans_holds; eauto.
  - rewrite (nabs_val_ext w w1 c V1). exact KO.
  - intros pk Q. inversion Q. subst. eapply holds_in; [eapply trans_holds; [exact T1 | exact H]|].
    unfold nids. apply in_or_app. right. eapply items_ids_in; [eapply nth_error_In; eauto | apply node_ids_key; rewrite K; reflexivity].
  - intros m I. apply Sr. right. exact I.
Qed.
