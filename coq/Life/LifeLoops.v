(* Specifications of the loops the container code is made of. *)
From Coq Require Import ZArith List Bool Arith Lia Permutation.
From Life Require Import LifeSpec LifeModel LifeBase.
Import ListNotations.

(* an instance outside the footprint stays live with its payload *)
Lemma trans_keep w w' X X' B B' i :
  trans w w' X X' B B' -> In i (dom (heap w)) -> ~ In i X ->
  val w' i = val w i /\ In i (dom (heap w')).
Proof.
  intros T I N.
  assert (N' : ~ In i X').
  { pose proof (wf_nd _ (t_wf _ _ _ _ _ _ T)) as ND. rewrite nodup_cnt in ND. specialize (ND i).
    pose proof (t_ids _ _ _ _ _ _ T i) as E. apply in_cnt in I. apply notin_cnt in N. apply notin_cnt.
    autorewrite with cntdb in *. lia. }
  split.
  - apply (t_val _ _ _ _ _ _ T); auto.
  - pose proof (t_ids _ _ _ _ _ _ T i) as E. apply in_cnt in I. apply notin_cnt in N. apply notin_cnt in N'.
    apply in_cnt. autorewrite with cntdb in *. lia.
Qed.

Lemma trans_live w w' X X' B B' i :
  trans w w' X X' B B' -> In i (dom (heap w)) -> ~ In i X -> In i (dom (heap w')).
Proof. intros T I N. eapply trans_keep; eauto. Qed.
Lemma trans_val w w' X X' B B' i :
  trans w w' X X' B B' -> In i (dom (heap w)) -> ~ In i X -> val w' i = val w i.
Proof. intros T I N. eapply trans_keep; eauto. Qed.

Lemma trans_keep_map w w' X X' B B' l :
  trans w w' X X' B B' -> (forall i, In i l -> In i (dom (heap w)) /\ ~ In i X) ->
  map (val w') l = map (val w) l.
Proof.
  intros T H. apply map_ext_in. intros i I. destruct (H i I). eapply trans_keep; eauto.
Qed.

(* new instances of a transition are not old ones *)
Lemma trans_fresh w w' X X' B B' i :
  trans w w' X X' B B' -> In i X' -> ~ In i X -> ~ In i (dom (heap w)).
Proof.
  intros T I N.
  pose proof (wf_nd _ (t_wf _ _ _ _ _ _ T)) as ND. rewrite nodup_cnt in ND. specialize (ND i).
  pose proof (t_ids _ _ _ _ _ _ T i) as E. apply in_cnt in I. apply notin_cnt in N. apply notin_cnt.
  autorewrite with cntdb in *. lia.
Qed.

Lemma holds_app_l w X F : holds w (X ++ F) -> holds w X.
Proof. unfold holds. intro H. msolve. Qed.
Lemma holds_app_r w X F : holds w (X ++ F) -> holds w F.
Proof. unfold holds. intro H. msolve. Qed.
Lemma holds_cons w i X : holds w (i :: X) -> In i (dom (heap w)) /\ holds w X.
Proof.
  unfold holds. intro H. split.
  - apply in_cnt. specialize (H i). autorewrite with cntdb in H. rewrite one_same in H. lia.
  - msolve.
Qed.
Lemma holds_disjoint w X F i : wfw w -> holds w (X ++ F) -> In i F -> ~ In i X.
Proof.
  intros W H I J. pose proof (holds_nodup _ _ W H) as ND. rewrite nodup_cnt in ND. specialize (ND i).
  apply in_cnt in I. apply in_cnt in J. autorewrite with cntdb in ND. lia.
Qed.
Lemma holds_nil w : holds w [].
Proof. unfold holds. msolve. Qed.
Lemma holdsb_nil w : holdsb w [].
Proof. unfold holdsb. msolve. Qed.

Lemma bind_ret {A B} (a : A) (f : A -> M B) w : bind (ret a) f w = f a w.
Proof. reflexivity. Qed.
Ltac run H := rewrite ?bind_ret; erewrite bind_ok by (exact H); rewrite ?bind_ret.

(* ---- rd_list ---- *)
Lemma rd_list_ok w l : (forall i, In i l -> In i (dom (heap w))) -> rd_list l w = Ok (map (val w) l, w).
Proof.
  induction l as [|i r IH]; intros H; cbn [rd_list map]; [reflexivity|].
  erewrite bind_ok by (apply rd_ok; apply H; left; auto).
  erewrite bind_ok by (apply IH; intros j J; apply H; right; auto).
  reflexivity.
Qed.

(* ---- destroy_list ---- *)
Lemma destroy_list_ok l : forall w, wfw w -> holds w l ->
  exists w', destroy_list l w = Ok (tt, w') /\ trans w w' l [] [] [].
Proof.
  induction l as [|i r IH]; intros w W H; cbn [destroy_list].
  - exists w. split; [reflexivity|]. apply trans_refl; auto.
  - destruct (holds_cons _ _ _ H) as [I Hr].
    destruct (destroy_ok w i W I) as [E T]. run E.
    assert (H1 : holds (w_destroy w i) r).
    { apply (trans_holds_frame _ _ _ _ _ _ r T H). }
    destruct (IH _ (t_wf _ _ _ _ _ _ T) H1) as (w' & E' & T').
    exists w'. split; [exact E'|].
    eapply (trans_seq r [] [] [] _ _ _ _ _ _ _ _ _ _ _ _ _ _ _ T T'); msolve.
Qed.

Lemma bfree_list_ok l : forall w, wfw w -> holdsb w l ->
  exists w', bfree_list l w = Ok (tt, w') /\ trans w w' [] [] l [].
Proof.
  induction l as [|b r IH]; intros w W H; cbn [bfree_list].
  - exists w. split; [reflexivity|]. apply trans_refl; auto.
  - assert (I : In b (blks w)).
    { apply in_cnt. specialize (H b). autorewrite with cntdb in H. rewrite one_same in H. lia. }
    destruct (bfree_ok w b W I) as [E T]. run E.
    assert (H1 : holdsb (w_bfree w b) r).
    { apply (trans_holdsb_frame _ _ _ _ _ _ r T H). }
    destruct (IH _ (t_wf _ _ _ _ _ _ T) H1) as (w' & E' & T').
    exists w'. split; [exact E'|].
    eapply (trans_seq [] [] r [] _ _ _ _ _ _ _ _ _ _ _ _ _ _ _ T T'); msolve.
Qed.

(* ---- copy_list ---- *)
Lemma copy_list_ok l : forall w, wfw w -> (forall s, In s l -> In s (dom (heap w))) ->
  exists l' w', copy_list l w = Ok (l', w') /\ trans w w' [] l' [] [] /\
                map (val w') l' = map (val w) l.
Proof.
  induction l as [|s r IH]; intros w W H; cbn [copy_list].
  - exists [], w. split; [reflexivity|]. split; [apply trans_refl; auto | reflexivity].
  - destruct (mk_copy_ok w s W (H s (or_introl eq_refl))) as (E & T & V). run E.
    set (w1 := w_mk w (val w s) (ECopy (nxt w) s)) in *.
    assert (K : forall i, In i (dom (heap w)) -> val w1 i = val w i /\ In i (dom (heap w1))).
    { intros i I. eapply trans_keep; eauto. }
    destruct (IH w1 (t_wf _ _ _ _ _ _ T)) as (l' & w' & E' & T' & V').
    { intros j J. apply K. apply H. right. auto. }
    run E'. exists (nxt w :: l'), w'. split; [reflexivity|]. split.
    + eapply (trans_seq [] [nxt w] [] [] _ _ _ _ _ _ _ _ _ _ _ _ _ _ _ T T'); msolve.
    + cbn [map]. f_equal.
      * rewrite <- V. eapply trans_keep; eauto.
        apply in_cnt. pose proof (t_ids _ _ _ _ _ _ T (nxt w)) as Q. autorewrite with cntdb in Q.
        rewrite one_same in Q. lia.
      * rewrite V'. apply map_ext_in. intros j J. apply K. apply H. right. auto.
Qed.

(* ---- fill ---- *)
Lemma fill_ok n : forall w s, wfw w -> In s (dom (heap w)) ->
  exists l' w', fill n s w = Ok (l', w') /\ trans w w' [] l' [] [] /\
                map (val w') l' = repeat (val w s) n.
Proof.
  induction n as [|n IH]; intros w s W H; cbn [fill].
  - exists [], w. split; [reflexivity|]. split; [apply trans_refl; auto | reflexivity].
  - destruct (mk_copy_ok w s W H) as (E & T & V). run E.
    set (w1 := w_mk w (val w s) (ECopy (nxt w) s)) in *.
    destruct (trans_keep _ _ _ _ _ _ s T H (fun x => x)) as [Vs Is].
    destruct (IH w1 s (t_wf _ _ _ _ _ _ T) Is) as (l' & w' & E' & T' & V').
    run E'. exists (nxt w :: l'), w'. split; [reflexivity|]. split.
    + eapply (trans_seq [] [nxt w] [] [] _ _ _ _ _ _ _ _ _ _ _ _ _ _ _ T T'); msolve.
    + cbn [map repeat]. f_equal.
      * rewrite <- V. eapply trans_keep; eauto.
        apply in_cnt. pose proof (t_ids _ _ _ _ _ _ T (nxt w)) as Q. autorewrite with cntdb in Q.
        rewrite one_same in Q. lia.
      * rewrite V', Vs. reflexivity.
Qed.

(* ---- def_list ---- *)
Lemma def_list_ok n : forall w, wfw w ->
  exists l' w', def_list n w = Ok (l', w') /\ trans w w' [] l' [] [] /\ length l' = n.
Proof.
  induction n as [|n IH]; intros w W; cbn [def_list].
  - exists [], w. split; [reflexivity|]. split; [apply trans_refl; auto | reflexivity].
  - destruct (mk_def_ok w W) as (E & T & V). run E.
    destruct (IH _ (t_wf _ _ _ _ _ _ T)) as (l' & w' & E' & T' & V').
    run E'. exists (nxt w :: l'), w'. split; [reflexivity|]. split.
    + eapply (trans_seq [] [nxt w] [] [] _ _ _ _ _ _ _ _ _ _ _ _ _ _ _ T T'); msolve.
    + cbn [length]. lia.
Qed.

(* ---- move_list: Array::reserve ---- *)
Lemma move_list_ok l : forall w, wfw w -> holds w l ->
  exists l' w', move_list l w = Ok (l', w') /\ trans w w' l l' [] [] /\
                map (val w') l' = map (val w) l.
Proof.
  induction l as [|s r IH]; intros w W H; cbn [move_list].
  - exists [], w. split; [reflexivity|]. split; [apply trans_refl; auto | reflexivity].
  - destruct (holds_cons _ _ _ H) as [I Hr].
    pose proof (holds_nodup _ _ W H) as ND. inversion ND as [|? ? NI ND']; subst.
    destruct (mk_copy_ok w s W I) as (E & T & V). run E.
    set (w1 := w_mk w (val w s) (ECopy (nxt w) s)) in *.
    assert (K : forall i, In i (dom (heap w)) -> val w1 i = val w i /\ In i (dom (heap w1))).
    { intros i J. eapply trans_keep; eauto. }
    destruct (destroy_ok w1 s (t_wf _ _ _ _ _ _ T) (proj2 (K s I))) as [E2 T2]. run E2.
    set (w2 := w_destroy w1 s) in *.
    assert (T12 : trans w w2 [s] [nxt w] [] []).
    { eapply (trans_seq [s] [nxt w] [] [] _ _ _ _ _ _ _ _ _ _ _ _ _ _ _ T T2); msolve. }
    assert (H2 : holds w2 r).
    { pose proof (trans_holds_frame _ _ _ _ _ _ r T12 H) as Q. eapply holds_app_r; eauto. }
    destruct (IH w2 (t_wf _ _ _ _ _ _ T2) H2) as (l' & w' & E' & T' & V').
    run E'. exists (nxt w :: l'), w'. split; [reflexivity|]. split.
    + eapply (trans_seq r [nxt w] [] [] _ _ _ _ _ _ _ _ _ _ _ _ _ _ _ T12 T'); msolve.
    + cbn [map]. f_equal.
      * rewrite <- V.
        assert (J1 : In (nxt w) (dom (heap w1))).
        { apply in_cnt. pose proof (t_ids _ _ _ _ _ _ T (nxt w)) as Q. autorewrite with cntdb in Q.
          rewrite one_same in Q. lia. }
        assert (Ns : nxt w <> s) by (apply wf_lt in I; auto; lia).
        destruct (trans_keep _ _ _ _ _ _ (nxt w) T2 J1) as [Va Ia].
        { intros [Q|[]]. congruence. }
        rewrite <- Va. eapply trans_keep; eauto.
        intro J. apply (holds_lt _ _ _ W Hr) in J. lia.
      * rewrite V'. apply map_ext_in. intros j J.
        assert (Jd : In j (dom (heap w))) by (eapply holds_in; eauto).
        assert (Njs : j <> s) by (intro; subst; tauto).
        destruct (K j Jd) as [Vj Ij].
        rewrite <- Vj. eapply trans_keep; eauto. intros [Q|[]]. congruence.
Qed.

(* ---- shift_down: Array::remove ---- *)
Lemma holds_single w i : In i (dom (heap w)) -> holds w [i].
Proof.
  intros I x. autorewrite with cntdb. apply in_cnt in I.
  destruct (Nat.eq_dec i x) as [->|N]; [rewrite one_same | rewrite one_diff by auto]; lia.
Qed.

Lemma shift_down_ok l : forall w, wfw w -> holds w l ->
  exists w', shift_down l w = Ok (tt, w') /\ trans w w' l l [] [] /\
             map (val w') (removelast l) = map (val w) (tl l).
Proof.
  induction l as [|d r IH]; intros w W H.
  - exists w. split; [reflexivity|]. split; [apply trans_refl; auto | reflexivity].
  - destruct r as [|s r'].
    + exists w. split; [reflexivity|]. split; [apply trans_refl; auto | reflexivity].
    + cbn [shift_down].
      destruct (holds_cons _ _ _ H) as [Id Hr]. destruct (holds_cons _ _ _ Hr) as [Is Hr'].
      pose proof (holds_nodup _ _ W H) as ND. inversion ND as [|? ? NI ND']; subst.
      destruct (assign_ok w d s W Id Is) as (E & T & V). run E.
      set (w1 := w_assign w d s (val w s)) in *.
      assert (H1 : holds w1 (s :: r')).
      { pose proof (trans_holds_frame _ _ _ _ _ _ (s :: r') T H) as Q. eapply holds_app_r; eauto. }
      assert (Id1 : In d (dom (heap w1))).
      { eapply holds_in; [eapply trans_holds; [exact T | apply holds_single; auto] | left; auto]. }
      destruct (IH w1 (t_wf _ _ _ _ _ _ T) H1) as (w' & E' & T' & V').
      exists w'. split; [exact E'|]. split.
      * eapply (trans_seq (s :: r') [d] [] [] _ _ _ _ _ _ _ _ _ _ _ _ _ _ _ T T'); msolve.
      * change (removelast (d :: s :: r')) with (d :: removelast (s :: r')).
        cbn [map tl]. f_equal.
        -- rewrite <- V. eapply trans_keep; eauto.
        -- rewrite V'. cbn [tl]. apply map_ext_in. intros j J.
           eapply trans_keep; [exact T | eapply holds_in; eauto | ].
           intros [Q|[]]. subst j. apply NI. right. auto.
Qed.

(* ---- mk_vals: the caller's buffer of n elements ---- *)
Lemma mk_vals_ok zs : forall w, wfw w ->
  exists l w', mk_vals zs w = Ok (l, w') /\ trans w w' [] l [] [] /\ map (val w') l = zs.
Proof.
  induction zs as [|z r IH]; intros w W; cbn [mk_vals].
  - exists [], w. split; [reflexivity|]. split; [apply trans_refl; auto | reflexivity].
  - destruct (mk_val_ok w z W) as (E & T & V). run E.
    destruct (IH _ (t_wf _ _ _ _ _ _ T)) as (l' & w' & E' & T' & V').
    run E'. exists (nxt w :: l'), w'. split; [reflexivity|]. split.
    + eapply (trans_seq [] [nxt w] [] [] _ _ _ _ _ _ _ _ _ _ _ _ _ _ _ T T'); msolve.
    + cbn [map]. f_equal; [|exact V'].
      rewrite <- V. eapply trans_keep; [exact T' | | tauto].
      apply in_cnt. pose proof (t_ids _ _ _ _ _ _ T (nxt w)) as Q. autorewrite with cntdb in Q.
      rewrite one_same in Q. lia.
Qed.
