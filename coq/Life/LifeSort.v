(* List::sort(): the in-place quicksort of the model exchanges payloads through a temporary
   (copy-construct, assign, assign, destroy) and never constructs or destroys a stored element;
   it runs without a lifetime error on every list, leaves the instances of the list the very same
   ones, and the payload sequence it produces is THE sorted permutation (zsort) of the old one. *)
From Coq Require Import ZArith List Bool Arith Lia Permutation.
From Life Require Import LifeSpec LifeModel LifeBase LifeLoops LifeArray LifeNode LifeSpecProofs.
Import ListNotations.
Local Open Scope Z_scope.

Lemma trans_same_dom w w' X B B' : trans w w' X X B B' -> meq (dom (heap w')) (dom (heap w)).
Proof. intros [_ I _ _ _ _]. msolve. Qed.
Lemma trans_same_live w w' X B B' i : trans w w' X X B B' -> In i (dom (heap w)) -> In i (dom (heap w')).
Proof. intros T I. eapply meq_in; [apply meq_sym; eapply trans_same_dom; eauto | exact I]. Qed.

(* ---- QuickSort::swap ---- *)
Lemma swap_vals_ok a b w : wfw w -> In a (dom (heap w)) -> In b (dom (heap w)) ->
  exists w', swap_vals a b w = Ok (tt, w') /\ trans w w' [a; b] [a; b] [] [] /\
             val w' a = val w b /\ val w' b = val w a.
Proof.
  intros W Ia Ib. unfold swap_vals.
  destruct (mk_copy_ok w a W Ia) as (E1 & T1 & V1). run E1.
  set (t := nxt w) in *. set (w1 := w_mk w (val w a) (ECopy t a)) in *.
  assert (Nta : t <> a) by (apply wf_lt in Ia; auto; unfold t; lia).
  assert (Ntb : t <> b) by (apply wf_lt in Ib; auto; unfold t; lia).
  destruct (trans_keep _ _ _ _ _ _ a T1 Ia (fun x => x)) as [Va1 Ia1].
  destruct (trans_keep _ _ _ _ _ _ b T1 Ib (fun x => x)) as [Vb1 Ib1].
  assert (It1 : In t (dom (heap w1))) by apply mk_live.
  destruct (assign_ok w1 a b ltac:(twf T1) Ia1 Ib1) as (E2 & T2 & V2). run E2.
  set (w2 := w_assign w1 a b (val w1 b)) in *.
  assert (Ib2 : In b (dom (heap w2))) by (eapply trans_same_live; eauto).
  assert (It2 : In t (dom (heap w2))) by (eapply trans_same_live; eauto).
  assert (Vt2 : val w2 t = val w1 t).
  { apply (t_val _ _ _ _ _ _ T2); intros [Q|[]]; congruence. }
  destruct (assign_ok w2 b t ltac:(twf T2) Ib2 It2) as (E3 & T3 & V3). run E3.
  set (w3 := w_assign w2 b t (val w2 t)) in *.
  assert (It3 : In t (dom (heap w3))) by (eapply trans_same_live; eauto).
  destruct (destroy_ok w3 t ltac:(twf T3) It3) as [E4 T4].
  exists (w_destroy w3 t). split; [exact E4|].
  set (w4 := w_destroy w3 t) in *.
  assert (V4 : forall i, i <> t -> val w4 i = val w3 i).
  { intros i Q. apply (t_val _ _ _ _ _ _ T4); [intros [R|[]]; congruence | tauto]. }
  split; [|split].
  - assert (T12 : trans w w2 [a; b] [a; b; t] [] []).
    { eapply (trans_seq [a; b] [b; t] [] [] _ _ _ _ _ _ _ _ _ _ _ _ _ _ _ T1 T2); msolve. }
    assert (T13 : trans w w3 [a; b] [b; a; t] [] []).
    { eapply (trans_seq [] [a; t] [] [] _ _ _ _ _ _ _ _ _ _ _ _ _ _ _ T12 T3); msolve. }
    eapply (trans_seq [] [b; a] [] [] _ _ _ _ _ _ _ _ _ _ _ _ _ _ _ T13 T4); msolve.
  - rewrite V4 by congruence.
    destruct (Nat.eq_dec a b) as [->|NE].
    + rewrite V3, Vt2, V1. reflexivity.
    + assert (Q : val w3 a = val w2 a) by (apply (t_val _ _ _ _ _ _ T3); intros [R|[]]; congruence).
      rewrite Q, V2. exact Vb1.
  - rewrite V4 by congruence. rewrite V3, Vt2. exact V1.
Qed.

Lemma swap_vals_other a b w w' i : trans w w' [a; b] [a; b] [] [] -> i <> a -> i <> b -> val w' i = val w i.
Proof. intros T Na Nb. apply (t_val _ _ _ _ _ _ T); intros [Q|[Q|[]]]; congruence. Qed.

(* ---- list facts ---- *)
Lemma perm_swap_mid {A} (a b : A) m t : Permutation (a :: m ++ b :: t) (b :: m ++ a :: t).
Proof.
  transitivity (a :: b :: m ++ t); [constructor; symmetry; apply Permutation_middle|].
  transitivity (b :: a :: m ++ t); [apply perm_swap|]. constructor. apply Permutation_middle.
Qed.

Lemma ssorted_short (l : list Z) : (length l <= 1)%nat -> ssorted l.
Proof.
  destruct l as [|a [|b t]]; cbn [length ssorted]; intros L; try lia; auto.
  split; auto. intros c [].
Qed.

Lemma map_ext_on {A B} (f g : A -> B) l : (forall x, In x l -> f x = g x) -> map f l = map g l.
Proof. apply map_ext_in. Qed.

(* ---- the partition loop ---- *)
Lemma qpart_ok rest : forall pv Ls Gs w, wfw w -> NoDup (pv :: Ls ++ Gs ++ rest) ->
  (forall i, In i (pv :: Ls ++ Gs ++ rest) -> In i (dom (heap w))) ->
  (forall i, In i Ls -> val w i < val w pv) -> (forall i, In i Gs -> val w pv <= val w i) ->
  exists Ls' Gs' w', qpart pv Ls Gs rest w = Ok ((Ls', Gs'), w') /\ Ls' ++ Gs' = Ls ++ Gs ++ rest /\
    trans w w' (Ls ++ Gs ++ rest) (Ls ++ Gs ++ rest) [] [] /\
    Permutation (map (val w') (Ls ++ Gs ++ rest)) (map (val w) (Ls ++ Gs ++ rest)) /\
    (forall i, In i Ls' -> val w' i < val w pv) /\ (forall i, In i Gs' -> val w pv <= val w' i).
Proof.
  induction rest as [|x r IH]; intros pv Ls Gs w W ND LV RL RG; cbn [qpart].
  - exists Ls, Gs, w. split; [reflexivity|]. split; [rewrite app_nil_r; reflexivity|].
    split; [apply trans_refl; auto|]. split; [apply Permutation_refl|]. split; assumption.
  - assert (Ix : In x (dom (heap w))).
    { apply LV. right. apply in_or_app. right. apply in_or_app. right. left. reflexivity. }
    assert (Ip : In pv (dom (heap w))) by (apply LV; left; reflexivity).
    run (rd_ok w x Ix). run (rd_ok w pv Ip).
    destruct (Z.ltb_spec (val w x) (val w pv)) as [C|C].
    + destruct Gs as [|g G'].
      * (* ptr1 == ptr2: the element is exchanged with itself *)
        destruct (swap_vals_ok x x w W Ix Ix) as (w1 & E1 & T1 & V1 & _). run E1.
        assert (Vall : forall i, val w1 i = val w i).
        { intros i. destruct (Nat.eq_dec i x) as [->|NE]; [exact V1 | eapply swap_vals_other; eauto]. }
        cbn [app] in *.
        destruct (IH pv (Ls ++ [x]) [] w1 ltac:(twf T1)) as (Ls' & Gs' & w' & E' & EL & T' & P' & RL' & RG').
        { cbn [app]. rewrite <- app_assoc. exact ND. }
        { intros i I. eapply trans_same_live; [exact T1|]. apply LV. cbn [app] in I. rewrite <- app_assoc in I. exact I. }
        { intros i I. rewrite !Vall. apply in_app_or in I. destruct I as [I|[<-|[]]]; [apply RL; exact I | exact C]. }
        { intros i []. }
        cbn [app] in *. rewrite <- app_assoc in *. cbn [app] in *.
        exists Ls', Gs', w'. split; [exact E'|]. split; [exact EL|]. split; [|split; [|split]].
        -- eapply trans_trans; [|exact T'].
           eapply trans_same_widen; [exact T1|]. intros i [<-|[<-|[]]]; apply in_or_app; right; left; reflexivity.
        -- rewrite P'. rewrite (map_ext _ _ Vall). apply Permutation_refl.
        -- intros i I. rewrite <- (Vall pv). apply RL'. exact I.
        -- intros i I. rewrite <- (Vall pv). apply RG'. exact I.
      * (* the first of the not-less items and the current item exchange their payloads *)
        assert (Ig : In g (dom (heap w))).
        { apply LV. right. apply in_or_app. right. left. reflexivity. }
        destruct (swap_vals_ok g x w W Ig Ix) as (w1 & E1 & T1 & Vg & Vx). run E1.
        assert (Vo : forall i, i <> g -> i <> x -> val w1 i = val w i) by (intros; eapply swap_vals_other; eauto).
        (* the list is Ls ++ g :: G' ++ x :: r throughout *)
        assert (EQ : (Ls ++ [g]) ++ (G' ++ [x]) ++ r = Ls ++ (g :: G') ++ x :: r).
        { rewrite <- !app_assoc. cbn [app]. reflexivity. }
        cbn [app] in ND.
        assert (Dg : forall i, In i Ls -> i <> g /\ i <> x).
        { intros i I. apply in_cnt in I. split; intro Q; subst i; [m_in g | m_in x]. }
        assert (Dx : forall i, In i G' -> i <> g /\ i <> x).
        { intros i I. apply in_cnt in I. split; intro Q; subst i; [m_in g | m_in x]. }
        assert (Dr : forall i, In i r -> i <> g /\ i <> x).
        { intros i I. apply in_cnt in I. split; intro Q; subst i; [m_in g | m_in x]. }
        assert (Ngx : g <> x) by (intro Q; subst g; m_in x).
        assert (Pg : pv <> g /\ pv <> x) by (split; intro Q; subst pv; [m_in g | m_in x]).
        assert (Vp : val w1 pv = val w pv) by (apply Vo; tauto).
        destruct (IH pv (Ls ++ [g]) (G' ++ [x]) w1 ltac:(twf T1)) as (Ls' & Gs' & w' & E' & EL & T' & P' & RL' & RG').
        { rewrite EQ. cbn [app]. exact ND. }
        { intros i I. eapply trans_same_live; [exact T1|]. apply LV. rewrite EQ in I. exact I. }
        { intros i I. rewrite Vp. apply in_app_or in I. destruct I as [I|[<-|[]]].
          - destruct (Dg i I). rewrite Vo by assumption. apply RL. exact I.
          - rewrite Vg. exact C. }
        { intros i I. rewrite Vp. apply in_app_or in I. destruct I as [I|[<-|[]]].
          - destruct (Dx i I). rewrite Vo by assumption. apply RG. right. exact I.
          - rewrite Vx. apply RG. left. reflexivity. }
        rewrite EQ in *.
        exists Ls', Gs', w'. split; [exact E'|]. split; [exact EL|]. split; [|split; [|split]].
        -- eapply trans_trans; [|exact T'].
           eapply trans_same_widen; [exact T1|]. intros i [<-|[<-|[]]]; apply in_or_app; right;
             [left; reflexivity | right; apply in_or_app; right; left; reflexivity].
        -- rewrite P'. rewrite !map_app.
           rewrite (map_ext_on (val w1) (val w) Ls) by (intros i I; destruct (Dg i I); apply Vo; assumption).
           apply Permutation_app_head. cbn [app map].
           rewrite Vg, Vx.
           rewrite (map_ext_on (val w1) (val w) G') by (intros i I; destruct (Dx i I); apply Vo; assumption).
           rewrite (map_ext_on (val w1) (val w) r) by (intros i I; destruct (Dr i I); apply Vo; assumption).
           apply perm_swap_mid.
        -- intros i I. rewrite <- Vp. apply RL'. exact I.
        -- intros i I. rewrite <- Vp. apply RG'. exact I.
    + (* not less: the item joins the others *)
      assert (EQ : Ls ++ (Gs ++ [x]) ++ r = Ls ++ Gs ++ x :: r).
      { rewrite <- !app_assoc. reflexivity. }
      destruct (IH pv Ls (Gs ++ [x]) w W) as (Ls' & Gs' & w' & E' & EL & T' & P' & RL' & RG').
      { rewrite EQ. exact ND. }
      { intros i I. apply LV. rewrite EQ in I. exact I. }
      { exact RL. }
      { intros i I. apply in_app_or in I. destruct I as [I|[<-|[]]]; [apply RG; exact I | exact C]. }
      rewrite EQ in *. exists Ls', Gs', w'. auto 10.
Qed.

(* ---- one part of the segment, sorted only when it has two items or more ---- *)
Definition piece (f : nat) (A : list id) : M unit := if (2 <=? length A)%nat then qsort f A else ret tt.

Definition sorts (f : nat) : Prop := forall seg w, (length seg <= f)%nat -> wfw w -> NoDup seg ->
  (forall i, In i seg -> In i (dom (heap w))) ->
  exists w', qsort f seg w = Ok (tt, w') /\ trans w w' seg seg [] [] /\
     Permutation (map (val w') seg) (map (val w) seg) /\ ssorted (map (val w') seg).

Lemma piece_ok f A w : sorts f -> (length A <= f)%nat -> wfw w -> NoDup A -> (forall i, In i A -> In i (dom (heap w))) ->
  exists w', piece f A w = Ok (tt, w') /\ trans w w' A A [] [] /\
     Permutation (map (val w') A) (map (val w) A) /\ ssorted (map (val w') A).
Proof.
  intros SF L W ND LV. unfold piece. destruct (2 <=? length A)%nat eqn:C.
  - apply SF; auto.
  - exists w. split; [reflexivity|]. split; [apply trans_refl; auto|]. split; [apply Permutation_refl|].
    apply ssorted_short. rewrite map_length. apply Nat.leb_gt in C. lia.
Qed.

Lemma two_pieces f A B w : sorts f -> (length A <= f)%nat -> (length B <= f)%nat -> wfw w -> NoDup (A ++ B) ->
  (forall i, In i (A ++ B) -> In i (dom (heap w))) ->
  exists w', (piece f A ;;; piece f B) w = Ok (tt, w') /\ trans w w' (A ++ B) (A ++ B) [] [] /\
     Permutation (map (val w') A) (map (val w) A) /\ ssorted (map (val w') A) /\
     Permutation (map (val w') B) (map (val w) B) /\ ssorted (map (val w') B).
Proof.
  intros SF LA LB W ND LV.
  destruct (piece_ok f A w SF LA W (nodup_app_l _ _ ND)) as (w1 & E1 & T1 & P1 & S1).
  { intros i I. apply LV. apply in_or_app. left. exact I. }
  run E1.
  destruct (piece_ok f B w1 SF LB ltac:(twf T1) (nodup_app_r _ _ ND)) as (w2 & E2 & T2 & P2 & S2).
  { intros i I. eapply trans_same_live; [exact T1|]. apply LV. apply in_or_app. right. exact I. }
  exists w2. split; [exact E2|].
  assert (DA : forall i, In i A -> ~ In i B) by (intros i I J; eapply nodup_app_disj; eauto).
  assert (EA : map (val w2) A = map (val w1) A).
  { apply map_ext_on. intros i I. apply (t_val _ _ _ _ _ _ T2); apply DA; exact I. }
  assert (EB : map (val w1) B = map (val w) B).
  { apply map_ext_on. intros i I. apply (t_val _ _ _ _ _ _ T1); intro J; eapply DA; eauto. }
  split; [|split; [|split; [|split]]].
  - eapply trans_trans; [eapply trans_same_widen; [exact T1|] | eapply trans_same_widen; [exact T2|]];
      intros i I; apply in_or_app; [left | right]; exact I.
  - rewrite EA. exact P1.
  - rewrite EA. exact S1.
  - rewrite <- EB. exact P2.
  - exact S2.
Qed.

Lemma removelast_last_split (l : list nat) d : l <> [] -> l = removelast l ++ [last l d].
Proof. apply app_removelast_last. Qed.

Lemma perm_forall {A} (P : A -> Prop) l l' : Permutation l l' -> (forall x, In x l' -> P x) -> forall x, In x l -> P x.
Proof. intros Pm H x I. apply H. eapply Permutation_in; eauto. Qed.

(* the items in front of the pivot's final place: none, or `left` and all less-items but the last *)
Lemma lp_cases (lft : nat) (Ls : list nat) :
  (Ls = [] /\ last Ls lft = lft /\ match Ls with [] => [] | _ => lft :: removelast Ls end = []) \/
  (exists R m, Ls = R ++ [m] /\ last Ls lft = m /\ match Ls with [] => [] | _ => lft :: removelast Ls end = lft :: R).
Proof.
  destruct Ls as [|a t]; [left; auto|]. right. exists (removelast (a :: t)), (last (a :: t) lft).
  split; [apply app_removelast_last; discriminate | split; reflexivity].
Qed.

(* ---- QuickSort::sort ---- *)
Lemma qsort_ok f : sorts f.
Proof.
  induction f as [|f IH]; intros seg w L W ND LV.
  - destruct seg; [|cbn in L; lia]. exists w. split; [reflexivity|]. split; [apply trans_refl; auto|].
    split; [apply Permutation_refl | exact Logic.I].
  - cbn [qsort]. destruct seg as [|lft rest].
    + exists w. split; [reflexivity|]. split; [apply trans_refl; auto|]. split; [apply Permutation_refl | exact Logic.I].
    + cbn [length] in L.
      destruct (qpart_ok rest lft [] [] w W) as (Ls & Gs & w1 & E1 & EL & T1 & P1 & RL & RG).
      { exact ND. } { exact LV. } { intros i []. } { intros i []. }
      cbn [app] in EL, T1, P1. run E1.
      destruct (proj1 (NoDup_cons_iff _ _) ND) as [Nl NDr].
      assert (Vl1 : val w1 lft = val w lft) by (apply (t_val _ _ _ _ _ _ T1); exact Nl).
      assert (LV1 : forall i, In i (lft :: rest) -> In i (dom (heap w1))).
      { intros i I. eapply trans_same_live; [exact T1 | apply LV; exact I]. }
      set (m := last Ls lft).
      set (Lp := match Ls with [] => [] | _ => lft :: removelast Ls end).
      (* the segment is Lp ++ m :: Gs *)
      assert (SEG : lft :: rest = Lp ++ m :: Gs).
      { destruct (lp_cases lft Ls) as [(E0 & Em & EL0)|(R & m' & E0 & Em & EL0)]; unfold Lp, m; rewrite EL0, Em, <- EL, E0;
          [reflexivity | cbn [app]; rewrite <- app_assoc; reflexivity]. }
      assert (Im : In m (lft :: rest)) by (rewrite SEG; apply in_or_app; right; left; reflexivity).
      destruct (swap_vals_ok lft m w1 ltac:(twf T1) (LV1 _ (or_introl eq_refl)) (LV1 _ Im)) as (w2 & E2 & T2 & Vlft & Vm).
      run E2.
      assert (ND' : NoDup (Lp ++ m :: Gs)) by (rewrite <- SEG; exact ND).
      assert (NDLG : NoDup (Lp ++ Gs)) by (eapply NoDup_remove_1; eauto).
      assert (NmL : ~ In m Lp /\ ~ In m Gs).
      { apply NoDup_remove_2 in ND'. split; intro Q; apply ND'; apply in_or_app; [left | right]; exact Q. }
      (* payloads after the exchange: Lp below the pivot, m the pivot, Gs not below *)
      set (p := val w lft).
      assert (Vm2 : val w2 m = p) by (rewrite Vm; exact Vl1).
      assert (VL2 : forall i, In i Lp -> val w2 i < p).
      { destruct (lp_cases lft Ls) as [(E0 & Em & EL0)|(R & m' & E0 & Em & EL0)].
        - unfold Lp. rewrite EL0. intros i [].
        - assert (ELp : Lp = lft :: R) by (unfold Lp; exact EL0).
          assert (Emm : m = m') by (unfold m; exact Em).
          rewrite ELp. intros i [<-|I].
          + rewrite Vlft, Emm. apply RL. rewrite E0. apply in_or_app. right. left. reflexivity.
          + assert (I' : In i Ls) by (rewrite E0; apply in_or_app; left; exact I).
            rewrite (swap_vals_other lft m w1 w2 i T2).
            * apply RL. exact I'.
            * intro Q. apply Nl. rewrite <- EL, <- Q. apply in_or_app. left. exact I'.
            * intro Q. apply (proj1 NmL). rewrite ELp, <- Q. right. exact I. }
      assert (VG2 : forall i, In i Gs -> p <= val w2 i).
      { intros i I. rewrite (swap_vals_other lft m w1 w2 i T2).
        - apply RG. exact I.
        - intro Q. subst i. apply Nl. rewrite <- EL. apply in_or_app. right. exact I.
        - intro Q. subst i. apply (proj2 NmL). exact I. }
      assert (LL : (length Lp <= f)%nat).
      { assert (length Lp = length Ls).
        { destruct (lp_cases lft Ls) as [(E0 & Em & EL0)|(R & m' & E0 & Em & EL0)]; unfold Lp; rewrite EL0, E0;
            [reflexivity | rewrite app_length; cbn [length]; lia]. }
        apply (f_equal (@length nat)) in EL. rewrite app_length in EL. lia. }
      assert (LG : (length Gs <= f)%nat).
      { apply (f_equal (@length nat)) in EL. rewrite app_length in EL. lia. }
      assert (LV2 : forall i, In i (Lp ++ m :: Gs) -> In i (dom (heap w2))).
      { intros i I. eapply trans_same_live; [exact T2 | apply LV1; rewrite SEG; exact I]. }
      fold (piece f Lp) (piece f Gs).
      (* whichever side goes first *)
      assert (R : exists w4, (if (length Ls <? length Gs)%nat then piece f Lp ;;; piece f Gs else piece f Gs ;;; piece f Lp) w2 = Ok (tt, w4) /\
                  trans w2 w4 (Lp ++ Gs) (Lp ++ Gs) [] [] /\
                  Permutation (map (val w4) Lp) (map (val w2) Lp) /\ ssorted (map (val w4) Lp) /\
                  Permutation (map (val w4) Gs) (map (val w2) Gs) /\ ssorted (map (val w4) Gs)).
      { destruct (length Ls <? length Gs)%nat.
        - destruct (two_pieces f Lp Gs w2 IH LL LG ltac:(twf T2) NDLG) as (w4 & E4 & T4 & Q).
          { intros i I. apply LV2. apply in_app_or in I. apply in_or_app. destruct I; [left | right; right]; assumption. }
          exists w4. auto.
        - assert (NDGL : NoDup (Gs ++ Lp)) by (eapply Permutation_NoDup; [apply Permutation_app_comm | exact NDLG]).
          destruct (two_pieces f Gs Lp w2 IH LG LL ltac:(twf T2) NDGL) as (w4 & E4 & T4 & PG & SG & PL & SL).
          { intros i I. apply LV2. apply in_app_or in I. apply in_or_app. destruct I; [right; right | left]; assumption. }
          exists w4. split; [exact E4|]. split; [|auto].
          eapply trans_same_widen; [exact T4|]. intros i I. apply in_app_or in I. apply in_or_app. tauto. }
      destruct R as (w4 & E4 & T4 & PL & SL & PG & SG).
      exists w4. split; [exact E4|].
      assert (Vm4 : val w4 m = p).
      { rewrite <- Vm2. apply (t_val _ _ _ _ _ _ T4); intro Q; apply in_app_or in Q; tauto. }
      split; [|split].
      * (* the instances of the segment are the same ones *)
        eapply trans_trans; [|eapply trans_trans].
        -- eapply trans_same_widen; [exact T1|]. intros i I. right. exact I.
        -- eapply trans_same_widen; [exact T2|]. intros i [<-|[<-|[]]]; [left; reflexivity | exact Im].
        -- eapply trans_same_widen; [exact T4|]. intros i I. rewrite SEG. apply in_app_or in I. apply in_or_app.
           destruct I; [left | right; right]; assumption.
      * (* a permutation of the old payloads *)
        transitivity (map (val w2) (lft :: rest)).
        { rewrite SEG, !map_app. cbn [map]. rewrite Vm4, Vm2.
          apply Permutation_app; [exact PL | constructor; exact PG]. }
        transitivity (map (val w1) (lft :: rest)).
        { destruct (lp_cases lft Ls) as [(E0 & Em & EL0)|(R & m' & E0 & Em & EL0)].
          - (* the pivot stays: exchanged with itself *)
            assert (Emm : m = lft) by (unfold m; exact Em).
            apply Permutation_refl'. apply (map_ext_on (val w2) (val w1) (lft :: rest)). intros i I.
            destruct (Nat.eq_dec i lft) as [->|NE]; [rewrite Vlft, Emm; reflexivity|].
            eapply swap_vals_other; [exact T2 | exact NE | rewrite Emm; exact NE].
          - assert (ELp : Lp = lft :: R) by (unfold Lp; exact EL0).
            rewrite SEG, ELp. cbn [app map]. rewrite !map_app. cbn [map]. rewrite Vlft, Vm.
            assert (Eo : forall l, (forall i, In i l -> i <> lft /\ i <> m) -> map (val w2) l = map (val w1) l).
            { intros l Hl. apply map_ext_on. intros i I. destruct (Hl i I). eapply swap_vals_other; eauto. }
            rewrite (Eo R), (Eo Gs).
            + apply perm_swap_mid.
            + intros i I. split; intro Q.
              * apply Nl. rewrite <- EL, <- Q. apply in_or_app. right. exact I.
              * apply (proj2 NmL). rewrite <- Q. exact I.
            + intros i I. split; intro Q.
              * apply Nl. rewrite <- EL, <- Q. apply in_or_app. left. rewrite E0. apply in_or_app. left. exact I.
              * apply (proj1 NmL). rewrite ELp, <- Q. right. exact I. }
        cbn [map]. rewrite Vl1. constructor. exact P1.
      * (* sorted: below the pivot, the pivot, not below the pivot *)
        rewrite SEG, map_app. cbn [map]. rewrite Vm4.
        apply ssorted_app. split; [exact SL|]. split.
        -- cbn [ssorted]. split; [|exact SG].
           intros b I. apply in_map_iff in I. destruct I as (i & <- & I).
           assert (Q : forall z, In z (map (val w4) Gs) -> p <= z).
           { apply (perm_forall _ _ _ PG). intros z J. apply in_map_iff in J. destruct J as (j & <- & J). apply VG2. exact J. }
           apply Q. apply in_map. exact I.
        -- intros a b Ia Ib.
           assert (QL : forall z, In z (map (val w4) Lp) -> z < p).
           { apply (perm_forall _ _ _ PL). intros z J. apply in_map_iff in J. destruct J as (j & <- & J). apply VL2. exact J. }
           assert (QG : forall z, In z (map (val w4) Gs) -> p <= z).
           { apply (perm_forall _ _ _ PG). intros z J. apply in_map_iff in J. destruct J as (j & <- & J). apply VG2. exact J. }
           specialize (QL a Ia). destruct Ib as [<-|Ib]; [lia|]. specialize (QG b Ib). lia.
Qed.

(* ---- List::sort() ---- *)
Lemma items_ids_list l : items_ids KList l = map nv l.
Proof. unfold items_ids. induction l as [|n r IH]; cbn [flat_map map]; [reflexivity|]. rewrite IH. reflexivity. Qed.

Lemma nabs_list w c : ckind c = KList -> nabs w c = map (fun z => (None, Some z)) (map (val w) (map nv (citems c))).
Proof. intros K. unfold nabs. rewrite K, !map_map. reflexivity. Qed.

Lemma nc_sort_ok c w : wfw w -> holds w (nids c) -> ckind c = KList ->
  exists w', nc_sort c w = Ok (c, w') /\ trans w w' (nids c) (nids c) (nblks c) (nblks c) /\
             nabs w' c = spec_sort (nabs w c).
Proof.
  intros W H K. unfold nc_sort.
  pose proof (holds_nids_items _ _ H) as Hi. rewrite K, items_ids_list in Hi.
  set (ids := map nv (citems c)) in *.
  assert (SP : forall w', Permutation (map (val w') ids) (map (val w) ids) -> ssorted (map (val w') ids) ->
                          nabs w' c = spec_sort (nabs w c)).
  { intros w' P S. unfold spec_sort. rewrite !(nabs_list _ c K). fold ids. f_equal.
    rewrite map_map. cbn [snd oz]. rewrite map_id. apply zsort_unique; assumption. }
  destruct (2 <=? length ids)%nat eqn:C.
  - destruct (qsort_ok (length ids) ids w (le_n _) W (holds_nodup _ _ W Hi)) as (w' & E & T & P & S).
    { intros i I. eapply holds_in; eauto. }
    run E. exists w'. split; [reflexivity|]. split.
    + eapply trans_same_widen; [exact T|]. intros i I. unfold nids. apply in_or_app. right.
      rewrite K, items_ids_list. exact I.
    + apply SP; assumption.
  - exists w. split; [reflexivity|]. split; [apply trans_refl; auto|].
    apply SP; [apply Permutation_refl|]. apply ssorted_short. rewrite map_length. apply Nat.leb_gt in C. lia.
Qed.
