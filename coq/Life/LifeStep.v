(* The program state: ownership invariant, and every operation refines the spec. *)
From Coq Require Import ZArith List Bool Arith Lia Permutation.
From Life Require Import LifeSpec LifeModel LifeBase LifeLoops LifeArray LifeNode LifeSpecProofs LifeHint LifeSort.
Import ListNotations.

Definition cids (c : cont) : list id := match c with CA a => aelems a | CN n => nids n end.
Definition cbks (c : cont) : list blk := match c with CA a => ablks a | CN n => nblks n end.
Definition vids (v : option cont) : list id := match v with Some c => cids c | None => [] end.
Definition vbks (v : option cont) : list blk := match v with Some c => cbks c | None => [] end.
Definition all_ids (vs : list (option cont)) : list id := flat_map vids vs.
Definition all_bks (vs : list (option cont)) : list blk := flat_map vbks vs.
Definition vwf (v : option cont) : Prop :=
  match v with Some (CA a) => awf a | Some (CN n) => is_array (ckind n) = false | None => True end.

(* every live instance / allocation belongs to exactly one container variable *)
Record Inv (st : state) : Prop := mkInv {
  inv_wf : wfw (sw st);
  inv_ids : meq (dom (heap (sw st))) (all_ids (svars st));
  inv_bks : meq (blks (sw st)) (all_bks (svars st));
  inv_vwf : Forall vwf (svars st)
}.

Lemma inv_init n : Inv (init n).
Proof.
  constructor; cbn [init sw svars].
  - apply wfw_w0.
  - cbn [w0 heap dom map]. unfold all_ids. induction n; cbn [repeat flat_map vids app]; auto. apply meq_refl.
  - cbn [w0 blks]. unfold all_bks. induction n; cbn [repeat flat_map vbks app]; auto. apply meq_refl.
  - apply Forall_forall. intros v I. apply repeat_spec in I. subst. exact Logic.I.
Qed.

(* ---- lists of variables ---- *)
Lemma cnt_flat_set_at (f : option cont -> list nat) l : forall x a b i, nth_error l x = Some a ->
  cnt (flat_map f (set_at x b l)) i + cnt (f a) i = cnt (f b) i + cnt (flat_map f l) i.
Proof.
  induction l as [|h t IH]; intros x a b i N.
  - destruct x; discriminate.
  - destruct x as [|x]; cbn [nth_error] in N; cbn [set_at flat_map]; rewrite !cnt_app.
    + inversion N. subst. clear N. lia.
    + specialize (IH _ _ b i N). clear N. lia.
Qed.
Lemma cnt_flat_one (f : option cont -> list nat) l x a i : nth_error l x = Some a -> cnt (f a) i <= cnt (flat_map f l) i.
Proof.
  revert x; induction l as [|h t IH]; intros x N.
  - destruct x; discriminate.
  - destruct x as [|x]; cbn [nth_error] in N; cbn [flat_map]; rewrite !cnt_app.
    + inversion N. subst. clear N. lia.
    + specialize (IH _ N). clear N. lia.
Qed.
Lemma cnt_flat_two (f : option cont -> list nat) l : forall x y a b i, x <> y ->
  nth_error l x = Some a -> nth_error l y = Some b -> cnt (f a) i + cnt (f b) i <= cnt (flat_map f l) i.
Proof.
  induction l as [|h t IH]; intros x y a b i NE Nx Ny.
  - destruct x; discriminate.
  - destruct x as [|x], y as [|y]; cbn [nth_error] in Nx, Ny; cbn [flat_map]; rewrite !cnt_app; try congruence.
    + inversion Nx. subst. pose proof (cnt_flat_one f t y b i Ny). clear Nx Ny. lia.
    + inversion Ny. subst. pose proof (cnt_flat_one f t x a i Nx). clear Nx Ny. lia.
    + assert (H : x <> y) by congruence. specialize (IH x y a b i H Nx Ny). clear Nx Ny. lia.
Qed.

Lemma map_set_at {A B} (f : A -> B) l x v : map f (set_at x v l) = set_at x (f v) (map f l).
Proof. revert x; induction l as [|h t IH]; intros [|x]; cbn [set_at map]; auto. f_equal. apply IH. Qed.
Lemma set_at_map_ext {A B} (f f' : A -> B) l : forall x Y,
  (forall y a, y <> x -> nth_error l y = Some a -> f' a = f a) -> set_at x Y (map f' l) = set_at x Y (map f l).
Proof.
  induction l as [|h t IH]; intros [|x] Y H; cbn [map set_at]; auto.
  - f_equal. apply map_ext_in. intros a I. destruct (In_nth_error _ _ I) as (y & N).
    apply (H (S y) a); [lia | exact N].
  - f_equal; [apply (H 0%nat h); [lia | reflexivity]|].
    apply IH. intros y a NE N. apply (H (S y) a); [lia | exact N].
Qed.
Lemma Forall_set_at' {A} (P : A -> Prop) l i x : Forall P l -> P x -> Forall P (set_at i x l).
Proof. intros H Px. revert i; induction H as [|h t Ph Ht IH]; intros [|i]; cbn [set_at]; auto. Qed.
Lemma nth_error_set_at_same {A} (l : list A) x v : (x < length l)%nat -> nth_error (set_at x v l) x = Some v.
Proof. revert x; induction l as [|h t IH]; intros [|x] L; cbn [length] in L; cbn [set_at nth_error]; try lia; auto. apply IH. lia. Qed.
Lemma nth_error_set_at_other {A} (l : list A) x y v : x <> y -> nth_error (set_at x v l) y = nth_error l y.
Proof. revert x y; induction l as [|h t IH]; intros [|x] [|y] NE; cbn [set_at nth_error]; try congruence; auto. Qed.
Lemma set_at_length {A} (l : list A) x v : length (set_at x v l) = length l.
Proof. revert x; induction l as [|h t IH]; intros [|x]; cbn [set_at length]; auto. Qed.

Lemma getv_nth vs x c : getv vs x = Some c -> nth_error vs x = Some (Some c).
Proof. unfold getv. destruct (nth_error vs x) as [[c'|]|]; congruence. Qed.
Lemma isdead_nth vs x : isdead vs x = true -> nth_error vs x = Some None.
Proof. unfold isdead. destruct (nth_error vs x) as [[c'|]|]; congruence. Qed.

(* ---- abstraction ---- *)
Lemma abs_cont_ext w w' c : (forall i, In i (cids c) -> val w' i = val w i) -> abs_cont w' c = abs_cont w c.
Proof.
  intros H. destruct c as [a|n]; cbn [abs_cont cids] in *.
  - f_equal. apply map_ext_in. intros i I. rewrite H; auto.
  - f_equal. apply map_ext_in. intros m I. apply abs_node_keep. intros i J. apply H.
    unfold nids. apply in_or_app. right. eapply items_ids_in; eauto.
Qed.

Lemma sget_abs st x : sget (abs st) x = option_map (abs_cont (sw st)) (getv (svars st) x).
Proof.
  unfold sget, abs, getv. rewrite nth_error_map. destruct (nth_error (svars st) x) as [[c|]|]; reflexivity.
Qed.
Lemma sdead_abs st x : sdead (abs st) x = isdead (svars st) x.
Proof.
  unfold sdead, abs, isdead. rewrite nth_error_map. destruct (nth_error (svars st) x) as [[c|]|]; reflexivity.
Qed.

(* ---- replacing one variable ---- *)
Lemma inv_holds st x v : Inv st -> nth_error (svars st) x = Some v ->
  holds (sw st) (vids v) /\ holdsb (sw st) (vbks v).
Proof.
  intros [W I B _] N. split; intro i.
  - rewrite (I i). apply (cnt_flat_one vids _ _ _ i N).
  - rewrite (B i). apply (cnt_flat_one vbks _ _ _ i N).
Qed.
Lemma inv_holds2 st x y vx vy : Inv st -> x <> y -> nth_error (svars st) x = Some vx -> nth_error (svars st) y = Some vy ->
  holds (sw st) (vids vx ++ vids vy).
Proof.
  intros [W I B _] NE Nx Ny i. rewrite (I i). autorewrite with cntdb.
  apply (cnt_flat_two vids _ _ _ _ _ i NE Nx Ny).
Qed.

Lemma inv_upd st x v v' w' : Inv st -> nth_error (svars st) x = Some v ->
  trans (sw st) w' (vids v) (vids v') (vbks v) (vbks v') -> vwf v' ->
  Inv (mkS w' (set_at x v' (svars st))) /\
  abs (mkS w' (set_at x v' (svars st))) = set_at x (option_map (abs_cont w') v') (abs st).
Proof.
  intros IV N T WF. pose proof IV as [W I B VW]. split.
  - constructor; cbn [sw svars].
    + exact (t_wf _ _ _ _ _ _ T).
    + intro i. pose proof (t_ids _ _ _ _ _ _ T i) as Q. pose proof (cnt_flat_set_at vids _ _ _ v' i N) as R.
      specialize (I i). unfold all_ids. autorewrite with cntdb in Q. unfold all_ids in I. lia.
    + intro i. pose proof (t_blk _ _ _ _ _ _ T i) as Q. pose proof (cnt_flat_set_at vbks _ _ _ v' i N) as R.
      specialize (B i). unfold all_bks. autorewrite with cntdb in Q. unfold all_bks in B. lia.
    + apply Forall_set_at'; auto.
  - unfold abs. cbn [sw svars]. rewrite map_set_at. apply set_at_map_ext.
    intros y a NE Ny. destruct a as [c|]; cbn [option_map]; auto. f_equal.
    apply abs_cont_ext. intros i J.
    assert (H2 : holds (sw st) (vids (Some c) ++ vids v)) by (eapply inv_holds2; eauto).
    eapply trans_val; [exact T | eapply holds_in; [exact H2|]; apply in_or_app; left; exact J |].
    intro K. pose proof (holds_nodup _ _ W H2) as ND. eapply nodup_app_disj; [exact ND | exact J | exact K].
Qed.

(* ---- arguments ---- *)
Lemma in_all_ids st y c i : Inv st -> getv (svars st) y = Some c -> In i (cids c) -> In i (dom (heap (sw st))).
Proof.
  intros IV G I. destruct (inv_holds st y (Some c) IV (getv_nth _ _ _ G)) as [H _].
  eapply holds_in; eauto.
Qed.

Lemma marg_key_spec st a : Inv st ->
  match marg_key (svars st) a with
  | Some r => sarg_key (abs st) a = Some (rval (sw st) r) /\ rlive (sw st) r
  | None => sarg_key (abs st) a = None
  end.
Proof.
  intros IV. destruct a as [z|y i|y i]; cbn [marg_key sarg_key]; auto.
  - cbn. auto.
  - rewrite sget_abs. destruct (getv (svars st) y) as [[a|c]|] eqn:G; cbn [option_map abs_cont]; auto.
    + rewrite nth_error_map. destruct (nth_error (aelems a) i); reflexivity.
    + rewrite nth_error_map. destruct (has_key (ckind c)) eqn:HK.
      * destruct (nth_error (citems c) i) as [n|] eqn:N; cbn [option_map]; auto.
        unfold abs_node. rewrite HK. cbn [rval rlive]. split; auto.
        eapply in_all_ids; eauto. cbn [cids]. unfold nids. apply in_or_app. right.
        eapply items_ids_in; [eapply nth_error_In; eauto | apply node_ids_key; auto].
      * destruct (nth_error (citems c) i) as [n|]; cbn [option_map]; auto.
        unfold abs_node. rewrite HK. reflexivity.
Qed.

Lemma marg_val_spec st a : Inv st ->
  match marg_val (svars st) a with
  | Some r => sarg_val (abs st) a = Some (rval (sw st) r) /\ rlive (sw st) r
  | None => sarg_val (abs st) a = None
  end.
Proof.
  intros IV. destruct a as [z|y i|y i]; cbn [marg_val sarg_val]; auto.
  - cbn. auto.
  - rewrite sget_abs. destruct (getv (svars st) y) as [[a|c]|] eqn:G; cbn [option_map abs_cont]; auto.
    + rewrite nth_error_map. destruct (nth_error (aelems a) i) as [j|] eqn:N; cbn [option_map]; auto.
      cbn [rval rlive]. split; auto. eapply in_all_ids; eauto. cbn [cids]. eapply nth_error_In; eauto.
    + rewrite nth_error_map. destruct (has_val (ckind c)) eqn:HV.
      * destruct (nth_error (citems c) i) as [n|] eqn:N; cbn [option_map]; auto.
        unfold abs_node. rewrite HV. cbn [rval rlive]. split; auto.
        eapply in_all_ids; eauto. cbn [cids]. unfold nids. apply in_or_app. right.
        eapply items_ids_in; [eapply nth_error_In; eauto | apply node_ids_val; auto].
      * destruct (nth_error (citems c) i) as [n|]; cbn [option_map]; auto.
        unfold abs_node. rewrite HV. reflexivity.
Qed.

(* ---- the caller's temporary ---- *)
Definition same_on (w w1 : world) : Prop :=
  forall j, In j (dom (heap w)) -> val w1 j = val w j /\ In j (dom (heap w1)).

Lemma same_on_refl w : same_on w w.
Proof. intros j I. auto. Qed.
Lemma same_on_trans w w1 w2 : same_on w w1 -> same_on w1 w2 -> same_on w w2.
Proof. intros H1 H2 j I. destruct (H1 j I) as [V1 I1]. destruct (H2 j I1) as [V2 I2]. split; congruence. Qed.

Lemma with_arg_ok {C} r (body : id -> M C) (ids : C -> list id) (bks : C -> list blk) w X B
      (Post : world -> id -> C -> world -> Prop) :
  wfw w -> holds w X -> holdsb w B -> rlive w r ->
  (forall w1 i c w2 w3, Post w1 i c w2 -> (forall j, In j (ids c) -> val w3 j = val w2 j) -> Post w1 i c w3) ->
  (forall w1 i, wfw w1 -> holds w1 X -> holdsb w1 B -> In i (dom (heap w1)) -> val w1 i = rval w r -> same_on w w1 ->
       exists c w2, body i w1 = Ok (c, w2) /\ trans w1 w2 X (ids c) B (bks c) /\ Post w1 i c w2) ->
  exists c w3, with_arg r body w = Ok (c, w3) /\ trans w w3 X (ids c) B (bks c) /\
     exists w1 i, same_on w w1 /\ val w1 i = rval w r /\ Post w1 i c w3.
Proof.
  intros W H Hb L ST BD. destruct r as [z|i|i]; cbn [with_arg rlive rval] in *.
  - destruct (mk_val_ok w z W) as (E1 & T1 & V1). run E1.
    set (t := nxt w) in *. set (w1 := w_mk w z (EVal t z)) in *.
    assert (S1 : same_on w w1).
    { intros j I. eapply trans_keep; [exact T1 | exact I | tauto]. }
    assert (H1 : holds w1 X) by (apply (holds_keep _ _ _ _ _ _ X T1 H)).
    assert (Hb1 : holdsb w1 B) by (eapply holdsb_frame0; eauto).
    destruct (BD w1 t ltac:(twf T1) H1 Hb1 (mk_live w z _) V1 S1) as (c & w2 & E2 & T2 & P2). run E2.
    assert (Nt : ~ In t X).
    { intro J. apply (holds_lt _ _ _ W H) in J. subst t. lia. }
    assert (It2 : In t (dom (heap w2))) by (eapply trans_live; [exact T2 | apply mk_live | exact Nt]).
    destruct (destroy_ok w2 t ltac:(twf T2) It2) as [E3 T3]. run E3.
    exists c, (w_destroy w2 t). split; [reflexivity|].
    assert (T12 : trans w w2 X (t :: ids c) B (bks c)).
    { eapply (trans_seq X [t] B [] _ _ _ _ _ _ _ _ _ _ _ _ _ _ _ T1 T2); msolve. }
    split.
    + eapply (trans_seq [] (ids c) [] (bks c) _ _ _ _ _ _ _ _ _ _ _ _ _ _ _ T12 T3); msolve.
    + exists w1, t. split; [exact S1|]. split; [exact V1|].
      eapply ST; [exact P2|]. intros j J.
      eapply trans_val; [exact T3 | eapply in_new; [exact T12 | exact H | right; exact J] |].
      intros [Q|[]]. subst j.
      pose proof (holds_nodup _ _ ltac:(twf T2) (trans_holds _ _ _ _ _ _ T12 H)) as ND. inversion ND. tauto.
  - destruct (BD w i W H Hb L eq_refl (same_on_refl w)) as (c & w2 & E2 & T2 & P2).
    exists c, w2. split; [exact E2|]. split; [exact T2|].
    exists w, i. split; [apply same_on_refl|]. split; auto.
  - destruct (mk_copy_ok w i W L) as (E1 & T1 & V1). run E1.
    set (t := nxt w) in *. set (w1 := w_mk w (val w i) (ECopy t i)) in *.
    assert (S1 : same_on w w1).
    { intros j I. eapply trans_keep; [exact T1 | exact I | tauto]. }
    assert (H1 : holds w1 X) by (apply (holds_keep _ _ _ _ _ _ X T1 H)).
    assert (Hb1 : holdsb w1 B) by (eapply holdsb_frame0; eauto).
    destruct (BD w1 t ltac:(twf T1) H1 Hb1 (mk_live w (val w i) _) V1 S1) as (c & w2 & E2 & T2 & P2). run E2.
    assert (Nt : ~ In t X).
    { intro J. apply (holds_lt _ _ _ W H) in J. subst t. lia. }
    assert (It2 : In t (dom (heap w2))) by (eapply trans_live; [exact T2 | apply mk_live | exact Nt]).
    destruct (destroy_ok w2 t ltac:(twf T2) It2) as [E3 T3]. run E3.
    exists c, (w_destroy w2 t). split; [reflexivity|].
    assert (T12 : trans w w2 X (t :: ids c) B (bks c)).
    { eapply (trans_seq X [t] B [] _ _ _ _ _ _ _ _ _ _ _ _ _ _ _ T1 T2); msolve. }
    split.
    + eapply (trans_seq [] (ids c) [] (bks c) _ _ _ _ _ _ _ _ _ _ _ _ _ _ _ T12 T3); msolve.
    + exists w1, t. split; [exact S1|]. split; [exact V1|].
      eapply ST; [exact P2|]. intros j J.
      eapply trans_val; [exact T3 | eapply in_new; [exact T12 | exact H | right; exact J] |].
      intros [Q|[]]. subst j.
      pose proof (holds_nodup _ _ ltac:(twf T2) (trans_holds _ _ _ _ _ _ T12 H)) as ND. inversion ND. tauto.
Qed.

(* ---------------------------------------------------------------------------------------- *)
(* every operation refines the spec and keeps the invariant                                   *)
(* ---------------------------------------------------------------------------------------- *)
Definition step_good (st : state) (o : op) : Prop :=
  exists b st', step st o = Ok (b, st') /\ Inv st' /\ spec_step (abs st) o = (b, abs st').

Lemma skip_good st o : Inv st -> step st o = skip st -> spec_step (abs st) o = (false, abs st) -> step_good st o.
Proof. intros IV E S. exists false, st. rewrite E. auto. Qed.

Lemma lift_ok {A B} (f : A -> B) (m : M A) w a w' : m w = Ok (a, w') -> lift f m w = Ok (f a, w').
Proof. intros E. unfold lift. run E. reflexivity. Qed.

Lemma put_ok st x v c' w' (m : M cont) : Inv st -> nth_error (svars st) x = Some v ->
  m (sw st) = Ok (c', w') -> trans (sw st) w' (vids v) (cids c') (vbks v) (cbks c') -> vwf (Some c') ->
  exists st', put st x m = Ok (true, st') /\ Inv st' /\ abs st' = sset (abs st) x (Some (abs_cont w' c')).
Proof.
  intros IV N E T WF. unfold put. rewrite E.
  destruct (inv_upd st x v (Some c') w' IV N T WF) as [IV' A'].
  eexists. split; [reflexivity|]. split; [exact IV' | exact A'].
Qed.

Lemma inv_vwf_get st x c : Inv st -> getv (svars st) x = Some c -> vwf (Some c).
Proof.
  intros IV G. pose proof (inv_vwf _ IV) as F. rewrite Forall_forall in F. apply F.
  eapply nth_error_In. apply getv_nth. eauto.
Qed.

Definition aabs (w : world) (a : arr) : acont := map (fun i => (None, Some (val w i))) (aelems a).
Lemma aabs_avals w a : aabs w a = map (fun z => (None, Some z)) (avals w a).
Proof. unfold aabs, avals. rewrite map_map. reflexivity. Qed.

Lemma nabs_shaped w c : shaped (ckind c) (nabs w c).
Proof.
  unfold shaped, nabs. apply Forall_forall. intros a I. apply in_map_iff in I. destruct I as (n & <- & _).
  unfold shaped1, abs_node, mk_anode. destruct (has_key (ckind c)), (has_val (ckind c)); reflexivity.
Qed.

Lemma swf_get st x c : swf (abs st) -> getv (svars st) x = Some c ->
  keys_ok (fst (abs_cont (sw st) c)) (snd (abs_cont (sw st) c)).
Proof.
  intros SW G. unfold swf in SW. rewrite Forall_forall in SW.
  assert (I : In (Some (abs_cont (sw st) c)) (abs st)).
  { unfold abs. apply in_map_iff. exists (Some c). split; [reflexivity|]. eapply nth_error_In. apply getv_nth. eauto. }
  specialize (SW _ I). cbn in SW. destruct (abs_cont (sw st) c). exact SW.
Qed.

Lemma is_array_eq k : is_array k = true -> k = KArray.
Proof. destruct k; cbn; congruence. Qed.

(* ---- ONew ---- *)
Lemma step_new st x k : Inv st -> step_good st (ONew x k).
Proof.
  intros IV. unfold step_good. cbn [step spec_step]. rewrite sdead_abs.
  destruct (isdead (svars st) x) eqn:D; [|exists false, st; auto].
  pose proof (isdead_nth _ _ D) as N. pose proof (inv_wf _ IV) as W.
  destruct (is_array k) eqn:A.
  - apply is_array_eq in A. subst k.
    destruct (put_ok st x None (CA arr_new) (sw st) (ret (CA arr_new)) IV N eq_refl) as (st' & E & IV' & A').
    { cbn [vids vbks cids cbks aelems arr_new ablks astore]. apply trans_refl. auto. }
    { cbn [vwf]. apply awf_new. }
    exists true, st'. split; [exact E|]. split; [exact IV'|]. rewrite A'. reflexivity.
  - destruct (nc_new_ok k (sw st) W) as (c & w' & E0 & T0 & K0 & I0 & B0).
    destruct (put_ok st x None (CN c) w' (lift CN (nc_new k)) IV N (lift_ok CN _ _ _ _ E0)) as (st' & E & IV' & A').
    { cbn [vids vbks cids cbks]. exact T0. }
    { cbn [vwf]. rewrite K0. exact A. }
    exists true, st'. split; [exact E|]. split; [exact IV'|].
    rewrite A'. cbn [abs_cont]. unfold nabs. rewrite K0, I0. reflexivity.
Qed.

Lemma inv_get st x c : Inv st -> getv (svars st) x = Some c ->
  holds (sw st) (cids c) /\ holdsb (sw st) (cbks c) /\ vwf (Some c).
Proof.
  intros IV G. destruct (inv_holds st x (Some c) IV (getv_nth _ _ _ G)) as [H Hb].
  split; [exact H|]. split; [exact Hb|]. eapply inv_vwf_get; eauto.
Qed.

(* ---- ODel ---- *)
Lemma step_del st x : Inv st -> step_good st (ODel x).
Proof.
  intros IV. unfold step_good. cbn [step spec_step]. rewrite sget_abs.
  destruct (getv (svars st) x) as [c|] eqn:G; cbn [option_map]; [|exists false, st; auto].
  destruct (inv_get st x c IV G) as (H & Hb & WF). pose proof (inv_wf _ IV) as W.
  assert (D : exists w', (match c with CA a => arr_dtor a | CN n => nc_dtor n end) (sw st) = Ok (tt, w') /\
                         trans (sw st) w' (cids c) [] (cbks c) []).
  { destruct c as [a|n]; cbn [cids cbks] in *.
    - apply arr_dtor_ok; auto.
    - apply nc_dtor_ok; auto. }
  destruct D as (w' & E & T). rewrite E.
  destruct (inv_upd st x (Some c) None w' IV (getv_nth _ _ _ G) T Logic.I) as [IV' A'].
  eexists _, _. split; [reflexivity|]. split; [exact IV'|]. rewrite A'. reflexivity.
Qed.

(* ---- OClear ---- *)
Lemma step_clear st x : Inv st -> step_good st (OClear x).
Proof.
  intros IV. unfold step_good. cbn [step spec_step]. rewrite sget_abs.
  destruct (getv (svars st) x) as [c|] eqn:G; cbn [option_map]; [|exists false, st; auto].
  destruct (inv_get st x c IV G) as (H & Hb & WF). pose proof (inv_wf _ IV) as W.
  destruct c as [a|n]; cbn [cids cbks vwf abs_cont] in *.
  - destruct (arr_clear_ok a (sw st) W H WF) as (a' & w' & E & T & L & WF').
    destruct (put_ok st x (Some (CA a)) (CA a') w' _ IV (getv_nth _ _ _ G) (lift_ok CA _ _ _ _ E) T WF') as (st' & E' & IV' & A').
    exists true, st'. split; [exact E'|]. split; [exact IV'|]. rewrite A'. cbn [abs_cont]. rewrite L. reflexivity.
  - destruct (nc_clear_ok n (sw st) W H) as (c' & w' & E & T & K & L).
    destruct (put_ok st x (Some (CN n)) (CN c') w' _ IV (getv_nth _ _ _ G) (lift_ok CN _ _ _ _ E) T) as (st' & E' & IV' & A').
    { cbn [vwf]. rewrite K. exact WF. }
    exists true, st'. split; [exact E'|]. split; [exact IV'|]. rewrite A'. cbn [abs_cont]. rewrite K, L. reflexivity.
Qed.

(* ---- ORemAt ---- *)
Lemma step_remat st x i : Inv st -> step_good st (ORemAt x i).
Proof.
  intros IV. unfold step_good. cbn [step spec_step]. unfold rem_at. rewrite sget_abs.
  destruct (getv (svars st) x) as [c|] eqn:G; cbn [option_map]; [|exists false, st; auto].
  destruct (inv_get st x c IV G) as (H & Hb & WF). pose proof (inv_wf _ IV) as W.
  destruct c as [a|n]; cbn [cids cbks vwf abs_cont] in *; rewrite map_length.
  - destruct (i <? length (aelems a)) eqn:L; [|exists false, st; auto]. apply Nat.ltb_lt in L.
    destruct (arr_remove_ok a i (sw st) W H Hb WF L) as (a' & w' & E & T & V & WF').
    destruct (put_ok st x (Some (CA a)) (CA a') w' _ IV (getv_nth _ _ _ G) (lift_ok CA _ _ _ _ E) T WF') as (st' & E' & IV' & A').
    exists true, st'. split; [exact E'|]. split; [exact IV'|]. rewrite A'. cbn [abs_cont].
    fold (aabs w' a') (aabs (sw st) a). rewrite !aabs_avals, V, map_remove_at. reflexivity.
  - destruct (i <? length (citems n)) eqn:L; [|exists false, st; auto]. apply Nat.ltb_lt in L.
    destruct (nc_remove_at_ok n i (sw st) W H L) as (c' & w' & E & T & K & A & _).
    destruct (put_ok st x (Some (CN n)) (CN c') w' _ IV (getv_nth _ _ _ G) (lift_ok CN _ _ _ _ E) T) as (st' & E' & IV' & A').
    { cbn [vwf]. rewrite K. exact WF. }
    exists true, st'. split; [exact E'|]. split; [exact IV'|]. rewrite A'. cbn [abs_cont].
    fold (nabs w' c') (nabs (sw st) n). rewrite K, A. reflexivity.
Qed.

(* ---- OReserve ---- *)
Lemma step_reserve st x n : Inv st -> step_good st (OReserve x n).
Proof.
  intros IV. unfold step_good. cbn [step spec_step]. rewrite sget_abs.
  destruct (getv (svars st) x) as [[a|c]|] eqn:G; cbn [option_map abs_cont]; try (exists false, st; auto; fail).
  - destruct (inv_get st x _ IV G) as (H & Hb & WF). pose proof (inv_wf _ IV) as W. cbn [cids cbks vwf] in *.
    destruct (arr_reserve_ok a n (sw st) W H Hb WF) as (a' & w' & E & T & V & WF' & _).
    destruct (put_ok st x (Some (CA a)) (CA a') w' _ IV (getv_nth _ _ _ G) (lift_ok CA _ _ _ _ E) T WF') as (st' & E' & IV' & A').
    exists true, st'. split; [exact E'|]. split; [exact IV'|]. rewrite A'. cbn [abs_cont].
    fold (aabs w' a'). rewrite aabs_avals, V, <- aabs_avals. unfold aabs.
    unfold sset. symmetry. f_equal. apply set_at_same. unfold abs. rewrite nth_error_map, (getv_nth _ _ _ G). reflexivity.
  - destruct (inv_get st x _ IV G) as (_ & _ & WF). cbn [vwf] in WF.
    destruct (ckind c); try (exists false, st; auto; fail). discriminate.
Qed.

Lemma sset_same (s : sstate) x v : nth_error s x = Some v -> sset s x v = s.
Proof. apply set_at_same. Qed.
Lemma abs_nth st x c : getv (svars st) x = Some c -> nth_error (abs st) x = Some (Some (abs_cont (sw st) c)).
Proof. intros G. unfold abs. rewrite nth_error_map, (getv_nth _ _ _ G). reflexivity. Qed.

Lemma dead_live_ne vs x y c : isdead vs x = true -> getv vs y = Some c -> x <> y.
Proof. intros D G E. subst. apply isdead_nth in D. apply getv_nth in G. congruence. Qed.

(* ---- OCopyNew ---- *)
Lemma step_copy st x y : Inv st -> swf (abs st) -> step_good st (OCopyNew x y).
Proof.
  intros IV SW. unfold step_good. cbn [step spec_step]. rewrite sget_abs.
  destruct (getv (svars st) y) as [c|] eqn:G; cbn [option_map]; [|exists false, st; auto].
  rewrite sdead_abs.
  assert (KE : fst (abs_cont (sw st) c) = kind_of c) by (destruct c; reflexivity).
  destruct (abs_cont (sw st) c) as [k l] eqn:AC. cbn [fst] in KE. subst k.
  destruct (isdead (svars st) x && copyable (kind_of c)) eqn:C; [|exists false, st; auto].
  apply andb_true_iff in C. destruct C as [D CP].
  destruct (inv_get st y c IV G) as (H & Hb & WF). pose proof (inv_wf _ IV) as W.
  pose proof (isdead_nth _ _ D) as N.
  destruct c as [a|n]; cbn [cids cbks vwf abs_cont kind_of] in *.
  - destruct (arr_copy_new_ok a (sw st) W H WF) as (a' & w' & E & T & V & WF').
    destruct (put_ok st x None (CA a') w' _ IV N (lift_ok CA _ _ _ _ E) T WF') as (st' & E' & IV' & A').
    exists true, st'. split; [exact E'|]. split; [exact IV'|]. rewrite A'. cbn [abs_cont].
    inversion AC. fold (aabs w' a') (aabs (sw st) a). rewrite !aabs_avals, V. reflexivity.
  - destruct (nc_copy_new_ok n (sw st) W H) as (c' & w' & E & T & K & A).
    destruct (put_ok st x None (CN c') w' _ IV N (lift_ok CN _ _ _ _ E) T) as (st' & E' & IV' & A').
    { cbn [vwf]. rewrite K. exact WF. }
    exists true, st'. split; [exact E'|]. split; [exact IV'|]. rewrite A'. cbn [abs_cont].
    assert (El : l = nabs (sw st) n) by (inversion AC; reflexivity). subst l.
    pose proof (swf_get st y (CN n) SW G) as KO. cbn [abs_cont fst snd] in KO.
    fold (nabs w' c'). rewrite K, A. rewrite reinsert_id; [reflexivity | apply nabs_shaped | exact KO].
Qed.

(* ---- OAssign ---- *)
Lemma step_assign st x y : Inv st -> swf (abs st) -> step_good st (OAssign x y).
Proof.
  intros IV SW. unfold step_good. cbn [step spec_step]. rewrite !sget_abs.
  destruct (getv (svars st) x) as [cx|] eqn:Gx; cbn [option_map]; [|exists false, st; auto].
  destruct (getv (svars st) y) as [cy|] eqn:Gy; cbn [option_map]; [|destruct (abs_cont (sw st) cx); exists false, st; auto].
  assert (KEx : fst (abs_cont (sw st) cx) = kind_of cx) by (destruct cx; reflexivity).
  assert (KEy : fst (abs_cont (sw st) cy) = kind_of cy) by (destruct cy; reflexivity).
  destruct (abs_cont (sw st) cx) as [k l] eqn:ACx. destruct (abs_cont (sw st) cy) as [k' l'] eqn:ACy.
  cbn [fst] in KEx, KEy. subst k k'.
  destruct (kind_eqb (kind_of cx) (kind_of cy) && copyable (kind_of cx)) eqn:C; [|exists false, st; auto].
  apply andb_true_iff in C. destruct C as [KE CP]. apply kind_eqb_eq in KE.
  destruct (Nat.eqb_spec x y) as [->|NE].
  - exists true, st. split; [reflexivity|]. split; [exact IV|].
    rewrite Gx in Gy. inversion Gy. subst cy. rewrite ACx in ACy. inversion ACy. subst l'.
    rewrite sset_same; auto. rewrite (abs_nth st y cx Gx), ACx. reflexivity.
  - destruct (inv_get st x cx IV Gx) as (Hx & Hbx & WFx). destruct (inv_get st y cy IV Gy) as (Hy & Hby & WFy).
    pose proof (inv_wf _ IV) as W.
    pose proof (inv_holds2 st x y _ _ IV NE (getv_nth _ _ _ Gx) (getv_nth _ _ _ Gy)) as H2. cbn [vids] in H2.
    destruct cx as [a|n], cy as [b|m]; cbn [cids cbks vwf abs_cont kind_of] in *.
    + destruct (arr_assign_ok a b (sw st) W H2 Hbx WFx WFy) as (a' & w' & E & T & V & WF').
      destruct (put_ok st x (Some (CA a)) (CA a') w' _ IV (getv_nth _ _ _ Gx) (lift_ok CA _ _ _ _ E) T WF') as (st' & E' & IV' & A').
      exists true, st'. split; [exact E'|]. split; [exact IV'|]. rewrite A'. cbn [abs_cont].
      inversion ACy. fold (aabs w' a') (aabs (sw st) b). rewrite !aabs_avals, V. reflexivity.
    + exfalso. rewrite <- KE in WFy. discriminate.
    + exfalso. rewrite KE in WFx. discriminate.
    + destruct (nc_assign_ok n m (sw st) W H2 Hbx (eq_sym KE)) as (c' & w' & E & T & K & A).
      destruct (put_ok st x (Some (CN n)) (CN c') w' _ IV (getv_nth _ _ _ Gx) (lift_ok CN _ _ _ _ E) T) as (st' & E' & IV' & A').
      { cbn [vwf]. rewrite K. exact WFx. }
      exists true, st'. split; [exact E'|]. split; [exact IV'|]. rewrite A'. cbn [abs_cont].
      assert (El : l' = nabs (sw st) m) by (inversion ACy; reflexivity). subst l'.
      pose proof (swf_get st y (CN m) SW Gy) as KO. cbn [abs_cont fst snd] in KO.
      fold (nabs w' c'). rewrite K, A, KE. rewrite reinsert_id; [reflexivity | apply nabs_shaped | exact KO].
Qed.

(* ---- OSwap ---- *)
Lemma inv_swap st x y vx vy vx' vy' : Inv st -> x <> y ->
  nth_error (svars st) x = Some vx -> nth_error (svars st) y = Some vy ->
  meq (vids vx' ++ vids vy') (vids vx ++ vids vy) -> meq (vbks vx' ++ vbks vy') (vbks vx ++ vbks vy) ->
  vwf vx' -> vwf vy' ->
  Inv (mkS (sw st) (set_at y vy' (set_at x vx' (svars st)))).
Proof.
  intros [W I B VW] NE Nx Ny Ei Eb Wx Wy.
  assert (Ny' : nth_error (set_at x vx' (svars st)) y = Some vy) by (rewrite nth_error_set_at_other; auto).
  constructor; cbn [sw svars]; auto.
  - intro i. specialize (I i). specialize (Ei i). rewrite !cnt_app in Ei.
    pose proof (cnt_flat_set_at vids _ _ _ vx' i Nx) as R1. pose proof (cnt_flat_set_at vids _ _ _ vy' i Ny') as R2.
    unfold all_ids in *. lia.
  - intro i. specialize (B i). specialize (Eb i). rewrite !cnt_app in Eb.
    pose proof (cnt_flat_set_at vbks _ _ _ vx' i Nx) as R1. pose proof (cnt_flat_set_at vbks _ _ _ vy' i Ny') as R2.
    unfold all_bks in *. lia.
  - apply Forall_set_at'; auto. apply Forall_set_at'; auto.
Qed.

Lemma step_swap st x y : Inv st -> step_good st (OSwap x y).
Proof.
  intros IV. unfold step_good. cbn [step spec_step]. rewrite !sget_abs.
  destruct (getv (svars st) x) as [cx|] eqn:Gx; cbn [option_map]; [|exists false, st; auto].
  destruct (getv (svars st) y) as [cy|] eqn:Gy; cbn [option_map]; [|destruct (abs_cont (sw st) cx); exists false, st; auto].
  assert (KEx : fst (abs_cont (sw st) cx) = kind_of cx) by (destruct cx; reflexivity).
  assert (KEy : fst (abs_cont (sw st) cy) = kind_of cy) by (destruct cy; reflexivity).
  destruct (abs_cont (sw st) cx) as [k l] eqn:ACx. destruct (abs_cont (sw st) cy) as [k' l'] eqn:ACy.
  cbn [fst] in KEx, KEy. subst k k'.
  destruct (kind_eqb (kind_of cx) (kind_of cy) && can_swap (kind_of cx)) eqn:C; [|exists false, st; auto].
  apply andb_true_iff in C. destruct C as [KE CP]. apply kind_eqb_eq in KE.
  destruct (Nat.eqb_spec x y) as [->|NE].
  - exists true, st. split; [reflexivity|]. split; [exact IV|].
    rewrite Gx in Gy. inversion Gy. subst cy. rewrite ACx in ACy. inversion ACy. subst l'.
    rewrite (sset_same (abs st) y); [rewrite (sset_same (abs st) y); auto|]; rewrite (abs_nth st y cx Gx), ACx; reflexivity.
  - destruct (inv_get st x cx IV Gx) as (Hx & Hbx & WFx). destruct (inv_get st y cy IV Gy) as (Hy & Hby & WFy).
    destruct cx as [a|n], cy as [b|m]; cbn [cids cbks vwf abs_cont kind_of] in *.
    + exists true. eexists. split; [reflexivity|]. split.
      * eapply inv_swap; [exact IV | exact NE | apply getv_nth; exact Gx | apply getv_nth; exact Gy | | | exact WFy | exact WFx];
          cbn [vids vbks cids cbks]; msolve.
      * unfold abs. cbn [sw svars]. rewrite !map_set_at. cbn [option_map abs_cont]. unfold sset.
        inversion ACx. inversion ACy. reflexivity.
    + exfalso. rewrite <- KE in WFy. discriminate.
    + exfalso. rewrite KE in WFx. discriminate.
    + unfold nc_swap. exists true. eexists. split; [reflexivity|]. split.
      * eapply inv_swap; [exact IV | exact NE | apply getv_nth; exact Gx | apply getv_nth; exact Gy | | | |];
          cbn [vids vbks cids cbks vwf ckind]; auto; unfold nids, nblks, tblk; cbn [csent citems ckind cblks ctable];
          rewrite ?KE; msolve.
      * unfold abs. cbn [sw svars]. rewrite !map_set_at. cbn [option_map abs_cont ckind citems]. unfold sset.
        inversion ACx. inversion ACy. rewrite KE. reflexivity.
Qed.

(* ---- operations with argument temporaries ---- *)
Lemma same_on_vals w w1 l : same_on w w1 -> (forall i, In i l -> In i (dom (heap w))) ->
  map (val w1) l = map (val w) l.
Proof. intros S H. apply map_ext_in. intros i I. apply S. apply H. exact I. Qed.

Lemma nabs_same_on w w1 n : same_on w w1 -> holds w (nids n) -> nabs w1 n = nabs w n.
Proof.
  intros S H. unfold nabs. apply map_ext_in. intros m I. apply abs_node_keep. intros i J.
  apply S. eapply holds_in; [exact H|]. unfold nids. apply in_or_app. right. eapply items_ids_in; eauto.
Qed.

Lemma nabs_ext w w' c : (forall j, In j (nids c) -> val w' j = val w j) -> nabs w' c = nabs w c.
Proof.
  intros V. unfold nabs. apply map_ext_in. intros m I. apply abs_node_keep. intros i J.
  apply V. unfold nids. apply in_or_app. right. eapply items_ids_in; eauto.
Qed.

(* Array::append(value) *)
Lemma arr_append_arg_ok a r w : wfw w -> holds w (aelems a) -> holdsb w (ablks a) -> awf a -> rlive w r ->
  exists a' w', with_arg r (arr_append a) w = Ok (a', w') /\
     trans w w' (aelems a) (aelems a') (ablks a) (ablks a') /\ awf a' /\
     avals w' a' = avals w a ++ [rval w r].
Proof.
  intros W H Hb WF L.
  destruct (with_arg_ok r (arr_append a) aelems ablks w (aelems a) (ablks a)
              (fun w1 i a' w2 => avals w2 a' = avals w1 a ++ [val w1 i] /\ awf a') W H Hb L)
    as (a' & w3 & E & T & w1 & i & S & V & P & WF').
  - intros w1 i c w2 w3 [P1 P2] K. split; auto. rewrite <- P1. unfold avals. apply map_ext_in. intros j J. apply K. exact J.
  - intros w1 i W1 H1 Hb1 I1 V1 S1.
    destruct (arr_append_ok a i w1 W1 H1 Hb1 WF I1) as (a' & w2 & E & T & V & WF').
    exists a', w2. auto.
  - exists a', w3. split; [exact E|]. split; [exact T|]. split; [exact WF'|].
    rewrite P, V. f_equal. unfold avals. apply same_on_vals; auto. intros j J. eapply holds_in; eauto.
Qed.

(* Array::resize(n, value) *)
Lemma arr_resize_arg_ok a n r w : wfw w -> holds w (aelems a) -> holdsb w (ablks a) -> awf a -> rlive w r ->
  exists a' w', with_arg r (arr_resize a n) w = Ok (a', w') /\
     trans w w' (aelems a) (aelems a') (ablks a) (ablks a') /\ awf a' /\
     avals w' a' = firstn n (avals w a) ++ repeat (rval w r) (n - length (aelems a)).
Proof.
  intros W H Hb WF L.
  destruct (with_arg_ok r (arr_resize a n) aelems ablks w (aelems a) (ablks a)
              (fun w1 i a' w2 => avals w2 a' = firstn n (avals w1 a) ++ repeat (val w1 i) (n - length (aelems a)) /\ awf a') W H Hb L)
    as (a' & w3 & E & T & w1 & i & S & V & P & WF').
  - intros w1 i c w2 w3 [P1 P2] K. split; auto. rewrite <- P1. unfold avals. apply map_ext_in. intros j J. apply K. exact J.
  - intros w1 i W1 H1 Hb1 I1 V1 S1.
    destruct (arr_resize_ok a n i w1 W1 H1 Hb1 WF I1) as (a' & w2 & E & T & V & WF').
    exists a', w2. auto.
  - exists a', w3. split; [exact E|]. split; [exact T|]. split; [exact WF'|].
    rewrite P, V. f_equal. f_equal. unfold avals. apply same_on_vals; auto. intros j J. eapply holds_in; eauto.
Qed.

(* remove(key) *)
Lemma nc_remove_key_arg_ok n r w : wfw w -> holds w (nids n) -> holdsb w (nblks n) ->
  has_key (ckind n) || has_val (ckind n) = true -> rlive w r ->
  exists c' w', with_arg r (nc_remove_key n) w = Ok (c', w') /\
     trans w w' (nids n) (nids c') (nblks n) (nblks c') /\ ckind c' = ckind n /\
     nabs w' c' = spec_remkey (ckind n) (nabs w n) (rval w r).
Proof.
  intros W H Hb KV L.
  destruct (with_arg_ok r (nc_remove_key n) nids nblks w (nids n) (nblks n)
              (fun w1 i c w2 => ckind c = ckind n /\ nabs w2 c = spec_remkey (ckind n) (nabs w1 n) (val w1 i)) W H Hb L)
    as (c' & w3 & E & T & w1 & i & S & V & K & P).
  - intros w1 i c w2 w3 [P1 P2] K. split; auto. rewrite <- P2. apply nabs_ext. exact K.
  - intros w1 i W1 H1 Hb1 I1 V1 S1.
    destruct (nc_remove_key_ok n i w1 W1 H1 KV I1) as (c' & w2 & E & T & K & A).
    exists c', w2. auto.
  - exists c', w3. split; [exact E|]. split; [exact T|]. split; [exact K|].
    rewrite P, V, (nabs_same_on w w1 n S H). reflexivity.
Qed.

(* insertion: key argument only *)
Lemma ins_with_key n p rk vf w : wfw w -> holds w (nids n) -> holdsb w (nblks n) -> rlive w rk ->
  has_key (ckind n) = true -> dup_assign (ckind n) = false ->
  (vf = VDefault \/ (has_val (ckind n) = false /\ vf = VRef 0)) ->
  exists c' w', with_arg rk (fun kr => nc_insert n p kr vf) w = Ok (c', w') /\
     trans w w' (nids n) (nids c') (nblks n) (nblks c') /\ ckind c' = ckind n /\
     nabs w' c' = spec_ins (ckind n) (nabs w n) p (rval w rk) 0.
Proof.
  intros W H Hb L HK DA VF.
  destruct (with_arg_ok rk (fun kr => nc_insert n p kr vf) nids nblks w (nids n) (nblks n)
              (fun w1 i c w2 => ckind c = ckind n /\ nabs w2 c = spec_ins (ckind n) (nabs w1 n) p (val w1 i) 0%Z) W H Hb L)
    as (c' & w3 & E & T & w1 & i & S & V & K & P).
  - intros w1 i c w2 w3 [P1 P2] K. split; auto. rewrite <- P2. apply nabs_ext. exact K.
  - intros w1 i W1 H1 Hb1 I1 V1 S1.
    destruct (nc_insert_ok n p i vf w1 W1 H1 Hb1) as (c' & w2 & E & T & K & A).
    + auto.
    + intros HV. destruct VF as [->|[Q ->]]; [exact Logic.I | congruence].
    + intros Q. congruence.
    + exists c', w2. split; [exact E|]. split; [exact T|]. split; [exact K|].
      rewrite A. apply spec_ins_ext; auto. intros HV. destruct VF as [->|[Q ->]]; [reflexivity | congruence].
  - exists c', w3. split; [exact E|]. split; [exact T|]. split; [exact K|].
    rewrite P, V, (nabs_same_on w w1 n S H). reflexivity.
Qed.

(* insertion: value argument only *)
Lemma ins_with_val n p rv w : wfw w -> holds w (nids n) -> holdsb w (nblks n) -> rlive w rv ->
  has_key (ckind n) = false ->
  exists c' w', with_arg rv (fun vr => nc_insert n p 0 (VRef vr)) w = Ok (c', w') /\
     trans w w' (nids n) (nids c') (nblks n) (nblks c') /\ ckind c' = ckind n /\
     nabs w' c' = spec_ins (ckind n) (nabs w n) p 0 (rval w rv).
Proof.
  intros W H Hb L HK.
  assert (DA : dup_assign (ckind n) = false) by (destruct (ckind n); cbn in *; congruence).
  destruct (with_arg_ok rv (fun vr => nc_insert n p 0 (VRef vr)) nids nblks w (nids n) (nblks n)
              (fun w1 i c w2 => ckind c = ckind n /\ nabs w2 c = spec_ins (ckind n) (nabs w1 n) p 0%Z (val w1 i)) W H Hb L)
    as (c' & w3 & E & T & w1 & i & S & V & K & P).
  - intros w1 i c w2 w3 [P1 P2] K. split; auto. rewrite <- P2. apply nabs_ext. exact K.
  - intros w1 i W1 H1 Hb1 I1 V1 S1.
    destruct (nc_insert_ok n p 0 (VRef i) w1 W1 H1 Hb1) as (c' & w2 & E & T & K & A).
    + intros Q. congruence.
    + intros _. exact I1.
    + intros Q. congruence.
    + exists c', w2. split; [exact E|]. split; [exact T|]. split; [exact K|].
      rewrite A. apply spec_ins_ext; auto. intros Q. congruence.
  - exists c', w3. split; [exact E|]. split; [exact T|]. split; [exact K|].
    rewrite P, V, (nabs_same_on w w1 n S H). reflexivity.
Qed.

(* insertion: key and value arguments *)
Lemma ins_with_both n p rk rv w : wfw w -> holds w (nids n) -> holdsb w (nblks n) -> rlive w rk -> rlive w rv ->
  has_key (ckind n) = true -> has_val (ckind n) = true ->
  exists c' w', with_arg rk (fun kr => with_arg rv (fun vr => nc_insert n p kr (VRef vr))) w = Ok (c', w') /\
     trans w w' (nids n) (nids c') (nblks n) (nblks c') /\ ckind c' = ckind n /\
     nabs w' c' = spec_ins (ckind n) (nabs w n) p (rval w rk) (rval w rv).
Proof.
  intros W H Hb Lk Lv HK HV.
  destruct (with_arg_ok rk (fun kr => with_arg rv (fun vr => nc_insert n p kr (VRef vr))) nids nblks w (nids n) (nblks n)
              (fun w1 i c w2 => ckind c = ckind n /\ nabs w2 c = spec_ins (ckind n) (nabs w1 n) p (val w1 i) (rval w rv)) W H Hb Lk)
    as (c' & w3 & E & T & w1 & i & S & V & K & P).
  - intros w1 i c w2 w3 [P1 P2] K. split; auto. rewrite <- P2. apply nabs_ext. exact K.
  - intros w1 i W1 H1 Hb1 I1 V1 S1.
    assert (Lv1 : rlive w1 rv).
    { destruct rv; cbn [rlive] in *; auto; apply S1; exact Lv. }
    assert (Rv1 : rval w1 rv = rval w rv).
    { destruct rv; cbn [rval rlive] in *; auto; apply S1; exact Lv. }
    destruct (with_arg_ok rv (fun vr => nc_insert n p i (VRef vr)) nids nblks w1 (nids n) (nblks n)
                (fun w2 j c w4 => ckind c = ckind n /\ nabs w4 c = spec_ins (ckind n) (nabs w2 n) p (val w2 i) (val w2 j)) W1 H1 Hb1 Lv1)
      as (c' & w4 & E & T & w2 & j & S2 & V2 & K & P).
    + intros w2 j c w4 w5 [P1 P2] K. split; auto. rewrite <- P2. apply nabs_ext. exact K.
    + intros w2 j W2 H2 Hb2 I2 V2 S2.
      destruct (nc_insert_ok n p i (VRef j) w2 W2 H2 Hb2) as (c' & w4 & E & T & K & A).
      * intros _. apply S2. exact I1.
      * intros _. exact I2.
      * intros _. eauto.
      * exists c', w4. split; [exact E|]. split; [exact T|]. split; [exact K|]. exact A.
    + exists c', w4. split; [exact E|]. split; [exact T|]. split; [exact K|].
      rewrite P, V2, Rv1, (nabs_same_on w1 w2 n S2 H1). f_equal. apply S2. exact I1.
  - exists c', w3. split; [exact E|]. split; [exact T|]. split; [exact K|].
    rewrite P, V, (nabs_same_on w w1 n S H). reflexivity.
Qed.

Lemma nc_ins_args_ok n p rk rv w : wfw w -> holds w (nids n) -> holdsb w (nblks n) ->
  is_array (ckind n) = false ->
  (if need_key (ckind n) then rlive w rk else rk = RRef 0) ->
  (if need_val (ckind n) then rlive w rv else rv = RRef 0) ->
  exists c' w', nc_ins_args n p rk rv w = Ok (c', w') /\
     trans w w' (nids n) (nids c') (nblks n) (nblks c') /\ ckind c' = ckind n /\
     nabs w' c' = spec_ins (ckind n) (nabs w n) (ins_p (ckind n) p)
                    (if need_key (ckind n) then rval w rk else 0%Z) (if need_val (ckind n) then rval w rv else 0%Z).
Proof.
  intros W H Hb NA Lk Lv. unfold nc_ins_args.
  destruct (ckind n) eqn:K; cbn [need_key need_val has_key has_val val_default andb negb is_array] in *; try discriminate.
  - (* List *) subst rk. cbn [with_arg]. rewrite <- K. apply ins_with_val; auto. rewrite K. reflexivity.
  - (* Map *) rewrite <- K. apply ins_with_both; auto; rewrite K; reflexivity.
  - (* MultiMap *) rewrite <- K. apply ins_with_both; auto; rewrite K; reflexivity.
  - (* HashMap *) rewrite <- K. apply ins_with_both; auto; rewrite K; reflexivity.
  - (* HashSet *) subst rv. cbn [with_arg]. rewrite <- K.
    apply (ins_with_key n (ins_p (ckind n) p) rk (VRef 0) w); auto; rewrite K; auto.
  - (* PoolList *) rewrite <- K.
    destruct rv as [z|i|i]; cbn [rlive rval] in *.
    + assert (P1 : has_key (ckind n) = true -> In 0 (dom (heap w))) by (rewrite K; cbn; congruence).
      assert (P3 : dup_assign (ckind n) = true -> exists s, VInt z = VRef s) by (rewrite K; cbn; congruence).
      destruct (nc_insert_ok n PBack 0 (VInt z) w W H Hb P1 (fun _ => Logic.I) P3) as (c' & w' & E & T & K' & A).
      exists c', w'. split; [exact E|]. split; [exact T|]. split; [exact K'|]. rewrite A, K. reflexivity.
    + (* the by-value parameter: a copy around the call *)
      destruct (ins_with_val n PBack (RCopy i) w W H Hb Lv) as (c' & w' & E & T & K' & A); [rewrite K; reflexivity|].
      exists c', w'. split; [exact E|]. split; [exact T|]. split; [exact K'|]. rewrite A, K. reflexivity.
    + assert (P1 : has_key (ckind n) = true -> In 0 (dom (heap w))) by (rewrite K; cbn; congruence).
      assert (P3 : dup_assign (ckind n) = true -> exists s, VRef i = VRef s) by (intros _; eauto).
      destruct (nc_insert_ok n PBack 0 (VRef i) w W H Hb P1 (fun _ => Lv) P3) as (c' & w' & E & T & K' & A).
      exists c', w'. split; [exact E|]. split; [exact T|]. split; [exact K'|]. rewrite A, K.
      apply spec_ins_ext; cbn; auto. intros Q. discriminate.
  - (* PoolMap *) rewrite <- K.
    apply (ins_with_key n (ins_p (ckind n) p) rk VDefault w); auto; rewrite K; auto.
Qed.

(* ---- OIns ---- *)
Lemma step_ins st x p ka va : Inv st -> step_good st (OIns x p ka va).
Proof.
  intros IV. unfold step_good. cbn [step spec_step]. rewrite sget_abs.
  destruct (getv (svars st) x) as [c|] eqn:G; cbn [option_map]; [|exists false, st; auto].
  destruct (inv_get st x c IV G) as (H & Hb & WF). pose proof (inv_wf _ IV) as W.
  pose proof (marg_key_spec st ka IV) as MK. pose proof (marg_val_spec st va IV) as MV.
  destruct c as [a|n]; cbn [cids cbks vwf abs_cont] in *.
  - cbn [need_key need_val has_key has_val val_default andb negb].
    destruct (marg_val (svars st) va) as [r|]; [destruct MV as [MV L]|]; rewrite MV; [|exists false, st; auto].
    destruct (arr_append_arg_ok a r (sw st) W H Hb WF L) as (a' & w' & E & T & WF' & V).
    destruct (put_ok st x (Some (CA a)) (CA a') w' _ IV (getv_nth _ _ _ G) (lift_ok CA _ _ _ _ E) T WF') as (st' & E' & IV' & A').
    exists true, st'. split; [exact E'|]. split; [exact IV'|]. rewrite A'. cbn [abs_cont].
    fold (aabs w' a') (aabs (sw st) a). rewrite !aabs_avals, V.
    unfold spec_ins. cbn [has_key ins_p pos_idx]. rewrite insert_at_len, map_app. reflexivity.
  - set (k := ckind n) in *.
    assert (Ak : match (if need_key k then marg_key (svars st) ka else Some (RRef 0)) with
                 | Some rk => (if need_key k then sarg_key (abs st) ka else Some 0%Z) = Some (if need_key k then rval (sw st) rk else 0%Z)
                              /\ (if need_key k then rlive (sw st) rk else rk = RRef 0)
                 | None => (if need_key k then sarg_key (abs st) ka else Some 0%Z) = None
                 end).
    { destruct (need_key k); [|auto]. destruct (marg_key (svars st) ka); auto. }
    assert (Av : match (if need_val k then marg_val (svars st) va else Some (RRef 0)) with
                 | Some rv => (if need_val k then sarg_val (abs st) va else Some 0%Z) = Some (if need_val k then rval (sw st) rv else 0%Z)
                              /\ (if need_val k then rlive (sw st) rv else rv = RRef 0)
                 | None => (if need_val k then sarg_val (abs st) va else Some 0%Z) = None
                 end).
    { destruct (need_val k); [|auto]. destruct (marg_val (svars st) va); auto. }
    destruct (if need_key k then marg_key (svars st) ka else Some (RRef 0)) as [rk|];
      [destruct Ak as [Ek Lk]|]; rewrite ?Ak, ?Ek; [|exists false, st; auto].
    destruct (if need_val k then marg_val (svars st) va else Some (RRef 0)) as [rv|];
      [destruct Av as [Ev Lv]|]; rewrite ?Av, ?Ev; [|exists false, st; auto].
    destruct (nc_ins_args_ok n p rk rv (sw st) W H Hb WF Lk Lv) as (c' & w' & E & T & K & A).
    destruct (put_ok st x (Some (CN n)) (CN c') w' _ IV (getv_nth _ _ _ G) (lift_ok CN _ _ _ _ E) T) as (st' & E' & IV' & A').
    { cbn [vwf]. rewrite K. exact WF. }
    exists true, st'. split; [exact E'|]. split; [exact IV'|]. rewrite A'. cbn [abs_cont].
    fold (nabs w' c') (nabs (sw st) n). rewrite K, A. reflexivity.
Qed.

(* ---- ORemKey ---- *)
Lemma can_remkey_fields k : can_remkey k = true -> is_array k = false -> has_key k || has_val k = true.
Proof. destruct k; cbn; auto. Qed.

Lemma step_remkey st x ka : Inv st -> step_good st (ORemKey x ka).
Proof.
  intros IV. unfold step_good. cbn [step spec_step]. rewrite sget_abs.
  destruct (getv (svars st) x) as [c|] eqn:G; cbn [option_map]; [|exists false, st; auto].
  destruct (inv_get st x c IV G) as (H & Hb & WF). pose proof (inv_wf _ IV) as W.
  pose proof (marg_key_spec st ka IV) as MK. pose proof (marg_val_spec st ka IV) as MV.
  destruct c as [a|n]; cbn [cids cbks vwf abs_cont] in *.
  - cbn [can_remkey]. exists false, st. auto.
  - destruct (can_remkey (ckind n)) eqn:CR; [|exists false, st; auto].
    assert (Ar : match (if has_key (ckind n) then marg_key (svars st) ka else marg_val (svars st) ka) with
                 | Some r => (if has_key (ckind n) then sarg_key (abs st) ka else sarg_val (abs st) ka) = Some (rval (sw st) r)
                             /\ rlive (sw st) r
                 | None => (if has_key (ckind n) then sarg_key (abs st) ka else sarg_val (abs st) ka) = None
                 end).
    { destruct (has_key (ckind n)); auto. }
    destruct (if has_key (ckind n) then marg_key (svars st) ka else marg_val (svars st) ka) as [r|];
      [destruct Ar as [Er L]|]; rewrite ?Ar, ?Er; [|exists false, st; auto].
    destruct (nc_remove_key_arg_ok n r (sw st) W H Hb (can_remkey_fields _ CR WF) L) as (c' & w' & E & T & K & A).
    destruct (put_ok st x (Some (CN n)) (CN c') w' _ IV (getv_nth _ _ _ G) (lift_ok CN _ _ _ _ E) T) as (st' & E' & IV' & A').
    { cbn [vwf]. rewrite K. exact WF. }
    exists true, st'. split; [exact E'|]. split; [exact IV'|]. rewrite A'. cbn [abs_cont].
    fold (nabs w' c') (nabs (sw st) n). rewrite K, A. reflexivity.
Qed.

Lemma map_repeat' {A B} (f : A -> B) x n : map f (repeat x n) = repeat (f x) n.
Proof. induction n; cbn [repeat map]; auto. f_equal. auto. Qed.

(* ---- OResize ---- *)
Lemma step_resize st x n va : Inv st -> step_good st (OResize x n va).
Proof.
  intros IV. unfold step_good. cbn [step spec_step]. rewrite sget_abs.
  destruct (getv (svars st) x) as [[a|c]|] eqn:G; cbn [option_map abs_cont]; try (exists false, st; auto; fail).
  - destruct (inv_get st x _ IV G) as (H & Hb & WF). pose proof (inv_wf _ IV) as W. cbn [cids cbks vwf] in *.
    pose proof (marg_val_spec st va IV) as MV.
    destruct (marg_val (svars st) va) as [r|]; [destruct MV as [MV L]|]; rewrite MV; [|exists false, st; auto].
    destruct (arr_resize_arg_ok a n r (sw st) W H Hb WF L) as (a' & w' & E & T & WF' & V).
    destruct (put_ok st x (Some (CA a)) (CA a') w' _ IV (getv_nth _ _ _ G) (lift_ok CA _ _ _ _ E) T WF') as (st' & E' & IV' & A').
    exists true, st'. split; [exact E'|]. split; [exact IV'|]. rewrite A'. cbn [abs_cont].
    fold (aabs w' a') (aabs (sw st) a). rewrite !aabs_avals, V.
    unfold spec_resize. rewrite map_app, firstn_map, map_length. unfold avals at 2. rewrite map_length.
    rewrite map_repeat'. reflexivity.
  - destruct (inv_get st x _ IV G) as (_ & _ & WF). cbn [vwf] in WF.
    destruct (ckind c); try (exists false, st; auto; fail). discriminate.
Qed.

(* ---- OAddAll ---- *)
Lemma can_addall_cases k : can_addall k = true -> is_array k = false ->
  k = KList \/ (unique k = true /\ k <> KList).
Proof. destruct k; cbn; intros; try discriminate; auto; right; split; auto; discriminate. Qed.

Lemma step_addall st x p y : Inv st -> swf (abs st) -> step_good st (OAddAll x p y).
Proof.
  intros IV SW. unfold step_good. cbn [step spec_step]. rewrite !sget_abs.
  destruct (getv (svars st) x) as [cx|] eqn:Gx; cbn [option_map]; [|exists false, st; auto].
  destruct (getv (svars st) y) as [cy|] eqn:Gy; cbn [option_map]; [|destruct (abs_cont (sw st) cx); exists false, st; auto].
  assert (KEx : fst (abs_cont (sw st) cx) = kind_of cx) by (destruct cx; reflexivity).
  assert (KEy : fst (abs_cont (sw st) cy) = kind_of cy) by (destruct cy; reflexivity).
  destruct (abs_cont (sw st) cx) as [k l] eqn:ACx. destruct (abs_cont (sw st) cy) as [k' l'] eqn:ACy.
  cbn [fst] in KEx, KEy. subst k k'.
  destruct (kind_eqb (kind_of cx) (kind_of cy) && can_addall (kind_of cx)) eqn:C; [|exists false, st; auto].
  apply andb_true_iff in C. destruct C as [KE CA']. apply kind_eqb_eq in KE.
  destruct (inv_get st x cx IV Gx) as (Hx & Hbx & WFx). destruct (inv_get st y cy IV Gy) as (Hy & Hby & WFy).
  pose proof (inv_wf _ IV) as W.
  destruct cx as [a|n], cy as [b|m]; cbn [cids cbks vwf abs_cont kind_of is_array] in *.
  - assert (El : l = aabs (sw st) a) by (inversion ACx; reflexivity).
    assert (El' : l' = aabs (sw st) b) by (inversion ACy; reflexivity). subst l l'.
    assert (R : exists a' w', arr_append_arr a (if Nat.eqb x y then None else Some b) (sw st) = Ok (a', w') /\
                  trans (sw st) w' (aelems a) (aelems a') (ablks a) (ablks a') /\
                  avals w' a' = avals (sw st) a ++ avals (sw st) b /\ awf a').
    { destruct (Nat.eqb_spec x y) as [->|NE].
      - rewrite Gx in Gy. inversion Gy. subst b.
        destruct (arr_append_arr_ok a None (sw st) W) as (a' & w' & E & T & V & WF'); auto.
        { cbn [other_elems]. rewrite app_nil_r. exact Hx. }
        exists a', w'. auto.
      - pose proof (inv_holds2 st x y _ _ IV NE (getv_nth _ _ _ Gx) (getv_nth _ _ _ Gy)) as H2. cbn [vids cids] in H2.
        destruct (arr_append_arr_ok a (Some b) (sw st) W H2 Hbx WFx) as (a' & w' & E & T & V & WF').
        exists a', w'. auto. }
    destruct R as (a' & w' & E & T & V & WF').
    destruct (put_ok st x (Some (CA a)) (CA a') w' _ IV (getv_nth _ _ _ Gx) (lift_ok CA _ _ _ _ E) T WF') as (st' & E' & IV' & A').
    exists true, st'. split; [exact E'|]. split; [exact IV'|]. rewrite A'. cbn [abs_cont].
    fold (aabs w' a'). rewrite !aabs_avals, V, map_app. reflexivity.
  - exfalso. rewrite <- KE in WFy. discriminate.
  - exfalso. rewrite KE in WFx. discriminate.
  - assert (El : l = nabs (sw st) n) by (inversion ACx; reflexivity).
    assert (El' : l' = nabs (sw st) m) by (inversion ACy; reflexivity). subst l l'.
    rewrite WFx.
    assert (R : exists c' w', nc_add_all n (addall_p (ckind n) p) (if Nat.eqb x y then None else Some m) (sw st) = Ok (c', w') /\
                  trans (sw st) w' (nids n) (nids c') (nblks n) (nblks c') /\ ckind c' = ckind n /\
                  nabs w' c' = spec_ins_all (ckind n) (nabs (sw st) n) (addall_p (ckind n) p) (nabs (sw st) m)).
    { destruct (Nat.eqb_spec x y) as [->|NE].
      - rewrite Gx in Gy. inversion Gy. subst m.
        destruct (can_addall_cases _ CA' WFx) as [KL|[UQ NL]].
        + destruct (nc_add_all_self_list n (addall_p (ckind n) p) (sw st) W Hx Hbx KL) as (c' & w' & E & T & K & A).
          exists c', w'. split; [exact E|]. split; [exact T|]. split; [exact K|]. rewrite A.
          destruct (nabs (sw st) n) eqn:EN; [rewrite KL; reflexivity|]. rewrite <- EN.
          rewrite (reinsert_id KList (nabs (sw st) n)); [rewrite KL; reflexivity | rewrite <- KL; apply nabs_shaped |].
          split; intros Q; discriminate.
        + pose proof (swf_get st y (CN n) SW Gx) as KO. cbn [abs_cont fst snd] in KO.
          destruct (nc_add_all_self_unique n (addall_p (ckind n) p) (sw st) W Hx UQ NL (proj1 KO UQ)) as (w' & E & T & A).
          exists n, w'. split; [exact E|]. split; [exact T|]. split; [reflexivity|]. rewrite A.
          symmetry. apply self_insert_unique; auto; [apply nabs_shaped | apply (proj1 KO UQ)].
      - pose proof (inv_holds2 st x y _ _ IV NE (getv_nth _ _ _ Gx) (getv_nth _ _ _ Gy)) as H2. cbn [vids cids] in H2.
        apply (nc_add_all_other n (addall_p (ckind n) p) m (sw st) W H2 Hbx (eq_sym KE)). }
    destruct R as (c' & w' & E & T & K & A).
    (* Map::insert(const Map&) goes through the hinted insert: the same computation *)
    assert (EQ : (match ckind n with
                  | KMap => nc_add_all_map n (if Nat.eqb x y then None else Some m)
                  | _ => nc_add_all n (addall_p (ckind n) p) (if Nat.eqb x y then None else Some m)
                  end) (sw st) = nc_add_all n (addall_p (ckind n) p) (if Nat.eqb x y then None else Some m) (sw st)).
    { destruct (ckind n) eqn:Kn; try reflexivity.
      pose proof (swf_get st x (CN n) SW Gx) as KO. cbn [abs_cont fst snd] in KO. rewrite Kn in KO.
      unfold nc_add_all_map, nc_add_all. cbn [addall_p].
      destruct (Nat.eqb_spec x y) as [->|NE].
      - rewrite Kn. apply nc_insert_all_map_self; auto; [unfold nabs; rewrite Kn; exact KO | intros pk Q; discriminate].
      - pose proof (inv_holds2 st x y _ _ IV NE (getv_nth _ _ _ Gx) (getv_nth _ _ _ Gy)) as H2. cbn [vids cids] in H2.
        apply (nc_insert_all_map_other (citems m) n None (sw st) (nids m)); auto.
        + unfold nabs. rewrite Kn. exact KO.
        + intros pk Q. discriminate.
        + intros nd I. unfold nids. split; apply in_or_app; right;
            (eapply items_ids_in; [exact I|]); [apply node_ids_key | apply node_ids_val]; rewrite <- KE; reflexivity. }
    rewrite <- EQ in E.
    destruct (put_ok st x (Some (CN n)) (CN c') w' _ IV (getv_nth _ _ _ Gx) (lift_ok CN _ _ _ _ E) T) as (st' & E' & IV' & A').
    { cbn [vwf]. rewrite K. exact WFx. }
    exists true, st'. split; [exact E'|]. split; [exact IV'|]. rewrite A'. cbn [abs_cont].
    fold (nabs w' c'). rewrite K, A. reflexivity.
Qed.

(* ---- ORemAll ---- *)
Lemma step_remall st x y : Inv st -> step_good st (ORemAll x y).
Proof.
  intros IV. unfold step_good. cbn [step spec_step]. rewrite !sget_abs.
  destruct (getv (svars st) x) as [cx|] eqn:Gx; cbn [option_map]; [|exists false, st; auto].
  destruct (getv (svars st) y) as [cy|] eqn:Gy; cbn [option_map];
    [|destruct (abs_cont (sw st) cx); destruct cx; exists false, st; auto].
  destruct (inv_get st x cx IV Gx) as (Hx & Hbx & WFx). destruct (inv_get st y cy IV Gy) as (Hy & Hby & WFy).
  pose proof (inv_wf _ IV) as W.
  destruct cx as [a|n], cy as [b|m]; cbn [cids cbks vwf abs_cont kind_of is_array] in *;
    try (cbn [kind_eqb can_remall andb]; exists false, st; auto; fail).
  - destruct (kind_eqb KArray (ckind m) && can_remall KArray) eqn:C; [|exists false, st; auto].
    apply andb_true_iff in C. destruct C as [_ C]. discriminate.
  - destruct (kind_eqb (ckind n) KArray && can_remall (ckind n)) eqn:C; [|exists false, st; auto].
    apply andb_true_iff in C. destruct C as [C _]. apply kind_eqb_eq in C. rewrite C in WFx. discriminate.
  - destruct (kind_eqb (ckind n) (ckind m) && can_remall (ckind n)) eqn:C; [|exists false, st; auto].
    apply andb_true_iff in C. destruct C as [KE CR]. apply kind_eqb_eq in KE.
    assert (HK : has_key (ckind n) = true) by (destruct (ckind n); cbn in CR; try discriminate; reflexivity).
    assert (R : exists c' w', nc_remove_keys n (citems m) (sw st) = Ok (c', w') /\
                  trans (sw st) w' (nids n) (nids c') (nblks n) (nblks c') /\ ckind c' = ckind n /\
                  nabs w' c' = spec_rem_all (ckind n) (nabs (sw st) n) (nabs (sw st) m)).
    { destruct (Nat.eq_dec x y) as [->|NE].
      - rewrite Gx in Gy. inversion Gy. subst m.
        destruct (nc_remove_keys_self (citems n) n (sw st) eq_refl W Hx HK) as (c' & w' & E & T & K & I).
        exists c', w'. split; [exact E|]. split; [exact T|]. split; [exact K|].
        rewrite self_remove by exact HK. unfold nabs. rewrite I. reflexivity.
      - pose proof (inv_holds2 st x y _ _ IV NE (getv_nth _ _ _ Gx) (getv_nth _ _ _ Gy)) as H2. cbn [vids cids] in H2.
        destruct (nc_remove_keys_ok (citems m) n (sw st) W) as (c' & w' & E & T & K & A); auto.
        { rewrite KE. eapply holds_sub; [exact H2|]. unfold nids. msolve. }
        exists c', w'. split; [exact E|]. split; [exact T|]. split; [exact K|].
        rewrite A. unfold nabs. rewrite KE. reflexivity. }
    destruct R as (c' & w' & E & T & K & A).
    destruct (put_ok st x (Some (CN n)) (CN c') w' _ IV (getv_nth _ _ _ Gx) (lift_ok CN _ _ _ _ E) T) as (st' & E' & IV' & A').
    { cbn [vwf]. rewrite K. exact WFx. }
    exists true, st'. split; [exact E'|]. split; [exact IV'|]. rewrite A'. cbn [abs_cont].
    fold (nabs w' c') (nabs (sw st) n) (nabs (sw st) m). rewrite K, A. reflexivity.
Qed.

(* ---- OAppendRange ---- *)
Lemma step_appendrange st x y i n : Inv st -> step_good st (OAppendRange x y i n).
Proof.
  intros IV. unfold step_good. cbn [step spec_step]. rewrite !sget_abs.
  destruct (getv (svars st) x) as [cx|] eqn:Gx; cbn [option_map]; [|exists false, st; auto].
  destruct (getv (svars st) y) as [cy|] eqn:Gy; cbn [option_map];
    [|destruct (abs_cont (sw st) cx); destruct cx; exists false, st; auto].
  destruct (inv_get st x cx IV Gx) as (Hx & Hbx & WFx). destruct (inv_get st y cy IV Gy) as (Hy & Hby & WFy).
  pose proof (inv_wf _ IV) as W.
  destruct cx as [a|c], cy as [b|m]; cbn [cids cbks vwf abs_cont kind_of is_array andb] in *;
    rewrite ?WFx, ?WFy; cbn [andb]; try (exists false, st; auto; fail).
  rewrite map_length.
  destruct (i + n <=? length (aelems b)) eqn:L; [|exists false, st; auto].
  assert (R : exists a' w', arr_append_range a (if Nat.eqb x y then None else Some b) i n (sw st) = Ok (a', w') /\
                trans (sw st) w' (aelems a) (aelems a') (ablks a) (ablks a') /\
                avals w' a' = avals (sw st) a ++ firstn n (skipn i (avals (sw st) b)) /\ awf a').
  { destruct (Nat.eqb_spec x y) as [->|NE].
    - rewrite Gx in Gy. inversion Gy. subst b.
      destruct (arr_append_range_ok a None i n (sw st) W) as (a' & w' & E & T & V & WF'); auto.
      { cbn [other_elems]. rewrite app_nil_r. exact Hx. }
      exists a', w'. auto.
    - pose proof (inv_holds2 st x y _ _ IV NE (getv_nth _ _ _ Gx) (getv_nth _ _ _ Gy)) as H2. cbn [vids cids] in H2.
      destruct (arr_append_range_ok a (Some b) i n (sw st) W H2 Hbx WFx) as (a' & w' & E & T & V & WF').
      exists a', w'. auto. }
  destruct R as (a' & w' & E & T & V & WF').
  destruct (put_ok st x (Some (CA a)) (CA a') w' _ IV (getv_nth _ _ _ Gx) (lift_ok CA _ _ _ _ E) T WF') as (st' & E' & IV' & A').
  exists true, st'. split; [exact E'|]. split; [exact IV'|]. rewrite A'. cbn [abs_cont].
  fold (aabs w' a') (aabs (sw st) a) (aabs (sw st) b). rewrite !aabs_avals, V, map_app, skipn_map, firstn_map. reflexivity.
Qed.

(* ---- ORemVia: the other removing entry points are ORemAt at the index they denote ---- *)
Lemma abs_cont_len w c : length (snd (abs_cont w c)) = clen c /\ fst (abs_cont w c) = kind_of c.
Proof. destruct c as [a|n]; cbn [abs_cont snd fst clen kind_of]; rewrite map_length; auto. Qed.

Lemma step_remvia st v x i : Inv st -> step_good st (ORemVia v x i).
Proof.
  intros IV. unfold step_good. cbn [step spec_step]. rewrite sget_abs.
  destruct (getv (svars st) x) as [c|] eqn:G; cbn [option_map]; [|exists false, st; auto].
  destruct (abs_cont_len (sw st) c) as [EL EK].
  destruct (abs_cont (sw st) c) as [k l] eqn:AC. cbn [fst snd] in EL, EK. rewrite EL, EK.
  destruct (via_idx v (kind_of c) (clen c) i) as [j|]; [|exists false, st; auto].
  pose proof (step_remat st x j IV) as R. unfold step_good in R. cbn [step spec_step] in R.
  rewrite sget_abs, G in R. cbn [option_map] in R. rewrite AC, EL, EK in R. exact R.
Qed.

(* ---- ORemOut (round 6): Array::remove(index) with size <= index ---- *)
Lemma step_remout st x i r : Inv st -> step_good st (ORemOut x i r).
Proof.
  intros IV. unfold step_good. cbn [step spec_step]. rewrite sget_abs.
  destruct (getv (svars st) x) as [c|] eqn:G; cbn [option_map]; [|exists false, st; auto].
  destruct (abs_cont_len (sw st) c) as [EL EK].
  destruct (abs_cont (sw st) c) as [k l] eqn:AC. cbn [fst snd] in EL, EK. rewrite EL, EK.
  destruct (out_idx (kind_of c) (clen c) i r) as [[j|]|]; [|exists true, st; auto|exists false, st; auto].
  pose proof (step_remat st x j IV) as R. unfold step_good in R. cbn [step spec_step] in R.
  rewrite sget_abs, G in R. cbn [option_map] in R. rewrite AC, EL, EK in R. exact R.
Qed.


(* ---------------------------------------------------------------------------------------- *)
(* third round                                                                                *)
(* ---------------------------------------------------------------------------------------- *)
(* ---- ONewCap ---- *)
Lemma step_newcap st x k n : Inv st -> step_good st (ONewCap x k n).
Proof.
  intros IV. unfold step_good. cbn [step spec_step]. rewrite sdead_abs.
  destruct (isdead (svars st) x && has_capctor k) eqn:D; [|exists false, st; auto].
  apply andb_true_iff in D. destruct D as [D CC].
  pose proof (isdead_nth _ _ D) as N. pose proof (inv_wf _ IV) as W.
  destruct (is_array k) eqn:A.
  - apply is_array_eq in A. subst k.
    destruct (put_ok st x None (CA (arr_new_cap n)) (sw st) (ret (CA (arr_new_cap n))) IV N eq_refl) as (st' & E & IV' & A').
    { cbn [vids vbks cids cbks aelems arr_new_cap ablks astore]. apply trans_refl. auto. }
    { cbn [vwf]. apply awf_new_cap. }
    exists true, st'. split; [exact E|]. split; [exact IV'|]. rewrite A'. reflexivity.
  - destruct (nc_new_ok k (sw st) W) as (c & w' & E0 & T0 & K0 & I0 & B0).
    destruct (put_ok st x None (CN c) w' (lift CN (nc_new k)) IV N (lift_ok CN _ _ _ _ E0)) as (st' & E & IV' & A').
    { cbn [vids vbks cids cbks]. exact T0. }
    { cbn [vwf]. rewrite K0. exact A. }
    exists true, st'. split; [exact E|]. split; [exact IV'|].
    rewrite A'. cbn [abs_cont]. unfold nabs. rewrite K0, I0. reflexivity.
Qed.

(* ---- OFind: the caller's temporary comes and goes, nothing else happens ---- *)
Lemma with_arg_ro {C} r (body : id -> M C) (c : C) w : wfw w -> rlive w r ->
  (forall w1 i, wfw w1 -> (forall F, holds w F -> holds w1 F) -> In i (dom (heap w1)) -> body i w1 = Ok (c, w1)) ->
  exists w3, with_arg r body w = Ok (c, w3) /\ trans w w3 [] [] [] [].
Proof.
  intros W L BD. destruct r as [z|i|i]; cbn [with_arg rlive] in *.
  - destruct (mk_val_ok w z W) as (E1 & T1 & V1). run E1.
    set (t := nxt w) in *. set (w1 := w_mk w z (EVal t z)) in *.
    rewrite (bind_ok _ _ _ _ _ (BD w1 t ltac:(twf T1) (fun F HF => holds_keep _ _ _ _ _ _ F T1 HF) (mk_live w z _))).
    destruct (destroy_ok w1 t ltac:(twf T1) (mk_live w z _)) as [E3 T3]. run E3.
    eexists. split; [reflexivity|].
    eapply (trans_seq [] [] [] [] _ _ _ _ _ _ _ _ _ _ _ _ _ _ _ T1 T3); msolve.
  - exists w. split; [apply BD; auto | apply trans_refl; auto].
  - destruct (mk_copy_ok w i W L) as (E1 & T1 & V1). run E1.
    set (t := nxt w) in *. set (w1 := w_mk w (val w i) (ECopy t i)) in *.
    rewrite (bind_ok _ _ _ _ _ (BD w1 t ltac:(twf T1) (fun F HF => holds_keep _ _ _ _ _ _ F T1 HF) (mk_live w (val w i) _))).
    destruct (destroy_ok w1 t ltac:(twf T1) (mk_live w (val w i) _)) as [E3 T3]. run E3.
    eexists. split; [reflexivity|].
    eapply (trans_seq [] [] [] [] _ _ _ _ _ _ _ _ _ _ _ _ _ _ _ T1 T3); msolve.
Qed.

Lemma readonly_good st x c w3 (m : M cont) o : Inv st -> getv (svars st) x = Some c ->
  m (sw st) = Ok (c, w3) -> trans (sw st) w3 [] [] [] [] -> spec_step (abs st) o = (true, abs st) ->
  exists st', put st x m = Ok (true, st') /\ Inv st' /\ spec_step (abs st) o = (true, abs st').
Proof.
  intros IV G E T S.
  destruct (inv_get st x c IV G) as (H & Hb & WF).
  destruct (put_ok st x (Some c) c w3 m IV (getv_nth _ _ _ G) E) as (st' & E' & IV' & A'); auto.
  { cbn [vids vbks]. eapply trans_perm; [apply (trans_frame _ _ _ _ _ _ (cids c) (cbks c) T) | | | |]; msolve. }
  exists st'. split; [exact E'|]. split; [exact IV'|]. rewrite S. f_equal. rewrite A'.
  symmetry. apply sset_same. rewrite (abs_nth st x c G). f_equal. f_equal.
  symmetry. apply abs_cont_ext. intros i I. eapply trans_val; [exact T | eapply holds_in; eauto | tauto].
Qed.

Lemma step_find st x ka : Inv st -> step_good st (OFind x ka).
Proof.
  intros IV. unfold step_good. cbn [step spec_step]. rewrite sget_abs.
  destruct (getv (svars st) x) as [c|] eqn:G; cbn [option_map]; [|exists false, st; auto].
  destruct (inv_get st x c IV G) as (H & Hb & WF). pose proof (inv_wf _ IV) as W.
  pose proof (marg_key_spec st ka IV) as MK. pose proof (marg_val_spec st ka IV) as MV.
  destruct c as [a|n]; cbn [cids cbks vwf abs_cont] in *.
  - cbn [can_find has_key].
    destruct (marg_val (svars st) ka) as [r|]; [destruct MV as [MV L]|]; rewrite MV; [|exists false, st; auto].
    destruct (with_arg_ro r (arr_find a) a (sw st) W L) as (w3 & E & T).
    { intros w1 i W1 HK I1. apply arr_find_ok; auto. }
    destruct (readonly_good st x (CA a) w3 (lift CA (with_arg r (arr_find a))) (OFind x ka) IV G (lift_ok CA _ _ _ _ E) T)
      as (st' & E' & IV' & S').
    { cbn [spec_step]. rewrite sget_abs, G. cbn [option_map abs_cont can_find has_key]. rewrite MV. reflexivity. }
    exists true, st'. split; [exact E'|]. split; [exact IV'|].
    cbn [spec_step] in S'. rewrite sget_abs, G in S'. cbn [option_map abs_cont can_find has_key] in S'. rewrite MV in S'. exact S'.
  - destruct (can_find (ckind n)) eqn:CF; [|exists false, st; auto].
    assert (KV : has_key (ckind n) || has_val (ckind n) = true) by (destruct (ckind n); cbn in *; congruence).
    assert (Ar : match (if has_key (ckind n) then marg_key (svars st) ka else marg_val (svars st) ka) with
                 | Some r => (if has_key (ckind n) then sarg_key (abs st) ka else sarg_val (abs st) ka) = Some (rval (sw st) r)
                             /\ rlive (sw st) r
                 | None => (if has_key (ckind n) then sarg_key (abs st) ka else sarg_val (abs st) ka) = None
                 end).
    { destruct (has_key (ckind n)); auto. }
    destruct (if has_key (ckind n) then marg_key (svars st) ka else marg_val (svars st) ka) as [r|];
      [destruct Ar as [Er L]|]; rewrite ?Ar, ?Er; [|exists false, st; auto].
    destruct (with_arg_ro r (nc_find n) n (sw st) W L) as (w3 & E & T).
    { intros w1 i W1 HK I1. apply nc_find_ok; auto. }
    destruct (readonly_good st x (CN n) w3 (lift CN (with_arg r (nc_find n))) (OFind x ka) IV G (lift_ok CN _ _ _ _ E) T)
      as (st' & E' & IV' & S').
    { cbn [spec_step]. rewrite sget_abs, G. cbn [option_map abs_cont]. rewrite CF, Er. reflexivity. }
    exists true, st'. split; [exact E'|]. split; [exact IV'|].
    cbn [spec_step] in S'. rewrite sget_abs, G in S'. cbn [option_map abs_cont] in S'. rewrite CF, Er in S'. exact S'.
Qed.

(* ---- OEmplace ---- *)
Lemma marg_vals_spec st args : Inv st ->
  match marg_vals (svars st) args with
  | Some rs => sarg_vals (abs st) args = Some (map (rval (sw st)) rs) /\ Forall (rlive (sw st)) rs
  | None => sarg_vals (abs st) args = None
  end.
Proof.
  intros IV. induction args as [|a r IH]; cbn [marg_vals sarg_vals]; [split; [reflexivity | constructor]|].
  pose proof (marg_val_spec st a IV) as MV.
  destruct (marg_val (svars st) a) as [ra|]; [destruct MV as [MV L]|]; rewrite MV; [|reflexivity].
  destruct (marg_vals (svars st) r) as [rs|]; [destruct IH as [IH F]|]; rewrite IH; [|reflexivity].
  split; [reflexivity | constructor; assumption].
Qed.

Lemma can_emplace_eq k : can_emplace k = true -> k = KPoolList.
Proof. destruct k; cbn; congruence. Qed.

Lemma step_emplace st x args : Inv st -> step_good st (OEmplace x args).
Proof.
  intros IV. unfold step_good. cbn [step spec_step]. rewrite sget_abs.
  destruct (getv (svars st) x) as [c|] eqn:G; cbn [option_map]; [|exists false, st; auto].
  destruct (inv_get st x c IV G) as (H & Hb & WF). pose proof (inv_wf _ IV) as W.
  destruct c as [a|n]; cbn [cids cbks vwf abs_cont] in *.
  - cbn [can_emplace andb]. exists false, st. auto.
  - destruct (can_emplace (ckind n) && (length args <=? 7)) eqn:CE; [|exists false, st; auto].
    apply andb_true_iff in CE. destruct CE as [CE _]. apply can_emplace_eq in CE.
    pose proof (marg_vals_spec st args IV) as MS.
    destruct (marg_vals (svars st) args) as [rs|]; [destruct MS as [MS F]|]; rewrite MS; [|exists false, st; auto].
    destruct (nc_emplace_ok n rs (sw st) W H Hb CE F) as (c' & w' & E & T & K & A).
    destruct (put_ok st x (Some (CN n)) (CN c') w' _ IV (getv_nth _ _ _ G) (lift_ok CN _ _ _ _ E) T) as (st' & E' & IV' & A').
    { cbn [vwf]. rewrite K. exact WF. }
    exists true, st'. split; [exact E'|]. split; [exact IV'|]. rewrite A'. cbn [abs_cont].
    fold (nabs w' c') (nabs (sw st) n). rewrite K, A. reflexivity.
Qed.

(* ---- OAppendVals ---- *)
Lemma step_appendvals st x zs : Inv st -> step_good st (OAppendVals x zs).
Proof.
  intros IV. unfold step_good. cbn [step spec_step]. rewrite sget_abs.
  destruct (getv (svars st) x) as [c|] eqn:G; cbn [option_map]; [|exists false, st; auto].
  destruct (inv_get st x c IV G) as (H & Hb & WF). pose proof (inv_wf _ IV) as W.
  destruct c as [a|n]; cbn [cids cbks vwf abs_cont is_array] in *.
  - destruct (arr_append_vals_ok a zs (sw st) W H Hb WF) as (a' & w' & E & T & V & WF').
    destruct (put_ok st x (Some (CA a)) (CA a') w' _ IV (getv_nth _ _ _ G) (lift_ok CA _ _ _ _ E) T WF') as (st' & E' & IV' & A').
    exists true, st'. split; [exact E'|]. split; [exact IV'|]. rewrite A'. cbn [abs_cont].
    fold (aabs w' a') (aabs (sw st) a). rewrite !aabs_avals, V, map_app. reflexivity.
  - rewrite WF. exists false, st. auto.
Qed.

(* ---- OInsHint ---- *)
Lemma with_both_ok n (f : id -> id -> M nc) (G : acont) rk rv w :
  wfw w -> holds w (nids n) -> holdsb w (nblks n) -> rlive w rk -> rlive w rv ->
  (forall w2 i j, wfw w2 -> holds w2 (nids n) -> holdsb w2 (nblks n) -> In i (dom (heap w2)) -> In j (dom (heap w2)) ->
      val w2 i = rval w rk -> val w2 j = rval w rv -> nabs w2 n = nabs w n ->
      exists c' w4, f i j w2 = Ok (c', w4) /\ trans w2 w4 (nids n) (nids c') (nblks n) (nblks c') /\ ckind c' = ckind n /\
                    nabs w4 c' = G) ->
  exists c' w', with_arg rk (fun kr => with_arg rv (fun vr => f kr vr)) w = Ok (c', w') /\
     trans w w' (nids n) (nids c') (nblks n) (nblks c') /\ ckind c' = ckind n /\ nabs w' c' = G.
Proof.
  intros W H Hb Lk Lv BD.
  destruct (with_arg_ok rk (fun kr => with_arg rv (fun vr => f kr vr)) nids nblks w (nids n) (nblks n)
              (fun w1 i c w2 => ckind c = ckind n /\ nabs w2 c = G) W H Hb Lk)
    as (c' & w3 & E & T & w1 & i & S & V & K & P).
  - intros w1 i c w2 w3 [P1 P2] K. split; auto. rewrite <- P2. apply nabs_ext. exact K.
  - intros w1 i W1 H1 Hb1 I1 V1 S1.
    assert (Lv1 : rlive w1 rv).
    { destruct rv; cbn [rlive] in *; auto; apply S1; exact Lv. }
    assert (Rv1 : rval w1 rv = rval w rv).
    { destruct rv; cbn [rval rlive] in *; auto; apply S1; exact Lv. }
    destruct (with_arg_ok rv (fun vr => f i vr) nids nblks w1 (nids n) (nblks n)
                (fun w2 j c w4 => ckind c = ckind n /\ nabs w4 c = G) W1 H1 Hb1 Lv1)
      as (c' & w4 & E & T & w2 & j & S2 & V2 & K & P).
    + intros w2 j c w4 w5 [P1 P2] K. split; auto. rewrite <- P2. apply nabs_ext. exact K.
    + intros w2 j W2 H2 Hb2 I2 V2 S2.
      destruct (BD w2 i j W2 H2 Hb2 (proj2 (S2 i I1)) I2) as (c' & w4 & E & T & K & A).
      { rewrite <- V1. apply S2. exact I1. }
      { rewrite V2. exact Rv1. }
      { rewrite (nabs_same_on w1 w2 n S2 H1). apply (nabs_same_on w w1 n S1 H). }
      exists c', w4. split; [exact E|]. split; [exact T|]. split; [exact K|]. exact A.
    + exists c', w4. split; [exact E|]. split; [exact T|]. split; [exact K|]. exact P.
  - exists c', w3. split; [exact E|]. split; [exact T|]. split; [exact K|]. exact P.
Qed.

Lemma step_inshint st x p ka va : Inv st -> swf (abs st) -> step_good st (OInsHint x p ka va).
Proof.
  intros IV SW. unfold step_good. cbn [step spec_step]. rewrite sget_abs.
  destruct (getv (svars st) x) as [c|] eqn:G; cbn [option_map]; [|exists false, st; auto].
  destruct (inv_get st x c IV G) as (H & Hb & WF). pose proof (inv_wf _ IV) as W.
  pose proof (marg_key_spec st ka IV) as MK. pose proof (marg_val_spec st va IV) as MV.
  destruct c as [a|n]; cbn [cids cbks vwf abs_cont] in *.
  - cbn [can_hint sorted]. exists false, st. auto.
  - unfold can_hint. destruct (sorted (ckind n)) eqn:SO; [|exists false, st; auto].
    destruct (sorted_fields _ SO) as (HK & HV & _).
    destruct (marg_key (svars st) ka) as [rk|]; [destruct MK as [MK Lk]|]; rewrite MK; [|exists false, st; auto].
    destruct (marg_val (svars st) va) as [rv|]; [destruct MV as [MV Lv]|]; rewrite MV; [|exists false, st; auto].
    pose proof (swf_get st x (CN n) SW G) as KO. cbn [abs_cont fst snd] in KO. fold (nabs (sw st) n) in KO |- *.
    assert (Ek : map (val (sw st)) (sel_ids (ckind n) (citems n)) = asel (ckind n) (nabs (sw st) n)).
    { unfold nabs. apply sel_vals. rewrite HK. reflexivity. }
    assert (Len : length (nabs (sw st) n) = length (citems n)) by (unfold nabs; apply map_length).
    rewrite Ek, rarg_val_rval, Len.
    destruct (hint_tie (ckind n) (asel (ckind n) (nabs (sw st) n)) (pos_idx p (length (citems n))) (rval (sw st) rk)) eqn:TIE;
      [exists false, st; auto|].
    destruct (with_both_ok n (fun kr vr => nc_insert_hint n p kr vr)
                (spec_ins (ckind n) (nabs (sw st) n) p (rval (sw st) rk) (rval (sw st) rv)) rk rv (sw st) W H Hb Lk Lv)
      as (c' & w' & E & T & K & A).
    { intros w2 i j W2 H2 Hb2 Ii Ij Vi Vj EN.
      destruct (nc_insert_hint_ok n p i j w2 W2 H2 Hb2 SO Ii Ij) as (c' & w4 & E & T & K & A).
      - rewrite EN. exact KO.
      - rewrite EN, Vi. exact TIE.
      - exists c', w4. split; [exact E|]. split; [exact T|]. split; [exact K|]. rewrite A, EN, Vi, Vj. reflexivity. }
    destruct (put_ok st x (Some (CN n)) (CN c') w' _ IV (getv_nth _ _ _ G) (lift_ok CN _ _ _ _ E) T) as (st' & E' & IV' & A').
    { cbn [vwf]. rewrite K. exact WF. }
    exists true, st'. split; [exact E'|]. split; [exact IV'|]. rewrite A'. cbn [abs_cont].
    fold (nabs w' c'). rewrite K, A. reflexivity.
Qed.

(* ---- OSort ---- *)
Lemma can_sort_eq k : can_sort k = true -> k = KList.
Proof. destruct k; cbn; congruence. Qed.

Lemma step_sort st x : Inv st -> step_good st (OSort x).
Proof.
  intros IV. unfold step_good. cbn [step spec_step]. rewrite sget_abs.
  destruct (getv (svars st) x) as [c|] eqn:G; cbn [option_map]; [|exists false, st; auto].
  destruct (inv_get st x c IV G) as (H & Hb & WF). pose proof (inv_wf _ IV) as W.
  destruct c as [a|n]; cbn [cids cbks vwf abs_cont] in *.
  - cbn [can_sort]. exists false, st. auto.
  - destruct (can_sort (ckind n)) eqn:CS; [|exists false, st; auto].
    pose proof (can_sort_eq _ CS) as K.
    destruct (nc_sort_ok n (sw st) W H K) as (w' & E & T & A).
    destruct (put_ok st x (Some (CN n)) (CN n) w' _ IV (getv_nth _ _ _ G) (lift_ok CN _ _ _ _ E) T) as (st' & E' & IV' & A').
    { cbn [vwf]. exact WF. }
    exists true, st'. split; [exact E'|]. split; [exact IV'|]. rewrite A'. cbn [abs_cont].
    fold (nabs w' n) (nabs (sw st) n). rewrite A. reflexivity.
Qed.

(* ---- OInsTie ---- *)
Lemma step_instie st x p ka va j : Inv st -> step_good st (OInsTie x p ka va j).
Proof.
  intros IV. unfold step_good. cbn [step spec_step]. rewrite sget_abs.
  destruct (getv (svars st) x) as [c|] eqn:G; cbn [option_map]; [|exists false, st; auto].
  destruct (inv_get st x c IV G) as (H & Hb & WF). pose proof (inv_wf _ IV) as W.
  pose proof (marg_key_spec st ka IV) as MK. pose proof (marg_val_spec st va IV) as MV.
  destruct c as [a|n]; cbn [cids cbks vwf abs_cont] in *.
  - cbn [can_hint sorted]. exists false, st. auto.
  - unfold can_hint. destruct (sorted (ckind n)) eqn:SO; [|exists false, st; auto].
    destruct (sorted_fields _ SO) as (HK & HV & _).
    destruct (marg_key (svars st) ka) as [rk|]; [destruct MK as [MK Lk]|]; rewrite MK; [|exists false, st; auto].
    destruct (marg_val (svars st) va) as [rv|]; [destruct MV as [MV Lv]|]; rewrite MV; [|exists false, st; auto].
    fold (nabs (sw st) n).
    assert (Ek : map (val (sw st)) (sel_ids (ckind n) (citems n)) = asel (ckind n) (nabs (sw st) n)).
    { unfold nabs. apply sel_vals. rewrite HK. reflexivity. }
    assert (Len : length (nabs (sw st) n) = length (citems n)) by (unfold nabs; apply map_length).
    rewrite Ek, rarg_val_rval, Len.
    destruct (hint_tie (ckind n) (asel (ckind n) (nabs (sw st) n)) (pos_idx p (length (citems n))) (rval (sw st) rk) &&
              ssortedb (insert_at (S (pos_idx p (length (citems n))) + j) (rval (sw st) rk) (asel (ckind n) (nabs (sw st) n))));
      [|exists false, st; auto].
    destruct (with_both_ok n (fun kr vr => nc_insert_tie n p kr vr j)
                (insert_at (S (pos_idx p (length (citems n))) + j) (mk_anode (ckind n) (rval (sw st) rk) (rval (sw st) rv)) (nabs (sw st) n))
                rk rv (sw st) W H Hb Lk Lv)
      as (c' & w' & E & T & K & A).
    { intros w2 i i2 W2 H2 Hb2 Ii Ij Vi Vj EN.
      destruct (nc_insert_tie_ok n p i i2 j w2 W2 H2 Hb2 SO Ii Ij) as (c' & w4 & E & T & K & A).
      exists c', w4. split; [exact E|]. split; [exact T|]. split; [exact K|]. rewrite A, EN, Vi, Vj. reflexivity. }
    destruct (put_ok st x (Some (CN n)) (CN c') w' _ IV (getv_nth _ _ _ G) (lift_ok CN _ _ _ _ E) T) as (st' & E' & IV' & A').
    { cbn [vwf]. rewrite K. exact WF. }
    exists true, st'. split; [exact E'|]. split; [exact IV'|]. rewrite A'. cbn [abs_cont].
    fold (nabs w' c'). rewrite K, A. reflexivity.
Qed.

(* ---- OInsVia: prepend / append(key[, value]) are OIns at the front / the back ---- *)
Lemma step_insvia st x f ka va : Inv st -> step_good st (OInsVia x f ka va).
Proof.
  intros IV. unfold step_good. cbn [step spec_step]. rewrite sget_abs.
  destruct (getv (svars st) x) as [c|] eqn:G; cbn [option_map]; [|exists false, st; auto].
  destruct c as [a|n]; cbn [abs_cont].
  - cbn [can_insvia]. exists false, st. auto.
  - destruct (can_insvia (ckind n) f); [|exists false, st; auto].
    pose proof (step_ins st x (via_pos f) ka va IV) as R. unfold step_good in R. cbn [step spec_step] in R.
    rewrite sget_abs, G in R. cbn [option_map abs_cont] in R. exact R.
Qed.

Lemma insvia_is_ins_proof st x n f ka va :
  getv (svars st) x = Some (CN n) -> can_insvia (ckind n) f = true ->
  step st (OInsVia x f ka va) = step st (OIns x (via_pos f) ka va) /\
  spec_step (abs st) (OInsVia x f ka va) = spec_step (abs st) (OIns x (via_pos f) ka va).
Proof.
  intros G C. split.
  - cbn [step]. rewrite G, C. reflexivity.
  - cbn [spec_step]. rewrite sget_abs, G. cbn [option_map abs_cont]. rewrite C. reflexivity.
Qed.

(* ---------------------------------------------------------------------------------------- *)
(* all operations                                                                             *)
(* ---------------------------------------------------------------------------------------- *)
Theorem step_ok st o : Inv st -> swf (abs st) -> step_good st o.
Proof.
  intros IV SW. destruct o.
  - apply step_new; auto.
  - apply step_del; auto.
  - apply step_copy; auto.
  - apply step_assign; auto.
  - apply step_swap; auto.
  - apply step_clear; auto.
  - apply step_ins; auto.
  - apply step_remat; auto.
  - apply step_remkey; auto.
  - apply step_addall; auto.
  - apply step_remall; auto.
  - apply step_reserve; auto.
  - apply step_resize; auto.
  - apply step_appendrange; auto.
  - apply step_remvia; auto.
  - apply step_newcap; auto.
  - apply step_find; auto.
  - apply step_emplace; auto.
  - apply step_appendvals; auto.
  - apply step_inshint; auto.
  - apply step_sort; auto.
  - apply step_insvia; auto.
  - apply step_instie; auto.
  - apply step_remout; auto.
Qed.
