(* Proof infrastructure for the lifetime model: multisets of ids by counting, well-formed
   worlds (including the ledger's view of the log), the transition relation `trans` that
   every piece of model code is specified with, and the specifications of the primitives. *)
From Coq Require Import ZArith List Bool Arith Lia Permutation.
From Life Require Import LifeSpec LifeModel.
Import ListNotations.

(* ---------------------------------------------------------------------------------------- *)
(* counting                                                                                   *)
(* ---------------------------------------------------------------------------------------- *)
Notation cnt := (count_occ Nat.eq_dec).
Definition one (a x : nat) : nat := if Nat.eq_dec a x then 1 else 0.

Lemma cnt_nil x : cnt [] x = 0.
Proof. reflexivity. Qed.
Lemma cnt_cons a l x : cnt (a :: l) x = one a x + cnt l x.
Proof. unfold one. simpl. destruct (Nat.eq_dec a x); lia. Qed.
Lemma cnt_app l1 l2 x : cnt (l1 ++ l2) x = cnt l1 x + cnt l2 x.
Proof. apply count_occ_app. Qed.
Lemma cnt_rev l x : cnt (rev l) x = cnt l x.
Proof. apply count_occ_rev. Qed.
Lemma one_same a : one a a = 1.
Proof. unfold one. destruct (Nat.eq_dec a a); congruence. Qed.
Lemma one_diff a x : a <> x -> one a x = 0.
Proof. unfold one. destruct (Nat.eq_dec a x); congruence. Qed.
Lemma one_le a x : one a x <= 1.
Proof. unfold one. destruct (Nat.eq_dec a x); lia. Qed.
Lemma one_pos a x : 1 <= one a x -> a = x.
Proof. unfold one. destruct (Nat.eq_dec a x); [auto | lia]. Qed.
Lemma in_cnt l x : In x l <-> 1 <= cnt l x.
Proof. rewrite (count_occ_In Nat.eq_dec). lia. Qed.
Lemma notin_cnt l x : ~ In x l <-> cnt l x = 0.
Proof. apply count_occ_not_In. Qed.
Lemma nodup_cnt l : NoDup l <-> forall x, cnt l x <= 1.
Proof. apply NoDup_count_occ. Qed.

Global Opaque one.
#[global] Hint Rewrite cnt_nil cnt_cons cnt_app cnt_rev : cntdb.

(* multiset equality / inclusion of id lists *)
Definition meq (A B : list nat) : Prop := forall x, cnt A x = cnt B x.
Definition mle (A B : list nat) : Prop := forall x, cnt A x <= cnt B x.

(* finishes a goal `meq A B`, `mle A B` or `NoDup A` from hypotheses of these shapes *)
Ltac m_spec x :=
  repeat match goal with
         | H : meq _ _ |- _ => let H' := fresh "Hq" in pose proof (H x) as H'; clear H
         | H : mle _ _ |- _ => let H' := fresh "Hq" in pose proof (H x) as H'; clear H
         | H : NoDup _ |- _ => rewrite nodup_cnt in H; let H' := fresh "Hq" in pose proof (H x) as H'; clear H
         end.
Ltac m_bounds :=
  repeat match goal with
         | |- context [one ?a ?b] =>
             lazymatch goal with
             | _ : one a b <= 1 |- _ => fail
             | _ => pose proof (one_le a b)
             end
         | _ : context [one ?a ?b] |- _ =>
             lazymatch goal with
             | _ : one a b <= 1 |- _ => fail
             | _ => pose proof (one_le a b)
             end
         end.
Ltac msolve :=
  try (rewrite nodup_cnt);
  unfold meq, mle;
  let x := fresh "x" in
  intro x; m_spec x; autorewrite with cntdb in *; m_bounds; lia.

(* membership of a specific element from multiset facts *)
Ltac m_in a :=
  m_spec a; autorewrite with cntdb in *; rewrite ?one_same in *; m_bounds; lia.

Lemma meq_refl A : meq A A.
Proof. msolve. Qed.
Lemma meq_sym A B : meq A B -> meq B A.
Proof. intro H. msolve. Qed.
Lemma meq_in A B x : meq A B -> In x A -> In x B.
Proof. intros H I. apply in_cnt in I. apply in_cnt. specialize (H x). lia. Qed.
Lemma mle_in A B x : mle A B -> In x A -> In x B.
Proof. intros H I. apply in_cnt in I. apply in_cnt. specialize (H x). lia. Qed.
Lemma mle_nodup A B : mle A B -> NoDup B -> NoDup A.
Proof. intros H N. msolve. Qed.
Lemma meq_perm A B : meq A B <-> Permutation A B.
Proof. symmetry. apply Permutation_count_occ. Qed.

Lemma cnt_flat_map {A} (f : A -> list nat) (l : list A) (a : A) (i : nat) x :
  cnt (flat_map f (insert_at i a l)) x = cnt (f a) x + cnt (flat_map f l) x.
Proof.
  revert i; induction l as [|h t IH]; intros [|i]; cbn [insert_at flat_map]; autorewrite with cntdb; try lia.
  rewrite IH. lia.
Qed.

(* ---------------------------------------------------------------------------------------- *)
(* heaps                                                                                      *)
(* ---------------------------------------------------------------------------------------- *)
Definition dom (h : list (id * Z)) : list id := map fst h.

Lemma dom_cons i v h : dom ((i, v) :: h) = i :: dom h.
Proof. reflexivity. Qed.

Lemma lookup_none i h : lookup i h = None <-> ~ In i (dom h).
Proof.
  induction h as [|[j v] t IH]; cbn [lookup dom map fst In]; [tauto|].
  destruct (Nat.eqb_spec j i) as [->|N]; [split; [discriminate | intros H; exfalso; apply H; left; auto]|].
  rewrite IH. unfold dom. tauto.
Qed.
Lemma lookup_in i h : In i (dom h) -> exists v, lookup i h = Some v.
Proof.
  intros I. destruct (lookup i h) eqn:E; [eauto|]. apply lookup_none in E. tauto.
Qed.
Lemma lookup_some_in i h v : lookup i h = Some v -> In i (dom h).
Proof.
  intros E. destruct (in_dec Nat.eq_dec i (dom h)) as [I|N]; auto.
  apply lookup_none in N. congruence.
Qed.

Lemma memn_in i l : memn i l = true <-> In i l.
Proof.
  unfold memn. rewrite existsb_exists. split.
  - intros (x & I & E). apply Nat.eqb_eq in E. subst. auto.
  - intros I. exists i. split; auto. apply Nat.eqb_refl.
Qed.
Lemma memn_notin i l : memn i l = false <-> ~ In i l.
Proof. rewrite <- memn_in. destruct (memn i l); split; congruence. Qed.

Lemma dom_rm1 i h : dom (rm1 i h) = rmn i (dom h).
Proof.
  induction h as [|[j v] t IH]; cbn [rm1 rmn dom map fst]; auto.
  destruct (Nat.eqb j i); auto. cbn [map fst]. f_equal. exact IH.
Qed.
Lemma dom_setv i z h : dom (setv i z h) = dom h.
Proof.
  induction h as [|[j v] t IH]; cbn [setv dom map fst]; auto.
  destruct (Nat.eqb j i); cbn [map fst]; f_equal; auto.
Qed.
Lemma cnt_rmn i l x : In i l -> cnt (rmn i l) x + one i x = cnt l x.
Proof.
  induction l as [|c t IH]; cbn [rmn]; intros I; [destruct I|].
  destruct (Nat.eqb_spec c i) as [->|N]; autorewrite with cntdb; [lia|].
  destruct I as [E|I]; [congruence|]. specialize (IH I). lia.
Qed.
Lemma in_rmn i j l : In j (rmn i l) -> In j l.
Proof.
  induction l as [|c t IH]; cbn [rmn]; auto.
  destruct (Nat.eqb c i); cbn [In]; tauto.
Qed.
Lemma nodup_rmn i l : NoDup l -> NoDup (rmn i l).
Proof.
  induction 1 as [|c t N ND IH]; cbn [rmn]; [constructor|].
  destruct (Nat.eqb c i); auto. constructor; auto. intro I. apply N. eapply in_rmn; eauto.
Qed.

Lemma lookup_rm1_other i j h : j <> i -> lookup j (rm1 i h) = lookup j h.
Proof.
  intros N. induction h as [|[k v] t IH]; cbn [rm1 lookup]; auto.
  destruct (Nat.eqb_spec k i) as [->|N2].
  - destruct (Nat.eqb_spec i j); [congruence | auto].
  - cbn [lookup]. destruct (Nat.eqb k j); auto.
Qed.
Lemma lookup_setv_other i j z h : j <> i -> lookup j (setv i z h) = lookup j h.
Proof.
  intros N. induction h as [|[k v] t IH]; cbn [setv lookup]; auto.
  destruct (Nat.eqb_spec k i) as [->|N2]; cbn [lookup].
  - destruct (Nat.eqb_spec i j); [congruence | auto].
  - destruct (Nat.eqb k j); auto.
Qed.
Lemma lookup_setv_same i z h : In i (dom h) -> lookup i (setv i z h) = Some z.
Proof.
  induction h as [|[k v] t IH]; cbn [setv lookup dom map fst In]; [tauto|].
  intros I. destruct (Nat.eqb_spec k i) as [->|N2]; cbn [lookup].
  - rewrite Nat.eqb_refl. auto.
  - destruct (Nat.eqb_spec k i); [congruence|]. apply IH. destruct I; [congruence | auto].
Qed.

(* ---------------------------------------------------------------------------------------- *)
(* well-formed worlds                                                                         *)
(* ---------------------------------------------------------------------------------------- *)
Record wfw (w : world) : Prop := mkWf {
  wf_lt : forall i, In i (dom (heap w)) -> i < nxt w;
  wf_nd : NoDup (dom (heap w));
  wf_blt : forall b, In b (blks w) -> b < nblk w;
  wf_bnd : NoDup (blks w);
  wf_led : exists L, ledger_of (log w) = Some L /\ llive L = dom (heap w) /\ lblive L = blks w
                     /\ (forall i, In i (lever L) -> i < nxt w)
                     /\ (forall b, In b (lbever L) -> b < nblk w)
}.

Lemma wfw_w0 : wfw w0.
Proof.
  constructor; cbn; try tauto; try constructor.
  exists l0. cbn. tauto.
Qed.

Definition val_eq_dead w i : ~ In i (dom (heap w)) -> val w i = 0%Z.
Proof. intros N. unfold val. apply lookup_none in N. rewrite N. auto. Qed.

(* the world after constructing an instance with payload v and logging e *)
Definition w_mk (w : world) (v : Z) (e : event) : world :=
  mkW (S (nxt w)) ((nxt w, v) :: heap w) (nblk w) (blks w) (e :: log w).
Definition w_destroy (w : world) (i : id) : world :=
  mkW (nxt w) (rm1 i (heap w)) (nblk w) (blks w) (EDestroy i :: log w).
Definition w_assign (w : world) (d s : id) (v : Z) : world :=
  mkW (nxt w) (setv d v (heap w)) (nblk w) (blks w) (EAssign d s :: log w).
Definition w_balloc (w : world) : world :=
  mkW (nxt w) (heap w) (S (nblk w)) (nblk w :: blks w) (EAlloc (nblk w) :: log w).
Definition w_bfree (w : world) (b : blk) : world :=
  mkW (nxt w) (heap w) (nblk w) (rmn b (blks w)) (EFree b :: log w).

Definition constructs (e : event) (i : id) (w : world) : Prop :=
  forall L, llive L = dom (heap w) ->
            ledger_step L e = if memn i (lever L) then None
                              else Some (mkL (i :: lever L) (i :: llive L) (lbever L) (lblive L)).

Lemma wfw_mk w v e : wfw w -> constructs e (nxt w) w -> wfw (w_mk w v e).
Proof.
  intros [Hlt Hnd Hblt Hbnd (L & HL & Hl & Hb & He & Hbe)] Hc.
  constructor; cbn [w_mk nxt heap nblk blks log]; rewrite ?dom_cons; auto.
  - intros i [<-|I]; [lia|]. apply Hlt in I. lia.
  - constructor; auto. intro I. apply Hlt in I. lia.
  - cbn [ledger_of]. rewrite HL. rewrite (Hc L Hl).
    destruct (memn (nxt w) (lever L)) eqn:M.
    + apply memn_in in M. apply He in M. lia.
    + eexists. split; [reflexivity|]. cbn. repeat split; auto.
      * f_equal. auto.
      * intros i [<-|I]; [lia|]. apply He in I. lia.
Qed.

Lemma wfw_destroy w i : wfw w -> In i (dom (heap w)) -> wfw (w_destroy w i).
Proof.
  intros [Hlt Hnd Hblt Hbnd (L & HL & Hl & Hb & He & Hbe)] I.
  constructor; cbn [w_destroy nxt heap nblk blks log]; auto.
  - intros j J. rewrite dom_rm1 in J. apply in_rmn in J. auto.
  - rewrite dom_rm1. apply nodup_rmn. auto.
  - cbn [ledger_of]. rewrite HL. cbn [ledger_step]. rewrite Hl.
    replace (memn i (dom (heap w))) with true by (symmetry; apply memn_in; auto).
    eexists. split; [reflexivity|]. cbn. rewrite dom_rm1. repeat split; auto.
Qed.

Lemma wfw_assign w d s v : wfw w -> In d (dom (heap w)) -> In s (dom (heap w)) -> wfw (w_assign w d s v).
Proof.
  intros [Hlt Hnd Hblt Hbnd (L & HL & Hl & Hb & He & Hbe)] Id Is.
  constructor; cbn [w_assign nxt heap nblk blks log]; rewrite ?dom_setv; auto.
  cbn [ledger_of]. rewrite HL. cbn [ledger_step]. rewrite Hl.
  replace (memn s (dom (heap w))) with true by (symmetry; apply memn_in; auto).
  replace (memn d (dom (heap w))) with true by (symmetry; apply memn_in; auto).
  cbn. exists L. repeat split; auto.
Qed.

Lemma wfw_balloc w : wfw w -> wfw (w_balloc w).
Proof.
  intros [Hlt Hnd Hblt Hbnd (L & HL & Hl & Hb & He & Hbe)].
  constructor; cbn [w_balloc nxt heap nblk blks log]; auto.
  - intros b [<-|I]; [lia|]. apply Hblt in I. lia.
  - constructor; auto. intro I. apply Hblt in I. lia.
  - cbn [ledger_of]. rewrite HL. cbn [ledger_step].
    destruct (memn (nblk w) (lbever L)) eqn:M.
    + apply memn_in in M. apply Hbe in M. lia.
    + eexists. split; [reflexivity|]. cbn. repeat split; auto.
      * f_equal. auto.
      * intros b [<-|I]; [lia|]. apply Hbe in I. lia.
Qed.

Lemma wfw_bfree w b : wfw w -> In b (blks w) -> wfw (w_bfree w b).
Proof.
  intros [Hlt Hnd Hblt Hbnd (L & HL & Hl & Hb & He & Hbe)] I.
  constructor; cbn [w_bfree nxt heap nblk blks log]; auto.
  - intros j J. apply in_rmn in J. auto.
  - apply nodup_rmn. auto.
  - cbn [ledger_of]. rewrite HL. cbn [ledger_step]. rewrite Hb.
    replace (memn b (blks w)) with true by (symmetry; apply memn_in; auto).
    eexists. split; [reflexivity|]. cbn. repeat split; auto.
Qed.

(* ---------------------------------------------------------------------------------------- *)
(* transitions                                                                                *)
(* ---------------------------------------------------------------------------------------- *)
(* Between w and w' the instances X were replaced by X' and the allocations B by B';
   every other instance, dead or alive, kept its state. *)
Record trans (w w' : world) (X X' : list id) (B B' : list blk) : Prop := mkT {
  t_wf : wfw w';
  t_ids : meq (dom (heap w') ++ X) (X' ++ dom (heap w));
  t_blk : meq (blks w' ++ B) (B' ++ blks w);
  t_val : forall i, ~ In i X -> ~ In i X' -> val w' i = val w i;
  t_nxt : nxt w <= nxt w';
  t_nblk : nblk w <= nblk w'
}.

(* X is part of the live instances *)
Definition holds (w : world) (X : list id) : Prop := mle X (dom (heap w)).
Definition holdsb (w : world) (B : list blk) : Prop := mle B (blks w).

Lemma holds_in w X i : holds w X -> In i X -> In i (dom (heap w)).
Proof. intros H I. eapply mle_in; eauto. Qed.
Lemma holds_nodup w X : wfw w -> holds w X -> NoDup X.
Proof. intros W H. eapply mle_nodup; eauto. apply wf_nd; auto. Qed.
Lemma holds_lt w X i : wfw w -> holds w X -> In i X -> i < nxt w.
Proof. intros W H I. apply wf_lt; auto. eapply holds_in; eauto. Qed.

Lemma trans_refl w X B : wfw w -> trans w w X X B B.
Proof. intros W. constructor; auto; try msolve. Qed.

Lemma trans_holds w w' X X' B B' : trans w w' X X' B B' -> holds w X -> holds w' X'.
Proof. intros [_ Hi _ _ _ _] H. unfold holds in *. msolve. Qed.
Lemma trans_holdsb w w' X X' B B' : trans w w' X X' B B' -> holdsb w B -> holdsb w' B'.
Proof. intros [_ _ Hb _ _ _] H. unfold holdsb in *. msolve. Qed.
(* what is not in the footprint stays live *)
Lemma trans_holds_frame w w' X X' B B' F :
  trans w w' X X' B B' -> holds w (X ++ F) -> holds w' (X' ++ F).
Proof. intros [_ Hi _ _ _ _] H. unfold holds in *. msolve. Qed.
Lemma trans_holdsb_frame w w' X X' B B' F :
  trans w w' X X' B B' -> holdsb w (B ++ F) -> holdsb w' (B' ++ F).
Proof. intros [_ _ Hb _ _ _] H. unfold holdsb in *. msolve. Qed.

Lemma trans_trans w w1 w2 X X1 X2 B B1 B2 :
  trans w w1 X X1 B B1 -> trans w1 w2 X1 X2 B1 B2 -> trans w w2 X X2 B B2.
Proof.
  intros [W1 I1 B1' V1 N1 NB1] [W2 I2 B2' V2 N2 NB2].
  constructor; auto; try lia.
  - msolve.
  - msolve.
  - intros i NX NX2.
    destruct (in_dec Nat.eq_dec i X1) as [I|NI].
    + (* created by the first part and destroyed by the second: dead before and after *)
      assert (D1 : ~ In i (dom (heap w))).
      { apply notin_cnt. pose proof (wf_nd _ W1) as ND. rewrite nodup_cnt in ND.
        specialize (ND i). specialize (I1 i). apply in_cnt in I. apply notin_cnt in NX.
        autorewrite with cntdb in *. lia. }
      assert (D2 : ~ In i (dom (heap w2))).
      { apply notin_cnt. pose proof (wf_nd _ W1) as ND. rewrite nodup_cnt in ND.
        specialize (ND i). specialize (I2 i). apply in_cnt in I. apply notin_cnt in NX2.
        autorewrite with cntdb in *. lia. }
      rewrite !val_eq_dead; auto.
    + rewrite V2, V1; auto.
Qed.

Lemma trans_frame w w' X X' B B' F G :
  trans w w' X X' B B' -> trans w w' (X ++ F) (X' ++ F) (B ++ G) (B' ++ G).
Proof.
  intros [W I Bq V N NB]. constructor; auto; try msolve.
  intros i N1 N2. apply V; rewrite in_app_iff in *; tauto.
Qed.

Lemma trans_perm w w' X X' B B' Y Y' C C' :
  trans w w' X X' B B' -> meq X Y -> meq X' Y' -> meq B C -> meq B' C' -> trans w w' Y Y' C C'.
Proof.
  intros [W I Bq V N NB] E1 E2 E3 E4. constructor; auto; try msolve.
  intros i N1 N2. apply V; intro J.
  - apply N1. eapply meq_in; eauto.
  - apply N2. eapply meq_in; eauto.
Qed.

(* the second part works on the sub-footprint Y of X1 *)
Lemma trans_step w w1 w2 X X1 B B1 Y Y2 C C2 F G :
  trans w w1 X X1 B B1 -> trans w1 w2 Y Y2 C C2 ->
  meq X1 (Y ++ F) -> meq B1 (C ++ G) ->
  trans w w2 X (Y2 ++ F) B (C2 ++ G).
Proof.
  intros T1 T2 E1 E2.
  eapply trans_trans.
  - eapply trans_perm; [exact T1 | apply meq_refl | exact E1 | apply meq_refl | exact E2].
  - apply trans_frame. exact T2.
Qed.

(* sequencing with frames: the first part leaves F alone, the second part leaves F' alone *)
Lemma trans_seq F F' G G' w w1 w2 X X1 B B1 Y Y2 C C2 X0 X0' B0 B0' :
  trans w w1 X X1 B B1 -> trans w1 w2 Y Y2 C C2 ->
  meq (X1 ++ F) (Y ++ F') -> meq (B1 ++ G) (C ++ G') ->
  meq (X ++ F) X0 -> meq (Y2 ++ F') X0' -> meq (B ++ G) B0 -> meq (C2 ++ G') B0' ->
  trans w w2 X0 X0' B0 B0'.
Proof.
  intros T1 T2 E1 E2 E3 E4 E5 E6.
  eapply trans_perm; [eapply trans_trans|exact E3|exact E4|exact E5|exact E6].
  - eapply trans_perm; [apply (trans_frame _ _ _ _ _ _ F G T1) | apply meq_refl | exact E1 | apply meq_refl | exact E2].
  - apply trans_frame. exact T2.
Qed.

(* ---------------------------------------------------------------------------------------- *)
(* results                                                                                    *)
(* ---------------------------------------------------------------------------------------- *)
Lemma bind_ok {A B} (m : M A) (f : A -> M B) w a w1 :
  m w = Ok (a, w1) -> bind m f w = f a w1.
Proof. intros E. unfold bind. rewrite E. auto. Qed.

Lemma val_mk w v e i : val (w_mk w v e) i = if Nat.eqb (nxt w) i then v else val w i.
Proof. unfold val. cbn [w_mk heap lookup]. destruct (Nat.eqb (nxt w) i); auto. Qed.

(* ---- primitives ---- *)
Lemma rd_ok w i : In i (dom (heap w)) -> rd i w = Ok (val w i, w).
Proof.
  intros I. unfold rd, val. destruct (lookup_in _ _ I) as (v & E). rewrite E. auto.
Qed.

Lemma mk_trans w v e : wfw w -> constructs e (nxt w) w ->
  trans w (w_mk w v e) [] [nxt w] [] [] /\ val (w_mk w v e) (nxt w) = v.
Proof.
  intros W C. split.
  - constructor; cbn [w_mk heap blks nxt nblk]; rewrite ?dom_cons; try lia.
    + apply wfw_mk; auto.
    + msolve.
    + msolve.
    + intros i _ N. rewrite val_mk. destruct (Nat.eqb_spec (nxt w) i); auto. exfalso. apply N. left. auto.
  - rewrite val_mk, Nat.eqb_refl. auto.
Qed.

Lemma mk_def_ok w : wfw w ->
  mk_def w = Ok (nxt w, w_mk w 0 (EDef (nxt w))) /\
  trans w (w_mk w 0 (EDef (nxt w))) [] [nxt w] [] [] /\ val (w_mk w 0 (EDef (nxt w))) (nxt w) = 0%Z.
Proof.
  intros W. split; [reflexivity|]. apply mk_trans; auto. intros L _. reflexivity.
Qed.
Lemma mk_val_ok w v : wfw w ->
  mk_val v w = Ok (nxt w, w_mk w v (EVal (nxt w) v)) /\
  trans w (w_mk w v (EVal (nxt w) v)) [] [nxt w] [] [] /\ val (w_mk w v (EVal (nxt w) v)) (nxt w) = v.
Proof.
  intros W. split; [reflexivity|]. apply mk_trans; auto. intros L _. reflexivity.
Qed.
Lemma mk_copy_ok w s : wfw w -> In s (dom (heap w)) ->
  let w' := w_mk w (val w s) (ECopy (nxt w) s) in
  mk_copy s w = Ok (nxt w, w') /\ trans w w' [] [nxt w] [] [] /\ val w' (nxt w) = val w s.
Proof.
  intros W I w'. split.
  - unfold mk_copy. erewrite bind_ok by (apply rd_ok; auto). reflexivity.
  - apply mk_trans; auto. intros L E. cbn [ledger_step]. rewrite E.
    replace (memn s (dom (heap w))) with true by (symmetry; apply memn_in; auto). reflexivity.
Qed.

Lemma destroy_ok w i : wfw w -> In i (dom (heap w)) ->
  destroy i w = Ok (tt, w_destroy w i) /\ trans w (w_destroy w i) [i] [] [] [].
Proof.
  intros W I. split.
  - unfold destroy. destruct (lookup_in _ _ I) as (v & E). rewrite E. reflexivity.
  - constructor; cbn [w_destroy heap blks nxt nblk]; try lia.
    + apply wfw_destroy; auto.
    + rewrite dom_rm1. intro x. pose proof (cnt_rmn i (dom (heap w)) x I). autorewrite with cntdb. lia.
    + msolve.
    + intros j N _. unfold val. cbn [w_destroy heap]. rewrite lookup_rm1_other; auto.
      intro E. apply N. left. auto.
Qed.

Lemma assign_ok w d s : wfw w -> In d (dom (heap w)) -> In s (dom (heap w)) ->
  let w' := w_assign w d s (val w s) in
  assign d s w = Ok (tt, w') /\ trans w w' [d] [d] [] [] /\ val w' d = val w s.
Proof.
  intros W Id Is w'. split; [|split].
  - unfold assign, val in *. destruct (lookup_in _ _ Id) as (v & E). destruct (lookup_in _ _ Is) as (v' & E').
    subst w'. rewrite E, E'. reflexivity.
  - constructor; subst w'; cbn [w_assign heap blks nxt nblk]; try lia.
    + apply wfw_assign; auto.
    + rewrite dom_setv. msolve.
    + msolve.
    + intros j N _. unfold val at 1. cbn [w_assign heap]. rewrite lookup_setv_other; auto.
      intro E. apply N. left. auto.
  - subst w'. unfold val at 1. cbn [w_assign heap]. rewrite lookup_setv_same; auto.
Qed.

Lemma balloc_ok w : wfw w ->
  balloc w = Ok (nblk w, w_balloc w) /\ trans w (w_balloc w) [] [] [] [nblk w].
Proof.
  intros W. split; [reflexivity|].
  constructor; cbn [w_balloc heap blks nxt nblk]; try lia; try msolve.
  - apply wfw_balloc; auto.
  - auto.
Qed.

Lemma bfree_ok w b : wfw w -> In b (blks w) ->
  bfree b w = Ok (tt, w_bfree w b) /\ trans w (w_bfree w b) [] [] [b] [].
Proof.
  intros W I. split.
  - unfold bfree. replace (memn b (blks w)) with true by (symmetry; apply memn_in; auto). reflexivity.
  - constructor; cbn [w_bfree heap blks nxt nblk]; try lia; try msolve.
    + apply wfw_bfree; auto.
    + intro x. pose proof (cnt_rmn b (blks w) x I). autorewrite with cntdb. lia.
    + auto.
Qed.
