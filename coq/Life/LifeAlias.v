(* Aliased arguments: the spec evaluates references to values before the operation; this file
   shows that this is the same as making an explicit copy first (pure, about the spec), and
   lifts it to the model through the refinement. *)
From Coq Require Import ZArith List Bool Arith Lia Permutation.
From Life Require Import LifeSpec LifeModel LifeBase LifeLoops LifeArray LifeNode LifeSpecProofs LifeStep LifeMain.
Import ListNotations.

Lemma sarg_key_dealias s a : sarg_key s (dealias_key s a) = sarg_key s a.
Proof.
  destruct a as [z|y i|y i]; cbn [dealias_key]; auto.
  destruct (sarg_key s (AKey y i)) eqn:E; [reflexivity | exact E].
Qed.
Lemma sarg_val_dealias s a : sarg_val s (dealias_val s a) = sarg_val s a.
Proof.
  destruct a as [z|y i|y i]; cbn [dealias_val]; auto.
  destruct (sarg_val s (AValOf y i)) eqn:E; [reflexivity | exact E].
Qed.

Lemma sarg_vals_dealias s args : sarg_vals s (map (dealias_val s) args) = sarg_vals s args.
Proof.
  induction args as [|a r IH]; cbn [map sarg_vals]; [reflexivity|]. rewrite sarg_val_dealias, IH. reflexivity.
Qed.

(* ---- set_at algebra ---- *)
Lemma set_set_same {A} (l : list A) x u v : set_at x v (set_at x u l) = set_at x v l.
Proof. revert x; induction l as [|h t IH]; intros [|x]; cbn [set_at]; auto. f_equal. apply IH. Qed.
Lemma set_set_comm {A} (l : list A) x y u v : x <> y -> set_at x v (set_at y u l) = set_at y u (set_at x v l).
Proof.
  revert x y; induction l as [|h t IH]; intros [|x] [|y] NE; cbn [set_at]; auto; try lia.
  f_equal. apply IH. lia.
Qed.
Lemma sget_nth s x v : sget s x = Some v -> nth_error s x = Some (Some v).
Proof. unfold sget. destruct (nth_error s x) as [[w|]|]; intros E; inversion E; reflexivity. Qed.
Lemma sdead_nth s t : sdead s t = true -> nth_error s t = Some None.
Proof. unfold sdead. destruct (nth_error s t) as [[w|]|]; intros E; try discriminate; reflexivity. Qed.
Lemma sdead_sget s t : sdead s t = true -> sget s t = None.
Proof. intros D. unfold sget. rewrite (sdead_nth _ _ D). reflexivity. Qed.

(* copy into the dead scratch variable, update x, drop the scratch variable *)
Lemma via_scratch s t x A B : sdead s t = true -> x <> t ->
  sset (sset (sset s t A) x B) t None = sset s x B.
Proof.
  intros D NE. unfold sset.
  rewrite (set_set_comm _ t x B None) by congruence. rewrite set_set_same.
  rewrite (set_at_same s t None (sdead_nth _ _ D)). reflexivity.
Qed.
Lemma scratch_undo s t A : sdead s t = true -> sset (sset s t A) t None = s.
Proof. intros D. unfold sset. rewrite set_set_same. apply set_at_same. apply sdead_nth. exact D. Qed.

Lemma sget_scratch s t A z : z <> t -> sget (sset s t A) z = sget s z.
Proof. intros NE. apply sget_sset_other. congruence. Qed.
Lemma sget_scratch_t s t A : sdead s t = true -> sget (sset s t A) t = A.
Proof. intros D. apply sget_sset_same. apply nth_error_Some. rewrite (sdead_nth _ _ D). discriminate. Qed.

Lemma can_addall_copyable k : can_addall k = true -> copyable k = true.
Proof. destruct k; cbn; congruence. Qed.
Lemma can_remall_copyable k : can_remall k = true -> copyable k = true.
Proof. destruct k; cbn; congruence. Qed.

Lemma dealias_assign_self s t x : sdead s t = true -> x <> t ->
  spec_run s [OCopyNew t x; OAssign x t; ODel t] = snd (spec_step s (OAssign x x)).
Proof.
  intros D NE. cbn [spec_run spec_step].
  destruct (sget s x) as [[k l]|] eqn:Gx; cbn [snd].
  - rewrite D. cbn [andb]. rewrite kind_eqb_refl. cbn [andb].
    destruct (copyable k) eqn:CP; cbn [snd].
    + rewrite sget_scratch by auto. rewrite Gx, (sget_scratch_t s t _ D), kind_eqb_refl, CP. cbn [andb snd].
      rewrite (sget_sset_other _ x t) by auto. rewrite (sget_scratch_t s t _ D). cbn [snd].
      apply via_scratch; auto.
    + rewrite Gx, (sdead_sget _ _ D). cbn [snd]. rewrite (sdead_sget _ _ D). reflexivity.
  - rewrite Gx. cbn [snd]. rewrite (sdead_sget _ _ D). reflexivity.
Qed.

Lemma dealias_addall_self s t x p : sdead s t = true -> x <> t ->
  spec_run s [OCopyNew t x; OAddAll x p t; ODel t] = snd (spec_step s (OAddAll x p x)).
Proof.
  intros D NE. cbn [spec_run spec_step].
  destruct (sget s x) as [[k l]|] eqn:Gx; cbn [snd].
  - rewrite D. cbn [andb]. rewrite kind_eqb_refl. cbn [andb].
    destruct (copyable k) eqn:CP; cbn [snd].
    + rewrite sget_scratch by auto. rewrite Gx, (sget_scratch_t s t _ D), kind_eqb_refl. cbn [andb].
      destruct (can_addall k) eqn:CA; cbn [snd].
      * rewrite (sget_sset_other _ x t) by auto. rewrite (sget_scratch_t s t _ D). cbn [snd].
        apply via_scratch; auto.
      * rewrite (sget_scratch_t s t _ D). cbn [snd]. apply scratch_undo; auto.
    + rewrite Gx, (sdead_sget _ _ D). cbn [snd]. rewrite (sdead_sget _ _ D). cbn [snd].
      destruct (can_addall k) eqn:CA; [apply can_addall_copyable in CA; congruence | reflexivity].
  - rewrite Gx. cbn [snd]. rewrite (sdead_sget _ _ D). reflexivity.
Qed.

Lemma dealias_remall_self s t x : sdead s t = true -> x <> t ->
  spec_run s [OCopyNew t x; ORemAll x t; ODel t] = snd (spec_step s (ORemAll x x)).
Proof.
  intros D NE. cbn [spec_run spec_step].
  destruct (sget s x) as [[k l]|] eqn:Gx; cbn [snd].
  - rewrite D. cbn [andb]. rewrite kind_eqb_refl. cbn [andb].
    destruct (copyable k) eqn:CP; cbn [snd].
    + rewrite sget_scratch by auto. rewrite Gx, (sget_scratch_t s t _ D), kind_eqb_refl. cbn [andb].
      destruct (can_remall k) eqn:CA; cbn [snd].
      * rewrite (sget_sset_other _ x t) by auto. rewrite (sget_scratch_t s t _ D). cbn [snd].
        apply via_scratch; auto.
      * rewrite (sget_scratch_t s t _ D). cbn [snd]. apply scratch_undo; auto.
    + rewrite Gx, (sdead_sget _ _ D). cbn [snd]. rewrite (sdead_sget _ _ D). cbn [snd].
      destruct (can_remall k) eqn:CA; [apply can_remall_copyable in CA; congruence | reflexivity].
  - rewrite Gx. cbn [snd]. rewrite (sdead_sget _ _ D). reflexivity.
Qed.

Lemma dealias_appendrange_self s t x i n : sdead s t = true -> x <> t ->
  spec_run s [OCopyNew t x; OAppendRange x t i n; ODel t] = snd (spec_step s (OAppendRange x x i n)).
Proof.
  intros D NE. cbn [spec_run spec_step].
  destruct (sget s x) as [[k l]|] eqn:Gx; cbn [snd].
  - rewrite D. cbn [andb].
    destruct (copyable k) eqn:CP; cbn [snd].
    + rewrite sget_scratch by auto. rewrite Gx, (sget_scratch_t s t _ D).
      destruct (is_array k && is_array k && (i + n <=? length l)%nat) eqn:CA; cbn [snd].
      * rewrite (sget_sset_other _ x t) by auto. rewrite (sget_scratch_t s t _ D). cbn [snd].
        apply via_scratch; auto.
      * rewrite (sget_scratch_t s t _ D). cbn [snd]. apply scratch_undo; auto.
    + rewrite Gx, (sdead_sget _ _ D). cbn [snd]. rewrite (sdead_sget _ _ D). cbn [snd].
      destruct k; cbn in CP; try discriminate; reflexivity.
  - rewrite Gx. cbn [snd]. rewrite (sdead_sget _ _ D). reflexivity.
Qed.

(* the spec gives an operation with aliased arguments the meaning of its de-aliased form *)
Theorem dealias_spec s t o : sdead s t = true -> ~ In t (mentions o) ->
  spec_run s (dealias s t o) = snd (spec_step s o).
Proof.
  intros D NM. destruct o; cbn [dealias]; try reflexivity.
  - (* OAssign *) destruct (Nat.eqb_spec x y) as [->|NE]; [|reflexivity].
    apply dealias_assign_self; auto. intro Q. apply NM. cbn [mentions]. left. auto.
  - (* OIns *) cbn [spec_run spec_step]. rewrite sarg_key_dealias, sarg_val_dealias. reflexivity.
  - (* ORemKey *) destruct (sget s x) as [[k l]|] eqn:G; [|reflexivity].
    cbn [spec_run spec_step]. rewrite G.
    destruct (has_key k); [rewrite sarg_key_dealias | rewrite sarg_val_dealias]; reflexivity.
  - (* OAddAll *) destruct (Nat.eqb_spec x y) as [->|NE]; [|reflexivity].
    apply dealias_addall_self; auto. intro Q. apply NM. cbn [mentions]. left. auto.
  - (* ORemAll *) destruct (Nat.eqb_spec x y) as [->|NE]; [|reflexivity].
    apply dealias_remall_self; auto. intro Q. apply NM. cbn [mentions]. left. auto.
  - (* OResize *) cbn [spec_run spec_step]. rewrite sarg_val_dealias. reflexivity.
  - (* OAppendRange *) destruct (Nat.eqb_spec x y) as [->|NE]; [|reflexivity].
    apply dealias_appendrange_self; auto. intro Q. apply NM. cbn [mentions]. left. auto.
  - (* OFind *) destruct (sget s x) as [[k l]|] eqn:G; [|reflexivity].
    cbn [spec_run spec_step]. rewrite G.
    destruct (has_key k); [rewrite sarg_key_dealias | rewrite sarg_val_dealias]; reflexivity.
  - (* OEmplace *) cbn [spec_run spec_step]. rewrite sarg_vals_dealias, map_length. reflexivity.
  - (* OInsHint *) cbn [spec_run spec_step]. rewrite sarg_key_dealias, sarg_val_dealias. reflexivity.
  - (* OInsVia *) cbn [spec_run spec_step]. rewrite sarg_key_dealias, sarg_val_dealias. reflexivity.
  - (* OInsTie *) cbn [spec_run spec_step]. rewrite sarg_key_dealias, sarg_val_dealias. reflexivity.
Qed.

(* ---- histories ---- *)
Lemma spec_run_app a : forall s b, spec_run s (a ++ b) = spec_run (spec_run s a) b.
Proof. induction a as [|o r IH]; intros s b; cbn [app spec_run]; auto. Qed.

Lemma writes_mentions o z : In z (writes o) -> In z (mentions o).
Proof. destruct o; cbn [writes mentions In]; tauto. Qed.

Lemma spec_step_nth s o z : ~ In z (writes o) -> nth_error (snd (spec_step s o)) z = nth_error s z.
Proof.
  intros N. destruct o; cbn [spec_step writes In] in *; break_match; cbn [snd]; auto;
    unfold sset; rewrite ?nth_error_set_at_other by tauto; auto.
Qed.

Lemma sdead_step s o t : sdead s t = true -> ~ In t (mentions o) -> sdead (snd (spec_step s o)) t = true.
Proof.
  intros D NM. unfold sdead in *. rewrite spec_step_nth; auto. intro W. apply NM. apply writes_mentions. exact W.
Qed.

Theorem dealias_run_spec ops : forall s t, sdead s t = true -> (forall o, In o ops -> ~ In t (mentions o)) ->
  spec_run s (dealias_run s t ops) = spec_run s ops.
Proof.
  induction ops as [|o r IH]; intros s t D NM; cbn [dealias_run spec_run]; auto.
  rewrite spec_run_app, dealias_spec; [|exact D|apply NM; left; auto].
  apply IH; [apply sdead_step; [exact D | apply NM; left; auto] | intros o' I; apply NM; right; auto].
Qed.

(* ---- the model ---- *)
Lemma alias_step_proof nv ops st o t :
  run (init nv) ops = Ok st -> isdead (svars st) t = true -> ~ In t (mentions o) ->
  exists b st1 st2, step st o = Ok (b, st1) /\ run st (dealias (abs st) t o) = Ok st2 /\ abs st2 = abs st1.
Proof.
  intros E D NM.
  destruct (run_init_ok nv ops) as (st0 & E0 & IV & SW & _). rewrite E in E0. inversion E0. subst st0.
  destruct (step_ok st o IV SW) as (b & st1 & E1 & _ & S1).
  destruct (run_ok (dealias (abs st) t o) st IV SW) as (st2 & E2 & _ & _ & A2).
  exists b, st1, st2. split; [exact E1|]. split; [exact E2|].
  rewrite A2, dealias_spec; [rewrite S1; reflexivity | rewrite sdead_abs; exact D | exact NM].
Qed.

Lemma sdead_sinit nv : forall t, (t < nv)%nat -> sdead (sinit nv) t = true.
Proof.
  unfold sdead, sinit. induction nv as [|n IH]; intros [|t] L; cbn [repeat nth_error]; try lia; auto.
  apply IH. lia.
Qed.

Lemma alias_args_as_if_copied_proof nv ops t :
  (t < nv)%nat -> (forall o, In o ops -> ~ In t (mentions o)) ->
  exists st1 st2, run (init nv) ops = Ok st1 /\ run (init nv) (dealias_run (sinit nv) t ops) = Ok st2 /\
                  abs st2 = abs st1.
Proof.
  intros L NM.
  destruct (run_init_ok nv ops) as (st1 & E1 & _ & _ & A1).
  destruct (run_init_ok nv (dealias_run (sinit nv) t ops)) as (st2 & E2 & _ & _ & A2).
  exists st1, st2. split; [exact E1|]. split; [exact E2|].
  rewrite A1, A2. apply dealias_run_spec; [apply sdead_sinit; exact L | exact NM].
Qed.
