(* The number of live instances is a function of the contents: per stored item exactly one
   instance per field (key, value), plus the instances of the embedded end items.  Proved
   separately from the ownership invariant: the end-item instances of a container never change. *)
From Coq Require Import ZArith List Bool Arith Lia Permutation.
From Life Require Import LifeSpec LifeModel LifeBase LifeLoops LifeArray LifeNode LifeSpecProofs LifeHint LifeStep LifeMain.
Import ListNotations.

Lemma bind_inv {A B} (m : M A) (f : A -> M B) w r : bind m f w = Ok r -> exists a w1, m w = Ok (a, w1) /\ f a w1 = Ok r.
Proof. unfold bind. destruct (m w) as [[a w1]|e]; [eauto | discriminate]. Qed.
Lemma ret_inv {A} (a : A) w r : ret a w = Ok r -> r = (a, w).
Proof. unfold ret. intros E. inversion E. reflexivity. Qed.

Ltac minv :=
  repeat match goal with
         | H : bind _ _ _ = Ok _ |- _ => apply bind_inv in H; destruct H as (? & ? & ? & H)
         | H : ret _ _ = Ok _ |- _ => apply ret_inv in H; inversion H; subst; clear H
         | H : lift _ _ _ = Ok _ |- _ => unfold lift in H
         end.

(* same end item, same kind *)
Definition ssame (c c' : nc) : Prop := csent c' = csent c /\ ckind c' = ckind c.
Lemma ssame_refl c : ssame c c.
Proof. split; reflexivity. Qed.
Lemma ssame_trans a b c : ssame a b -> ssame b c -> ssame a c.
Proof. intros [A1 A2] [B1 B2]. split; congruence. Qed.

Lemma alloc_item_sent c w c' w' : nc_alloc_item c w = Ok (c', w') -> ssame c c'.
Proof. unfold nc_alloc_item. destruct (cfree c); intros E; minv; split; reflexivity. Qed.
Lemma ensure_table_sent c w c' w' : nc_ensure_table c w = Ok (c', w') -> ssame c c'.
Proof.
  unfold nc_ensure_table. destruct (has_table (ckind c)); [destruct (ctable c)|]; intros E; minv; split; reflexivity.
Qed.
Lemma fresh_sent c p kr v w c' w' : nc_fresh c p kr v w = Ok (c', w') -> ssame c c'.
Proof.
  unfold nc_fresh. intros E. minv.
  match goal with H1 : nc_ensure_table _ _ = _, H2 : nc_alloc_item _ _ = _ |- _ =>
    apply ensure_table_sent in H1; apply alloc_item_sent in H2; destruct H1, H2 end.
  split; cbn [set_items csent ckind]; congruence.
Qed.
Lemma insert_sent c p kr v w c' w' : nc_insert c p kr v w = Ok (c', w') -> ssame c c'.
Proof.
  unfold nc_insert. destruct (has_key (ckind c)).
  - intros E. minv.
    match goal with H : (match ?d with Some _ => _ | None => _ end) _ = Ok _ |- _ => destruct d end.
    + destruct (dup_assign (ckind c)).
      * match goal with H : (match ?d with Some _ => _ | None => _ end) _ = Ok _ |- _ => destruct d end;
          [destruct v|]; minv; apply ssame_refl.
      * minv. apply ssame_refl.
    + eapply fresh_sent; eauto.
  - apply fresh_sent.
Qed.
Lemma remove_at_sent c j w c' w' : nc_remove_at c j w = Ok (c', w') -> ssame c c'.
Proof. unfold nc_remove_at. destruct (nth_error (citems c) j); intros E; minv; split; reflexivity. Qed.
Lemma remove_key_sent c kr w c' w' : nc_remove_key c kr w = Ok (c', w') -> ssame c c'.
Proof.
  unfold nc_remove_key. intros E. minv.
  match goal with H : (match ?d with Some _ => _ | None => _ end) _ = Ok _ |- _ => destruct d end.
  - eapply remove_at_sent; eauto.
  - minv. apply ssame_refl.
Qed.
Lemma clear_sent c w c' w' : nc_clear c w = Ok (c', w') -> ssame c c'.
Proof. unfold nc_clear. intros E. minv. split; reflexivity. Qed.
Lemma insert_all_sent src : forall c p w c' w', nc_insert_all c p src w = Ok (c', w') -> ssame c c'.
Proof.
  induction src as [|n r IH]; intros c p w c' w' E; cbn [nc_insert_all] in E; minv; [apply ssame_refl|].
  match goal with H : nc_insert _ _ _ _ _ = _ |- _ => apply insert_sent in H end.
  eapply ssame_trans; eauto.
Qed.
Lemma remove_keys_sent src : forall c w c' w', nc_remove_keys c src w = Ok (c', w') -> ssame c c'.
Proof.
  induction src as [|n r IH]; intros c w c' w' E; cbn [nc_remove_keys] in E; minv; [apply ssame_refl|].
  match goal with H : nc_remove_key _ _ _ = _ |- _ => apply remove_key_sent in H end.
  eapply ssame_trans; eauto.
Qed.
Lemma assign_sent c o w c' w' : nc_assign c o w = Ok (c', w') -> ssame c c'.
Proof.
  unfold nc_assign. intros E. minv.
  match goal with H1 : nc_clear _ _ = _, H2 : nc_insert_all _ _ _ _ = _ |- _ =>
    apply clear_sent in H1; apply insert_all_sent in H2 end.
  eapply ssame_trans; eauto.
Qed.
Lemma add_all_sent c p o w c' w' : nc_add_all c p o w = Ok (c', w') -> ssame c c'.
Proof.
  unfold nc_add_all. destruct o as [y|].
  - apply insert_all_sent.
  - destruct (ckind c) eqn:K; try apply insert_all_sent.
    destruct (citems c); intros E; minv; [apply ssame_refl|].
    match goal with H : nc_insert_all _ _ _ _ = _ |- _ => apply insert_all_sent in H; exact H end.
Qed.
Lemma with_arg_inv {C} r (body : id -> M C) w c' w' : with_arg r body w = Ok (c', w') ->
  exists i w1 w2, body i w1 = Ok (c', w2).
Proof. destruct r; cbn [with_arg]; intros E; minv; eauto. Qed.
Lemma ins_args_sent n p rk rv w c' w' : nc_ins_args n p rk rv w = Ok (c', w') -> ssame n c'.
Proof.
  unfold nc_ins_args. intros E.
  assert (G : forall kr vs w1 w2, nc_insert n (ins_p (ckind n) p) kr vs w1 = Ok (c', w2) -> ssame n c') by (intros; eapply insert_sent; eauto).
  destruct (ckind n) eqn:K;
    try (destruct rv; [eapply insert_sent; eauto | apply with_arg_inv in E; destruct E as (? & ? & ? & E); eapply insert_sent; eauto | eapply insert_sent; eauto]; fail);
    apply with_arg_inv in E; destruct E as (i & w1 & w2 & E); cbn [val_default] in E;
    try (eapply G; eauto; fail);
    apply with_arg_inv in E; destruct E as (j & w3 & w4 & E); eapply G; eauto.
Qed.

(* third round *)
Lemma find_sent c kr w c' w' : nc_find c kr w = Ok (c', w') -> ssame c c'.
Proof. unfold nc_find. intros E. minv. apply ssame_refl. Qed.
Lemma sort_sent c w c' w' : nc_sort c w = Ok (c', w') -> ssame c c'.
Proof. unfold nc_sort. destruct (2 <=? length (map nv (citems c))); intros E; minv; apply ssame_refl. Qed.
Lemma emplace_sent c rs w c' w' : nc_emplace c rs w = Ok (c', w') -> ssame c c'.
Proof.
  unfold nc_emplace. intros E. minv.
  match goal with H1 : nc_alloc_item _ _ = _ |- _ => apply alloc_item_sent in H1; destruct H1 end.
  split; cbn [set_items csent ckind]; congruence.
Qed.
Lemma insert_hint_sent c p kr vr w c' w' : nc_insert_hint c p kr vr w = Ok (c', w') -> ssame c c'.
Proof.
  unfold nc_insert_hint. intros E. minv.
  repeat match goal with
         | H : (match ?d with _ => _ end) _ = Ok _ |- _ => destruct d
         | H : (if ?d then _ else _) _ = Ok _ |- _ => destruct d
         end; minv;
    first [ apply ssame_refl | eapply insert_sent; eauto; fail | eapply fresh_sent; eauto; fail ].
Qed.
Lemma insert_tie_sent c p kr vr j w c' w' : nc_insert_tie c p kr vr j w = Ok (c', w') -> ssame c c'.
Proof. unfold nc_insert_tie. intros E. minv. eapply fresh_sent; eauto. Qed.
Lemma insert_all_map_sent src : forall c prev w c' w', nc_insert_all_map c prev src w = Ok (c', w') -> ssame c c'.
Proof.
  induction src as [|n r IH]; intros c prev w c' w' E; cbn [nc_insert_all_map] in E; minv; [apply ssame_refl|].
  eapply ssame_trans; [|eapply IH; eauto].
  destruct prev as [pk|]; minv; [eapply insert_hint_sent | eapply insert_sent]; eauto.
Qed.
Lemma add_all_map_sent c o w c' w' : nc_add_all_map c o w = Ok (c', w') -> ssame c c'.
Proof. unfold nc_add_all_map. apply insert_all_map_sent. Qed.

Lemma new_sent k w c w' : nc_new k w = Ok (c, w') -> length (csent c) = sent_count k /\ ckind c = k.
Proof.
  unfold nc_new. intros E. minv. cbn [csent ckind]. split; auto.
  match goal with H : def_list _ _ = _ |- _ => revert H end.
  generalize (sent_count k). intros m. revert w x x0.
  induction m as [|m IH]; intros w l w1 E; cbn [def_list] in E; minv; auto.
  cbn [length]. f_equal. eapply IH. eauto.
Qed.
Lemma copy_new_sent o w c w' : nc_copy_new o w = Ok (c, w') -> length (csent c) = sent_count (ckind o) /\ ckind c = ckind o.
Proof.
  unfold nc_copy_new. intros E. minv.
  match goal with H1 : nc_new _ _ = _, H2 : nc_insert_all _ _ _ _ = _ |- _ =>
    apply new_sent in H1; apply insert_all_sent in H2; destruct H1, H2 end.
  split; congruence.
Qed.

(* ---- the program state ---- *)
Definition sent_ok (v : option cont) : Prop :=
  match v with Some (CN n) => length (csent n) = sent_count (ckind n) | _ => True end.
Definition SentOk (st : state) : Prop := Forall sent_ok (svars st).

Lemma put_inv st x m b st' : put st x m = Ok (b, st') ->
  exists c w, m (sw st) = Ok (c, w) /\ svars st' = set_at x (Some c) (svars st).
Proof. unfold put. destruct (m (sw st)) as [[c w]|e]; intros E; inversion E. cbn [svars]. eauto. Qed.
Lemma lift_inv {A B} (f : A -> B) (m : M A) w c w' : lift f m w = Ok (c, w') -> exists a, m w = Ok (a, w') /\ c = f a.
Proof. unfold lift. intros E. minv. eauto. Qed.

Lemma sent_ok_get st x c : SentOk st -> getv (svars st) x = Some c -> sent_ok (Some c).
Proof.
  intros S G. unfold SentOk in S. rewrite Forall_forall in S. apply S. eapply nth_error_In. apply getv_nth. eauto.
Qed.
Lemma sent_ok_same n c' : sent_ok (Some (CN n)) -> ssame n c' -> sent_ok (Some (CN c')).
Proof. cbn [sent_ok]. intros L [S K]. congruence. Qed.

Ltac break_hyp H :=
  repeat match type of H with context [match ?e with _ => _ end] => destruct e eqn:? end.

Lemma step_sent st o b st' : SentOk st -> step st o = Ok (b, st') -> SentOk st'.
Proof.
  intros S E.
  assert (PUT : forall x m, put st x m = Ok (b, st') ->
                 (forall c w, m (sw st) = Ok (c, w) -> sent_ok (Some c)) -> SentOk st').
  { intros x m P H. destruct (put_inv _ _ _ _ _ P) as (c & w & Em & Ev). unfold SentOk. rewrite Ev.
    apply Forall_set_at'; [exact S | eapply H; eauto]. }
  assert (SAME : Ok (b, st') = Ok (b, st') -> True) by auto.
  destruct o; cbn [step] in E; unfold rem_at, skip in E; break_hyp E;
    try (inversion E; subst; exact S);
    try (eapply PUT; [exact E|]; let cc := fresh "cc" in let ww := fresh "ww" in intros cc ww Em;
         try (apply ret_inv in Em; inversion Em; subst; exact Logic.I);
         let aa := fresh "aa" in apply lift_inv in Em; destruct Em as (aa & Em & ->); try exact Logic.I).
  all: try (cbn [sent_ok]; apply new_sent in Em; destruct Em; congruence).
  all: try (cbn [sent_ok]; apply copy_new_sent in Em; destruct Em; congruence).
  all: try (match goal with G : getv _ _ = Some (CN ?n) |- sent_ok (Some (CN _)) =>
              eapply (sent_ok_same n); [eapply sent_ok_get; [exact S | exact G] |];
              first [ eapply clear_sent; eauto; fail
                    | eapply assign_sent; eauto; fail
                    | eapply ins_args_sent; eauto; fail
                    | eapply remove_at_sent; eauto; fail
                    | eapply add_all_sent; eauto; fail
                    | eapply add_all_map_sent; eauto; fail
                    | eapply emplace_sent; eauto; fail
                    | eapply sort_sent; eauto; fail
                    | let ii := fresh "ii" in let wa := fresh "wa" in let wb := fresh "wb" in
                      apply with_arg_inv in Em; destruct Em as (ii & wa & wb & Em); eapply find_sent; eauto; fail
                    | let ii := fresh "ii" in let wa := fresh "wa" in let wb := fresh "wb" in
                      let jj := fresh "jj" in let wc := fresh "wc" in let wd := fresh "wd" in
                      apply with_arg_inv in Em; destruct Em as (ii & wa & wb & Em);
                      apply with_arg_inv in Em; destruct Em as (jj & wc & wd & Em);
                      first [ eapply insert_hint_sent; eauto; fail | eapply insert_tie_sent; eauto; fail ]
                    | eapply remove_keys_sent; eauto; fail
                    | let ii := fresh "ii" in let wa := fresh "wa" in let wb := fresh "wb" in
                      apply with_arg_inv in Em; destruct Em as (ii & wa & wb & Em); eapply remove_key_sent; eauto; fail ]
            end).
  all: try (inversion E; subst; unfold SentOk; cbn [svars]; repeat (apply Forall_set_at'; [|try exact Logic.I]); try exact S).
  all: unfold nc_swap in Heqp; inversion Heqp; subst; cbn [sent_ok csent ckind].
  - apply (sent_ok_get st x (CN c1) S Heqo).
  - apply (sent_ok_get st y (CN c2) S Heqo0).
Qed.

Lemma node_ids_length k n : length (node_ids k n) = fields k.
Proof. unfold node_ids, fields, stored_fields. destruct (has_key k), (has_val k), (key_first k); reflexivity. Qed.
Lemma items_ids_length k l : length (items_ids k l) = fields k * length l.
Proof.
  unfold items_ids. induction l as [|n r IH]; cbn [flat_map length]; [lia|].
  rewrite app_length, node_ids_length, IH. lia.
Qed.

Lemma meq_length (a b : list nat) : meq a b -> length a = length b.
Proof. intros H. apply Permutation_length. apply meq_perm. exact H. Qed.

Lemma ids_count w vs : Forall sent_ok vs ->
  length (all_ids vs) = slive (map (option_map (abs_cont w)) vs).
Proof.
  unfold all_ids, slive.
  induction vs as [|v t IH]; intros S; cbn [flat_map map fold_right length]; [reflexivity|].
  inversion S as [|? ? Sv St]; subst. rewrite app_length, (IH St). f_equal.
  destruct v as [[a|n]|]; cbn [vids cids option_map abs_cont slive_var length]; auto.
  - rewrite map_length. change (fields KArray) with 1. change (sent_count KArray) with 0. lia.
  - cbn [sent_ok] in Sv. unfold nids. rewrite app_length, items_ids_length, map_length, Sv. reflexivity.
Qed.

Lemma live_count st : Inv st -> SentOk st -> length (heap (sw st)) = slive (abs st).
Proof.
  intros IV S.
  assert (L : length (heap (sw st)) = length (all_ids (svars st))).
  { rewrite <- (meq_length _ _ (inv_ids _ IV)). unfold dom. rewrite map_length. reflexivity. }
  rewrite L. apply ids_count. exact S.
Qed.

Lemma slive_split s : slive s = sbase s + sstored s.
Proof.
  unfold slive, sbase, sstored. induction s as [|v t IH]; cbn [fold_right]; [reflexivity|].
  rewrite IH. destruct v as [[k l]|]; cbn [slive_var sbase_var sstored_var]; unfold fields; lia.
Qed.

Lemma run_sent ops : forall st st', SentOk st -> run st ops = Ok st' -> SentOk st'.
Proof.
  induction ops as [|o r IH]; intros st st' S E; cbn [run] in E.
  - inversion E. subst. exact S.
  - destruct (step st o) as [[b st1]|e] eqn:E1; [|discriminate].
    eapply IH; [eapply step_sent; eauto | exact E].
Qed.

Lemma sent_init nv : SentOk (init nv).
Proof. unfold SentOk, init. cbn [svars]. apply Forall_forall. intros v I. apply repeat_spec in I. subst. exact Logic.I. Qed.

(* between operations the number of live instances is the spec's function of the contents:
   one instance per field of every stored item plus those of the embedded end items *)
Lemma live_count_proof nv ops st : run (init nv) ops = Ok st -> length (heap (sw st)) = slive (abs st).
Proof.
  intros E. destruct (run_init_ok nv ops) as (st0 & E0 & IV & _). rewrite E in E0. inversion E0. subst st0.
  apply live_count; [exact IV | eapply run_sent; [apply sent_init | exact E]].
Qed.

(* ... of which the contents account for one per stored element / key (the spec's count), the rest
   being what the containers keep for themselves *)
Lemma stored_count_proof nv ops st : run (init nv) ops = Ok st ->
  length (heap (sw st)) = sbase (abs st) + sstored (abs st).
Proof. intros E. rewrite (live_count_proof nv ops st E). apply slive_split. Qed.

(* ---------------------------------------------------------------------------------------- *)
(* the MultiMap hinted insert whose landing place the tree shape decides (OInsTie)            *)
(* ---------------------------------------------------------------------------------------- *)
(* the position argument of nc_fresh only says where the new node is put into the item sequence *)
Lemma fresh_pos_only c p kr v w c' w' : nc_fresh c p kr v w = Ok (c', w') ->
  exists c0 nd, c' = set_items c0 (insert_at p nd (citems c0)) (cfree c0) /\
    forall q, nc_fresh c q kr v w = Ok (set_items c0 (insert_at q nd (citems c0)) (cfree c0), w').
Proof.
  unfold nc_fresh. intros E.
  apply bind_inv in E. destruct E as (c1 & w1 & E1 & E).
  apply bind_inv in E. destruct E as (c2 & w2 & E2 & E).
  apply bind_inv in E. destruct E as (nd & w3 & E3 & E).
  apply ret_inv in E. inversion E. subst.
  exists c2, nd. split; [reflexivity|]. intros q.
  run E1. run E2. run E3. reflexivity.
Qed.

(* in every reachable state, whatever offset j the tree shape produces: the hinted MultiMap insert of
   the tie case does to the world exactly what insert(key, value) does - the same events in the same
   order, the same instances and allocations afterwards - and the two resulting containers differ
   only in the place of the one new node in the item sequence *)
Lemma tie_insert_position_only_proof nv ops st x n p kr vr j c1 w1 :
  run (init nv) ops = Ok st -> getv (svars st) x = Some (CN n) -> sorted (ckind n) = true -> unique (ckind n) = false ->
  In kr (dom (heap (sw st))) ->
  nc_insert_tie n p kr vr j (sw st) = Ok (c1, w1) ->
  exists c0 nd i1 i2,
    c1 = set_items c0 (insert_at i1 nd (citems c0)) (cfree c0) /\
    nc_insert n PBack kr (VRef vr) (sw st) = Ok (set_items c0 (insert_at i2 nd (citems c0)) (cfree c0), w1).
Proof.
  intros E G SO UQ Ik ET.
  destruct (run_init_ok nv ops) as (st0 & E0 & IV & SW & _). rewrite E in E0. inversion E0. subst st0.
  destruct (inv_get st x _ IV G) as (H & _ & _). cbn [cids] in H.
  destruct (hint_reads n (sw st) H SO) as (_ & Lsel & _).
  unfold nc_insert_tie in ET. revert ET. run (rd_ok (sw st) kr Ik). run (rd_list_ok (sw st) _ Lsel). intros ET.
  destruct (fresh_pos_only _ _ _ _ _ _ _ ET) as (c0 & nd & E1 & Q).
  exists c0, nd, (S (pos_idx p (length (citems n))) + j), (ins_pos (val (sw st) kr) (asel (ckind n) (nabs (sw st) n))).
  split; [exact E1|].
  rewrite (insert_is_fresh n kr vr (sw st) H SO Ik (ins_pos (val (sw st) kr) (asel (ckind n) (nabs (sw st) n)))).
  - apply Q.
  - intros U. rewrite UQ in U. discriminate.
  - reflexivity.
Qed.

(* ---------------------------------------------------------------------------------------- *)
(* round 6: Array::remove(index) with an index that is not in the array (ORemOut)            *)
(* ---------------------------------------------------------------------------------------- *)
(* On every state: the call is accepted; with the outcome the code has now (r = None) the state -
   world, event log, variables - is unchanged and the spec's content is unchanged; with an outcome
   r = Some j it is, in model and spec, the removal of element j through remove(index) (so that
   every theorem about ORemAt - instances destroyed once, storage kept, refinement - is a theorem
   about it). *)
Theorem remove_out_of_range_proof : forall (st : state) (x : nat) (a : arr) (i : N),
  getv (svars st) x = Some (CA a) -> (N.of_nat (length (aelems a)) <= i)%N ->
  step st (ORemOut x i None) = Ok (true, st) /\
  spec_step (abs st) (ORemOut x i None) = (true, abs st) /\
  forall j, step st (ORemOut x i (Some j)) = step st (ORemAt x j) /\
            spec_step (abs st) (ORemOut x i (Some j)) = spec_step (abs st) (ORemAt x j).
Proof.
  intros st x a i G L.
  assert (O : forall r, out_idx KArray (length (aelems a)) i r = Some r).
  { intros r. unfold out_idx. cbn [is_array andb]. apply N.leb_le in L. rewrite L. reflexivity. }
  destruct (abs_cont_len (sw st) (CA a)) as [EL EK]. cbn [clen kind_of] in EL, EK.
  destruct (abs_cont (sw st) (CA a)) as [k l] eqn:AC. cbn [fst snd] in EL, EK. subst k.
  split; [|split].
  - cbn [step]. rewrite G. cbn [kind_of clen]. rewrite O. reflexivity.
  - cbn [spec_step]. rewrite sget_abs, G. cbn [option_map]. rewrite AC, EL, O. reflexivity.
  - intros j. split.
    + cbn [step]. rewrite G. cbn [kind_of clen]. rewrite O. reflexivity.
    + cbn [spec_step]. rewrite sget_abs, G. cbn [option_map]. rewrite AC, EL, O. reflexivity.
Qed.
