(* Array<T>: every function of the model runs without a lifetime error on a well-formed array,
   exchanges exactly the instances / allocations it says, and has the effect on the payload
   sequence that the spec states. *)
From Coq Require Import ZArith List Bool Arith Lia Permutation.
From Life Require Import LifeSpec LifeModel LifeBase LifeLoops.
Import ListNotations.

(* an array constructed with Array(capacity) has a capacity but no storage yet *)
Definition awf (a : arr) : Prop :=
  (astore a = None -> aelems a = []) /\ (astore a <> None -> 0 < acap a).
Definition ablks (a : arr) : list blk := match astore a with Some b => [b] | None => [] end.
Definition avals (w : world) (a : arr) : list Z := map (val w) (aelems a).

Lemma or3_ge n : n <= or3 n.
Proof. unfold or3. lia. Qed.

Lemma or3_pos n : 0 < or3 n.
Proof. unfold or3. pose proof (Nat.mod_upper_bound n 4). pose proof (Nat.mod_le n 4). lia. Qed.

Lemma awf_new : awf arr_new.
Proof. split; [intros _; reflexivity | intros Q; exfalso; apply Q; reflexivity]. Qed.
Lemma awf_new_cap n : awf (arr_new_cap n).
Proof. split; [intros _; reflexivity | intros Q; exfalso; apply Q; reflexivity]. Qed.

Ltac twf T := exact (t_wf _ _ _ _ _ _ T).

Lemma holds_frame0 w w' B B' F : trans w w' [] [] B B' -> holds w F -> holds w' F.
Proof. intros T H. apply (trans_holds_frame _ _ _ _ _ _ F T H). Qed.
Lemma holdsb_frame0 w w' X X' F : trans w w' X X' [] [] -> holdsb w F -> holdsb w' F.
Proof. intros T H. apply (trans_holdsb_frame _ _ _ _ _ _ F T H). Qed.
Lemma holds_keep w w' X X' B B' F : trans w w' X X' B B' -> holds w (X ++ F) -> holds w' F.
Proof. intros T H. eapply holds_app_r. eapply trans_holds_frame; eauto. Qed.
Lemma holdsb_in w B b : holdsb w B -> In b B -> In b (blks w).
Proof. intros H I. eapply mle_in; eauto. Qed.

Lemma arr_reserve_ok a n w :
  wfw w -> holds w (aelems a) -> holdsb w (ablks a) -> awf a ->
  exists a' w', arr_reserve a n w = Ok (a', w') /\
    trans w w' (aelems a) (aelems a') (ablks a) (ablks a') /\
    avals w' a' = avals w a /\ awf a' /\ n <= acap a' /\ (0 < n -> astore a' <> None) /\
    (n <= acap a -> (astore a <> None \/ n = 0) -> a' = a /\ w' = w).
Proof.
  intros W H Hb [WF WF2]. unfold arr_reserve.
  destruct ((acap a <? n) || match astore a with None => 0 <? n | Some _ => false end) eqn:C.
  - destruct (balloc_ok w W) as [E T]. run E.
    set (w1 := w_balloc w) in *.
    destruct (astore a) as [ob|] eqn:St.
    + assert (Hb' : holdsb w [ob]) by (unfold ablks in Hb; rewrite St in Hb; exact Hb).
      assert (H1 : holds w1 (aelems a)) by (eapply holds_frame0; eauto).
      destruct (move_list_ok _ w1 ltac:(twf T) H1) as (l' & w2 & E2 & T2 & V2). run E2.
      assert (Hb2 : holdsb w2 ([nblk w] ++ [ob])).
      { eapply holdsb_frame0; [exact T2|]. apply (trans_holdsb_frame _ _ _ _ _ _ [ob] T). exact Hb'. }
      assert (Iob : In ob (blks w2)) by (eapply holdsb_in; [exact Hb2 | right; left; auto]).
      destruct (bfree_ok w2 ob ltac:(twf T2) Iob) as [E3 T3]. run E3.
      eexists _, _. split; [reflexivity|]. cbn [aelems astore acap ablks].
      assert (T12 : trans w w2 (aelems a) l' [] [nblk w]).
      { eapply (trans_seq (aelems a) [] [] [nblk w] _ _ _ _ _ _ _ _ _ _ _ _ _ _ _ T T2); msolve. }
      split; [|split; [|split; [|split; [|split]]]].
      * unfold ablks. rewrite St.
        eapply (trans_seq [] l' [ob] [nblk w] _ _ _ _ _ _ _ _ _ _ _ _ _ _ _ T12 T3); msolve.
      * unfold avals. cbn [aelems].
        transitivity (map (val w2) l').
        { eapply trans_keep_map; [exact T3|]. intros i I. split; [|tauto].
          eapply holds_in; [eapply trans_holds; [exact T2 | exact H1] | exact I]. }
        rewrite V2.
        eapply trans_keep_map; [exact T|]. intros i I. split; [eapply holds_in; eauto | tauto].
      * split; [intro Q; discriminate | intros _; apply or3_pos].
      * pose proof (or3_ge (Nat.max (acap a) n)). lia.
      * intros _ Q. discriminate.
      * intros Q1 _. exfalso. apply orb_true_iff in C. destruct C as [C|C]; [apply Nat.ltb_lt in C; lia | discriminate].
    + pose proof (WF eq_refl) as E0.
      eexists _, _. split; [reflexivity|]. cbn [aelems astore acap ablks].
      split; [|split; [|split; [|split; [|split]]]].
      * rewrite E0. unfold ablks. rewrite St. cbn [ablks astore]. exact T.
      * unfold avals. cbn [aelems]. rewrite E0. reflexivity.
      * split; [intro Q; discriminate | intros _; apply or3_pos].
      * pose proof (or3_ge (Nat.max (acap a) n)). lia.
      * intros _ Q. discriminate.
      * intros Q1 [Q|Q]; [congruence|]. exfalso. subst n.
        apply orb_true_iff in C. destruct C as [C|C]; [apply Nat.ltb_lt in C; lia | apply Nat.ltb_lt in C; lia].
  - exists a, w. split; [reflexivity|].
    apply orb_false_iff in C. destruct C as [C1 C2]. apply Nat.ltb_ge in C1.
    split; [apply trans_refl; auto|]. split; [reflexivity|]. split; [split; auto|]. split; [auto|]. split.
    + intros P Q. destruct (astore a); [discriminate|]. apply Nat.ltb_ge in C2. lia.
    + auto.
Qed.

Lemma avals_len w w' a a' : avals w' a' = avals w a -> length (aelems a') = length (aelems a).
Proof. unfold avals. intros E. apply (f_equal (@length Z)) in E. rewrite !map_length in E. exact E. Qed.

Lemma map_eq_nil' {A B} (f : A -> B) l : map f l = [] -> l = [].
Proof. destruct l; [auto | discriminate]. Qed.

(* an array without storage holds nothing; reserve() gives it storage when asked for room *)
Lemma arr_reserve_none_ok a n w :
  wfw w -> awf a -> astore a = None ->
  exists a' w', arr_reserve a n w = Ok (a', w') /\
    trans w w' [] [] [] (ablks a') /\ aelems a' = [] /\ awf a' /\ n <= acap a' /\ (0 < n -> astore a' <> None) /\
    (astore a' = None -> n = 0).
Proof.
  intros W WF St. pose proof (proj1 WF St) as E0.
  destruct (arr_reserve_ok a n w W) as (a1 & w1 & E1 & T1 & V1 & WF1 & C1 & S1 & _); auto.
  { rewrite E0. intro x. cbn. lia. }
  { unfold ablks. rewrite St. intro x. cbn. lia. }
  exists a1, w1. split; [exact E1|].
  assert (L1 : aelems a1 = []).
  { unfold avals in V1. rewrite E0 in V1. cbn [map] in V1. eapply map_eq_nil'; eauto. }
  rewrite E0, L1 in T1. unfold ablks at 1 in T1. rewrite St in T1.
  split; [exact T1|]. split; [exact L1|]. split; [exact WF1|]. split; [exact C1|]. split; [exact S1|].
  intros Q. destruct n; [reflexivity|]. exfalso. apply S1; [lia | exact Q].
Qed.

(* append into an array that has a capacity but no storage yet (Array(capacity)) *)
Lemma arr_append_fit_none_ok a r w :
  wfw w -> awf a -> astore a = None -> In r (dom (heap w)) ->
  exists a' w', arr_append_fit a r w = Ok (a', w') /\
    trans w w' (aelems a) (aelems a') (ablks a) (ablks a') /\
    avals w' a' = avals w a ++ [val w r] /\ awf a'.
Proof.
  intros W WF St I. unfold arr_append_fit. pose proof (proj1 WF St) as E0.
  destruct (arr_reserve_none_ok a (S (length (aelems a))) w W WF St) as (a1 & w1 & E1 & T1 & L1 & WF1 & C1 & S1 & _). run E1.
  assert (I1 : In r (dom (heap w1))) by (eapply trans_live; [exact T1 | exact I | tauto]).
  destruct (mk_copy_ok w1 r ltac:(twf T1) I1) as (E2 & T2 & V2). run E2.
  eexists _, _. split; [reflexivity|]. unfold set_elems. cbn [aelems astore acap].
  split; [|split].
  - rewrite E0, L1. cbn [app]. unfold ablks at 1 2. cbn [astore]. rewrite St. fold (ablks a1).
    eapply (trans_seq [] [] [] (ablks a1) _ _ _ _ _ _ _ _ _ _ _ _ _ _ _ T1 T2); msolve.
  - unfold avals. cbn [aelems]. rewrite E0, L1. cbn [map app]. f_equal. rewrite V2.
    eapply trans_val; [exact T1 | exact I | tauto].
  - destruct WF1 as [WFa WFb]. split; cbn [astore acap aelems]; auto.
    intro Q. exfalso. apply S1; [lia | exact Q].
Qed.

(* append when no reallocation happens *)
Lemma arr_append_fit_ok a r w :
  wfw w -> holds w (aelems a) -> holdsb w (ablks a) -> awf a ->
  S (length (aelems a)) <= acap a -> astore a <> None -> In r (dom (heap w)) ->
  exists a' w', arr_append_fit a r w = Ok (a', w') /\
    trans w w' (aelems a) (aelems a') (ablks a) (ablks a') /\
    avals w' a' = avals w a ++ [val w r] /\ awf a' /\ acap a' = acap a /\ astore a' = astore a.
Proof.
  intros W H Hb WF C St I. unfold arr_append_fit.
  destruct (arr_reserve_ok a (S (length (aelems a))) w W H Hb WF) as (a1 & w1 & E1 & _ & _ & _ & _ & _ & N).
  destruct (N C (or_introl St)) as [-> ->]. run E1.
  destruct (mk_copy_ok w r W I) as (E2 & T2 & V2). run E2.
  eexists _, _. split; [reflexivity|]. unfold set_elems. cbn [aelems astore acap].
  split; [|split; [|split; [|split]]]; auto.
  - unfold ablks. cbn [astore].
    eapply trans_perm; [apply (trans_frame _ _ _ _ _ _ (aelems a) (match astore a with Some b => [b] | None => [] end) T2) | | | |]; msolve.
  - unfold avals. cbn [aelems]. rewrite map_app. cbn [map]. f_equal; [|f_equal; exact V2].
    eapply trans_keep_map; [exact T2|]. intros i J. split; [eapply holds_in; eauto | tauto].
  - destruct WF as [WFa WFb]. split; cbn [astore acap aelems]; [intro Q; tauto | auto].
Qed.

Lemma arr_append_ok a r w :
  wfw w -> holds w (aelems a) -> holdsb w (ablks a) -> awf a -> In r (dom (heap w)) ->
  exists a' w', arr_append a r w = Ok (a', w') /\
    trans w w' (aelems a) (aelems a') (ablks a) (ablks a') /\
    avals w' a' = avals w a ++ [val w r] /\ awf a'.
Proof.
  intros W H Hb WF I. unfold arr_append.
  destruct (acap a <? S (length (aelems a))) eqn:C.
  - (* the storage is replaced: the argument is copied first *)
    destruct (mk_copy_ok w r W I) as (E1 & T1 & V1). run E1.
    set (t := nxt w) in *. set (w1 := w_mk w (val w r) (ECopy t r)) in *.
    assert (H1 : holds w1 (aelems a)) by (apply (holds_keep _ _ _ _ _ _ (aelems a) T1 H)).
    assert (Hb1 : holdsb w1 (ablks a)) by (eapply holdsb_frame0; eauto).
    destruct (arr_reserve_ok a (S (length (aelems a))) w1 ltac:(twf T1) H1 Hb1 WF)
      as (a1 & w2 & E2 & T2 & V2 & WF2 & C2 & S2 & _). run E2.
    assert (It1 : In t (dom (heap w1))).
    { apply in_cnt. pose proof (t_ids _ _ _ _ _ _ T1 t) as Q. autorewrite with cntdb in Q.
      rewrite one_same in Q. lia. }
    assert (Nt : ~ In t (aelems a)).
    { intro J. apply (holds_lt _ _ _ W H) in J. subst t. lia. }
    destruct (trans_keep _ _ _ _ _ _ t T2 It1 Nt) as [Vt It2].
    assert (L2 : length (aelems a1) = length (aelems a)) by (eapply avals_len; eauto).
    destruct (arr_append_fit_ok a1 t w2 ltac:(twf T2) (trans_holds _ _ _ _ _ _ T2 H1)
                (trans_holdsb _ _ _ _ _ _ T2 Hb1) WF2 ltac:(lia) (S2 ltac:(lia)) It2)
      as (a2 & w3 & E3 & T3 & V3 & WF3 & _ & _). run E3.
    assert (T13 : trans w w3 (aelems a) (t :: aelems a2) (ablks a) (ablks a2)).
    { assert (T12 : trans w w2 (aelems a) (t :: aelems a1) (ablks a) (ablks a1)).
      { eapply (trans_seq (aelems a) [t] (ablks a) [] _ _ _ _ _ _ _ _ _ _ _ _ _ _ _ T1 T2); msolve. }
      eapply (trans_seq [] [t] [] [] _ _ _ _ _ _ _ _ _ _ _ _ _ _ _ T12 T3); msolve. }
    assert (It3 : In t (dom (heap w3))).
    { eapply holds_in; [eapply trans_holds; [exact T13 | exact H] | left; auto]. }
    destruct (destroy_ok w3 t ltac:(twf T3) It3) as [E4 T4]. run E4.
    eexists _, _. split; [reflexivity|]. split; [|split]; auto.
    + eapply (trans_seq [] (aelems a2) [] (ablks a2) _ _ _ _ _ _ _ _ _ _ _ _ _ _ _ T13 T4); msolve.
    + assert (Nt2 : ~ In t (aelems a2)).
      { pose proof (holds_nodup _ _ ltac:(twf T3) (trans_holds _ _ _ _ _ _ T13 H)) as ND.
        inversion ND; auto. }
      unfold avals. erewrite trans_keep_map; [| exact T4 |].
      * fold (avals w3 a2). rewrite V3, V2. unfold avals at 1. f_equal.
        -- eapply trans_keep_map; [exact T1|]. intros i J. split; [eapply holds_in; eauto | tauto].
        -- rewrite Vt. f_equal. exact V1.
      * intros i J. split.
        -- eapply holds_in; [eapply trans_holds; [exact T13 | exact H] | right; auto].
        -- intros [Q|[]]. subst i. tauto.
  - apply Nat.ltb_ge in C.
    destruct (astore a) eqn:St.
    + assert (St' : astore a <> None) by (rewrite St; discriminate).
      destruct (arr_append_fit_ok a r w W H Hb WF C St' I) as (a' & w' & E & T & V & WF' & _).
      exists a', w'. auto.
    + apply arr_append_fit_none_ok; auto.
Qed.

Lemma holds_sub w A B : holds w B -> mle A B -> holds w A.
Proof. unfold holds. intros H1 H2. msolve. Qed.
Lemma mle_firstn n (l : list nat) : mle (firstn n l) l.
Proof. intro x. rewrite <- (firstn_skipn n l) at 2. autorewrite with cntdb. lia. Qed.
Lemma mle_skipn n (l : list nat) : mle (skipn n l) l.
Proof. intro x. rewrite <- (firstn_skipn n l) at 2. autorewrite with cntdb. lia. Qed.
Lemma meq_firstn_skipn n (l : list nat) : meq (firstn n l ++ skipn n l) l.
Proof. rewrite firstn_skipn. apply meq_refl. Qed.

Lemma in_new w w' X X' B B' i : trans w w' X X' B B' -> holds w X -> In i X' -> In i (dom (heap w')).
Proof. intros T H I. eapply holds_in; [eapply trans_holds; eauto | exact I]. Qed.

Lemma mk_live w v e : In (nxt w) (dom (heap (w_mk w v e))).
Proof. cbn [w_mk heap]. rewrite dom_cons. left. auto. Qed.

Lemma arr_resize_fit_ok a n r w :
  wfw w -> holds w (aelems a) -> holdsb w (ablks a) -> awf a ->
  n <= acap a -> (astore a <> None \/ n = 0) -> In r (dom (heap w)) ->
  exists a' w', arr_resize_fit a n r w = Ok (a', w') /\
    trans w w' (aelems a) (aelems a') (ablks a) (ablks a') /\
    avals w' a' = avals w a ++ repeat (val w r) (n - length (aelems a)) /\ awf a'.
Proof.
  intros W H Hb WF C St I. unfold arr_resize_fit.
  destruct (arr_reserve_ok a n w W H Hb WF) as (a1 & w1 & E1 & _ & _ & _ & _ & _ & N).
  destruct (N C St) as [-> ->]. run E1.
  destruct (fill_ok (n - length (aelems a)) w r W I) as (l' & w' & E2 & T2 & V2). run E2.
  eexists _, _. split; [reflexivity|]. unfold set_elems. cbn [aelems astore acap].
  split; [|split].
  - unfold ablks. cbn [astore].
    eapply trans_perm; [apply (trans_frame _ _ _ _ _ _ (aelems a) (match astore a with Some b => [b] | None => [] end) T2) | | | |]; msolve.
  - unfold avals. cbn [aelems]. rewrite map_app. f_equal; [|exact V2].
    eapply trans_keep_map; [exact T2|]. intros i J. split; [eapply holds_in; eauto | tauto].
  - destruct WF as [WFa WFb]. split; cbn [astore acap aelems]; auto.
    intro Q. pose proof (WFa Q) as E0.
    destruct St as [St|St]; [tauto|]. subst n. cbn [Nat.sub repeat] in V2.
    apply map_eq_nil' in V2. rewrite V2, E0. reflexivity.
Qed.

(* resize of an array that has a capacity but no storage yet *)
Lemma arr_resize_fit_none_ok a n r w :
  wfw w -> awf a -> astore a = None -> In r (dom (heap w)) ->
  exists a' w', arr_resize_fit a n r w = Ok (a', w') /\
    trans w w' (aelems a) (aelems a') (ablks a) (ablks a') /\
    avals w' a' = avals w a ++ repeat (val w r) (n - length (aelems a)) /\ awf a'.
Proof.
  intros W WF St I. unfold arr_resize_fit. pose proof (proj1 WF St) as E0.
  destruct (arr_reserve_none_ok a n w W WF St) as (a1 & w1 & E1 & T1 & L1 & WF1 & C1 & S1 & Z1). run E1.
  destruct (trans_keep _ _ _ _ _ _ r T1 I (fun x => x)) as [Vr I1].
  destruct (fill_ok (n - length (aelems a1)) w1 r ltac:(twf T1) I1) as (l' & w' & E2 & T2 & V2). run E2.
  eexists _, _. split; [reflexivity|]. unfold set_elems. cbn [aelems astore acap].
  split; [|split].
  - rewrite E0, L1. cbn [app]. unfold ablks at 1 2. cbn [astore]. rewrite St. fold (ablks a1).
    eapply (trans_seq [] [] [] (ablks a1) _ _ _ _ _ _ _ _ _ _ _ _ _ _ _ T1 T2); msolve.
  - unfold avals. cbn [aelems]. rewrite E0, L1. cbn [map app length]. rewrite V2, L1, Vr. reflexivity.
  - destruct WF1 as [WFa WFb]. split; cbn [astore acap aelems]; auto.
    intro Q. rewrite L1. cbn [app]. rewrite (Z1 Q) in V2. cbn [Nat.sub repeat] in V2.
    eapply map_eq_nil'; eauto.
Qed.

Lemma arr_resize_ok a n r w :
  wfw w -> holds w (aelems a) -> holdsb w (ablks a) -> awf a -> In r (dom (heap w)) ->
  exists a' w', arr_resize a n r w = Ok (a', w') /\
    trans w w' (aelems a) (aelems a') (ablks a) (ablks a') /\
    avals w' a' = firstn n (avals w a) ++ repeat (val w r) (n - length (aelems a)) /\ awf a'.
Proof.
  intros W H Hb WF I. unfold arr_resize.
  destruct (n <? length (aelems a)) eqn:C1.
  - apply Nat.ltb_lt in C1.
    assert (Hs : holds w (skipn n (aelems a))) by (eapply holds_sub; [exact H | apply mle_skipn]).
    destruct (destroy_list_ok _ w W Hs) as (w' & E & T). run E.
    eexists _, _. split; [reflexivity|]. unfold set_elems. cbn [aelems astore acap].
    pose proof (holds_nodup _ _ W H) as ND. rewrite <- (firstn_skipn n (aelems a)) in ND.
    split; [|split].
    + unfold ablks. cbn [astore].
      eapply trans_perm; [apply (trans_frame _ _ _ _ _ _ (firstn n (aelems a)) (match astore a with Some b => [b] | None => [] end) T) | | | |];
        try msolve.
      intro x. rewrite <- (firstn_skipn n (aelems a)) at 3. autorewrite with cntdb. lia.
    + unfold avals. cbn [aelems]. replace (n - length (aelems a)) with 0 by lia. cbn [repeat].
      rewrite app_nil_r, firstn_map.
      eapply trans_keep_map; [exact T|]. intros i J. split.
      * eapply holds_in; [exact H|]. eapply mle_in; [apply mle_firstn | exact J].
      * intro K. rewrite nodup_cnt in ND. specialize (ND i). apply in_cnt in J. apply in_cnt in K.
        autorewrite with cntdb in ND. lia.
    + destruct WF as [WFa WFb]. split; cbn [astore acap aelems]; auto.
      intro Q. rewrite (WFa Q). apply firstn_nil.
  - apply Nat.ltb_ge in C1.
    assert (FA : firstn n (avals w a) = avals w a).
    { apply firstn_all2. unfold avals. rewrite map_length. exact C1. }
    rewrite FA.
    destruct (acap a <? n) eqn:C.
    + apply Nat.ltb_lt in C.
      destruct (mk_copy_ok w r W I) as (E1 & T1 & V1). run E1.
      set (t := nxt w) in *. set (w1 := w_mk w (val w r) (ECopy t r)) in *.
      assert (H1 : holds w1 (aelems a)) by (apply (holds_keep _ _ _ _ _ _ (aelems a) T1 H)).
      assert (Hb1 : holdsb w1 (ablks a)) by (eapply holdsb_frame0; eauto).
      destruct (arr_reserve_ok a n w1 ltac:(twf T1) H1 Hb1 WF)
        as (a1 & w2 & E2 & T2 & V2 & WF2 & C2 & S2 & _). run E2.
      assert (It1 : In t (dom (heap w1))) by apply mk_live.
      assert (Nt : ~ In t (aelems a)).
      { intro J. apply (holds_lt _ _ _ W H) in J. subst t. lia. }
      destruct (trans_keep _ _ _ _ _ _ t T2 It1 Nt) as [Vt It2].
      assert (L2 : length (aelems a1) = length (aelems a)) by (eapply avals_len; eauto).
      destruct (arr_resize_fit_ok a1 n t w2 ltac:(twf T2) (trans_holds _ _ _ _ _ _ T2 H1)
                  (trans_holdsb _ _ _ _ _ _ T2 Hb1) WF2 C2 (or_introl (S2 ltac:(lia))) It2)
        as (a2 & w3 & E3 & T3 & V3 & WF3). run E3.
      assert (T13 : trans w w3 (aelems a) (t :: aelems a2) (ablks a) (ablks a2)).
      { assert (T12 : trans w w2 (aelems a) (t :: aelems a1) (ablks a) (ablks a1)).
        { eapply (trans_seq (aelems a) [t] (ablks a) [] _ _ _ _ _ _ _ _ _ _ _ _ _ _ _ T1 T2); msolve. }
        eapply (trans_seq [] [t] [] [] _ _ _ _ _ _ _ _ _ _ _ _ _ _ _ T12 T3); msolve. }
      assert (It3 : In t (dom (heap w3))) by (eapply in_new; [exact T13 | exact H | left; auto]).
      destruct (destroy_ok w3 t ltac:(twf T3) It3) as [E4 T4]. run E4.
      eexists _, _. split; [reflexivity|]. split; [|split]; auto.
      * eapply (trans_seq [] (aelems a2) [] (ablks a2) _ _ _ _ _ _ _ _ _ _ _ _ _ _ _ T13 T4); msolve.
      * assert (Nt2 : ~ In t (aelems a2)).
        { pose proof (holds_nodup _ _ ltac:(twf T3) (trans_holds _ _ _ _ _ _ T13 H)) as ND.
          inversion ND; auto. }
        unfold avals. erewrite trans_keep_map; [| exact T4 |].
        -- fold (avals w3 a2). rewrite V3, V2, L2. unfold avals at 1. f_equal.
           ++ eapply trans_keep_map; [exact T1|]. intros i J. split; [eapply holds_in; eauto | tauto].
           ++ rewrite Vt. f_equal. exact V1.
        -- intros i J. split.
           ++ eapply in_new; [exact T13 | exact H | right; auto].
           ++ intros [Q|[]]. subst i. tauto.
    + apply Nat.ltb_ge in C.
      destruct (astore a) eqn:Q.
      * assert (St : astore a <> None \/ n = 0) by (left; rewrite Q; discriminate).
        destruct (arr_resize_fit_ok a n r w W H Hb WF C St I) as (a' & w' & E & T & V & WF').
        exists a', w'. auto.
      * apply arr_resize_fit_none_ok; auto.
Qed.

(* list facts for remove *)
Lemma remove_at_split {A} i (l : list A) : remove_at i l = firstn i l ++ tl (skipn i l).
Proof.
  revert i; induction l as [|h t IH]; intros [|i]; cbn [remove_at firstn skipn tl app]; auto.
  f_equal. apply IH.
Qed.
Lemma map_tl {A B} (f : A -> B) l : map f (tl l) = tl (map f l).
Proof. destruct l; reflexivity. Qed.
Lemma removelast_app' {A} (p s : list A) : s <> [] -> removelast (p ++ s) = p ++ removelast s.
Proof. apply removelast_app. Qed.
Lemma last_app' {A} (p s : list A) d : s <> [] -> last (p ++ s) d = last s d.
Proof.
  intros N. induction p as [|h t IH]; cbn [app]; auto.
  rewrite <- IH. destruct (t ++ s) eqn:E; [|reflexivity].
  apply app_eq_nil in E. tauto.
Qed.
Lemma last_in {A} (s : list A) d : s <> [] -> In (last s d) s.
Proof.
  induction s as [|h t IH]; [congruence|]. intros _. destruct t; [left; auto|].
  right. apply IH. discriminate.
Qed.

Lemma arr_remove_ok a i w :
  wfw w -> holds w (aelems a) -> holdsb w (ablks a) -> awf a -> i < length (aelems a) ->
  exists a' w', arr_remove a i w = Ok (a', w') /\
    trans w w' (aelems a) (aelems a') (ablks a) (ablks a') /\
    avals w' a' = remove_at i (avals w a) /\ awf a'.
Proof.
  intros W H Hb WF Li. unfold arr_remove.
  replace (i <? length (aelems a)) with true by (symmetry; apply Nat.ltb_lt; auto).
  set (l := aelems a) in *. set (p := firstn i l). set (s := skipn i l).
  assert (El : l = p ++ s) by (symmetry; apply firstn_skipn).
  assert (Ns : s <> []).
  { intro Q. apply (f_equal (@length id)) in Q. unfold s in Q. rewrite skipn_length in Q. cbn in Q. lia. }
  assert (Hs : holds w s) by (eapply holds_sub; [exact H | apply mle_skipn]).
  destruct (shift_down_ok s w W Hs) as (w1 & E1 & T1 & V1). run E1.
  assert (Ela : last l 0 = last s 0) by (rewrite El; apply last_app'; auto).
  assert (Il : In (last l 0) (dom (heap w1))).
  { rewrite Ela. eapply in_new; [exact T1 | exact Hs | apply last_in; auto]. }
  destruct (destroy_ok w1 (last l 0) ltac:(twf T1) Il) as [E2 T2]. run E2.
  set (w2 := w_destroy w1 (last l 0)) in *.
  eexists _, _. split; [reflexivity|]. unfold set_elems. cbn [aelems astore acap].
  assert (Nl : l <> []) by (rewrite El; destruct p; [exact Ns | discriminate]).
  pose proof (app_removelast_last 0 Nl) as Erl.
  pose proof (holds_nodup _ _ W H) as ND.
  split; [|split].
  - unfold ablks. cbn [astore]. fold (ablks a).
    assert (Q1 : meq l (p ++ s)) by (rewrite <- El; apply meq_refl).
    assert (Q2 : meq l (removelast l ++ [last l 0])) by (exact (eq_ind _ (fun z => meq l z) (meq_refl l) _ Erl)).
    eapply (trans_seq p (removelast l) (ablks a) (ablks a) _ _ _ _ _ _ _ _ _ _ _ _ _ _ _ T1 T2); msolve.
  - unfold avals. cbn [aelems]. fold l.
    rewrite remove_at_split, firstn_map, skipn_map, <- map_tl. fold p s.
    rewrite El at 1. rewrite removelast_app' by auto. rewrite map_app. f_equal.
    + (* the part in front of the removed index is untouched *)
      assert (Dp : forall j, In j p -> ~ In j s).
      { intros j J K. rewrite El in ND. rewrite nodup_cnt in ND. specialize (ND j).
        apply in_cnt in J. apply in_cnt in K. autorewrite with cntdb in ND. lia. }
      transitivity (map (val w1) p).
      * eapply trans_keep_map; [exact T2|]. intros j J. split.
        -- eapply trans_keep; [exact T1 | | apply Dp; auto].
           eapply holds_in; [exact H|]. rewrite El. apply in_or_app. left. auto.
        -- intros [Q|[]]. apply (Dp j J). rewrite <- Q, Ela. apply last_in. auto.
      * eapply trans_keep_map; [exact T1|]. intros j J. split; [|apply Dp; auto].
        eapply holds_in; [exact H|]. rewrite El. apply in_or_app. left. auto.
    + rewrite <- V1.
      eapply trans_keep_map; [exact T2|]. intros j J. split.
      * eapply in_new; [exact T1 | exact Hs |].
        rewrite (app_removelast_last 0 Ns). apply in_or_app. left. auto.
      * intros [Q|[]].
        pose proof (holds_nodup _ _ W Hs) as NDs.
        assert (Qs : meq s (removelast s ++ [last s 0])).
        { exact (eq_ind _ (fun z => meq s z) (meq_refl s) _ (app_removelast_last 0 Ns)). }
        rewrite nodup_cnt in NDs. specialize (NDs j). specialize (Qs j). apply in_cnt in J.
        autorewrite with cntdb in Qs. rewrite <- Ela, Q, one_same in Qs. lia.
  - destruct WF as [WFa WFb]. split; cbn [astore acap aelems]; auto.
    intro Q. pose proof (WFa Q) as E0. exfalso. unfold l in Li. rewrite E0 in Li. cbn in Li. lia.
Qed.

Lemma arr_clear_ok a w :
  wfw w -> holds w (aelems a) -> awf a ->
  exists a' w', arr_clear a w = Ok (a', w') /\
    trans w w' (aelems a) (aelems a') (ablks a) (ablks a') /\ aelems a' = [] /\ awf a'.
Proof.
  intros W H WF. unfold arr_clear. destruct (astore a) as [b|] eqn:St.
  - destruct (destroy_list_ok _ w W H) as (w' & E & T). run E.
    eexists _, _. split; [reflexivity|]. unfold set_elems, ablks. cbn [aelems astore acap]. rewrite St.
    split; [|split; [reflexivity|]].
    + eapply trans_perm; [apply (trans_frame _ _ _ _ _ _ [] [b] T) | | | |]; msolve.
    + destruct WF as [WFa WFb]. split; cbn [astore acap aelems]; rewrite ?St;
        [intro Q; discriminate | intros _; apply WFb; rewrite St; discriminate].
  - exists a, w. split; [reflexivity|]. split; [apply trans_refl; auto|].
    split; [apply (proj1 WF St) | exact WF].
Qed.

Lemma arr_dtor_ok a w :
  wfw w -> holds w (aelems a) -> holdsb w (ablks a) -> awf a ->
  exists w', arr_dtor a w = Ok (tt, w') /\ trans w w' (aelems a) [] (ablks a) [].
Proof.
  intros W H Hb WF. unfold arr_dtor, ablks in *. destruct (astore a) as [b|] eqn:St.
  - destruct (destroy_list_ok _ w W H) as (w1 & E & T). run E.
    assert (Ib : In b (blks w1)).
    { eapply holdsb_in; [eapply holdsb_frame0; [exact T | exact Hb] | left; auto]. }
    destruct (bfree_ok w1 b ltac:(twf T) Ib) as [E2 T2].
    exists (w_bfree w1 b). split; [exact E2|].
    eapply (trans_seq [] [] [b] [] _ _ _ _ _ _ _ _ _ _ _ _ _ _ _ T T2); msolve.
  - exists w. split; [reflexivity|]. rewrite (proj1 WF St). apply trans_refl. auto.
Qed.

Lemma arr_copy_new_ok o w :
  wfw w -> holds w (aelems o) -> awf o ->
  exists a' w', arr_copy_new o w = Ok (a', w') /\
    trans w w' [] (aelems a') [] (ablks a') /\ avals w' a' = avals w o /\ awf a'.
Proof.
  intros W H WF. unfold arr_copy_new.
  destruct (arr_reserve_ok arr_new (acap o) w W (holds_nil w) (holdsb_nil w) awf_new)
    as (a1 & w1 & E1 & T1 & V1 & WF1 & C1 & S1 & _). run E1.
  cbn [aelems arr_new ablks astore] in T1.
  assert (L1 : aelems a1 = []).
  { unfold avals in V1. cbn [arr_new aelems map] in V1. eapply map_eq_nil'; eauto. }
  rewrite L1 in T1.
  assert (H1 : holds w1 (aelems o)) by (eapply holds_frame0; eauto).
  destruct (copy_list_ok (aelems o) w1 ltac:(twf T1)) as (l' & w' & E2 & T2 & V2).
  { intros s J. eapply holds_in; eauto. }
  run E2. eexists _, _. split; [reflexivity|]. unfold set_elems. cbn [aelems astore acap].
  split; [|split].
  - unfold ablks at 1. cbn [astore]. fold (ablks a1).
    eapply (trans_seq [] [] [] (ablks a1) _ _ _ _ _ _ _ _ _ _ _ _ _ _ _ T1 T2); msolve.
  - unfold avals. cbn [aelems]. rewrite V2.
    eapply trans_keep_map; [exact T1|]. intros i J. split; [eapply holds_in; eauto | tauto].
  - destruct WF1 as [WFa WFb]. split; cbn [astore acap aelems]; auto.
    intro Q.
    assert (Z0 : acap o = 0).
    { destruct (Nat.eq_dec (acap o) 0) as [Z|Z]; [exact Z|]. exfalso. apply S1; [lia | exact Q]. }
    destruct (astore o) eqn:So.
    + pose proof (proj2 WF ltac:(rewrite So; discriminate)). lia.
    + rewrite (proj1 WF So) in V2. cbn [map] in V2. eapply map_eq_nil'; eauto.
Qed.

Lemma arr_assign_ok a o w :
  wfw w -> holds w (aelems a ++ aelems o) -> holdsb w (ablks a) -> awf a -> awf o ->
  exists a' w', arr_assign a o w = Ok (a', w') /\
    trans w w' (aelems a) (aelems a') (ablks a) (ablks a') /\ avals w' a' = avals w o /\ awf a'.
Proof.
  intros W H Hb WF WFo. unfold arr_assign.
  pose proof (holds_app_l _ _ _ H) as Ha. pose proof (holds_app_r _ _ _ H) as Ho.
  destruct (arr_clear_ok a w W Ha WF) as (a1 & w1 & E1 & T1 & L1 & WF1). run E1.
  assert (Ho1 : holds w1 (aelems o)) by (apply (holds_keep _ _ _ _ _ _ (aelems o) T1 H)).
  assert (Ha1 : holds w1 (aelems a1)) by (rewrite L1; apply holds_nil).
  destruct (arr_reserve_ok a1 (acap o) w1 ltac:(twf T1) Ha1 (trans_holdsb _ _ _ _ _ _ T1 Hb) WF1)
    as (a2 & w2 & E2 & T2 & V2 & WF2 & C2 & S2 & _). run E2.
  assert (L2 : aelems a2 = []).
  { unfold avals in V2. rewrite L1 in V2. cbn [map] in V2. eapply map_eq_nil'; eauto. }
  assert (Ho2 : holds w2 (aelems o)).
  { apply (holds_keep _ _ _ _ _ _ (aelems o) T2). rewrite L1. exact Ho1. }
  destruct (copy_list_ok (aelems o) w2 ltac:(twf T2)) as (l' & w' & E3 & T3 & V3).
  { intros s J. eapply holds_in; eauto. }
  run E3. eexists _, _. split; [reflexivity|]. unfold set_elems. cbn [aelems astore acap].
  assert (T12 : trans w w2 (aelems a) [] (ablks a) (ablks a2)).
  { eapply (trans_seq [] [] [] [] _ _ _ _ _ _ _ _ _ _ _ _ _ _ _ T1 T2); try msolve.
    rewrite L2. msolve. }
  assert (Dis : forall i, In i (aelems o) -> ~ In i (aelems a)).
  { intros i J K. eapply (holds_disjoint _ _ _ _ W H); eauto. }
  split; [|split].
  - unfold ablks at 2. cbn [astore]. fold (ablks a2).
    eapply (trans_seq [] [] [] (ablks a2) _ _ _ _ _ _ _ _ _ _ _ _ _ _ _ T12 T3); msolve.
  - unfold avals. cbn [aelems]. rewrite V3.
    eapply trans_keep_map; [exact T12|]. intros i J. split; [eapply holds_in; eauto | apply Dis; auto].
  - destruct WF2 as [WFa WFb]. split; cbn [astore acap aelems]; auto.
    intro Q.
    assert (Z0 : acap o = 0).
    { destruct (Nat.eq_dec (acap o) 0) as [Z|Z]; [exact Z|]. exfalso. apply S2; [lia | exact Q]. }
    destruct (astore o) eqn:So.
    + pose proof (proj2 WFo ltac:(rewrite So; discriminate)). lia.
    + rewrite (proj1 WFo So) in V3. cbn [map] in V3. eapply map_eq_nil'; eauto.
Qed.

(* the elements the appended array holds, as the frame of the operation *)
Definition other_elems (o : option arr) : list id := match o with Some y => aelems y | None => [] end.

Lemma arr_append_arr_ok a o w :
  wfw w -> holds w (aelems a ++ other_elems o) -> holdsb w (ablks a) -> awf a ->
  exists a' w', arr_append_arr a o w = Ok (a', w') /\
    trans w w' (aelems a) (aelems a') (ablks a) (ablks a') /\
    avals w' a' = avals w a ++ avals w (match o with Some y => y | None => a end) /\ awf a'.
Proof.
  intros W H Hb WF. unfold arr_append_arr.
  pose proof (holds_app_l _ _ _ H) as Ha. pose proof (holds_app_r _ _ _ H) as Ho.
  set (n := length (aelems (match o with Some y => y | None => a end))).
  destruct (arr_reserve_ok a (length (aelems a) + n) w W Ha Hb WF)
    as (a1 & w1 & E1 & T1 & V1 & WF1 & C1 & S1 & _). run E1.
  assert (L1 : length (aelems a1) = length (aelems a)) by (eapply avals_len; eauto).
  set (src := firstn n (aelems (match o with Some y => y | None => a1 end))).
  assert (Hsrc : forall s, In s src -> In s (dom (heap w1))).
  { intros s J. unfold src in J. apply (mle_in _ _ _ (mle_firstn _ _)) in J. destruct o as [y|].
    - eapply holds_in; [apply (holds_keep _ _ _ _ _ _ (aelems y) T1 H) | exact J].
    - eapply in_new; [exact T1 | exact Ha | exact J]. }
  destruct (copy_list_ok src w1 ltac:(twf T1) Hsrc) as (l' & w' & E2 & T2 & V2). run E2.
  eexists _, _. split; [reflexivity|]. unfold set_elems. cbn [aelems astore acap].
  split; [|split].
  - unfold ablks at 2. cbn [astore]. fold (ablks a1).
    eapply (trans_seq [] (aelems a1) [] (ablks a1) _ _ _ _ _ _ _ _ _ _ _ _ _ _ _ T1 T2); msolve.
  - unfold avals. cbn [aelems]. rewrite map_app. f_equal.
    + transitivity (map (val w1) (aelems a1)); [|exact V1].
      eapply trans_keep_map; [exact T2|]. intros i J. split; [|tauto].
      eapply in_new; [exact T1 | exact Ha | exact J].
    + rewrite V2. unfold src. destruct o as [y|].
      * unfold n. rewrite firstn_all. cbn [other_elems] in *.
        eapply trans_keep_map; [exact T1|]. intros i J. split; [eapply holds_in; eauto|].
        eapply (holds_disjoint _ _ _ _ W H); eauto.
      * unfold n. rewrite <- L1, firstn_all. exact V1.
  - destruct WF1 as [WFa WFb]. split; cbn [astore acap aelems]; auto.
    intro Q. pose proof (WFa Q) as E0.
    assert (Z0 : length (aelems a) + n = 0).
    { destruct (Nat.eq_dec (length (aelems a) + n) 0) as [Z|Z]; [exact Z|]. exfalso. apply S1; [lia | exact Q]. }
    assert (Zs : src = []).
    { unfold src. replace n with 0 by lia. reflexivity. }
    rewrite Zs in V2. cbn [map] in V2. apply map_eq_nil' in V2. rewrite V2, E0. reflexivity.
Qed.

(* append(const T* values, n) with values = &y[i] (o = Some y) or = &this[i] (o = None) *)
Lemma arr_append_range_ok a o i n w :
  wfw w -> holds w (aelems a ++ other_elems o) -> holdsb w (ablks a) -> awf a ->
  exists a' w', arr_append_range a o i n w = Ok (a', w') /\
    trans w w' (aelems a) (aelems a') (ablks a) (ablks a') /\
    avals w' a' = avals w a ++ firstn n (skipn i (avals w (match o with Some y => y | None => a end))) /\ awf a'.
Proof.
  intros W H Hb WF. unfold arr_append_range.
  pose proof (holds_app_l _ _ _ H) as Ha. pose proof (holds_app_r _ _ _ H) as Ho.
  destruct (arr_reserve_ok a (length (aelems a) + n) w W Ha Hb WF)
    as (a1 & w1 & E1 & T1 & V1 & WF1 & C1 & S1 & _). run E1.
  set (src := firstn n (skipn i (aelems (match o with Some y => y | None => a1 end)))).
  assert (Hsrc : forall s, In s src -> In s (dom (heap w1))).
  { intros s J. unfold src in J. apply (mle_in _ _ _ (mle_firstn _ _)) in J.
    apply (mle_in _ _ _ (mle_skipn _ _)) in J. destruct o as [y|].
    - eapply holds_in; [apply (holds_keep _ _ _ _ _ _ (aelems y) T1 H) | exact J].
    - eapply in_new; [exact T1 | exact Ha | exact J]. }
  destruct (copy_list_ok src w1 ltac:(twf T1) Hsrc) as (l' & w' & E2 & T2 & V2). run E2.
  eexists _, _. split; [reflexivity|]. unfold set_elems. cbn [aelems astore acap].
  split; [|split].
  - unfold ablks at 2. cbn [astore]. fold (ablks a1).
    eapply (trans_seq [] (aelems a1) [] (ablks a1) _ _ _ _ _ _ _ _ _ _ _ _ _ _ _ T1 T2); msolve.
  - unfold avals. cbn [aelems]. rewrite map_app. f_equal.
    + transitivity (map (val w1) (aelems a1)); [|exact V1].
      eapply trans_keep_map; [exact T2|]. intros j J. split; [|tauto].
      eapply in_new; [exact T1 | exact Ha | exact J].
    + rewrite V2. unfold src. rewrite <- firstn_map, <- skipn_map. f_equal. f_equal. destruct o as [y|].
      * cbn [other_elems] in *.
        eapply trans_keep_map; [exact T1|]. intros j J. split; [eapply holds_in; eauto|].
        eapply (holds_disjoint _ _ _ _ W H); eauto.
      * exact V1.
  - destruct WF1 as [WFa WFb]. split; cbn [astore acap aelems]; auto.
    intro Q. pose proof (WFa Q) as E0.
    assert (Z0 : n = 0).
    { destruct (Nat.eq_dec n 0) as [Z|Z]; [exact Z|]. exfalso. apply S1; [lia | exact Q]. }
    assert (Zs : src = []).
    { unfold src. rewrite Z0. reflexivity. }
    rewrite Zs in V2. cbn [map] in V2. apply map_eq_nil' in V2. rewrite V2, E0. reflexivity.
Qed.

(* ---- third round: find, append(const T*, n) from elements outside every container ---- *)
Lemma arr_find_ok a r w : wfw w -> holds w (aelems a) -> In r (dom (heap w)) ->
  arr_find a r w = Ok (a, w).
Proof.
  intros W H I. unfold arr_find. run (rd_ok w r I).
  assert (L : forall i, In i (aelems a) -> In i (dom (heap w))) by (intros i J; eapply holds_in; eauto).
  run (rd_list_ok w _ L). reflexivity.
Qed.

Lemma arr_append_ids_ok a srcs w :
  wfw w -> holds w (aelems a ++ srcs) -> holdsb w (ablks a) -> awf a ->
  exists a' w', arr_append_ids a srcs w = Ok (a', w') /\
    trans w w' (aelems a) (aelems a') (ablks a) (ablks a') /\
    avals w' a' = avals w a ++ map (val w) srcs /\ awf a'.
Proof.
  intros W H Hb WF. unfold arr_append_ids.
  pose proof (holds_app_l _ _ _ H) as Ha. pose proof (holds_app_r _ _ _ H) as Ho.
  destruct (arr_reserve_ok a (length (aelems a) + length srcs) w W Ha Hb WF)
    as (a1 & w1 & E1 & T1 & V1 & WF1 & C1 & S1 & _). run E1.
  assert (Hsrc : forall s, In s srcs -> In s (dom (heap w1))).
  { intros s J. eapply holds_in; [apply (holds_keep _ _ _ _ _ _ srcs T1 H) | exact J]. }
  destruct (copy_list_ok srcs w1 ltac:(twf T1) Hsrc) as (l' & w' & E2 & T2 & V2). run E2.
  eexists _, _. split; [reflexivity|]. unfold set_elems. cbn [aelems astore acap].
  split; [|split].
  - unfold ablks at 2. cbn [astore]. fold (ablks a1).
    eapply (trans_seq [] (aelems a1) [] (ablks a1) _ _ _ _ _ _ _ _ _ _ _ _ _ _ _ T1 T2); msolve.
  - unfold avals. cbn [aelems]. rewrite map_app. f_equal.
    + transitivity (map (val w1) (aelems a1)); [|exact V1].
      eapply trans_keep_map; [exact T2|]. intros i J. split; [|tauto].
      eapply in_new; [exact T1 | exact Ha | exact J].
    + rewrite V2.
      eapply trans_keep_map; [exact T1|]. intros i J. split; [eapply holds_in; eauto|].
      eapply (holds_disjoint _ _ _ _ W H); eauto.
  - destruct WF1 as [WFa WFb]. split; cbn [astore acap aelems]; auto.
    intro Q. pose proof (WFa Q) as E0.
    assert (Z0 : length (aelems a) + length srcs = 0).
    { destruct (Nat.eq_dec (length (aelems a) + length srcs) 0) as [Z|Z]; [exact Z|]. exfalso. apply S1; [lia | exact Q]. }
    assert (Zs : srcs = []) by (destruct srcs; [reflexivity | cbn in Z0; lia]).
    rewrite Zs in V2. cbn [map] in V2. apply map_eq_nil' in V2. rewrite V2, E0. reflexivity.
Qed.

Lemma arr_append_vals_ok a zs w :
  wfw w -> holds w (aelems a) -> holdsb w (ablks a) -> awf a ->
  exists a' w', arr_append_vals a zs w = Ok (a', w') /\
    trans w w' (aelems a) (aelems a') (ablks a) (ablks a') /\
    avals w' a' = avals w a ++ zs /\ awf a'.
Proof.
  intros W H Hb WF. unfold arr_append_vals.
  destruct (mk_vals_ok zs w W) as (ts & w1 & E1 & T1 & V1). run E1.
  assert (H1 : holds w1 (aelems a ++ ts)).
  { eapply holds_sub; [apply (trans_holds_frame _ _ _ _ _ _ (aelems a) T1); exact H | msolve]. }
  assert (Hb1 : holdsb w1 (ablks a)) by (eapply holdsb_frame0; eauto).
  destruct (arr_append_ids_ok a ts w1 ltac:(twf T1) H1 Hb1 WF) as (a' & w2 & E2 & T2 & V2 & WF2). run E2.
  assert (H2 : holds w2 (aelems a' ++ ts)) by (apply (trans_holds_frame _ _ _ _ _ _ ts T2 H1)).
  assert (Hr : holds w2 (rev ts)) by (eapply holds_sub; [exact H2 | msolve]).
  destruct (destroy_list_ok _ w2 ltac:(twf T2) Hr) as (w3 & E3 & T3). run E3.
  exists a', w3. split; [reflexivity|]. split; [|split].
  - assert (T12 : trans w w2 (aelems a) (aelems a' ++ ts) (ablks a) (ablks a')).
    { eapply (trans_seq (aelems a) ts (ablks a) [] _ _ _ _ _ _ _ _ _ _ _ _ _ _ _ T1 T2); msolve. }
    eapply (trans_seq [] (aelems a') [] (ablks a') _ _ _ _ _ _ _ _ _ _ _ _ _ _ _ T12 T3); msolve.
  - unfold avals. erewrite trans_keep_map; [| exact T3 |].
    + fold (avals w2 a'). rewrite V2, V1. f_equal.
      unfold avals. eapply trans_keep_map; [exact T1|]. intros i J. split; [eapply holds_in; eauto | tauto].
    + intros i J. split; [eapply holds_in; [exact H2 | apply in_or_app; left; exact J]|].
      intro K. apply in_rev in K. eapply (holds_disjoint _ _ _ _ ltac:(twf T2) H2); eauto.
  - exact WF2.
Qed.
