(* Small list helpers shared by the models: in-place update, chunking. *)
From Coq Require Import List Arith Lia.
Import ListNotations.

Fixpoint upd {A} (n : nat) (x : A) (l : list A) : list A :=
  match l, n with
  | [], _ => []
  | _ :: t, O => x :: t
  | h :: t, S n' => h :: upd n' x t
  end.

Lemma upd_length {A} n (x : A) l : length (upd n x l) = length l.
Proof. revert n; induction l as [|h t IH]; intros [|n]; simpl; auto. Qed.

Lemma nth_upd_same {A} n (x d : A) l : n < length l -> nth n (upd n x l) d = x.
Proof. revert n; induction l as [|h t IH]; intros [|n] H; simpl in *; try lia; auto. apply IH. lia. Qed.

Lemma nth_upd_other {A} n m (x d : A) l : n <> m -> nth m (upd n x l) d = nth m l d.
Proof. revert n m; induction l as [|h t IH]; intros [|n] [|m] H; simpl; auto; try lia. Qed.

Lemma firstn_upd_ge {A} n m (x : A) l : m <= n -> firstn m (upd n x l) = firstn m l.
Proof.
  revert n m; induction l as [|h t IH]; intros [|n] [|m] H; simpl; auto; try lia.
  f_equal. apply IH. lia.
Qed.

Lemma upd_app_at {A} (a b : list A) (x y : A) : upd (length a) x (a ++ y :: b) = a ++ x :: b.
Proof. induction a as [|h t IH]; simpl; auto. f_equal. exact IH. Qed.

(* split a list into chunks of n (the last one possibly short); fuel = length suffices *)
Fixpoint chunks_fuel {A} (fuel n : nat) (l : list A) : list (list A) :=
  match fuel with
  | O => []
  | S f => match l with
           | [] => []
           | _ => firstn n l :: chunks_fuel f n (skipn n l)
           end
  end.
Definition chunks {A} (n : nat) (l : list A) : list (list A) := chunks_fuel (length l) n l.
