(* Machine words as Z with the wrap written explicitly. *)
From Coq Require Import ZArith List Lia Bool.
Import ListNotations.
Local Open Scope Z_scope.
Local Open Scope bool_scope.

Definition w8  (x : Z) : Z := x mod 256.
Definition w32 (x : Z) : Z := x mod 4294967296.
Definition w64 (x : Z) : Z := x mod 18446744073709551616.

(* signed views (two's complement) *)
Definition sx8  (x : Z) : Z := let y := w8 x  in if y <? 128 then y else y - 256.
Definition sx32 (x : Z) : Z := let y := w32 x in if y <? 2147483648 then y else y - 4294967296.
Definition sx64 (x : Z) : Z := let y := w64 x in if y <? 9223372036854775808 then y else y - 18446744073709551616.

Definition add32 (x y : Z) : Z := w32 (x + y).
Definition shl32 (x : Z) (n : Z) : Z := w32 (Z.shiftl x n).
Definition shr32 (x : Z) (n : Z) : Z := Z.shiftr x n.
Definition rotr32 (x : Z) (n : Z) : Z := Z.lor (shr32 x n) (shl32 x (32 - n)).

Definition is_byte (b : Z) : bool := (0 <=? b) && (b <? 256).
Definition wf_bytes (l : list Z) : bool := forallb is_byte l.

Lemma w32_range x : 0 <= w32 x < 4294967296.
Proof. unfold w32. apply Z.mod_pos_bound. lia. Qed.

Lemma w32_idem x : w32 (w32 x) = w32 x.
Proof. unfold w32. apply Z.mod_mod. lia. Qed.

Lemma w32_small x : 0 <= x < 4294967296 -> w32 x = x.
Proof. intros. unfold w32. apply Z.mod_small. lia. Qed.

Lemma wf_bytes_app a b : wf_bytes (a ++ b) = wf_bytes a && wf_bytes b.
Proof. unfold wf_bytes. apply forallb_app. Qed.

Lemma wf_bytes_forall l : wf_bytes l = true <-> (forall b, In b l -> 0 <= b < 256).
Proof.
  unfold wf_bytes. rewrite forallb_forall. unfold is_byte.
  split; intros H b Hb; specialize (H b Hb); lia.
Qed.

(* forces nat, Z and positive into every extraction (the shared OCaml helpers use them) *)
Definition anchor (n : nat) (z : Z) (p : positive) : nat * Z * positive := (n, z, p).
