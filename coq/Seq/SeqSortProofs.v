(* List::sort: the value-level quicksort of the model never runs out of fuel and returns an
   ascending permutation, for every key function. *)
From Coq Require Import ZArith List Bool Lia Sorting.Sorted Sorting.Permutation.
From Seq Require Import SeqSpec SeqModel.
Import ListNotations.
Local Open Scope Z_scope.

Lemma frev_rev {A} (l : list A) : frev l = rev l.
Proof. unfold frev. symmetry. apply rev_alt. Qed.

Section SortProofs.
  Variable key : Z -> Z.

  Definition below (p x : Z) : Prop := key x < key p.
  Definition notbelow (p x : Z) : Prop := key p <= key x.

  Lemma vlt_true x p : vlt key x p = true -> below p x.
  Proof. unfold vlt, below. intros H. apply Z.ltb_lt in H. exact H. Qed.
  Lemma vlt_false x p : vlt key x p = false -> notbelow p x.
  Proof. unfold vlt, notbelow. intros H. apply Z.ltb_ge in H. exact H. Qed.

  (* the partition loop: what it returns is a split of everything it was given *)
  Lemma part_spec p rest : forall lessr gf gb lessr' geq',
      part key p lessr gf gb rest = (lessr', geq') ->
      Forall (below p) lessr -> Forall (notbelow p) gf -> Forall (notbelow p) gb ->
      Permutation (lessr' ++ geq') (lessr ++ gf ++ gb ++ rest)
      /\ Forall (below p) lessr' /\ Forall (notbelow p) geq'.
  Proof.
    induction rest as [|x r IH]; intros lessr gf gb lessr' geq' Hp Hl Hgf Hgb; cbn [part] in Hp;
      rewrite ?frev_rev in Hp.
    - inversion Hp; subst lessr' geq'. clear Hp. rewrite app_nil_r. split; [|split].
      + apply Permutation_app_head. apply Permutation_app_head. symmetry. apply Permutation_rev.
      + exact Hl.
      + apply Forall_app. split; [exact Hgf|]. apply Forall_rev. exact Hgb.
    - destruct (vlt key x p) eqn:Hx.
      + apply vlt_true in Hx.
        destruct gf as [|g gf'].
        * destruct (rev gb) as [|g gf'] eqn:Hrev.
          -- assert (gb = []) as ->.
             { destruct gb as [|y gb']; [reflexivity|]. cbn in Hrev. destruct (rev gb'); discriminate. }
             apply IH in Hp; [|constructor; assumption|constructor|constructor].
             destruct Hp as (P & A & B). split; [|split; assumption].
             rewrite P. cbn. apply Permutation_middle.
          -- assert (Hperm : Permutation gb (g :: gf')).
             { rewrite <- Hrev. apply Permutation_rev. }
             assert (Hall : Forall (notbelow p) (g :: gf')).
             { rewrite <- Hrev. apply Forall_rev. exact Hgb. }
             inversion Hall as [|? ? Hg Hgf']; subst.
             apply IH in Hp; [|constructor; assumption|assumption|constructor; [assumption|constructor]].
             destruct Hp as (P & A & B). split; [|split; assumption].
             rewrite P. cbn.
             (* x :: lessr ++ gf' ++ g :: r   ~   lessr ++ gb ++ x :: r *)
             rewrite Hperm. cbn.
             transitivity (x :: lessr ++ g :: gf' ++ r).
             { constructor. apply Permutation_app_head.
               symmetry. apply Permutation_middle. }
             { transitivity (lessr ++ x :: g :: gf' ++ r).
               - apply Permutation_middle.
               - apply Permutation_app_head.
                 change (x :: g :: gf' ++ r) with ((x :: g :: gf') ++ r).
                 change (g :: gf' ++ x :: r) with ((g :: gf') ++ x :: r).
                 etransitivity; [|apply Permutation_middle]. reflexivity. }
        * inversion Hgf as [|? ? Hg Hgf']; subst.
          apply IH in Hp; [|constructor; assumption|assumption|constructor; assumption].
          destruct Hp as (P & A & B). split; [|split; assumption].
          rewrite P. cbn.
          transitivity (x :: lessr ++ (g :: gf') ++ gb ++ r).
          { constructor. apply Permutation_app_head. cbn.
            etransitivity; [|apply Permutation_middle with (l1 := []) ].
            cbn. rewrite app_assoc.
            etransitivity; [symmetry; apply Permutation_middle|]. rewrite <- app_assoc. reflexivity. }
          { etransitivity; [apply Permutation_middle|].
            apply Permutation_app_head. cbn.
            change (x :: g :: gf' ++ gb ++ r) with ((x :: g :: gf') ++ gb ++ r).
            transitivity ((g :: gf') ++ x :: gb ++ r).
            - symmetry. etransitivity; [symmetry; apply Permutation_middle|]. reflexivity.
            - cbn. constructor. apply Permutation_app_head. apply Permutation_middle. }
      + apply vlt_false in Hx.
        apply IH in Hp; [|assumption|assumption|constructor; assumption].
        destruct Hp as (P & A & B). split; [|split; assumption].
        rewrite P. apply Permutation_app_head. apply Permutation_app_head. cbn.
        apply Permutation_middle.
  Qed.

  Definition left_of (lessr : list Z) : list Z := match lessr with [] => [] | m :: ls => m :: frev ls end.

  Lemma left_of_perm lessr : Permutation (left_of lessr) lessr.
  Proof. destruct lessr as [|m ls]; cbn; [constructor|]. rewrite frev_rev. constructor. symmetry. apply Permutation_rev. Qed.

  Lemma SS_app (a b : list Z) :
    StronglySorted (key_le key) a -> StronglySorted (key_le key) b ->
    (forall x y, In x a -> In y b -> key_le key x y) -> StronglySorted (key_le key) (a ++ b).
  Proof.
    induction a as [|h t IH]; intros Ha Hb Hab; cbn; [exact Hb|].
    inversion Ha as [|? ? Ht Hh]; subst. constructor.
    - apply IH; [exact Ht|exact Hb|]. intros x y Hx Hy. apply Hab; [right; exact Hx|exact Hy].
    - apply Forall_app. split; [exact Hh|]. apply Forall_forall. intros y Hy. apply Hab; [left; reflexivity|exact Hy].
  Qed.

  Lemma SS_short (l : list Z) : (length l < 2)%nat -> StronglySorted (key_le key) l.
  Proof.
    destruct l as [|a [|b t]]; cbn; intros H; try lia; repeat constructor.
  Qed.

  Lemma qsort_correct : forall fuel l, (length l <= fuel)%nat -> (1 <= fuel)%nat ->
      exists r, qsort key fuel l = Some r /\ Permutation l r /\ StronglySorted (key_le key) r.
  Proof.
    induction fuel as [|f IH]; intros l Hlen Hf; [lia|].
    destruct l as [|p [|y rest']].
    - exists []. cbn. repeat split; constructor.
    - exists [p]. cbn. repeat split; [reflexivity|repeat constructor].
    - remember (y :: rest') as rest eqn:Hrest.
      assert (Hq : qsort key (S f) (p :: rest) =
                   let '(lessr, geq) := part key p [] [] [] rest in
                   let left := left_of lessr in
                   match (if Nat.leb 2 (length left) then qsort key f left else Some left),
                         (if Nat.leb 2 (length geq) then qsort key f geq else Some geq) with
                   | Some a, Some b => Some (a ++ p :: b)
                   | _, _ => None
                   end).
      { subst rest. reflexivity. }
      rewrite Hq. clear Hq.
      destruct (part key p [] [] [] rest) as [lessr geq] eqn:Hpart. cbv zeta.
      apply part_spec in Hpart; [|constructor|constructor|constructor].
      destruct Hpart as (P & Hless & Hgeq). cbn [app] in P.
      assert (Hlens : (length lessr + length geq = length rest)%nat).
      { rewrite <- app_length. apply Permutation_length. exact P. }
      assert (Hleft : Permutation (left_of lessr) lessr) by apply left_of_perm.
      assert (Hll : length (left_of lessr) = length lessr) by (apply Permutation_length; exact Hleft).
      cbn [length] in Hlen.
      (* left part *)
      assert (HA : exists a, (if Nat.leb 2 (length (left_of lessr)) then qsort key f (left_of lessr) else Some (left_of lessr)) = Some a
                             /\ Permutation (left_of lessr) a /\ StronglySorted (key_le key) a).
      { destruct (Nat.leb 2 (length (left_of lessr))) eqn:E.
        - apply Nat.leb_le in E. apply IH; lia.
        - apply Nat.leb_gt in E. exists (left_of lessr). split; [reflexivity|]. split; [reflexivity|]. apply SS_short. exact E. }
      assert (HB : exists b, (if Nat.leb 2 (length geq) then qsort key f geq else Some geq) = Some b
                             /\ Permutation geq b /\ StronglySorted (key_le key) b).
      { destruct (Nat.leb 2 (length geq)) eqn:E.
        - apply Nat.leb_le in E. apply IH; lia.
        - apply Nat.leb_gt in E. exists geq. split; [reflexivity|]. split; [reflexivity|]. apply SS_short. exact E. }
      destruct HA as (a & -> & Pa & Sa). destruct HB as (b & -> & Pb & Sb).
      exists (a ++ p :: b). split; [reflexivity|]. split.
      + transitivity (p :: a ++ b); [|apply Permutation_middle].
        constructor. rewrite <- P. apply Permutation_app; [|exact Pb].
        rewrite <- Pa. symmetry. exact Hleft.
      + assert (Ha_all : forall x, In x a -> below p x).
        { intros x Hx. eapply Forall_forall; [exact Hless|].
          eapply Permutation_in; [exact Hleft|]. eapply Permutation_in; [symmetry; exact Pa|]. exact Hx. }
        assert (Hb_all : forall x, In x b -> notbelow p x).
        { intros x Hx. eapply Forall_forall; [exact Hgeq|]. eapply Permutation_in; [symmetry; exact Pb|]. exact Hx. }
        apply SS_app; [exact Sa| |].
        * constructor; [exact Sb|]. apply Forall_forall. intros x Hx. apply Hb_all in Hx. exact Hx.
        * intros x z Hx [Hy|Hy].
          -- subst z. apply Ha_all in Hx. unfold below in Hx. unfold key_le. lia.
          -- apply Ha_all in Hx. apply Hb_all in Hy. unfold below in Hx. unfold notbelow in Hy. unfold key_le. lia.
  Qed.

  Lemma sort_total_key (l : list Z) : (2 <= length l)%nat -> exists r, qsort key (length l) l = Some r.
  Proof.
    intros H. destruct (qsort_correct (length l) l) as (r & Hr & _); [lia|lia|]. exists r. exact Hr.
  Qed.

  Lemma sort_vals_correct (l : list Z) : ascending_permutation key l (sort_vals key l).
  Proof.
    unfold ascending_permutation, sort_vals.
    destruct (Nat.ltb (length l) 2) eqn:E.
    - apply Nat.ltb_lt in E. split; [|reflexivity]. apply StronglySorted_Sorted. apply SS_short. exact E.
    - apply Nat.ltb_ge in E.
      destruct (qsort_correct (length l) l) as (r & Hr & P & S); [lia|lia|].
      rewrite Hr. split; [apply StronglySorted_Sorted; exact S|exact P].
  Qed.

  Lemma sort_vals_length (l : list Z) : length (sort_vals key l) = length l.
  Proof. symmetry. apply Permutation_length. apply sort_vals_correct. Qed.

  (* the spec's executable instance is an ascending permutation too *)
  Lemma isort_insert_perm x l : Permutation (x :: l) (isort_insert key x l).
  Proof.
    induction l as [|y t IH]; cbn; [reflexivity|].
    destruct (key x <? key y); [reflexivity|].
    etransitivity; [apply perm_swap|]. constructor. exact IH.
  Qed.

  Lemma isort_insert_sorted x l :
    StronglySorted (key_le key) l -> StronglySorted (key_le key) (isort_insert key x l).
  Proof.
    induction l as [|y t IH]; intros S; cbn; [repeat constructor|].
    inversion S as [|? ? St Hy]; subst.
    destruct (key x <? key y) eqn:E.
    - apply Z.ltb_lt in E. constructor; [exact S|]. constructor; [unfold key_le; lia|].
      eapply Forall_impl; [|exact Hy]. unfold key_le. intros a Ha. lia.
    - apply Z.ltb_ge in E. constructor; [apply IH; exact St|].
      apply Forall_forall. intros a Ha.
      eapply Permutation_in in Ha; [|symmetry; apply isort_insert_perm].
      destruct Ha as [->|Ha]; [exact E|]. eapply Forall_forall in Hy; [exact Hy|exact Ha].
  Qed.

  Lemma isort_correct (l : list Z) : ascending_permutation key l (isort key l).
  Proof.
    unfold ascending_permutation.
    assert (H : StronglySorted (key_le key) (isort key l) /\ Permutation l (isort key l)).
    { induction l as [|x t [S P]]; cbn; [split; constructor|]. split.
      - apply isort_insert_sorted. exact S.
      - etransitivity; [|apply isort_insert_perm]. constructor. exact P. }
    destruct H as [S P]. split; [apply StronglySorted_Sorted; exact S|exact P].
  Qed.
End SortProofs.

(* for the full order on Z (key = identity) the ascending permutation is unique, so the
   model's sort IS the spec's sort *)
Lemma ascending_unique (a : list Z) : forall b,
    StronglySorted Z.le a -> StronglySorted Z.le b -> Permutation a b -> a = b.
Proof.
  induction a as [|x a' IH]; intros b Sa Sb P.
  - apply Permutation_nil in P. symmetry. exact P.
  - destruct b as [|y b']; [symmetry in P; apply Permutation_nil in P; discriminate|].
    inversion Sa as [|? ? Sa' Hx]; subst. inversion Sb as [|? ? Sb' Hy]; subst.
    assert (x = y).
    { assert (In y (x :: a')) as Hin by (eapply Permutation_in; [symmetry; exact P|left; reflexivity]).
      assert (In x (y :: b')) as Hin' by (eapply Permutation_in; [exact P|left; reflexivity]).
      destruct Hin as [E|Hin]; [exact E|]. destruct Hin' as [E|Hin']; [symmetry; exact E|].
      eapply Forall_forall in Hx; [|exact Hin]. eapply Forall_forall in Hy; [|exact Hin']. lia. }
    subst y. f_equal. apply IH; [exact Sa'|exact Sb'|]. eapply Permutation_cons_inv. exact P.
Qed.

Lemma Sorted_le_SS (l : list Z) : Sorted Z.le l -> StronglySorted Z.le l.
Proof. apply Sorted_StronglySorted. intros x y z. apply Z.le_trans. Qed.

Lemma sort_vals_full_is_isort (l : list Z) : sort_vals key_full l = isort key_full l.
Proof.
  destruct (sort_vals_correct key_full l) as [S1 P1]. destruct (isort_correct key_full l) as [S2 P2].
  apply ascending_unique.
  - apply Sorted_le_SS. exact S1.
  - apply Sorted_le_SS. exact S2.
  - rewrite <- P1. exact P2.
Qed.
