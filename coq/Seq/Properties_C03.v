(* Property C03 - only statements closed by `exact`, each followed by Print Assumptions, plus
   non-vacuity Examples.

   Clause of the property statement                       -> theorem(s)
   ------------------------------------------------------------------------------------------
   "after any sequence of append, prepend, positional insert, removal (by index, value or
    iterator), resize, reserve, clear, swap, copy and assignment, List ... contain[s] exactly the
    elements, in the order, that a reference sequence contains"
                                                           -> list_step_refines, list_history_refines
                                                              (the other list may be the list itself: lpre /
                                                              apre accept j = i since the repairs of C04)
   the same for PoolList (in-place construction = append)  -> poollist_step_refines, poollist_history_refines
                                                              (PAppendN: every append overload, 0..7
                                                              constructor arguments; the appended element
                                                              is ctor_val args = T(a, b, ...), which by
                                                              poollist_ctor_val_injective determines arity
                                                              and arguments), source_tie (the overloads
                                                              present in the source are arities 0..7 and
                                                              all of the one shape; block size, reserve
                                                              mask as read off the source)
   the same for Array (incl. resize, reserve, remove(idx), operator== / != as the size test followed by the
   element-wise loop, append(const T*, usize) with a pointer to a range of the array's own elements)
                                                           -> array_step_refines, array_history_refines
   "every returned iterator or reference designates the documented element (the inserted one, or
    the successor of the removed one)"                     -> the `res` component of the three *_refines
                                                              theorems (rank of the returned node), with
                                                              rank_of_insert_is_inserted,
                                                              rank_of_remove_is_successor,
                                                              rank_of_append_is_appended for what the
                                                              ranks of the reference object mean
   "capacity boundaries of Array growth"                   -> array_reserve_rule, array_reserve_fits,
                                                              array_reserve_grows, array_history_capacity
   Array shifting removal                                  -> array_remove_shifts
   Array at the level of storage cells (SeqArrayMemModel: allocations with a live flag and cells that are
   constructed or raw; reserve = allocate with the `| 0x03` rule, copy-construct each element, destroy the
   old one, free the old allocation; append(value / Array / buffer, incl. own element, the array itself, a
   range of its own storage), resize (all three branches, both forms), remove (shifting assignments + one
   destruction), clear, swap, operator=, copy construction, destructor, find - as the checked per-cell
   accesses the code performs): no history reaches an access error (read / assignment / destruction of raw
   storage, placement new on a constructed cell, access outside the allocation, to a freed allocation or
   through null, double free, freeing constructed elements), every live allocation belongs to exactly one
   variable, and after every operation the machine holds what the value-level Array model holds
                                                           -> arraymem_step_safe_refines,
                                                              arraymem_history_safe_refines,
                                                              arraymem_history_no_access_error,
                                                              arraymem_history_refines_spec,
                                                              arraymem_invariant_initial, arraymem_invariant_meaning;
                                                              the loops: arraymem_reserve, arraymem_reserve_move_loop,
                                                              arraymem_copy_loop, arraymem_remove_shift_loop,
                                                              arraymem_append_self, arraymem_append_own_storage
   "List::sort leaves an ascending permutation of the previous contents ... all input orders"
                                                           -> sort_as_coded_sorted_permutation,
                                                              sort_as_coded_total (pointer-level
                                                              transcription qs_loop/qs_sort, fuel = length),
                                                              sort_as_coded_depth_log (at most log2(length)
                                                              frames of QuickSort::sort are live at any time:
                                                              "all input orders" includes the long sorted and
                                                              reversed ones, on which two plain recursive calls
                                                              went length-1 deep: sort_depth_two_calls_example),
                                                              sort_as_coded_depth_is_printed_depth,
                                                              sort_printed_depth_log (the depth the model driver
                                                              prints, compared with the frames the harness counts,
                                                              is the depth of the transcription and logarithmic),
                                                              sort_as_coded_is_value_sort (it computes the
                                                              value-level model the drivers run),
                                                              sort_sorted_permutation (any key order),
                                                              sort_total (fuel = length suffices),
                                                              the LSort case of list_step_refines,
                                                              sort_keeps_nodes (iterators stay valid)
   the relinking code itself (prev/next pointers, &endItem sentinel, _begin, endItem.prev, the free
   list threaded through prev, allocation of a block of 4 items), statement by statement on a heap
   of cells, does what the node-level model says and returns the pointer to the node it names
                                                           -> link_insert_refines, link_remove_refines,
                                                              link_clear_refines, link_swap_refines,
                                                              link_append_loop_refines, link_insert_loop_refines,
                                                              link_observations (forward/backward iteration,
                                                              find, isEmpty, front, back)
   the pool (4-item blocks, LIFO free list, _size field) stays consistent in every reachable
   state: part of *_step_refines (invariants linv / ainv)  *)
From Coq Require Import ZArith List Bool Sorting.Sorted Sorting.Permutation.
From Common Require Import ListAux.
From Seq Require Import Gen_Seq SeqSpec SeqModel SeqSortProofs SeqSortPtrProofs SeqPoolProofs SeqLinkModel SeqLinkProofs SeqListProofs SeqArrayProofs SeqTieProofs.
From Seq Require Import SeqArrayMemModel SeqArrayMemProofs SeqArrayMemOps SeqArrayMemWorld.
Import ListNotations.
Local Open Scope Z_scope.

(* ---- List<T> ----------------------------------------------------------------------------- *)
Theorem list_step_refines : forall (key : Z -> Z) (w : lworld) (op : lop) (w' : lworld) (r : mres),
    linv w -> lstep key w op = (w', r) ->
    linv w' /\ lspec key (labs w) op (labs w') (lobs_res w' r).
Proof. exact lstep_refines. Qed.
Print Assumptions list_step_refines.

Theorem list_history_refines : forall (key : Z -> Z) (nv : nat) (ops : list lop),
    lspec_run key (sinit nv) ops (lobs_trace (lrun key (linit nv) ops)).
Proof. exact SeqListProofs.list_history_refines. Qed.
Print Assumptions list_history_refines.

Example list_history_nonvacuous :
  lobs_trace (lrun key_full (linit 2)
     [LAppends 0 [5; 3; 9]; LInsert 0 1 7; LRemove 0 0; LPrepend 0 4; LRemoveVal 0 9; LAppend 1 8;
      LInsertList 0 1 1; LSort 0; LRemoveBack 0; LSwap 0 1; LFind 1 7; LAssign 0 1; LEq 0 1; LInsert 0 9 1])
  = [([[5; 3; 9]; []], RNone); ([[5; 7; 3; 9]; []], RIt 1%nat); ([[7; 3; 9]; []], RIt 0%nat);
     ([[4; 7; 3; 9]; []], RRef 0%nat); ([[4; 7; 3]; []], RNone); ([[4; 7; 3]; [8]], RRef 0%nat);
     ([[4; 8; 7; 3]; [8]], RIt 1%nat); ([[3; 4; 7; 8]; [8]], RNone); ([[3; 4; 7]; [8]], RIt 3%nat);
     ([[8]; [3; 4; 7]], RNone); ([[8]; [3; 4; 7]], RIt 2%nat); ([[3; 4; 7]; [3; 4; 7]], RNone);
     ([[3; 4; 7]; [3; 4; 7]], RBool true); ([[3; 4; 7]; [3; 4; 7]], RSkip)].
Proof. vm_compute. reflexivity. Qed.

(* ---- PoolList<T> ------------------------------------------------------------------------- *)
Theorem poollist_step_refines : forall (w : lworld) (op : pop) (w' : lworld) (r : mres),
    linv w -> pstep w op = (w', r) ->
    linv w' /\ pspec (labs w) op = (labs w', lobs_res w' r).
Proof. exact pstep_refines. Qed.
Print Assumptions poollist_step_refines.

Theorem poollist_history_refines : forall (nv : nat) (ops : list pop),
    pspec_run (sinit nv) ops = lobs_trace (prun (linit nv) ops).
Proof. exact SeqListProofs.poollist_history_refines. Qed.
Print Assumptions poollist_history_refines.

Example poollist_history_nonvacuous :
  lobs_trace (prun (linit 2) [PAppend 0 1; PAppend 0 2; PAppend 0 3; PAppend 0 4; PAppend 0 5; PRemove 0 1;
                              PRemoveRef 0 2; PAppend 0 6; PRemoveBack 0; PSwap 0 1; PRemoveFront 1; PClear 1; PRemove 1 0])
  = [([[1]; []], RRef 0%nat); ([[1; 2]; []], RRef 1%nat); ([[1; 2; 3]; []], RRef 2%nat);
     ([[1; 2; 3; 4]; []], RRef 3%nat); ([[1; 2; 3; 4; 5]; []], RRef 4%nat); ([[1; 3; 4; 5]; []], RIt 1%nat);
     ([[1; 3; 5]; []], RNone); ([[1; 3; 5; 6]; []], RRef 3%nat); ([[1; 3; 5]; []], RIt 3%nat);
     ([[]; [1; 3; 5]], RNone); ([[]; [3; 5]], RIt 0%nat); ([[]; []], RNone); ([[]; []], RSkip)].
Proof. vm_compute. reflexivity. Qed.

(* every append overload: the element is built from all the arguments, in their order *)
Theorem poollist_ctor_val_injective : forall a b : list Z,
    ctor_args_ok a = true -> ctor_args_ok b = true -> ctor_val a = ctor_val b -> a = b.
Proof. exact ctor_val_injective. Qed.
Print Assumptions poollist_ctor_val_injective.

Example poollist_arities_nonvacuous :
  lobs_trace (prun (linit 1) [PAppendN 0 []; PAppendN 0 [5]; PAppendN 0 [1; 2; 3]; PAppendN 0 [1; 2; 2];
                              PAppendN 0 [1; 2; 3; 4; 5; 6; 7]; PAppendN 0 [1; 2; 3; 4; 5; 6; 7; 0]; PAppendN 0 [8]])
  = [([[0]], RRef 0%nat); ([[0; 41]], RRef 1%nat); ([[0; 41; 1675]], RRef 2%nat); ([[0; 41; 1675; 1163]], RRef 3%nat);
     ([[0; 41; 1675; 1163; 16434831]], RRef 4%nat); ([[0; 41; 1675; 1163; 16434831]], RSkip);
     ([[0; 41; 1675; 1163; 16434831]], RSkip)].
Proof. vm_compute. reflexivity. Qed.

(* the constants / overload shapes read off the source text on every run are those of the models *)
Theorem source_tie :
    (forall args, ctor_args_ok args = true -> In (length args) gen_poollist_append_arities)
    /\ (forall n, In n gen_poollist_append_arities -> ctor_args_ok (repeat 0 n) = true)
    /\ (forall l, free l = [] ->
          length (fst (fst (alloc l)) :: snd (fst (alloc l))) = gen_list_block_items
          /\ gen_poollist_block_items = gen_list_block_items)
    /\ (forall n a, cap a < n -> cap (a_reserve n a) = Z.lor n gen_array_reserve_mask).
Proof. exact SeqTieProofs.source_tie. Qed.
Print Assumptions source_tie.

Example source_tie_nonvacuous :
  gen_poollist_append_arities = [0; 1; 2; 3; 4; 5; 6; 7]%nat /\ fst (alloc nl_empty) = (3%nat, [2; 1; 0]%nat)
  /\ cap (a_reserve 5 (mk_marr [1] 3 true)) = 7.
Proof. vm_compute. split; [reflexivity|split; reflexivity]. Qed.

(* ---- Array<T> ---------------------------------------------------------------------------- *)
Theorem array_step_refines : forall (w : aworld) (op : aop) (w' : aworld) (r : mres),
    ainv w -> astep w op = (w', r) ->
    ainv w' /\ aspec (aabs w) op = (aabs w', aobs_res r).
Proof. exact astep_refines. Qed.
Print Assumptions array_step_refines.

Theorem array_history_refines : forall (nv : nat) (ops : list aop),
    aspec_run (sinit nv) ops = aobs_trace (arun (ainit nv) ops).
Proof. exact SeqArrayProofs.array_history_refines. Qed.
Print Assumptions array_history_refines.

(* the specification proper: `aspec_ok` demands of every call the statement speaks about (atext: every call except
   remove(index) with index >= size()) that it does what `aspec` says, from the state the previous calls left, and
   nothing of the others.  What the code does on remove(index >= size()) - nothing - is a statement about the model. *)
Theorem array_history_refines_text : forall (nv : nat) (ops : list aop),
    aspec_ok (sinit nv) ops (aobs_trace (arun (ainit nv) ops)).
Proof. exact SeqArrayProofs.array_history_refines_text. Qed.
Print Assumptions array_history_refines_text.

Theorem array_remove_idx_beyond_size_is_noop : forall (k : nat) (a : marr),
    (length (items a) <= k)%nat -> a_remove_idx k a = a.
Proof. exact a_remove_idx_beyond. Qed.
Print Assumptions array_remove_idx_beyond_size_is_noop.

Example array_text_nonvacuous :
  atext (fun _ => 2%nat) 3 (ARemoveIdx 0 1) = true /\ atext (fun _ => 2%nat) 3 (ARemoveIdx 0 2) = false
  /\ atext (fun _ => 2%nat) 3 (ARemoveIdx 5 9) = true /\ atext (fun _ => 0%nat) 3 (AAppend 0 1) = true
  /\ aspec_ok (sinit 1) [AAppend 0 1; ARemoveIdx 0 1; AAppend 0 2] [([[1]], RRef 0%nat); ([[]], RNone); ([[2]], RRef 0%nat)]
  /\ ~ aspec_ok (sinit 1) [AAppend 0 1; ARemoveIdx 0 0; AAppend 0 2] [([[1]], RRef 0%nat); ([[1]], RNone); ([[1; 2]], RRef 1%nat)].
Proof.
  split; [reflexivity|]. split; [reflexivity|]. split; [reflexivity|]. split; [reflexivity|]. split.
  - constructor; [intros _; reflexivity|]. constructor; [intros H; discriminate H|]. constructor; [intros _; reflexivity|]. constructor.
  - intros H. inversion H as [|s op s1 r ops tr _ H1]; subst. inversion H1 as [|s' op' s1' r' ops' tr' H2 _]; subst.
    specialize (H2 eq_refl). discriminate H2.
Qed.

(* capacity() >= size(); an allocated array has a capacity that is 3 modulo 4; an unallocated one is empty *)
Theorem array_history_capacity : forall (nv : nat) (ops : list aop),
    Forall (fun wr => forall i, asize (aget i (fst wr)) <= cap (aget i (fst wr))
                                /\ (allocated (aget i (fst wr)) = true -> cap (aget i (fst wr)) mod 4 = 3)
                                /\ (allocated (aget i (fst wr)) = false -> items (aget i (fst wr)) = []))
           (arun (ainit nv) ops).
Proof. exact SeqArrayProofs.array_history_capacity. Qed.
Print Assumptions array_history_capacity.

Example array_history_nonvacuous :
  map (fun wr => (aabs (fst wr), aobs_res (snd wr), map cap (fst wr)))
      (arun (ainit 2) [AAppend 0 1; AAppendBuf 0 [2; 3]; AAppend 0 4; AAppend 0 5; ARemoveIt 0 1; ARemoveIdx 0 9;
                       AResize 0 6 7; AResizeD 0 2; AReserve 0 9; ACopy 1 0; ANewCap 0 5; AAppendArr 0 1;
                       ARemoveBack 0; AFind 1 5; AClear 1; ARemoveFront 1])
  = [([[1]; []], RRef 0%nat, [3; 0]); ([[1; 2; 3]; []], RNone, [3; 0]); ([[1; 2; 3; 4]; []], RRef 3%nat, [7; 0]);
     ([[1; 2; 3; 4; 5]; []], RRef 4%nat, [7; 0]); ([[1; 3; 4; 5]; []], RIt 1%nat, [7; 0]);
     ([[1; 3; 4; 5]; []], RNone, [7; 0]); ([[1; 3; 4; 5; 7; 7]; []], RNone, [7; 0]); ([[1; 3]; []], RNone, [7; 0]);
     ([[1; 3]; []], RNone, [11; 0]); ([[1; 3]; [1; 3]], RNone, [11; 11]); ([[]; [1; 3]], RNone, [5; 11]);
     ([[1; 3]; [1; 3]], RNone, [7; 11]); ([[1]; [1; 3]], RIt 1%nat, [7; 11]); ([[1]; [1; 3]], RIt 2%nat, [7; 11]);
     ([[1]; []], RNone, [7; 11]); ([[1]; []], RSkip, [7; 11])].
Proof. vm_compute. reflexivity. Qed.

(* void reserve(usize size), decision by decision *)
Theorem array_reserve_rule : forall (n : Z) (a : marr),
    items (a_reserve n a) = items a
    /\ (if (n >? cap a) || (negb (allocated a) && (n >? 0))
        then cap (a_reserve n a) = Z.lor (Z.max n (cap a)) 3 /\ allocated (a_reserve n a) = true
        else a_reserve n a = a).
Proof. exact a_reserve_rule. Qed.
Print Assumptions array_reserve_rule.

(* at the boundary: a request that fits an allocated buffer changes nothing (no reallocation) ... *)
Theorem array_reserve_fits : forall (n : Z) (a : marr), allocated a = true -> n <= cap a -> a_reserve n a = a.
Proof. exact a_reserve_fits. Qed.
Print Assumptions array_reserve_fits.

(* ... one more element and the capacity is the request rounded up to the next number 3 modulo 4 *)
Theorem array_reserve_grows : forall (n : Z) (a : marr), cap a < n ->
    cap (a_reserve n a) = n - n mod 4 + 3 /\ allocated (a_reserve n a) = true /\ items (a_reserve n a) = items a.
Proof. exact a_reserve_grows. Qed.
Print Assumptions array_reserve_grows.

Example array_reserve_boundary :
  let a := mk_marr [1; 2; 3] 3 true in
  a_reserve 3 a = a /\ cap (a_reserve 4 a) = 7 /\ cap (a_reserve 8 a) = 11 /\ cap (a_reserve 1 (mk_marr [] 0 false)) = 3
  /\ a_reserve 0 (mk_marr [] 0 false) = mk_marr [] 0 false /\ cap (a_reserve 2 (mk_marr [] 5 false)) = 7.
Proof. vm_compute. repeat split; reflexivity. Qed.

(* the shifting loop of remove: exactly the element at the index disappears *)
Theorem array_remove_shifts : forall (k : nat) (l : list Z), shift_out k l = del_at k l.
Proof. exact shift_out_del_at. Qed.
Print Assumptions array_remove_shifts.

Example array_remove_shifts_nonvacuous : shift_out 2 [10; 11; 12; 13; 14] = [10; 11; 13; 14] /\ shift_out 4 [10; 11; 12; 13; 14] = [10; 11; 12; 13].
Proof. vm_compute. split; reflexivity. Qed.

(* ---- Array<T> at the level of storage cells --------------------------------------------------------- *)
(* one operation: from a consistent world it ends WITHOUT an access error in a consistent world, and the
   value-level model computes, from the abstraction of the world before, the abstraction of the world after
   (contents, size, capacity, allocation flag of every variable) and the same result *)
Theorem arraymem_step_safe_refines : forall (w : sworld) (op : aop), winv w ->
    exists w' r, sstep w op = SOk w' r /\ winv w' /\ astep (sabs w) op = (sabs w', r).
Proof. exact sstep_ok. Qed.
Print Assumptions arraymem_step_safe_refines.

(* every history from default-constructed variables *)
Theorem arraymem_history_safe_refines : forall (nv : nat) (ops : list aop),
    exists tr, srun (swinit nv) ops = inl tr /\ sabs_trace tr = arun (ainit nv) ops
               /\ Forall (fun wr => winv (fst wr)) tr.
Proof. exact arraymem_history. Qed.
Print Assumptions arraymem_history_safe_refines.

Theorem arraymem_history_no_access_error : forall (nv : nat) (ops : list aop) (e : aerr), srun (swinit nv) ops <> inr e.
Proof. exact arraymem_history_safe. Qed.
Print Assumptions arraymem_history_no_access_error.

Theorem arraymem_history_refines_spec : forall (nv : nat) (ops : list aop),
    exists tr, srun (swinit nv) ops = inl tr
               /\ aspec_run (sinit nv) ops = map (fun wr => (aabs (sabs (fst wr)), aobs_res (snd wr))) tr.
Proof. exact SeqArrayMemWorld.arraymem_history_refines_spec. Qed.
Print Assumptions arraymem_history_refines_spec.

Theorem arraymem_invariant_initial : forall nv : nat, winv (swinit nv).
Proof. exact winv_init. Qed.
Print Assumptions arraymem_invariant_initial.

(* the invariant, spelled out: the allocation of a variable is live and has _capacity cells, the first
   size() of them constructed, the others raw; a variable without allocation is empty; no allocation is
   shared; every live allocation belongs to a variable (nothing is leaked, freed storage holds no element) *)
Theorem arraymem_invariant_meaning : forall w : sworld, winv w ->
    (forall i b, (i < length (sarrs w))%nat -> sbeg (swget i w) = Some b ->
       exists cs, nth_error (sheap w) b = Some (mk_block true cs)
                  /\ Z.of_nat (length cs) = scap (swget i w)
                  /\ (send (swget i w) <= length cs)%nat
                  /\ (forall k, (k < send (swget i w))%nat -> exists v, nth_error cs k = Some (Some v))
                  /\ (forall k, (send (swget i w) <= k < length cs)%nat -> nth_error cs k = Some None))
    /\ (forall i, (i < length (sarrs w))%nat -> sbeg (swget i w) = None -> send (swget i w) = O)
    /\ (forall i j b, (i < length (sarrs w))%nat -> (j < length (sarrs w))%nat ->
          sbeg (swget i w) = Some b -> sbeg (swget j w) = Some b -> i = j)
    /\ (forall b blk, nth_error (sheap w) b = Some blk -> blive blk = true ->
          exists i, (i < length (sarrs w))%nat /\ sbeg (swget i w) = Some b).
Proof. exact winv_meaning. Qed.
Print Assumptions arraymem_invariant_meaning.

Example arraymem_history_nonvacuous :
  let ops := [AAppend 0 1; AAppendBuf 0 [2; 3]; AAppend 0 4; ARemoveIt 0 1; AResize 0 6 7; AResizeD 0 2; AReserve 0 9;
              ACopy 1 0; ANewCap 0 5; AAppendArr 0 1; AAppendArr 0 0; AAppendArr 0 0; AAppendBufOwn 0 1 3; AAppendOwn 0 7;
              AResizeOwn 0 14 2; ASwap 0 1; AAssign 0 1; ARemoveIdx 1 0; ARemoveBack 1; AClear 0; ANew 1] in
  match srun (swinit 2) ops with
  | inl tr => (map (fun wr => map items (sabs (fst wr))) tr, map (fun wr => (live_blocks (sheap (fst wr)), length (sheap (fst wr)))) tr)
  | inr _ => ([], [])
  end
  = ([[[1]; []]; [[1; 2; 3]; []]; [[1; 2; 3; 4]; []]; [[1; 3; 4]; []]; [[1; 3; 4; 7; 7; 7]; []]; [[1; 3]; []]; [[1; 3]; []];
      [[1; 3]; [1; 3]]; [[]; [1; 3]]; [[1; 3]; [1; 3]]; [[1; 3; 1; 3]; [1; 3]]; [[1; 3; 1; 3; 1; 3; 1; 3]; [1; 3]];
      [[1; 3; 1; 3; 1; 3; 1; 3; 3; 1; 3]; [1; 3]]; [[1; 3; 1; 3; 1; 3; 1; 3; 3; 1; 3; 3]; [1; 3]];
      [[1; 3; 1; 3; 1; 3; 1; 3; 3; 1; 3; 3; 1; 1]; [1; 3]]; [[1; 3]; [1; 3; 1; 3; 1; 3; 1; 3; 3; 1; 3; 3; 1; 1]];
      [[1; 3; 1; 3; 1; 3; 1; 3; 3; 1; 3; 3; 1; 1]; [1; 3; 1; 3; 1; 3; 1; 3; 3; 1; 3; 3; 1; 1]];
      [[1; 3; 1; 3; 1; 3; 1; 3; 3; 1; 3; 3; 1; 1]; [3; 1; 3; 1; 3; 1; 3; 3; 1; 3; 3; 1; 1]];
      [[1; 3; 1; 3; 1; 3; 1; 3; 3; 1; 3; 3; 1; 1]; [3; 1; 3; 1; 3; 1; 3; 3; 1; 3; 3; 1]];
      [[]; [3; 1; 3; 1; 3; 1; 3; 3; 1; 3; 3; 1]]; [[]; []]],
     [(1, 1); (1, 1); (1, 2); (1, 2); (1, 2); (1, 2); (1, 3); (2, 4); (1, 4); (2, 5); (2, 5); (2, 6); (2, 6); (2, 7); (2, 7);
      (2, 7); (2, 8); (2, 8); (2, 8); (2, 8); (1, 8)]%nat).
Proof. vm_compute. reflexivity. Qed.

(* the checks of the machine are live: each kind of bad access is an error *)
Example arraymem_errors_nonvacuous :
  rd (Some 0%nat) 0 [mk_block false [Some 1]] = Err EFreed
  /\ rd (Some 0%nat) 1 [mk_block true [Some 1]] = Err EOob
  /\ rd (Some 0%nat) 0 [mk_block true [None]] = Err ERaw
  /\ rd None 0 [] = Err ENull
  /\ construct (Some 0%nat) 0 5 [mk_block true [Some 1]] = Err ETwice
  /\ construct (Some 0%nat) 1 5 [mk_block true [Some 1]] = Err EOob
  /\ destroy (Some 0%nat) 0 [mk_block true [None]] = Err ERaw
  /\ assign (Some 0%nat) 0 5 [mk_block true [None]] = Err ERaw
  /\ mem_free (Some 0%nat) [mk_block true [Some 1]] = Err ELeak
  /\ mem_free (Some 0%nat) [mk_block false [None]] = Err EDblFree
  /\ rd_src (SVals [1; 2]) 2 [] = Err EOob
  (* appending the array to itself with values._begin.item taken BEFORE reserve() would read freed storage: *)
  /\ (let a := mk_sarr (Some 0%nat) 3 3 in
      bind (s_reserve 6 a) (fun a1 => copy_loop 3 (SPtr (sbeg a) 0) 0 (sbeg a1) (send a1)) [mk_block true [Some 1; Some 2; Some 3]])
     = Err EFreed
  (* reserve() that moved one element too few would free constructed storage: *)
  /\ bind (move_loop 2 (Some 0%nat) (Some 1%nat) 0) (fun _ => mem_free (Some 0%nat))
          [mk_block true [Some 1; Some 2; Some 3]; mk_block true [None; None; None; None; None; None; None]] = Err ELeak
  (* remove() that shifted from the far end would keep the wrong elements - and remove(end()) destroys raw storage: *)
  /\ s_remove 3 (mk_sarr (Some 0%nat) 3 3) [mk_block true [Some 1; Some 2; Some 3]] = Err EOob.
Proof. vm_compute. repeat split; reflexivity. Qed.

(* operator== / operator!=: value-level model and storage machine (which reads the cells of both arrays) *)
Example array_eq_nonvacuous :
  let ops := [AAppendBuf 0 [1; 2]; AAppendBuf 1 [1; 2]; AEq 0 1; AAppend 1 3; AEq 0 1; ANe 0 1; AEq 2 2; ARemoveBack 1; AEq 1 0;
              AAppendBuf 1 [7]; ARemoveIdx 1 1; AEq 0 1; ANe 1 1] in
  let want := [MNone; MNone; MBool true; MRefIdx 2; MBool false; MBool true; MSkip; MIdx 2; MBool true; MNone; MNone; MBool false;
               MBool false] in
  map snd (arun (ainit 2) ops) = want
  /\ match srun (swinit 2) ops with inl tr => map snd tr = want | inr _ => False end.
Proof. vm_compute. split; reflexivity. Qed.

(* reserve at the level of cells: no error; the same elements, now in the storage the object points to; capacity and
   allocation flag as the value-level rule says; other allocations untouched, the old one freed empty *)
Theorem arraymem_reserve : forall (n : Z) (a : sarr) (h : mheap) (L : list Z), has_arr h a L ->
    exists h' a', s_reserve n a h = Ok a' h' /\ has_arr h' a' L /\ abs_arr a' L = a_reserve n (abs_arr a L)
                  /\ step_frame h a h' a'.
Proof. exact s_reserve_ok. Qed.
Print Assumptions arraymem_reserve.

(* its loop: every element is copy-constructed into the raw cell of the same index of the other allocation and then
   destroyed where it was *)
Theorem arraymem_reserve_move_loop : forall (S : list Z) (sb db : nat) (spre spost dpre dpost : list (option Z)) (h : mheap),
    sb <> db -> length spre = length dpre ->
    nth_error h sb = Some (mk_block true (spre ++ map Some S ++ spost)) ->
    nth_error h db = Some (mk_block true (dpre ++ repeat None (length S) ++ dpost)) ->
    move_loop (length S) (Some sb) (Some db) (length spre) h
    = Ok tt (upd sb (mk_block true (spre ++ repeat None (length S) ++ spost))
              (upd db (mk_block true (dpre ++ map Some S ++ dpost)) h)).
Proof. exact move_loop_ok. Qed.
Print Assumptions arraymem_reserve_move_loop.

(* the placement-new loop of append / copy construction / operator=: the source may be the caller's buffer,
   another allocation, or cells of the same allocation before the ones being constructed *)
Theorem arraymem_copy_loop : forall (S : list Z) (s : src) (k b : nat) (pre post : list (option Z)) (h : mheap),
    nth_error h b = Some (mk_block true (pre ++ repeat None (length S) ++ post)) ->
    (forall j, (j < length S)%nat -> rd_src s (k + j) h = Ok (nth j S 0) h) ->
    match s with SPtr (Some b') i => b' <> b \/ (i + (k + length S) <= length pre)%nat | _ => True end ->
    copy_loop (length S) s k (Some b) (length pre) h
    = Ok tt (upd b (mk_block true (pre ++ map Some S ++ post)) h).
Proof. exact copy_loop_ok. Qed.
Print Assumptions arraymem_copy_loop.

(* the loop of remove: the elements behind the position move down by one assignment each; the last cell keeps its value
   until it is destroyed *)
Theorem arraymem_remove_shift_loop : forall (S : list Z) (x : Z) (b : nat) (pre post : list (option Z)) (h : mheap),
    nth_error h b = Some (mk_block true (pre ++ Some x :: map Some S ++ post)) ->
    shift_loop (length S) (Some b) (length pre) h
    = Ok tt (upd b (mk_block true (pre ++ map Some S ++ Some (last S x) :: post)) h).
Proof. exact shift_loop_ok. Qed.
Print Assumptions arraymem_remove_shift_loop.

(* append(const Array&) where the argument may be the array itself (self = true) *)
Theorem arraymem_append_self : forall (self : bool) (o a : sarr) (h : mheap) (L Lo : list Z),
    has_arr h a L -> has_arr h o Lo -> (self = true -> o = a) ->
    (self = false -> forall b, sbeg o = Some b -> sbeg a <> Some b) ->
    exists h' a', s_append_arr self o a h = Ok a' h' /\ has_arr h' a' (L ++ Lo)
                  /\ abs_arr a' (L ++ Lo) = a_append_all Lo (abs_arr a L) /\ step_frame h a h' a'.
Proof. exact s_append_arr_ok. Qed.
Print Assumptions arraymem_append_self.

(* append(const T*, usize) with a pointer to the range [off, off + n) of the array's own elements *)
Theorem arraymem_append_own_storage : forall (off n : nat) (a : sarr) (h : mheap) (L : list Z),
    has_arr h a L -> (off + n <= length L)%nat ->
    let S := firstn n (skipn off L) in
    exists h' a', s_append_buf (SPtr (sbeg a) off) n a h = Ok a' h' /\ has_arr h' a' (L ++ S)
                  /\ abs_arr a' (L ++ S) = a_append_all S (abs_arr a L) /\ step_frame h a h' a'.
Proof. exact s_append_buf_own_ok. Qed.
Print Assumptions arraymem_append_own_storage.

Example arraymem_loops_nonvacuous :
  let h := [mk_block true [Some 1; Some 2; Some 3]] in
  s_reserve 4 (mk_sarr (Some 0%nat) 3 3) h
    = Ok (mk_sarr (Some 1%nat) 3 7) [mk_block false [None; None; None]; mk_block true [Some 1; Some 2; Some 3; None; None; None; None]]
  /\ s_remove 0 (mk_sarr (Some 0%nat) 3 3) h = Ok (mk_sarr (Some 0%nat) 2 3) [mk_block true [Some 2; Some 3; None]]
  /\ s_append_buf (SPtr (Some 0%nat) 1) 2 (mk_sarr (Some 0%nat) 3 3) h
    = Ok (mk_sarr (Some 1%nat) 5 7) [mk_block false [None; None; None]; mk_block true [Some 1; Some 2; Some 3; Some 2; Some 3; None; None]]
  /\ has_arr h (mk_sarr (Some 0%nat) 3 3) [1; 2; 3].
Proof.
  cbv zeta. split; [vm_compute; reflexivity|]. split; [vm_compute; reflexivity|]. split; [vm_compute; reflexivity|].
  split; [|split; reflexivity]. unfold a_inv, asize, abs_arr. cbn. split; [discriminate|]. split; [discriminate|reflexivity].
Qed.

(* ---- what the ranks mean ------------------------------------------------------------------ *)
Theorem rank_of_insert_is_inserted : forall (k : nat) (x : list Z) (v : Z) (l : sseq),
    (k <= length l)%nat -> nth_error (ins_at k (v :: x) l) k = Some v.
Proof. exact ins_at_designates. Qed.
Print Assumptions rank_of_insert_is_inserted.

Theorem rank_of_remove_is_successor : forall (k : nat) (l : sseq), (k < length l)%nat ->
    nth_error (del_at k l) k = nth_error l (S k) /\ length (del_at k l) = pred (length l).
Proof. exact del_at_designates. Qed.
Print Assumptions rank_of_remove_is_successor.

Theorem rank_of_append_is_appended : forall (l : sseq) (v : Z), nth_error (l ++ [v]) (length l) = Some v.
Proof. exact append_designates. Qed.
Print Assumptions rank_of_append_is_appended.

Example ranks_nonvacuous :
  nth_error (ins_at 2 [9] [1; 2; 3; 4]) 2 = Some 9 /\ nth_error (del_at 1 [1; 2; 3; 4]) 1 = Some 3
  /\ nth_error (del_at 3 [1; 2; 3; 4]) 3 = None.
Proof. vm_compute. repeat split; reflexivity. Qed.

(* ---- List::sort ---------------------------------------------------------------------------- *)
(* the recursion never runs out of fuel (fuel = length), for every key order *)
Theorem sort_total : forall (key : Z -> Z) (l : list Z), (2 <= length l)%nat -> exists r, qsort key (length l) l = Some r.
Proof. exact sort_total_key. Qed.
Print Assumptions sort_total.

(* ascending (by key) permutation of the previous contents, for every key order and every input *)
Theorem sort_sorted_permutation : forall (key : Z -> Z) (l : list Z),
    Sorted (key_le key) (sort_vals key l) /\ Permutation l (sort_vals key l).
Proof. exact sort_vals_correct. Qed.
Print Assumptions sort_sorted_permutation.

Theorem sort_sorted_permutation_int : forall l : list Z,
    Sorted Z.le (sort_vals key_full l) /\ Permutation l (sort_vals key_full l).
Proof. exact (sort_vals_correct key_full). Qed.
Print Assumptions sort_sorted_permutation_int.

(* sort exchanges values only: every node stays in its slot *)
Theorem sort_keeps_nodes : forall (key : Z -> Z) (l : nlist), nl_inv l -> slots (nodes (nl_sort key l)) = slots (nodes l).
Proof. exact lsort_keeps_nodes. Qed.
Print Assumptions sort_keeps_nodes.

Example sort_nonvacuous :
  sort_vals key_full [5; 2; 9; 2; 7; 1; 8] = [1; 2; 2; 5; 7; 8; 9]
  /\ sort_vals key_kv [33; 17; 34; 1; 18; 35] = [1; 18; 17; 33; 34; 35]
  /\ qsort key_full 7 [5; 2; 9; 2; 7; 1; 8] = Some [1; 2; 2; 5; 7; 8; 9].
Proof. vm_compute. repeat split; reflexivity. Qed.

(* ---- List::sort statement by statement on node positions (ptr0/ptr1/ptr2, swap, the two
        guarded recursive calls) ------------------------------------------------------------- *)
Theorem sort_as_coded_is_value_sort : forall (key : Z -> Z) (l : list Z), sort_ptr key l = sort_vals key l.
Proof. exact sort_ptr_is_sort_vals. Qed.
Print Assumptions sort_as_coded_is_value_sort.

Theorem sort_as_coded_total : forall (key : Z -> Z) (l : list Z), (2 <= length l)%nat ->
    exists r, qs_sort key (length l) 0 (length l - 1) l = Some r.
Proof. exact sort_ptr_total. Qed.
Print Assumptions sort_as_coded_total.

Theorem sort_as_coded_sorted_permutation : forall (key : Z -> Z) (l : list Z),
    Sorted (key_le key) (sort_ptr key l) /\ Permutation l (sort_ptr key l).
Proof. exact sort_ptr_correct. Qed.
Print Assumptions sort_as_coded_sorted_permutation.

(* sort(left, right) touches nothing outside left..right; the number of frames of QuickSort::sort that are
   live at the deepest point is qdepth of the segment *)
Theorem sort_as_coded_segment : forall (key : Z -> Z) (fuel : nat) (pre seg post : list Z),
    (2 <= length seg)%nat -> (length seg <= fuel)%nat ->
    qs_sort key fuel (length pre) (length pre + length seg - 1) (pre ++ seg ++ post) =
    option_map (fun r => (pre ++ r ++ post, qdepth key fuel seg)) (qsort key fuel seg).
Proof. exact qs_sort_refines. Qed.
Print Assumptions sort_as_coded_segment.

(* the recursion is at most log2(length) deep, for every input order and every key order: the side sorted
   by a recursive call holds at most half of the nodes, the other side is sorted in the same frame *)
Theorem sort_depth_log : forall (key : Z -> Z) (fuel : nat) (l : list Z),
    (2 <= length l)%nat -> (length l <= fuel)%nat -> (2 ^ qdepth key fuel l <= length l)%nat.
Proof. exact qdepth_log. Qed.
Print Assumptions sort_depth_log.

Theorem sort_as_coded_depth_log : forall (key : Z -> Z) (l r : list Z) (d : nat), (2 <= length l)%nat ->
    qs_sort key (length l) 0 (length l - 1) l = Some (r, d) -> (2 ^ d <= length l)%nat.
Proof. exact sort_ptr_depth_log. Qed.
Print Assumptions sort_as_coded_depth_log.

(* what the correspondence compares: the model driver prints sort_depth next to the result of every sort, the
   harness the number of distinct frames of QuickSort::sort that were live during the call *)
Theorem sort_as_coded_depth_is_printed_depth : forall (key : Z -> Z) (l r : list Z) (d : nat), (2 <= length l)%nat ->
    qs_sort key (length l) 0 (length l - 1) l = Some (r, d) -> d = sort_depth key l.
Proof. exact sort_ptr_depth_is_sort_depth. Qed.
Print Assumptions sort_as_coded_depth_is_printed_depth.

Theorem sort_printed_depth_log : forall (key : Z -> Z) (l : list Z),
    (2 ^ sort_depth key l <= Nat.max 1 (length l))%nat.
Proof. exact sort_depth_pow. Qed.
Print Assumptions sort_printed_depth_log.

Example sort_as_coded_nonvacuous :
  sort_ptr key_full [5; 2; 9; 2; 7; 1; 8] = [1; 2; 2; 5; 7; 8; 9]
  /\ sort_ptr key_kv [33; 17; 34; 1; 18; 35] = [1; 18; 17; 33; 34; 35]
  /\ qs_sort key_full 3 1 3 [9; 3; 2; 1; 0] = Some ([9; 1; 2; 3; 0], 1%nat)
  /\ qs_loop key_full 4 0 4 [5; 7; 2; 8; 1] 0 0 0 0 0 = Some ([5; 2; 1; 8; 7], 1%nat, 2%nat, 2%nat, 2%nat)
  /\ qs_sort key_full 7 0 6 [5; 2; 9; 2; 7; 1; 8] = Some ([1; 2; 2; 5; 7; 8; 9], 2%nat).
Proof. vm_compute. repeat split; reflexivity. Qed.

(* 64 values in ascending and in descending order: one live frame after the repair (every round continues
   in the same frame); with two plain recursive calls (List::sort before fixes/C03/03) 63 *)
Example sort_depth_two_calls_example :
  let up := map Z.of_nat (seq 0 64) in
  (qdepth key_full 64 up, qdepth key_full 64 (rev up), qdepth2 key_full 64 up, qdepth2 key_full 64 (rev up))
  = (1, 1, 63, 63)%nat.
Proof. vm_compute. reflexivity. Qed.

(* the orders of the stream `sort_adversarial` - second largest first, largest last, recursively (every round
   leaves all but two values on the left) and its mirror (second smallest, smallest, recursively: all but two
   on the right): one live frame as coded, because the long side is continued in the same frame; with two plain
   recursive calls half the length *)
Example sort_depth_adversarial_example :
  (sort_depth key_full [8; 1; 3; 2; 5; 4; 7; 6; 9], qdepth2 key_full 9 [8; 1; 3; 2; 5; 4; 7; 6; 9],
   sort_depth key_full [2; 1; 4; 3; 6; 5; 8; 7; 9], qdepth2 key_full 9 [2; 1; 4; 3; 6; 5; 8; 7; 9],
   sort_depth key_full [5; 2; 9; 2; 7; 1; 8; 3; 3; 6; 0; 4], sort_depth key_full [4], sort_depth key_full [])
  = (1, 4, 1, 4, 2, 0, 0)%nat.
Proof. vm_compute. reflexivity. Qed.

(* ---- List / PoolList relinking at the level of pointers (SeqLinkModel) --------------------------- *)
(* `repr st l`: following next from _begin gives exactly the nodes of l with matching prev pointers
   up to &endItem, endItem.prev is the last node, the prev-threaded free list is free l, _size and
   the block count agree.  ptr_at o k ns = the k-th node of ns, or &endItem for k = length. *)
Theorem link_insert_refines : forall (st : lstate) (l : nlist) (k : nat) (v : Z),
    repr st l -> nl_inv l -> (k <= length (nodes l))%nat ->
    repr (fst (pl_insert (ptr_at (self st) k (nodes l)) v st)) (fst (nl_insert k v l))
    /\ snd (pl_insert (ptr_at (self st) k (nodes l)) v st) = PNode (snd (nl_insert k v l))
    /\ self (fst (pl_insert (ptr_at (self st) k (nodes l)) v st)) = self st.
Proof. exact link_insert. Qed.
Print Assumptions link_insert_refines.

Theorem link_remove_refines : forall (st : lstate) (l : nlist) (k : nat),
    repr st l -> nl_inv l -> (k < length (nodes l))%nat ->
    repr (fst (pl_remove (ptr_at (self st) k (nodes l)) st)) (fst (nl_remove k l))
    /\ snd (pl_remove (ptr_at (self st) k (nodes l)) st) = ptr_of (self st) (snd (nl_remove k l))
    /\ self (fst (pl_remove (ptr_at (self st) k (nodes l)) st)) = self st.
Proof. exact link_remove. Qed.
Print Assumptions link_remove_refines.

Theorem link_clear_refines : forall (st : lstate) (l : nlist),
    repr st l -> nl_inv l -> repr (pl_clear st) (nl_clear l) /\ self (pl_clear st) = self st.
Proof. exact link_clear. Qed.
Print Assumptions link_clear_refines.

Theorem link_swap_refines : forall (a b : lstate) (la lb : nlist),
    repr a la -> repr b lb -> nl_inv la -> nl_inv lb ->
    repr (fst (pl_swap a b)) lb /\ repr (snd (pl_swap a b)) la
    /\ self (fst (pl_swap a b)) = self a /\ self (snd (pl_swap a b)) = self b.
Proof. exact link_swap. Qed.
Print Assumptions link_swap_refines.

Theorem link_append_loop_refines : forall (vs : list Z) (st : lstate) (l : nlist), repr st l -> nl_inv l ->
    repr (pl_append_all vs st) (nl_append_all vs l) /\ self (pl_append_all vs st) = self st.
Proof. exact link_append_all. Qed.
Print Assumptions link_append_loop_refines.

Theorem link_insert_loop_refines : forall (vs : list Z) (st : lstate) (l : nlist) (k : nat),
    repr st l -> nl_inv l -> (k <= length (nodes l))%nat ->
    repr (pl_insert_all (ptr_at (self st) k (nodes l)) vs st) (nl_insert_all k vs l)
    /\ self (pl_insert_all (ptr_at (self st) k (nodes l)) vs st) = self st.
Proof. exact link_insert_all. Qed.
Print Assumptions link_insert_loop_refines.

Theorem link_observations : forall (st : lstate) (l : nlist), repr st l -> nl_inv l ->
    pl_walk (lsz st) (cells st) (begin_ st) = vals (nodes l)
    /\ pl_walk_back (lsz st) (cells st) (end_prev st) = rev (vals (nodes l))
    /\ (forall v, pl_find v st = ptr_of (self st) (nl_find v l))
    /\ pl_is_empty st = match nodes l with [] => true | _ => false end
    /\ (nodes l <> [] -> Some (pl_front st) = hd_error (vals (nodes l))
                         /\ Some (pl_back st) = hd_error (rev (vals (nodes l)))).
Proof. exact link_observe. Qed.
Print Assumptions link_observations.

Theorem link_initial : forall o : nat, repr (ls_empty o) nl_empty.
Proof. exact repr_empty. Qed.
Print Assumptions link_initial.

Example link_nonvacuous :
  let s0 := ls_empty 7 in
  let s1 := pl_append_all [1; 2; 3; 4; 5] s0 in                       (* two blocks *)
  let '(s2, r2) := pl_remove (PNode 2%nat) s1 in                          (* the node of value 2 *)
  let '(s3, r3) := pl_insert (PNode 0%nat) 9 s2 in                        (* before the node of value 4: reuses slot 2 *)
  let '(s4, r4) := pl_remove (PNode 3%nat) s3 in                          (* the first node *)
  let '(a, b) := pl_swap s4 (ls_empty 8) in
  (pl_walk 5 (cells s1) (begin_ s1), r2, pl_walk 5 (cells s3) (begin_ s3), r3, pl_walk_back 5 (cells s3) (end_prev s3),
   r4, pl_find 9 s4, pl_find 8 s4, pl_front s4, pl_back s4, lsz s4, lblocks s4,
   pl_is_empty a, pl_walk 9 (cells b) (begin_ b), pl_find 7 b, lfree (pl_clear b))
  = ([1; 2; 3; 4; 5], PNode 1%nat, [1; 3; 9; 4; 5], PNode 2%nat, [5; 4; 9; 3; 1],
     PNode 1%nat, PNode 2%nat, PEnd 7%nat, 3, 5, 4%nat, 2%nat,
     true, [3; 9; 4; 5], PEnd 8%nat, PNode 7%nat).
Proof. vm_compute. reflexivity. Qed.
