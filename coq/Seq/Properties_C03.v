(* Property C03 - only statements closed by `exact`, each followed by Print Assumptions. *)
From Coq Require Import ZArith List Sorting.Sorted Sorting.Permutation.
From Seq Require Import SeqSpec SeqModel SeqSortProofs.
Import ListNotations.
Local Open Scope Z_scope.

(* List::sort never runs out of fuel (fuel = length), for every key order *)
Theorem sort_total : forall (key : Z -> Z) (l : list Z), (2 <= length l)%nat -> exists r, qsort key (length l) l = Some r.
Proof. exact sort_total_key. Qed.
Print Assumptions sort_total.

Theorem sort_sorted_permutation : forall l : list Z,
  Sorted Z.le (sort_vals key_full l) /\ Permutation l (sort_vals key_full l).
Proof. exact (sort_vals_correct key_full). Qed.
Print Assumptions sort_sorted_permutation.
