(* Array<T>: the growth rule of reserve (`| 0x03` rounding, the `!_begin.item` clause), the
   shifting removal, and for whole histories over several variables: every step of the model
   keeps size <= capacity and refines the step of the reference sequences. *)
From Coq Require Import ZArith List Bool Lia.
From Coq Require Import ZifyBool ZifyNat.
From Common Require Import ListAux.
From Seq Require Import SeqSpec SeqModel SeqPoolProofs SeqListProofs.
Import ListNotations.
Local Open Scope Z_scope.

(* ---- c | 3 ------------------------------------------------------------------------------ *)
Lemma lor_ldiff_same a b : Z.lor (Z.ldiff a b) b = Z.lor a b.
Proof.
  apply Z.bits_inj'. intros n Hn. rewrite !Z.lor_spec, Z.ldiff_spec.
  destruct (Z.testbit a n), (Z.testbit b n); reflexivity.
Qed.

Lemma land_3_mod c : Z.land c 3 = c mod 4.
Proof. change 3 with (Z.ones 2). rewrite Z.land_ones by lia. reflexivity. Qed.

Lemma ldiff_3 c : Z.ldiff c 3 = c - c mod 4.
Proof.
  assert (E : Z.ldiff c 3 + Z.land c 3 = c).
  { rewrite Z.add_nocarry_lxor, Z.lxor_lor.
    - apply Z.lor_ldiff_and.
    - rewrite (Z.land_comm c 3), Z.land_assoc, Z.land_ldiff. reflexivity.
    - rewrite (Z.land_comm c 3), Z.land_assoc, Z.land_ldiff. reflexivity. }
  rewrite land_3_mod in E. lia.
Qed.

(* the rounding of reserve: the next number that is 3 modulo 4 *)
Lemma lor3_spec c : Z.lor c 3 = c - c mod 4 + 3.
Proof.
  rewrite <- lor_ldiff_same. rewrite <- Z.lxor_lor, <- Z.add_nocarry_lxor by apply Z.land_ldiff.
  rewrite ldiff_3. reflexivity.
Qed.

Lemma lor3_bounds c : c <= Z.lor c 3 <= c + 3 /\ (Z.lor c 3) mod 4 = 3.
Proof.
  rewrite lor3_spec. pose proof (Z.mod_pos_bound c 4 ltac:(lia)) as B. split; [lia|].
  rewrite (Z.div_mod c 4) at 1 by lia.
  replace (4 * (c / 4) + c mod 4 - c mod 4 + 3) with (3 + (c / 4) * 4) by lia.
  rewrite Z.mod_add by lia. reflexivity.
Qed.

(* ---- one array -------------------------------------------------------------------------- *)
Definition a_inv (a : marr) : Prop :=
  asize a <= cap a
  /\ (allocated a = false -> items a = [])
  /\ (allocated a = true -> (cap a) mod 4 = 3).

Lemma a_inv_empty : a_inv a_empty.
Proof. unfold a_inv, a_empty, asize; cbn. repeat split; try lia; intros; try reflexivity; discriminate. Qed.

Lemma asize_nonneg a : 0 <= asize a.
Proof. unfold asize. lia. Qed.

(* void reserve(usize size): what it does to the three fields *)
Lemma a_reserve_rule n a :
    items (a_reserve n a) = items a
    /\ (if (n >? cap a) || (negb (allocated a) && (n >? 0))
        then cap (a_reserve n a) = Z.lor (Z.max n (cap a)) 3 /\ allocated (a_reserve n a) = true
        else a_reserve n a = a).
Proof.
  unfold a_reserve. destruct ((n >? cap a) || (negb (allocated a) && (n >? 0))) eqn:E; cbn [items cap allocated].
  - split; [reflexivity|]. split; [|reflexivity]. f_equal. destruct (n >? cap a) eqn:G; lia.
  - split; reflexivity.
Qed.

(* capacity boundaries: no reallocation while the request fits an allocated buffer; otherwise
   the capacity becomes max(request, old) rounded up to 3 mod 4 *)
Lemma a_reserve_fits n a : allocated a = true -> n <= cap a -> a_reserve n a = a.
Proof.
  intros Ha Hn. unfold a_reserve. rewrite Ha. cbn [negb andb]. rewrite orb_false_r.
  destruct (n >? cap a) eqn:G; [lia|reflexivity].
Qed.

Lemma a_reserve_grows n a : cap a < n ->
    cap (a_reserve n a) = n - n mod 4 + 3 /\ allocated (a_reserve n a) = true /\ items (a_reserve n a) = items a.
Proof.
  intros Hn. unfold a_reserve. destruct (n >? cap a) eqn:G; [|lia]. cbn [orb items cap allocated].
  split; [apply lor3_spec|split; reflexivity].
Qed.

Lemma a_reserve_inv n a : a_inv a -> a_inv (a_reserve n a) /\ n <= cap (a_reserve n a) /\ cap a <= cap (a_reserve n a).
Proof.
  intros (Hs & Hu & Hc). pose proof (asize_nonneg a) as Hz.
  destruct (a_reserve_rule n a) as (Hi & Hr).
  destruct ((n >? cap a) || (negb (allocated a) && (n >? 0))) eqn:E.
  - destruct Hr as (Hcap & Hal).
    pose proof (lor3_bounds (Z.max n (cap a))) as (B & M).
    unfold a_inv, asize. rewrite Hi, Hcap, Hal. fold (asize a).
    repeat split; intros; try discriminate; try lia; try exact M.
  - rewrite Hr. split; [repeat split; assumption|]. split; [|lia].
    destruct (allocated a) eqn:Ea; cbn [negb andb] in E.
    + lia.
    + unfold asize in *. rewrite (Hu eq_refl) in *. cbn [length] in *. lia.
Qed.

Lemma a_reserve_items n a : items (a_reserve n a) = items a.
Proof. apply a_reserve_rule. Qed.

(* an unallocated array that was asked for n > 0 elements is allocated afterwards *)
Lemma a_reserve_alloc n a : a_inv a -> 0 < n -> allocated (a_reserve n a) = true.
Proof.
  intros I Hn. destruct (a_reserve_rule n a) as (_ & Hr).
  destruct ((n >? cap a) || (negb (allocated a) && (n >? 0))) eqn:E; [apply Hr|].
  rewrite Hr. destruct (allocated a) eqn:Ea; [reflexivity|]. cbn [negb andb] in E. lia.
Qed.

Lemma a_resize_refines n v a : a_inv a -> 0 <= n ->
    a_inv (a_resize n v a) /\ items (a_resize n v a) = resized (Z.to_nat n) v (items a).
Proof.
  intros I Hn. pose proof I as (Hs & Hu & Hc). unfold a_resize, resized.
  destruct (n <? asize a) eqn:E.
  - assert (Nat.ltb (Z.to_nat n) (length (items a)) = true) as -> by (unfold asize in E; lia).
    cbn [items]. split; [|reflexivity].
    unfold a_inv, asize in *. cbn [items cap allocated].
    repeat split.
    + rewrite firstn_length. lia.
    + intros Ha. rewrite (Hu Ha). destruct (Z.to_nat n); reflexivity.
    + exact Hc.
  - assert (Nat.ltb (Z.to_nat n) (length (items a)) = false) as -> by (unfold asize in E; lia).
    destruct (a_reserve_inv n a I) as ((Hs1 & Hu1 & Hc1) & Hge & _).
    cbn [items]. rewrite a_reserve_items. split; [|reflexivity].
    unfold a_inv, asize in *. cbn [items cap allocated]. rewrite a_reserve_items in *.
    repeat split.
    + rewrite app_length, repeat_length. lia.
    + intros Ha. destruct (Z.eq_dec n 0) as [->|Hn0].
      * rewrite (Hu1 Ha). reflexivity.
      * rewrite a_reserve_alloc in Ha by (try exact I; lia). discriminate.
    + exact Hc1.
Qed.

Lemma a_append_all_refines vs a : a_inv a ->
    a_inv (a_append_all vs a) /\ items (a_append_all vs a) = items a ++ vs.
Proof.
  intros I. unfold a_append_all.
  destruct (a_reserve_inv (asize a + Z.of_nat (length vs)) a I) as ((Hs1 & Hu1 & Hc1) & Hge & _).
  cbn [items]. rewrite a_reserve_items. split; [|reflexivity].
  unfold a_inv, asize in *. cbn [items cap allocated]. rewrite a_reserve_items in *.
  repeat split.
  - rewrite app_length. lia.
  - intros Ha. destruct vs as [|x t].
    + rewrite (Hu1 Ha). reflexivity.
    + rewrite a_reserve_alloc in Ha by (try exact I; cbn [length]; lia). discriminate.
  - exact Hc1.
Qed.

Lemma a_append_refines v a a' k : a_inv a -> a_append v a = (a', k) ->
    a_inv a' /\ items a' = items a ++ [v] /\ k = length (items a).
Proof.
  intros I H. unfold a_append in H. inversion H; subst a' k. clear H.
  destruct (a_append_all_refines [v] a I) as (I1 & Hi). unfold a_append_all in *. cbn [length] in *.
  change (Z.of_nat 1) with 1 in *. rewrite a_reserve_items in *. cbn [items] in *.
  split; [exact I1|]. split; reflexivity.
Qed.

Lemma shift_out_del_at k : forall l, shift_out k l = del_at k l.
Proof.
  induction k as [|k IH]; intros [|x t]; cbn [shift_out]; try reflexivity.
  unfold del_at in *. cbn [firstn skipn app]. f_equal. apply IH.
Qed.

Lemma del_at_length k (l : sseq) : (length (del_at k l) <= length l)%nat.
Proof. unfold del_at. rewrite app_length, firstn_length, skipn_length. lia. Qed.

Lemma a_shift_inv k a : a_inv a -> a_inv (mk_marr (shift_out k (items a)) (cap a) (allocated a)).
Proof.
  intros (Hs & Hu & Hc). unfold a_inv, asize in *. cbn [items cap allocated].
  rewrite shift_out_del_at. pose proof (del_at_length k (items a)). repeat split.
  - lia.
  - intros Ha. rewrite (Hu Ha). unfold del_at. destruct k; reflexivity.
  - exact Hc.
Qed.

Lemma a_find_index v l : forall pos, a_find_from v l pos = (pos + index_of v l)%nat.
Proof.
  induction l as [|x t IH]; intros pos; cbn [a_find_from index_of]; [lia|].
  destruct (x =? v); [lia|]. rewrite IH. lia.
Qed.

Lemma a_clear_refines a : a_inv a -> a_inv (a_clear a) /\ items (a_clear a) = [].
Proof.
  intros (Hs & Hu & Hc). unfold a_clear. destruct (allocated a) eqn:Ea.
  - split; [|reflexivity]. unfold a_inv, asize in *. cbn [items cap allocated length].
    repeat split; intros; try discriminate; try lia; try (apply Hc; reflexivity).
  - split; [|apply Hu; reflexivity]. unfold a_inv. rewrite Ea. repeat split; assumption.
Qed.

Lemma a_copy_refines src a : a_inv src -> a_inv a ->
    a_inv (a_copy_from src a) /\ items (a_copy_from src a) = items src.
Proof.
  intros (Hs & Hu & Hc) I. unfold a_copy_from. cbn [items]. split; [|reflexivity].
  destruct (a_reserve_inv (cap src) a I) as ((Hs1 & Hu1 & Hc1) & Hge & _).
  unfold a_inv, asize in *. cbn [items cap allocated]. repeat split.
  - lia.
  - intros Ha. destruct (Z_lt_le_dec 0 (cap src)) as [Hp|Hp].
    + rewrite a_reserve_alloc in Ha by (try exact I; lia). discriminate.
    + destruct (items src); [reflexivity|]. cbn [length] in Hs. lia.
  - exact Hc1.
Qed.

Lemma arr_walk_eqb_seq : forall a b : list Z, length a = length b -> arr_walk_eqb a b = seq_eqb a b.
Proof.
  induction a as [|x a IH]; intros [|y b] H; cbn in *; try reflexivity; try discriminate.
  destruct (x =? y); cbn [andb]; [apply IH; congruence|reflexivity].
Qed.

Lemma seq_eqb_length : forall a b : list Z, length a <> length b -> seq_eqb a b = false.
Proof.
  induction a as [|x a IH]; intros [|y b] H; cbn in *; try reflexivity; try congruence.
  rewrite IH by congruence. apply andb_false_r.
Qed.

Lemma a_eqb_seq a b : a_eqb a b = seq_eqb (items a) (items b).
Proof.
  unfold a_eqb, asize. destruct (Z.of_nat (length (items a)) =? Z.of_nat (length (items b))) eqn:E.
  - apply arr_walk_eqb_seq. lia.
  - symmetry. apply seq_eqb_length. lia.
Qed.

(* ---- worlds ----------------------------------------------------------------------------- *)
Definition ainv (w : aworld) : Prop := Forall a_inv w.

Lemma aabs_upd i a w : aabs (upd i a w) = upd i (items a) (aabs w).
Proof. unfold aabs. apply map_upd. Qed.
Lemma aabs_length w : length (aabs w) = length w.
Proof. apply map_length. Qed.
Lemma sget_aabs i w : sget i (aabs w) = items (aget i w).
Proof. exact (map_nth items w a_empty i). Qed.

Lemma ainv_init nv : ainv (ainit nv).
Proof. unfold ainv, ainit. induction nv as [|n IH]; cbn; constructor; [apply a_inv_empty|exact IH]. Qed.
Lemma aabs_init nv : aabs (ainit nv) = sinit nv.
Proof. unfold aabs, ainit, sinit. induction nv as [|n IH]; cbn; [reflexivity|]. f_equal. exact IH. Qed.

Lemma ainv_get i w : ainv w -> a_inv (aget i w).
Proof.
  intros H. unfold aget. destruct (Nat.lt_ge_cases i (length w)) as [L|L].
  - eapply Forall_forall; [exact H|]. apply nth_In. exact L.
  - rewrite nth_overflow by exact L. apply a_inv_empty.
Qed.

Lemma ainv_upd i a w : ainv w -> a_inv a -> ainv (upd i a w).
Proof.
  intros H Ha. revert i. induction H as [|x t Hx Ht IH]; intros [|i]; cbn; constructor; auto.
  apply IH.
Qed.

Lemma upd_nth_same {A} i (d : A) l : upd i (nth i l d) l = l.
Proof. revert i; induction l as [|h t IH]; intros [|i]; cbn; auto. f_equal. apply IH. Qed.

Lemma apre_ext sz1 sz2 nv op : (forall i, sz1 i = sz2 i) -> apre sz1 nv op = apre sz2 nv op.
Proof. intros E. destruct op; cbn [apre]; rewrite ?E; reflexivity. Qed.

Lemma ssize_aabs w i : ssize (aabs w) i = awsize w i.
Proof. unfold ssize, awsize. rewrite sget_aabs. reflexivity. Qed.

Ltac abools :=
  repeat match goal with
  | H : _ && _ = true |- _ => apply andb_true_iff in H; destruct H
  | H : negb _ = true |- _ => apply negb_true_iff in H
  | H : Nat.ltb _ _ = true |- _ => apply Nat.ltb_lt in H
  | H : Nat.leb _ _ = true |- _ => apply Nat.leb_le in H
  | H : Nat.eqb _ _ = false |- _ => apply Nat.eqb_neq in H
  | H : (_ <=? _) = true |- _ => apply Z.leb_le in H
  end.

Theorem astep_refines w op w' r : ainv w -> astep w op = (w', r) ->
    ainv w' /\ aspec (aabs w) op = (aabs w', aobs_res r).
Proof.
  intros I H. unfold astep in H.
  assert (Epre : apre (ssize (aabs w)) (length (aabs w)) op = apre (awsize w) (length w) op).
  { rewrite aabs_length. apply apre_ext. apply ssize_aabs. }
  unfold aspec. rewrite Epre.
  destruct (apre (awsize w) (length w) op) eqn:Hpre; cbn [negb] in *.
  2:{ inversion H; subst w' r. split; [exact I|reflexivity]. }
  destruct op; cbn [apre] in Hpre; abools; unfold awsize in *.
  - (* ANew *)
    inversion H; subst w' r. split; [apply ainv_upd; [exact I|apply a_inv_empty]|].
    rewrite aabs_upd. reflexivity.
  - (* ANewCap *)
    inversion H; subst w' r. split.
    + apply ainv_upd; [exact I|]. unfold a_inv, asize; cbn [items cap allocated length].
      repeat split; intros; try discriminate; try lia; try reflexivity.
    + rewrite aabs_upd. reflexivity.
  - (* ACopy *)
    inversion H; subst w' r.
    destruct (a_copy_refines (aget j w) a_empty (ainv_get j w I) a_inv_empty) as (I1 & Hi).
    split; [apply ainv_upd; assumption|]. rewrite aabs_upd, sget_aabs, Hi. reflexivity.
  - (* AAssign *)
    destruct (Nat.eqb i j) eqn:Eij.
    { apply Nat.eqb_eq in Eij. subst j. inversion H; subst w' r. split; [exact I|].
      unfold sget. rewrite upd_nth_same. reflexivity. }
    inversion H; subst w' r.
    destruct (a_clear_refines _ (ainv_get i w I)) as (I0 & _).
    destruct (a_copy_refines (aget j w) _ (ainv_get j w I) I0) as (I1 & Hi).
    split; [apply ainv_upd; assumption|]. rewrite aabs_upd, sget_aabs, Hi. reflexivity.
  - (* AReserve *)
    inversion H; subst w' r.
    destruct (a_reserve_inv n _ (ainv_get i w I)) as (I1 & _).
    split; [apply ainv_upd; assumption|].
    rewrite aabs_upd, a_reserve_items. rewrite <- sget_aabs. unfold sget. rewrite upd_nth_same. reflexivity.
  - (* AResizeD *)
    inversion H; subst w' r.
    destruct (a_resize_refines n 0 _ (ainv_get i w I) ltac:(assumption)) as (I1 & Hi).
    split; [apply ainv_upd; assumption|]. rewrite aabs_upd, sget_aabs, Hi. reflexivity.
  - (* AResize *)
    inversion H; subst w' r.
    destruct (a_resize_refines n v _ (ainv_get i w I) ltac:(assumption)) as (I1 & Hi).
    split; [apply ainv_upd; assumption|]. rewrite aabs_upd, sget_aabs, Hi. reflexivity.
  - (* AAppend *)
    destruct (a_append v (aget i w)) as [a1 k] eqn:E. inversion H; subst w' r.
    destruct (a_append_refines _ _ _ _ (ainv_get i w I) E) as (I1 & Hi & Hk).
    split; [apply ainv_upd; assumption|]. rewrite aabs_upd, sget_aabs, Hi, Hk. reflexivity.
  - (* AAppendArr *)
    inversion H; subst w' r.
    destruct (a_append_all_refines (items (aget j w)) _ (ainv_get i w I)) as (I1 & Hi).
    split; [apply ainv_upd; assumption|]. rewrite aabs_upd, !sget_aabs, Hi. reflexivity.
  - (* AAppendBuf *)
    inversion H; subst w' r.
    destruct (a_append_all_refines vs _ (ainv_get i w I)) as (I1 & Hi).
    split; [apply ainv_upd; assumption|]. rewrite aabs_upd, sget_aabs, Hi. reflexivity.
  - (* ARemoveIdx *)
    inversion H; subst w' r. unfold a_remove_idx, asize. rewrite sget_aabs.
    destruct (Nat.ltb k (length (items (aget i w)))) eqn:E.
    + assert (Z.of_nat k <? Z.of_nat (length (items (aget i w))) = true) as -> by lia.
      split; [apply ainv_upd; [exact I|apply a_shift_inv; apply ainv_get; exact I]|].
      rewrite aabs_upd. cbn [items]. rewrite shift_out_del_at. reflexivity.
    + assert (Z.of_nat k <? Z.of_nat (length (items (aget i w))) = false) as -> by lia.
      split; [apply ainv_upd; [exact I|apply ainv_get; exact I]|].
      rewrite aabs_upd. reflexivity.
  - (* ARemoveIt *)
    unfold a_remove_it in H. injection H as Hw Hr; subst w' r.
    split; [apply ainv_upd; [exact I|apply a_shift_inv; apply ainv_get; exact I]|].
    rewrite aabs_upd, sget_aabs. cbn [items aobs_res]. rewrite shift_out_del_at. reflexivity.
  - (* ARemoveFront *)
    unfold a_remove_it in H. injection H as Hw Hr; subst w' r.
    split; [apply ainv_upd; [exact I|apply (a_shift_inv 0 (aget i w)); apply ainv_get; exact I]|].
    rewrite aabs_upd, sget_aabs. cbn [items aobs_res]. rewrite <- del_at_0, <- shift_out_del_at. reflexivity.
  - (* ARemoveBack *)
    unfold a_remove_it in H. injection H as Hw Hr; subst w' r.
    split; [apply ainv_upd; [exact I|apply a_shift_inv; apply ainv_get; exact I]|].
    rewrite aabs_upd, sget_aabs. cbn [items aobs_res]. rewrite shift_out_del_at, del_at_last. reflexivity.
  - (* AFind *)
    inversion H; subst w' r. split; [exact I|]. rewrite sget_aabs, a_find_index. reflexivity.
  - (* AClear *)
    inversion H; subst w' r.
    destruct (a_clear_refines _ (ainv_get i w I)) as (I1 & Hi).
    split; [apply ainv_upd; assumption|]. rewrite aabs_upd, Hi. reflexivity.
  - (* ASwap *)
    inversion H; subst w' r.
    split; [apply ainv_upd; [apply ainv_upd; [exact I|]|]; apply ainv_get; exact I|].
    rewrite !aabs_upd, !sget_aabs. reflexivity.
  - (* AAppendOwn *)
    cbv zeta in H.
    destruct (a_append (nth k (items (aget i w)) 0) (aget i w)) as [a1 k1] eqn:E. inversion H; subst w' r.
    destruct (a_append_refines _ _ _ _ (ainv_get i w I) E) as (I1 & Hi & Hk).
    split; [apply ainv_upd; assumption|]. rewrite aabs_upd, sget_aabs, Hi, Hk. reflexivity.
  - (* AResizeOwn *)
    cbv zeta in H. inversion H; subst w' r.
    destruct (a_resize_refines n (nth k (items (aget i w)) 0) _ (ainv_get i w I) ltac:(assumption)) as (I1 & Hi).
    split; [apply ainv_upd; assumption|]. rewrite aabs_upd, sget_aabs, Hi. reflexivity.
  - (* AAppendBufOwn *)
    cbv zeta in H. inversion H; subst w' r.
    destruct (a_append_all_refines (firstn n (skipn off (items (aget i w)))) _ (ainv_get i w I)) as (I1 & Hi).
    split; [apply ainv_upd; assumption|]. rewrite aabs_upd, sget_aabs, Hi. reflexivity.
  - (* AEq *)
    inversion H; subst w' r. split; [exact I|]. rewrite !sget_aabs, a_eqb_seq. reflexivity.
  - (* ANe *)
    inversion H; subst w' r. split; [exact I|]. rewrite !sget_aabs, a_eqb_seq. reflexivity.
Qed.

Definition aobs_trace (tr : list (aworld * mres)) : list (sstate * res) :=
  map (fun wr => (aabs (fst wr), aobs_res (snd wr))) tr.

Lemma arun_refines ops : forall w, ainv w ->
    aspec_run (aabs w) ops = aobs_trace (arun w ops) /\ Forall (fun wr => ainv (fst wr)) (arun w ops).
Proof.
  induction ops as [|op t IH]; intros w I; cbn [arun aspec_run].
  - split; [reflexivity|constructor].
  - destruct (astep w op) as [w1 r] eqn:E.
    destruct (astep_refines w op w1 r I E) as (I1 & S). rewrite S.
    destruct (IH w1 I1) as (R & F). split.
    + cbn [aobs_trace map fst snd]. f_equal. exact R.
    + constructor; [exact I1|exact F].
Qed.

Theorem array_history_refines nv ops :
    aspec_run (sinit nv) ops = aobs_trace (arun (ainit nv) ops).
Proof. rewrite <- aabs_init. apply arun_refines. apply ainv_init. Qed.

(* the specification proper (aspec_ok: nothing is demanded of remove(index) with index >= size()) holds of every
   history of the model; what the model - the code - does on such a call is a statement about the model only *)
Lemma aspec_run_ok : forall ops s, aspec_ok s ops (aspec_run s ops).
Proof.
  induction ops as [|op t IH]; intros s; cbn [aspec_run]; [constructor|].
  destruct (aspec s op) as [s1 r] eqn:E. constructor; [intros _; exact E|apply IH].
Qed.

Theorem array_history_refines_text nv ops : aspec_ok (sinit nv) ops (aobs_trace (arun (ainit nv) ops)).
Proof. rewrite <- array_history_refines. apply aspec_run_ok. Qed.

Lemma a_remove_idx_beyond (k : nat) (a : marr) : (length (items a) <= k)%nat -> a_remove_idx k a = a.
Proof.
  intros H. unfold a_remove_idx, asize.
  destruct (Z.of_nat k <? Z.of_nat (length (items a))) eqn:E; [apply Z.ltb_lt in E; lia|reflexivity].
Qed.

(* capacity() >= size() and the shape of the capacity, in every reachable state *)
Theorem array_history_capacity nv ops :
    Forall (fun wr => forall i, asize (aget i (fst wr)) <= cap (aget i (fst wr))
                                /\ (allocated (aget i (fst wr)) = true -> cap (aget i (fst wr)) mod 4 = 3)
                                /\ (allocated (aget i (fst wr)) = false -> items (aget i (fst wr)) = []))
           (arun (ainit nv) ops).
Proof.
  destruct (arun_refines ops (ainit nv) (ainv_init nv)) as (_ & F).
  eapply Forall_impl; [|exact F]. intros [w r] Hw i. cbn [fst] in *.
  destruct (ainv_get i w Hw) as (A & B & C). repeat split; assumption.
Qed.
