(* Array<T> at the level of storage cells (SeqArrayMemModel): the loops.  Each lemma says, for a block
   whose cells have the shape the loop expects, that the loop runs WITHOUT an access error and what
   exactly the block looks like afterwards (every other block of the heap untouched: the result heap
   is written `upd b ... h`). *)
From Coq Require Import ZArith List Bool Lia.
From Coq Require Import ZifyBool ZifyNat.
From Common Require Import ListAux.
From Seq Require Import SeqSpec SeqModel SeqArrayMemModel.
Import ListNotations.
Local Open Scope Z_scope.

(* ---- lists / heaps ---------------------------------------------------------------------------- *)
Lemma nth_error_upd_same {A} b (x : A) l : (b < length l)%nat -> nth_error (upd b x l) b = Some x.
Proof. revert b; induction l as [|y t IH]; intros [|b] H; cbn in *; try lia; [reflexivity|]. apply IH. lia. Qed.

Lemma nth_error_upd_other {A} b b' (x : A) l : b <> b' -> nth_error (upd b x l) b' = nth_error l b'.
Proof.
  revert b b'; induction l as [|y t IH]; intros [|b] [|b'] H; cbn; try reflexivity; try congruence.
  apply IH. congruence.
Qed.

Lemma upd_twice {A} b (x y : A) l : upd b x (upd b y l) = upd b x l.
Proof. revert b; induction l as [|z t IH]; intros [|b]; cbn; try reflexivity. f_equal. apply IH. Qed.

Lemma upd_comm {A} a b (x y : A) l : a <> b -> upd a x (upd b y l) = upd b y (upd a x l).
Proof.
  revert a b; induction l as [|z t IH]; intros [|a] [|b] H; cbn; try reflexivity; try congruence.
  f_equal. apply IH. congruence.
Qed.

Lemma nth_error_lt {A} (l : list A) b x : nth_error l b = Some x -> (b < length l)%nat.
Proof. intros H. apply nth_error_Some. congruence. Qed.

Lemma nth_error_mid {A} (pre post : list A) x : nth_error (pre ++ x :: post) (length pre) = Some x.
Proof. rewrite nth_error_app2 by lia. rewrite Nat.sub_diag. reflexivity. Qed.

Lemma app_cons_assoc {A} (pre : list A) x post : pre ++ x :: post = (pre ++ [x]) ++ post.
Proof. rewrite <- app_assoc. reflexivity. Qed.

Lemma last_cons_cons {A} (y : A) l x : last (y :: l) x = last l y.
Proof. revert y; induction l as [|z t IH]; intros y; [reflexivity|]. cbn [last] in *. destruct t; [reflexivity|]. apply IH. Qed.

(* ---- primitives on a live block whose cells are known ------------------------------------------ *)
Section Prim.
  Variables (h : mheap) (b : nat) (cs : list (option Z)).
  Hypothesis Hb : nth_error h b = Some (mk_block true cs).

  Lemma find_cell_ok i c : nth_error cs i = Some c -> find_cell (Some b) i h = inr (b, cs, c).
  Proof. intros H. unfold find_cell. rewrite Hb. cbn [blive bcells]. rewrite H. reflexivity. Qed.

  Lemma rd_ok i v : nth_error cs i = Some (Some v) -> rd (Some b) i h = Ok v h.
  Proof. intros H. unfold rd. rewrite (find_cell_ok _ _ H). reflexivity. Qed.

  Lemma construct_ok i v : nth_error cs i = Some None ->
      construct (Some b) i v h = Ok tt (upd b (mk_block true (upd i (Some v) cs)) h).
  Proof. intros H. unfold construct. rewrite (find_cell_ok _ _ H). reflexivity. Qed.

  Lemma assign_ok i v x : nth_error cs i = Some (Some x) ->
      assign (Some b) i v h = Ok tt (upd b (mk_block true (upd i (Some v) cs)) h).
  Proof. intros H. unfold assign. rewrite (find_cell_ok _ _ H). reflexivity. Qed.

  Lemma destroy_ok i x : nth_error cs i = Some (Some x) ->
      destroy (Some b) i h = Ok tt (upd b (mk_block true (upd i None cs)) h).
  Proof. intros H. unfold destroy. rewrite (find_cell_ok _ _ H). reflexivity. Qed.

  Lemma upd_block_same blk : nth_error (upd b blk h) b = Some blk.
  Proof. apply nth_error_upd_same. eapply nth_error_lt. exact Hb. Qed.
End Prim.

(* a source that is not the cell (b, i) reads the same after that cell was written *)
Definition src_avoid (s : src) (k b i : nat) : Prop :=
  match s with
  | SPtr (Some b') j => b' <> b \/ (j + k)%nat <> i
  | _ => True
  end.

Lemma rd_src_upd h b cs i c s k v :
    nth_error h b = Some (mk_block true cs) -> rd_src s k h = Ok v h -> src_avoid s k b i ->
    let h' := upd b (mk_block true (upd i c cs)) h in rd_src s k h' = Ok v h'.
Proof.
  intros Hb Hr Ha h'. destruct s as [vs|[b'|] j]; cbn [rd_src] in *.
  - destruct (nth_error vs k); [|discriminate]. unfold ret in *. injection Hr as ->. reflexivity.
  - cbn [src_avoid] in Ha. unfold rd, find_cell in *. destruct (Nat.eq_dec b' b) as [->|Hne].
    + rewrite Hb in Hr. cbn [blive bcells] in Hr. unfold h'. rewrite (upd_block_same h b cs Hb). cbn [blive bcells].
      assert (E : nth_error (upd i c cs) (j + k) = nth_error cs (j + k)) by (apply nth_error_upd_other; lia).
      rewrite E. destruct (nth_error cs (j + k)) as [[x|]|]; try discriminate. injection Hr as ->. reflexivity.
    + unfold h'. rewrite nth_error_upd_other by congruence.
      destruct (nth_error h b') as [blk|]; [|discriminate]. destruct (blive blk); [|discriminate].
      destruct (nth_error (bcells blk) (j + k)) as [[x|]|]; try discriminate. injection Hr as ->. reflexivity.
  - unfold rd, find_cell in Hr. discriminate.
Qed.

(* a source whose block is the same in two heaps reads the same in both *)
Lemma rd_src_frame h h' s k v :
    match s with SPtr (Some b') _ => nth_error h' b' = nth_error h b' | _ => True end ->
    rd_src s k h = Ok v h -> rd_src s k h' = Ok v h'.
Proof.
  intros Hf Hr. destruct s as [vs|[b'|] j]; cbn [rd_src] in *.
  - destruct (nth_error vs k); [|discriminate]. unfold ret in *. injection Hr as ->. reflexivity.
  - unfold rd, find_cell in *. rewrite Hf. destruct (nth_error h b') as [blk|]; [|discriminate].
    destruct (blive blk); [|discriminate].
    destruct (nth_error (bcells blk) (j + k)) as [[x|]|]; try discriminate. injection Hr as ->. reflexivity.
  - unfold rd, find_cell in Hr. discriminate.
Qed.

(* ---- the loops -------------------------------------------------------------------------------- *)
(* placement-new copies of S into the raw cells pre ++ [raw x |S|] ++ post, from a source that lies
   outside those cells (another block, the caller's buffer, or cells before them in the same block) *)
Lemma copy_loop_ok : forall (S : list Z) s k b pre post h,
    nth_error h b = Some (mk_block true (pre ++ repeat None (length S) ++ post)) ->
    (forall j, (j < length S)%nat -> rd_src s (k + j) h = Ok (nth j S 0) h) ->
    match s with SPtr (Some b') i => b' <> b \/ (i + (k + length S) <= length pre)%nat | _ => True end ->
    copy_loop (length S) s k (Some b) (length pre) h
    = Ok tt (upd b (mk_block true (pre ++ map Some S ++ post)) h).
Proof.
  induction S as [|x S IH]; intros s k b pre post h Hb Hr Ha; cbn [length copy_loop map repeat app] in *.
  - unfold ret. f_equal. symmetry. clear Hr Ha. revert b Hb. induction h as [|y t IHh]; intros [|b] Hb; cbn in *; try discriminate.
    + injection Hb as ->. reflexivity.
    + f_equal. apply IHh. exact Hb.
  - unfold bind. pose proof (Hr O ltac:(lia)) as H0. rewrite Nat.add_0_r in H0. cbn [nth] in H0. rewrite H0.
    rewrite (construct_ok h b _ Hb) by apply nth_error_mid. rewrite upd_app_at.
    set (h1 := upd b _ h).
    assert (Hb1 : nth_error h1 b = Some (mk_block true ((pre ++ [Some x]) ++ repeat None (length S) ++ post))).
    { unfold h1. rewrite (upd_block_same h b _ Hb). rewrite <- app_cons_assoc. reflexivity. }
    replace (Datatypes.S (length pre)) with (length (pre ++ [Some x])) by (rewrite app_length; cbn; lia).
    rewrite (IH s (Datatypes.S k) b (pre ++ [Some x]) post h1 Hb1).
    + unfold h1. rewrite upd_twice. rewrite <- app_cons_assoc. reflexivity.
    + intros j Hj. pose proof (Hr (Datatypes.S j) ltac:(lia)) as Hj1. cbn [nth] in Hj1.
      replace (Datatypes.S k + j)%nat with (k + Datatypes.S j)%nat by lia.
      unfold h1. rewrite <- (upd_app_at pre (repeat None (length S) ++ post) (Some x) None).
      apply (rd_src_upd h b _ (length pre) (Some x) s _ _ Hb Hj1).
      destruct s as [vs|[b'|] i]; cbn [src_avoid]; auto. destruct Ha as [Ha|Ha]; [left; exact Ha|right; lia].
    + destruct s as [vs|[b'|] i]; auto. destruct Ha as [Ha|Ha]; [left; exact Ha|right]. rewrite app_length. cbn [length]. lia.
Qed.

Lemma upd_self {A} b (x : A) l : nth_error l b = Some x -> upd b x l = l.
Proof. revert b; induction l as [|y t IH]; intros [|b] H; cbn in *; try discriminate; [congruence|]. f_equal. apply IH. exact H. Qed.

(* destroying the constructed cells S in place *)
Lemma destroy_loop_ok : forall (S : list Z) b pre post h,
    nth_error h b = Some (mk_block true (pre ++ map Some S ++ post)) ->
    destroy_loop (length S) (Some b) (length pre) h
    = Ok tt (upd b (mk_block true (pre ++ repeat None (length S) ++ post)) h).
Proof.
  induction S as [|x S IH]; intros b pre post h Hb; cbn [length destroy_loop map repeat app] in *.
  - unfold ret. f_equal. symmetry. apply upd_self. exact Hb.
  - unfold bind. rewrite (destroy_ok h b _ Hb _ x) by apply nth_error_mid. rewrite upd_app_at.
    set (h1 := upd b _ h).
    assert (Hb1 : nth_error h1 b = Some (mk_block true ((pre ++ [None]) ++ map Some S ++ post))).
    { unfold h1. rewrite (upd_block_same h b _ Hb). rewrite <- app_cons_assoc. reflexivity. }
    replace (Datatypes.S (length pre)) with (length (pre ++ [@None Z])) by (rewrite app_length; cbn; lia).
    rewrite (IH b (pre ++ [None]) post h1 Hb1). unfold h1. rewrite upd_twice, <- app_cons_assoc. reflexivity.
Qed.

(* reserve: every element copy-constructed into the new block at the same index, then destroyed in the old one *)
Lemma move_loop_ok : forall (S : list Z) sb db spre spost dpre dpost h,
    sb <> db -> length spre = length dpre ->
    nth_error h sb = Some (mk_block true (spre ++ map Some S ++ spost)) ->
    nth_error h db = Some (mk_block true (dpre ++ repeat None (length S) ++ dpost)) ->
    move_loop (length S) (Some sb) (Some db) (length spre) h
    = Ok tt (upd sb (mk_block true (spre ++ repeat None (length S) ++ spost))
              (upd db (mk_block true (dpre ++ map Some S ++ dpost)) h)).
Proof.
  induction S as [|x S IH]; intros sb db spre spost dpre dpost h Hne Hl Hs Hd; cbn [length move_loop map repeat app] in *.
  - unfold ret. f_equal. symmetry. rewrite (upd_self db _ h Hd). apply upd_self. exact Hs.
  - unfold bind. rewrite (rd_ok h sb _ Hs _ x) by apply nth_error_mid.
    rewrite Hl. rewrite (construct_ok h db _ Hd) by apply nth_error_mid. rewrite upd_app_at.
    set (h1 := upd db _ h).
    assert (Hs1 : nth_error h1 sb = Some (mk_block true (spre ++ Some x :: map Some S ++ spost))).
    { unfold h1. rewrite nth_error_upd_other by congruence. exact Hs. }
    rewrite <- Hl. rewrite (destroy_ok h1 sb _ Hs1 _ x) by apply nth_error_mid. rewrite upd_app_at.
    set (h2 := upd sb _ h1).
    assert (Hs2 : nth_error h2 sb = Some (mk_block true ((spre ++ [None]) ++ map Some S ++ spost))).
    { unfold h2. rewrite (upd_block_same h1 sb _ Hs1). rewrite <- app_cons_assoc. reflexivity. }
    assert (Hd2 : nth_error h2 db = Some (mk_block true ((dpre ++ [Some x]) ++ repeat None (length S) ++ dpost))).
    { unfold h2. rewrite nth_error_upd_other by congruence. unfold h1. rewrite (upd_block_same h db _ Hd).
      rewrite <- app_cons_assoc. reflexivity. }
    replace (Datatypes.S (length spre)) with (length (spre ++ [@None Z])) by (rewrite app_length; cbn; lia).
    rewrite (IH sb db (spre ++ [None]) spost (dpre ++ [Some x]) dpost h2 Hne ltac:(rewrite !app_length; cbn; lia) Hs2 Hd2).
    f_equal. unfold h2, h1. rewrite <- !app_cons_assoc.
    rewrite (upd_comm db sb) by congruence. rewrite upd_twice. rewrite upd_twice. reflexivity.
Qed.

(* resize: the raw cells after the elements are constructed from one value, which is read every time *)
Lemma fill_loop_ok : forall (m : nat) val v b pre post h,
    nth_error h b = Some (mk_block true (pre ++ repeat None m ++ post)) ->
    rd_src val 0 h = Ok v h ->
    match val with SPtr (Some b') i => b' <> b \/ (i < length pre)%nat | _ => True end ->
    fill_loop m val (Some b) (length pre) h
    = Ok tt (upd b (mk_block true (pre ++ map Some (repeat v m) ++ post)) h).
Proof.
  induction m as [|m IH]; intros val v b pre post h Hb Hr Ha; cbn [fill_loop map repeat app] in *.
  - unfold ret. f_equal. symmetry. apply upd_self. exact Hb.
  - unfold bind. rewrite Hr. rewrite (construct_ok h b _ Hb) by apply nth_error_mid. rewrite upd_app_at.
    set (h1 := upd b _ h).
    assert (Hb1 : nth_error h1 b = Some (mk_block true ((pre ++ [Some v]) ++ repeat None m ++ post))).
    { unfold h1. rewrite (upd_block_same h b _ Hb). rewrite <- app_cons_assoc. reflexivity. }
    replace (Datatypes.S (length pre)) with (length (pre ++ [Some v])) by (rewrite app_length; cbn; lia).
    rewrite (IH val v b (pre ++ [Some v]) post h1 Hb1).
    + unfold h1. rewrite upd_twice, <- app_cons_assoc. reflexivity.
    + unfold h1. rewrite <- (upd_app_at pre (repeat None m ++ post) (Some v) None).
      apply (rd_src_upd h b _ (length pre) (Some v) val _ _ Hb Hr).
      destruct val as [vs|[b'|] i]; cbn [src_avoid]; auto. destruct Ha as [Ha|Ha]; [left; exact Ha|right; lia].
    + destruct val as [vs|[b'|] i]; auto. destruct Ha as [Ha|Ha]; [left; exact Ha|right]. rewrite app_length. cbn [length]. lia.
Qed.

(* remove: the elements after position |pre| move down by one, by assignment; the last cell keeps its value *)
Lemma shift_loop_ok : forall (S : list Z) x b pre post h,
    nth_error h b = Some (mk_block true (pre ++ Some x :: map Some S ++ post)) ->
    shift_loop (length S) (Some b) (length pre) h
    = Ok tt (upd b (mk_block true (pre ++ map Some S ++ Some (last S x) :: post)) h).
Proof.
  induction S as [|y S IH]; intros x b pre post h Hb; cbn [length shift_loop map app] in *.
  - unfold ret. f_equal. symmetry. apply upd_self. exact Hb.
  - unfold bind.
    assert (R : nth_error (pre ++ Some x :: Some y :: map Some S ++ post) (Datatypes.S (length pre)) = Some (Some y)).
    { rewrite (app_cons_assoc pre (Some x)). replace (Datatypes.S (length pre)) with (length (pre ++ [Some x])) by (rewrite app_length; cbn; lia).
      apply nth_error_mid. }
    rewrite (rd_ok h b _ Hb _ y R).
    rewrite (assign_ok h b _ Hb _ y x) by apply nth_error_mid. rewrite upd_app_at.
    set (h1 := upd b _ h).
    assert (Hb1 : nth_error h1 b = Some (mk_block true ((pre ++ [Some y]) ++ Some y :: map Some S ++ post))).
    { unfold h1. rewrite (upd_block_same h b _ Hb). rewrite <- app_cons_assoc. reflexivity. }
    replace (Datatypes.S (length pre)) with (length (pre ++ [Some y])) by (rewrite app_length; cbn; lia).
    rewrite (IH y b (pre ++ [Some y]) post h1 Hb1). unfold h1. rewrite upd_twice, <- app_cons_assoc.
    rewrite last_cons_cons. reflexivity.
Qed.

(* find reads constructed cells only and changes nothing *)
Lemma find_loop_ok : forall (S : list Z) v b pre post h,
    nth_error h b = Some (mk_block true (pre ++ map Some S ++ post)) ->
    find_loop (length S) (Some b) (length pre) v h = Ok (a_find_from v S (length pre)) h.
Proof.
  induction S as [|x S IH]; intros v b pre post h Hb; cbn [length find_loop a_find_from map app] in *.
  - reflexivity.
  - unfold bind. rewrite (rd_ok h b _ Hb _ x) by apply nth_error_mid.
    destruct (x =? v); [reflexivity|].
    replace (Datatypes.S (length pre)) with (length (pre ++ [Some x])) by (rewrite app_length; cbn; lia).
    apply (IH v b (pre ++ [Some x]) post h). rewrite <- app_cons_assoc. exact Hb.
Qed.

(* operator== reads constructed cells of both arrays only (they may be the same array) and changes nothing *)
Lemma eq_loop_ok : forall (S1 S2 : list Z) b1 b2 pre1 post1 pre2 post2 h,
    length S1 = length S2 -> length pre1 = length pre2 ->
    nth_error h b1 = Some (mk_block true (pre1 ++ map Some S1 ++ post1)) ->
    nth_error h b2 = Some (mk_block true (pre2 ++ map Some S2 ++ post2)) ->
    eq_loop (length S1) (Some b1) (Some b2) (length pre1) h = Ok (arr_walk_eqb S1 S2) h.
Proof.
  induction S1 as [|x S1 IH]; intros [|y S2] b1 b2 pre1 post1 pre2 post2 h Hl Hp H1 H2;
    cbn [length eq_loop arr_walk_eqb map app] in *; try discriminate; [reflexivity|].
  unfold bind. rewrite (rd_ok h b1 _ H1 _ x) by apply nth_error_mid.
  rewrite Hp. rewrite (rd_ok h b2 _ H2 _ y) by apply nth_error_mid. rewrite <- Hp.
  destruct (x =? y); [|reflexivity].
  replace (Datatypes.S (length pre1)) with (length (pre1 ++ [Some x])) by (rewrite app_length; cbn; lia).
  apply (IH S2 b1 b2 (pre1 ++ [Some x]) post1 (pre2 ++ [Some y]) post2 h).
  - congruence.
  - rewrite !app_length. cbn [length]. lia.
  - rewrite <- app_cons_assoc. exact H1.
  - rewrite <- app_cons_assoc. exact H2.
Qed.
