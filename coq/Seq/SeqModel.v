(* MODEL of include/nstd/List.hpp, PoolList.hpp and Array.hpp - what the code does, decision
   by decision, at the level of nodes (value, slot id), the pool allocation scheme (blocks of 4
   items, LIFO free list threaded through `prev`), the separately maintained `_size` field, the
   Array `reserve` rule with its `| 0x03` rounding and the `!_begin.item` clause, and the
   in-place quicksort of List::sort transcribed at the value level.  No proofs in this file.

   slot id = 4 * (serial of the item block within its pool) + (index of the item in the block).
   Positions are named by rank in the op (the harness walks `rank` steps from begin());
   iterators/references RETURNED by the code are modelled as the node (slot) they point to. *)
From Coq Require Import ZArith List Bool.
From Common Require Import ListAux.
From Seq Require Import SeqSpec.
Import ListNotations.
Local Open Scope Z_scope.

Definition slot := nat.

(* list reversal in linear time (Coq's `rev` is quadratic when extracted); frev l = rev l *)
Definition frev {A} (l : list A) : list A := rev_append l [].

(* ------------------------------------------------------------------------------------- *)
(* List::sort : QuickSort::sort(left, right) on the values of the nodes left..right        *)
(* ------------------------------------------------------------------------------------- *)
Section Sort.
  Variable key : Z -> Z.                  (* a->value < b->value  is  key a < key b *)
  Definition vlt (a b : Z) : bool := key a <? key b.

  (* The do-while loop.  Nodes after `left` are, in order:  less ++ geq ++ rest  where
     ptr1 = last node of less (or left), ptr2 = last node of geq (or ptr1).
       lessr   = less reversed (only ever extended at its end, and its last element is needed)
       gf, gb  = geq as a queue: geq = gf ++ rev gb (frev = rev)
     ptr2 = ptr2->next takes x off rest.  If x < pivot: ptr1 = ptr1->next (the first node of
     geq, or x's own node if geq is empty) and swap(ptr1, ptr2): x becomes the last of less,
     the first value of geq moves to the end of geq.  Otherwise x is the new last of geq. *)
  Fixpoint part (p : Z) (lessr gf gb rest : list Z) : list Z * list Z :=
    match rest with
    | [] => (lessr, gf ++ frev gb)
    | x :: r =>
        if vlt x p then
          match gf with
          | g :: gf' => part p (x :: lessr) gf' (g :: gb) r
          | [] => match frev gb with
                  | g :: gf' => part p (x :: lessr) gf' [g] r
                  | [] => part p (x :: lessr) [] [] r
                  end
          end
        else part p lessr gf (x :: gb) r
    end.

  (* sort(left, right) is only ever called on at least two nodes.  After the loop
     swap(left, ptr1) puts the last value of less first and the pivot behind less; the nodes
     left..ptr0 hold less (sorted further if it has >= 2 values), and, with ptr1 advanced past the
     pivot, ptr1..right hold geq (sorted further if it has >= 2 values).  The two sides are disjoint
     runs of nodes, so the order in which they are sorted does not matter for the values. *)
  Fixpoint qsort (fuel : nat) (l : list Z) : option (list Z) :=
    match fuel with
    | O => None
    | S f =>
        match l with
        | [] => Some []
        | [x] => Some [x]
        | p :: rest =>
            let '(lessr, geq) := part p [] [] [] rest in
            let left := match lessr with [] => [] | m :: ls => m :: frev ls end in
            match (if Nat.leb 2 (length left) then qsort f left else Some left),
                  (if Nat.leb 2 (length geq) then qsort f geq else Some geq) with
            | Some a, Some b => Some (a ++ p :: b)
            | _, _ => None
            end
        end
    end.

  (* How many frames of QuickSort::sort are live at the deepest point.  The shorter side (fewer values;
     geq on a tie) is sorted by a recursive call, the longer one by the next round of the for(;;) loop
     in the same frame. *)
  Fixpoint qdepth (fuel : nat) (l : list Z) : nat :=
    match fuel with
    | O => O
    | S f =>
        match l with
        | [] => O
        | [x] => O
        | p :: rest =>
            let '(lessr, geq) := part p [] [] [] rest in
            let left := match lessr with [] => [] | m :: ls => m :: frev ls end in
            let dl := if Nat.leb 2 (length left) then qdepth f left else O in
            let dg := if Nat.leb 2 (length geq) then qdepth f geq else O in
            if Nat.ltb (length left) (length geq) then Nat.max (S dl) dg else Nat.max (S dg) dl
        end
    end.

  (* the same count for the scheme with two plain recursive calls (List::sort before the repair
     fixes/C03/03): only for comparison, see SeqSortPtrProofs.qdepth2_sorted_example *)
  Fixpoint qdepth2 (fuel : nat) (l : list Z) : nat :=
    match fuel with
    | O => O
    | S f =>
        match l with
        | [] => O
        | [x] => O
        | p :: rest =>
            let '(lessr, geq) := part p [] [] [] rest in
            let left := match lessr with [] => [] | m :: ls => m :: frev ls end in
            S (Nat.max (if Nat.leb 2 (length left) then qdepth2 f left else O)
                       (if Nat.leb 2 (length geq) then qdepth2 f geq else O))
        end
    end.

  (* void sort(): returns at once on fewer than two elements.  Out of fuel (excluded by
     sort_total) would leave the list as it is. *)
  Definition sort_vals (l : list Z) : list Z :=
    if Nat.ltb (length l) 2 then l else
    match qsort (length l) l with Some r => r | None => l end.

  (* the number of frames of QuickSort::sort live at the deepest point of `void sort()` on a list holding l:
     none when sort() returns at once (fewer than two elements).  The model driver prints it next to the
     sorted list; the harness prints the number of distinct frames of QuickSort::sort it saw. *)
  Definition sort_depth (l : list Z) : nat :=
    if Nat.ltb (length l) 2 then O else qdepth (length l) l.
End Sort.

(* ------------------------------------------------------------------------------------- *)
(* List::sort once more, statement by statement at the level of node pointers.  sort() does  *)
(* not relink anything, so the nodes begin..end are the positions 0..n-1 of the list of      *)
(* their values, `p->next` is p + 1, and `p->value` is nth p.  SeqSortPtrProofs shows that    *)
(* this transcription computes exactly `sort_vals` (which is what the drivers run: linear     *)
(* time per partition step instead of quadratic).                                            *)
(* ------------------------------------------------------------------------------------- *)
Section SortPtr.
  Variable key : Z -> Z.

  (* QuickSort::swap(a, b): T tmp = a->value; a->value = b->value; b->value = tmp; *)
  Definition swap_at (i j : nat) (a : list Z) : list Z :=
    upd j (nth i a 0) (upd i (nth j a 0) a).

  (* do { ptr2 = ptr2->next;
          if(ptr2->value < pivot) { ptr0 = ptr1; ptr1 = ptr1->next; swap(ptr1, ptr2); ++less; }
          else ++other;
     } while(ptr2 != right);            `pivot` is a reference to left->value *)
  Fixpoint qs_loop (fuel left right : nat) (a : list Z) (p0 p1 p2 less other : nat)
      : option (list Z * nat * nat * nat * nat) :=
    match fuel with
    | O => None
    | S f =>
        let p2 := S p2 in
        let '(a1, p0', p1', less', other') :=
          if vlt key (nth p2 a 0) (nth left a 0) then (swap_at (S p1) p2 a, p1, S p1, S less, other)
          else (a, p0, p1, less, S other) in
        if Nat.eqb p2 right then Some (a1, p0', p1', less', other')
        else qs_loop f left right a1 p0' p1' p2 less' other'
    end.

  (* static void sort(Item* left, Item* right)
     { for(;;) { <loop>; swap(left, ptr1); if(ptr1 != right) ptr1 = ptr1->next;
                 if(less < other) { if(left != ptr0) sort(left, ptr0); if(ptr1 == right) return; left = ptr1; }
                 else { if(ptr1 != right) sort(ptr1, right); if(left == ptr0) return; right = ptr0; } } }
     The next round of for(;;) is written as a second application of qs_sort (same frame).  Returns the
     values and the number of frames of sort live at the deepest point (this one included). *)
  Fixpoint qs_sort (fuel left right : nat) (a : list Z) : option (list Z * nat) :=
    match fuel with
    | O => None
    | S f =>
        match qs_loop (length a) left right a left left left O O with
        | None => None
        | Some (a1, p0, p1, less, other) =>
            let a2 := swap_at left p1 a1 in                               (* swap(left, ptr1) *)
            let p1' := if Nat.eqb p1 right then p1 else S p1 in           (* if(ptr1 != right) ptr1 = ptr1->next *)
            if Nat.ltb less other then
              match (if Nat.eqb left p0 then Some (a2, O) else qs_sort f left p0 a2) with      (* sort(left, ptr0) *)
              | None => None
              | Some (a3, d1) =>
                  if Nat.eqb p1' right then Some (a3, S d1)                                      (* return *)
                  else match qs_sort f p1' right a3 with                                        (* left = ptr1 *)
                       | None => None
                       | Some (a4, d2) => Some (a4, Nat.max (S d1) d2)
                       end
              end
            else
              match (if Nat.eqb p1' right then Some (a2, O) else qs_sort f p1' right a2) with  (* sort(ptr1, right) *)
              | None => None
              | Some (a3, d1) =>
                  if Nat.eqb left p0 then Some (a3, S d1)                                        (* return *)
                  else match qs_sort f left p0 a3 with                                          (* right = ptr0 *)
                       | None => None
                       | Some (a4, d2) => Some (a4, Nat.max (S d1) d2)
                       end
              end
        end
    end.

  (* void sort(): if(endItem.prev == 0 || _begin.item == endItem.prev) return;
     QuickSort::sort(_begin.item, endItem.prev) *)
  Definition sort_ptr (l : list Z) : list Z :=
    if Nat.ltb (length l) 2 then l else
    match qs_sort (length l) O (length l - 1) l with Some (r, _) => r | None => l end.
End SortPtr.

(* ------------------------------------------------------------------------------------- *)
(* node lists: List<T> and PoolList<T>                                                     *)
(* ------------------------------------------------------------------------------------- *)
Record nlist := mk_nlist {
  nodes : list (Z * slot);                (* begin .. end, each node with the slot it lives in *)
  free : list slot;                       (* freeItem chain, top first *)
  nblocks : nat;                          (* length of the `blocks` chain *)
  msize : nat                             (* the _size field *)
}.

Definition nl_empty : nlist := mk_nlist [] [] O O.

Definition slots (ns : list (Z * slot)) : list slot := map snd ns.
Definition vals (ns : list (Z * slot)) : list Z := map fst ns.

(* Item* item = freeItem; if(!item) { new block; items 0..3 pushed in this order } ;
   freeItem = item->prev *)
Definition alloc (l : nlist) : slot * list slot * nat :=
  match free l with
  | s :: f => (s, f, nblocks l)
  | [] => let b := nblocks l in ((4 * b + 3)%nat, [(4 * b + 2)%nat; (4 * b + 1)%nat; (4 * b)%nat], S b)
  end.

(* Iterator insert(const Iterator& position, const T& value), position at rank k *)
Definition nl_insert (k : nat) (v : Z) (l : nlist) : nlist * slot :=
  let '(s, f, nb) := alloc l in
  (mk_nlist (firstn k (nodes l) ++ (v, s) :: skipn k (nodes l)) f nb (S (msize l)), s).

Definition nl_append (v : Z) (l : nlist) : nlist * slot := nl_insert (length (nodes l)) v l.

Fixpoint nl_append_all (vs : list Z) (l : nlist) : nlist :=
  match vs with
  | [] => l
  | v :: t => nl_append_all t (fst (nl_append v l))
  end.

Definition nth_slot (k : nat) (ns : list (Z * slot)) : option slot := option_map snd (nth_error ns k).

(* Iterator remove(const Iterator& it), it at rank k: unlink, --_size, destroy, push on the
   free list, return item->next *)
Definition nl_remove (k : nat) (l : nlist) : nlist * option slot :=
  match skipn k (nodes l) with
  | (_, s) :: rest =>
      (mk_nlist (firstn k (nodes l) ++ rest) (s :: free l) (nblocks l) (pred (msize l)),
       option_map snd (hd_error rest))
  | [] => (l, None)
  end.

Fixpoint find_rank (v : Z) (ns : list (Z * slot)) : nat :=
  match ns with
  | [] => O
  | (x, _) :: t => if x =? v then O else S (find_rank v t)
  end.

(* Iterator find(const T& value) const *)
Definition nl_find (v : Z) (l : nlist) : option slot := nth_slot (find_rank v (nodes l)) (nodes l).

(* void remove(const T& value) { it = find(value); if(it != _end) remove(it); } *)
Definition nl_remove_val (v : Z) (l : nlist) : nlist :=
  let k := find_rank v (nodes l) in
  if Nat.ltb k (length (nodes l)) then fst (nl_remove k l) else l.

(* Iterator insert(const Iterator& position, const List& list): the values of the other list
   are inserted one by one before the same node; the first inserted node is returned *)
Fixpoint nl_insert_all (k : nat) (vs : list Z) (l : nlist) : nlist :=
  match vs with
  | [] => l
  | v :: t => nl_insert_all (S k) t (fst (nl_insert k v l))
  end.

Definition nl_insert_list (k : nat) (vs : list Z) (l : nlist) : nlist * option slot :=
  match vs with
  | [] => (l, nth_slot k (nodes l))
  | v :: t => let '(l1, s) := nl_insert k v l in (nl_insert_all (S k) t l1, Some s)
  end.

(* void clear(): every node destroyed and pushed on the free list, first node first *)
Definition nl_clear (l : nlist) : nlist :=
  mk_nlist [] (frev (slots (nodes l)) ++ free l) (nblocks l) O.

(* bool operator==: sizes first, then value by value *)
Fixpoint walk_eqb (a b : list (Z * slot)) : bool :=
  match a, b with
  | [], _ => true
  | (x, _) :: a', (y, _) :: b' => if x =? y then walk_eqb a' b' else false
  | _ :: _, [] => false
  end.
Definition nl_eqb (a b : nlist) : bool :=
  if Nat.eqb (msize a) (msize b) then walk_eqb (nodes a) (nodes b) else false.

(* sort exchanges the VALUES of the nodes; the nodes (slots) stay where they are *)
Definition nl_sort (key : Z -> Z) (l : nlist) : nlist :=
  mk_nlist (combine (sort_vals key (vals (nodes l))) (slots (nodes l))) (free l) (nblocks l) (msize l).

Inductive mres :=
| MNone
| MSkip
| MIt (var : nat) (it : option slot)      (* node iterator into variable var; None = end() *)
| MRef (var : nat) (s : slot)             (* reference to the value of the node in slot s *)
| MIdx (k : nat)                          (* Array iterator: _begin.item + k *)
| MRefIdx (k : nat)                       (* Array reference: _begin.item[k] *)
| MBool (b : bool).

Definition lworld := list nlist.
Definition lget (i : nat) (w : lworld) : nlist := nth i w nl_empty.
Definition lsize (w : lworld) (i : nat) : nat := msize (lget i w).

Definition lstep (key : Z -> Z) (w : lworld) (op : lop) : lworld * mres :=
  if negb (lpre (lsize w) (length w) op) then (w, MSkip) else
  match op with
  | LNew i => (upd i nl_empty w, MNone)
  | LAppend i v => let '(l, s) := nl_append v (lget i w) in (upd i l w, MRef i s)
  | LPrepend i v => let '(l, s) := nl_insert O v (lget i w) in (upd i l w, MRef i s)
  | LAppends i vs => (upd i (nl_append_all vs (lget i w)) w, MNone)
  | LInsert i k v => let '(l, s) := nl_insert k v (lget i w) in (upd i l w, MIt i (Some s))
  | LInsertList i k j =>                    (* j = i: a copy of the list is inserted, i.e. the values it had before *)
      let '(l, it) := nl_insert_list k (vals (nodes (lget j w))) (lget i w) in (upd i l w, MIt i it)
  | LAppendList i j =>
      let l0 := lget i w in
      (upd i (fst (nl_insert_list (length (nodes l0)) (vals (nodes (lget j w))) l0)) w, MNone)
  | LPrependList i j =>
      (upd i (fst (nl_insert_list O (vals (nodes (lget j w))) (lget i w))) w, MNone)
  | LRemove i k => let '(l, it) := nl_remove k (lget i w) in (upd i l w, MIt i it)
  | LRemoveVal i v => (upd i (nl_remove_val v (lget i w)) w, MNone)
  | LRemoveFront i => let '(l, it) := nl_remove O (lget i w) in (upd i l w, MIt i it)
  | LRemoveBack i =>
      let l0 := lget i w in
      let '(l, it) := nl_remove (pred (length (nodes l0))) l0 in (upd i l w, MIt i it)
  | LFind i v => (w, MIt i (nl_find v (lget i w)))
  | LClear i => (upd i (nl_clear (lget i w)) w, MNone)
  | LSwap i j => (upd j (lget i w) (upd i (lget j w) w), MNone)
  | LEq i j => (w, MBool (nl_eqb (lget i w) (lget j w)))
  | LNe i j => (w, MBool (negb (nl_eqb (lget i w) (lget j w))))
  | LCopy i j => (upd i (nl_append_all (vals (nodes (lget j w))) nl_empty) w, MNone)
  | LAssign i j =>                          (* if(this == &other) return *this; clear(); append each *)
      if Nat.eqb i j then (w, MNone) else
      (upd i (nl_append_all (vals (nodes (lget j w))) (nl_clear (lget i w))) w, MNone)
  | LSort i => (upd i (nl_sort key (lget i w)) w, MNone)
  end.

(* PoolList: allocateFreeItem + linkFreeItem = List's insert before end();
   remove(const T&) recovers the node from the element's address *)
Definition pstep (w : lworld) (op : pop) : lworld * mres :=
  if negb (ppre (lsize w) (length w) op) then (w, MSkip) else
  match op with
  | PNew i => (upd i nl_empty w, MNone)
  | PAppend i v => let '(l, s) := nl_append v (lget i w) in (upd i l w, MRef i s)
  | PRemove i k => let '(l, it) := nl_remove k (lget i w) in (upd i l w, MIt i it)
  | PRemoveRef i k => (upd i (fst (nl_remove k (lget i w))) w, MNone)
  | PRemoveFront i => let '(l, it) := nl_remove O (lget i w) in (upd i l w, MIt i it)
  | PRemoveBack i =>
      let l0 := lget i w in
      let '(l, it) := nl_remove (pred (length (nodes l0))) l0 in (upd i l w, MIt i it)
  | PClear i => (upd i (nl_clear (lget i w)) w, MNone)
  | PSwap i j => (upd j (lget i w) (upd i (lget j w) w), MNone)
  (* every one of the eight append overloads is linkFreeItem(new (allocateFreeItem()) T(a, b, ...)):
     same allocation and linking, the element built from all the arguments in their order *)
  | PAppendN i args => let '(l, s) := nl_append (ctor_val args) (lget i w) in (upd i l w, MRef i s)
  end.

(* what an observer sees of a returned iterator/reference: the rank of the node it points to *)
Fixpoint slot_rank (s : slot) (ns : list (Z * slot)) : nat :=
  match ns with
  | [] => O
  | (_, s') :: t => if Nat.eqb s' s then O else S (slot_rank s t)
  end.

Definition lobs_res (w : lworld) (r : mres) : res :=
  match r with
  | MNone => RNone
  | MSkip => RSkip
  | MIt i None => RIt (length (nodes (lget i w)))
  | MIt i (Some s) => RIt (slot_rank s (nodes (lget i w)))
  | MRef i s => RRef (slot_rank s (nodes (lget i w)))
  | MIdx k => RIt k
  | MRefIdx k => RRef k
  | MBool b => RBool b
  end.

Definition labs (w : lworld) : sstate := map (fun l => vals (nodes l)) w.

Fixpoint lrun (key : Z -> Z) (w : lworld) (ops : list lop) : list (lworld * mres) :=
  match ops with
  | [] => []
  | op :: t => let '(w1, r) := lstep key w op in (w1, r) :: lrun key w1 t
  end.

Fixpoint prun (w : lworld) (ops : list pop) : list (lworld * mres) :=
  match ops with
  | [] => []
  | op :: t => let '(w1, r) := pstep w op in (w1, r) :: prun w1 t
  end.

Definition linit (nv : nat) : lworld := repeat nl_empty nv.

(* ------------------------------------------------------------------------------------- *)
(* Array<T>                                                                                *)
(* ------------------------------------------------------------------------------------- *)
Record marr := mk_marr {
  items : list Z;                         (* [_begin.item, _end.item) *)
  cap : Z;                                (* _capacity *)
  allocated : bool                        (* _begin.item != 0 *)
}.

Definition a_empty : marr := mk_marr [] 0 false.
Definition asize (a : marr) : Z := Z.of_nat (length (items a)).

(* void reserve(usize size) *)
Definition a_reserve (n : Z) (a : marr) : marr :=
  if (n >? cap a) || (negb (allocated a) && (n >? 0)) then
    let c := if n >? cap a then n else cap a in
    mk_marr (items a) (Z.lor c 3) true
  else a.

(* void resize(usize size, const T& value = T()) *)
Definition a_resize (n : Z) (v : Z) (a : marr) : marr :=
  if n <? asize a then mk_marr (firstn (Z.to_nat n) (items a)) (cap a) (allocated a)
  else
    let a1 := a_reserve n a in
    mk_marr (items a1 ++ repeat v (Z.to_nat n - length (items a1))) (cap a1) (allocated a1).

Definition a_append (v : Z) (a : marr) : marr * nat :=
  let a1 := a_reserve (asize a + 1) a in
  (mk_marr (items a1 ++ [v]) (cap a1) (allocated a1), length (items a1)).

Definition a_append_all (vs : list Z) (a : marr) : marr :=
  let a1 := a_reserve (asize a + Z.of_nat (length vs)) a in
  mk_marr (items a1 ++ vs) (cap a1) (allocated a1).

(* the shifting loop: *dest = *(++pos) down the tail, then the last one destroyed *)
Fixpoint shift_out (k : nat) (l : list Z) : list Z :=
  match l, k with
  | [], _ => []
  | _ :: t, O => t
  | x :: t, S k' => x :: shift_out k' t
  end.

Definition a_remove_idx (k : nat) (a : marr) : marr :=
  if Z.of_nat k <? asize a then mk_marr (shift_out k (items a)) (cap a) (allocated a) else a.

Definition a_remove_it (k : nat) (a : marr) : marr * nat :=
  (mk_marr (shift_out k (items a)) (cap a) (allocated a), k).

Fixpoint a_find_from (v : Z) (l : list Z) (pos : nat) : nat :=
  match l with
  | [] => pos
  | x :: t => if x =? v then pos else a_find_from v t (S pos)
  end.

Definition a_clear (a : marr) : marr :=
  if allocated a then mk_marr [] (cap a) true else a.

(* copy constructor / operator=: reserve(other.capacity()) then copy-construct the elements *)
Definition a_copy_from (src : marr) (a : marr) : marr :=
  let a1 := a_reserve (cap src) a in
  mk_marr (items src) (cap a1) (allocated a1).

(* bool operator==: sizes first, then element by element (`if(element of a != element of b) return false`) *)
Fixpoint arr_walk_eqb (a b : list Z) : bool :=
  match a, b with
  | [], _ => true
  | x :: a', y :: b' => if x =? y then arr_walk_eqb a' b' else false
  | _ :: _, [] => false
  end.
Definition a_eqb (a b : marr) : bool :=
  if asize a =? asize b then arr_walk_eqb (items a) (items b) else false.

Definition aworld := list marr.
Definition aget (i : nat) (w : aworld) : marr := nth i w a_empty.
Definition awsize (w : aworld) (i : nat) : nat := length (items (aget i w)).

Definition astep (w : aworld) (op : aop) : aworld * mres :=
  if negb (apre (awsize w) (length w) op) then (w, MSkip) else
  match op with
  | ANew i => (upd i a_empty w, MNone)
  | ANewCap i n => (upd i (mk_marr [] n false) w, MNone)
  | ACopy i j => (upd i (a_copy_from (aget j w) a_empty) w, MNone)
  | AAssign i j =>                          (* if(this == &other) return *this; *)
      if Nat.eqb i j then (w, MNone) else
      (upd i (a_copy_from (aget j w) (a_clear (aget i w))) w, MNone)
  | AReserve i n => (upd i (a_reserve n (aget i w)) w, MNone)
  | AResizeD i n => (upd i (a_resize n 0 (aget i w)) w, MNone)
  | AResize i n v => (upd i (a_resize n v (aget i w)) w, MNone)
  | AAppend i v => let '(a, k) := a_append v (aget i w) in (upd i a w, MRefIdx k)
  (* j = i: size and values._begin.item are read around reserve() so that the first size() elements of
     the new storage are copied: the array followed by a copy of itself *)
  | AAppendArr i j => (upd i (a_append_all (items (aget j w)) (aget i w)) w, MNone)
  | AAppendBuf i vs => (upd i (a_append_all vs (aget i w)) w, MNone)
  | ARemoveIdx i k => (upd i (a_remove_idx k (aget i w)) w, MNone)
  | ARemoveIt i k => let '(a, r) := a_remove_it k (aget i w) in (upd i a w, MIdx r)
  | ARemoveFront i => let '(a, r) := a_remove_it O (aget i w) in (upd i a w, MIdx r)
  | ARemoveBack i =>
      let a0 := aget i w in
      let '(a, r) := a_remove_it (pred (length (items a0))) a0 in (upd i a w, MIdx r)
  | AFind i v => (w, MIdx (a_find_from v (items (aget i w)) O))
  | AClear i => (upd i (a_clear (aget i w)) w, MNone)
  | ASwap i j => (upd j (aget i w) (upd i (aget j w) w), MNone)
  (* append / resize with a reference to an own element: the value is copied before reserve() replaces
     the storage (`const T copy(value)` when the request exceeds the capacity), so it is the element's
     value before the operation in every case *)
  | AAppendOwn i k =>
      let a0 := aget i w in let '(a, r) := a_append (nth k (items a0) 0) a0 in (upd i a w, MRefIdx r)
  | AResizeOwn i n k => let a0 := aget i w in (upd i (a_resize n (nth k (items a0) 0) a0) w, MNone)
  (* append(const T*, usize) with a pointer into the array's own storage: the offset is taken before reserve()
     and the pointer re-based on the new storage, so the elements appended are those the range held *)
  | AAppendBufOwn i off n =>
      let a0 := aget i w in (upd i (a_append_all (firstn n (skipn off (items a0))) a0) w, MNone)
  | AEq i j => (w, MBool (a_eqb (aget i w) (aget j w)))
  | ANe i j => (w, MBool (negb (a_eqb (aget i w) (aget j w))))
  end.

Definition aabs (w : aworld) : sstate := map items w.

Definition aobs_res (r : mres) : res :=
  match r with
  | MNone => RNone | MSkip => RSkip | MIdx k => RIt k | MRefIdx k => RRef k | MBool b => RBool b
  | MIt _ _ => RSkip | MRef _ _ => RSkip
  end.

Fixpoint arun (w : aworld) (ops : list aop) : list (aworld * mres) :=
  match ops with
  | [] => []
  | op :: t => let '(w1, r) := astep w op in (w1, r) :: arun w1 t
  end.

Definition ainit (nv : nat) : aworld := repeat a_empty nv.

(* element kinds of the harness: int and Obj compare the whole value, KV compares value / 16 *)
Definition key_full (v : Z) : Z := v.
Definition key_kv (v : Z) : Z := v / 16.
