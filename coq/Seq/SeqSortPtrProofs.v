(* List::sort at the level of node pointers (qs_loop / qs_sort / sort_ptr of SeqModel, the
   statement-by-statement transcription) computes exactly the value-level quicksort `sort_vals`
   that SeqSortProofs shows to return an ascending permutation - so the in-place quicksort as coded
   sorts, for every input and every key order, and its recursion depth never exceeds the length. *)
From Coq Require Import ZArith List Bool Lia Sorting.Sorted Sorting.Permutation.
From Common Require Import ListAux.
From Seq Require Import SeqSpec SeqModel SeqSortProofs.
Import ListNotations.
Local Open Scope nat_scope.

(* ---- positions in a list --------------------------------------------------------------- *)
Lemma upd_nth_id {A} i (d : A) l : upd i (nth i l d) l = l.
Proof. revert i; induction l as [|h t IH]; intros [|i]; cbn; auto. f_equal. apply IH. Qed.

Lemma upd_upd_same {A} i (x y : A) l : upd i x (upd i y l) = upd i x l.
Proof. revert i; induction l as [|h t IH]; intros [|i]; cbn; auto. f_equal. apply IH. Qed.

Lemma swap_at_same i a : swap_at i i a = a.
Proof. unfold swap_at. rewrite upd_upd_same. apply upd_nth_id. Qed.

Lemma nth_at {A} (a b : list A) x d n : n = length a -> nth n (a ++ x :: b) d = x.
Proof. intros ->. apply nth_middle. Qed.

Lemma upd_at {A} (a b : list A) x y n : n = length a -> upd n x (a ++ y :: b) = a ++ x :: b.
Proof. intros ->. apply upd_app_at. Qed.

Lemma swap_at_apart (A G B : list Z) g x i j : i = length A -> j = length A + S (length G) ->
    swap_at i j (A ++ g :: G ++ x :: B) = A ++ x :: G ++ g :: B.
Proof.
  intros Hi Hj. unfold swap_at.
  assert (Hj' : j = length (A ++ g :: G)) by (rewrite app_length; cbn [length]; lia).
  rewrite (nth_at A (G ++ x :: B) g 0%Z i Hi).
  replace (A ++ g :: G ++ x :: B) with ((A ++ g :: G) ++ x :: B) at 1 by (rewrite <- app_assoc; reflexivity).
  rewrite (nth_at (A ++ g :: G) B x 0%Z j Hj').
  rewrite (upd_at A (G ++ x :: B) x g i Hi).
  replace (A ++ x :: G ++ x :: B) with ((A ++ x :: G) ++ x :: B) by (rewrite <- app_assoc; reflexivity).
  rewrite (upd_at (A ++ x :: G) B g x j) by (rewrite app_length; cbn [length]; lia).
  rewrite <- app_assoc. reflexivity.
Qed.

Ltac lnorm := repeat (first [rewrite <- app_assoc | progress cbn [app]]).

Section SortPtrProofs.
  Variable key : Z -> Z.

  (* the partition of the value-level model, with the two runs as plain lists *)
  Fixpoint part_l (p : Z) (less geq rest : list Z) : list Z * list Z :=
    match rest with
    | [] => (less, geq)
    | x :: r =>
        if vlt key x p then
          match geq with
          | g :: G => part_l p (less ++ [x]) (G ++ [g]) r
          | [] => part_l p (less ++ [x]) [] r
          end
        else part_l p less (geq ++ [x]) r
    end.

  Lemma part_part_l p rest : forall lessr gf gb,
      part key p lessr gf gb rest =
      (let '(less', geq') := part_l p (rev lessr) (gf ++ rev gb) rest in (rev less', geq')).
  Proof.
    induction rest as [|x r IH]; intros lessr gf gb; cbn [part part_l].
    - rewrite frev_rev, rev_involutive. reflexivity.
    - destruct (vlt key x p).
      + destruct gf as [|g gf'].
        * rewrite frev_rev. cbn [app]. destruct (rev gb) as [|g gf'] eqn:E.
          -- rewrite IH. cbn [rev app]. reflexivity.
          -- rewrite IH. cbn [rev app]. reflexivity.
        * rewrite IH. cbn [rev app]. rewrite <- !app_assoc. reflexivity.
      + rewrite IH. cbn [rev]. rewrite app_assoc. reflexivity.
  Qed.

  Lemma part_l_length p rest : forall less geq less' geq',
      part_l p less geq rest = (less', geq') -> length less' + length geq' = length less + length geq + length rest.
  Proof.
    induction rest as [|x r IH]; intros less geq less' geq' H; cbn [part_l] in H.
    - inversion H; subst. cbn. lia.
    - destruct (vlt key x p).
      + destruct geq as [|g G]; apply IH in H; rewrite ?app_length in H; cbn [length] in *; lia.
      + apply IH in H. rewrite app_length in H. cbn [length] in *. lia.
  Qed.

  (* the do-while loop on the node positions is that partition, in place *)
  Lemma qs_loop_spec pre pv post : forall rest fuel less geq a left right p0 p1 p2 nl no,
      rest <> [] -> length rest <= fuel ->
      a = pre ++ pv :: less ++ geq ++ rest ++ post ->
      left = length pre -> p1 = left + length less -> p2 = p1 + length geq -> right = p2 + length rest ->
      p0 = left + pred (length less) -> nl = length less -> no = length geq ->
      qs_loop key fuel left right a p0 p1 p2 nl no =
      (let '(less', geq') := part_l pv less geq rest in
       Some (pre ++ pv :: less' ++ geq' ++ post, left + pred (length less'), left + length less',
             length less', length geq')).
  Proof.
    induction rest as [|x r IH]; intros fuel less geq a left right p0 p1 p2 nl no Hne Hf Ha Hl H1 H2 Hr H0 Hnl Hno; [congruence|].
    subst nl no. destruct fuel as [|f]; [cbn [length] in Hf; lia|]. cbn [qs_loop part_l].
    assert (Hx : nth (S p2) a 0%Z = x).
    { rewrite Ha. replace (pre ++ pv :: less ++ geq ++ (x :: r) ++ post)
        with ((pre ++ pv :: less ++ geq) ++ x :: r ++ post) by (lnorm; reflexivity).
      apply nth_at. rewrite app_length. cbn [length]. rewrite app_length. lia. }
    assert (Hp : nth left a 0%Z = pv) by (rewrite Ha; apply nth_at; exact Hl).
    rewrite Hx, Hp.
    assert (Heq : Nat.eqb (S p2) right = match r with [] => true | _ => false end).
    { destruct r; cbn [length] in Hr; [apply Nat.eqb_eq|apply Nat.eqb_neq]; lia. }
    rewrite Heq.
    destruct (vlt key x pv).
    - (* x < pivot: ptr0 = ptr1; ptr1 = ptr1->next; swap(ptr1, ptr2) *)
      destruct geq as [|g G].
      + (* no element >= pivot so far: ptr1 and ptr2 are the same node *)
        assert (S p1 = S p2) as -> by (cbn [length] in H2; lia). rewrite swap_at_same.
        destruct r as [|y r'].
        * cbn [part_l]. rewrite Ha. rewrite !app_length. cbn [length app] in *. rewrite <- !app_assoc.
          repeat f_equal; lia.
        * apply IH; try (cbn [length] in *; rewrite ?app_length; cbn [length]; lia); [discriminate|].
          rewrite Ha. cbn [app]. rewrite <- !app_assoc. reflexivity.
      + assert (Hs : swap_at (S p1) (S p2) a = pre ++ pv :: (less ++ [x]) ++ (G ++ [g]) ++ r ++ post).
        { rewrite Ha.
          replace (pre ++ pv :: less ++ (g :: G) ++ (x :: r) ++ post)
            with ((pre ++ pv :: less) ++ g :: G ++ x :: (r ++ post))
            by (lnorm; reflexivity).
          rewrite swap_at_apart; try (rewrite app_length; cbn [length] in *; lia).
          lnorm. reflexivity. }
        rewrite Hs. destruct r as [|y r'].
        * cbn [part_l]. rewrite !app_length. cbn [length] in *. repeat f_equal; lia.
        * apply IH; try (cbn [length] in *; rewrite ?app_length; cbn [length]; lia); [discriminate|reflexivity].
    - (* x >= pivot: only ptr2 moves *)
      destruct r as [|y r'].
      + cbn [part_l]. rewrite Ha, H0, H1. rewrite !app_length. cbn [length]. lnorm. repeat f_equal; lia.
      + apply IH; try (cbn [length] in *; rewrite ?app_length; cbn [length]; lia); [discriminate|].
        rewrite Ha. lnorm. reflexivity.
  Qed.

  Lemma qsort_unfold f p y rest' :
      qsort key (S f) (p :: y :: rest') =
      (let '(lessr, geq) := part key p [] [] [] (y :: rest') in
       let left := left_of lessr in
       match (if Nat.leb 2 (length left) then qsort key f left else Some left),
             (if Nat.leb 2 (length geq) then qsort key f geq else Some geq) with
       | Some a, Some b => Some (a ++ p :: b)
       | _, _ => None
       end).
  Proof. reflexivity. Qed.

  Lemma qsort_length fuel l r : length l <= fuel -> 1 <= fuel -> qsort key fuel l = Some r -> length r = length l.
  Proof.
    intros H1 H2 H. destruct (qsort_correct key fuel l H1 H2) as (r' & E & P & _).
    rewrite E in H. inversion H; subst. symmetry. apply Permutation_length. exact P.
  Qed.

  Lemma qdepth_unfold f p y rest' :
      qdepth key (S f) (p :: y :: rest') =
      (let '(lessr, geq) := part key p [] [] [] (y :: rest') in
       let left := left_of lessr in
       let dl := if Nat.leb 2 (length left) then qdepth key f left else O in
       let dg := if Nat.leb 2 (length geq) then qdepth key f geq else O in
       if Nat.ltb (length left) (length geq) then Nat.max (S dl) dg else Nat.max (S dg) dl).
  Proof. reflexivity. Qed.

  (* sort(left, right) on the nodes left..right = the value-level quicksort on their values, whichever
     side is sorted first; nothing outside left..right is touched; the number of live frames is qdepth *)
  Lemma qs_sort_refines : forall fuel pre seg post,
      2 <= length seg -> length seg <= fuel ->
      qs_sort key fuel (length pre) (length pre + length seg - 1) (pre ++ seg ++ post) =
      option_map (fun r => (pre ++ r ++ post, qdepth key fuel seg)) (qsort key fuel seg).
  Proof.
    induction fuel as [|f IH]; intros pre seg post H2 Hf; [lia|].
    destruct seg as [|p [|y rest']]; cbn [length] in H2; try lia.
    rewrite qsort_unfold, qdepth_unfold.
    remember (y :: rest') as rest eqn:Hrest.
    rewrite part_part_l. cbn [rev app].
    assert (Hrl : length rest = S (length rest')) by (subst rest; reflexivity).
    cbn [qs_sort app length].
    assert (HL : qs_loop key (length (pre ++ p :: rest ++ post)) (length pre) (length pre + S (length rest) - 1)
                   (pre ++ p :: rest ++ post) (length pre) (length pre) (length pre) 0 0
                 = (let '(less', geq') := part_l p [] [] rest in
                    Some (pre ++ p :: less' ++ geq' ++ post, length pre + pred (length less'), length pre + length less',
                          length less', length geq'))).
    { apply (qs_loop_spec pre p post rest _ [] []); cbn [length app]; rewrite ?app_length; cbn [length];
        rewrite ?app_length; try lia; try reflexivity. subst rest; discriminate. }
    rewrite HL. clear HL.
    destruct (part_l p [] [] rest) as [less geq] eqn:Hpart.
    pose proof (part_l_length _ _ _ _ _ _ Hpart) as Hlen. cbn [length] in Hlen.
    cbn [length] in Hf.
    (* swap(left, ptr1): the pivot goes behind the smaller values *)
    assert (Hswap : swap_at (length pre) (length pre + length less) (pre ++ p :: less ++ geq ++ post)
                    = pre ++ left_of (rev less) ++ p :: geq ++ post
                      /\ length (left_of (rev less)) = length less).
    { destruct less as [|z less0] using rev_ind.
      - cbn [length rev left_of app]. rewrite Nat.add_0_r. rewrite swap_at_same. split; reflexivity.
      - clear IHless0. rewrite rev_unit. cbn [left_of]. rewrite frev_rev, rev_involutive. split.
        + replace (pre ++ p :: (less0 ++ [z]) ++ geq ++ post) with (pre ++ p :: less0 ++ z :: geq ++ post)
            by (rewrite <- app_assoc; reflexivity).
          rewrite swap_at_apart; [|reflexivity|rewrite app_length; cbn [length]; lia]. reflexivity.
        + cbn [length]. rewrite app_length. cbn [length]. lia. }
    destruct Hswap as (Hswap & Hll). rewrite Hswap. clear Hswap.
    set (L := left_of (rev less)) in *.
    set (p0 := length pre + pred (length less)).
    set (p1 := length pre + length less).
    set (right := length pre + S (length rest) - 1).
    set (p1' := if Nat.eqb p1 right then p1 else S p1).
    set (left := length pre).
    set (dl := if Nat.leb 2 (length L) then qdepth key f L else 0).
    set (dg := if Nat.leb 2 (length geq) then qdepth key f geq else 0).
    (* sort(left, ptr0), whatever stands behind the pivot *)
    assert (HA : forall G,
               (if Nat.eqb left p0 then Some (pre ++ L ++ p :: G, 0) else qs_sort key f left p0 (pre ++ L ++ p :: G))
               = option_map (fun a => (pre ++ a ++ p :: G, dl))
                   (if Nat.leb 2 (length L) then qsort key f L else Some L)).
    { intros G. unfold dl, left, p0. rewrite Hll. destruct (Nat.leb 2 (length less)) eqn:E.
      - apply Nat.leb_le in E. assert (Nat.eqb (length pre) (length pre + pred (length less)) = false) as ->
          by (apply Nat.eqb_neq; lia).
        replace (length pre + pred (length less)) with (length pre + length L - 1) by lia.
        rewrite (IH pre L (p :: G)) by lia. destruct (qsort key f L); reflexivity.
      - apply Nat.leb_gt in E. assert (Nat.eqb (length pre) (length pre + pred (length less)) = true) as ->
          by (apply Nat.eqb_eq; lia).
        reflexivity. }
    (* sort(ptr1, right), whatever stands before the pivot (same number of nodes) *)
    assert (HB : forall A, length A = length less ->
               (if Nat.eqb p1' right then Some (pre ++ A ++ p :: geq ++ post, 0)
                else qs_sort key f p1' right (pre ++ A ++ p :: geq ++ post))
               = option_map (fun b => (pre ++ A ++ p :: b ++ post, dg))
                   (if Nat.leb 2 (length geq) then qsort key f geq else Some geq)).
    { intros A HA'. unfold dg, p1'. destruct (Nat.leb 2 (length geq)) eqn:E.
      - apply Nat.leb_le in E.
        assert (Nat.eqb p1 right = false) as -> by (apply Nat.eqb_neq; unfold p1, right; lia).
        assert (Nat.eqb (S p1) right = false) as -> by (apply Nat.eqb_neq; unfold p1, right; lia).
        replace (pre ++ A ++ p :: geq ++ post) with ((pre ++ A ++ [p]) ++ geq ++ post)
          by (rewrite <- !app_assoc; reflexivity).
        replace (S p1) with (length (pre ++ A ++ [p])) by (rewrite !app_length; cbn [length]; unfold p1; lia).
        replace right with (length (pre ++ A ++ [p]) + length geq - 1)
          by (rewrite !app_length; cbn [length]; unfold right; lia).
        rewrite IH by lia.
        destruct (qsort key f geq) as [b|]; cbn [option_map]; [|reflexivity].
        rewrite <- !app_assoc. reflexivity.
      - apply Nat.leb_gt in E.
        assert ((if Nat.eqb p1 right then p1 else S p1) = right) as ->.
        { destruct (Nat.eqb p1 right) eqn:E1; [apply Nat.eqb_eq in E1; exact E1|].
          apply Nat.eqb_neq in E1. unfold p1, right in *. lia. }
        rewrite Nat.eqb_refl. reflexivity. }
    assert (E0 : Nat.eqb left p0 = negb (Nat.leb 2 (length L))).
    { rewrite Hll. unfold left, p0. destruct (Nat.leb 2 (length less)) eqn:E; cbn [negb].
      - apply Nat.leb_le in E. apply Nat.eqb_neq. lia.
      - apply Nat.leb_gt in E. apply Nat.eqb_eq. lia. }
    assert (E1 : Nat.eqb p1' right = negb (Nat.leb 2 (length geq))).
    { unfold p1'. destruct (Nat.leb 2 (length geq)) eqn:E; cbn [negb].
      - apply Nat.leb_le in E. destruct (Nat.eqb p1 right) eqn:E1; apply Nat.eqb_neq;
          [apply Nat.eqb_eq in E1|apply Nat.eqb_neq in E1]; unfold p1, right in *; lia.
      - apply Nat.leb_gt in E. destruct (Nat.eqb p1 right) eqn:E1;
          [apply Nat.eqb_eq in E1|apply Nat.eqb_neq in E1]; apply Nat.eqb_eq; unfold p1, right in *; lia. }
    cbv beta iota zeta. fold L. fold dl. fold dg. rewrite <- Hll.
    destruct (Nat.ltb (length L) (length geq)) eqn:Eside.
    - (* the left side is the shorter one: recursive call on it, then go on with the right side *)
      rewrite (HA (geq ++ post)).
      destruct (if Nat.leb 2 (length L) then qsort key f L else Some L) as [a|] eqn:EA; cbn [option_map].
      2:{ reflexivity. }
      assert (Hla : length a = length less).
      { rewrite <- Hll. destruct (Nat.leb 2 (length L)) eqn:E.
        - apply Nat.leb_le in E. eapply qsort_length; [| |exact EA]; lia.
        - inversion EA. reflexivity. }
      pose proof (HB a Hla) as HBa. rewrite E1 in HBa |- *.
      destruct (Nat.leb 2 (length geq)) eqn:E; cbn [negb] in HBa |- *.
      + rewrite HBa. destruct (qsort key f geq) as [b|]; cbn [option_map]; [|reflexivity].
        rewrite <- !app_assoc. reflexivity.
      + cbn [option_map]. unfold dg. rewrite Nat.max_0_r. rewrite <- !app_assoc. reflexivity.
    - (* the right side is not longer: recursive call on it, then go on with the left side *)
      rewrite (HB L Hll).
      destruct (if Nat.leb 2 (length geq) then qsort key f geq else Some geq) as [b|] eqn:EB; cbn [option_map].
      2:{ destruct (if Nat.leb 2 (length L) then qsort key f L else Some L); reflexivity. }
      pose proof (HA (b ++ post)) as HAb. rewrite E0 in HAb |- *.
      destruct (Nat.leb 2 (length L)) eqn:E; cbn [negb] in HAb |- *.
      + rewrite HAb. destruct (qsort key f L) as [a|]; cbn [option_map]; [|reflexivity].
        rewrite <- !app_assoc. reflexivity.
      + cbn [option_map]. unfold dl. rewrite Nat.max_0_r. rewrite <- !app_assoc. reflexivity.
  Qed.

  (* the depth of the recursion is logarithmic: the side sorted by a recursive call has at most half
     of the nodes *)
  Lemma pow_max a b n : 2 ^ a <= n -> 2 ^ b <= n -> 2 ^ Nat.max a b <= n.
  Proof. intros Ha Hb. destruct (Nat.max_spec a b) as [[_ ->]|[_ ->]]; assumption. Qed.

  Lemma qdepth_log : forall fuel l, 2 <= length l -> length l <= fuel -> 2 ^ qdepth key fuel l <= length l.
  Proof.
    induction fuel as [|f IH]; intros l H2 Hf; [lia|].
    destruct l as [|p [|y rest']]; cbn [length] in H2; try lia.
    rewrite qdepth_unfold. remember (y :: rest') as rest eqn:Hrest.
    assert (Hrl : length rest = S (length rest')) by (subst rest; reflexivity).
    rewrite part_part_l. cbn [rev app].
    destruct (part_l p [] [] rest) as [less geq] eqn:Hpart.
    pose proof (part_l_length _ _ _ _ _ _ Hpart) as Hlen. cbn [length] in Hlen.
    assert (Hll : length (left_of (rev less)) = length less).
    { rewrite (Permutation_length (left_of_perm (rev less))). apply rev_length. }
    cbv beta iota zeta. set (L := left_of (rev less)) in *.
    cbn [length] in Hf |- *.
    assert (DL : 2 <= length L -> 2 ^ qdepth key f L <= length L) by (intros; apply IH; lia).
    assert (DG : 2 <= length geq -> 2 ^ qdepth key f geq <= length geq) by (intros; apply IH; lia).
    destruct (Nat.leb 2 (length L)) eqn:E1; [apply Nat.leb_le in E1; specialize (DL E1)|apply Nat.leb_gt in E1; clear DL];
      (destruct (Nat.leb 2 (length geq)) eqn:E2; [apply Nat.leb_le in E2; specialize (DG E2)|apply Nat.leb_gt in E2; clear DG]);
      (destruct (Nat.ltb (length L) (length geq)) eqn:E3; [apply Nat.ltb_lt in E3|apply Nat.ltb_ge in E3]);
      apply pow_max; rewrite ?Nat.pow_succ_r', ?Nat.pow_0_r; lia.
  Qed.

  Lemma sort_ptr_depth_log (l : list Z) r d : 2 <= length l ->
      qs_sort key (length l) 0 (length l - 1) l = Some (r, d) -> 2 ^ d <= length l.
  Proof.
    intros E H. pose proof (qs_sort_refines (length l) [] l [] E (le_n _)) as R.
    cbn [length app] in R. rewrite app_nil_r in R. cbn [Nat.add] in R. rewrite R in H.
    destruct (qsort key (length l) l) as [r'|]; cbn [option_map] in H; [|discriminate].
    injection H as _ <-. apply qdepth_log; lia.
  Qed.

  (* what the drivers print as the depth of sort() is the depth of the statement-by-statement transcription,
     and it is logarithmic: 2 ^ depth <= max 1 (number of elements) *)
  Lemma sort_ptr_depth_is_sort_depth (l : list Z) r d : 2 <= length l ->
      qs_sort key (length l) 0 (length l - 1) l = Some (r, d) -> d = sort_depth key l.
  Proof.
    intros E H. pose proof (qs_sort_refines (length l) [] l [] E (le_n _)) as R.
    cbn [length app] in R. rewrite app_nil_r in R. cbn [Nat.add] in R. rewrite R in H.
    destruct (qsort key (length l) l) as [r'|]; cbn [option_map] in H; [|discriminate].
    injection H as _ <-. unfold sort_depth.
    destruct (Nat.ltb (length l) 2) eqn:E2; [apply Nat.ltb_lt in E2; lia|reflexivity].
  Qed.

  Lemma sort_depth_pow (l : list Z) : 2 ^ sort_depth key l <= Nat.max 1 (length l).
  Proof.
    unfold sort_depth. destruct (Nat.ltb (length l) 2) eqn:E2.
    - cbn [Nat.pow]. lia.
    - apply Nat.ltb_ge in E2. pose proof (qdepth_log (length l) l E2 (le_n _)). lia.
  Qed.

  Lemma sort_depth_short (l : list Z) : length l < 2 -> sort_depth key l = 0.
  Proof. intros H. unfold sort_depth. apply Nat.ltb_lt in H. rewrite H. reflexivity. Qed.

  Lemma sort_ptr_is_sort_vals (l : list Z) : sort_ptr key l = sort_vals key l.
  Proof.
    unfold sort_ptr, sort_vals. destruct (Nat.ltb (length l) 2) eqn:E; [reflexivity|].
    apply Nat.ltb_ge in E.
    pose proof (qs_sort_refines (length l) [] l [] E (le_n _)) as H.
    cbn [length app] in H. rewrite app_nil_r in H. cbn [Nat.add] in H. rewrite H.
    destruct (qsort key (length l) l) as [r|]; cbn [option_map]; [|reflexivity].
    rewrite app_nil_r. reflexivity.
  Qed.

  (* List::sort as coded: total with fuel = length, ascending permutation *)
  Lemma sort_ptr_total (l : list Z) : 2 <= length l -> exists r, qs_sort key (length l) 0 (length l - 1) l = Some r.
  Proof.
    intros E. pose proof (qs_sort_refines (length l) [] l [] E (le_n _)) as H.
    cbn [length app] in H. rewrite app_nil_r in H. cbn [Nat.add] in H. rewrite H.
    destruct (sort_total_key key l E) as (r & ->). cbn [option_map]. eauto.
  Qed.

  Lemma sort_ptr_correct (l : list Z) : ascending_permutation key l (sort_ptr key l).
  Proof. rewrite sort_ptr_is_sort_vals. apply sort_vals_correct. Qed.
End SortPtrProofs.
