(* The constants and the overload shapes that checks/C03.py reads off the source text on every run
   (Gen_Seq.v) are the ones the models are written with.  A source edit that changes the number of
   items per pool block, the rounding mask of Array::reserve, or adds / removes / reshapes one of
   the PoolList::append overloads breaks this file (or the translator) before any case is run. *)
From Coq Require Import ZArith List Bool Lia.
From Seq Require Import Gen_Seq SeqSpec SeqModel.
Import ListNotations.

Lemma arities_tie args : ctor_args_ok args = true -> In (length args) gen_poollist_append_arities.
Proof.
  unfold ctor_args_ok. intros H. apply andb_true_iff in H. destruct H as [H _]. apply Nat.leb_le in H.
  unfold gen_poollist_append_arities. cbn [In]. lia.
Qed.

Lemma arities_tie_conv n : In n gen_poollist_append_arities -> ctor_args_ok (repeat 0%Z n) = true.
Proof.
  unfold gen_poollist_append_arities. cbn [In]. intros H.
  repeat (destruct H as [<-|H]; [reflexivity|]). destruct H.
Qed.

Lemma block_tie l : free l = [] ->
    length (fst (fst (alloc l)) :: snd (fst (alloc l))) = gen_list_block_items
    /\ gen_poollist_block_items = gen_list_block_items.
Proof. intros H. unfold alloc. rewrite H. split; reflexivity. Qed.

Lemma reserve_mask_tie n a : (cap a < n)%Z -> cap (a_reserve n a) = Z.lor n gen_array_reserve_mask.
Proof.
  intros H. unfold a_reserve. assert ((n >? cap a)%Z = true) as -> by lia. cbn [orb cap]. reflexivity.
Qed.

Theorem source_tie :
    (forall args, ctor_args_ok args = true -> In (length args) gen_poollist_append_arities)
    /\ (forall n, In n gen_poollist_append_arities -> ctor_args_ok (repeat 0%Z n) = true)
    /\ (forall l, free l = [] ->
          length (fst (fst (alloc l)) :: snd (fst (alloc l))) = gen_list_block_items
          /\ gen_poollist_block_items = gen_list_block_items)
    /\ (forall n a, (cap a < n)%Z -> cap (a_reserve n a) = Z.lor n gen_array_reserve_mask).
Proof.
  split; [exact arities_tie|]. split; [exact arities_tie_conv|]. split; [exact block_tie|exact reserve_mask_tie].
Qed.
