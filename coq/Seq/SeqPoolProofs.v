(* Node lists (List / PoolList) one container at a time: the pool invariant, and for every
   operation of the model its effect on the value sequence and the rank of the node it returns. *)
From Coq Require Import ZArith List Bool Lia Sorting.Sorted Sorting.Permutation.
From Common Require Import ListAux.
From Seq Require Import SeqSpec SeqModel SeqSortProofs.
Import ListNotations.
Local Open Scope nat_scope.

(* every slot of every block is either in a node or on the free list, exactly once;
   the _size field is the number of nodes *)
Definition nl_inv (l : nlist) : Prop :=
  Permutation (slots (nodes l) ++ free l) (seq 0 (4 * nblocks l)) /\ msize l = length (nodes l).

(* what an observer sees of an iterator *)
Definition obs_it (it : option slot) (ns : list (Z * slot)) : nat :=
  match it with None => length ns | Some s => slot_rank s ns end.

Lemma nl_inv_empty : nl_inv nl_empty.
Proof. split; cbn; constructor. Qed.

Lemma nl_inv_nodup l : nl_inv l -> NoDup (slots (nodes l) ++ free l).
Proof. intros [P _]. eapply Permutation_NoDup; [symmetry; exact P|apply seq_NoDup]. Qed.

Lemma NoDup_app_l {A} (a b : list A) : NoDup (a ++ b) -> NoDup a.
Proof.
  induction a as [|x a IH]; cbn; intros H; [constructor|].
  inversion H as [|? ? Hx Ht]; subst. constructor; [|apply IH; exact Ht].
  intros Hin. apply Hx. apply in_or_app. left. exact Hin.
Qed.

Lemma nl_inv_nodup_nodes l : nl_inv l -> NoDup (slots (nodes l)).
Proof. intros H. eapply NoDup_app_l. apply nl_inv_nodup. exact H. Qed.

(* ---- list facts ---------------------------------------------------------------------- *)
Lemma slots_app a b : slots (a ++ b) = slots a ++ slots b.
Proof. apply map_app. Qed.
Lemma vals_app a b : vals (a ++ b) = vals a ++ vals b.
Proof. apply map_app. Qed.
Lemma vals_length ns : length (vals ns) = length ns.
Proof. apply map_length. Qed.
Lemma slots_length ns : length (slots ns) = length ns.
Proof. apply map_length. Qed.

Lemma slot_rank_app a v s b : ~ In s (slots a) -> slot_rank s (a ++ (v, s) :: b) = length a.
Proof.
  induction a as [|[x s'] a IH]; cbn; intros H.
  - rewrite Nat.eqb_refl. reflexivity.
  - destruct (Nat.eqb s' s) eqn:E.
    + apply Nat.eqb_eq in E. exfalso. apply H. left. exact E.
    + f_equal. apply IH. intros Hin. apply H. right. exact Hin.
Qed.

Lemma skipn_cons_S {A} (k : nat) : forall (l : list A) x rest, skipn k l = x :: rest -> skipn (S k) l = rest.
Proof.
  induction k as [|k IH]; intros l x rest H.
  - cbn in H. subst l. reflexivity.
  - destruct l as [|y t]; [discriminate|]. cbn in H. apply IH in H. exact H.
Qed.

Lemma skipn_nonempty {A} (k : nat) (l : list A) : k < length l -> exists x rest, skipn k l = x :: rest.
Proof.
  intros H. destruct (skipn k l) as [|x rest] eqn:E.
  - assert (length (skipn k l) = length l - k) by apply skipn_length. rewrite E in H0. cbn in H0. lia.
  - eauto.
Qed.

Lemma split_at {A} (k : nat) (l : list A) x rest : skipn k l = x :: rest -> l = firstn k l ++ x :: rest.
Proof. intros H. rewrite <- H. symmetry. apply firstn_skipn. Qed.

(* the rank of the node found at position k is k *)
Lemma rank_nth ns : NoDup (slots ns) -> forall k,
    match nth_slot k ns with
    | Some s => slot_rank s ns = k /\ k < length ns
    | None => length ns <= k
    end.
Proof.
  intros ND k. unfold nth_slot.
  destruct (nth_error ns k) as [[v s]|] eqn:E; cbn.
  - assert (Hk : k < length ns) by (apply nth_error_Some; rewrite E; discriminate).
    split; [|exact Hk].
    destruct (skipn_nonempty k ns Hk) as (x & rest & Hs).
    assert (x = (v, s)).
    { pose proof (split_at _ _ _ _ Hs) as Hl. rewrite Hl in E.
      assert (Hf : length (firstn k ns) = k) by (apply firstn_length_le; lia).
      rewrite nth_error_app2 in E by lia.
      rewrite Hf, Nat.sub_diag in E. cbn in E. inversion E. reflexivity. }
    subst x. pose proof (split_at _ _ _ _ Hs) as Hl.
    rewrite Hl. rewrite slot_rank_app.
    + apply firstn_length_le. lia.
    + rewrite Hl in ND. rewrite slots_app in ND. cbn in ND. apply NoDup_remove_2 in ND.
      intros Hin. apply ND. apply in_or_app. left. exact Hin.
  - apply nth_error_None. exact E.
Qed.

Lemma find_rank_index v ns : find_rank v ns = index_of v (vals ns).
Proof. induction ns as [|[x s] t IH]; cbn; [reflexivity|]. destruct (Z.eqb x v); [reflexivity|]. f_equal. exact IH. Qed.

Lemma index_of_le v l : index_of v l <= length l.
Proof. induction l as [|x t IH]; cbn; [lia|]. destruct (Z.eqb x v); lia. Qed.

(* ---- alloc --------------------------------------------------------------------------- *)
Lemma alloc_spec l s f nb : nl_inv l -> alloc l = (s, f, nb) ->
    Permutation (s :: slots (nodes l) ++ f) (seq 0 (4 * nb)).
Proof.
  intros [P _] H. unfold alloc in H. destruct (free l) as [|s0 f0] eqn:Ef.
  - inversion H; subst s f nb. clear H. rewrite app_nil_r in P.
    replace (4 * S (nblocks l)) with (4 * nblocks l + 4) by lia.
    rewrite seq_app. cbn [seq Nat.add].
    transitivity (slots (nodes l) ++ [4 * nblocks l + 3; 4 * nblocks l + 2; 4 * nblocks l + 1; 4 * nblocks l]).
    { apply Permutation_cons_app. reflexivity. }
    apply Permutation_app; [exact P|].
    replace (S (4 * nblocks l)) with (4 * nblocks l + 1) by lia.
    replace (S (4 * nblocks l + 1)) with (4 * nblocks l + 2) by lia.
    replace (S (4 * nblocks l + 2)) with (4 * nblocks l + 3) by lia.
    change [4 * nblocks l + 3; 4 * nblocks l + 2; 4 * nblocks l + 1; 4 * nblocks l]
      with (rev [4 * nblocks l; 4 * nblocks l + 1; 4 * nblocks l + 2; 4 * nblocks l + 3]).
    symmetry. apply Permutation_rev.
  - inversion H; subst s f nb. clear H. rewrite <- P. apply Permutation_middle.
Qed.

Lemma alloc_fresh l s f nb : nl_inv l -> alloc l = (s, f, nb) -> ~ In s (slots (nodes l)).
Proof.
  intros I H. pose proof (alloc_spec _ _ _ _ I H) as P.
  assert (ND : NoDup (s :: slots (nodes l) ++ f)) by (eapply Permutation_NoDup; [symmetry; exact P|apply seq_NoDup]).
  inversion ND as [|? ? Hx _]; subst. intros Hin. apply Hx. apply in_or_app. left. exact Hin.
Qed.

(* ---- insert -------------------------------------------------------------------------- *)
Lemma nl_insert_spec k v l l' s : nl_inv l -> nl_insert k v l = (l', s) ->
    nl_inv l'
    /\ nodes l' = firstn k (nodes l) ++ (v, s) :: skipn k (nodes l)
    /\ ~ In s (slots (nodes l)).
Proof.
  intros I H. unfold nl_insert in H. destruct (alloc l) as [[s0 f0] nb0] eqn:Ea.
  inversion H; subst l' s. clear H. cbn [nodes free nblocks msize].
  pose proof (alloc_spec _ _ _ _ I Ea) as P. pose proof (alloc_fresh _ _ _ _ I Ea) as F.
  split; [|split; [reflexivity|exact F]].
  split; cbn [nodes free nblocks msize].
  - rewrite <- P. rewrite slots_app. cbn [slots map snd]. rewrite <- app_assoc. cbn [app].
    symmetry. etransitivity; [|apply Permutation_middle].
    constructor. rewrite app_assoc. fold (slots (firstn k (nodes l))). fold (slots (skipn k (nodes l))).
    rewrite <- slots_app. rewrite firstn_skipn. reflexivity.
  - destruct I as [_ Hs]. rewrite Hs. rewrite app_length. cbn [length].
    rewrite <- (firstn_skipn k (nodes l)) at 1. rewrite app_length. lia.
Qed.

Lemma ins_at_vals k v s ns : vals (firstn k ns ++ (v, s) :: skipn k ns) = ins_at k [v] (vals ns).
Proof.
  unfold ins_at, vals. rewrite map_app. cbn [map fst app]. rewrite firstn_map, skipn_map. reflexivity.
Qed.

Lemma nl_insert_refines k v l l' s : nl_inv l -> nl_insert k v l = (l', s) -> k <= length (nodes l) ->
    nl_inv l' /\ vals (nodes l') = ins_at k [v] (vals (nodes l)) /\ slot_rank s (nodes l') = k.
Proof.
  intros I H Hk. destruct (nl_insert_spec _ _ _ _ _ I H) as (I' & Hn & F).
  split; [exact I'|]. rewrite Hn. split; [apply ins_at_vals|].
  rewrite slot_rank_app.
  - apply firstn_length_le. exact Hk.
  - intros Hin. apply F. rewrite <- (firstn_skipn k (nodes l)). rewrite slots_app. apply in_or_app. left. exact Hin.
Qed.

Lemma ins_at_end (x l : sseq) : ins_at (length l) x l = l ++ x.
Proof. unfold ins_at. rewrite firstn_all, skipn_all, app_nil_r. reflexivity. Qed.

Lemma nl_append_refines v l l' s : nl_inv l -> nl_append v l = (l', s) ->
    nl_inv l' /\ vals (nodes l') = vals (nodes l) ++ [v] /\ slot_rank s (nodes l') = length (vals (nodes l))
    /\ nodes l' = nodes l ++ [(v, s)].
Proof.
  intros I H. unfold nl_append in H.
  destruct (nl_insert_refines _ _ _ _ _ I H (le_n _)) as (I' & Hv & Hr).
  destruct (nl_insert_spec _ _ _ _ _ I H) as (_ & Hn & _).
  split; [exact I'|]. split; [|split].
  - rewrite Hv. rewrite <- (vals_length (nodes l)). apply ins_at_end.
  - rewrite Hr. symmetry. apply vals_length.
  - rewrite Hn. rewrite firstn_all, skipn_all. reflexivity.
Qed.

Lemma nl_append_all_refines vs : forall l, nl_inv l ->
    nl_inv (nl_append_all vs l) /\ vals (nodes (nl_append_all vs l)) = vals (nodes l) ++ vs.
Proof.
  induction vs as [|v t IH]; intros l I; cbn [nl_append_all].
  - split; [exact I|]. rewrite app_nil_r. reflexivity.
  - destruct (nl_append v l) as [l1 s] eqn:E. cbn [fst].
    destruct (nl_append_refines _ _ _ _ I E) as (I1 & Hv & _).
    destruct (IH l1 I1) as (I2 & Hv2). split; [exact I2|].
    rewrite Hv2, Hv. rewrite <- app_assoc. reflexivity.
Qed.

(* insert(position, list): the new nodes sit, in order, between the two halves *)
Lemma firstn_S_mid {A} k (l : list A) x : k <= length l ->
    firstn (S k) (firstn k l ++ x :: skipn k l) = firstn k l ++ [x]
    /\ skipn (S k) (firstn k l ++ x :: skipn k l) = skipn k l.
Proof.
  intros Hk. assert (Hl : length (firstn k l) = k) by (apply firstn_length_le; exact Hk).
  split.
  - rewrite firstn_app. rewrite Hl. replace (S k - k) with 1 by lia.
    rewrite firstn_all2 by lia. reflexivity.
  - rewrite skipn_app. rewrite Hl. replace (S k - k) with 1 by lia.
    rewrite skipn_all2 by lia. reflexivity.
Qed.

Lemma nl_insert_all_spec vs : forall k l, nl_inv l -> k <= length (nodes l) ->
    nl_inv (nl_insert_all k vs l)
    /\ exists new, nodes (nl_insert_all k vs l) = firstn k (nodes l) ++ new ++ skipn k (nodes l) /\ vals new = vs.
Proof.
  induction vs as [|v t IH]; intros k l I Hk; cbn [nl_insert_all].
  - split; [exact I|]. exists []. cbn. split; [symmetry; apply firstn_skipn|reflexivity].
  - destruct (nl_insert k v l) as [l1 s] eqn:E. cbn [fst].
    destruct (nl_insert_spec _ _ _ _ _ I E) as (I1 & Hn & _).
    assert (Hk1 : S k <= length (nodes l1)).
    { rewrite Hn. rewrite app_length. cbn [length]. rewrite firstn_length_le by exact Hk. lia. }
    destruct (IH (S k) l1 I1 Hk1) as (I2 & new & Hn2 & Hv).
    split; [exact I2|]. exists ((v, s) :: new). split; [|cbn; f_equal; exact Hv].
    rewrite Hn2. rewrite Hn. destruct (firstn_S_mid k (nodes l) (v, s) Hk) as [-> ->].
    rewrite <- app_assoc. reflexivity.
Qed.

Lemma nl_insert_list_refines k vs l l' it : nl_inv l -> nl_insert_list k vs l = (l', it) -> k <= length (nodes l) ->
    nl_inv l' /\ vals (nodes l') = ins_at k vs (vals (nodes l)) /\ obs_it it (nodes l') = k.
Proof.
  intros I H Hk. unfold nl_insert_list in H. destruct vs as [|v t].
  - inversion H; subst l' it. clear H. split; [exact I|]. split.
    + unfold ins_at. cbn [app]. symmetry. apply firstn_skipn.
    + pose proof (rank_nth (nodes l) (nl_inv_nodup_nodes l I) k) as R. unfold obs_it.
      destruct (nth_slot k (nodes l)); [apply R|lia].
  - destruct (nl_insert k v l) as [l1 s] eqn:E. inversion H; subst l' it. clear H.
    destruct (nl_insert_spec _ _ _ _ _ I E) as (I1 & Hn & _).
    assert (Hk1 : S k <= length (nodes l1)).
    { rewrite Hn. rewrite app_length. cbn [length]. rewrite firstn_length_le by exact Hk. lia. }
    destruct (nl_insert_all_spec t (S k) l1 I1 Hk1) as (I2 & new & Hn2 & Hv).
    rewrite Hn in Hn2. destruct (firstn_S_mid k (nodes l) (v, s) Hk) as [E1 E2]. rewrite E1, E2 in Hn2.
    rewrite <- app_assoc in Hn2. cbn [app] in Hn2.
    split; [exact I2|]. split.
    + rewrite Hn2. unfold ins_at, vals in *. rewrite map_app. cbn [map fst]. rewrite map_app. rewrite Hv.
      rewrite firstn_map, skipn_map. reflexivity.
    + cbn [obs_it]. rewrite Hn2. rewrite slot_rank_app; [apply firstn_length_le; exact Hk|].
      pose proof (nl_inv_nodup_nodes _ I2) as ND. rewrite Hn2 in ND. rewrite slots_app in ND. cbn in ND.
      apply NoDup_remove_2 in ND. intros Hin. apply ND. apply in_or_app. left. exact Hin.
Qed.

(* ---- remove -------------------------------------------------------------------------- *)
Lemma nl_remove_refines k l l' it : nl_inv l -> nl_remove k l = (l', it) -> k < length (nodes l) ->
    nl_inv l' /\ vals (nodes l') = del_at k (vals (nodes l)) /\ obs_it it (nodes l') = k.
Proof.
  intros I H Hk. unfold nl_remove in H.
  destruct (skipn_nonempty k (nodes l) Hk) as ([v s] & rest & Hs). rewrite Hs in H.
  inversion H; subst l' it. clear H. cbn [nodes free nblocks msize].
  pose proof (split_at _ _ _ _ Hs) as Hl.
  assert (Hf : length (firstn k (nodes l)) = k) by (apply firstn_length_le; lia).
  split; [split|split]; cbn [nodes free nblocks msize].
  - destruct I as [P _]. rewrite <- P. rewrite Hl at 2. rewrite !slots_app. cbn [slots map snd].
    rewrite <- !app_assoc. apply Permutation_app_head. cbn [app].
    fold (slots rest). symmetry. etransitivity; [|apply Permutation_middle].
    constructor. reflexivity.
  - destruct I as [_ Hsz]. rewrite Hsz. rewrite Hl at 1. rewrite !app_length. cbn [length]. lia.
  - unfold del_at, vals. rewrite firstn_map, skipn_map. rewrite (skipn_cons_S _ _ _ _ Hs). rewrite map_app. reflexivity.
  - destruct rest as [|[v' s'] rest']; cbn [hd_error option_map snd obs_it].
    + rewrite app_nil_r. exact Hf.
    + rewrite slot_rank_app; [exact Hf|].
      pose proof (nl_inv_nodup_nodes _ I) as ND. rewrite Hl in ND. rewrite slots_app in ND. cbn in ND.
      apply NoDup_remove_1 in ND. apply NoDup_remove_2 in ND.
      intros Hin. apply ND. apply in_or_app. left. exact Hin.
Qed.

Lemma nl_remove_val_refines v l : nl_inv l ->
    nl_inv (nl_remove_val v l)
    /\ vals (nodes (nl_remove_val v l)) =
       (let vl := vals (nodes l) in let k := index_of v vl in if Nat.ltb k (length vl) then del_at k vl else vl).
Proof.
  intros I. unfold nl_remove_val. cbv zeta. rewrite find_rank_index. rewrite vals_length.
  destruct (Nat.ltb (index_of v (vals (nodes l))) (length (nodes l))) eqn:E.
  - apply Nat.ltb_lt in E. destruct (nl_remove (index_of v (vals (nodes l))) l) as [l' it] eqn:R. cbn [fst].
    destruct (nl_remove_refines _ _ _ _ I R E) as (I' & Hv & _). split; assumption.
  - split; [exact I|reflexivity].
Qed.

Lemma nl_find_refines v l : nl_inv l -> obs_it (nl_find v l) (nodes l) = index_of v (vals (nodes l)).
Proof.
  intros I. unfold nl_find. rewrite find_rank_index.
  pose proof (rank_nth (nodes l) (nl_inv_nodup_nodes l I) (index_of v (vals (nodes l)))) as R.
  pose proof (index_of_le v (vals (nodes l))) as L. rewrite vals_length in L.
  unfold obs_it. destruct (nth_slot (index_of v (vals (nodes l))) (nodes l)); [apply R|lia].
Qed.

Lemma del_at_0 (l : sseq) : del_at 0 l = tl l.
Proof. destruct l; reflexivity. Qed.

Lemma del_at_last (l : sseq) : del_at (pred (length l)) l = removelast l.
Proof.
  unfold del_at. rewrite removelast_firstn_len. destruct l as [|x t]; [reflexivity|].
  cbn [length pred]. rewrite skipn_all2 by (cbn; lia). apply app_nil_r.
Qed.

(* ---- clear, ==, sort ------------------------------------------------------------------ *)
Lemma nl_clear_refines l : nl_inv l -> nl_inv (nl_clear l) /\ vals (nodes (nl_clear l)) = [].
Proof.
  intros [P _]. split; [|reflexivity]. split; [|reflexivity]. cbn [nl_clear nodes free nblocks slots map app].
  rewrite <- P. rewrite frev_rev. apply Permutation_app_tail. symmetry. apply Permutation_rev.
Qed.

Lemma walk_eqb_seq a : forall b, length a = length b -> walk_eqb a b = seq_eqb (vals a) (vals b).
Proof.
  induction a as [|[x s] a IH]; intros [|[y s'] b] H; cbn in *; try reflexivity; try discriminate.
  destruct (Z.eqb x y); cbn; [apply IH; lia|reflexivity].
Qed.

Lemma seq_eqb_length (a : sseq) : forall b, seq_eqb a b = true -> length a = length b.
Proof.
  induction a as [|x a IH]; intros [|y b] H; cbn in *; try reflexivity; try discriminate.
  apply andb_true_iff in H. destruct H as [_ H]. f_equal. apply IH. exact H.
Qed.

Lemma nl_eqb_refines a b : nl_inv a -> nl_inv b -> nl_eqb a b = seq_eqb (vals (nodes a)) (vals (nodes b)).
Proof.
  intros [_ Ha] [_ Hb]. unfold nl_eqb. rewrite Ha, Hb.
  destruct (Nat.eqb (length (nodes a)) (length (nodes b))) eqn:E.
  - apply Nat.eqb_eq in E. apply walk_eqb_seq. exact E.
  - apply Nat.eqb_neq in E. destruct (seq_eqb (vals (nodes a)) (vals (nodes b))) eqn:S; [|reflexivity].
    apply seq_eqb_length in S. rewrite !vals_length in S. contradiction.
Qed.

Lemma combine_fst {A B} (a : list A) : forall (b : list B), length a = length b -> map fst (combine a b) = a.
Proof. induction a as [|x a IH]; intros [|y b] H; cbn in *; try reflexivity; try discriminate. f_equal. apply IH. lia. Qed.
Lemma combine_snd {A B} (a : list A) : forall (b : list B), length a = length b -> map snd (combine a b) = b.
Proof. induction a as [|x a IH]; intros [|y b] H; cbn in *; try reflexivity; try discriminate. f_equal. apply IH. lia. Qed.

Lemma nl_sort_refines key l : nl_inv l ->
    nl_inv (nl_sort key l) /\ vals (nodes (nl_sort key l)) = sort_vals key (vals (nodes l))
    /\ slots (nodes (nl_sort key l)) = slots (nodes l).
Proof.
  intros [P Hs]. unfold nl_sort. cbn [nodes free nblocks msize].
  assert (L : length (sort_vals key (vals (nodes l))) = length (slots (nodes l))).
  { rewrite sort_vals_length. rewrite vals_length, slots_length. reflexivity. }
  split; [split|split]; cbn [nodes free nblocks msize].
  - unfold slots at 1. rewrite combine_snd by exact L. exact P.
  - rewrite combine_length. rewrite L. rewrite Nat.min_id. rewrite slots_length. exact Hs.
  - apply combine_fst. exact L.
  - apply combine_snd. exact L.
Qed.
