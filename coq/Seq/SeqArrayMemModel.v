(* STORAGE-LEVEL MACHINE for include/nstd/Array.hpp.  No proofs in this file.

   The value-level model of SeqModel.v keeps the elements of an Array as a `list Z` and says that
   reserve() leaves them as they are.  The code does something else: it allocates new raw storage,
   copy-constructs every element into it with placement new, destroys the old elements one by one
   and frees the old allocation; append / resize placement-new into raw cells past _end, remove()
   shifts by assignment and destroys the last element, clear() destroys in place.  This file writes
   those loops down as the sequence of per-cell accesses the C++ performs, on a heap of allocations

       allocation = live flag + cells, a cell = Some v (a constructed element of value v)
                                              | None   (raw storage: never constructed, or destroyed)

   with CHECKED access: reading / assigning / destroying a raw cell, placement-new on a constructed
   cell, any access outside the cells of the allocation or to a freed allocation or through a null
   pointer, delete[] of an allocation that still holds constructed elements or was freed before -
   each is an error that stops the machine.  An Array object is (_begin.item, _end.item, _capacity)
   with _begin.item = (allocation, index 0) or null and _end.item = _begin.item + send.
   Allocation ids are never reused (a freed allocation stays in the heap, marked dead), so a
   dangling pointer can never be mistaken for a pointer into a later allocation.

   SeqArrayMemProofs.v shows that no history of operations ever reaches an error and that after every
   operation the machine holds what the value-level model `astep` holds (contents, size, capacity,
   allocation flag, returned index). *)
From Coq Require Import ZArith List Bool.
From Common Require Import ListAux.
From Seq Require Import SeqSpec SeqModel.
Import ListNotations.
Local Open Scope Z_scope.

Inductive aerr :=
| ENull          (* access through a null pointer *)
| EFreed         (* access to a freed allocation / a pointer to no allocation *)
| EOob           (* access outside the cells of the allocation (or beyond a caller's buffer) *)
| ERaw           (* read, assignment to, or destruction of raw storage *)
| ETwice         (* placement new on a cell that holds a constructed element *)
| ELeak          (* delete[] of storage that still holds constructed elements *)
| EDblFree       (* delete[] of an allocation that was freed before *)
| EFuel.         (* a member function recursing deeper than it can *)

Record block := mk_block { blive : bool; bcells : list (option Z) }.
Definition mheap := list block.

Inductive outcome (A : Type) :=
| Ok (a : A) (h : mheap)
| Err (e : aerr).
Arguments Ok {A} a h.
Arguments Err {A} e.

Definition M (A : Type) := mheap -> outcome A.
Definition ret {A} (a : A) : M A := fun h => Ok a h.
Definition fail {A} (e : aerr) : M A := fun _ => Err e.
Definition bind {A B} (m : M A) (f : A -> M B) : M B :=
  fun h => match m h with Ok a h1 => f a h1 | Err e => Err e end.
Notation "x <- m ;; f" := (bind m (fun x => f)) (at level 61, m at next level, right associativity).

Definition is_some {A} (o : option A) : bool := match o with Some _ => true | None => false end.
Definition is_none {A} (o : option A) : bool := match o with Some _ => false | None => true end.

(* ---- checked access to one cell: T* = (allocation or null, index) --------------------------- *)
Definition find_cell (p : option nat) (i : nat) (h : mheap) : aerr + (nat * list (option Z) * option Z) :=
  match p with
  | None => inl ENull
  | Some b =>
      match nth_error h b with
      | None => inl EFreed
      | Some blk =>
          if blive blk then
            match nth_error (bcells blk) i with
            | None => inl EOob
            | Some c => inr (b, bcells blk, c)
            end
          else inl EFreed
      end
  end.

(* read the element at p *)
Definition rd (p : option nat) (i : nat) : M Z := fun h =>
  match find_cell p i h with
  | inl e => Err e
  | inr (_, _, Some v) => Ok v h
  | inr (_, _, None) => Err ERaw
  end.

(* new(p) T(v) *)
Definition construct (p : option nat) (i : nat) (v : Z) : M unit := fun h =>
  match find_cell p i h with
  | inl e => Err e
  | inr (b, cs, None) => Ok tt (upd b (mk_block true (upd i (Some v) cs)) h)
  | inr (_, _, Some _) => Err ETwice
  end.

(* assign v to the element at p *)
Definition assign (p : option nat) (i : nat) (v : Z) : M unit := fun h =>
  match find_cell p i h with
  | inl e => Err e
  | inr (b, cs, Some _) => Ok tt (upd b (mk_block true (upd i (Some v) cs)) h)
  | inr (_, _, None) => Err ERaw
  end.

(* p->~T() *)
Definition destroy (p : option nat) (i : nat) : M unit := fun h =>
  match find_cell p i h with
  | inl e => Err e
  | inr (b, cs, Some _) => Ok tt (upd b (mk_block true (upd i None cs)) h)
  | inr (_, _, None) => Err ERaw
  end.

(* new char[sizeof(T) * n] cast to T pointer: a fresh allocation of n raw cells *)
Definition mem_alloc (n : nat) : M (option nat) := fun h =>
  Ok (Some (length h)) (h ++ [mk_block true (repeat None n)]).

(* delete[] p *)
Definition mem_free (p : option nat) : M unit := fun h =>
  match p with
  | None => Ok tt h
  | Some b =>
      match nth_error h b with
      | None => Err EFreed
      | Some blk =>
          if blive blk then
            if forallb is_none (bcells blk) then Ok tt (upd b (mk_block false (bcells blk)) h)
            else Err ELeak
          else Err EDblFree
      end
  end.

(* ---- where a `const T&` / `const T*` argument points: an object of the caller (its values are
        given; reading beyond the caller's buffer is an error too) or a cell of some allocation --- *)
Inductive src :=
| SVals (vs : list Z)
| SPtr (p : option nat) (i : nat).

(* values[k] *)
Definition rd_src (s : src) (k : nat) : M Z :=
  match s with
  | SVals vs => match nth_error vs k with Some v => ret v | None => fail EOob end
  | SPtr p i => rd p (i + k)%nat
  end.

(* ---- the loops ------------------------------------------------------------------------------ *)
(* for(; n; ++src, ++dest) placement-new at dest a copy of the element at src;   src = values + k, dest = dp + di *)
Fixpoint copy_loop (n : nat) (s : src) (k : nat) (dp : option nat) (di : nat) : M unit :=
  match n with
  | O => ret tt
  | S n' => v <- rd_src s k ;; _ <- construct dp di v ;; copy_loop n' s (S k) dp (S di)
  end.

(* reserve: for(src = _begin.item; src != end; ++src, ++dest) { placement-new at dest a copy of the element at src; src->~T(); } *)
Fixpoint move_loop (n : nat) (sp dp : option nat) (k : nat) : M unit :=
  match n with
  | O => ret tt
  | S n' => v <- rd sp k ;; _ <- construct dp k v ;; _ <- destroy sp k ;; move_loop n' sp dp (S k)
  end.

(* for(i = p + k; i != end; ++i) i->~T(); *)
Fixpoint destroy_loop (n : nat) (p : option nat) (k : nat) : M unit :=
  match n with
  | O => ret tt
  | S n' => _ <- destroy p k ;; destroy_loop n' p (S k)
  end.

(* resize: for(i = _begin.item + _size; i != end; ++i) new(i) T(value);   `value` is read every time *)
Fixpoint fill_loop (n : nat) (val : src) (p : option nat) (k : nat) : M unit :=
  match n with
  | O => ret tt
  | S n' => v <- rd_src val 0 ;; _ <- construct p k v ;; fill_loop n' val p (S k)
  end.

(* remove: for(; pos < end;) { dest = pos; ++pos; assign the element at pos to the one at dest } *)
Fixpoint shift_loop (n : nat) (p : option nat) (pos : nat) : M unit :=
  match n with
  | O => ret tt
  | S n' => v <- rd p (S pos) ;; _ <- assign p pos v ;; shift_loop n' p (S pos)
  end.

(* find: for(pos = _begin.item; pos < end; ++pos) if(element at pos == value) return pos; return _end; *)
Fixpoint find_loop (n : nat) (p : option nat) (pos : nat) (v : Z) : M nat :=
  match n with
  | O => ret pos
  | S n' => x <- rd p pos ;; if x =? v then ret pos else find_loop n' p (S pos) v
  end.

(* operator==: for(a = _begin.item, b = other._begin.item; a != end; ++a, ++b) if(element at a != element at b) return false; *)
Fixpoint eq_loop (n : nat) (p q : option nat) (k : nat) : M bool :=
  match n with
  | O => ret true
  | S n' => x <- rd p k ;; y <- rd q k ;; if x =? y then eq_loop n' p q (S k) else ret false
  end.

(* ---- one Array object ------------------------------------------------------------------------ *)
Record sarr := mk_sarr {
  sbeg : option nat;                      (* _begin.item: index 0 of this allocation, or null *)
  send : nat;                             (* _end.item - _begin.item *)
  scap : Z                                (* _capacity *)
}.

Definition s_empty : sarr := mk_sarr None 0 0.

(* void reserve(usize size) *)
Definition s_reserve (n : Z) (a : sarr) : M sarr :=
  if (n >? scap a) || (negb (is_some (sbeg a)) && (n >? 0)) then
    let c := Z.lor (if n >? scap a then n else scap a) 3 in
    nb <- mem_alloc (Z.to_nat c) ;;
    match sbeg a with
    | Some _ =>
        _ <- move_loop (send a) (sbeg a) nb 0 ;;
        _ <- mem_free (sbeg a) ;;
        ret (mk_sarr nb (send a) c)
    | None => ret (mk_sarr nb 0 c)
    end
  else ret a.

(* void resize(usize size, const T& value): destroy the tail / copy the value, reserve and call
   itself once more / construct the new tail from `value` *)
Fixpoint s_resize (fuel : nat) (n : Z) (val : src) (a : sarr) : M sarr :=
  match fuel with
  | O => fail EFuel
  | S f =>
      let sz := send a in
      if n <? Z.of_nat sz then
        _ <- destroy_loop (sz - Z.to_nat n) (sbeg a) (Z.to_nat n) ;;
        ret (mk_sarr (sbeg a) (Z.to_nat n) (scap a))
      else if n >? scap a then
        v <- rd_src val 0 ;;                  (* const T copy(value); *)
        a1 <- s_reserve n a ;;
        s_resize f n (SVals [v]) a1
      else
        a1 <- s_reserve n a ;;
        _ <- fill_loop (Z.to_nat n - sz) val (sbeg a1) sz ;;
        ret (mk_sarr (sbeg a1) (Z.to_nat n) (scap a1))
  end.

(* T& append(const T& value): returns the index of the new element *)
Fixpoint s_append (fuel : nat) (val : src) (a : sarr) : M (sarr * nat) :=
  match fuel with
  | O => fail EFuel
  | S f =>
      let sz := send a in
      if Z.of_nat sz + 1 >? scap a then
        v <- rd_src val 0 ;;                  (* const T copy(value); *)
        a1 <- s_reserve (Z.of_nat sz + 1) a ;;
        s_append f (SVals [v]) a1
      else
        a1 <- s_reserve (Z.of_nat sz + 1) a ;;
        v <- rd_src val 0 ;;
        _ <- construct (sbeg a1) (send a1) v ;;
        ret (mk_sarr (sbeg a1) (S (send a1)) (scap a1), send a1)
  end.

(* void append(const Array& values): `self` = values is this very object, whose fields reserve()
   has just rewritten when values._begin.item is read *)
Definition s_append_arr (self : bool) (o : sarr) (a : sarr) : M sarr :=
  let sz := send a in
  let vsz := send o in
  a1 <- s_reserve (Z.of_nat sz + Z.of_nat vsz) a ;;
  let o1 := if self then a1 else o in
  _ <- copy_loop vsz (SPtr (sbeg o1) 0) 0 (sbeg a1) (send a1) ;;
  ret (mk_sarr (sbeg a1) (send a1 + vsz) (scap a1)).

(* values >= _begin.item && values < _end.item *)
Definition in_own (s : src) (a : sarr) : bool :=
  match s, sbeg a with
  | SPtr (Some b) i, Some b' => Nat.eqb b b' && Nat.ltb i (send a)
  | _, _ => false
  end.

(* void append(const T* values, usize size) *)
Definition s_append_buf (vals : src) (n : nat) (a : sarr) : M sarr :=
  let old := send a in
  if in_own vals a then
    let off := match vals with SPtr _ i => i | SVals _ => O end in   (* values - _begin.item *)
    a1 <- s_reserve (Z.of_nat old + Z.of_nat n) a ;;
    _ <- copy_loop n (SPtr (sbeg a1) off) 0 (sbeg a1) (send a1) ;;      (* values = _begin.item + offset *)
    ret (mk_sarr (sbeg a1) (send a1 + n) (scap a1))
  else
    a1 <- s_reserve (Z.of_nat old + Z.of_nat n) a ;;
    _ <- copy_loop n vals 0 (sbeg a1) (send a1) ;;
    ret (mk_sarr (sbeg a1) (send a1 + n) (scap a1)).

(* the body shared by remove(usize) and remove(const Iterator&): end = --_end.item, shift, destroy *)
Definition s_remove (pos : nat) (a : sarr) : M sarr :=
  match send a with
  | O => fail EOob
  | S e =>
      _ <- shift_loop (e - pos) (sbeg a) pos ;;
      _ <- destroy (sbeg a) (pos + (e - pos)) ;;
      ret (mk_sarr (sbeg a) e (scap a))
  end.

(* void remove(usize index) *)
Definition s_remove_idx (k : nat) (a : sarr) : M sarr :=
  if Nat.ltb k (send a) then s_remove k a else ret a.

(* void clear() *)
Definition s_clear (a : sarr) : M sarr :=
  match sbeg a with
  | Some _ => _ <- destroy_loop (send a) (sbeg a) 0 ;; ret (mk_sarr (sbeg a) 0 (scap a))
  | None => ret a
  end.

(* ~Array() *)
Definition s_destruct (a : sarr) : M unit :=
  match sbeg a with
  | Some _ => _ <- destroy_loop (send a) (sbeg a) 0 ;; mem_free (sbeg a)
  | None => ret tt
  end.

(* the body of Array(const Array&) and (after clear()) of operator=: reserve(other.capacity()), then
   copy-construct other's elements from _begin.item on *)
Definition s_copy_from (o : sarr) (a : sarr) : M sarr :=
  a1 <- s_reserve (scap o) a ;;
  _ <- copy_loop (send o) (SPtr (sbeg o) 0) 0 (sbeg a1) 0 ;;
  ret (mk_sarr (sbeg a1) (send o) (scap a1)).

(* bool operator==(const Array& other) const: if(size() != other.size()) return false; then element by element *)
Definition s_eq (a b : sarr) : M bool :=
  if Nat.eqb (send a) (send b) then eq_loop (send a) (sbeg a) (sbeg b) 0 else ret false.

(* ---- the variables of a case ----------------------------------------------------------------- *)
Record sworld := mk_sw { sheap : mheap; sarrs : list sarr }.

Definition swget (i : nat) (w : sworld) : sarr := nth i (sarrs w) s_empty.
Definition swsize (w : sworld) (i : nat) : nat := send (swget i w).

Inductive sres :=
| SOk (w : sworld) (r : mres)
| SErr (e : aerr).

Definition run1 (w : sworld) (i : nat) (m : M sarr) (r : mres) : sres :=
  match m (sheap w) with
  | Ok a' h' => SOk (mk_sw h' (upd i a' (sarrs w))) r
  | Err e => SErr e
  end.

Definition run2 (w : sworld) (i : nat) (m : M (sarr * nat)) (r : nat -> mres) : sres :=
  match m (sheap w) with
  | Ok (a', k) h' => SOk (mk_sw h' (upd i a' (sarrs w))) (r k)
  | Err e => SErr e
  end.

(* same operations, same preconditions, same results as SeqModel.astep.  `new` / `newc` / `copy` are what
   the harness does with a variable: destroy the old object (for copy: after the new one was
   copy-constructed from variable j, which may be the same variable) and put the new one in its place. *)
Definition sstep (w : sworld) (op : aop) : sres :=
  if negb (apre (swsize w) (length (sarrs w)) op) then SOk w MSkip else
  match op with
  | ANew i => run1 w i (_ <- s_destruct (swget i w) ;; ret s_empty) MNone
  | ANewCap i n => run1 w i (_ <- s_destruct (swget i w) ;; ret (mk_sarr None 0 n)) MNone
  | ACopy i j =>
      run1 w i (c <- s_copy_from (swget j w) s_empty ;; _ <- s_destruct (swget i w) ;; ret c) MNone
  | AAssign i j =>                          (* if(this == &other) return; clear(); ... *)
      if Nat.eqb i j then SOk w MNone else
      run1 w i (a0 <- s_clear (swget i w) ;; s_copy_from (swget j w) a0) MNone
  | AReserve i n => run1 w i (s_reserve n (swget i w)) MNone
  | AResizeD i n => run1 w i (s_resize 2 n (SVals [0]) (swget i w)) MNone
  | AResize i n v => run1 w i (s_resize 2 n (SVals [v]) (swget i w)) MNone
  | AAppend i v => run2 w i (s_append 2 (SVals [v]) (swget i w)) MRefIdx
  | AAppendArr i j => run1 w i (s_append_arr (Nat.eqb i j) (swget j w) (swget i w)) MNone
  | AAppendBuf i vs => run1 w i (s_append_buf (SVals vs) (length vs) (swget i w)) MNone
  | ARemoveIdx i k => run1 w i (s_remove_idx k (swget i w)) MNone
  | ARemoveIt i k => run1 w i (s_remove k (swget i w)) (MIdx k)
  | ARemoveFront i => run1 w i (s_remove 0 (swget i w)) (MIdx 0)                 (* remove(_begin) *)
  | ARemoveBack i =>                                                            (* remove(_end.item - 1) *)
      let k := pred (send (swget i w)) in run1 w i (s_remove k (swget i w)) (MIdx k)
  | AFind i v =>
      let a := swget i w in
      match find_loop (send a) (sbeg a) 0 v (sheap w) with
      | Ok k h' => SOk (mk_sw h' (sarrs w)) (MIdx k)
      | Err e => SErr e
      end
  | AClear i => run1 w i (s_clear (swget i w)) MNone
  | ASwap i j => SOk (mk_sw (sheap w) (upd j (swget i w) (upd i (swget j w) (sarrs w)))) MNone
  | AAppendOwn i k => let a := swget i w in run2 w i (s_append 2 (SPtr (sbeg a) k) a) MRefIdx
  | AResizeOwn i n k => let a := swget i w in run1 w i (s_resize 2 n (SPtr (sbeg a) k) a) MNone
  | AAppendBufOwn i off n => let a := swget i w in run1 w i (s_append_buf (SPtr (sbeg a) off) n a) MNone
  | AEq i j =>
      match s_eq (swget i w) (swget j w) (sheap w) with
      | Ok r h' => SOk (mk_sw h' (sarrs w)) (MBool r)
      | Err e => SErr e
      end
  | ANe i j =>                                                                  (* not (this == other) *)
      match s_eq (swget i w) (swget j w) (sheap w) with
      | Ok r h' => SOk (mk_sw h' (sarrs w)) (MBool (negb r))
      | Err e => SErr e
      end
  end.

Definition swinit (nv : nat) : sworld := mk_sw [] (repeat s_empty nv).

(* a history: the states after each operation, or the first error *)
Fixpoint srun (w : sworld) (ops : list aop) : list (sworld * mres) + aerr :=
  match ops with
  | [] => inl []
  | op :: t =>
      match sstep w op with
      | SErr e => inr e
      | SOk w1 r => match srun w1 t with inl tr => inl ((w1, r) :: tr) | inr e => inr e end
      end
  end.

(* ---- what the machine holds, as the value-level model sees it --------------------------------- *)
Definition unsome (c : option Z) : Z := match c with Some v => v | None => 0 end.

Definition s_items (h : mheap) (a : sarr) : list Z :=
  match sbeg a with
  | None => []
  | Some b => match nth_error h b with
              | Some blk => map unsome (firstn (send a) (bcells blk))
              | None => []
              end
  end.

Definition sabs_arr (h : mheap) (a : sarr) : marr := mk_marr (s_items h a) (scap a) (is_some (sbeg a)).
Definition sabs (w : sworld) : aworld := map (sabs_arr (sheap w)) (sarrs w).

(* allocations that are still live (for the drivers' dump: one per allocated variable, see winv) *)
Definition live_blocks (h : mheap) : nat := length (filter blive h).
