(* Array<T> at the level of storage cells: whole histories over several variables.
   winv: every variable is an Array object in a consistent state (has_arr), no two variables share an
   allocation, and every live allocation of the heap belongs to a variable (nothing leaked).
   Every operation, started in such a world, ends without an access error in such a world, and what
   the value-level model `astep` computes from the abstraction of the world before is the abstraction
   of the world after (same contents, size, capacity, allocation flag, same returned index). *)
From Coq Require Import ZArith List Bool Lia.
From Coq Require Import ZifyBool ZifyNat.
From Common Require Import ListAux.
From Seq Require Import SeqSpec SeqModel SeqPoolProofs SeqListProofs SeqArrayProofs
  SeqArrayMemModel SeqArrayMemProofs SeqArrayMemOps.
Import ListNotations.
Local Open Scope Z_scope.

Definition winv (w : sworld) : Prop :=
  (forall i, (i < length (sarrs w))%nat -> exists L, has_arr (sheap w) (swget i w) L)
  /\ (forall i j b, (i < length (sarrs w))%nat -> (j < length (sarrs w))%nat ->
        sbeg (swget i w) = Some b -> sbeg (swget j w) = Some b -> i = j)
  /\ (forall b blk, nth_error (sheap w) b = Some blk -> blive blk = true ->
        exists i, (i < length (sarrs w))%nat /\ sbeg (swget i w) = Some b).

Lemma has_arr_empty h : has_arr h s_empty [].
Proof. split; [exact a_inv_empty|reflexivity]. Qed.

Lemma nth_repeat_same {A} (x : A) n i : nth i (repeat x n) x = x.
Proof. revert i; induction n as [|n IH]; intros [|i]; cbn; auto. Qed.

Lemma winv_init nv : winv (swinit nv).
Proof.
  unfold winv, swinit, swget. cbn [sheap sarrs]. split; [|split].
  - intros i _. exists []. rewrite nth_repeat_same. apply has_arr_empty.
  - intros i j b _ _ H. rewrite nth_repeat_same in H. discriminate.
  - intros b blk H. destruct b; discriminate.
Qed.

Lemma swget_upd_same w h' i a' : (i < length (sarrs w))%nat -> swget i (mk_sw h' (upd i a' (sarrs w))) = a'.
Proof. intros H. unfold swget. cbn [sarrs]. apply nth_upd_same. exact H. Qed.

Lemma swget_upd_other w h' i j a' : i <> j -> swget j (mk_sw h' (upd i a' (sarrs w))) = swget j w.
Proof. intros H. unfold swget. cbn [sarrs]. apply nth_upd_other. exact H. Qed.

(* the other variables do not notice an operation on variable i *)
Lemma others_kept w i h' a' j Lj : winv w -> (i < length (sarrs w))%nat -> (j < length (sarrs w))%nat -> i <> j ->
    step_frame (sheap w) (swget i w) h' a' -> has_arr (sheap w) (swget j w) Lj -> has_arr h' (swget j w) Lj.
Proof.
  intros (_ & Wd & _) Hi Hj Hne F H. eapply has_arr_frame; [|exact H]. intros b E.
  apply (sf_other _ _ _ _ F); [eapply has_arr_lt; eassumption|].
  intros E'. apply Hne. apply (Wd i j b Hi Hj E' E).
Qed.

Lemma winv_step w i h' a' L' : winv w -> (i < length (sarrs w))%nat ->
    step_frame (sheap w) (swget i w) h' a' -> has_arr h' a' L' -> winv (mk_sw h' (upd i a' (sarrs w))).
Proof.
  intros W Hi F H'. pose proof W as (Wa & Wd & Wo). unfold winv. cbn [sheap sarrs]. rewrite upd_length.
  split; [|split].
  - intros j Hj. destruct (Nat.eq_dec i j) as [<-|Hne].
    + rewrite swget_upd_same by exact Hi. exists L'. exact H'.
    + rewrite swget_upd_other by exact Hne. destruct (Wa j Hj) as (Lj & Hjj). exists Lj.
      apply (others_kept w i h' a' j Lj W Hi Hj Hne F Hjj).
  - assert (K : forall j b, (j < length (sarrs w))%nat -> i <> j -> sbeg a' = Some b -> sbeg (swget j w) = Some b -> False).
    { intros j b Hj Hne Ea Ej. destruct (Wa j Hj) as (Lj & Hjj). pose proof (has_arr_lt _ _ _ _ Hjj Ej) as Hlt.
      destruct (sf_beg _ _ _ _ F) as [B|[B|(nb & B & Hnb)]]; try congruence.
      - apply Hne. apply (Wd i j b Hi Hj); congruence.
      - rewrite B in Ea. injection Ea as ->. lia. }
    intros j1 j2 b H1 H2 E1 E2.
    destruct (Nat.eq_dec i j1) as [<-|N1]; destruct (Nat.eq_dec i j2) as [<-|N2]; try reflexivity.
    + rewrite swget_upd_same in E1 by exact Hi. rewrite swget_upd_other in E2 by exact N2. exfalso. exact (K j2 b H2 N2 E1 E2).
    + rewrite swget_upd_same in E2 by exact Hi. rewrite swget_upd_other in E1 by exact N1. exfalso. exact (K j1 b H1 N1 E2 E1).
    + rewrite swget_upd_other in E1, E2 by assumption. apply (Wd j1 j2 b); assumption.
  - intros b blk Hb Hl. assert (D : sbeg a' = Some b \/ sbeg a' <> Some b).
    { destruct (sbeg a') as [x|]; [destruct (Nat.eq_dec x b) as [->|N]; [left; reflexivity|right; congruence]|right; discriminate]. }
    destruct D as [E|Hn].
    + exists i. split; [exact Hi|]. rewrite swget_upd_same by exact Hi. exact E.
    + destruct (sf_live _ _ _ _ F b blk Hb Hl Hn) as (Hlt & Hna).
      rewrite (sf_other _ _ _ _ F b Hlt Hna) in Hb. destruct (Wo b blk Hb Hl) as (j & Hj & Ej).
      exists j. split; [exact Hj|]. rewrite swget_upd_other; [exact Ej|]. intros ->. congruence.
Qed.

(* ---- the abstraction ---------------------------------------------------------------------------- *)
Lemma aget_sabs i w : aget i (sabs w) = sabs_arr (sheap w) (swget i w).
Proof. unfold aget, sabs, swget. change a_empty with (sabs_arr (sheap w) s_empty). apply map_nth. Qed.

Lemma aget_sabs_has i w L : has_arr (sheap w) (swget i w) L -> aget i (sabs w) = abs_arr (swget i w) L.
Proof. intros H. rewrite aget_sabs. apply has_arr_abs. exact H. Qed.

Lemma sabs_length w : length (sabs w) = length (sarrs w).
Proof. apply map_length. Qed.

Lemma swget_overflow i w : (length (sarrs w) <= i)%nat -> swget i w = s_empty.
Proof. intros H. unfold swget. apply nth_overflow. exact H. Qed.

Lemma awsize_sabs w i : winv w -> awsize (sabs w) i = swsize w i.
Proof.
  intros (Wa & _). unfold awsize, swsize. rewrite aget_sabs. cbn [sabs_arr items].
  destruct (Nat.lt_ge_cases i (length (sarrs w))) as [Hi|Hi].
  - destruct (Wa i Hi) as (L & H). rewrite (has_arr_items _ _ _ H). symmetry. eapply has_arr_send. exact H.
  - rewrite swget_overflow by exact Hi. reflexivity.
Qed.

Lemma map_ext_nth {A B} (f g : A -> B) d l : (forall j, (j < length l)%nat -> f (nth j l d) = g (nth j l d)) -> map f l = map g l.
Proof.
  induction l as [|x t IH]; intros H; cbn; [reflexivity|]. f_equal.
  - apply (H O). cbn. lia.
  - apply IH. intros j Hj. apply (H (Datatypes.S j)). cbn. lia.
Qed.

Lemma upd_map_ext {A B} (f g : A -> B) d i x l :
    (forall j, (j < length l)%nat -> j <> i -> f (nth j l d) = g (nth j l d)) -> upd i x (map f l) = upd i x (map g l).
Proof.
  revert i; induction l as [|y t IH]; intros i H; [destruct i; reflexivity|]. destruct i as [|i]; cbn [map upd].
  - f_equal. apply (map_ext_nth f g d). intros j Hj. apply (H (Datatypes.S j)); cbn; lia.
  - f_equal.
    + apply (H O); cbn; lia.
    + apply IH. intros j Hj Hne. apply (H (Datatypes.S j)); cbn; lia.
Qed.

Lemma sabs_step w i h' a' L' : winv w -> (i < length (sarrs w))%nat ->
    step_frame (sheap w) (swget i w) h' a' -> has_arr h' a' L' ->
    sabs (mk_sw h' (upd i a' (sarrs w))) = upd i (abs_arr a' L') (sabs w).
Proof.
  intros W Hi F H'. pose proof W as (Wa & _). unfold sabs. cbn [sheap sarrs]. rewrite map_upd. rewrite (has_arr_abs _ _ _ H').
  apply (upd_map_ext _ _ s_empty). intros j Hj Hne. destruct (Wa j Hj) as (Lj & Hjj).
  fold (swget j w). rewrite (has_arr_abs _ _ _ Hjj).
  apply has_arr_abs. apply (others_kept w i h' a' j Lj W Hi Hj ltac:(congruence) F Hjj).
Qed.

(* ---- one operation on variable i ------------------------------------------------------------------ *)
Lemma run1_ok w i (m : M sarr) r (f : marr -> marr) : winv w -> (i < length (sarrs w))%nat ->
    (forall L, has_arr (sheap w) (swget i w) L ->
       exists h' a' L', m (sheap w) = Ok a' h' /\ has_arr h' a' L' /\ abs_arr a' L' = f (abs_arr (swget i w) L)
                        /\ step_frame (sheap w) (swget i w) h' a') ->
    exists w', run1 w i m r = SOk w' r /\ winv w' /\ sabs w' = upd i (f (aget i (sabs w))) (sabs w).
Proof.
  intros W Hi Hop. pose proof W as (Wa & _). destruct (Wa i Hi) as (L & H).
  destruct (Hop L H) as (h' & a' & L' & Hm & H' & Eabs & F).
  unfold run1. rewrite Hm. eexists. split; [reflexivity|]. split.
  - eapply winv_step; eassumption.
  - rewrite (sabs_step w i h' a' L' W Hi F H'). rewrite (aget_sabs_has i w L H), Eabs. reflexivity.
Qed.

Lemma run2_ok w i (m : M (sarr * nat)) (rf : nat -> mres) (f : marr -> marr) (kf : list Z -> nat) : winv w -> (i < length (sarrs w))%nat ->
    (forall L, has_arr (sheap w) (swget i w) L ->
       exists h' a' L', m (sheap w) = Ok (a', kf L) h' /\ has_arr h' a' L' /\ abs_arr a' L' = f (abs_arr (swget i w) L)
                        /\ step_frame (sheap w) (swget i w) h' a') ->
    exists w', run2 w i m rf = SOk w' (rf (kf (items (aget i (sabs w))))) /\ winv w'
               /\ sabs w' = upd i (f (aget i (sabs w))) (sabs w).
Proof.
  intros W Hi Hop. pose proof W as (Wa & _). destruct (Wa i Hi) as (L & H).
  destruct (Hop L H) as (h' & a' & L' & Hm & H' & Eabs & F).
  unfold run2. rewrite Hm. eexists. split; [|split].
  - rewrite (aget_sabs_has i w L H). reflexivity.
  - eapply winv_step; eassumption.
  - rewrite (sabs_step w i h' a' L' W Hi F H'). rewrite (aget_sabs_has i w L H), Eabs. reflexivity.
Qed.

(* copy-construct a new object from variable j, destroy variable i, put the new object in its place *)
Lemma step_frame_copy h ai h1 c h2 :
    step_frame h s_empty h1 c -> (forall a'', sbeg a'' = None -> step_frame h1 ai h2 a'') ->
    (forall b, sbeg ai = Some b -> (b < length h)%nat) ->
    step_frame h ai h2 c /\ forall b, sbeg c = Some b -> (b < length h1)%nat -> nth_error h2 b = nth_error h1 b.
Proof.
  intros F1 F2' Hlt. pose proof (F2' s_empty eq_refl) as F2.
  assert (Hc : forall b, sbeg c = Some b -> (length h <= b)%nat).
  { intros b E. destruct (sf_beg _ _ _ _ F1) as [B|[B|(nb & B & Hnb)]]; cbn in B; congruence. }
  split; [split|].
  - pose proof (sf_len _ _ _ _ F1). pose proof (sf_len _ _ _ _ F2). lia.
  - intros b' Hb' Hn. rewrite (sf_other _ _ _ _ F2) by (try exact Hn; pose proof (sf_len _ _ _ _ F1); lia).
    apply (sf_other _ _ _ _ F1); [exact Hb'|discriminate].
  - destruct (sbeg c) as [b|] eqn:E; [|left; reflexivity]. right; right. exists b. split; [reflexivity|apply Hc; reflexivity].
  - intros bb blk Hbb Hl Hn. destruct (sf_live _ _ _ _ F2 bb blk Hbb Hl ltac:(discriminate)) as (Hlt1 & Hna).
    rewrite (sf_other _ _ _ _ F2 bb Hlt1 Hna) in Hbb. destruct (sf_live _ _ _ _ F1 bb blk Hbb Hl Hn) as (Hlt0 & _).
    split; assumption.
  - intros b E Hb1. pose proof (Hc b E) as Hge.
    apply (sf_other _ _ _ _ F2 b Hb1). intros E'. specialize (Hlt b E'). lia.
Qed.

(* ---- swap ------------------------------------------------------------------------------------------ *)
Definition swp (i j k : nat) : nat := if Nat.eqb k j then i else if Nat.eqb k i then j else k.

Lemma swp_invol i j k : swp i j (swp i j k) = k.
Proof.
  unfold swp. destruct (Nat.eqb k j) eqn:E1; destruct (Nat.eqb k i) eqn:E2;
    repeat match goal with |- context [Nat.eqb ?a ?b] => destruct (Nat.eqb a b) eqn:? end; lia.
Qed.

Lemma swp_lt i j k n : (i < n)%nat -> (j < n)%nat -> (k < n)%nat -> (swp i j k < n)%nat.
Proof. intros. unfold swp. destruct (Nat.eqb k j); [assumption|]. destruct (Nat.eqb k i); assumption. Qed.

Lemma nth_swap {A} (l : list A) d i j k : (i < length l)%nat -> (j < length l)%nat ->
    nth k (upd j (nth i l d) (upd i (nth j l d) l)) d = nth (swp i j k) l d.
Proof.
  intros Hi Hj. unfold swp. destruct (Nat.eqb k j) eqn:E1.
  - apply Nat.eqb_eq in E1. subst k. apply nth_upd_same. rewrite upd_length. exact Hj.
  - apply Nat.eqb_neq in E1. rewrite nth_upd_other by congruence. destruct (Nat.eqb k i) eqn:E2.
    + apply Nat.eqb_eq in E2. subst k. apply nth_upd_same. exact Hi.
    + apply Nat.eqb_neq in E2. apply nth_upd_other. congruence.
Qed.

Lemma winv_swap w i j : winv w -> (i < length (sarrs w))%nat -> (j < length (sarrs w))%nat ->
    winv (mk_sw (sheap w) (upd j (swget i w) (upd i (swget j w) (sarrs w)))).
Proof.
  intros (Wa & Wd & Wo) Hi Hj.
  assert (G : forall k, swget k (mk_sw (sheap w) (upd j (swget i w) (upd i (swget j w) (sarrs w)))) = swget (swp i j k) w).
  { intros k. unfold swget. cbn [sarrs]. apply nth_swap; assumption. }
  unfold winv. cbn [sheap]. cbn [sarrs]. rewrite !upd_length. split; [|split].
  - intros k Hk. rewrite G. apply Wa. apply swp_lt; assumption.
  - intros k1 k2 b H1 H2 E1 E2. rewrite G in E1, E2.
    assert (T : swp i j k1 = swp i j k2) by (apply (Wd _ _ b); try apply swp_lt; assumption).
    rewrite <- (swp_invol i j k1), <- (swp_invol i j k2), T. reflexivity.
  - intros b blk Hb Hl. destruct (Wo b blk Hb Hl) as (k & Hk & Ek). exists (swp i j k).
    split; [apply swp_lt; assumption|]. rewrite G, swp_invol. exact Ek.
Qed.

(* ---- every operation -------------------------------------------------------------------------------- *)
Lemma apre_sabs w op : winv w -> apre (awsize (sabs w)) (length (sabs w)) op = apre (swsize w) (length (sarrs w)) op.
Proof. intros W. rewrite sabs_length. apply apre_ext. intros i. apply awsize_sabs. exact W. Qed.

Lemma a_append_snd v A : snd (a_append v A) = length (items A).
Proof. unfold a_append. cbn [snd]. rewrite a_reserve_items. reflexivity. Qed.

Lemma winv_eta w : winv w -> winv (mk_sw (sheap w) (sarrs w)).
Proof. destruct w. exact (fun x => x). Qed.

Ltac fin w' r Hr W' Ea := exists w', r; rewrite Ea; split; [exact Hr|split; [exact W'|reflexivity]].

Theorem sstep_ok w op : winv w -> exists w' r, sstep w op = SOk w' r /\ winv w' /\ astep (sabs w) op = (sabs w', r).
Proof.
  intros W. pose proof W as (Wa & Wd & Wo).
  unfold sstep, astep. rewrite (apre_sabs w op W).
  destruct (apre (swsize w) (length (sarrs w)) op) eqn:Hpre; cbn [negb].
  2:{ exists w, MSkip. auto. }
  destruct op; cbn [apre] in Hpre; abools; unfold swsize in *;
    try (assert (Hi : (i < length (sarrs w))%nat) by assumption);
    try (assert (Hj : (j < length (sarrs w))%nat) by assumption).
  - (* ANew *)
    destruct (run1_ok w i (_ <- s_destruct (swget i w) ;; ret s_empty) MNone (fun _ => a_empty) W Hi) as (w' & Hr & W' & Ea).
    { intros L HL. destruct (s_destruct_ok _ _ _ HL) as (h' & Hd & F). exists h', s_empty, []. unfold bind. rewrite Hd.
      split; [reflexivity|]. split; [apply has_arr_empty|]. split; [reflexivity|apply F; reflexivity]. }
    fin w' MNone Hr W' Ea.
  - (* ANewCap *)
    destruct (run1_ok w i (_ <- s_destruct (swget i w) ;; ret (mk_sarr None 0 n)) MNone (fun _ => mk_marr [] n false) W Hi) as (w' & Hr & W' & Ea).
    { intros L HL. destruct (s_destruct_ok _ _ _ HL) as (h' & Hd & F). exists h', (mk_sarr None 0 n), []. unfold bind. rewrite Hd.
      split; [reflexivity|]. split; [|split; [reflexivity|apply F; reflexivity]].
      split; [|reflexivity]. unfold a_inv, asize, abs_arr. cbn [items cap allocated sbeg scap is_some length].
      split; [lia|]. split; [reflexivity|discriminate]. }
    fin w' MNone Hr W' Ea.
  - (* ACopy *)
    destruct (Wa j Hj) as (Lo & Ho).
    destruct (run1_ok w i (c <- s_copy_from (swget j w) s_empty ;; _ <- s_destruct (swget i w) ;; ret c) MNone
               (fun _ => a_copy_from (aget j (sabs w)) a_empty) W Hi) as (w' & Hr & W' & Ea).
    { intros L HL.
      destruct (s_copy_from_ok (swget j w) s_empty (sheap w) Lo (has_arr_empty _) Ho ltac:(intros; discriminate))
        as (h1 & c & Hc & H1 & Eabs1 & F1).
      assert (Hi1 : has_arr h1 (swget i w) L).
      { eapply has_arr_frame; [|exact HL]. intros b E. apply (sf_other _ _ _ _ F1); [exact (has_arr_lt _ _ _ _ HL E)|discriminate]. }
      destruct (s_destruct_ok _ _ _ Hi1) as (h2 & Hd & F2).
      destruct (step_frame_copy (sheap w) (swget i w) h1 c h2 F1 F2) as (F & Hkeep).
      { intros b E. exact (has_arr_lt _ _ _ _ HL E). }
      exists h2, c, Lo. unfold bind. rewrite Hc, Hd. split; [reflexivity|]. split.
      - eapply has_arr_frame; [|exact H1]. intros b E. apply Hkeep; [exact E|exact (has_arr_lt _ _ _ _ H1 E)].
      - split; [|exact F]. rewrite Eabs1. rewrite (aget_sabs_has j w Lo Ho). reflexivity. }
    fin w' MNone Hr W' Ea.
  - (* AAssign *)
    destruct (Nat.eqb i j) eqn:Eij.
    { exists w, MNone. auto. }
    apply Nat.eqb_neq in Eij. destruct (Wa j Hj) as (Lo & Ho).
    destruct (run1_ok w i (a0 <- s_clear (swget i w) ;; s_copy_from (swget j w) a0) MNone
               (fun A => a_copy_from (aget j (sabs w)) (a_clear A)) W Hi) as (w' & Hr & W' & Ea).
    { intros L HL. destruct (s_clear_ok _ _ _ HL) as (h1 & a0 & Hcl & HA0 & Eabs0 & F0).
      pose proof (others_kept w i h1 a0 j Lo W Hi Hj Eij F0 Ho) as Ho1.
      destruct (s_copy_from_ok (swget j w) a0 h1 Lo HA0 Ho1) as (h2 & a2 & Hc & H2 & Eabs2 & F2).
      { intros b E. apply (other_block_after (sheap w) (swget i w) h1 a0 b F0); [exact (has_arr_lt _ _ _ _ Ho E)|].
        intros E'. apply Eij. apply (Wd i j b Hi Hj E' E). }
      exists h2, a2, Lo. unfold bind. rewrite Hcl, Hc. split; [reflexivity|]. split; [exact H2|].
      split; [|eapply step_frame_trans; eassumption].
      rewrite Eabs2, Eabs0, (aget_sabs_has j w Lo Ho). reflexivity. }
    fin w' MNone Hr W' Ea.
  - (* AReserve *)
    destruct (run1_ok w i (s_reserve n (swget i w)) MNone (a_reserve n) W Hi) as (w' & Hr & W' & Ea).
    { intros L HL. destruct (s_reserve_ok n _ _ L HL) as (h' & a' & Hm & HL' & Eabs & F). exists h', a', L. auto. }
    fin w' MNone Hr W' Ea.
  - (* AResizeD *)
    destruct (run1_ok w i (s_resize 2 n (SVals [0]) (swget i w)) MNone (a_resize n 0) W Hi) as (w' & Hr & W' & Ea).
    { intros L HL. apply (s_resize_ok n (SVals [0]) 0 _ _ L HL); [assumption|apply src_ok_vals]. }
    fin w' MNone Hr W' Ea.
  - (* AResize *)
    destruct (run1_ok w i (s_resize 2 n (SVals [v]) (swget i w)) MNone (a_resize n v) W Hi) as (w' & Hr & W' & Ea).
    { intros L HL. apply (s_resize_ok n (SVals [v]) v _ _ L HL); [assumption|apply src_ok_vals]. }
    fin w' MNone Hr W' Ea.
  - (* AAppend *)
    destruct (run2_ok w i (s_append 2 (SVals [v]) (swget i w)) MRefIdx (fun A => fst (a_append v A)) (@length Z) W Hi) as (w' & Hr & W' & Ea).
    { intros L HL. destruct (s_append_ok (SVals [v]) v _ _ L HL (src_ok_vals _ _ _ _)) as (h' & a' & Hm & HL' & Eabs & F).
      exists h', a', (L ++ [v]). auto. }
    pose proof (a_append_snd v (aget i (sabs w))) as Hk.
    destruct (a_append v (aget i (sabs w))) as [a1 k1] eqn:Eap. cbn [fst snd] in *. subst k1.
    fin w' (MRefIdx (length (items (aget i (sabs w))))) Hr W' Ea.
  - (* AAppendArr *)
    destruct (Wa j Hj) as (Lo & Ho).
    destruct (run1_ok w i (s_append_arr (Nat.eqb i j) (swget j w) (swget i w)) MNone
               (fun A => a_append_all (items (aget j (sabs w))) A) W Hi) as (w' & Hr & W' & Ea).
    { intros L HL. destruct (s_append_arr_ok (Nat.eqb i j) (swget j w) (swget i w) (sheap w) L Lo HL Ho) as (h' & a' & Hm & HL' & Eabs & F).
      - intros E. apply Nat.eqb_eq in E. subst j. reflexivity.
      - intros E b Eo Ea'. apply Nat.eqb_neq in E. apply E. apply (Wd i j b Hi Hj Ea' Eo).
      - exists h', a', (L ++ Lo). split; [exact Hm|]. split; [exact HL'|]. split; [|exact F].
        rewrite Eabs, (aget_sabs_has j w Lo Ho). reflexivity. }
    fin w' MNone Hr W' Ea.
  - (* AAppendBuf *)
    destruct (run1_ok w i (s_append_buf (SVals vs) (length vs) (swget i w)) MNone (a_append_all vs) W Hi) as (w' & Hr & W' & Ea).
    { intros L HL. destruct (s_append_buf_ok vs _ _ L HL) as (h' & a' & Hm & HL' & Eabs & F). exists h', a', (L ++ vs). auto. }
    fin w' MNone Hr W' Ea.
  - (* ARemoveIdx *)
    destruct (run1_ok w i (s_remove_idx k (swget i w)) MNone (a_remove_idx k) W Hi) as (w' & Hr & W' & Ea).
    { intros L HL. unfold s_remove_idx, a_remove_idx. rewrite (has_arr_send _ _ _ HL), asize_abs.
      destruct (Nat.ltb k (length L)) eqn:Ek.
      - assert ((Z.of_nat k <? Z.of_nat (length L)) = true) as -> by lia.
        pose proof (s_remove_ok k _ _ L HL ltac:(lia)) as X. cbv zeta in X. destruct X as (h' & Hm & HL' & Eabs & F).
        eexists _, _, _. split; [exact Hm|]. split; [exact HL'|]. split; [exact Eabs|exact F].
      - assert ((Z.of_nat k <? Z.of_nat (length L)) = false) as -> by lia.
        exists (sheap w), (swget i w), L. split; [reflexivity|]. split; [exact HL|]. split; [reflexivity|apply step_frame_refl]. }
    fin w' MNone Hr W' Ea.
  - (* ARemoveIt *)
    destruct (run1_ok w i (s_remove k (swget i w)) (MIdx k) (fun A => mk_marr (shift_out k (items A)) (cap A) (allocated A)) W Hi)
      as (w' & Hr & W' & Ea).
    { intros L HL. pose proof (has_arr_send _ _ _ HL) as Hs.
      pose proof (s_remove_ok k _ _ L HL ltac:(lia)) as X. cbv zeta in X. destruct X as (h' & Hm & HL' & Eabs & F).
      eexists _, _, _. split; [exact Hm|]. split; [exact HL'|]. split; [exact Eabs|exact F]. }
    fin w' (MIdx k) Hr W' Ea.
  - (* ARemoveFront *)
    destruct (run1_ok w i (s_remove 0 (swget i w)) (MIdx 0) (fun A => mk_marr (shift_out 0 (items A)) (cap A) (allocated A)) W Hi)
      as (w' & Hr & W' & Ea).
    { intros L HL. pose proof (has_arr_send _ _ _ HL) as Hs.
      pose proof (s_remove_ok 0 _ _ L HL ltac:(lia)) as X. cbv zeta in X. destruct X as (h' & Hm & HL' & Eabs & F).
      eexists _, _, _. split; [exact Hm|]. split; [exact HL'|]. split; [exact Eabs|exact F]. }
    fin w' (MIdx 0) Hr W' Ea.
  - (* ARemoveBack *)
    cbv zeta. pose proof (awsize_sabs w i W) as Esz. unfold awsize, swsize in Esz. rewrite Esz.
    set (k := pred (send (swget i w))).
    destruct (run1_ok w i (s_remove k (swget i w)) (MIdx k) (fun A => mk_marr (shift_out k (items A)) (cap A) (allocated A)) W Hi)
      as (w' & Hr & W' & Ea).
    { intros L HL. pose proof (has_arr_send _ _ _ HL) as Hs.
      pose proof (s_remove_ok k _ _ L HL ltac:(unfold k; lia)) as X. cbv zeta in X. destruct X as (h' & Hm & HL' & Eabs & F).
      eexists _, _, _. split; [exact Hm|]. split; [exact HL'|]. split; [exact Eabs|exact F]. }
    fin w' (MIdx k) Hr W' Ea.
  - (* AFind *)
    cbv zeta. destruct (Wa i Hi) as (L & HL). rewrite (s_find_ok v _ _ L HL).
    exists (mk_sw (sheap w) (sarrs w)), (MIdx (a_find_from v L 0)). split; [reflexivity|]. split; [apply winv_eta; exact W|].
    rewrite (aget_sabs_has i w L HL). reflexivity.
  - (* AClear *)
    destruct (run1_ok w i (s_clear (swget i w)) MNone a_clear W Hi) as (w' & Hr & W' & Ea).
    { intros L HL. destruct (s_clear_ok _ _ L HL) as (h' & a' & Hm & HL' & Eabs & F). exists h', a', []. auto. }
    fin w' MNone Hr W' Ea.
  - (* ASwap *)
    eexists _, _. split; [reflexivity|]. split; [apply winv_swap; assumption|].
    f_equal. rewrite !aget_sabs. unfold sabs. cbn [sheap sarrs]. rewrite !map_upd. reflexivity.
  - (* AAppendOwn *)
    cbv zeta.
    destruct (run2_ok w i (s_append 2 (SPtr (sbeg (swget i w)) k) (swget i w)) MRefIdx
               (fun A => fst (a_append (nth k (items A) 0) A)) (@length Z) W Hi) as (w' & Hr & W' & Ea).
    { intros L HL. assert (Hk : (k < length L)%nat) by (rewrite <- (has_arr_send _ _ _ HL); assumption).
      destruct (s_append_ok (SPtr (sbeg (swget i w)) k) (nth k L 0) _ _ L HL) as (h' & a' & Hm & HL' & Eabs & F).
      { split.
        - pose proof (has_arr_reads _ _ L k 0 HL ltac:(lia)) as R. rewrite Nat.add_0_r in R. exact R.
        - destruct (sbeg (swget i w)); [intros _; exact Hk|exact Logic.I]. }
      exists h', a', (L ++ [nth k L 0]). auto. }
    pose proof (a_append_snd (nth k (items (aget i (sabs w))) 0) (aget i (sabs w))) as Hk.
    destruct (a_append (nth k (items (aget i (sabs w))) 0) (aget i (sabs w))) as [a1 k1] eqn:Eap. cbn [fst snd] in *. subst k1.
    fin w' (MRefIdx (length (items (aget i (sabs w))))) Hr W' Ea.
  - (* AResizeOwn *)
    cbv zeta.
    destruct (run1_ok w i (s_resize 2 n (SPtr (sbeg (swget i w)) k) (swget i w)) MNone
               (fun A => a_resize n (nth k (items A) 0) A) W Hi) as (w' & Hr & W' & Ea).
    { intros L HL. assert (Hk : (k < length L)%nat) by (rewrite <- (has_arr_send _ _ _ HL); assumption).
      apply (s_resize_ok n (SPtr (sbeg (swget i w)) k) (nth k L 0) _ _ L HL); [assumption|]. split.
      - pose proof (has_arr_reads _ _ L k 0 HL ltac:(lia)) as R. rewrite Nat.add_0_r in R. exact R.
      - destruct (sbeg (swget i w)); [intros _; exact Hk|exact Logic.I]. }
    fin w' MNone Hr W' Ea.
  - (* AAppendBufOwn *)
    cbv zeta.
    destruct (run1_ok w i (s_append_buf (SPtr (sbeg (swget i w)) off) n (swget i w)) MNone
               (fun A => a_append_all (firstn n (skipn off (items A))) A) W Hi) as (w' & Hr & W' & Ea).
    { intros L HL. assert (Hk : (off + n <= length L)%nat) by (rewrite <- (has_arr_send _ _ _ HL); assumption).
      pose proof (s_append_buf_own_ok off n _ _ L HL Hk) as X. cbv zeta in X. destruct X as (h' & a' & Hm & HL' & Eabs & F).
      eexists _, _, _. split; [exact Hm|]. split; [exact HL'|]. split; [exact Eabs|exact F]. }
    fin w' MNone Hr W' Ea.
  - (* AEq *)
    destruct (Wa i Hi) as (L & HL). destruct (Wa j Hj) as (Lj & HLj). rewrite (s_eq_ok _ _ _ L Lj HL HLj).
    eexists _, _. split; [reflexivity|]. split; [apply winv_eta; exact W|].
    rewrite (aget_sabs_has i w L HL), (aget_sabs_has j w Lj HLj). reflexivity.
  - (* ANe *)
    destruct (Wa i Hi) as (L & HL). destruct (Wa j Hj) as (Lj & HLj). rewrite (s_eq_ok _ _ _ L Lj HL HLj).
    eexists _, _. split; [reflexivity|]. split; [apply winv_eta; exact W|].
    rewrite (aget_sabs_has i w L HL), (aget_sabs_has j w Lj HLj). reflexivity.
Qed.

(* ---- histories -------------------------------------------------------------------------------------- *)
Definition sabs_trace (tr : list (sworld * mres)) : list (aworld * mres) :=
  map (fun wr => (sabs (fst wr), snd wr)) tr.

Lemma srun_ok ops : forall w, winv w ->
    exists tr, srun w ops = inl tr /\ sabs_trace tr = arun (sabs w) ops /\ Forall (fun wr => winv (fst wr)) tr.
Proof.
  induction ops as [|op t IH]; intros w W; cbn [srun arun].
  - exists []. split; [reflexivity|]. split; [reflexivity|constructor].
  - destruct (sstep_ok w op W) as (w1 & r & Hs & W1 & Ha). rewrite Hs, Ha.
    destruct (IH w1 W1) as (tr & Hr & Ht & Hf). rewrite Hr. exists ((w1, r) :: tr).
    split; [reflexivity|]. split; [cbn [sabs_trace map fst snd]; f_equal; exact Ht|constructor; [exact W1|exact Hf]].
Qed.

Lemma sabs_init nv : sabs (swinit nv) = ainit nv.
Proof. unfold sabs, swinit, ainit. cbn [sheap sarrs]. induction nv as [|n IH]; cbn; [reflexivity|]. f_equal. exact IH. Qed.

(* (1) no history reaches an access error; (2) after every operation the machine holds what the value-level
   model holds; and the invariant holds in every state on the way *)
Theorem arraymem_history nv ops :
    exists tr, srun (swinit nv) ops = inl tr /\ sabs_trace tr = arun (ainit nv) ops
               /\ Forall (fun wr => winv (fst wr)) tr.
Proof. rewrite <- sabs_init. apply srun_ok. apply winv_init. Qed.

Theorem arraymem_history_safe nv ops e : srun (swinit nv) ops <> inr e.
Proof. destruct (arraymem_history nv ops) as (tr & H & _). rewrite H. discriminate. Qed.

(* down to the reference sequences of the property statement *)
Theorem arraymem_history_refines_spec nv ops :
    exists tr, srun (swinit nv) ops = inl tr
               /\ aspec_run (sinit nv) ops = map (fun wr => (aabs (sabs (fst wr)), aobs_res (snd wr))) tr.
Proof.
  destruct (arraymem_history nv ops) as (tr & H & Ht & _). exists tr. split; [exact H|].
  rewrite array_history_refines, <- Ht. unfold aobs_trace, sabs_trace. rewrite map_map. reflexivity.
Qed.

(* what the invariant says about the cells of a variable's allocation and about the heap *)
Theorem winv_meaning w : winv w ->
    (forall i b, (i < length (sarrs w))%nat -> sbeg (swget i w) = Some b ->
       exists cs, nth_error (sheap w) b = Some (mk_block true cs)
                  /\ Z.of_nat (length cs) = scap (swget i w)
                  /\ (send (swget i w) <= length cs)%nat
                  /\ (forall k, (k < send (swget i w))%nat -> exists v, nth_error cs k = Some (Some v))
                  /\ (forall k, (send (swget i w) <= k < length cs)%nat -> nth_error cs k = Some None))
    /\ (forall i, (i < length (sarrs w))%nat -> sbeg (swget i w) = None -> send (swget i w) = O)
    /\ (forall i j b, (i < length (sarrs w))%nat -> (j < length (sarrs w))%nat ->
          sbeg (swget i w) = Some b -> sbeg (swget j w) = Some b -> i = j)
    /\ (forall b blk, nth_error (sheap w) b = Some blk -> blive blk = true ->
          exists i, (i < length (sarrs w))%nat /\ sbeg (swget i w) = Some b).
Proof.
  intros (Wa & Wd & Wo). split; [|split; [|split; [exact Wd|exact Wo]]].
  - intros i b Hi E. destruct (Wa i Hi) as (L & H). pose proof (has_arr_send _ _ _ H) as Hs. pose proof (has_arr_cap _ _ _ H) as Hc.
    destruct H as ((_ & _ & Ic) & Hm). rewrite E in Hm. destruct Hm as (Hb & _).
    cbn [abs_arr allocated cap] in Ic. rewrite E in Ic. specialize (Ic eq_refl).
    eexists. split; [exact Hb|]. rewrite Hs, app_length, map_length, repeat_length.
    split; [lia|]. split; [lia|]. split.
    + intros k Hk. exists (nth k L 0). rewrite nth_error_app1 by (rewrite map_length; exact Hk).
      rewrite nth_error_map, (nth_error_nth' L 0 Hk). reflexivity.
    + intros k Hk. rewrite nth_error_app2 by (rewrite map_length; lia). rewrite map_length.
      apply nth_error_repeat. lia.
  - intros i Hi E. destruct (Wa i Hi) as (L & (_ & Hm)). rewrite E in Hm. exact Hm.
Qed.
